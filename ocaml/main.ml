(* modelrun: reads one request per line, prints one reply per line (plus oracle call-backs). *)
open Proto
let () =
  (try
     while true do
       let line = input_line stdin in
       let reply =
         try
           match split_line line with
           | [] -> "fail empty"
           | op :: toks ->
             (match Hashtbl.find_opt ops op with
              | None -> "fail unknown-op " ^ op
              | Some f ->
                (match f (parse_values toks) with
                 | ROk v -> "ok " ^ show v
                 | RErr k -> "err " ^ k))
         with
         | Bad m -> "fail bad " ^ m
         | Stack_overflow -> "fail stack-overflow"
         | Not_found -> "fail not-found"
         | e -> "fail exn " ^ Printexc.to_string e in
       print_string (reply ^ "\n"); flush stdout
     done
   with End_of_file -> ())
