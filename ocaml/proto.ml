(* Line protocol between the harness and the extracted model (no logic of its own).
   value notation (tokens separated by single spaces):
     x<hex> bytes | i<dec> integer | b0/b1 bool | n None | s<hex-of-utf8> string
     [ v v v ] list | ( v v ) tuple
   request : <op> <v>...          reply: ok <v> | err <Kind> | fail <text>
   oracle call-back while a request runs:  ? <name> <v>...   answered by one line <v> *)
type value =
  | VB of Model.byte list
  | VI of Z.t
  | VBool of bool
  | VNone
  | VS of Model.byte list
  | VL of value list
  | VT of value list

exception Bad of string

let byte_tab : Model.byte array =
  Array.init 256 (fun i -> Model.lib_z2b (Z.of_int i))
let int_of_byte (b : Model.byte) : int = Z.to_int (Model.lib_b2z b)

let hexval c = match c with
  | '0'..'9' -> Char.code c - 48
  | 'a'..'f' -> Char.code c - 87
  | 'A'..'F' -> Char.code c - 55
  | _ -> raise (Bad "hex")

let bytes_of_hex (s : string) (off : int) : Model.byte list =
  let n = String.length s - off in
  if n mod 2 <> 0 then raise (Bad "odd hex");
  let rec go i acc =
    if i < 0 then acc
    else go (i - 1) (byte_tab.(hexval s.[off + 2*i] * 16 + hexval s.[off + 2*i + 1]) :: acc) in
  go (n / 2 - 1) []

let hex_of_bytes (l : Model.byte list) : string =
  let b = Buffer.create 64 in
  List.iter (fun x -> Buffer.add_string b (Printf.sprintf "%02x" (int_of_byte x))) l;
  Buffer.contents b

let rec parse_value (toks : string list) : value * string list =
  match toks with
  | [] -> raise (Bad "eof")
  | "[" :: rest -> let (vs, rest') = parse_seq "]" rest in (VL vs, rest')
  | "(" :: rest -> let (vs, rest') = parse_seq ")" rest in (VT vs, rest')
  | "n" :: rest -> (VNone, rest)
  | "b0" :: rest -> (VBool false, rest)
  | "b1" :: rest -> (VBool true, rest)
  | t :: rest when String.length t >= 1 ->
    (match t.[0] with
     | 'x' -> (VB (bytes_of_hex t 1), rest)
     | 's' -> (VS (bytes_of_hex t 1), rest)
     | 'i' -> (VI (Z.of_string (String.sub t 1 (String.length t - 1))), rest)
     | _ -> raise (Bad ("token " ^ t)))
  | _ -> raise (Bad "empty token")
and parse_seq (close : string) (toks : string list) : value list * string list =
  match toks with
  | t :: rest when t = close -> ([], rest)
  | _ -> let (v, rest) = parse_value toks in
    let (vs, rest') = parse_seq close rest in (v :: vs, rest')

let parse_values (toks : string list) : value list =
  let rec go toks acc = match toks with
    | [] -> List.rev acc
    | _ -> let (v, rest) = parse_value toks in go rest (v :: acc) in
  go toks []

let rec show (v : value) : string =
  match v with
  | VB l -> "x" ^ hex_of_bytes l
  | VS l -> "s" ^ hex_of_bytes l
  | VI z -> "i" ^ Z.to_string z
  | VBool b -> if b then "b1" else "b0"
  | VNone -> "n"
  | VL l -> "[ " ^ String.concat "" (List.map (fun x -> show x ^ " ") l) ^ "]"
  | VT l -> "( " ^ String.concat "" (List.map (fun x -> show x ^ " ") l) ^ ")"

let split_line (s : string) : string list =
  List.filter (fun t -> t <> "") (String.split_on_char ' ' (String.trim s))

(* ---- oracle call-backs (hash functions etc. are NOT repo code: answered by the harness) ---- *)
let oracle (name : string) (args : value list) : value =
  print_string ("? " ^ name ^ String.concat "" (List.map (fun a -> " " ^ show a) args) ^ "\n");
  flush stdout;
  let line = input_line stdin in
  match parse_values (split_line line) with
  | [v] -> v
  | _ -> raise (Bad "oracle reply")

let oracle_bytes name args = match oracle name args with VB b -> b | _ -> raise (Bad "oracle type")
let sha256 (m : Model.byte list) = oracle_bytes "sha256" [VB m]
let ripemd160 (m : Model.byte list) = oracle_bytes "ripemd160" [VB m]
let sha512 (m : Model.byte list) = oracle_bytes "sha512" [VB m]
let hmac_sha512 (k : Model.byte list) (m : Model.byte list) = oracle_bytes "hmac_sha512" [VB k; VB m]
let pbkdf2_sha512 (p : Model.byte list) (s : Model.byte list) (iters : Z.t) (dklen : Z.t) =
  oracle_bytes "pbkdf2_sha512" [VB p; VB s; VI iters; VI dklen]
let nfkd (s : Model.byte list) = oracle_bytes "nfkd" [VB s]
let b64enc (s : Model.byte list) = oracle_bytes "b64enc" [VB s]
let b64dec (s : Model.byte list) : Model.byte list option =
  match oracle "b64dec" [VB s] with VB b -> Some b | VNone -> None | _ -> raise (Bad "oracle type")

(* ---- replies ---- *)
type reply = ROk of value | RErr of string

let err_name (e : Model.err) : string = match e with
  | Model.AssertionE -> "AssertionE" | Model.ValueE -> "ValueE" | Model.KeyE -> "KeyE"
  | Model.IndexE -> "IndexE" | Model.TypeE -> "TypeE" | Model.OverflowE -> "OverflowE"
  | Model.AttributeE -> "AttributeE" | Model.ConnE -> "ConnE" | Model.OtherE -> "OtherE"
  | Model.FuelE -> "FuelE"

let of_result (f : 'a -> value) (r : 'a Model.result) : reply =
  match r with Model.Ok a -> ROk (f a) | Model.Err e -> RErr (err_name e)

(* argument accessors *)
let vb = function VB b -> b | VS b -> b | _ -> raise (Bad "expected bytes")
let vi = function VI z -> z | _ -> raise (Bad "expected int")
let vbool = function VBool b -> b | _ -> raise (Bad "expected bool")
let vl = function VL l -> l | VT l -> l | _ -> raise (Bad "expected list")
let vopt f = function VNone -> None | v -> Some (f v)
let nat_of_z (z : Z.t) = z   (* placeholder: nat is extracted by ExtrOcamlBasic as unary; see ops *)

let ops : (string, value list -> reply) Hashtbl.t = Hashtbl.create 97
let register (name : string) (f : value list -> reply) = Hashtbl.replace ops name f
