(* C18 glue: value conversion only *)
open Proto
let frame_of_v = function
  | VT [c; p] | VL [c; p] -> (vb c, vb p)
  | _ -> raise (Bad "expected (command, payload)")
let progs_of_v v = List.map (fun prog -> List.map frame_of_v (vl prog)) (vl v)
let sched_of_v v = List.map vi (vl v)
let v_of_frame (c, p) = VT [VB c; VB p]
let v_of_opt = function Some b -> VB b | None -> VNone
let v_of_obs ((((q, proj), sent), stored), fin) =
  VT [ VL (List.map (fun (t, f) -> let (c, p) = f in VT [VI t; VB c; VB p]) q);
       VL (List.map (fun l -> VL (List.map v_of_frame l)) proj);
       VL (List.map (fun l -> VL (List.map v_of_frame l)) sent);
       VL (List.map v_of_opt stored);
       VBool fin ]
let () =
  register "c18_run" (function [p; s] -> ROk (v_of_obs (Model.c18_run (progs_of_v p) (sched_of_v s))) | _ -> raise (Bad "arity"));
  register "c18_run_old" (function [p; s] -> ROk (v_of_obs (Model.c18_run_old (progs_of_v p) (sched_of_v s))) | _ -> raise (Bad "arity"));
  register "c18_run_eager" (function [p; s] -> ROk (v_of_obs (Model.c18_run_eager (progs_of_v p) (sched_of_v s))) | _ -> raise (Bad "arity"));
  register "c18_run_old_eager" (function [p; s] -> ROk (v_of_obs (Model.c18_run_old_eager (progs_of_v p) (sched_of_v s))) | _ -> raise (Bad "arity"));
  register "c18_spec" (function [p] ->
      let ((q, sent), stored) = Model.c18_spec (progs_of_v p) in
      ROk (VT [ VL (List.map (fun l -> VL (List.map v_of_frame l)) q);
                VL (List.map (fun l -> VL (List.map v_of_frame l)) sent);
                VL (List.map v_of_opt stored) ])
    | _ -> raise (Bad "arity"))
