open Proto
(* conversions only *)
let bad () = raise (Bad "arity")
let () =
  register "c08_scriptpubkey" (function [p; a; b; d] ->
      of_result (fun s -> VB s) (Model.c08_scriptpubkey sha256 (vi p) (vi a) (vi b) (vb d)) | _ -> bad ());
  register "c08_to_bitcoin_address" (function [pl; ty; net; wv] ->
      of_result (fun s -> VB s) (Model.c08_to_bitcoin_address sha256 (vb pl) (vb ty) (vb net) (vopt vi wv)) | _ -> bad ());
  register "c08_addr_script" (function [p; a; b; pl; ty; net; wv] ->
      of_result (fun (ad, s) -> VT [VB ad; VB s])
        (Model.c08_addr_script sha256 (vi p) (vi a) (vi b) (vb pl) (vb ty) (vb net) (vopt vi wv)) | _ -> bad ())
