open Proto
let vpoint (v : value) : (Z.t * Z.t) option =
  match v with
  | VNone -> None
  | VT [VI x; VI y] | VL [VI x; VI y] -> Some (x, y)
  | _ -> raise (Bad "expected point")
let of_point (p : (Z.t * Z.t) option) : value =
  match p with None -> VNone | Some (x, y) -> VT [VI x; VI y]
let () =
  (* args: p a [b] ... *)
  register "c03_point_add" (function [p; a; x; y] ->
      of_result of_point (Model.c03_point_add (vi p) (vi a) (vpoint x) (vpoint y)) | _ -> raise (Bad "arity"));
  register "c03_point_scalar_mul" (function [p; a; k; x] ->
      of_result of_point (Model.c03_point_scalar_mul (vi p) (vi a) (vi k) (vpoint x)) | _ -> raise (Bad "arity"));
  register "c03_point_negate" (function [p; x] ->
      of_result of_point (Model.c03_point_negate (vi p) (vpoint x)) | _ -> raise (Bad "arity"));
  register "c03_point_is_on_curve" (function [p; a; b; x; y] ->
      of_result (fun r -> VBool r) (Model.c03_point_is_on_curve (vi p) (vi a) (vi b) (vi x) (vi y)) | _ -> raise (Bad "arity"));
  register "c03_privkey_int" (function [n; k] ->
      of_result (fun z -> VI z) (Model.c03_privkey_int (vi n) (vb k)) | _ -> raise (Bad "arity"));
  register "c03_compute_point" (function [p; a; n; g; k] ->
      of_result of_point (Model.c03_compute_point (vi p) (vi a) (vi n) (vpoint g) (vb k)) | _ -> raise (Bad "arity"));
  register "c03_pub" (function [p; a; n; g; k; c] ->
      of_result (fun b -> VB b) (Model.c03_pub (vi p) (vi a) (vi n) (vpoint g) (vb k) (vbool c)) | _ -> raise (Bad "arity"));
  register "c03_key_of_draw" (function [d] ->
      of_result (fun b -> VB b) (Model.c03_key_of_draw (vi d)) | _ -> raise (Bad "arity"))
