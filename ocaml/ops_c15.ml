open Proto
let vbl v = List.map vb (vl v)
let ob = function Some b -> VB b | None -> VNone
let header_v (h : Model.header) =
  VT [VI h.Model.h_version; VB h.Model.h_prev; VB h.Model.h_merkle; VI h.Model.h_time; VB h.Model.h_bits; VI h.Model.h_nonce]
let txin_v (i : Model.txin_t) = VT [VB i.Model.ti_txid; VI i.Model.ti_vout; VB i.Model.ti_script; VB i.Model.ti_seq]
let txout_v (o : Model.txout_t) = VT [VI o.Model.to_value; VB o.Model.to_script]
let parsed_v (p : Model.tx_parsed) =
  let t = p.Model.p_tx in
  VT [VB p.Model.p_txid; VB p.Model.p_wtxid; VB p.Model.p_raw; VI t.Model.tx_version;
      VL (List.map txin_v t.Model.tx_ins); VL (List.map txout_v t.Model.tx_outs);
      (match t.Model.tx_wits with None -> VNone | Some ws -> VL (List.map (fun w -> VL (List.map (fun d -> VB d) w)) ws));
      VI t.Model.tx_locktime]
let () =
  register "c15_merkle_root" (function [l] -> of_result (fun b -> VB b) (Model.c15_merkle_root sha256 (vbl l)) | _ -> raise (Bad "arity"));
  register "c15_spec_merkle" (function [l] -> ROk (VB (Model.c15_spec_merkle sha256 (vbl l))) | _ -> raise (Bad "arity"));
  register "c15_spec_subsidy" (function [h; i] -> ROk (VI (Model.c15_spec_subsidy (vi h) (vi i))) | _ -> raise (Bad "arity"));
  register "c15_spec_push_int" (function [h] -> ROk (VB (Model.c15_spec_push_int (vi h))) | _ -> raise (Bad "arity"));
  register "c15_coinbase_txin" (function
    | [cs; seq; h] -> of_result (fun b -> VB b) (Model.c15_coinbase_txin (vb cs) (vb seq) (vopt vi h))
    | _ -> raise (Bad "arity"));
  register "c15_coinbase_tx" (function
    | [cs; spk; reward; h; regtest; wroot] ->
      of_result (fun b -> VB b)
        (Model.c15_coinbase_tx (vb cs) (vb spk) (vopt vi reward) (vopt vi h) (vbool regtest) (vopt vb wroot))
    | _ -> raise (Bad "arity"));
  register "c15_block_header" (function
    | [v; p; m; t; b; n] ->
      of_result (fun x -> VB x) (Model.c15_block_header (Model.c15_mk_header (vi v) (vb p) (vb m) (vi t) (vb b) (vi n)))
    | _ -> raise (Bad "arity"));
  register "c15_block_header_deser" (function [b] -> of_result header_v (Model.c15_block_header_deser (vb b)) | _ -> raise (Bad "arity"));
  register "c15_block_ser" (function [h; l] -> of_result (fun x -> VB x) (Model.c15_block_ser (vb h) (vbl l)) | _ -> raise (Bad "arity"));
  register "c15_block_deser" (function
    | [b] -> of_result (fun (h, ps) -> VT [header_v h; VL (List.map parsed_v ps)]) (Model.c15_block_deser sha256 (vb b))
    | _ -> raise (Bad "arity"));
  register "c15_mine_block_commitment" (function
    | [l] -> of_result (fun x -> VB x) (Model.c15_mine_block_commitment sha256 (vbl l)) | _ -> raise (Bad "arity"));
  register "c15_mine_block_assemble" (function
    | [spk; h; rt; l] ->
      of_result (fun (cb, mr) -> VT [VB cb; VB mr]) (Model.c15_mine_block_assemble sha256 (vb spk) (vi h) (vbool rt) (vbl l))
    | _ -> raise (Bad "arity"))
;;
(* ---- extension: target_threshold (int -> i, float -> exact ratio (num den)), median_time, genesis_* ---- *)
let pynum_v = function Model.PInt z -> VI z | Model.PFloat (n, d) -> VT [VI n; VI d]
let () =
  register "c15_target_threshold" (function [b] -> ROk (pynum_v (Model.c15_target_threshold (vb b))) | _ -> raise (Bad "arity"));
  register "c15_difficulty" (function [t; n] -> of_result pynum_v (Model.c15_difficulty (vi t) (vb n)) | _ -> raise (Bad "arity"));
  register "c15_median_time" (function
    | [l] -> of_result (fun z -> VI z) (Model.c15_median_time (List.map vi (vl l))) | _ -> raise (Bad "arity"));
  register "c15_genesis_coinbase_tx" (function [] -> of_result (fun b -> VB b) Model.c15_genesis_coinbase_tx | _ -> raise (Bad "arity"));
  register "c15_genesis_block" (function [] -> of_result (fun b -> VB b) (Model.c15_genesis_block sha256) | _ -> raise (Bad "arity"));
  register "c15_spec_setcompact" (function
    | [c] -> let ((v, n), o) = Model.c15_spec_setcompact (vi c) in ROk (VT [VI v; VBool n; VBool o]) | _ -> raise (Bad "arity"))
