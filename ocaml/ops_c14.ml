open Proto
(* conversions only: trees <-> the line notation
   node  = ( i<tnum> b<constructed> i<class> i<len> V )    V = [ node ... ] | x<bytes> | s<oid string> *)
let bytes_of_string (s : string) : Model.byte list =
  List.init (String.length s) (fun i -> byte_tab.(Char.code s.[i]))
let string_of_bytes (l : Model.byte list) : string =
  String.concat "" (List.map (fun b -> String.make 1 (Char.chr (int_of_byte b))) l)

let oid_to_value (o : Model.oidv) : value =
  match o with
  | Model.IdEcPublicKey -> VS (bytes_of_string "id-ecPublicKey")
  | Model.IdAnsip256k1 -> VS (bytes_of_string "id-ansip256k1")
  | Model.Dotted l -> VS (bytes_of_string (String.concat "." (List.map Z.to_string l)))

let oid_of_string (s : string) : Model.oidv =
  if s = "id-ecPublicKey" then Model.IdEcPublicKey
  else if s = "id-ansip256k1" then Model.IdAnsip256k1
  else Model.Dotted (List.map Z.of_string (String.split_on_char '.' s))

let rec node_to_value (n : Model.node) : value =
  match n with
  | Model.Node (t, len, v) ->
    VT [VI t.Model.tnum; VBool t.Model.tcons; VI t.Model.tcls; VI len; val_to_value v]
and val_to_value (v : Model.value) : value =
  match v with
  | Model.VList l -> VL (List.map node_to_value l)
  | Model.VBytes b -> VB b
  | Model.VOid o -> oid_to_value o

let rec node_of_value (v : value) : Model.node =
  match v with
  | VT [tn; c; k; len; x] | VL [tn; c; k; len; x] ->
    Model.Node ({ Model.tnum = vi tn; Model.tcons = vbool c; Model.tcls = vi k }, vi len, val_of_value x)
  | _ -> raise (Bad "node")
and val_of_value (v : value) : Model.value =
  match v with
  | VL l -> Model.VList (List.map node_of_value l)
  | VB b -> Model.VBytes b
  | VS s -> Model.VOid (oid_of_string (string_of_bytes s))
  | _ -> raise (Bad "value")

let pt x y = VT [VI x; VI y]
let g_of gx gy : Model.point = Some (vi gx, vi gy)

let () =
  register "c14_pubkey" (function [x; y; c] -> of_result (fun b -> VB b) (Model.c14_pubkey (vi x) (vi y) (vbool c)) | _ -> raise (Bad "arity"));
  register "c14_point" (function [p; a; b; bs] ->
    of_result (fun (x, y) -> pt x y) (Model.c14_point (vi p) (vi a) (vi b) (vb bs)) | _ -> raise (Bad "arity"));
  register "c14_is_point" (function [p; a; b; bs] ->
    of_result (fun r -> VBool r) (Model.c14_is_point (vi p) (vi a) (vi b) (vb bs)) | _ -> raise (Bad "arity"));
  register "c14_compressed_pubkey" (function [p; a; b; bs] ->
    of_result (fun r -> VB r) (Model.c14_compressed_pubkey (vi p) (vi a) (vi b) (vb bs)) | _ -> raise (Bad "arity"));
  register "c14_wif_encode" (function [n; k; ty; net; data] ->
    of_result (fun r -> VB r) (Model.c14_wif_encode sha256 (vi n) (vb k) (vb ty) (vb net) (vb data)) | _ -> raise (Bad "arity"));
  register "c14_wif_decode" (function [w] ->
    of_result (fun ((v, k), d) -> VT [VB v; VB k; VB d]) (Model.c14_wif_decode sha256 (vb w)) | _ -> raise (Bad "arity"));
  register "c14_wif_decode_full" (function [w] ->
    of_result (fun ((((v, net), ty), k), d) -> VT [VB v; VS net; VS ty; VB k; VB d]) (Model.c14_wif_decode_full sha256 (vb w))
    | _ -> raise (Bad "arity"));
  register "c14_parse_asn1" (function [d] ->
    of_result (fun l -> VL (List.map node_to_value l)) (Model.c14_parse_asn1 (vb d)) | _ -> raise (Bad "arity"));
  register "c14_encode_node" (function [t] ->
    of_result (fun r -> VB r) (Model.c14_encode_node (node_of_value t)) | _ -> raise (Bad "arity"));
  register "c14_encode_oid" (function [s] ->
    of_result (fun r -> VB r) (Model.c14_encode_oid (List.map Z.of_string (String.split_on_char '.' (string_of_bytes (vb s)))))
    | _ -> raise (Bad "arity"));
  register "c14_parse_oid" (function [d] ->
    of_result (fun l -> VS (bytes_of_string (String.concat "." (List.map Z.to_string l)))) (Model.c14_parse_oid (vb d))
    | _ -> raise (Bad "arity"));
  register "c14_encode_pem" (function [der; h; f] ->
    ROk (VB (Model.c14_encode_pem b64enc (vb der) (vb h) (vb f))) | _ -> raise (Bad "arity"));
  register "c14_decode_base64_pem" (function [pem] ->
    of_result (fun r -> VB r) (Model.c14_decode_base64_pem b64dec (vb pem)) | _ -> raise (Bad "arity"));
  register "c14_pem_encode_key" (function [p; a; n; gx; gy; key] ->
    of_result (fun r -> VB r) (Model.c14_pem_encode_key b64enc (vi p) (vi a) (vi n) (g_of gx gy) (vb key)) | _ -> raise (Bad "arity"));
  register "c14_der_encode_key" (function [p; a; n; gx; gy; key] ->
    of_result (fun r -> VB r) (Model.c14_der_encode_key (vi p) (vi a) (vi n) (g_of gx gy) (vb key)) | _ -> raise (Bad "arity"));
  register "c14_pem_decode_key" (function [pem] ->
    of_result (fun l -> VT (List.map val_to_value l)) (Model.c14_pem_decode_key b64dec (vb pem)) | _ -> raise (Bad "arity"));
  register "c14_pubkey_from_pem" (function [pem] ->
    of_result (function Model.Inl v -> val_to_value v | Model.Inr l -> VT (List.map val_to_value l))
      (Model.c14_pubkey_from_pem b64dec (vb pem)) | _ -> raise (Bad "arity"));
  register "c14_cli_pubkey" (function [p; a; b; n; gx; gy; data; c; pem] ->
    of_result (fun r -> VB r) (Model.c14_cli_pubkey b64enc (vi p) (vi a) (vi b) (vi n) (g_of gx gy) (vb data) (vbool c) (vbool pem))
    | _ -> raise (Bad "arity"));
  register "c14_wif_decode_seq" (function [ws; _mode] ->
    of_result (fun l -> VL (List.map (fun ((((v, net), ty), k), d) -> VT [VB v; VS net; VS ty; VB k; VB d]) l))
      (Model.c14_wif_decode_seq sha256 (List.map vb (vl ws))) | _ -> raise (Bad "arity"))
;
  (* armor layer for any label *)
  register "c14_decode_pem" (function [pem] ->
    of_result (fun r -> VB r) (Model.c14_decode_pem b64dec (vb pem)) | _ -> raise (Bad "arity"));
  register "c14_encode_pem_default" (function [der] ->
    ROk (VB (Model.c14_encode_pem_default b64enc (vb der))) | _ -> raise (Bad "arity"));
  register "c14_pem_roundtrip" (function [label; der; ws1; ws2] ->
    of_result (fun (pem, d) -> VT [VB pem; VB d]) (Model.c14_pem_roundtrip b64enc b64dec (vb label) (vb der) (vb ws1) (vb ws2))
    | _ -> raise (Bad "arity"))
