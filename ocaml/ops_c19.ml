open Proto
let bad () = raise (Bad "arity")
let dir v = List.map (fun f -> match vl f with [n; c] -> (vi n, vb c) | _ -> raise (Bad "file")) (vl v)
let batches v = List.map (fun b -> List.map vb (vl b)) (vl v)
let listing l = VL (List.map (fun (name, c) -> VT [VS name; VB c]) l)
let () =
  register "c19_history" (function [mx; magic; fs; bs] ->
      ROk (listing (Model.c19_history (vi mx) (vb magic) (dir fs) (batches bs))) | _ -> bad ());
  register "c19_history_crash" (function [mx; magic; fs; bs; k] ->
      let (l, crashed) = Model.c19_history_crash (vi mx) (vb magic) (dir fs) (batches bs) (vi k) in
      ROk (VT [listing l; VBool crashed]) | _ -> bad ());
  register "c19_blk_name" (function [n] -> ROk (VS (Model.c19_blk_name (vi n))) | _ -> bad ());
  register "c19_current_file" (function [fs] -> ROk (VI (Model.c19_current_file (dir fs))) | _ -> bad ())
let () =
  register "c19_record" (function [m; b] -> of_result (fun x -> VB x) (Model.c19_record (vb m) (vb b)) | _ -> bad ())
