open Proto
let triple ((h, v), p) = VT [VB h; VI v; VB p]
let pair (h, d) = VT [VB h; VB d]
let unit_ () = VNone
let vil v = List.map vi (vl v)
let bad () = raise (Bad "arity")
(* batch variants: one reply element per input; an error is reported as its kind name (a string) *)
let bytes_of_string (s : string) = List.init (String.length s) (fun i -> byte_tab.(Char.code s.[i]))
let elem f r = match r with Model.Ok a -> f a | Model.Err e -> VS (bytes_of_string (err_name e))
let item3 v = match v with VT [d; v; n] | VL [d; v; n] -> (vb d, vi v, vb n) | _ -> raise (Bad "item")
let () =
  register "c06_segwit_addr" (function [d; v; n] -> of_result (fun b -> VB b) (Model.c06_segwit_addr (vb d) (vi v) (vb n)) | _ -> bad ());
  register "c06_to_bitcoin_address_witness" (function [d; n; v] -> of_result (fun b -> VB b) (Model.c06_to_bitcoin_address_witness (vb d) (vb n) (vi v)) | _ -> bad ());
  register "c06_decode_segwit_addr" (function [a] -> of_result triple (Model.c06_decode_segwit_addr (vb a)) | _ -> bad ());
  register "c06_decode_segwit_addr_" (function [a; s] -> of_result triple (Model.c06_decode_segwit_addr_ (vb a) (vbool s)) | _ -> bad ());
  register "c06_assert_valid_segwit" (function [h; v; p] -> of_result unit_ (Model.c06_assert_valid_segwit (vb h) (vi v) (vb p)) | _ -> bad ());
  register "c06_decode_valid" (function [a] -> of_result triple (Model.c06_decode_valid (vb a)) | _ -> bad ());
  register "c06_is_segwit_addr" (function [a] -> of_result (fun b -> VBool b) (Model.c06_is_segwit_addr (vb a)) | _ -> bad ());
  register "c06_is_addr" (function [a] -> of_result (fun b -> VBool b) (Model.c06_is_addr sha256 (vb a)) | _ -> bad ());
  register "c06_assert_addr" (function [a] -> of_result (fun b -> VBool b) (Model.c06_assert_addr sha256 (vb a)) | _ -> bad ());
  register "c06_parse_bech32" (function [a] -> of_result pair (Model.c06_parse_bech32 (vb a)) | _ -> bad ());
  register "c06_assert_valid_bech32" (function [h; d; c] -> of_result unit_ (Model.c06_assert_valid_bech32 (vb h) (vb d) (vi c)) | _ -> bad ());
  register "c06_bech32_encode" (function [h; d; w; c] -> of_result (fun b -> VB b) (Model.c06_bech32_encode (vb h) (vb d) (vb w) (vi c)) | _ -> bad ());
  register "c06_bech32_decode" (function [d] -> of_result (fun b -> VB b) (Model.c06_bech32_decode (vb d)) | _ -> bad ());
  register "c06_decode_bech32_string" (function [a; c] -> of_result pair (Model.c06_decode_bech32_string (vb a) (vi c)) | _ -> bad ());
  register "c06_bech32_polymod" (function [l] -> ROk (VI (Model.c06_bech32_polymod (vil l))) | _ -> bad ());
  register "c06_bech32_create_checksum" (function [h; d; c] -> ROk (VL (List.map (fun z -> VI z) (Model.c06_bech32_create_checksum (vb h) (vil d) (vi c)))) | _ -> bad ());
  register "c06_bech32_verify_checksum" (function [h; d; c] -> ROk (VBool (Model.c06_bech32_verify_checksum (vb h) (vil d) (vi c))) | _ -> bad ());
  register "c06_spec_decode" (function [a] -> ROk (match Model.c06_spec_decode (vb a) with Some t -> triple t | None -> VNone) | _ -> bad ());
  register "c06_valid_segwit" (function [a] -> ROk (VBool (Model.c06_valid_segwit (vb a))) | _ -> bad ());
  register "c06_classify_batch" (function [l] ->
      ROk (VL (List.map (fun s -> let s = vb s in
        VT [elem triple (Model.c06_decode_valid s); elem (fun b -> VBool b) (Model.c06_is_segwit_addr s);
            elem (fun b -> VBool b) (Model.c06_is_addr sha256 s)]) (vl l))) | _ -> bad ());
  register "c06_encode_batch" (function [l] ->
      ROk (VL (List.map (fun it -> let (d, v, n) = item3 it in elem (fun b -> VB b) (Model.c06_segwit_addr d v n)) (vl l))) | _ -> bad ());
  register "c06_cli_bech32_decode" (function [a] ->
      of_result (function Model.CliSegwit (h, v, p) -> VT [VS (bytes_of_string "segwit"); VB h; VI v; VB p]
                        | Model.CliBech32 (h, p) -> VT [VS (bytes_of_string "bech32"); VB h; VB p])
        (Model.c06_cli_bech32_decode (vb a)) | _ -> bad ());
  register "c06_cli_bech32_encode" (function [h; d; w; pr] ->
      of_result (fun b -> VB b) (Model.c06_cli_bech32_encode (vb h) (vb d) (vopt vi w) (vbool pr)) | _ -> bad ())
