open Proto
(* Py_UNICODE_TODECIMAL for non-ASCII code points is not repo code: answered by the harness (unicodedata) *)
let udec (c : Z.t) : Z.t option =
  match oracle "udecimal" [VI c] with VI d -> Some d | VNone -> None | _ -> raise (Bad "oracle type")
let text v = List.map vi (vl v)
let of_text t = VL (List.map (fun c -> VI c) t)
let pyval = function
  | VNone -> Model.PNone
  | VS s -> Model.PStr s
  | VB s -> Model.PStr s
  | VI z -> Model.PInt z
  | VBool b -> Model.PBool b
  | _ -> raise (Bad "pyval")
let of_pyval = function
  | Model.PNone -> VNone
  | Model.PStr s -> VS s
  | Model.PInt z -> VI z
  | Model.PBool b -> VBool b
  | Model.POther (_, r) -> VT [VS r]
let pair f v = match vl v with [k; x] -> (vb k, f x) | _ -> raise (Bad "pair")
let dict v = List.map (pair pyval) (vl v)
let of_dict d = VL (List.map (fun (k, v) -> VT [VS k; of_pyval v]) d)
let optdict = vopt dict
let cli v = List.map (pair (vopt vb)) (vl v)
let of_out (raw, txt) = VT [VB raw; of_text txt]
let () =
  register "c20_read_bytes" (function [f; raw; txt] ->
      of_result (fun b -> VB b) (Model.c20_read_bytes udec (pyval f) (Model.c20_mkin (vb raw) (text txt)))
    | _ -> raise (Bad "arity"));
  register "c20_write_bytes" (function [ls; f; d] ->
      of_result of_out (Model.c20_write_bytes (text ls) (pyval f) (vb d))
    | _ -> raise (Bad "arity"));
  register "c20_main_config" (function [ht; sub; c; ft; fj] ->
      of_result of_dict (Model.c20_main_config (vbool ht) (vb sub) (cli c) (optdict ft) (optdict fj))
    | _ -> raise (Bad "arity"));
  register "c20_main_base" (function [ls; ht; c; ft; fj; raw; txt] ->
      of_result (fun (cfg, out) -> VT [of_dict cfg; of_out out])
        (Model.c20_main_base udec (text ls) (vbool ht) (cli c) (optdict ft) (optdict fj) (Model.c20_mkin (vb raw) (text txt)))
    | _ -> raise (Bad "arity"));
  register "c20_format_option" (function [s] -> of_result of_pyval (Model.c20_format_option (vb s)) | _ -> raise (Bad "arity"));
  register "c20_convert" (function [f; g; d] -> of_result (fun b -> VB b) (Model.c20_convert udec (pyval f) (pyval g) (vb d)) | _ -> raise (Bad "arity"));
  register "c20_io_formats" (function [ht; sub; c; ft; fj; fi; fo] ->
      of_result (fun b -> VBool b) (Model.c20_io_formats (vbool ht) (vb sub) (cli c) (optdict ft) (optdict fj) (pyval fi) (pyval fo))
    | _ -> raise (Bad "arity"));
  register "c20_option_is" (function [ht; sub; c; ft; fj; o; v] ->
      of_result (fun b -> VBool b) (Model.c20_option_is (vbool ht) (vb sub) (cli c) (optdict ft) (optdict fj) (vb o) (pyval v))
    | _ -> raise (Bad "arity"))
