open Proto
let () =
  register "c07_base58encode" (function [a] -> ROk (VB (Model.c07_base58encode (vb a))) | _ -> raise (Bad "arity"));
  register "c07_base58decode" (function [a] -> of_result (fun b -> VB b) (Model.c07_base58decode (vb a)) | _ -> raise (Bad "arity"));
  register "c07_base58check" (function [a] -> ROk (VB (Model.c07_base58check sha256 (vb a))) | _ -> raise (Bad "arity"));
  register "c07_base58check_decode" (function [a] -> of_result (fun b -> VB b) (Model.c07_base58check_decode sha256 (vb a)) | _ -> raise (Bad "arity"));
  register "c07_is_base58check" (function [a] -> ROk (VBool (Model.c07_is_base58check sha256 (vb a))) | _ -> raise (Bad "arity"))
