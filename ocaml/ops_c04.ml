open Proto
(* wire form of the structured transaction (see Model/Tx.v header and harness/txgen.py):
   txin = ( txid vout scriptsig sequence )   txout = ( value scriptpubkey )
   tx   = ( version [txin..] [txout..] n|[[item..]..] locktime )
   parsed = ( txid wtxid raw tx )            -- no logic here, only conversions *)
let txin_of v = match vl v with
  | [a; b; c; d] -> { Model.ti_txid = vb a; ti_vout = vi b; ti_script = vb c; ti_seq = vb d }
  | _ -> raise (Bad "txin")
let txout_of v = match vl v with
  | [a; b] -> { Model.to_value = vi a; to_script = vb b }
  | _ -> raise (Bad "txout")
let tx_of v = match vl v with
  | [ver; ins; outs; wits; lt] ->
    { Model.tx_version = vi ver; tx_ins = List.map txin_of (vl ins); tx_outs = List.map txout_of (vl outs);
      tx_wits = vopt (fun w -> List.map (fun s -> List.map vb (vl s)) (vl w)) wits; tx_locktime = vi lt }
  | _ -> raise (Bad "tx")
let of_txin (i : Model.txin_t) = VT [VB i.Model.ti_txid; VI i.Model.ti_vout; VB i.Model.ti_script; VB i.Model.ti_seq]
let of_txout (o : Model.txout_t) = VT [VI o.Model.to_value; VB o.Model.to_script]
let of_stack (s : Model.byte list list) = VL (List.map (fun b -> VB b) s)
let of_tx (t : Model.tx_t) =
  VT [VI t.Model.tx_version; VL (List.map of_txin t.Model.tx_ins); VL (List.map of_txout t.Model.tx_outs);
      (match t.Model.tx_wits with None -> VNone | Some w -> VL (List.map of_stack w)); VI t.Model.tx_locktime]
let of_parsed (p : Model.tx_parsed) = VT [VB p.Model.p_txid; VB p.Model.p_wtxid; VB p.Model.p_raw; of_tx p.Model.p_tx]
let bytes_r = of_result (fun b -> VB b)
let () =
  register "c04_tx_deser" (function [a] -> of_result (fun (p, r) -> VT [of_parsed p; VB r]) (Model.c04_tx_deser sha256 (vb a)) | _ -> raise (Bad "arity"));
  register "c04_tx_ser" (function [a] -> bytes_r (Model.c04_tx_ser (tx_of a)) | _ -> raise (Bad "arity"));
  register "c04_tx_ser_nowit" (function [a] -> bytes_r (Model.c04_tx_ser_nowit (tx_of a)) | _ -> raise (Bad "arity"));
  register "c04_txin_default" (function [a; b] -> bytes_r (Model.c04_txin_default (vb a) (vb b)) | _ -> raise (Bad "arity"));
  register "c04_txid" (function [a] -> ROk (VB (Model.c04_txid sha256 (vb a))) | _ -> raise (Bad "arity"));
  register "c04_block_ids" (function [a] ->
      of_result (fun l -> VL (List.map (fun ((t, w), r) -> VT [VB t; VB w; VB r]) l)) (Model.c04_block_ids sha256 (vb a))
                                   | _ -> raise (Bad "arity"))
