open Proto
let vpoint (v : value) : (Z.t * Z.t) option =
  match v with
  | VNone -> None
  | VT [VI x; VI y] | VL [VI x; VI y] -> Some (x, y)
  | _ -> raise (Bad "expected point")
let vzlist v = List.map vi (vl v)
(* a binary64 given as the exact pair (m, e) = m * 2^e *)
let vfloat (v : value) = match v with
  | VT [VI m; VI e] | VL [VI m; VI e] -> Model.c16_sf_of_me m e
  | _ -> raise (Bad "expected float pair")
let vutxo (v : value) = match v with
  | VT [txid; vout; amt; spk] | VL [txid; vout; amt; spk] -> Model.c16_mk_utxo (vb txid) (vi vout) (vfloat amt) (vb spk)
  | _ -> raise (Bad "expected utxo")
(* bits.script.scriptpubkey and (bits.is_point(x) or bits.is_addr(x)) on the addresses of this scenario: the table computed by
   the harness' independent decoder; entries (address, script | None, is_key_or_address) *)
let vtable (v : value) : (Model.byte list -> Model.byte list Model.result) * (Model.byte list -> bool) =
  let tbl = List.map (fun e -> match e with
      | VT [k; s; b] | VL [k; s; b] -> (vb k, (vopt vb s, vbool b))
      | _ -> raise (Bad "expected table entry")) (vl v) in
  ((fun addr -> match List.assoc_opt addr tbl with
     | Some (Some s, _) -> Model.Ok s
     | _ -> Model.Err Model.ValueE),
   (fun addr -> match List.assoc_opt addr tbl with
      | Some (_, b) -> b
      | None -> false))
let () =
  register "c16_send" (function [p; a; n; g; sender; recip; change; keys; flag; frac; fee; ver; lt; total; unspents; draws; table] ->
      of_result (fun x -> VB x)
        (Model.c16_send (vi p) (vi a) (vi n) (vpoint g) sha256 ripemd160 (fst (vtable table)) (snd (vtable table))
           (vb sender) (vb recip) (vopt vb change) (List.map vb (vl keys)) (vopt vi flag) (vfloat frac)
           (vi fee) (vi ver) (vi lt) (vfloat total) (List.map vutxo (vl unspents)) (vzlist draws))
                        | _ -> raise (Bad "arity"));
  register "c16_values" (function [frac; total; amounts; fee] ->
      of_result (fun (k, vs) -> VT [VI k; VL (List.map (fun z -> VI z) vs)])
        (Model.c16_values (vfloat frac) (vfloat total) (List.map vfloat (vl amounts)) (vi fee))
                          | _ -> raise (Bad "arity"));
  register "c16_sat_of_btc" (function [x] -> of_result (fun z -> VI z) (Model.c16_sat_of_btc (vfloat x)) | _ -> raise (Bad "arity"));
  register "c16_amount_to_send" (function [f; t] -> of_result (fun z -> VI z) (Model.c16_amount_to_send (vfloat f) (vi t)) | _ -> raise (Bad "arity"))
