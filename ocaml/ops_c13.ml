open Proto
let strs l = VL (List.map (fun s -> VS s) l)
let bl v = List.map vb (vl v)
let rb r = of_result (fun b -> VB b) r
let arity () = raise (Bad "arity")
let () =
  register "c13_script" (function [a] -> rb (Model.c13_script (bl a)) | _ -> arity ());
  register "c13_decode_script" (function [a] -> of_result strs (Model.c13_decode_script (vb a)) | _ -> arity ());
  register "c13_p2pkh_script_pubkey" (function [a] -> rb (Model.c13_p2pkh_script_pubkey (vb a)) | _ -> arity ());
  register "c13_p2pkh_script_sig" (function [a; b] -> rb (Model.c13_p2pkh_script_sig (vb a) (vb b)) | _ -> arity ());
  register "c13_p2pk_script_pubkey" (function [a] -> rb (Model.c13_p2pk_script_pubkey (vb a)) | _ -> arity ());
  register "c13_p2pk_script_sig" (function [a] -> rb (Model.c13_p2pk_script_sig (vb a)) | _ -> arity ());
  register "c13_p2sh_script_pubkey" (function [a] -> rb (Model.c13_p2sh_script_pubkey (vb a)) | _ -> arity ());
  register "c13_p2sh_script_sig" (function [a; b] -> rb (Model.c13_p2sh_script_sig (bl a) (vb b)) | _ -> arity ());
  register "c13_multisig_script_pubkey" (function [m; a] -> rb (Model.c13_multisig_script_pubkey (vi m) (bl a)) | _ -> arity ());
  register "c13_multisig_script_sig" (function [a] -> rb (Model.c13_multisig_script_sig (bl a)) | _ -> arity ());
  register "c13_null_data_script_pubkey" (function [a] -> rb (Model.c13_null_data_script_pubkey (vb a)) | _ -> arity ());
  register "c13_p2sh_multisig_script_pubkey" (function [m; a] -> rb (Model.c13_p2sh_multisig_script_pubkey sha256 ripemd160 (vi m) (bl a)) | _ -> arity ());
  register "c13_p2sh_multisig_script_sig" (function [a; b] -> rb (Model.c13_p2sh_multisig_script_sig (bl a) (vb b)) | _ -> arity ());
  register "c13_p2wpkh_script_pubkey" (function [a; v] -> rb (Model.c13_p2wpkh_script_pubkey (vb a) (vi v)) | _ -> arity ());
  register "c13_p2wpkh_script_sig" (function [] -> rb Model.c13_p2wpkh_script_sig | _ -> arity ());
  register "c13_p2wsh_script_pubkey" (function [a; v] -> rb (Model.c13_p2wsh_script_pubkey (vb a) (vi v)) | _ -> arity ());
  register "c13_p2wsh_script_sig" (function [] -> rb Model.c13_p2wsh_script_sig | _ -> arity ());
  register "c13_p2sh_p2wpkh_script_pubkey" (function [a; v] -> rb (Model.c13_p2sh_p2wpkh_script_pubkey sha256 ripemd160 (vb a) (vi v)) | _ -> arity ());
  register "c13_p2sh_p2wpkh_script_sig" (function [a] -> rb (Model.c13_p2sh_p2wpkh_script_sig (vb a)) | _ -> arity ());
  register "c13_p2sh_p2wsh_script_pubkey" (function [a; v] -> rb (Model.c13_p2sh_p2wsh_script_pubkey sha256 ripemd160 (vb a) (vi v)) | _ -> arity ());
  register "c13_p2sh_p2wsh_script_sig" (function [a] -> rb (Model.c13_p2sh_p2wsh_script_sig sha256 (vb a)) | _ -> arity ());
  register "c13_canonical" (function [a] -> ROk (VBool (Model.c13_canonical (vb a))) | _ -> arity ());
  register "c13_witness_parse" (function [a] ->
      of_result (fun (raw, rest) -> VT [VB raw; VB rest]) (Model.c13_witness_parse (vb a))
    | _ -> arity ());
  register "c13_witness_ser" (function [a] -> rb (Model.c13_witness_ser (bl a)) | _ -> arity ());
  register "c13_witness_deser" (function [a] ->
      of_result (fun (items, rest) -> VT [VL (List.map (fun d -> VB d) items); VB rest]) (Model.c13_witness_deser (vb a))
    | _ -> arity ())
