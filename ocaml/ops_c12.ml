open Proto
let vpoint (v : value) : (Z.t * Z.t) option =
  match v with
  | VNone -> None
  | VT [VI x; VI y] | VL [VI x; VI y] -> Some (x, y)
  | _ -> raise (Bad "expected point")
let () =
  (* every op starts with the curve: p a b n G *)
  register "c12_sign" (function [p; a; b; n; g; rnd; key; msg; aux] ->
      of_result (fun x -> VB x)
        (Model.c12_sign (vi p) (vi a) (vi b) (vi n) (vpoint g) sha256 (vb rnd) (vb key) (vb msg) (vopt vb aux))
    | _ -> raise (Bad "arity"));
  register "c12_verify" (function [p; a; b; n; g; pk; msg; sg] ->
      of_result (fun x -> VS x)
        (Model.c12_verify (vi p) (vi a) (vi b) (vi n) (vpoint g) sha256 (vb pk) (vb msg) (vb sg))
    | _ -> raise (Bad "arity"));
  register "c12_lift_x" (function [p; x] ->
      of_result (fun (x, y) -> VT [VI x; VI y]) (Model.c12_lift_x (vi p) (vb x))
    | _ -> raise (Bad "arity"));
  register "c12_pubkey" (function [p; a; b; pt] ->
      of_result (fun x -> VB x) (Model.c12_pubkey (vi p) (vi a) (vi b) (vpoint pt))
    | _ -> raise (Bad "arity"));
  register "c12_pubkey_of_key" (function [p; a; b; n; g; key] ->
      of_result (fun x -> VB x) (Model.c12_pubkey_of_key (vi p) (vi a) (vi b) (vi n) (vpoint g) (vb key))
    | _ -> raise (Bad "arity"));
  register "c12_point_scalar_mul" (function [p; a; k; pt] ->
      of_result (function None -> VNone | Some (x, y) -> VT [VI x; VI y])
        (Model.c12_point_scalar_mul (vi p) (vi a) (vi k) (vpoint pt))
    | _ -> raise (Bad "arity"));
  register "c12_ecdsa_verify" (function [p; a; b; n; g; r; s; q; z] ->
      of_result (fun x -> VBool x)
        (Model.c12_ecdsa_verify (vi p) (vi a) (vi b) (vi n) (vpoint g) (vi r) (vi s) (vpoint q) (vi z))
    | _ -> raise (Bad "arity"))
