open Proto
let vpoint (v : value) : (Z.t * Z.t) option =
  match v with
  | VNone -> None
  | VT [VI x; VI y] | VL [VI x; VI y] -> Some (x, y)
  | _ -> raise (Bad "expected point")
let vzlist v = List.map vi (vl v)
let () =
  (* curve args first: p a [b] n G *)
  register "c01_sign_with" (function [p; a; n; g; draws; key; z] ->
      of_result (fun ((r, s), rest) -> VT [VI r; VI s; VI (Z.of_int (List.length rest))])
        (Model.c01_sign_with (vi p) (vi a) (vi n) (vpoint g) (vzlist draws) (vi key) (vi z)) | _ -> raise (Bad "arity"));
  register "c01_verify" (function [p; a; b; n; g; r; s; q; z] ->
      of_result (fun x -> VBool x)
        (Model.c01_verify (vi p) (vi a) (vi b) (vi n) (vpoint g) (vi r) (vi s) (vpoint q) (vi z)) | _ -> raise (Bad "arity"));
  register "c01_sign_then_verify" (function [p; a; b; n; g; draws; key; z] ->
      of_result (fun x -> VBool x)
        (Model.c01_sign_then_verify (vi p) (vi a) (vi b) (vi n) (vpoint g) (vzlist draws) (vi key) (vi z)) | _ -> raise (Bad "arity"));
  register "c01_der_encode_sig" (function [r; s] ->
      of_result (fun x -> VB x) (Model.c01_der_encode_sig (vi r) (vi s)) | _ -> raise (Bad "arity"));
  register "c01_der_decode_sig" (function [d] ->
      of_result (fun (r, s) -> VT [VI r; VI s]) (Model.c01_der_decode_sig (vb d)) | _ -> raise (Bad "arity"));
  register "c01_sig" (function [p; a; n; g; draws; key; msg; flag; pre] ->
      of_result (fun (sg, rest) -> VT [VB sg; VI (Z.of_int (List.length rest))])
        (Model.c01_sig (vi p) (vi a) (vi n) (vpoint g) sha256 (vzlist draws) (vb key) (vb msg) (vopt vi flag) (vbool pre))
                              | _ -> raise (Bad "arity"));
  register "c01_sig_verify" (function [p; a; b; n; g; sg; pk; msg; pre] ->
      of_result (fun x -> VBool x)
        (Model.c01_sig_verify (vi p) (vi a) (vi b) (vi n) (vpoint g) sha256 (vb sg) (vb pk) (vb msg) (vbool pre))
                                     | _ -> raise (Bad "arity"))
