open Proto
(* wire form of the structured transaction (see Model/Tx.v header and harness/txgen.py):
   txin = ( txid vout scriptsig sequence )   txout = ( value scriptpubkey )
   tx   = ( version [txin..] [txout..] n|[[item..]..] locktime )
   parsed = ( txid wtxid raw tx )            -- no logic here, only conversions *)
let txin_of v = match vl v with
  | [a; b; c; d] -> { Model.ti_txid = vb a; ti_vout = vi b; ti_script = vb c; ti_seq = vb d }
  | _ -> raise (Bad "txin")
let txout_of v = match vl v with
  | [a; b] -> { Model.to_value = vi a; to_script = vb b }
  | _ -> raise (Bad "txout")
let tx_of v = match vl v with
  | [ver; ins; outs; wits; lt] ->
    { Model.tx_version = vi ver; tx_ins = List.map txin_of (vl ins); tx_outs = List.map txout_of (vl outs);
      tx_wits = vopt (fun w -> List.map (fun s -> List.map vb (vl s)) (vl w)) wits; tx_locktime = vi lt }
  | _ -> raise (Bad "tx")
let of_txin (i : Model.txin_t) = VT [VB i.Model.ti_txid; VI i.Model.ti_vout; VB i.Model.ti_script; VB i.Model.ti_seq]
let of_txout (o : Model.txout_t) = VT [VI o.Model.to_value; VB o.Model.to_script]
let of_stack (s : Model.byte list list) = VL (List.map (fun b -> VB b) s)
let of_tx (t : Model.tx_t) =
  VT [VI t.Model.tx_version; VL (List.map of_txin t.Model.tx_ins); VL (List.map of_txout t.Model.tx_outs);
      (match t.Model.tx_wits with None -> VNone | Some w -> VL (List.map of_stack w)); VI t.Model.tx_locktime]
let of_parsed (p : Model.tx_parsed) = VT [VB p.Model.p_txid; VB p.Model.p_wtxid; VB p.Model.p_raw; of_tx p.Model.p_tx]
let bytes_r = of_result (fun b -> VB b)
(* [c05_twice name kind argsA argsB]: the registered op c05_<name> applied to argsA and to argsB (a pure model: the
   second call cannot depend on the first, the arguments are what they were) -> ( resultA resultB argsA argsB ) *)
let string_of_vs v = String.concat "" (List.map (fun b -> String.make 1 (Char.chr (int_of_byte b))) (vb v))
let twice = function
  | [name; _kind; a; b] ->
    (match Hashtbl.find_opt ops ("c05_" ^ string_of_vs name) with
     | None -> raise (Bad "twice: unknown op")
     | Some f ->
       (match f (vl a) with
        | RErr k -> RErr k
        | ROk ra -> (match f (vl b) with
                     | RErr k -> RErr k
                     | ROk rb -> ROk (VT [ra; rb; VL (vl a); VL (vl b)]))))
  | _ -> raise (Bad "arity")
let () =
  register "c05_twice" twice;
  register "c05_cs_enc" (function [a] -> bytes_r (Model.c05_cs_enc (vi a)) | _ -> raise (Bad "arity"));
  register "c05_cs_dec" (function [a] -> of_result (fun (n, r) -> VT [VI n; VB r]) (Model.c05_cs_dec (vb a)) | _ -> raise (Bad "arity"));
  register "c05_wit_ser" (function [a] -> bytes_r (Model.c05_wit_ser (List.map vb (vl a))) | _ -> raise (Bad "arity"));
  register "c05_wit_deser" (function [a] -> of_result (fun (w, r) -> VT [of_stack w; VB r]) (Model.c05_wit_deser (vb a)) | _ -> raise (Bad "arity"));
  register "c05_outpoint" (function [a; b] -> bytes_r (Model.c05_outpoint (vb a) (vi b)) | _ -> raise (Bad "arity"));
  register "c05_txin" (function [a; b; c] -> bytes_r (Model.c05_txin (vb a) (vb b) (vb c)) | _ -> raise (Bad "arity"));
  register "c05_txin_default" (function [a; b] -> bytes_r (Model.c05_txin_default (vb a) (vb b)) | _ -> raise (Bad "arity"));
  register "c05_txout" (function [a; b] -> bytes_r (Model.c05_txout (vi a) (vb b)) | _ -> raise (Bad "arity"));
  register "c05_tx_raw" (function [a; b; c; d; e] ->
      bytes_r (Model.c05_tx_raw (List.map vb (vl a)) (List.map vb (vl b)) (vi c) (vi d) (List.map vb (vl e)))
    | _ -> raise (Bad "arity"));
  register "c05_tx_ser" (function [a] -> bytes_r (Model.c05_tx_ser (tx_of a)) | _ -> raise (Bad "arity"));
  register "c05_txin_deser" (function [a] -> of_result (fun (i, r) -> VT [of_txin i; VB r]) (Model.c05_txin_deser (vb a)) | _ -> raise (Bad "arity"));
  register "c05_txout_deser" (function [a] -> of_result (fun (o, r) -> VT [of_txout o; VB r]) (Model.c05_txout_deser (vb a)) | _ -> raise (Bad "arity"));
  register "c05_tx_deser" (function [a] -> of_result (fun (p, r) -> VT [of_parsed p; VB r]) (Model.c05_tx_deser sha256 (vb a)) | _ -> raise (Bad "arity"))
