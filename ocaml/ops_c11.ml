open Proto
let vtuple = function VT l -> l | VL l -> l | _ -> raise (Bad "expected tuple")
let v_in v = match vtuple v with
  | [a; b; c; d] -> (((vb a, vi b), vb c), vi d)
  | _ -> raise (Bad "txin tuple")
let v_out v = match vtuple v with
  | [a; b] -> (vi a, vb b)
  | _ -> raise (Bad "txout tuple")
let vbl v = List.map vb (vl v)
let ob = function Some b -> VB b | None -> VNone
let () =
  register "c11_witness_message" (function
    | [txins; idx; value; sc; txouts; ver; lt; flag] ->
      of_result (fun b -> VB b)
        (Model.c11_witness_message sha256 (vbl txins) (vi idx) (vi value) (vb sc) (vbl txouts)
           (vopt vi ver) (vopt vi lt) (vopt vi flag))
    | _ -> raise (Bad "arity"));
  register "c11_wm_tx" (function
    | [ver; ins; outs; lt; idx; amount; sc; flag] ->
      of_result (fun b -> VB b)
        (Model.c11_wm_tx sha256 (vi ver) (List.map v_in (vl ins)) (List.map v_out (vl outs)) (vi lt)
           (vi idx) (vi amount) (vb sc) (vopt vi flag))
    | _ -> raise (Bad "arity"));
  register "c11_wm_tx_seq" (function
    | [snaps] ->
      let snap v = match vtuple v with
        | [ver; ins; outs; lt; idx; amount; sc; flag] ->
          (((((((vi ver, List.map v_in (vl ins)), List.map v_out (vl outs)), vi lt), vi idx), vi amount), vb sc), vopt vi flag)
        | _ -> raise (Bad "snapshot tuple") in
      ROk (VL (List.map (function Model.Ok b -> VB b | Model.Err _ -> VNone)
                 (Model.c11_wm_tx_seq sha256 (List.map snap (vl snaps)))))
    | _ -> raise (Bad "arity"));
  register "c11_spec_preimage" (function
    | [ver; ins; outs; lt; idx; amount; sc; flag] ->
      ROk (ob (Model.c11_spec_preimage sha256 (vi ver) (List.map v_in (vl ins)) (List.map v_out (vl outs)) (vi lt)
                 (vi idx) (vi amount) (vb sc) (vi flag)))
    | _ -> raise (Bad "arity"));
  register "c11_outpoint" (function [a; b] -> of_result (fun x -> VB x) (Model.c11_outpoint (vb a) (vi b)) | _ -> raise (Bad "arity"));
  register "c11_txin" (function [a; b; c] -> of_result (fun x -> VB x) (Model.c11_txin (vb a) (vb b) (vb c)) | _ -> raise (Bad "arity"));
  register "c11_txout" (function [a; b] -> of_result (fun x -> VB x) (Model.c11_txout (vi a) (vb b)) | _ -> raise (Bad "arity"));
  register "c11_compact_size_uint" (function [a] -> of_result (fun x -> VB x) (Model.c11_compact_size_uint (vi a)) | _ -> raise (Bad "arity"));
  register "c11_witness_digest" (function [a] -> ROk (VB (Model.c11_witness_digest sha256 (vb a))) | _ -> raise (Bad "arity"))
