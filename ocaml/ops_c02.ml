open Proto
let vpoint (v : value) : (Z.t * Z.t) option =
  match v with
  | VNone -> None
  | VT [VI x; VI y] | VL [VI x; VI y] -> Some (x, y)
  | _ -> raise (Bad "expected point")
let () =
  register "c02_verify" (function [p; a; b; n; g; r; s; q; z] ->
      of_result (fun x -> VBool x)
        (Model.c02_verify (vi p) (vi a) (vi b) (vi n) (vpoint g) (vi r) (vi s) (vpoint q) (vi z)) | _ -> raise (Bad "arity"));
  register "c02_sig_verify" (function [p; a; b; n; g; sg; pk; msg; pre] ->
      of_result (fun x -> VBool x)
        (Model.c02_sig_verify (vi p) (vi a) (vi b) (vi n) (vpoint g) sha256 (vb sg) (vb pk) (vb msg) (vbool pre))
                                     | _ -> raise (Bad "arity"));
  register "c02_ensure_sig_low_s" (function [n; sg] ->
      of_result (fun x -> VB x) (Model.c02_ensure_sig_low_s (vi n) (vb sg)) | _ -> raise (Bad "arity"));
  register "c02_der_decode_sig" (function [d] ->
      of_result (fun (r, s) -> VT [VI r; VI s]) (Model.c02_der_decode_sig (vb d)) | _ -> raise (Bad "arity"));
  register "c02_der_encode_sig" (function [r; s] ->
      of_result (fun x -> VB x) (Model.c02_der_encode_sig (vi r) (vi s)) | _ -> raise (Bad "arity"));
  register "c02_sec1_point" (function [p; a; b; pk] ->
      of_result (fun (x, y) -> VT [VI x; VI y]) (Model.c02_sec1_point (vi p) (vi a) (vi b) (vb pk)) | _ -> raise (Bad "arity"))
