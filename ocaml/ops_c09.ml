(* glue for C09: converts protocol values to the extracted types and back -- no logic.
   leading arguments of the curve-generic ops: p a b n G m   (G = ( x y ), m = 0: HMAC-SHA512,
   m > 0: the harness' toy HMAC "hmac_toy" with I_L reduced modulo m, for the small curves) *)
open Proto
let vpoint (v : value) : (Z.t * Z.t) option =
  match v with
  | VNone -> None
  | VT [VI x; VI y] | VL [VI x; VI y] -> Some (x, y)
  | _ -> raise (Bad "expected point")
let of_point (p : (Z.t * Z.t) option) : value =
  match p with None -> VNone | Some (x, y) -> VT [VI x; VI y]
let hm (m : value) : Model.byte list -> Model.byte list -> Model.byte list =
  let z = vi m in
  if Z.equal z Z.zero then hmac_sha512
  else (fun k msg -> oracle_bytes "hmac_toy" [VI z; VB k; VB msg])
let vkey (v : value) : Model.xk =
  match v with
  | VI z -> Model.KPriv z
  | _ -> Model.KPub (vpoint v)
let of_key (k : Model.xk) : value =
  match k with Model.KPriv z -> VI z | Model.KPub p -> of_point p
let vbz (v : value) : Model.bz =
  match v with VI z -> Model.AsInt z | _ -> Model.AsBytes (vb v)
let bl_of_string (s : string) : Model.byte list =
  List.init (String.length s) (fun i -> byte_tab.(Char.code s.[i]))
(* a result as a VALUE: ( "ok" v ) / ( "err" kind ) *)
let outcome (f : 'a -> value) (r : 'a Model.result) : value =
  match r with
  | Model.Ok a -> VT [VS (bl_of_string "ok"); f a]
  | Model.Err e -> VT [VS (bl_of_string "err"); VS (bl_of_string (err_name e))]
let of_pc ((pt, c) : (Z.t * Z.t) option * Model.byte list) : value = VT [of_point pt; VB c]
let of_fields (f : ((((Model.byte list * Model.byte list) * Model.byte list) * Model.byte list) * Model.byte list) * Model.xk) : value =
  let (((((v, d), fp), ch), cc), k) = f in VT [VB v; VB d; VB fp; VB ch; VB cc; of_key k]
let () =
  register "c09_ckdpriv" (function [p; a; b; n; g; m; k; c; i] ->
      of_result (fun (k', c') -> VT [VI k'; VB c'])
        (Model.c09_ckdpriv (vi p) (vi a) (vi b) (vi n) (vpoint g) (hm m) (vi k) (vb c) (vi i)) | _ -> raise (Bad "arity"));
  register "c09_ckdpub" (function [p; a; b; n; g; m; kk; c; i] ->
      of_result of_pc
        (Model.c09_ckdpub (vi p) (vi a) (vi b) (vi n) (vpoint g) (hm m) (vpoint kk) (vb c) (vi i)) | _ -> raise (Bad "arity"));
  register "c09_neuter" (function [p; a; b; n; g; m; k; c] ->
      of_result of_pc (Model.c09_neuter (vi p) (vi a) (vi b) (vi n) (vpoint g) (vi k) (vb c)) | _ -> raise (Bad "arity"));
  register "c09_commute" (function [p; a; b; n; g; m; k; c; i] ->
      ROk (VT [outcome of_pc (Model.c09_n_ckdpriv (vi p) (vi a) (vi b) (vi n) (vpoint g) (hm m) (vi k) (vb c) (vi i));
               outcome of_pc (Model.c09_ckdpub_n (vi p) (vi a) (vi b) (vi n) (vpoint g) (hm m) (vi k) (vb c) (vi i))])
      | _ -> raise (Bad "arity"));
  register "c09_master" (function [seed] ->
      of_result (fun (k, c) -> VT [VI k; VB c]) (Model.c09_master hmac_sha512 (vb seed)) | _ -> raise (Bad "arity"));
  register "c09_ser" (function [key; cc; depth; fp; child; testnet] ->
      of_result (fun x -> VB x)
        (Model.c09_ser sha256 (vkey key) (vb cc) (vbz depth) (vb fp) (vbz child) (vbool testnet)) | _ -> raise (Bad "arity"));
  register "c09_deser" (function [p; a; b; n; g; m; x] ->
      of_result of_fields (Model.c09_deser (vi p) (vi a) (vi b) (vi n) sha256 (vb x)) | _ -> raise (Bad "arity"));
  register "c09_get_xpub" (function [p; a; b; n; g; m; x] ->
      of_result (fun x -> VB x) (Model.c09_get_xpub (vi p) (vi a) (vi b) (vi n) (vpoint g) sha256 (vb x)) | _ -> raise (Bad "arity"));
  register "c09_derive" (function [p; a; b; n; g; m; path; x] ->
      of_result (fun x -> VB x)
        (Model.c09_derive (vi p) (vi a) (vi b) (vi n) (vpoint g) (hm m) sha256 ripemd160 (vb path) (vb x)) | _ -> raise (Bad "arity"));
  register "c09_py_int" (function [s] -> of_result (fun z -> VI z) (Model.c09_py_int (vb s)) | _ -> raise (Bad "arity"));
  register "c09_path_tree" (function [s] ->
      of_result (fun l -> VL (List.map (fun z -> VI z) l)) (Model.c09_path_tree (vb s)) | _ -> raise (Bad "arity"));
  register "c09_sec1_point" (function [p; a; b; pk] ->
      of_result (fun (x, y) -> VT [VI x; VI y]) (Model.c09_sec1_point (vi p) (vi a) (vi b) (vb pk)) | _ -> raise (Bad "arity"))
;
  register "c09_cli_hd" (function [p; a; b; n; g; m; path; x; xp; dump; pr] ->
      of_result (fun (out, d) -> VT [VB out; (match d with None -> VNone | Some f -> of_fields f)])
        (Model.c09_cli_hd (vi p) (vi a) (vi b) (vi n) (vpoint g) (hm m) sha256 ripemd160 (vb path) (vb x)
           (vbool xp) (vbool dump) (vbool pr)) | _ -> raise (Bad "arity"))
;
  register "c09_ser_deser" (function [p; a; b; n; g; m; key; cc; depth; fp; child; testnet] ->
      of_result (fun (s, f) -> VT [VB s; of_fields f])
        (Model.c09_ser_deser (vi p) (vi a) (vi b) (vi n) sha256 (vkey key) (vb cc) (vbz depth) (vb fp) (vbz child) (vbool testnet))
      | _ -> raise (Bad "arity"));
  register "c09_ser_get_xpub" (function [p; a; b; n; g; m; key; cc; depth; fp; child; testnet] ->
      of_result (fun (s, y) -> VT [VB s; VB y])
        (Model.c09_ser_get_xpub (vi p) (vi a) (vi b) (vi n) (vpoint g) sha256 (vkey key) (vb cc) (vbz depth) (vb fp) (vbz child) (vbool testnet))
      | _ -> raise (Bad "arity"));
  register "c09_ser_derive" (function [p; a; b; n; g; m; key; cc; depth; fp; child; testnet; path] ->
      of_result (fun (s, y) -> VT [VB s; VB y])
        (Model.c09_ser_derive (vi p) (vi a) (vi b) (vi n) (vpoint g) (hm m) sha256 ripemd160 (vkey key) (vb cc) (vbz depth) (vb fp)
           (vbz child) (vbool testnet) (vb path))
      | _ -> raise (Bad "arity"));
  register "c09_deser_ser_deser" (function [p; a; b; n; g; m; x] ->
      of_result (fun (s, f) -> VT [VB s; of_fields f])
        (Model.c09_deser_ser_deser (vi p) (vi a) (vi b) (vi n) sha256 (vb x)) | _ -> raise (Bad "arity"));
  register "c09_master_chain" (function [p; a; b; n; g; m; seed; testnet; path] ->
      of_result (fun ((s, y), z) -> VT [VB s; VB y; VB z])
        (Model.c09_master_chain (vi p) (vi a) (vi b) (vi n) (vpoint g) (hm m) sha256 ripemd160 (vb seed) (vbool testnet) (vb path))
      | _ -> raise (Bad "arity"))
;
  (* wallet/hd.py derive_child / class HD *)
  register "c09_derive_child" (function [is_str; x; i] ->
      of_result (fun x -> VB x) (Model.c09_derive_child (vbool is_str) (vb x) (vi i)) | _ -> raise (Bad "arity"));
  register "c09_derive_child_body" (function [p; a; b; n; g; m; x; i] ->
      of_result (fun x -> VB x)
        (Model.c09_derive_child_body (vi p) (vi a) (vi b) (vi n) (vpoint g) (hm m) sha256 ripemd160 (vb x) (vi i))
      | _ -> raise (Bad "arity"));
  (let of_hd ((((xprv, xpub), st), seed), mn) = VT [VB xprv; VB xpub; VI st; VB seed; VB mn] in
   register "c09_hd_init" (function [p; a; b; n; g; m; cls; pass; fresh] ->
      of_result of_hd
        (Model.c09_hd_init (vi p) (vi a) (vi b) (vi n) (vpoint g) (hm m) sha256 pbkdf2_sha512 nfkd (vb cls) (vb pass) (vb fresh))
      | _ -> raise (Bad "arity"));
   register "c09_hd_from_mnemonic_then_new" (function [p; a; b; n; g; m; m1; p1; f1; p2; f2] ->
      of_result of_hd
        (Model.c09_hd_from_mnemonic_then_new (vi p) (vi a) (vi b) (vi n) (vpoint g) (hm m) sha256 pbkdf2_sha512 nfkd
           (vb m1) (vb p1) (vb f1) (vb p2) (vb f2))
      | _ -> raise (Bad "arity")));
  register "c09_hd_get_root_keys" (function [p; a; b; n; g; m; k; c] ->
      of_result (fun (x, y) -> VT [VB x; VB y])
        (Model.c09_hd_get_root_keys (vi p) (vi a) (vi b) (vi n) (vpoint g) sha256 (vi k) (vb c)) | _ -> raise (Bad "arity"));
  register "c09_hd_from_xkey" (function [x] ->
      of_result (fun () -> VNone) (Model.c09_hd_from_xkey (vb x)) | _ -> raise (Bad "arity"));
  register "c09_hd_get_xkeys_from_path" (function [k; c; path] ->
      of_result (fun (x, y) -> VT [VB x; VB y]) (Model.c09_hd_get_xkeys_from_path (vi k) (vb c) (vb path))
      | _ -> raise (Bad "arity"))
