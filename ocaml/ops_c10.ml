open Proto
let words l = VL (List.map (fun w -> VS w) l)
let () =
  register "c10_mnemonic_words" (function [a] -> of_result words (Model.c10_mnemonic_words sha256 (vb a)) | _ -> raise (Bad "arity"));
  register "c10_calculate_mnemonic_phrase" (function [a] -> of_result (fun s -> VS s) (Model.c10_calculate_mnemonic_phrase sha256 (vb a)) | _ -> raise (Bad "arity"));
  register "c10_to_entropy_words" (function [a] -> of_result (fun b -> VB b) (Model.c10_to_entropy_words sha256 (List.map vb (vl a))) | _ -> raise (Bad "arity"));
  register "c10_to_entropy" (function [a] -> of_result (fun b -> VB b) (Model.c10_to_entropy sha256 (vb a)) | _ -> raise (Bad "arity"));
  register "c10_to_seed" (function [m; p] -> ROk (VB (Model.c10_to_seed pbkdf2_sha512 nfkd (vb m) (vb p))) | _ -> raise (Bad "arity"));
  register "c10_split_ws" (function [a] -> ROk (words (Model.c10_split_ws (vb a))) | _ -> raise (Bad "arity"));
  register "c10_wordlist" (function [] -> ROk (words Model.c10_wordlist) | _ -> raise (Bad "arity"))
