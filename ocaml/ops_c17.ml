open Proto
let bad () = raise (Bad "arity")
let str (s : string) : value = VS (List.init (String.length s) (fun i -> byte_tab.(Char.code s.[i])))
let opt f = function None -> VNone | Some x -> f x
let version_v (r : Model.version_fields) : value =
  VT [VI r.Model.v_protocol_version; VI r.Model.v_services; VI r.Model.v_timestamp;
      VI r.Model.v_recv_services; VB r.Model.v_recv_ip; VI r.Model.v_recv_port;
      VI r.Model.v_trans_services; VB r.Model.v_trans_ip; VI r.Model.v_trans_port;
      VI r.Model.v_nonce; VI r.Model.v_user_agent_bytes; opt (fun b -> VB b) r.Model.v_user_agent;
      VI r.Model.v_start_height; opt (fun b -> VBool b) r.Model.v_relay]
let getheaders_v (((pv, hc), hs), stop) : value =
  VT [VI pv; VI hc; opt (fun l -> VL (List.map (fun h -> VB h) l)) hs; VB stop]
let inv_item_v (name, hash) : value = VT [VS name; VB hash]
let inv_v (count, items) : value = VT [VI count; VL (List.map inv_item_v items)]
let addr_entry_v (((t, sv), ip), port) : value = VT [VI t; VB sv; VB ip; VI port]
let addr_v l : value = VL (List.map addr_entry_v l)
let parsed_v (p : Model.parsed) : value = match p with
  | Model.PVersion v -> VT [str "version"; version_v v]
  | Model.PPing n -> VT [str "ping"; VI n]
  | Model.PGetheaders r -> VT [str "getheaders"; getheaders_v r]
  | Model.PFeefilter z -> VT [str "feefilter"; VI z]
  | Model.PSendcmpct (a, v) -> VT [str "sendcmpct"; VT [VI a; VI v]]
  | Model.PInv r -> VT [str "inv"; inv_v r]
  | Model.PAddr r -> VT [str "addr"; addr_v r]
  | Model.PNoParser -> VNone
let () =
  register "c17_msg_ser" (function [m; c; p] -> of_result (fun b -> VB b) (Model.c17_msg_ser sha256 (vb m) (vb c) (vb p)) | _ -> bad ());
  register "c17_recv_msg" (function [fuel; magic; stream; sched] ->
      of_result (fun ((((m, c), p), rest), calls) -> VT [VB m; VB c; VB p; VB rest; VI calls])
        (Model.c17_recv_msg sha256 (vi fuel) (vb magic) (vb stream) (List.map vi (vl sched))) | _ -> bad ());
  register "c17_recv_msgs" (function [k; fuel; magic; stream; sched] ->
      of_result (fun (ms, rest) -> VT [VL (List.map (fun ((m, c), p) -> VT [VB m; VB c; VB p]) ms); VB rest])
        (Model.c17_recv_msgs sha256 (vi k) (vi fuel) (vb magic) (vb stream) (List.map vi (vl sched))) | _ -> bad ());
  register "c17_version_payload" (function [ts; sh; rp; tp; pv; sv; relay] ->
      of_result (fun b -> VB b) (Model.c17_version_payload (vi ts) (vi sh) (vi rp) (vi tp) (vi pv) (vi sv) (vbool relay)) | _ -> bad ());
  register "c17_parse_version_payload" (function [a] -> of_result version_v (Model.c17_parse_version_payload (vb a)) | _ -> bad ());
  register "c17_ping_payload" (function [a] -> of_result (fun b -> VB b) (Model.c17_ping_payload (vi a)) | _ -> bad ());
  register "c17_parse_ping_payload" (function [a] -> ROk (VI (Model.c17_parse_ping_payload (vb a))) | _ -> bad ());
  register "c17_getheaders_payload" (function [pv; hc; hs; stop] ->
      of_result (fun b -> VB b) (Model.c17_getheaders_payload (vi pv) (vi hc) (List.map vb (vl hs)) (vb stop)) | _ -> bad ());
  register "c17_parse_getheaders_payload" (function [a] -> of_result getheaders_v (Model.c17_parse_getheaders_payload (vb a)) | _ -> bad ());
  register "c17_inventory" (function [t; h] -> of_result (fun b -> VB b) (Model.c17_inventory (vb t) (vb h)) | _ -> bad ());
  register "c17_inv_payload" (function [c; l] -> of_result (fun b -> VB b) (Model.c17_inv_payload (vi c) (List.map vb (vl l))) | _ -> bad ());
  register "c17_parse_inventory" (function [a] -> of_result inv_item_v (Model.c17_parse_inventory (vb a)) | _ -> bad ());
  register "c17_parse_inv_payload" (function [a] -> of_result inv_v (Model.c17_parse_inv_payload (vb a)) | _ -> bad ());
  register "c17_network_ip_addr" (function [t; sv; ip; port] ->
      of_result (fun b -> VB b) (Model.c17_network_ip_addr (vi t) (vb sv) (vb ip) (vi port)) | _ -> bad ());
  register "c17_addr_payload" (function [c; l] -> of_result (fun b -> VB b) (Model.c17_addr_payload (vi c) (List.map vb (vl l))) | _ -> bad ());
  register "c17_parse_network_ip_addr" (function [a] -> ROk (addr_entry_v (Model.c17_parse_network_ip_addr (vb a))) | _ -> bad ());
  register "c17_parse_addr_payload" (function [a] -> of_result addr_v (Model.c17_parse_addr_payload (vb a)) | _ -> bad ());
  register "c17_parse_feefilter_payload" (function [a] -> of_result (fun z -> VI z) (Model.c17_parse_feefilter_payload (vb a)) | _ -> bad ());
  register "c17_parse_sendcmpct_payload" (function [a] -> of_result (fun (x, v) -> VT [VI x; VI v]) (Model.c17_parse_sendcmpct_payload (vb a)) | _ -> bad ());
  register "c17_parse_payload" (function [c; p] -> of_result parsed_v (Model.c17_parse_payload (vb c) (vb p)) | _ -> bad ());
  register "c17_version_rt" (function [ts; sh; rp; tp; pv; sv; relay] ->
      of_result (fun (p, r) -> VT [VB p; version_v r])
        (Model.c17_version_rt (vi ts) (vi sh) (vi rp) (vi tp) (vi pv) (vi sv) (vbool relay)) | _ -> bad ());
  register "c17_ping_rt" (function [a] -> of_result (fun (p, n) -> VT [VB p; VI n]) (Model.c17_ping_rt (vi a)) | _ -> bad ());
  register "c17_getheaders_rt" (function [pv; hc; hs; stop] ->
      of_result (fun (p, r) -> VT [VB p; getheaders_v r])
        (Model.c17_getheaders_rt (vi pv) (vi hc) (List.map vb (vl hs)) (vb stop)) | _ -> bad ());
  register "c17_inv_rt" (function [c; items] ->
      of_result (fun (p, r) -> VT [VB p; inv_v r])
        (Model.c17_inv_rt (vi c) (List.map (fun it -> match vl it with [t; h] -> (vb t, vb h) | _ -> raise (Bad "item")) (vl items))) | _ -> bad ());
  register "c17_addr_rt" (function [c; addrs] ->
      of_result (fun (p, r) -> VT [VB p; addr_v r])
        (Model.c17_addr_rt (vi c) (List.map (fun a -> match vl a with [t; sv; ip; port] -> (((vi t, vb sv), vb ip), vi port) | _ -> raise (Bad "addr")) (vl addrs))) | _ -> bad ())
let step_of (v : value) : Model.step = match vl v with
  | [VI t; n] when Z.to_int t = 0 -> Model.c17_step_select (vb n)
  | VI t :: _ when Z.to_int t = 1 -> Model.c17_step_select_bad
  | [VI t; fuel; stream; sched] when Z.to_int t = 2 -> Model.c17_step_recv (vi fuel) (vb stream) (List.map vi (vl sched))
  | [VI t; c; p] when Z.to_int t = 3 -> Model.c17_step_ser (vb c) (vb p)
  | _ -> raise (Bad "step")
let refused = str "refused"
let outcome_v (o : Model.outcome) : value = match o with
  | Model.OSelect (Model.Ok b) -> VBool b
  | Model.ORecv (Model.Ok (((m, c), p), rest)) -> VT [VB m; VB c; VB p; VB rest]
  | Model.OSer (Model.Ok b) -> VB b
  | Model.OSelect (Model.Err _) | Model.ORecv (Model.Err _) | Model.OSer (Model.Err _) -> refused
let () =
  register "c17_magic_session" (function [cur; steps] ->
      let (os, fin) = Model.c17_magic_session sha256 (vb cur) (List.map step_of (vl steps)) in
      ROk (VT [VL (List.map outcome_v os); VB fin]) | _ -> bad ());
  register "c17_network_magic" (function [n] -> ROk (opt (fun b -> VB b) (Model.c17_network_magic (vb n))) | _ -> bad ())
let table_of (v : value) = List.map (fun e -> match vl e with [k; n] -> (vb k, vi n) | _ -> raise (Bad "table")) (vl v)
let items_of (v : value) = List.map (fun it -> match vl it with [t; h] -> (vb t, vb h) | _ -> raise (Bad "item")) (vl v)
let () =
  register "c17_inventory_in" (function [t; n; h] -> of_result (fun b -> VB b) (Model.c17_inventory_in (table_of t) (vb n) (vb h)) | _ -> bad ());
  register "c17_parse_inventory_in" (function [t; b] -> of_result inv_item_v (Model.c17_parse_inventory_in (table_of t) (vb b)) | _ -> bad ());
  register "c17_parse_inv_payload_in" (function [t; b] -> of_result inv_v (Model.c17_parse_inv_payload_in (table_of t) (vb b)) | _ -> bad ());
  register "c17_inv_rt_in" (function [t; c; items] ->
      of_result (fun (p, r) -> VT [VB p; inv_v r]) (Model.c17_inv_rt_in (table_of t) (vi c) (items_of items)) | _ -> bad ());
  register "c17_ser_recv_in" (function [cmds; fuel; magic; c; p; rest; sched] ->
      of_result (fun (fr, ((((m, c'), p'), rest'), calls)) -> VT [VB fr; VT [VB m; VB c'; VB p'; VB rest'; VI calls]])
        (Model.c17_ser_recv_in sha256 (List.map vb (vl cmds)) (vi fuel) (vb magic) (vb c) (vb p) (vb rest) (List.map vi (vl sched))) | _ -> bad ())

(* ---- extension: getblocks_payload / headers_payload ---- *)
let hdrs_v = opt (fun l -> VL (List.map (fun h -> VB h) l))
let () =
  register "c17_getblocks_payload" (function [hs; pv] ->
      of_result (fun b -> VB b) (Model.c17_getblocks_payload (List.map vb (vl hs)) (vopt vi pv)) | _ -> bad ());
  register "c17_getblocks_rt" (function [hs; pv] ->
      of_result (fun (p, r) -> VT [VB p; getheaders_v r]) (Model.c17_getblocks_rt (List.map vb (vl hs)) (vopt vi pv)) | _ -> bad ());
  register "c17_headers_payload" (function [c; hs] ->
      of_result (fun b -> VB b) (Model.c17_headers_payload (vi c) (List.map vb (vl hs))) | _ -> bad ());
  register "c17_spec_parse_headers" (function [p] -> ROk (hdrs_v (Model.c17_spec_parse_headers (vb p))) | _ -> bad ());
  register "c17_headers_rt" (function [c; hs] ->
      of_result (fun (p, r) -> VT [VB p; hdrs_v r]) (Model.c17_headers_rt (vi c) (List.map vb (vl hs))) | _ -> bad ())
