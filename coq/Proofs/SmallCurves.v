(* The group laws of chord-and-tangent addition PROVED by kernel computation over all points, for the
   same generic formulas that model ecmath.py, on small curves y^2 = x^3 + 7 over F_p. *)
From Coq Require Import ZArith List Bool Lia Zpow_facts.
Require Import Bits.Lib.Result Bits.Lib.Group Bits.Model.Ecmath Bits.Proofs.Ecmath Bits.Proofs.Ecdsa.
Import ListNotations.
Local Open Scope Z_scope.

Section Enum.
  Variables p a b : Z.
  Hypothesis Hp : 3 < p.

  Definition oncurveb (P : point) : bool :=
    match P with
    | None => true
    | Some (x, y) => inF p x && inF p y && (fpow p y 2 =? rhs p a b x)
    end.

  Lemma oncurveb_iff P : oncurveb P = true <-> oncurve p a b P.
  Proof.
    destruct P as [[x y]|]; simpl; [|tauto].
    rewrite !andb_true_iff, Z.eqb_eq. tauto.
  Qed.

  Definition zrange (m : Z) : list Z := map Z.of_nat (seq 0 (Z.to_nat m)).

  Lemma in_zrange m x : 0 <= x < m -> In x (zrange m).
  Proof.
    intros H. unfold zrange. apply in_map_iff. exists (Z.to_nat x). split; [lia|].
    apply in_seq. lia.
  Qed.

  Definition all_pts : list point :=
    None :: flat_map (fun x => flat_map (fun y => if oncurveb (Some (x, y)) then [Some (x, y)] else [])
                                        (zrange p)) (zrange p).

  Lemma all_pts_complete P : oncurve p a b P -> In P all_pts.
  Proof.
    intros H. destruct P as [[x y]|]; [|left; reflexivity]. right.
    pose proof H as (Hx & Hy & _). apply (inF_iff p) in Hx. apply (inF_iff p) in Hy.
    apply in_flat_map. exists x. split; [now apply in_zrange|].
    apply in_flat_map. exists y. split; [now apply in_zrange|].
    apply oncurveb_iff in H. rewrite H. now left.
  Qed.

  Lemma point_eqb_eq P Q : point_eqb P Q = true <-> P = Q.
  Proof.
    destruct P as [[x1 y1]|], Q as [[x2 y2]|]; simpl; try (split; congruence).
    rewrite andb_true_iff, !Z.eqb_eq. split; [intros [-> ->]; auto | intros H; inversion H; auto].
  Qed.

  Definition check_group : bool :=
    let pts := all_pts in
    forallb (fun P => oncurveb (pneg p P) && point_eqb (padd p a P (pneg p P)) None) pts &&
    forallb (fun P => forallb (fun Q =>
        oncurveb (padd p a P Q) && point_eqb (padd p a P Q) (padd p a Q P)) pts) pts &&
    forallb (fun P => forallb (fun Q => forallb (fun R =>
        point_eqb (padd p a (padd p a P Q) R) (padd p a P (padd p a Q R))) pts) pts) pts.

  Lemma check_group_sound : check_group = true -> curve_group p a b.
  Proof.
    unfold check_group. rewrite !andb_true_iff. intros [[H1 H2] H3].
    rewrite forallb_forall in H1, H2, H3.
    constructor.
    - exact I.
    - intros P Q HP HQ. apply all_pts_complete in HP, HQ.
      specialize (H2 P HP). rewrite forallb_forall in H2. specialize (H2 Q HQ).
      apply andb_true_iff in H2 as [H2 _]. now apply oncurveb_iff.
    - intros P HP. apply all_pts_complete in HP. specialize (H1 P HP).
      apply andb_true_iff in H1 as [H1 _]. now apply oncurveb_iff.
    - intros P Q R HP HQ HR. apply all_pts_complete in HP, HQ, HR.
      specialize (H3 P HP). rewrite forallb_forall in H3. specialize (H3 Q HQ).
      rewrite forallb_forall in H3. specialize (H3 R HR). now apply point_eqb_eq.
    - intros P Q HP HQ. apply all_pts_complete in HP, HQ.
      specialize (H2 P HP). rewrite forallb_forall in H2. specialize (H2 Q HQ).
      apply andb_true_iff in H2 as [_ H2]. now apply point_eqb_eq.
    - intros P. reflexivity.
    - intros [[x y]|]; reflexivity.
    - intros P HP. apply all_pts_complete in HP. specialize (H1 P HP).
      apply andb_true_iff in H1 as [_ H1]. now apply point_eqb_eq.
  Qed.

  (* order facts for a generator, and Fermat inverses modulo n, by enumeration *)
  Variable n : Z.
  Variable G : point.

  Definition check_order : bool :=
    oncurveb G && negb (point_eqb G None) &&
    point_eqb (smul p a n G) None &&
    forallb (fun k => negb (point_eqb (smul p a k G) None)) (tl (zrange n)) &&
    forallb (fun s => (s * Zpow_mod s (n - 2) n) mod n =? 1) (tl (zrange n)).

  Lemma in_tl_zrange m x : 0 < x < m -> In x (tl (zrange m)).
  Proof.
    intros H. unfold zrange. destruct (Z.to_nat m) as [|k] eqn:E; [lia|].
    cbn [seq map tl]. apply in_map_iff. exists (Z.to_nat x). split; [lia|]. apply in_seq. lia.
  Qed.

  Lemma check_facts_sound : 3 < n -> inF p a = true -> inF p b = true ->
    check_group = true -> check_order = true -> curve_facts p a b n G.
  Proof.
    intros Hn Ha Hb HG HO. unfold check_order in HO.
    rewrite !andb_true_iff in HO. destruct HO as [[[[O1 O2] O3] O4] O5].
    rewrite forallb_forall in O4, O5.
    constructor; auto.
    - now apply check_group_sound.
    - now apply oncurveb_iff.
    - now apply point_eqb_eq.
    - intros k Hk E. specialize (O4 k (in_tl_zrange n k Hk)). rewrite E in O4. discriminate.
    - intros s Hs. apply Z.eqb_eq. apply O5. now apply in_tl_zrange.
  Qed.
End Enum.

(* ---- (p, n) = (43, 31): every law checked over all 31 points / 29 791 triples ---- *)
Definition G43 : point := Eval vm_compute in
  hd None (tl (all_pts 43 0 7)).
Theorem facts_43 : curve_facts 43 0 7 31 G43.
Proof.
  apply check_facts_sound; [lia | lia | reflexivity | reflexivity | vm_compute; reflexivity | vm_compute; reflexivity].
Qed.
Theorem group_43 : curve_group 43 0 7.
Proof. exact (cf_group _ _ _ _ _ facts_43). Qed.
