(* The coinbase the code builds is the serialisation (Model/Tx.v: tx_ser) of a structured transaction with exactly
   one input spending the null outpoint, so the library's own parser (tx_deser, C05) reads it back as such. *)
From Coq Require Import ZArith List Lia Bool.
Require Import Bits.Lib.Result Bits.Lib.Bytes Bits.Lib.CompactSize.
Require Import Bits.Model.CompactSize Bits.Model.Witness Bits.Model.Tx Bits.Proofs.CompactSize Bits.Proofs.Tx.
Require Import Bits.Spec.Subsidy Bits.Spec.Coinbase.
Require Import Bits.Model.Coinbase Bits.Proofs.Coinbase.
Import ListNotations.
Import Coq.Init.Byte.
Local Open Scope Z_scope.

Definition coinbase_struct (script : bytes) (value : Z) (spk : bytes) (commit : option bytes) : tx_t :=
  mk_tx 1 [mk_txin null_txid 4294967295 script [xff; xff; xff; xff]]
        (mk_txout value spk :: match commit with Some c => [mk_txout 0 c] | None => [] end)
        (match commit with Some _ => Some [[witness_reserved_value]] | None => None end)
        0.

Lemma coinbase_struct_wf script value spk commit :
  (length script <= 100)%nat -> 0 <= value < 2 ^ 64 -> zlen spk < 2 ^ 64 ->
  (forall c, commit = Some c -> zlen c < 2 ^ 64) -> wf_tx (coinbase_struct script value spk commit).
Proof.
  intros L V S C. unfold wf_tx, coinbase_struct. cbn [tx_version tx_locktime tx_ins tx_outs tx_wits].
  assert (Wi : wf_txin (mk_txin null_txid 4294967295 script [xff; xff; xff; xff])).
  { unfold wf_txin. cbn [ti_txid ti_vout ti_script ti_seq]. repeat split; try reflexivity; try lia. }
  assert (Wo : wf_txout (mk_txout value spk)) by (unfold wf_txout; cbn [to_value to_script]; unfold zlen in S; lia).
  split; [lia|]. split; [lia|]. split; [discriminate|]. split; [reflexivity|]. split; [constructor; [exact Wi | constructor]|].
  destruct commit as [c|].
  - specialize (C c eq_refl). split; [reflexivity|]. split.
    + constructor; [exact Wo|]. constructor; [|constructor].
      unfold wf_txout. cbn [to_value to_script]. unfold zlen in C. lia.
    + split; [reflexivity|]. constructor; [|constructor]. unfold wf_stack. split; [reflexivity|].
      constructor; [reflexivity | constructor].
  - split; [reflexivity|]. split; [constructor; [exact Wo | constructor] | exact I].
Qed.

Lemma coinbase_struct_ser script value spk commit :
  (length script <= 100)%nat -> 0 <= value < 2 ^ 64 -> zlen spk < 2 ^ 64 ->
  (forall c, commit = Some c -> zlen c < 2 ^ 64) ->
  tx_ser (coinbase_struct script value spk commit) = Ok (coinbase_expected script value spk commit).
Proof.
  intros L V S C. unfold tx_ser, coinbase_struct. cbn [tx_version tx_locktime tx_ins tx_outs tx_wits mapM].
  assert (I : txin_ser (mk_txin null_txid 4294967295 script [xff; xff; xff; xff])
              = Ok (coinbase_input script [xff; xff; xff; xff])).
  { unfold txin_ser. cbn [ti_txid ti_vout ti_script ti_seq]. change (outpoint null_txid 4294967295) with (Ok null_outpoint).
    cbn [bind]. unfold txin. rewrite compact_size_uint_spec; [reflexivity|].
    split; [lia | apply Z.le_lt_trans with 100; [lia | reflexivity]]. }
  rewrite I. cbn [bind].
  assert (O : txout_ser (mk_txout value spk) = Ok (tx_output value spk)).
  { unfold txout_ser. cbn [to_value to_script]. apply txout_ok; assumption. }
  rewrite O. cbn [bind].
  destruct commit as [c|].
  - specialize (C c eq_refl). cbn [mapM].
    assert (O2 : txout_ser (mk_txout 0 c) = Ok (tx_output 0 c)).
    { unfold txout_ser. cbn [to_value to_script]. apply txout_ok; [lia | assumption]. }
    rewrite O2. cbn [bind]. rewrite reserved_witness. cbn [bind].
    rewrite tx_raw_segwit. f_equal. apply segwit_layout.
  - cbn [mapM bind]. rewrite tx_raw_legacy. f_equal. apply legacy_layout.
Qed.

Section WithHash.
  Variable sha256 : bytes -> bytes.

  (* every coinbase the code builds parses back (with anything after it) as: version 1, ONE input
     (32 zero bytes : 0xffffffff, script = height push ++ coinbase_script, sequence ffffffff), the payout output
     (+ the commitment output and the reserved-value witness exactly when a root argument was supplied), locktime 0;
     raw = the coinbase itself *)
  Theorem coinbase_tx_parses cs spk reward height regtest wroot t :
    coinbase_tx cs spk reward height regtest wroot = Ok t ->
    exists script value commit,
      prepend_height cs height = Ok script /\ claimed reward height regtest = Some value /\
      commit_spk wroot = Ok commit /\
      forall rest, exists txid_,
        tx_deser sha256 (t ++ rest)
        = Ok (mk_parsed txid_ (hash256 sha256 t) t (coinbase_struct script value spk commit), rest).
  Proof.
    intros E. destruct (coinbase_tx_inv _ _ _ _ _ _ _ E) as (script & value & commit & P & L & Cl & V & S & _ & CS & ->).
    exists script, value, commit. repeat split; try assumption.
    intros rest.
    assert (CL : forall c, commit = Some c -> zlen c < 2 ^ 64).
    { intros c ->. eapply commit_spk_length. exact CS. }
    pose proof (coinbase_struct_wf script value spk commit L V S CL) as W.
    pose proof (coinbase_struct_ser script value spk commit L V S CL) as Ser.
    destruct (tx_roundtrip sha256 _ _ W Ser rest) as (nw & _ & D). eexists. exact D.
  Qed.
End WithHash.
