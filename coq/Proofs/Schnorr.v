(* BIP340: the model of bits/bips/bip340.py (Model/Schnorr.v) against the BIP (Spec/Bip340.v).
   Part 1: byte-level lemmas, lift_x, verification.  Signing is in Proofs/SchnorrSign.v.
   Everything is generic in p, n, G under the explicit premise [curve_facts p 0 7 n G]. *)
From Coq Require Import ZArith List Bool Lia Zpow_facts.
Require Import Bits.Lib.Result Bits.Lib.Bytes Bits.Lib.Group Bits.Lib.ModArith.
Require Import Bits.Model.Ecmath Bits.Model.Keys Bits.Model.Schnorr.
Require Import Bits.Proofs.Ecmath Bits.Proofs.Ecdsa.
Require Bits.Spec.Bip340.
Import ListNotations.
Local Open Scope Z_scope.

Module S := Bits.Spec.Bip340.

(* ------------------------------------------------------------------------------------------ *)
(* bytes: xor, 32-byte encodings                                                               *)
(* ------------------------------------------------------------------------------------------ *)
Lemma lxor_mod_pow2 x y k : 0 <= k -> (Z.lxor x y) mod 2 ^ k = Z.lxor (x mod 2 ^ k) (y mod 2 ^ k).
Proof.
  intros Hk. apply Z.bits_inj'. intros i Hi.
  rewrite Z.lxor_spec, !Z.testbit_mod_pow2, Z.lxor_spec by lia.
  destruct (i <? k); simpl; auto.
Qed.

Lemma xor_byte_z2b x y : S.xor_byte (z2b x) (z2b y) = z2b (Z.lxor x y).
Proof.
  unfold S.xor_byte. rewrite !b2z_z2b_mod. change 256 with (2 ^ 8).
  rewrite <- lxor_mod_pow2 by lia. change (2 ^ 8) with 256. apply z2b_mod.
Qed.

Lemma to_le_lxor k x y : to_le k (Z.lxor x y) = S.xor_bytes (to_le k x) (to_le k y).
Proof.
  revert x y. induction k as [|k IH]; intros x y; [reflexivity|].
  cbn [to_le S.xor_bytes]. rewrite xor_byte_z2b. f_equal.
  rewrite <- IH. f_equal. change 256 with (2 ^ 8).
  rewrite <- !Z.shiftr_div_pow2 by lia. apply Z.shiftr_lxor.
Qed.

Lemma xor_bytes_app l1 l2 r1 r2 : length l1 = length l2 ->
  S.xor_bytes (l1 ++ r1) (l2 ++ r2) = S.xor_bytes l1 l2 ++ S.xor_bytes r1 r2.
Proof.
  revert l2. induction l1 as [|x l1 IH]; intros [|y l2] H; try discriminate; [reflexivity|].
  cbn [app S.xor_bytes]. f_equal. apply IH. now injection H.
Qed.

Lemma xor_bytes_rev l1 l2 : length l1 = length l2 ->
  S.xor_bytes (rev l1) (rev l2) = rev (S.xor_bytes l1 l2).
Proof.
  revert l2. induction l1 as [|x l1 IH]; intros [|y l2] H; try discriminate; [reflexivity|].
  cbn [rev S.xor_bytes]. injection H as H.
  rewrite xor_bytes_app by (now rewrite !rev_length). now rewrite IH.
Qed.

Lemma to_be_lxor k x y : to_be k (Z.lxor x y) = S.xor_bytes (to_be k x) (to_be k y).
Proof.
  unfold to_be. rewrite to_le_lxor. symmetry. apply xor_bytes_rev. now rewrite !to_le_length.
Qed.

(* the code's  (d ^ int.from_bytes(h)).to_bytes(32)  is the BIP's byte-wise xor of bytes(d) and h *)
Lemma xor_is_bytewise d h : length h = 32%nat ->
  to_be 32 (Z.lxor d (of_be h)) = S.xor_bytes (to_be 32 d) h.
Proof. intros H. rewrite to_be_lxor. rewrite <- H at 2. now rewrite to_be_of_be. Qed.

Lemma pow256_32 : 256 ^ Z.of_nat 32 = 2 ^ 256.
Proof. reflexivity. Qed.

Lemma lxor_bound x y : 0 <= x < 2 ^ 256 -> 0 <= y < 2 ^ 256 -> 0 <= Z.lxor x y < 2 ^ 256.
Proof.
  intros Hx Hy. assert (N0 : 0 <= Z.lxor x y) by (apply Z.lxor_nonneg; lia).
  split; [exact N0|].
  destruct (Z.eq_dec (Z.lxor x y) 0) as [->|Hz]; [reflexivity|].
  apply Z.log2_lt_pow2; [lia|].
  pose proof (Z.log2_lxor x y ltac:(lia) ltac:(lia)) as L.
  assert (Lx : Z.log2 x < 256).
  { destruct (Z.eq_dec x 0) as [->|]; [reflexivity|]. apply Z.log2_lt_pow2; lia. }
  assert (Ly : Z.log2 y < 256).
  { destruct (Z.eq_dec y 0) as [->|]; [reflexivity|]. apply Z.log2_lt_pow2; lia. }
  lia.
Qed.

Lemma to_be_chk_ok x : 0 <= x < 2 ^ 256 -> to_be_chk 32 x = Ok (to_be 32 x).
Proof.
  intros H. unfold to_be_chk. rewrite pow256_32.
  destruct (Z.leb_spec 0 x); [|lia]. destruct (Z.ltb_spec x (2 ^ 256)); [|lia]. reflexivity.
Qed.

Lemma of_be_32_bound h : length h = 32%nat -> 0 <= of_be h < 2 ^ 256.
Proof.
  intros H. split; [apply of_be_nonneg|]. pose proof (of_be_bound h) as B. now rewrite H, pow256_32 in B.
Qed.

Lemma of_be_to_be_32 x : 0 <= x < 2 ^ 256 -> of_be (to_be 32 x) = x.
Proof. intros H. apply of_be_to_be. now rewrite pow256_32. Qed.

Lemma to_be_of_be_32 h : length h = 32%nat -> to_be 32 (of_be h) = h.
Proof. intros H. rewrite <- H. apply to_be_of_be. Qed.

(* ------------------------------------------------------------------------------------------ *)
(* field facts                                                                                  *)
(* ------------------------------------------------------------------------------------------ *)
Lemma fpow_pow p x e : p <> 0 -> fpow p x e = x ^ e mod p.
Proof. intros. unfold fpow. now apply Zpow_mod_correct. Qed.

Lemma neg_sq_mod p y : 0 < p -> (p - y) ^ 2 mod p = y ^ 2 mod p.
Proof.
  intros Hp. replace ((p - y) ^ 2) with (y ^ 2 + (p - 2 * y) * p) by ring.
  apply Z.mod_add. lia.
Qed.

Lemma fsub0 p y : 0 < p -> 0 < y < p -> fsub p 0 y = p - y.
Proof.
  intros Hp Hy. unfold fsub. symmetry. apply (Z.mod_unique (0 - y) p (-1) (p - y)); lia.
Qed.

Lemma spec_neg_pneg p P : S.neg p P = pneg p P.
Proof. destruct P as [[x y]|]; [|reflexivity]. unfold S.neg, pneg, fsub. replace (0 - y) with (- y) by lia. reflexivity. Qed.

(* ------------------------------------------------------------------------------------------ *)
(* lift_x                                                                                       *)
(* ------------------------------------------------------------------------------------------ *)
Section Lift.
  Variable p : Z.
  Hypothesis Hp : 7 < p.

  Let F7 : inF p 7 = true. Proof. apply inF_iff; lia. Qed.

  (* the code's lift_x is the BIP's pseudocode; every failure is an AssertionError *)
  Theorem lift_x_is_spec xb :
    lift_x p xb = match S.lift_x p (of_be xb) with Some P => Ok P | None => Err AssertionE end.
  Proof.
    unfold lift_x, S.lift_x. pose proof (of_be_nonneg xb) as X0. set (x := of_be xb) in *.
    destruct (Z.ltb_spec x p) as [Hx|Hx]; destruct (Z.leb_spec p x) as [Hx'|Hx']; try lia; cbn [negb]; [|reflexivity].
    assert (Fx : inF p x = true) by (apply inF_iff; lia).
    rewrite (pow_ok p) by (auto; lia). cbn [bind].
    rewrite (add_ok p) by (auto; apply inF_fpow; lia). cbn [bind].
    assert (E4 : 0 <= (p + 1) / 4) by (apply Z.div_pos; lia).
    rewrite (pow_ok p) by (auto; apply inF_fadd; lia). cbn [bind].
    rewrite (pow_ok p) by (try apply inF_fpow; lia). cbn [bind].
    assert (Ec : fadd p (fpow p x 3) 7 = (x ^ 3 + 7) mod p).
    { unfold fadd. rewrite fpow_pow by lia. apply Zplus_mod_idemp_l. }
    rewrite Ec. set (c := (x ^ 3 + 7) mod p).
    rewrite !fpow_pow by lia. set (y := c ^ ((p + 1) / 4) mod p).
    destruct (c =? y ^ 2 mod p); cbn [negb]; [|reflexivity].
    destruct (y mod 2 =? 0); reflexivity.
  Qed.

  (* whatever lift_x returns is a point of y^2 = x^3 + 7 with that x *)
  Lemma spec_lift_x_oncurve x x' y : 0 <= x -> S.lift_x p x = Some (x', y) ->
    x' = x /\ oncurve p 0 7 (Some (x, y)).
  Proof.
    intros X0. unfold S.lift_x. destruct (Z.leb_spec p x) as [|Hx]; [discriminate|].
    set (c := (x ^ 3 + 7) mod p). set (y0 := c ^ ((p + 1) / 4) mod p).
    destruct (Z.eqb_spec c (y0 ^ 2 mod p)) as [Ec|]; [|discriminate]. cbn [negb].
    assert (R0 : 0 <= y0 < p) by (apply Z.mod_pos_bound; lia).
    assert (Erhs : rhs p 0 7 x = c).
    { unfold rhs, fadd, fmul. rewrite fpow_pow by lia. rewrite Z.mul_0_r, Z.mod_0_l, Z.add_0_r by lia.
      rewrite Z.mod_mod by lia. apply Zplus_mod_idemp_l. }
    intros H. destruct (Z.eqb_spec (y0 mod 2) 0) as [Ev|Od]; injection H as <- <-.
    - split; [reflexivity|].
      split; [apply inF_iff; lia|]. split; [apply inF_iff; lia|].
      rewrite fpow_pow by lia. now rewrite Erhs.
    - assert (y0 <> 0) by (intros E0; apply Od; rewrite E0; reflexivity).
      split; [reflexivity|].
      split; [apply inF_iff; lia|]. split; [apply inF_iff; lia|].
      rewrite fpow_pow by lia. rewrite neg_sq_mod by lia. now rewrite Erhs.
  Qed.
End Lift.

(* ------------------------------------------------------------------------------------------ *)
(* verification                                                                                 *)
(* ------------------------------------------------------------------------------------------ *)
(* every point of the curve has order dividing n (cofactor 1): true for secp256k1 (h = 1), proved by
   computation for the small curves; only needed for public keys that are NOT known to be multiples of G *)
Definition cofactor_one (p a b n : Z) : Prop := forall P, oncurve p a b P -> smul p a n P = None.

Section Verify.
  Variables p n : Z.
  Variable G : point.
  Variable sha256 : bytes -> bytes.
  Hypothesis CF : curve_facts p 0 7 n G.
  Hypothesis Hp256 : p <= 2 ^ 256.

  Let Hp := cf_p _ _ _ _ _ CF.
  Let Ha := cf_a _ _ _ _ _ CF.
  Let Hb := cf_b _ _ _ _ _ CF.
  Let CG := cf_group _ _ _ _ _ CF.
  Let Hn := cf_n _ _ _ _ _ CF.
  Let HG := cf_G _ _ _ _ _ CF.

  Lemma p_gt_7 : 7 < p.
  Proof. pose proof Hb as H. apply inF_iff in H. lia. Qed.

  Lemma spec_mul_smul k P : oncurve p 0 7 P -> 0 <= k -> S.mul (padd p 0) k P = smul p 0 k P.
  Proof. intros HP Hk. unfold S.mul, smul. symmetry. apply (dbl_add_spec _ _ _ _ _ CG); auto. Qed.

  (* n is prime in the sense needed: a product of two non-zero residues is non-zero *)
  Lemma mul_nonzero_mod x y : 0 < x < n -> 0 < y < n -> (x * y) mod n <> 0.
  Proof.
    intros Hx Hy E.
    pose proof (cf_inv_n _ _ _ _ _ CF y Hy) as I. set (yi := Zpow_mod y (n - 2) n) in *.
    assert (X : (x * (y * yi)) mod n = x).
    { rewrite <- Zmult_mod_idemp_r, I, Z.mul_1_r. apply Z.mod_small; lia. }
    replace (x * (y * yi)) with ((x * y) * yi) in X by ring.
    rewrite <- Zmult_mod_idemp_l, E in X. rewrite Z.mul_0_l, Z.mod_0_l in X by lia. lia.
  Qed.

  (* a non-zero multiple (mod n) of a finite point of order dividing n is finite *)
  Lemma smul_finite e P : oncurve p 0 7 P -> P <> None -> smul p 0 n P = None -> 0 < e < n ->
    smul p 0 e P <> None.
  Proof.
    intros HP PN Ord He E.
    pose proof (cf_inv_n _ _ _ _ _ CF e He) as Inv. set (ei := Zpow_mod e (n - 2) n) in *.
    assert (Ei : 0 <= ei) by (unfold ei; rewrite Zpow_mod_correct by lia; apply Z.mod_pos_bound; lia).
    assert (X : smul p 0 (ei * e) P = None).
    { rewrite <- (smul_mul p 0 7 CG) by (auto; lia). rewrite E.
      unfold smul. rewrite (dbl_add_spec _ _ _ _ _ CG) by (auto; exact I). apply (nmul_e _ _ _ _ _ CG). }
    unfold smul in X, Ord.
    rewrite <- (dbl_add_mod _ _ _ _ _ CG n P ltac:(lia) HP Ord) in X by nia.
    rewrite Z.mul_comm, Inv in X. cbn in X.
    destruct P as [[x y]|]; [|congruence]. cbn in X. discriminate.
  Qed.

  Notation mverify := (verify p 0 7 n G sha256).
  Notation sverify := (S.verify p n G (padd p 0) sha256).

  (* the part after the checks on the encodings, as a pure function of P, r, s, e *)
  Definition vcore_model (P : point) (r s e : Z) : result bytes :=
    match smul p 0 e P with
    | None => Err TypeE
    | Some Q =>
      match padd p 0 (smul p 0 s G) (pneg p (Some Q)) with
      | None => Err AssertionE
      | Some (Rx, Ry) => if (Ry mod 2 =? 0) && (Rx =? r) then Ok ok_str else Err AssertionE
      end
    end.
  Definition vcore_spec (P : point) (r s e : Z) : bool :=
    match padd p 0 (smul p 0 s G) (pneg p (smul p 0 e P)) with
    | None => false
    | Some (Rx, Ry) => (Ry mod 2 =? 0) && (Rx =? r)
    end.

  Lemma lifted_oncurve pk x y : S.lift_x p (of_be pk) = Some (x, y) ->
    oncurve p 0 7 (Some (x, y)) /\ x = of_be pk.
  Proof.
    intros Lift. destruct (spec_lift_x_oncurve p p_gt_7 (of_be pk) x y (of_be_nonneg pk) Lift) as [-> OC]. auto.
  Qed.

  Section Unfold.
    Variables pk m sig : bytes.
    Variables x y : Z.
    Hypothesis Lpk : length pk = 32%nat.
    Hypothesis Lsig : length sig = 64%nat.
    Hypothesis Lift : S.lift_x p (of_be pk) = Some (x, y).
    Let r := of_be (firstn 32 sig).
    Let s := of_be (skipn 32 sig).
    Hypothesis Hr : r < p.
    Hypothesis Hs : s < n.
    Let e := S.challenge n sha256 (to_be 32 r) (to_be 32 x) m.

    Lemma lifted_oncurve_ : oncurve p 0 7 (Some (x, y)) /\ x = of_be pk.
    Proof. exact (lifted_oncurve pk x y Lift). Qed.

    Lemma e_range : 0 <= e < n.
    Proof. unfold e, S.challenge. apply Z.mod_pos_bound. lia. Qed.

    Lemma verify_model_unfold : mverify pk m sig = vcore_model (Some (x, y)) r s e.
    Proof.
      destruct lifted_oncurve_ as [OC Ex]. pose proof OC as (Fx & Fy & _).
      apply (inF_iff p) in Fx. pose proof e_range as He.
      assert (R0 : 0 <= r) by apply of_be_nonneg. assert (S0 : 0 <= s) by apply of_be_nonneg.
      unfold verify. rewrite Lpk, Lsig. cbn [Nat.eqb negb].
      rewrite (lift_x_is_spec p p_gt_7), Lift. cbn [bind].
      rewrite (on_curve_true p 0 7 n G CF) by exact OC. cbn [bind negb].
      fold r s. destruct (Z.ltb_spec r p); [|lia]. destruct (Z.ltb_spec s n); [|lia]. cbn [negb].
      rewrite !to_be_chk_ok by lia. cbn [bind].
      change (of_be (tagged sha256 S.tag_challenge (to_be 32 r ++ to_be 32 x ++ m)) mod n) with e.
      rewrite (scalar_mul_smul p 0 7 Hp Ha CG) by auto. cbn [bind].
      rewrite (scalar_mul_smul p 0 7 Hp Ha CG) by (auto; lia). cbn [bind].
      unfold vcore_model.
      assert (OQ : oncurve p 0 7 (smul p 0 e (Some (x, y)))) by (apply (smul_oncurve p 0 7 CG); auto; lia).
      destruct (smul p 0 e (Some (x, y))) as [Q|] eqn:EQ; [|reflexivity].
      rewrite (negate_ok p 0 7 Hp) by (auto; congruence). cbn [bind].
      rewrite (point_add_ok p 0 7 Hp Ha) by (try apply (smul_oncurve p 0 7 CG); auto; apply CG; auto). cbn [bind].
      destruct (padd p 0 _ _) as [[Rx Ry]|]; [|reflexivity].
      destruct (Ry mod 2 =? 0); cbn [negb andb]; [|reflexivity].
      destruct (Rx =? r); reflexivity.
    Qed.

    Lemma verify_spec_unfold : sverify pk m sig = vcore_spec (Some (x, y)) r s e.
    Proof.
      destruct lifted_oncurve_ as [OC Ex]. pose proof e_range as He.
      assert (S0 : 0 <= s) by apply of_be_nonneg.
      unfold S.verify. rewrite Lpk, Lsig. cbn [Nat.eqb negb andb].
      unfold S.int. rewrite Lift. fold r s.
      destruct (Z.leb_spec p r); [lia|]. destruct (Z.leb_spec n s); [lia|].
      unfold S.bytes32. fold e.
      rewrite !spec_mul_smul by (auto; lia). rewrite spec_neg_pneg. reflexivity.
    Qed.
  End Unfold.

  (* ---- acceptance implies BIP acceptance: no further premise ---- *)
  Theorem verify_sound pk m sig v : mverify pk m sig = Ok v -> v = ok_str /\ sverify pk m sig = true.
  Proof.
    intros H.
    destruct (Nat.eqb_spec (length pk) 32) as [Lpk|Lpk];
      [|unfold verify in H; apply Nat.eqb_neq in Lpk; rewrite Lpk in H; discriminate].
    destruct (Nat.eqb_spec (length sig) 64) as [Lsig|Lsig];
      [|unfold verify in H; apply Nat.eqb_neq in Lsig; rewrite Lpk, Lsig in H; discriminate].
    destruct (S.lift_x p (of_be pk)) as [[x y]|] eqn:Lift;
      [|unfold verify in H; rewrite Lpk, Lsig, (lift_x_is_spec p p_gt_7), Lift in H; discriminate].
    destruct (Z.ltb_spec (of_be (firstn 32 sig)) p) as [Hr|Hr].
    2:{ exfalso. unfold verify in H. rewrite Lpk, Lsig, (lift_x_is_spec p p_gt_7), Lift in H. cbn [Nat.eqb negb bind] in H.
        destruct (point_is_on_curve p 0 7 x y) as [[|]|]; cbn [bind negb] in H; try discriminate.
        destruct (Z.ltb_spec (of_be (firstn 32 sig)) p); [lia|discriminate]. }
    destruct (Z.ltb_spec (of_be (skipn 32 sig)) n) as [Hs|Hs].
    2:{ exfalso. unfold verify in H. rewrite Lpk, Lsig, (lift_x_is_spec p p_gt_7), Lift in H. cbn [Nat.eqb negb bind] in H.
        destruct (point_is_on_curve p 0 7 x y) as [[|]|]; cbn [bind negb] in H; try discriminate.
        destruct (Z.ltb_spec (of_be (firstn 32 sig)) p); [|lia]. cbn [negb] in H.
        destruct (Z.ltb_spec (of_be (skipn 32 sig)) n); [lia|discriminate]. }
    rewrite (verify_model_unfold pk m sig x y) in H by auto.
    rewrite (verify_spec_unfold pk m sig x y) by auto.
    unfold vcore_model in H. unfold vcore_spec.
    destruct (smul p 0 _ (Some (x, y))) as [Q|]; [|discriminate].
    destruct (padd p 0 _ _) as [[Rx Ry]|]; [|discriminate].
    destruct ((Ry mod 2 =? 0) && (Rx =? of_be (firstn 32 sig))); [|discriminate].
    injection H as <-. auto.
  Qed.

  (* every rejection is an AssertionError, except the one path on which e.P is the point at infinity *)
  Theorem verify_err_kinds pk m sig k : mverify pk m sig = Err k -> k = AssertionE \/ k = TypeE.
  Proof.
    intros H. unfold verify in H.
    destruct (Nat.eqb (length pk) 32); cbn [negb] in H; [|injection H as <-; auto].
    destruct (Nat.eqb (length sig) 64); cbn [negb] in H; [|injection H as <-; auto].
    rewrite (lift_x_is_spec p p_gt_7) in H.
    destruct (S.lift_x p (of_be pk)) as [[x y]|] eqn:Lift; cbn [bind] in H; [|injection H as <-; auto].
    destruct (spec_lift_x_oncurve p p_gt_7 (of_be pk) x y (of_be_nonneg pk) Lift) as [-> OC].
    rewrite (on_curve_true p 0 7 n G CF) in H by exact OC. cbn [bind negb] in H.
    pose proof OC as (Fx & Fy & _). apply (inF_iff p) in Fx.
    set (r := of_be (firstn 32 sig)) in *. set (s := of_be (skipn 32 sig)) in *.
    assert (R0 : 0 <= r) by apply of_be_nonneg. assert (S0 : 0 <= s) by apply of_be_nonneg.
    destruct (Z.ltb_spec r p); cbn [negb] in H; [|injection H as <-; auto].
    destruct (Z.ltb_spec s n); cbn [negb] in H; [|injection H as <-; auto].
    rewrite !to_be_chk_ok in H by lia. cbn [bind] in H.
    set (e := of_be _ mod n) in H.
    assert (He : 0 <= e < n) by (apply Z.mod_pos_bound; lia).
    rewrite (scalar_mul_smul p 0 7 Hp Ha CG) in H by auto. cbn [bind] in H.
    rewrite (scalar_mul_smul p 0 7 Hp Ha CG) in H by (auto; lia). cbn [bind] in H.
    assert (OQ : oncurve p 0 7 (smul p 0 e (Some (of_be pk, y)))) by (apply (smul_oncurve p 0 7 CG); auto; lia).
    destruct (smul p 0 e (Some (of_be pk, y))) as [Q|] eqn:EQ; [|injection H as <-; auto].
    rewrite (negate_ok p 0 7 Hp) in H by (auto; congruence). cbn [bind] in H.
    rewrite (point_add_ok p 0 7 Hp Ha) in H by (try apply (smul_oncurve p 0 7 CG); auto; apply CG; auto). cbn [bind] in H.
    destruct (padd p 0 _ _) as [[Rx Ry]|]; [|injection H as <-; auto].
    destruct (Ry mod 2 =? 0); cbn [negb] in H; [|injection H as <-; auto].
    destruct (Rx =? r); cbn [negb] in H; [discriminate|injection H as <-; auto].
  Qed.

  (* ---- BIP acceptance implies acceptance, unless e.P is infinite (then: TypeError) ---- *)
  Definition challenge_of (pk m sig : bytes) : Z := S.challenge n sha256 (firstn 32 sig) pk m.

  Lemma challenge_of_eq pk m sig x : length pk = 32%nat -> length sig = 64%nat -> x = of_be pk ->
    S.challenge n sha256 (to_be 32 (of_be (firstn 32 sig))) (to_be 32 x) m = challenge_of pk m sig.
  Proof.
    intros Lpk Lsig ->. unfold challenge_of.
    rewrite to_be_of_be_32 by (rewrite firstn_length; lia). now rewrite to_be_of_be_32.
  Qed.

  Theorem verify_complete pk m sig : cofactor_one p 0 7 n ->
    (length pk = 32%nat -> length sig = 64%nat -> challenge_of pk m sig <> 0) ->
    sverify pk m sig = true -> mverify pk m sig = Ok ok_str.
  Proof.
    intros Cof E0 H.
    assert (L : length pk = 32%nat /\ length sig = 64%nat).
    { unfold S.verify in H. destruct (Nat.eqb_spec (length pk) 32), (Nat.eqb_spec (length sig) 64); cbn in H; try discriminate; auto. }
    destruct L as [Lpk Lsig]. specialize (E0 Lpk Lsig).
    destruct (S.lift_x p (of_be pk)) as [[x y]|] eqn:Lift.
    2:{ unfold S.verify, S.int in H. rewrite Lpk, Lsig, Lift in H. discriminate. }
    assert (Hr : of_be (firstn 32 sig) < p).
    { unfold S.verify, S.int in H. rewrite Lpk, Lsig, Lift in H. cbn [Nat.eqb negb andb] in H.
      destruct (Z.leb_spec p (of_be (firstn 32 sig))); [discriminate|lia]. }
    assert (Hs : of_be (skipn 32 sig) < n).
    { unfold S.verify, S.int in H. rewrite Lpk, Lsig, Lift in H. cbn [Nat.eqb negb andb] in H.
      destruct (Z.leb_spec p (of_be (firstn 32 sig))); [discriminate|].
      destruct (Z.leb_spec n (of_be (skipn 32 sig))); [discriminate|lia]. }
    destruct (lifted_oncurve pk x y Lift) as [OC Ex].
    rewrite (verify_spec_unfold pk m sig x y) in H by auto.
    rewrite (verify_model_unfold pk m sig x y) by auto.
    rewrite (challenge_of_eq pk m sig x) in * by auto.
    pose proof (e_range pk m sig x Lpk Lsig) as He. rewrite (challenge_of_eq pk m sig x) in He by auto.
    unfold vcore_spec in H. unfold vcore_model.
    assert (FN : smul p 0 (challenge_of pk m sig) (Some (x, y)) <> None).
    { apply smul_finite; auto; [congruence|lia]. }
    destruct (smul p 0 (challenge_of pk m sig) (Some (x, y))) as [Q|]; [|congruence].
    destruct (padd p 0 _ _) as [[Rx Ry]|]; [|discriminate].
    now rewrite H.
  Qed.

  Theorem verify_iff_spec pk m sig : cofactor_one p 0 7 n ->
    (length pk = 32%nat -> length sig = 64%nat -> challenge_of pk m sig <> 0) ->
    (mverify pk m sig = Ok ok_str <-> sverify pk m sig = true).
  Proof.
    intros Cof E0. split; [intros H; now apply (verify_sound pk m sig ok_str) | now apply verify_complete].
  Qed.

  (* the deviation, exactly: with e = 0 (mod n) the code raises TypeError (point_negate(None)) whatever the BIP says *)
  Theorem verify_e0_typeerror pk m sig x y : length pk = 32%nat -> length sig = 64%nat ->
    S.lift_x p (of_be pk) = Some (x, y) -> of_be (firstn 32 sig) < p -> of_be (skipn 32 sig) < n ->
    challenge_of pk m sig = 0 -> mverify pk m sig = Err TypeE.
  Proof.
    intros Lpk Lsig Lift Hr Hs E0. destruct (lifted_oncurve pk x y Lift) as [OC Ex].
    rewrite (verify_model_unfold pk m sig x y) by auto.
    rewrite (challenge_of_eq pk m sig x) by auto. rewrite E0. reflexivity.
  Qed.
End Verify.
