(* C16: the known findings as theorems about the FAITHFUL model (Model/Send.v), each with a concrete witness checked by
   kernel computation.  The scenarios use a one-byte scriptPubKey / redeem script and a constant scriptpubkey() - the
   signing messages do not depend on them - and hold for EVERY curve, sha256 and ripemd160. *)
From Coq Require Import ZArith List Lia Bool.
From Coq Require Import Floats.SpecFloat.
Require Import Bits.Lib.Result Bits.Lib.Bytes Bits.Lib.CompactSize.
Require Import Bits.Spec.Bip143 Bits.Spec.Sighash.
Require Import Bits.Model.SendValue Bits.Model.Send.
Require Bits.Model.Tx Bits.Model.Bip143 Bits.Proofs.Bip143.
Import ListNotations.
Import Coq.Init.Byte.
Local Open Scope Z_scope.

Module MT := Bits.Model.Tx.

Lemma neq_by_eqb (x y : bytes) : bytes_eqb x y = false -> x <> y.
Proof. intros H E. apply bytes_eqb_eq in E. congruence. Qed.

(* ---- the scenarios ---- *)
Definition spk0 : bytes := [x51].                                     (* the script being spent / the redeem script *)
Definition one_btc : spec_float := sf_of_me 1 0.
Definition ux (b : byte) (vout : Z) : utxo := mk_utxo (repeat b 32) vout one_btc spk0.
Definition a_key : bytes := repeat x01 32.
Definition ki_p2pk : keyinfo := mk_keyinfo k_p2pk [x01] [a_key] [].
Definition ki_p2wsh : keyinfo := mk_keyinfo k_p2wsh spk0 [a_key] spk0.
Definition spk_of (_ : bytes) : result bytes := Ok [x52].            (* scriptpubkey() of recipient / change *)
Definition sin (b : byte) (vout : Z) (script : bytes) : tx_input :=
  Bits.Spec.Bip143.mk_txin (repeat b 32) vout script 0xffffffff.     (* rev (repeat b 32) = repeat b 32 *)
Definition sout (v : Z) : tx_output := Bits.Spec.Bip143.mk_txout v [x52].

Section Refuted.
  Variables p a n : Z.
  Variable G : Bits.Model.Ecmath.point.
  Variable sha256 ripemd160 : bytes -> bytes.
  Notation build := (build_unsigned p a n G sha256 ripemd160 spk_of [] [] None).

  (* ---- legacy kinds, two inputs: ONE message - the whole transaction with BOTH scriptSigs filled - is signed; the
          consensus pre-image of input 0 has input 1's scriptSig EMPTY ---- *)
  Theorem legacy_multi_input_refuted :
    exists u tx_ pre,
      build (Some ki_p2pk) (sf_of_me 1 0) 1000 (sf_of_me 2 0) [ux x11 0; ux x22 1] = Ok u /\
      length (us_selected u) = 2%nat /\
      MT.tx_raw (map snd (us_selected u)) (us_txouts u) 1 0 [] = Ok tx_ /\
      let t := mk_tx 1 [sin x11 0 spk0; sin x22 1 spk0] [sout 199999000] 0 in
      ser_legacy t = tx_ /\                                     (* t is the transaction send_tx signs, once, for both inputs *)
      legacy_preimage t 0 spk0 1 = Some pre /\                  (* what SIGHASH_ALL hashes for input 0 *)
      pre <> tx_ ++ to_le 4 1.
  Proof.
    eexists. eexists. eexists.
    split; [vm_compute; reflexivity|]. split; [reflexivity|]. split; [vm_compute; reflexivity|].
    cbv zeta. split; [vm_compute; reflexivity|]. split; [vm_compute; reflexivity|].
    apply neq_by_eqb. vm_compute. reflexivity.
  Qed.

  (* ---- legacy kinds, ONE input, SIGHASH_NONE: the flag is appended but not applied (outputs are still signed) ---- *)
  Theorem legacy_flag_refuted :
    exists u tx_ pre,
      build (Some ki_p2pk) (sf_of_me 1 0) 1000 (sf_of_me 1 0) [ux x11 0] = Ok u /\
      length (us_selected u) = 1%nat /\
      MT.tx_raw (map snd (us_selected u)) (us_txouts u) 1 0 [] = Ok tx_ /\
      let t := mk_tx 1 [sin x11 0 spk0] [sout 99999000] 0 in
      ser_legacy t = tx_ /\
      legacy_preimage t 0 spk0 2 = Some pre /\                  (* SIGHASH_NONE: no outputs *)
      pre <> tx_ ++ to_le 4 2.
  Proof.
    eexists. eexists. eexists.
    split; [vm_compute; reflexivity|]. split; [reflexivity|]. split; [vm_compute; reflexivity|].
    cbv zeta. split; [vm_compute; reflexivity|]. split; [vm_compute; reflexivity|].
    apply neq_by_eqb. vm_compute. reflexivity.
  Qed.

  (* ---- legacy kinds, ONE input, SIGHASH_SINGLE with a change output: the second output must not be signed ---- *)
  Theorem legacy_single_with_change_refuted :
    exists u tx_ pre,
      build (Some ki_p2pk) (sf_of_me 1 (-1)) 1000 (sf_of_me 1 0) [ux x11 0] = Ok u /\
      length (us_txouts u) = 2%nat /\
      MT.tx_raw (map snd (us_selected u)) (us_txouts u) 1 0 [] = Ok tx_ /\
      let t := mk_tx 1 [sin x11 0 spk0] [sout 49999000; sout 50000000] 0 in
      ser_legacy t = tx_ /\
      legacy_preimage t 0 spk0 3 = Some pre /\
      pre <> tx_ ++ to_le 4 3.
  Proof.
    eexists. eexists. eexists.
    split; [vm_compute; reflexivity|]. split; [reflexivity|]. split; [vm_compute; reflexivity|].
    cbv zeta. split; [vm_compute; reflexivity|]. split; [vm_compute; reflexivity|].
    apply neq_by_eqb. vm_compute. reflexivity.
  Qed.

  (* ---- segwit kinds ---- *)
  Notation msgs_of := (segwit_msgs sha256).

  (* the serialised inputs / outputs of the scenarios below, as build_unsigned produces them *)
  Definition txins_of (u : unsigned) : list bytes := map snd (us_selected u).

  (* version 2: the message starts with the default version 1 *)
  Theorem segwit_version_refuted :
    exists u sc m pre,
      build (Some ki_p2wsh) (sf_of_me 1 0) 1000 (sf_of_me 1 0) [ux x11 0] = Ok u /\
      scriptcode_of p a n G sha256 ripemd160 ki_p2wsh = Ok sc /\
      msgs_of (txins_of u) (us_txouts u) sc (Some 1) [ux x11 0] = Ok [m] /\
      let t := mk_tx 2 [sin x11 0 []] [sout 99999000] 0 in       (* the transaction built with version=2 *)
      preimage sha256 t 0 100000000 spk0 1 = Some pre /\
      m <> pre.
  Proof.
    eexists. eexists. eexists. eexists.
    split; [vm_compute; reflexivity|]. split; [vm_compute; reflexivity|]. split; [vm_compute; reflexivity|].
    cbv zeta. split; [vm_compute; reflexivity|].
    intros E. apply (f_equal (firstn 4)) in E. vm_compute in E. discriminate E.
  Qed.

  (* the OUTPUT index of the spent utxo is used as the INPUT index: one input spending output 1 -> IndexError,
     although the BIP143 pre-image of input 0 exists *)
  Theorem segwit_vout_index_refuted :
    exists u sc,
      build (Some ki_p2wsh) (sf_of_me 1 0) 1000 (sf_of_me 1 0) [ux x11 1] = Ok u /\
      scriptcode_of p a n G sha256 ripemd160 ki_p2wsh = Ok sc /\
      msgs_of (txins_of u) (us_txouts u) sc (Some 1) [ux x11 1] = Err IndexE /\
      let t := mk_tx 1 [sin x11 1 []] [sout 99999000] 0 in
      exists pre, preimage sha256 t 0 100000000 spk0 1 = Some pre.
  Proof.
    eexists. eexists.
    split; [vm_compute; reflexivity|]. split; [vm_compute; reflexivity|]. split; [vm_compute; reflexivity|].
    cbv zeta. eexists. vm_compute. reflexivity.
  Qed.

  (* messages are built for ALL reported unspents: an unselected one (a quarter of 2 BTC needs only the first) whose
     output index is not a valid input index raises IndexError *)
  Theorem segwit_unselected_refuted :
    exists u sc,
      build (Some ki_p2wsh) (sf_of_me 1 (-2)) 1000 (sf_of_me 2 0) [ux x11 0; ux x22 1] = Ok u /\
      length (us_selected u) = 1%nat /\
      scriptcode_of p a n G sha256 ripemd160 ki_p2wsh = Ok sc /\
      msgs_of (txins_of u) (us_txouts u) sc (Some 1) [ux x11 0; ux x22 1] = Err IndexE /\
      exists m, msgs_of (txins_of u) (us_txouts u) sc (Some 1) [ux x11 0] = Ok [m].     (* only the selected one: fine *)
  Proof.
    eexists. eexists.
    split; [vm_compute; reflexivity|]. split; [reflexivity|]. split; [vm_compute; reflexivity|].
    split; [vm_compute; reflexivity|]. eexists. vm_compute. reflexivity.
  Qed.
End Refuted.
