(* WIF: round trip over every (network, address type, suffix), exact acceptance of the decoder, refusals. *)
From Coq Require Import ZArith List Bool Lia.
Require Import Bits.Lib.Result Bits.Lib.Bytes Bits.Model.Base58 Bits.Proofs.Base58 Bits.Model.Keys Bits.Proofs.Keys
  Bits.Spec.Wif Bits.Model.Wif.
Import ListNotations.
Import Coq.Init.Byte.
Local Open Scope Z_scope.

Lemma lookup_str_in {A} k (tbl : list (bytes * A)) v : lookup_str k tbl = Ok v -> In (k, v) tbl.
Proof.
  induction tbl as [|[k' v'] rest IH]; cbn [lookup_str]; [discriminate|].
  destruct (bytes_eqb k' k) eqn:E.
  - apply bytes_eqb_eq in E. subst. intros H; injection H as <-. now left.
  - intros H. right. auto.
Qed.

Lemma lookup_str_err {A} k (tbl : list (bytes * A)) e : lookup_str k tbl = Err e -> e = KeyE.
Proof.
  induction tbl as [|[k' v'] rest IH]; cbn [lookup_str]; [congruence|]. destruct (bytes_eqb k' k); [discriminate|auto].
Qed.

Lemma lookup_int_in {A} k (tbl : list (Z * A)) v : lookup_int k tbl = Ok v -> In (k, v) tbl.
Proof.
  induction tbl as [|[k' v'] rest IH]; cbn [lookup_int]; [discriminate|].
  destruct (Z.eqb_spec k' k) as [->|N]; [intros H; injection H as <-; now left | intros H; right; auto].
Qed.

Lemma lookup_int_err {A} k (tbl : list (Z * A)) e : lookup_int k tbl = Err e -> e = KeyE.
Proof.
  induction tbl as [|[k' v'] rest IH]; cbn [lookup_int]; [congruence|]. destruct (k' =? k); [discriminate|auto].
Qed.

(* every (network, type) row: the version byte fits one byte and maps back to (network class, type) *)
Definition row_ok (nb so : bytes * Z) : bool :=
  match to_be_chk 1 (snd nb + snd so) with
  | Ok [c] =>
    match lookup_int (of_be [c]) version_table with
    | Ok (n', t') => bytes_eqb n' (network_class (fst nb)) && bytes_eqb t' (fst so)
    | Err _ => false
    end
  | _ => false
  end.

Lemma all_rows_ok : forallb (fun nb => forallb (row_ok nb) script_offset) network_base = true.
Proof. vm_compute. reflexivity. Qed.

(* the version bytes the decoder knows *)
Lemma version_known_iff v :
  (exists r, lookup_int v version_table = Ok r) <-> (128 <= v <= 135 \/ 239 <= v <= 246).
Proof.
  split.
  - intros (r & H). apply lookup_int_in in H. vm_compute in H.
    repeat (destruct H as [H|H]; [injection H as <- _; lia|]). contradiction.
  - intros H.
    assert (C : v = 128 \/ v = 129 \/ v = 130 \/ v = 131 \/ v = 132 \/ v = 133 \/ v = 134 \/ v = 135 \/
                v = 239 \/ v = 240 \/ v = 241 \/ v = 242 \/ v = 243 \/ v = 244 \/ v = 245 \/ v = 246) by lia.
    repeat (destruct C as [->|C]; [eexists; vm_compute; reflexivity|]). subst v. eexists; vm_compute; reflexivity.
Qed.

Section WifProofs.
  Variable sha256 : bytes -> bytes.
  Hypothesis sha256_len : forall m, length (sha256 m) = 32%nat.
  Variable n : Z.

  (* wif_decode (wif_encode k t net data) returns version byte, key, suffix, type and the network CLASS *)
  Theorem wif_roundtrip k ty net data base off :
    length k = 32%nat -> 1 <= of_be k < n ->
    lookup_str net network_base = Ok base -> lookup_str ty script_offset = Ok off ->
    exists w,
      wif_encode sha256 n k ty net data = Ok w /\
      wif_decode_full sha256 w = Ok ([z2b (base + off)], network_class net, ty, k, data) /\
      wif_decode sha256 w = Ok ([z2b (base + off)], k, data).
  Proof using sha256_len.
    intros Lk Rk Hb Ho.
    assert (PK : privkey_int n k = Ok (of_be k)) by (apply privkey_int_iff; auto).
    pose proof all_rows_ok as A. rewrite forallb_forall in A.
    specialize (A (net, base) (lookup_str_in _ _ _ Hb)). rewrite forallb_forall in A.
    specialize (A (ty, off) (lookup_str_in _ _ _ Ho)). unfold row_ok in A. cbn [fst snd] in A.
    destruct (to_be_chk 1 (base + off)) as [[|c [|c' r]]|e] eqn:EP; try discriminate.
    assert (Ec : c = z2b (base + off)).
    { unfold to_be_chk in EP. destruct ((0 <=? base + off) && (base + off <? 256 ^ Z.of_nat 1)); [|discriminate].
      injection EP as <-. reflexivity. }
    destruct (lookup_int (of_be [c]) version_table) as [[n' t']|e] eqn:EL; [|discriminate].
    apply andb_true_iff in A as [A1 A2]. apply bytes_eqb_eq in A1, A2. subst n' t'.
    assert (DF : wif_decode_full sha256 (base58check sha256 ([c] ++ k ++ data))
                 = Ok ([c], network_class net, ty, k, data)).
    { unfold wif_decode_full. rewrite (b58check_roundtrip sha256 sha256_len). cbn [bind app firstn].
      rewrite EL. cbn [bind].
      assert (S1 : slice 1 33 (c :: k ++ data) = k).
      { change (slice 1 33 (c :: k ++ data)) with (firstn 32 (k ++ data)). rewrite <- Lk. rewrite firstn_app, Nat.sub_diag, firstn_all.
        cbn [firstn]. apply app_nil_r. }
      assert (S2 : skipn 33 (c :: k ++ data) = data).
      { change (skipn 33 (c :: k ++ data)) with (skipn 32 (k ++ data)). rewrite <- Lk. rewrite skipn_app, Nat.sub_diag, skipn_all. reflexivity. }
      rewrite S1, S2. reflexivity. }
    exists (base58check sha256 ([c] ++ k ++ data)). subst c. repeat split.
    - unfold wif_encode. rewrite PK, Hb, Ho. cbn [bind]. rewrite EP. reflexivity.
    - exact DF.
    - unfold wif_decode. rewrite DF. reflexivity.
  Qed.

  (* ---- refusals ---- *)
  (* the encoder refuses every invalid private key (0, n, anything >= n, wrong length) with AssertionError,
     before looking at the other arguments *)
  Theorem wif_encode_bad_key k ty net data :
    ~ (length k = 32%nat /\ 1 <= of_be k < n) -> wif_encode sha256 n k ty net data = Err AssertionE.
  Proof.
    intros H. unfold wif_encode. destruct (privkey_int n k) as [v|e] eqn:E.
    - apply privkey_int_iff in E as (L & R & _). exfalso. apply H. auto.
    - apply privkey_int_err in E. subst e. reflexivity.
  Qed.

  Theorem wif_encode_unknown_name k ty net data :
    length k = 32%nat -> 1 <= of_be k < n ->
    (forall v, lookup_str net network_base <> Ok v) \/ (forall v, lookup_str ty script_offset <> Ok v) ->
    wif_encode sha256 n k ty net data = Err KeyE.
  Proof.
    intros Lk Rk H. unfold wif_encode.
    rewrite (proj2 (privkey_int_iff n k (of_be k))) by auto. cbn [bind].
    destruct (lookup_str net network_base) as [bv|e] eqn:E1; cbn [bind].
    - destruct (lookup_str ty script_offset) as [ov|e] eqn:E2; cbn [bind].
      + exfalso. destruct H as [H|H]; [apply (H bv); auto | apply (H ov); auto].
      + apply lookup_str_err in E2. now subst e.
    - apply lookup_str_err in E1. now subst e.
  Qed.

  (* the decoder accepts EXACTLY the checksum-valid Base58Check strings whose first payload byte is a known
     version byte; it performs no check of the key length or range *)
  Theorem wif_accept_iff w ver net ty key data :
    wif_decode_full sha256 w = Ok (ver, net, ty, key, data) <->
    exists payload, base58check_decode sha256 w = Ok payload /\
      ver = firstn 1 payload /\ lookup_int (of_be ver) version_table = Ok (net, ty) /\
      key = slice 1 33 payload /\ data = skipn 33 payload.
  Proof.
    unfold wif_decode_full. split.
    - intros H. apply bind_ok in H as (payload & E & H). exists payload. split; [exact E|].
      destruct (lookup_int (of_be (firstn 1 payload)) version_table) as [[n' t']|e] eqn:EL; cbn [bind] in H; [|discriminate].
      injection H as <- <- <- <- <-. auto.
    - intros (payload & E & -> & EL & -> & ->). rewrite E. cbn [bind]. rewrite EL. reflexivity.
  Qed.

  (* bad alphabet character -> KeyError, bad checksum / too short -> ValueError, unknown version byte -> KeyError *)
  Theorem wif_refuses w e : wif_decode_full sha256 w = Err e ->
    base58check_decode sha256 w = Err e /\ (e = KeyE \/ e = ValueE)
    \/ (exists payload, base58check_decode sha256 w = Ok payload /\ e = KeyE /\
          ~ (128 <= of_be (firstn 1 payload) <= 135 \/ 239 <= of_be (firstn 1 payload) <= 246)).
  Proof.
    unfold wif_decode_full. destruct (base58check_decode sha256 w) as [payload|e0] eqn:E; cbn [bind].
    - destruct (lookup_int (of_be (firstn 1 payload)) version_table) as [[n' t']|e1] eqn:EL; cbn [bind]; [discriminate|].
      intros H. injection H as <-. right. exists payload. split; [reflexivity|].
      split; [eapply lookup_int_err; eauto|].
      intros K. apply version_known_iff in K as (r & K). congruence.
    - intros H. injection H as <-. left. split; [reflexivity|]. eapply b58check_reject_kinds; eauto.
  Qed.

  Corollary wif_decode_agrees w : wif_decode sha256 w =
    match wif_decode_full sha256 w with Ok (v, _, _, k, d) => Ok (v, k, d) | Err e => Err e end.
  Proof. unfold wif_decode. destruct (wif_decode_full sha256 w) as [[[[[v n'] t'] k] d]|e]; reflexivity. Qed.

  (* observation: a checksum-valid string that carries NO key at all is accepted (no length check) *)
  Theorem wif_decode_no_key_check :
    wif_decode_full sha256 (base58check sha256 [x80]) = Ok ([x80], mainnet, p2pkh, [], []).
  Proof using sha256_len.
    unfold wif_decode_full. rewrite (b58check_roundtrip sha256 sha256_len). reflexivity.
  Qed.
End WifProofs.
