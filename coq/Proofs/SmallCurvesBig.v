(* re-exports the two larger small curves (compiled in parallel from their own files) *)
Require Export Bits.Proofs.SmallCurves79 Bits.Proofs.SmallCurves67.
