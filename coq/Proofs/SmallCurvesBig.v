(* The two larger small curves: (p, n) = (79, 67) [n < p, like secp256k1] and (67, 79) [n > p].
   ~0.3 and ~0.5 million associativity triples: a few minutes of kernel computation. *)
From Coq Require Import ZArith List Bool Lia.
Require Import Bits.Lib.Result Bits.Model.Ecmath Bits.Proofs.Ecmath Bits.Proofs.Ecdsa Bits.Proofs.SmallCurves.
Import ListNotations.
Local Open Scope Z_scope.

Definition G79 : point := Eval vm_compute in hd None (tl (all_pts 79 0 7)).
Theorem facts_79 : curve_facts 79 0 7 67 G79.
Proof.
  apply check_facts_sound; [lia | lia | reflexivity | reflexivity | vm_compute; reflexivity | vm_compute; reflexivity].
Qed.

Definition G67 : point := Eval vm_compute in hd None (tl (all_pts 67 0 7)).
Theorem facts_67 : curve_facts 67 0 7 79 G67.
Proof.
  apply check_facts_sound; [lia | lia | reflexivity | reflexivity | vm_compute; reflexivity | vm_compute; reflexivity].
Qed.
