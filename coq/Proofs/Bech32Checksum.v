(* Bech32 checksum: GF(2)-linearity of the polymod step and soundness of create/verify checksum
   (DESIGN Appendix A.3), for the model of bip173.py's bech32_polymod. *)
From Coq Require Import ZArith List Lia Bool.
Require Import Bits.Lib.Result Bits.Lib.Bytes Bits.Lib.Radix Bits.Lib.RadixW.
Require Import Bits.Spec.Bip173 Bits.Model.Bech32.
Import ListNotations.
Local Open Scope Z_scope.

(* ---------- "x fits in n bits" stated on bits ---------- *)
Definition small (n x : Z) : Prop := forall m, n <= m -> Z.testbit x m = false.

Lemma small_bound n x : 0 <= n -> small n x -> 0 <= x < 2 ^ n.
Proof.
  intros Hn H.
  assert (E : x = x mod 2 ^ n).
  { apply Z.bits_inj'. intros m Hm. destruct (Z.lt_ge_cases m n) as [L|G].
    - now rewrite Z.mod_pow2_bits_low.
    - rewrite Z.mod_pow2_bits_high by lia. apply H. lia. }
  rewrite E. apply Z.mod_pos_bound. apply Z.pow_pos_nonneg; lia.
Qed.

Lemma bound_small n x : 0 <= x < 2 ^ n -> small n x.
Proof.
  intros [H0 H1] m Hm.
  destruct (Z.eq_dec x 0) as [->|Hx]; [apply Z.bits_0|].
  apply Z.bits_above_log2; [lia|].
  assert (Hn : 0 <= n).
  { destruct (Z.lt_ge_cases n 0) as [L|G]; [|lia]. rewrite Z.pow_neg_r in H1 by lia. lia. }
  assert (Z.log2 x < n) by (apply Z.log2_lt_pow2; lia). lia.
Qed.

Lemma small_lxor n a b : small n a -> small n b -> small n (Z.lxor a b).
Proof. intros Ha Hb m Hm. now rewrite Z.lxor_spec, Ha, Hb. Qed.

Lemma small_mono n n' x : n <= n' -> small n x -> small n' x.
Proof. intros L H m Hm. apply H. lia. Qed.

Lemma small_0 n : small n 0.
Proof. intros m _. apply Z.bits_0. Qed.

Lemma small_shiftl n k x : 0 <= n -> 0 <= k -> small n x -> small (n + k) (Z.shiftl x k).
Proof. intros Hn Hk H m Hm. rewrite Z.shiftl_spec by lia. apply H. lia. Qed.

Lemma small_land_ones n x : 0 <= n -> small n (Z.land x (Z.ones n)).
Proof.
  intros Hn m Hm. rewrite Z.land_spec, Z.testbit_ones by lia.
  replace (m <? n) with false by (symmetry; apply Z.ltb_ge; lia). now rewrite andb_false_r, andb_false_r.
Qed.

Lemma small_land_id n x : 0 <= n -> small n x -> Z.land x (Z.ones n) = x.
Proof.
  intros Hn H. apply Z.bits_inj'. intros m Hm. rewrite Z.land_spec, Z.testbit_ones by lia.
  destruct (Z.lt_ge_cases m n) as [L|G].
  - replace (0 <=? m) with true by (symmetry; apply Z.leb_le; lia).
    replace (m <? n) with true by (symmetry; apply Z.ltb_lt; lia). now rewrite andb_true_r.
  - rewrite H by lia. reflexivity.
Qed.

Lemma small_shiftr_0 n x : 0 <= n -> small n x -> Z.shiftr x n = 0.
Proof.
  intros Hn H. apply Z.bits_inj'. intros m Hm. rewrite Z.shiftr_spec, Z.bits_0 by lia. apply H. lia.
Qed.

(* appending a 5-bit digit: shift-xor, shift-or and multiply-add coincide *)
Lemma land_shl5_0 a v : 0 <= v < 32 -> Z.land (Z.shiftl a 5) v = 0.
Proof.
  intros Hv. apply Z.bits_inj'. intros m Hm. rewrite Z.land_spec, Z.bits_0.
  destruct (Z.lt_ge_cases m 5) as [L|G].
  - now rewrite Z.shiftl_spec_low.
  - rewrite (bound_small 5 v) by (change (2 ^ 5) with 32; lia || lia). apply andb_false_r.
Qed.

Lemma lxor_shl5 a v : 0 <= v < 32 -> Z.lxor (Z.shiftl a 5) v = a * 32 + v.
Proof.
  intros Hv. rewrite <- Z.add_nocarry_lxor by (now apply land_shl5_0).
  now rewrite Z.shiftl_mul_pow2 by lia.
Qed.

Lemma lor_shl5 a v : 0 <= v < 32 -> Z.lor (Z.shiftl a 5) v = a * 32 + v.
Proof. intros Hv. rewrite <- Z.lxor_lor by (now apply land_shl5_0). now apply lxor_shl5. Qed.

(* ---------- the step function ---------- *)
Definition gen_term (b i : Z) : Z := if Z.land (Z.shiftr b i) 1 =? 0 then 0 else gen_at i.
Definition gens (b : Z) : Z := fold_left (fun c i => Z.lxor c (gen_term b i)) [0; 1; 2; 3; 4] 0.

Lemma fold_lxor_acc (g : Z -> Z) l a v :
  fold_left (fun c i => Z.lxor c (g i)) l (Z.lxor a v) = Z.lxor (fold_left (fun c i => Z.lxor c (g i)) l a) v.
Proof.
  revert a. induction l as [|i l IH]; intros a; cbn [fold_left]; [reflexivity|].
  rewrite <- IH. f_equal. rewrite !Z.lxor_assoc. f_equal. apply Z.lxor_comm.
Qed.

Lemma step_split c v :
  polymod_step c v = Z.lxor (Z.lxor (Z.shiftl (Z.land c 0x1FFFFFF) 5) (gens (Z.shiftr c 25))) v.
Proof.
  unfold polymod_step, gens. fold (gen_term (Z.shiftr c 25)).
  change (fun chk i => Z.lxor chk (if Z.land (Z.shiftr (Z.shiftr c 25) i) 1 =? 0 then 0 else gen_at i))
    with (fun chk i => Z.lxor chk (gen_term (Z.shiftr c 25) i)).
  rewrite fold_lxor_acc.
  rewrite <- (Z.lxor_0_l (Z.shiftl (Z.land c 33554431) 5)) at 1.
  rewrite fold_lxor_acc. rewrite (Z.lxor_comm (fold_left _ _ 0)). reflexivity.
Qed.

Lemma step_v c v : polymod_step c v = Z.lxor (polymod_step c 0) v.
Proof. rewrite !step_split. now rewrite Z.lxor_0_r. Qed.

Lemma step_lin c d : small 25 d ->
  polymod_step (Z.lxor c d) 0 = Z.lxor (polymod_step c 0) (Z.shiftl d 5).
Proof.
  intros Hd. rewrite !step_split, !Z.lxor_0_r.
  rewrite Z.shiftr_lxor, (small_shiftr_0 25 d) by (lia || assumption). rewrite Z.lxor_0_r.
  change 33554431 with (Z.ones 25).
  assert (E : Z.land (Z.lxor c d) (Z.ones 25) = Z.lxor (Z.land c (Z.ones 25)) d).
  { apply Z.bits_inj'. intros m Hm. rewrite !Z.lxor_spec, !Z.land_spec, Z.lxor_spec.
    rewrite Z.testbit_ones by lia. destruct (Z.lt_ge_cases m 25) as [L|G].
    - replace (0 <=? m) with true by (symmetry; apply Z.leb_le; lia).
      replace (m <? 25) with true by (symmetry; apply Z.ltb_lt; lia). cbn [andb]. now rewrite !andb_true_r.
    - rewrite (Hd m) by lia. replace (m <? 25) with false by (symmetry; apply Z.ltb_ge; lia).
      now rewrite !andb_false_r. }
  rewrite E, Z.shiftl_lxor. rewrite !Z.lxor_assoc. f_equal. apply Z.lxor_comm.
Qed.

Lemma nth_GEN_bound n : 0 <= nth n GEN 0 < 2 ^ 30.
Proof.
  do 5 (destruct n as [|n]; [vm_compute; split; [discriminate|reflexivity]|]).
  destruct n; vm_compute; split; (discriminate || reflexivity).
Qed.

Lemma gen_at_small i : small 30 (gen_at i).
Proof. apply bound_small. apply nth_GEN_bound. Qed.

Lemma gens_small b : small 30 (gens b).
Proof.
  unfold gens. cbn [fold_left].
  repeat apply small_lxor; try apply small_0; unfold gen_term; destruct (_ =? 0); auto using small_0, gen_at_small.
Qed.

Lemma step_small c v : small 30 v -> small 30 (polymod_step c v).
Proof.
  intros Hv. rewrite step_split. apply small_lxor; [apply small_lxor|exact Hv].
  - change 33554431 with (Z.ones 25). change 30 with (25 + 5).
    apply small_shiftl; [lia|lia|]. apply small_land_ones. lia.
  - apply gens_small.
Qed.

(* ---------- running the step over a list ---------- *)
Definition run (c : Z) (vs : list Z) : Z := fold_left polymod_step vs c.

Lemma run_app c xs ys : run c (xs ++ ys) = run (run c xs) ys.
Proof. unfold run. apply fold_left_app. Qed.

Lemma run_small c vs : small 30 c -> Forall (small 30) vs -> small 30 (run c vs).
Proof.
  intros Hc H. revert c Hc. induction H as [|v vs Hv _ IH]; intros c Hc; [exact Hc|].
  cbn [run fold_left]. apply IH. now apply step_small.
Qed.

Lemma in_range_32_small vs : in_range 32 vs -> Forall (small 30) vs.
Proof.
  intros H. eapply Forall_impl; [|exact H]. intros v Hv. apply (small_mono 5); [lia|].
  apply bound_small. change (2 ^ 5) with 32. exact Hv.
Qed.

Lemma polymod_run vs : bech32_polymod vs = run 1 vs.
Proof. reflexivity. Qed.

(* feeding k <= 6 five-bit symbols = feeding k zeros, xor the packed symbols *)
Lemma run_lin vs : in_range 32 vs -> (length vs <= 6)%nat -> forall c,
  run c vs = Z.lxor (run c (repeat 0 (length vs))) (undigits 32 vs).
Proof.
  induction vs as [|v vs IH] using rev_ind; intros Hr Hl c.
  - cbn. now rewrite Z.lxor_0_r.
  - apply Forall_app in Hr as [Hr1 Hr2]. inversion Hr2 as [|? ? Hv _]; subst.
    rewrite app_length in *. cbn [length] in *.
    rewrite repeat_app. cbn [repeat].
    rewrite !run_app. cbn [run fold_left].
    rewrite (step_v _ v), (IH Hr1 ltac:(lia) c).
    rewrite step_lin.
    + rewrite undigits_snoc, <- lxor_shl5 by assumption. now rewrite Z.lxor_assoc.
    + apply bound_small. split; [apply undigits_nonneg; [lia|assumption]|].
      eapply Z.lt_le_trans; [apply undigits_bound; [lia|assumption]|].
      change 32 with (2 ^ 5). rewrite <- Z.pow_mul_r by lia. apply Z.pow_le_mono_r; lia.
Qed.

(* ---------- extracting base-32 digits with shifts and masks ---------- *)
Lemma shift_mask_digits x (g : nat) :
  map (fun i => Z.land (Z.shiftr x (5 * (Z.of_nat g - i - 1))) 31) (map Z.of_nat (seq 0 g)) = digits_w 32 g x.
Proof.
  revert x. induction g as [|g IH]; intros x; [reflexivity|].
  rewrite seq_S, !map_app. cbn [digits_w map]. f_equal.
  - rewrite <- IH. rewrite !map_map. apply map_ext_in. intros i Hi. apply in_seq in Hi.
    replace (5 * (Z.of_nat (S g) - Z.of_nat i - 1)) with (5 + 5 * (Z.of_nat g - Z.of_nat i - 1)) by lia.
    rewrite <- Z.shiftr_shiftr by lia. f_equal. f_equal. now rewrite Z.shiftr_div_pow2 by lia.
  - f_equal. replace (5 * (Z.of_nat (S g) - Z.of_nat (0 + g) - 1)) with 0 by lia.
    rewrite Z.shiftr_0_r. change 31 with (Z.ones 5). now rewrite Z.land_ones by lia.
Qed.

Lemma py_range_digits x g : 0 <= g ->
  map (fun i => Z.land (Z.shiftr x (5 * (g - i - 1))) 31) (py_range g) = digits_w 32 (Z.to_nat g) x.
Proof.
  intros Hg. unfold py_range. rewrite <- shift_mask_digits. now rewrite Z2Nat.id by lia.
Qed.

Lemma hrp_expand_in_range hrp : in_range 32 (bech32_hrp_expand hrp).
Proof.
  unfold bech32_hrp_expand. apply Forall_app. split; [|apply Forall_app; split].
  - apply Forall_forall. intros v Hv. apply in_map_iff in Hv as (x & <- & _).
    pose proof (b2z_range x) as R. rewrite Z.shiftr_div_pow2 by lia. change (2 ^ 5) with 32.
    split; [apply Z.div_pos; lia | apply Z.div_lt_upper_bound; lia].
  - constructor; [lia|constructor].
  - apply Forall_forall. intros v Hv. apply in_map_iff in Hv as (x & <- & _).
    change 31 with (Z.ones 5). rewrite Z.land_ones by lia. apply Z.mod_pos_bound. reflexivity.
Qed.

Lemma create_checksum_digits hrp d c :
  bech32_create_checksum hrp d c
  = digits_w 32 6 (Z.lxor (bech32_polymod ((bech32_hrp_expand hrp ++ d) ++ [0; 0; 0; 0; 0; 0])) c).
Proof.
  unfold bech32_create_checksum. rewrite <- (py_range_digits _ 6) by lia.
  change (py_range 6) with [0; 1; 2; 3; 4; 5]. apply map_ext. intros i. do 3 f_equal. lia.
Qed.

Lemma create_checksum_in_range hrp d c : in_range 32 (bech32_create_checksum hrp d c).
Proof. rewrite create_checksum_digits. apply digits_w_in_range. lia. Qed.

Lemma create_checksum_length hrp d c : length (bech32_create_checksum hrp d c) = 6%nat.
Proof. reflexivity. Qed.

(* verify (data ++ create data) holds for every 30-bit constant, in particular 1 and BECH32M_CONST *)
Theorem checksum_sound hrp d c : in_range 32 d -> 0 <= c < 2 ^ 30 ->
  bech32_verify_checksum hrp (d ++ bech32_create_checksum hrp d c) c = true.
Proof.
  intros Hd Hc. unfold bech32_verify_checksum. apply Z.eqb_eq.
  rewrite create_checksum_digits, !polymod_run, app_assoc.
  set (vals := bech32_hrp_expand hrp ++ d).
  change (bech32_polymod (vals ++ [0; 0; 0; 0; 0; 0])) with (run 1 (vals ++ [0; 0; 0; 0; 0; 0])).
  rewrite !run_app.
  set (c0 := run 1 vals).
  assert (S0 : small 30 c0).
  { apply run_small; [apply bound_small; lia|]. apply in_range_32_small.
    subst vals. apply Forall_app. split; [apply hrp_expand_in_range|exact Hd]. }
  set (p0 := run c0 [0; 0; 0; 0; 0; 0]).
  assert (SP : small 30 p0).
  { apply run_small; [exact S0|]. repeat constructor; apply small_0. }
  rewrite run_lin; [|apply digits_w_in_range; lia|rewrite digits_w_length; lia].
  rewrite digits_w_length. change (repeat 0 6) with [0; 0; 0; 0; 0; 0]. fold p0.
  rewrite undigits_digits_w_small; [|lia|].
  - now rewrite <- Z.lxor_assoc, Z.lxor_nilpotent, Z.lxor_0_l.
  - change (32 ^ Z.of_nat 6) with (2 ^ 30). apply small_bound; [lia|].
    apply small_lxor; [exact SP|now apply bound_small].
Qed.

Corollary checksum_sound_bech32 hrp d : in_range 32 d ->
  bech32_verify_checksum hrp (d ++ bech32_create_checksum hrp d 1) 1 = true.
Proof. intros. apply checksum_sound; [assumption|lia]. Qed.

Corollary checksum_sound_bech32m hrp d : in_range 32 d ->
  bech32_verify_checksum hrp (d ++ bech32_create_checksum hrp d BECH32M_CONST) BECH32M_CONST = true.
Proof. intros. apply checksum_sound; [assumption|]. vm_compute. split; [discriminate|reflexivity]. Qed.

(* ---------- the model's polymod is the BIP's ---------- *)
Lemma land1_testbit b i : 0 <= i -> (Z.land (Z.shiftr b i) 1 =? 0) = negb (Z.testbit b i).
Proof.
  intros Hi. change 1 with (Z.ones 1). rewrite Z.land_ones by lia. change (2 ^ 1) with 2.
  rewrite <- Z.bit0_mod, Z.shiftr_spec by lia. rewrite Z.add_0_l.
  destruct (Z.testbit b i); reflexivity.
Qed.

Lemma polymod_step_spec c v : polymod_step c v = Bits.Spec.Bip173.polymod_step c v.
Proof.
  unfold polymod_step, Bits.Spec.Bip173.polymod_step. cbn [combine GEN fold_left fst snd].
  rewrite !land1_testbit by lia. unfold gen_at. cbn [Z.to_nat Pos.to_nat Pos.iter_op Nat.add nth GEN].
  repeat match goal with |- context [Z.testbit ?b ?i] => destruct (Z.testbit b i) end;
    cbn [negb]; rewrite ?Z.lxor_0_r; reflexivity.
Qed.

Lemma polymod_spec vs : bech32_polymod vs = Bits.Spec.Bip173.polymod vs.
Proof.
  unfold bech32_polymod, Bits.Spec.Bip173.polymod. generalize 1.
  induction vs as [|v vs IH]; intros c; cbn [fold_left]; [reflexivity|].
  now rewrite polymod_step_spec, IH.
Qed.

Lemma hrp_expand_spec hrp : bech32_hrp_expand hrp = Bits.Spec.Bip173.hrp_expand hrp.
Proof.
  unfold bech32_hrp_expand, Bits.Spec.Bip173.hrp_expand. f_equal; [|f_equal]; apply map_ext; intros x.
  - now rewrite Z.shiftr_div_pow2 by lia.
  - change 31 with (Z.ones 5). now rewrite Z.land_ones by lia.
Qed.
