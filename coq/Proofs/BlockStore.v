(* Proofs about the block-file store model, part 2: write_blocks_to_disk and histories of calls. *)
From Coq Require Import ZArith NArith List Lia Bool.
Require Import Bits.Lib.Result Bits.Lib.Bytes Bits.Model.BlockFiles Bits.Proofs.BlockFiles Bits.Proofs.BlockNames.
Import ListNotations.
Local Open Scope Z_scope.

Section Store.
  Variable max : Z.
  Variable magic : bytes.
  Notation record := (record magic).
  Notation write_loop := (write_loop max magic).
  Notation write_trace := (write_trace max magic).
  Notation write_blocks := (write_blocks max magic).
  Notation history := (history max magic).

  Definition records (blocks : list bytes) : bytes := concat (map record blocks).

  (* ---------------------------------------------------------------- shape of the generated trace *)
  (* the loop without the final close, and the (open file, tell()) it ends with *)
  Fixpoint write_body (fs0 : files) (cur : N) (size : Z) (blocks : list bytes) : list prim :=
    match blocks with
    | [] => []
    | blk :: rest =>
      if zlen (record blk) + size >? max then
        Close :: Open (N.succ cur) :: Write (record blk)
          :: write_body fs0 (N.succ cur) (zlen (content (N.succ cur) fs0) + zlen (record blk)) rest
      else Write (record blk) :: write_body fs0 cur (size + zlen (record blk)) rest
    end.
  Fixpoint loop_state (fs0 : files) (cur : N) (size : Z) (blocks : list bytes) : N * Z :=
    match blocks with
    | [] => (cur, size)
    | blk :: rest =>
      if zlen (record blk) + size >? max then
        loop_state fs0 (N.succ cur) (zlen (content (N.succ cur) fs0) + zlen (record blk)) rest
      else loop_state fs0 cur (size + zlen (record blk)) rest
    end.

  Lemma loop_body fs0 blocks : forall cur size,
    write_loop fs0 cur size blocks = write_body fs0 cur size blocks ++ [Close].
  Proof.
    induction blocks as [|b rest IH]; intros cur size; cbn [BlockFiles.write_loop write_body]; [reflexivity|].
    destruct (zlen (record b) + size >? max); cbn [app]; now rewrite IH.
  Qed.

  Lemma body_app fs0 pre post : forall cur size,
    write_body fs0 cur size (pre ++ post) =
    write_body fs0 cur size pre
      ++ write_body fs0 (fst (loop_state fs0 cur size pre)) (snd (loop_state fs0 cur size pre)) post.
  Proof.
    induction pre as [|b pre IH]; intros cur size; cbn [app write_body loop_state fst snd]; [reflexivity|].
    destruct (zlen (record b) + size >? max); cbn [app]; now rewrite IH.
  Qed.

  Lemma body_wf fs0 blocks : forall cur size, wf_trace cur (Some cur) (write_body fs0 cur size blocks).
  Proof.
    induction blocks as [|b rest IH]; intros cur size; cbn [write_body]; [exact I|].
    destruct (zlen (record b) + size >? max); cbn [wf_trace].
    - split; [lia|]. split; [reflexivity | apply IH].
    - split; [reflexivity | apply IH].
  Qed.

  Lemma loop_wf fs0 blocks cur size : wf_trace cur (Some cur) (write_loop fs0 cur size blocks).
  Proof.
    revert cur size. induction blocks as [|b rest IH]; intros cur size; cbn [BlockFiles.write_loop]; [exact I|].
    destruct (zlen (record b) + size >? max); cbn [wf_trace].
    - split; [lia|]. split; [reflexivity | apply IH].
    - split; [reflexivity | apply IH].
  Qed.

  Lemma loop_written fs0 blocks : forall cur size, written (write_loop fs0 cur size blocks) = records blocks.
  Proof.
    unfold records. induction blocks as [|b rest IH]; intros cur size; cbn [BlockFiles.write_loop map concat]; [reflexivity|].
    destruct (zlen (record b) + size >? max); cbn [written]; now rewrite IH.
  Qed.

  Lemma trace_wf fs blocks : small_dir fs -> wf_trace (top fs) None (write_trace fs blocks).
  Proof.
    intros H. unfold BlockFiles.write_trace. rewrite (current_file_top fs H). cbn [wf_trace].
    split; [lia | apply loop_wf].
  Qed.

  Lemma trace_written fs blocks : written (write_trace fs blocks) = records blocks.
  Proof. unfold BlockFiles.write_trace. cbn [written]. apply loop_written. Qed.

  Lemma inv_start fs : inv (top fs) (fs, None).
  Proof. split; [apply top_ge | discriminate]. Qed.

  (* ---------------------------------------------------------------- one call *)
  Lemma run_trace_run fs tr : run_trace fs tr = fst (run (fs, None) tr).
  Proof. reflexivity. Qed.

  Theorem call_stream fs blocks : small_dir fs ->
    read_all (snd (write_blocks fs blocks)) = read_all fs ++ records blocks.
  Proof.
    intros H. unfold BlockFiles.write_blocks. cbn [snd]. rewrite run_trace_run.
    rewrite (run_wf _ (top fs) fs None (inv_start fs) (trace_wf fs blocks H)). now rewrite trace_written.
  Qed.

  (* crash after k primitive operations: what is on disk is the old stream followed by a byte-prefix of the new
     records, and the remaining operations would only have appended *)
  Theorem call_crash_prefix fs blocks k : small_dir fs ->
    let tr := write_trace fs blocks in
    let crashed := run_trace fs (firstn k tr) in
    exists pre suf, records blocks = pre ++ suf /\ read_all crashed = read_all fs ++ pre /\
      read_all (run_trace fs tr) = read_all crashed ++ suf /\
      forall n, exists more, content n crashed = content n fs ++ more.
  Proof.
    intros H tr crashed. exists (written (firstn k tr)), (written (skipn k tr)).
    assert (Hw : wf_trace (top fs) None tr) by (apply trace_wf; exact H).
    assert (E1 : read_all crashed = read_all fs ++ written (firstn k tr)).
    { unfold crashed. rewrite run_trace_run. apply (run_wf _ (top fs)); [apply inv_start | now apply wf_trace_firstn]. }
    assert (E0 : records blocks = written (firstn k tr) ++ written (skipn k tr)).
    { rewrite <- written_app, firstn_skipn. symmetry. apply trace_written. }
    split; [exact E0|]. split; [exact E1|]. split.
    - rewrite E1, <- app_assoc, <- E0. rewrite run_trace_run.
      rewrite (run_wf _ (top fs) fs None (inv_start fs) Hw). unfold tr. now rewrite trace_written.
    - intros n. unfold crashed. rewrite run_trace_run.
      destruct (run_append_only (firstn k tr) fs None n) as (suf & E & _). now exists suf.
  Qed.

  (* append-only: every file that existed still exists and its old content is a prefix of the new content *)
  Theorem call_append_only fs blocks n :
    exists more, content n (snd (write_blocks fs blocks)) = content n fs ++ more /\
                 (In n (keys fs) -> In n (keys (snd (write_blocks fs blocks)))).
  Proof. unfold BlockFiles.write_blocks. cbn [snd]. rewrite run_trace_run. apply run_append_only. Qed.

  (* ---------------------------------------------------------------- which files a call can create *)
  Fixpoint opens (tr : list prim) : list N :=
    match tr with
    | [] => []
    | Open n :: tr' => n :: opens tr'
    | _ :: tr' => opens tr'
    end.

  Lemma run_keys : forall tr fs op n,
    In n (keys (fst (run (fs, op) tr))) -> In n (keys fs) \/ In n (opens tr).
  Proof.
    induction tr as [|p tr IH]; intros fs op n H; [now left|].
    cbn [run fold_left apply_prim] in H. destruct p as [m|bs|]; cbn [opens].
    - apply (IH (open_file m fs) (Some m)) in H. destruct H as [H|H]; [|right; now right].
      apply (proj2 (keys_open m fs)) in H. destruct H as [H| ->]; [now left | right; now left].
    - destruct op as [c|].
      + apply (IH (append_file c bs fs) (Some c)) in H. now rewrite keys_append in H.
      + now apply (IH fs None) in H.
    - now apply (IH fs None) in H.
  Qed.

  Lemma loop_opens fs0 blocks : forall cur size n,
    In n (opens (write_loop fs0 cur size blocks)) -> (cur < n <= cur + N.of_nat (length blocks))%N.
  Proof.
    induction blocks as [|b rest IH]; intros cur size n; cbn [BlockFiles.write_loop opens length]; [intros []|].
    destruct (zlen (record b) + size >? max); cbn [opens In].
    - intros [<- | H]; [lia | apply IH in H; lia].
    - intros H. apply IH in H. lia.
  Qed.

  Lemma call_keys fs blocks n : small_dir fs ->
    In n (keys (snd (write_blocks fs blocks))) -> In n (keys fs) \/ (top fs <= n <= top fs + N.of_nat (length blocks))%N.
  Proof.
    intros Hs H. unfold BlockFiles.write_blocks in H. cbn [snd] in H. rewrite run_trace_run in H.
    apply run_keys in H. destruct H as [H|H]; [now left | right].
    unfold BlockFiles.write_trace in H. rewrite (current_file_top fs Hs) in H. cbn [opens In] in H.
    destruct H as [<- | H]; [lia | apply loop_opens in H; lia].
  Qed.

  (* room for k further blocks without reaching file number 100000 *)
  Definition room (fs : files) (k : nat) : Prop :=
    (N.of_nat k < 100000)%N /\ forall n, In n (keys fs) -> (n + N.of_nat k < 100000)%N.

  Lemma room_small fs k : room fs k -> small_dir fs.
  Proof. intros [_ H]. apply Forall_forall. intros n Hn. specialize (H n Hn). lia. Qed.

  Lemma room_call fs blocks k : room fs (length blocks + k) -> room (snd (write_blocks fs blocks)) k.
  Proof.
    intros [H0 H]. assert (Hs : small_dir fs) by (apply (room_small fs (length blocks + k)); split; auto).
    split; [lia|]. intros n Hn. apply call_keys in Hn; [|exact Hs]. destruct Hn as [Hn|Hn].
    - specialize (H n Hn). lia.
    - destruct fs as [|f fs'].
      + cbn in Hn. lia.
      + assert (Hne : f :: fs' <> []) by discriminate.
        specialize (H (top (f :: fs')) (top_in _ Hne)). lia.
  Qed.

  (* ---------------------------------------------------------------- histories *)
  Lemma history_cons fs b bs : history fs (b :: bs) = history (snd (write_blocks fs b)) bs.
  Proof. reflexivity. Qed.

  Definition total (batches : list (list bytes)) : nat := length (concat batches).

  Theorem stream_preserved : forall batches fs, room fs (total batches) ->
    read_all (history fs batches) = read_all fs ++ records (concat batches).
  Proof.
    induction batches as [|b bs IH]; intros fs Hr.
    - cbn. now rewrite app_nil_r.
    - rewrite history_cons. unfold total in Hr. cbn [concat] in Hr. rewrite app_length in Hr.
      rewrite IH by (now apply room_call).
      rewrite call_stream by (eapply room_small; eauto).
      unfold records. cbn [concat]. now rewrite map_app, concat_app, app_assoc.
  Qed.

  Theorem append_only : forall batches fs n,
    exists more, content n (history fs batches) = content n fs ++ more /\
                 (In n (keys fs) -> In n (keys (history fs batches))).
  Proof.
    induction batches as [|b bs IH]; intros fs n.
    - exists []. cbn. rewrite app_nil_r. auto.
    - rewrite history_cons. destruct (call_append_only fs b n) as (m1 & E1 & K1).
      destruct (IH (snd (write_blocks fs b)) n) as (m2 & E2 & K2).
      exists (m1 ++ m2). rewrite E2, E1, app_assoc. auto.
  Qed.

  (* ---------------------------------------------------------------- sizes and the rollover decision *)
  (* state of the loop: file [cur] is open and is the highest-numbered one, [size] is its real size, and no
     higher-numbered file has any content (neither now nor in the directory the call started from) *)
  Definition loop_inv (fs0 fs : files) (cur : N) (size : Z) : Prop :=
    In cur (keys fs) /\ size = zlen (content cur fs) /\ keys_le cur fs /\ keys_le cur fs0.

  Lemma content_above T n fs : keys_le T fs -> (T < n)%N -> content n fs = [].
  Proof. intros H Hn. apply content_absent. intros Hin. specialize (H n Hin). lia. Qed.

  Lemma zlen_app {A} (a b : list A) : zlen (a ++ b) = zlen a + zlen b.
  Proof. unfold zlen. rewrite app_length. lia. Qed.

  (* one block: the state after its primitive operations *)
  Lemma step_inv fs0 fs cur size b :
    loop_inv fs0 fs cur size ->
    let tr := write_body fs0 cur size [b] in
    let st := run (fs, Some cur) tr in
    let cs := loop_state fs0 cur size [b] in
    snd st = Some (fst cs) /\ loop_inv fs0 (fst st) (fst cs) (snd cs) /\
    (forall n, zlen (content n (fst st)) =
               if N.eqb n (fst cs) then (if N.eqb (fst cs) cur then size else 0) + zlen (record b)
               else zlen (content n fs)).
  Proof.
    intros (Hin & Hsz & HK & HK0). cbn [write_body loop_state].
    destruct (zlen (record b) + size >? max) eqn:E; cbn [run fold_left apply_prim fst snd].
    - set (nxt := N.succ cur).
      assert (Hfresh : content nxt fs = []) by (apply (content_above cur); [exact HK | unfold nxt; lia]).
      assert (Hfresh0 : content nxt fs0 = []) by (apply (content_above cur); [exact HK0 | unfold nxt; lia]).
      destruct (keys_open nxt fs) as [Hin' Hk'].
      split; [reflexivity|]. split; [split; [|split; [|split]]|].
      + now rewrite keys_append.
      + rewrite content_append_same, content_open, Hfresh, Hfresh0 by exact Hin'. cbn [app]. unfold zlen at 1. cbn [length]. lia.
      + intros m Hm. rewrite keys_append in Hm. apply Hk' in Hm. destruct Hm as [Hm| ->]; [specialize (HK m Hm); unfold nxt; lia | lia].
      + intros m Hm. specialize (HK0 m Hm). unfold nxt. lia.
      + intros n. destruct (N.eqb_spec n nxt) as [->|Hne].
        * rewrite content_append_same, content_open, Hfresh by exact Hin'. cbn [app].
          destruct (N.eqb_spec nxt cur) as [C|_]; [unfold nxt in C; lia | lia].
        * rewrite content_append_other, content_open by exact Hne. reflexivity.
    - split; [reflexivity|]. split; [split; [|split; [|split]]|].
      + now rewrite keys_append.
      + rewrite content_append_same, zlen_app by exact Hin. lia.
      + unfold keys_le. now rewrite keys_append.
      + exact HK0.
      + intros n. destruct (N.eqb_spec n cur) as [->|Hne].
        * rewrite content_append_same, zlen_app by exact Hin. rewrite N.eqb_refl. lia.
        * rewrite content_append_other by exact Hne. reflexivity.
  Qed.

  Lemma body_cons fs0 cur size b rest :
    write_body fs0 cur size (b :: rest) =
    write_body fs0 cur size [b]
      ++ write_body fs0 (fst (loop_state fs0 cur size [b])) (snd (loop_state fs0 cur size [b])) rest.
  Proof. apply (body_app fs0 [b] rest). Qed.

  Lemma state_cons fs0 cur size b rest :
    loop_state fs0 cur size (b :: rest) =
    loop_state fs0 (fst (loop_state fs0 cur size [b])) (snd (loop_state fs0 cur size [b])) rest.
  Proof. cbn [loop_state]. destruct (zlen (record b) + size >? max); reflexivity. Qed.

  (* any number of blocks *)
  Lemma body_inv fs0 blocks : forall fs cur size,
    loop_inv fs0 fs cur size ->
    let st := run (fs, Some cur) (write_body fs0 cur size blocks) in
    let cs := loop_state fs0 cur size blocks in
    snd st = Some (fst cs) /\ loop_inv fs0 (fst st) (fst cs) (snd cs).
  Proof.
    induction blocks as [|b rest IH]; intros fs cur size Hinv.
    - cbn. auto.
    - rewrite (body_cons fs0 cur size b rest), (state_cons fs0 cur size b rest). cbv zeta. rewrite run_app.
      destruct (step_inv fs0 fs cur size b Hinv) as (Hop & Hinv' & _).
      destruct (run (fs, Some cur) (write_body fs0 cur size [b])) as [fs1 op1] eqn:E1.
      cbn [fst snd] in Hop, Hinv'. subst op1. apply IH. exact Hinv'.
  Qed.

  (* no file exceeds max, provided no file did before and every record fits into an empty file *)
  Lemma body_size fs0 blocks : forall fs cur size,
    loop_inv fs0 fs cur size -> (forall n, zlen (content n fs) <= max) ->
    Forall (fun b => zlen (record b) <= max) blocks ->
    forall n, zlen (content n (fst (run (fs, Some cur) (write_body fs0 cur size blocks)))) <= max.
  Proof.
    induction blocks as [|b rest IH]; intros fs cur size Hinv Hle HF n; [apply Hle|].
    inversion HF as [|? ? Hb HF']; subst.
    rewrite (body_cons fs0 cur size b rest), run_app.
    destruct (step_inv fs0 fs cur size b Hinv) as (Hop & Hinv' & Hsz).
    destruct (run (fs, Some cur) (write_body fs0 cur size [b])) as [fs1 op1] eqn:E1.
    cbn [fst snd] in Hop, Hinv', Hsz. subst op1. apply IH; [exact Hinv' | | exact HF'].
    intros m. rewrite Hsz. cbn [loop_state]. destruct Hinv as (_ & Hsize & _).
    destruct (zlen (record b) + size >? max) eqn:E; cbn [fst].
    - destruct (N.eqb_spec m (N.succ cur)); [|apply Hle].
      destruct (N.eqb_spec (N.succ cur) cur); [lia | lia].
    - destruct (N.eqb_spec m cur); [|apply Hle]. rewrite N.eqb_refl.
      rewrite Z.gtb_ltb in E. apply Z.ltb_ge in E. lia.
  Qed.

  Lemma start_inv fs : small_dir fs ->
    let cur := current_file fs in
    loop_inv fs (open_file cur fs) cur (zlen (content cur fs)).
  Proof.
    intros Hs cur. unfold cur. rewrite (current_file_top fs Hs).
    destruct (keys_open (top fs) fs) as [Hin Hk]. split; [exact Hin|]. split; [now rewrite content_open|].
    split; [|apply top_ge]. intros m Hm. apply Hk in Hm. destruct Hm as [Hm| ->]; [now apply top_ge | lia].
  Qed.

  Lemma run_trace_call fs blocks :
    snd (write_blocks fs blocks) =
    fst (run (open_file (current_file fs) fs, Some (current_file fs))
             (write_body fs (current_file fs) (zlen (content (current_file fs) fs)) blocks)).
  Proof.
    unfold BlockFiles.write_blocks, BlockFiles.write_trace. cbn [snd]. rewrite run_trace_run, loop_body.
    cbn [run fold_left apply_prim]. fold (run (open_file (current_file fs) fs, Some (current_file fs))).
    change (fold_left apply_prim ?t ?s) with (run s t). rewrite run_app.
    destruct (run _ (write_body _ _ _ blocks)) as [fs1 op1]. reflexivity.
  Qed.

  Theorem call_size_bound fs blocks : small_dir fs ->
    (forall n, zlen (content n fs) <= max) -> Forall (fun b => zlen (record b) <= max) blocks ->
    forall n, zlen (content n (snd (write_blocks fs blocks))) <= max.
  Proof.
    intros Hs Hle HF n. rewrite run_trace_call. apply body_size; [now apply start_inv | | exact HF].
    intros m. now rewrite content_open.
  Qed.

  Theorem size_bound : forall batches fs, room fs (total batches) ->
    (forall n, zlen (content n fs) <= max) -> Forall (fun b => zlen (record b) <= max) (concat batches) ->
    forall n, zlen (content n (history fs batches)) <= max.
  Proof.
    induction batches as [|b bs IH]; intros fs Hr Hle HF n; [apply Hle|].
    rewrite history_cons. unfold total in Hr. cbn [concat] in Hr, HF. rewrite app_length in Hr.
    apply Forall_app in HF. destruct HF as [HF1 HF2].
    apply IH; [now apply room_call | | exact HF2].
    apply call_size_bound; [eapply room_small; eauto | exact Hle | exact HF1].
  Qed.

  (* the rollover decision: after ANY prefix [pre] of the batch the open file is the highest-numbered file of the
     directory as it is then, and the next block [b] opens file number succ(that) exactly when
     len(record) + (real size of that file) > max; otherwise the record is appended to it *)
  Theorem rollover_iff fs pre b post : small_dir fs ->
    let cur0 := current_file fs in
    let tr_pre := Open cur0 :: write_body fs cur0 (zlen (content cur0 fs)) pre in
    let fs1 := run_trace fs tr_pre in
    let cur1 := fst (loop_state fs cur0 (zlen (content cur0 fs)) pre) in
    cur1 = top fs1 /\ In cur1 (keys fs1) /\
    exists tail,
      write_trace fs (pre ++ b :: post) =
      tr_pre ++ (if zlen (record b) + zlen (content cur1 fs1) >? max
                 then [Close; Open (N.succ cur1); Write (record b)]
                 else [Write (record b)]) ++ tail.
  Proof.
    intros Hs cur0 tr_pre fs1 cur1.
    pose proof (start_inv fs Hs) as Hstart. fold cur0 in Hstart. cbv zeta in Hstart.
    destruct (body_inv fs pre _ _ _ Hstart) as (Hop & Hinv). cbv zeta in Hop, Hinv.
    assert (Efs1 : fs1 = fst (run (open_file cur0 fs, Some cur0) (write_body fs cur0 (zlen (content cur0 fs)) pre))).
    { unfold fs1, tr_pre. rewrite run_trace_run. reflexivity. }
    rewrite <- Efs1 in Hinv. fold cur1 in Hinv. destruct Hinv as (Hin & Hsz & HK & HK0).
    split; [|split; [exact Hin|]].
    - apply N.le_antisymm; [apply top_ge; exact Hin|].
      apply HK. apply top_in. intros E. rewrite E in Hin. exact Hin.
    - unfold BlockFiles.write_trace. fold cur0. rewrite loop_body, body_app.
      fold cur1. set (size1 := snd (loop_state fs cur0 (zlen (content cur0 fs)) pre)) in *.
      rewrite <- Hsz. cbn [write_body].
      destruct (zlen (record b) + size1 >? max).
      + eexists. unfold tr_pre. cbn [app]. rewrite <- !app_assoc. cbn [app]. reflexivity.
      + eexists. unfold tr_pre. cbn [app]. rewrite <- !app_assoc. cbn [app]. reflexivity.
  Qed.

  (* ---------------------------------------------------------------- restarts *)
  (* Splitting a batch into two calls (i.e. a process restart between any two blocks) gives the same files:
     the second call finds the same current file and the same tell() from the directory alone. *)
  Lemma run_ext_dir : forall blocks fsA fsB cur size,
    (forall n, (cur < n)%N -> content n fsA = content n fsB) ->
    write_body fsA cur size blocks = write_body fsB cur size blocks.
  Proof.
    induction blocks as [|b rest IH]; intros fsA fsB cur size H; cbn [write_body]; [reflexivity|].
    destruct (zlen (record b) + size >? max).
    - rewrite (H (N.succ cur)) by lia. do 3 f_equal. apply IH. intros n Hn. apply H. lia.
    - f_equal. apply IH. exact H.
  Qed.

  Theorem restart_irrelevant fs b1 b2 : room fs (length b1 + length b2) ->
    forall n, content n (snd (write_blocks fs (b1 ++ b2))) = content n (history fs [b1; b2])
              /\ (In n (keys (snd (write_blocks fs (b1 ++ b2)))) <-> In n (keys (history fs [b1; b2]))).
  Proof.
    intros Hr.
    assert (Hs : small_dir fs) by (eapply room_small; eauto).
    cbn [BlockFiles.history fold_left]. set (fsm := snd (write_blocks fs b1)).
    assert (Hsm : small_dir fsm).
    { apply (room_small fsm (length b2)). unfold fsm. apply room_call. exact Hr. }
    rewrite (run_trace_call fs (b1 ++ b2)), (run_trace_call fsm b2), body_app, run_app.
    pose proof (start_inv fs Hs) as Hstart. cbv zeta in Hstart.
    destruct (body_inv fs b1 _ _ _ Hstart) as (Hop & Hinv). cbv zeta in Hop, Hinv.
    assert (Efsm : fsm = fst (run (open_file (current_file fs) fs, Some (current_file fs))
                                  (write_body fs (current_file fs) (zlen (content (current_file fs) fs)) b1))).
    { unfold fsm. apply run_trace_call. }
    destruct (run (open_file (current_file fs) fs, Some (current_file fs))
                  (write_body fs (current_file fs) (zlen (content (current_file fs) fs)) b1)) as [fs1 op1] eqn:E1.
    cbn [fst snd] in *. subst fs1 op1.
    set (cur1 := fst (loop_state fs (current_file fs) (zlen (content (current_file fs) fs)) b1)) in *.
    set (size1 := snd (loop_state fs (current_file fs) (zlen (content (current_file fs) fs)) b1)) in *.
    destruct Hinv as (Hin & Hsz & HK & HK0).
    assert (Ecur : current_file fsm = cur1).
    { rewrite (current_file_top fsm Hsm). apply N.le_antisymm.
      - apply HK. apply top_in. intros E. rewrite E in Hin. exact Hin.
      - apply top_ge. exact Hin. }
    rewrite Ecur, <- Hsz.
    assert (Eopen : open_file cur1 fsm = fsm).
    { unfold open_file. destruct (lookup cur1 fsm) eqn:EL; [reflexivity|].
      apply lookup_none_iff in EL. contradiction. }
    rewrite Eopen.
    rewrite (run_ext_dir b2 fs fsm cur1 size1); [intros n; split; reflexivity|].
    intros n Hn. rewrite (content_above cur1 n fsm HK Hn). apply (content_above cur1 n fs HK0 Hn).
  Qed.
End Store.

(* ------------------------------------------------------------------ beyond 100000 files (witness) *)
Lemma neq_by_last (A B : bytes) (c d : byte) : c <> d -> A ++ [c] <> B ++ [d].
Proof. intros Hcd H. apply (f_equal (fun l => last l c)) in H. rewrite !last_last in H. contradiction. Qed.

Lemma read_to_last T fs : read_to T fs = read_upto (N.to_nat T) fs ++ content T fs.
Proof. unfold read_to. cbn [read_upto]. now rewrite N2Nat.id. Qed.

Import Coq.Init.Byte.
Definition w_magic : bytes := [xfa; xbf; xb5; xda].
Definition w_fs : files := [(99999%N, repeat x01 50); (100000%N, repeat x02 50)].
Definition w_blocks : list bytes := [[xaa]].

(* with files 99999 and 100000 present the code picks "blk99999.dat" (the lexicographically last name) and appends
   the next small block there, i.e. IN FRONT OF the data already in blk100000.dat *)
Lemma beyond_100000_refuted :
  Forall (fun n => (n <= 100000)%N) (keys w_fs) /\ lex_ltb (blk_name 100000) (blk_name 99999) = true /\
  current_file w_fs = 99999%N /\
  read_all (snd (write_blocks 100 w_magic w_fs w_blocks)) <> read_all w_fs ++ records w_magic w_blocks.
Proof.
  split; [repeat constructor; cbv; discriminate|]. split; [exact name_order_fails_at_100000|].
  split; [vm_compute; reflexivity|].
  set (fs' := snd (write_blocks 100 w_magic w_fs w_blocks)).
  assert (T' : top fs' = 100000%N) by (vm_compute; reflexivity).
  assert (T0 : top w_fs = 100000%N) by (vm_compute; reflexivity).
  assert (C' : content 100000 fs' = repeat x02 49 ++ [x02]) by (vm_compute; reflexivity).
  assert (R : records w_magic w_blocks = (w_magic ++ [x01; x00; x00; x00]) ++ [xaa]) by (vm_compute; reflexivity).
  clearbody fs'. unfold read_all. rewrite T', T0, !read_to_last, C', R.
  generalize (read_upto (N.to_nat 100000) fs') (read_upto (N.to_nat 100000) w_fs) (content 100000 w_fs).
  intros X Y Z. rewrite !app_assoc. apply neq_by_last. discriminate.
Qed.
