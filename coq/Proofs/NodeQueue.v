(* Proofs about Model/NodeQueue.v: the repaired receive loop loses, duplicates and misattributes
   nothing under any interleaving (invariant over partial progress, DESIGN.md A.6); the old loop
   body does (a concrete losing schedule). *)
From Coq Require Import ZArith List Bool Arith Lia Permutation.
Require Import Bits.Lib.Bytes Bits.Model.NodeQueue Bits.Spec.NodeQueue.
Import ListNotations.
Import Coq.Init.Byte.

(* ---------------------------------------------------------------------------------------- *)
(* small facts                                                                                *)
(* ---------------------------------------------------------------------------------------- *)
Lemma upd_same {A} (f : tid -> A) t a : upd f t a t = a.
Proof. unfold upd. now rewrite Nat.eqb_refl. Qed.

Lemma upd_other {A} (f : tid -> A) t a p : p <> t -> upd f t a p = f p.
Proof. unfold upd. intros H. apply Nat.eqb_neq in H. now rewrite H. Qed.

Lemma tag_app p a b : tag p (a ++ b) = tag p a ++ tag p b.
Proof. apply map_app. Qed.

Lemma unhandled_app a b : unhandled (a ++ b) = unhandled a ++ unhandled b.
Proof. apply filter_app. Qed.

Lemma qproj_app p a b : qproj p (a ++ b) = qproj p a ++ qproj p b.
Proof. apply filter_app. Qed.

Lemma qproj_one_same p m : qproj p [(p, m)] = [(p, m)].
Proof. unfold qproj. cbn. now rewrite Nat.eqb_refl. Qed.

Lemma qproj_one_other p t m : p <> t -> qproj p [(t, m)] = [].
Proof.
  intros H. unfold qproj. cbn. assert (E : Nat.eqb t p = false) by (apply Nat.eqb_neq; congruence).
  now rewrite E.
Qed.

Lemma qproj_tag_same p l : qproj p (tag p l) = tag p l.
Proof.
  induction l as [|m l IH]; [reflexivity|]. unfold qproj, tag in *. cbn. rewrite Nat.eqb_refl.
  now rewrite IH.
Qed.

Lemma qproj_tag_other p t l : p <> t -> qproj p (tag t l) = [].
Proof.
  intros H. assert (E : Nat.eqb t p = false) by (apply Nat.eqb_neq; congruence).
  induction l as [|m l IH]; [reflexivity|]. unfold qproj, tag in *. cbn. now rewrite E.
Qed.

Lemma expected_sent_app a b : expected_sent (a ++ b) = expected_sent a ++ expected_sent b.
Proof. apply flat_map_app. Qed.

Lemma stored_after_app o a b : stored_after o (a ++ b) = stored_after (stored_after o a) b.
Proof. apply fold_left_app. Qed.

(* the membership test decides the three registered constructors by computation *)
Lemma handled_ping n : handled (Ping n) = true.
Proof. reflexivity. Qed.
Lemma handled_version v : handled (Version v) = true.
Proof. reflexivity. Qed.
Lemma handled_verack : handled Verack = true.
Proof. reflexivity. Qed.

Lemma unhandled_no_reply m : handled m = false -> expected_reply m = [] /\ has_action m = false.
Proof. destruct m; cbn; intros H; try discriminate; auto. Qed.

Lemma unhandled_not_version m o : handled m = false ->
  match m with Version v => Some v | _ => o end = o.
Proof. destruct m; cbn; intros H; try discriminate; auto. Qed.

Lemma no_action_no_reply m : has_action m = false ->
  expected_reply m = [] /\ forall o : option bytes, match m with Version v => Some v | _ => o end = o.
Proof. destruct m; cbn; intros H; try discriminate; auto. Qed.

(* for well-formed messages "not handled" is exactly "Other" *)
Lemma unhandled_iff_other m : wf_msg m = true ->
  (handled m = false <-> exists name payload, m = Other name payload).
Proof.
  destruct m as [n|v| |name payload]; cbn; intros W; split; intros H; try discriminate;
    try (destruct H as (a & b & H); discriminate).
  - eauto.
  - unfold handled. cbn [command]. now apply negb_true_iff in W.
Qed.

Lemma classify_wf cmd payload : wf_msg (classify cmd payload) = true.
Proof.
  unfold classify.
  destruct (bytes_eqb cmd cmd_ping) eqn:E1; [reflexivity|].
  destruct (bytes_eqb cmd cmd_version) eqn:E2; [reflexivity|].
  destruct (bytes_eqb cmd cmd_verack) eqn:E3; [reflexivity|].
  cbn. unfold mem, registered. cbn. now rewrite E1, E2, E3.
Qed.

Lemma classify_command cmd payload : command (classify cmd payload) = cmd.
Proof.
  unfold classify.
  destruct (bytes_eqb cmd cmd_ping) eqn:E1; [apply bytes_eqb_eq in E1; now subst|].
  destruct (bytes_eqb cmd cmd_version) eqn:E2; [apply bytes_eqb_eq in E2; now subst|].
  destruct (bytes_eqb cmd cmd_verack) eqn:E3; [apply bytes_eqb_eq in E3; now subst|].
  reflexivity.
Qed.

(* ---------------------------------------------------------------------------------------- *)
(* the invariant over partial progress                                                        *)
(* ---------------------------------------------------------------------------------------- *)
Definition pending (c : phase) : list msg :=
  match c with
  | Idle => []
  | Got m | Hdl m | Enq m | App m | Pop m => [m]
  end.

(* the messages thread th has not completed yet *)
Definition remaining (th : thread) : list msg := pending (cur th) ++ todo th.

Definition phase_ok (c : phase) : Prop :=
  match c with
  | Hdl m => handled m = true
  | Enq m => handled m = false
  | _ => True
  end.

Definition thread_inv (progs : list (list msg)) (s : state) (p : tid) : Prop :=
  phase_ok (cur (threads s p)) /\
  tag p (unhandled (prog_of progs p))
    = qproj p (queue s) ++ tag p (unhandled (remaining (threads s p))) /\
  expected_sent (prog_of progs p) = sent s p ++ expected_sent (remaining (threads s p)) /\
  expected_stored (prog_of progs p) = stored_after (stored s p) (remaining (threads s p)).

Definition inv (progs : list (list msg)) (s : state) : Prop := forall p, thread_inv progs s p.

Lemma inv_init progs : inv progs (init progs).
Proof. intros p. unfold thread_inv, init, remaining. cbn. repeat split. Qed.

(* a step of t that leaves queue/sent/stored alone and t's remaining messages as they are *)
Lemma inv_local progs s t th' :
  inv progs s ->
  phase_ok (cur th') ->
  unhandled (remaining th') = unhandled (remaining (threads s t)) ->
  expected_sent (remaining th') = expected_sent (remaining (threads s t)) ->
  (forall o, stored_after o (remaining th') = stored_after o (remaining (threads s t))) ->
  inv progs (set_thread s t th').
Proof.
  intros I Hok Hu He Hs p. specialize (I p). unfold thread_inv in *. cbn [set_thread threads queue sent stored].
  destruct (Nat.eq_dec p t) as [->|Hne].
  - rewrite upd_same. destruct I as (_ & I1 & I2 & I3). rewrite Hu, He, Hs. auto.
  - rewrite upd_other by assumption. exact I.
Qed.

Lemma step_inv progs s t : inv progs s -> inv progs (step s t).
Proof.
  intros I. unfold step.
  destruct (threads s t) as [td c] eqn:Eth. cbn [cur todo].
  destruct c as [|m|m|m|m|m].
  - (* Idle: receive *)
    destruct td as [|m rest]; [exact I|].
    apply inv_local; auto; try exact Logic.I; rewrite Eth; reflexivity.
  - (* Got: test *)
    destruct (handled m) eqn:Hm.
    + destruct (has_action m) eqn:Ha.
      * apply inv_local; auto; rewrite Eth; reflexivity.
      * destruct (no_action_no_reply m Ha) as (Hr & Hst).
        apply inv_local; auto; try exact Logic.I; rewrite Eth; unfold remaining; cbn [cur todo pending app].
        -- unfold unhandled. cbn [filter]. now rewrite Hm.
        -- unfold expected_sent. cbn [flat_map]. now rewrite Hr.
        -- intros o. unfold stored_after. cbn [fold_left]. now rewrite Hst.
    + apply inv_local; auto; rewrite Eth; reflexivity.
  - (* Hdl: the handler's action *)
    intros p. pose proof (I p) as Ip. unfold thread_inv in *.
    destruct (Nat.eq_dec p t) as [->|Hne].
    + rewrite Eth in Ip. unfold remaining in Ip. cbn [cur todo pending app] in Ip.
      destruct Ip as (Hok & I1 & I2 & I3). cbn [phase_ok] in Hok.
      assert (Hu : unhandled (m :: td) = unhandled td)
        by (unfold unhandled; cbn [filter]; now rewrite Hok).
      rewrite Hu in I1.
      destruct m as [n|v| |name payload]; cbn [run_handler set_thread threads queue sent stored];
        rewrite ?upd_same; unfold remaining; cbn [cur todo pending app phase_ok];
        (split; [exact Logic.I|]); (split; [exact I1|]).
      * split; [|exact I3]. rewrite I2. change (expected_sent (Ping n :: td)) with ([Pong n] ++ expected_sent td).
        now rewrite app_assoc.
      * split.
        -- rewrite I2. change (expected_sent (Version v :: td)) with ([VerackR] ++ expected_sent td).
           now rewrite app_assoc.
        -- rewrite I3. reflexivity.
      * split; [exact I2 | exact I3].
      * split; [exact I2 | exact I3].
    + assert (Hq : queue (run_handler s t m) = queue s) by (destruct m; reflexivity).
      assert (Ht : threads (run_handler s t m) = threads s) by (destruct m; reflexivity).
      assert (Hs : sent (run_handler s t m) p = sent s p)
        by (destruct m; cbn; rewrite ?upd_other by assumption; reflexivity).
      assert (Hd : stored (run_handler s t m) p = stored s p)
        by (destruct m; cbn; rewrite ?upd_other by assumption; reflexivity).
      cbn [set_thread threads queue sent stored]. rewrite upd_other by assumption.
      rewrite Hq, Ht, Hs, Hd. exact Ip.
  - (* Enq: append *)
    intros p. pose proof (I p) as Ip. unfold thread_inv in *.
    cbn [set_thread enqueue threads queue sent stored].
    destruct (Nat.eq_dec p t) as [->|Hne].
    + rewrite upd_same. rewrite Eth in Ip. unfold remaining in *. cbn [cur todo pending app] in *.
      destruct Ip as (Hok & I1 & I2 & I3). cbn [phase_ok] in Hok.
      destruct (unhandled_no_reply m Hok) as (Hr & _).
      split; [exact Logic.I|]. split; [|split].
      * rewrite qproj_app, qproj_one_same, <- app_assoc. rewrite I1.
        unfold unhandled. cbn [filter]. rewrite Hok. reflexivity.
      * rewrite I2. unfold expected_sent. cbn [flat_map]. now rewrite Hr.
      * rewrite I3. unfold stored_after. cbn [fold_left]. now rewrite (unhandled_not_version m _ Hok).
    + rewrite upd_other by assumption. rewrite qproj_app, qproj_one_other, app_nil_r by assumption.
      exact Ip.
  - exact I.
  - exact I.
Qed.

Lemma run_inv progs sched : forall s, inv progs s -> inv progs (run s sched).
Proof.
  unfold run, run_with. induction sched as [|t sched IH]; intros s I; [exact I|].
  cbn [fold_left]. apply IH. now apply step_inv.
Qed.

(* ---------------------------------------------------------------------------------------- *)
(* from per-peer projections to a permutation                                                 *)
(* ---------------------------------------------------------------------------------------- *)
Lemma filter_split_perm {A} (f g : A -> bool) (l : list A) :
  (forall x, f x = true -> g x = true -> False) ->
  Permutation (filter (fun x => f x || g x) l) (filter f l ++ filter g l).
Proof.
  intros D. induction l as [|x l IH]; [constructor|]. cbn.
  destruct (f x) eqn:Ef, (g x) eqn:Eg; cbn.
  - exfalso. eauto.
  - now constructor.
  - eapply perm_trans; [apply perm_skip, IH|]. apply Permutation_middle.
  - exact IH.
Qed.

Lemma filter_none {A} (f : A -> bool) l : (forall x, In x l -> f x = false) -> filter f l = [].
Proof.
  induction l as [|x l IH]; intros H; [reflexivity|]. cbn.
  rewrite (H x (or_introl eq_refl)). apply IH. intros y Hy. apply H. now right.
Qed.

Lemma filter_all {A} (f : A -> bool) l : (forall x, In x l -> f x = true) -> filter f l = l.
Proof.
  induction l as [|x l IH]; intros H; [reflexivity|]. cbn.
  rewrite (H x (or_introl eq_refl)). f_equal. apply IH. intros y Hy. apply H. now right.
Qed.

Lemma perm_below (q : list (tid * msg)) n :
  Permutation (filter (fun x => Nat.ltb (fst x) n) q)
              (concat (map (fun p => qproj p q) (seq 0 n))).
Proof.
  induction n as [|n IH].
  - cbn. rewrite filter_none; [constructor|]. intros x _. reflexivity.
  - rewrite seq_S, map_app, concat_app. cbn [map concat seq plus]. rewrite app_nil_r.
    eapply perm_trans; [|apply Permutation_app_tail, IH].
    rewrite (filter_ext _ (fun x => Nat.ltb (fst x) n || Nat.eqb (fst x) n)).
    + apply filter_split_perm. intros x H1 H2.
      apply Nat.ltb_lt in H1. apply Nat.eqb_eq in H2. lia.
    + intros x. destruct (Nat.ltb_spec (fst x) (S n)), (Nat.ltb_spec (fst x) n), (Nat.eqb_spec (fst x) n);
        cbn; try reflexivity; lia.
Qed.

Lemma qproj_nil_all (q : list (tid * msg)) n :
  (forall p, n <= p -> qproj p q = []) -> Forall (fun x => fst x < n) q.
Proof.
  intros H. apply Forall_forall. intros x Hx.
  destruct (Nat.lt_ge_cases (fst x) n) as [Hlt|Hge]; [exact Hlt|].
  specialize (H (fst x) Hge).
  assert (Hin : In x (qproj (fst x) q)) by (apply filter_In; split; [exact Hx | apply Nat.eqb_refl]).
  rewrite H in Hin. contradiction.
Qed.

(* ---------------------------------------------------------------------------------------- *)
(* the theorem                                                                                *)
(* ---------------------------------------------------------------------------------------- *)
Lemma finished_remaining s p : thread_finished (threads s p) = true -> remaining (threads s p) = [].
Proof.
  unfold thread_finished, remaining. destruct (threads s p) as [td c]. cbn.
  destruct c; try discriminate. destruct td; [reflexivity | discriminate].
Qed.

Lemma prog_of_beyond progs p : length progs <= p -> prog_of progs p = [].
Proof. intros H. unfold prog_of. now apply nth_overflow. Qed.

Lemma inv_finished_exactly_once progs s : inv progs s -> finished s -> exactly_once progs s.
Proof.
  intros I F.
  assert (P1 : forall p, qproj p (queue s) = tag p (unhandled (prog_of progs p))).
  { intros p. destruct (I p) as (_ & I1 & _). rewrite (finished_remaining s p (F p)) in I1.
    cbn in I1. now rewrite app_nil_r in I1. }
  assert (Hlt : Forall (fun x => fst x < length progs) (queue s)).
  { apply qproj_nil_all. intros p Hp. rewrite P1, prog_of_beyond by assumption. reflexivity. }
  unfold exactly_once. split; [exact P1|]. split; [|split; [|split]].
  - intros p. destruct (I p) as (_ & _ & I2 & _). rewrite (finished_remaining s p (F p)) in I2.
    cbn in I2. now rewrite app_nil_r in I2.
  - unfold all_unhandled.
    rewrite (map_ext _ (fun p => qproj p (queue s))) by (intros p; now rewrite P1).
    eapply perm_trans; [|apply perm_below].
    rewrite filter_all; [apply Permutation_refl|].
    intros x Hx. rewrite Forall_forall in Hlt. apply Nat.ltb_lt. now apply Hlt.
  - apply Forall_forall. intros x Hx. rewrite Forall_forall in Hlt. split; [|now apply Hlt].
    assert (Hin : In x (qproj (fst x) (queue s))) by (apply filter_In; split; [exact Hx | apply Nat.eqb_refl]).
    rewrite P1 in Hin. unfold tag in Hin. apply in_map_iff in Hin. destruct Hin as (m & <- & Hm).
    unfold unhandled in Hm. apply filter_In in Hm. cbn. now apply negb_true_iff.
  - intros p. destruct (I p) as (_ & _ & _ & I3). rewrite (finished_remaining s p (F p)) in I3.
    cbn in I3. now rewrite I3.
Qed.

Theorem queue_exactly_once : forall (progs : list (list msg)) (sched : list tid),
  complete progs sched -> exactly_once progs (run (init progs) sched).
Proof.
  intros progs sched C. apply inv_finished_exactly_once; [|exact C].
  apply run_inv, inv_init.
Qed.

(* consequence: what is observable at the end does not depend on the schedule *)
Corollary schedule_independent : forall progs sched1 sched2,
  complete progs sched1 -> complete progs sched2 ->
  let s1 := run (init progs) sched1 in
  let s2 := run (init progs) sched2 in
  (forall p, qproj p (queue s1) = qproj p (queue s2)) /\
  (forall p, sent s1 p = sent s2 p) /\
  (forall p, stored s1 p = stored s2 p) /\
  Permutation (queue s1) (queue s2).
Proof.
  intros progs sched1 sched2 C1 C2 s1 s2.
  destruct (queue_exactly_once progs sched1 C1) as (A1 & A2 & A3 & _ & A5).
  destruct (queue_exactly_once progs sched2 C2) as (B1 & B2 & B3 & _ & B5).
  fold s1 in A1, A2, A3, A5. fold s2 in B1, B2, B3, B5.
  repeat split; intros; try congruence.
  eapply perm_trans; [exact A3 | apply Permutation_sym, B3].
Qed.

(* ---------------------------------------------------------------------------------------- *)
(* complete schedules exist for every family of programs (the hypothesis is never vacuous)    *)
(* ---------------------------------------------------------------------------------------- *)
Definition new_phase (c : phase) : Prop := match c with App _ | Pop _ => False | _ => True end.

(* number of steps thread th still needs at most *)
Definition mu (th : thread) : nat :=
  3 * length (todo th) + match cur th with Idle => 0 | Got _ => 2 | _ => 1 end.

Lemma mu0_finished th : new_phase (cur th) -> mu th = 0 -> thread_finished th = true.
Proof.
  destruct th as [td c]. unfold mu, thread_finished. cbn.
  destruct c, td; cbn; intros N H; try reflexivity; try lia; contradiction.
Qed.

Lemma step_other s t p : p <> t -> threads (step s t) p = threads s p.
Proof.
  intros H. unfold step. destruct (cur (threads s t)) as [|m|m|m|m|m].
  - destruct (todo (threads s t)); [reflexivity|]. cbn. now rewrite upd_other.
  - destruct (handled m); [destruct (has_action m)|]; cbn; now rewrite upd_other.
  - cbn. rewrite upd_other by assumption. destruct m; reflexivity.
  - cbn. now rewrite upd_other.
  - reflexivity.
  - reflexivity.
Qed.

Lemma step_self s t : new_phase (cur (threads s t)) ->
  new_phase (cur (threads (step s t) t)) /\ mu (threads (step s t) t) <= mu (threads s t) - 1.
Proof.
  unfold step, mu. destruct (threads s t) as [td c] eqn:E. cbn [cur todo].
  destruct c as [|m|m|m|m|m]; intros N; try contradiction.
  - destruct td as [|m rest].
    + rewrite E. cbn. split; [exact I | lia].
    + cbn [set_thread threads]. rewrite upd_same. cbn [cur todo length]. split; [exact I | lia].
  - destruct (handled m); [destruct (has_action m)|]; cbn [set_thread threads]; rewrite upd_same;
      cbn [cur todo]; split; try exact I; lia.
  - cbn [set_thread threads]. rewrite upd_same. cbn [cur todo]. split; [exact I | lia].
  - cbn [set_thread threads]. rewrite upd_same. cbn [cur todo]. split; [exact I | lia].
Qed.

Lemma step_finished_stable s t p :
  thread_finished (threads s p) = true -> thread_finished (threads (step s t) p) = true.
Proof.
  intros F. destruct (Nat.eq_dec p t) as [->|Hne]; [|now rewrite step_other].
  unfold step. destruct (threads s t) as [td c] eqn:E. unfold thread_finished in F. cbn in F.
  destruct c; try discriminate F. destruct td; [|discriminate F].
  cbn. rewrite E. reflexivity.
Qed.

Lemma run_app s a b : run s (a ++ b) = run (run s a) b.
Proof. unfold run, run_with. apply fold_left_app. Qed.

Lemma run_block t : forall k s, new_phase (cur (threads s t)) ->
  let s' := run s (repeat t k) in
  new_phase (cur (threads s' t)) /\ mu (threads s' t) <= mu (threads s t) - k /\
  (forall p, p <> t -> threads s' p = threads s p).
Proof.
  induction k as [|k IH]; intros s N s'; subst s'.
  - change (run s (repeat t 0)) with s. split; [exact N|]. split; [lia|]. reflexivity.
  - change (run s (repeat t (S k))) with (run (step s t) (repeat t k)).
    destruct (step_self s t N) as (N1 & M1).
    destruct (IH (step s t) N1) as (N2 & M2 & O2).
    split; [exact N2|]. split; [lia|].
    intros p Hp. rewrite O2 by assumption. now apply step_other.
Qed.

Lemma run_finished_stable sched : forall s p,
  thread_finished (threads s p) = true -> thread_finished (threads (run s sched) p) = true.
Proof.
  induction sched as [|t sched IH]; intros s p F; [exact F|].
  cbn. apply IH. now apply step_finished_stable.
Qed.

Lemma run_blocks (k : tid -> nat) : forall ps s,
  (forall p, new_phase (cur (threads s p))) ->
  (forall p, In p ps -> mu (threads s p) <= k p) ->
  let s' := run s (flat_map (fun p => repeat p (k p)) ps) in
  (forall p, new_phase (cur (threads s' p))) /\
  (forall p, In p ps -> thread_finished (threads s' p) = true) /\
  (forall p, ~ In p ps -> threads s' p = threads s p).
Proof.
  induction ps as [|a ps IH]; intros s N M.
  - intros s'. subst s'. change (run s (flat_map (fun p => repeat p (k p)) [])) with s.
    split; [exact N|]. split; [intros p Hp; destruct Hp | intros p _; reflexivity].
  - intros s'. subst s'. cbn [flat_map]. rewrite run_app.
    destruct (run_block a (k a) s (N a)) as (N1 & M1 & O1).
    set (s1 := run s (repeat a (k a))) in *.
    assert (Fa : thread_finished (threads s1 a) = true).
    { apply mu0_finished; [exact N1|]. specialize (M a (or_introl eq_refl)). lia. }
    assert (Ns1 : forall p, new_phase (cur (threads s1 p))).
    { intros p. destruct (Nat.eq_dec p a) as [->|Hne]; [exact N1|]. rewrite O1 by assumption. apply N. }
    assert (Ms1 : forall p, In p ps -> mu (threads s1 p) <= k p).
    { intros p Hp. destruct (Nat.eq_dec p a) as [->|Hne].
      - specialize (M a (or_introl eq_refl)). lia.
      - rewrite O1 by assumption. apply M. now right. }
    destruct (IH s1 Ns1 Ms1) as (N2 & F2 & O2).
    split; [exact N2|]. split.
    + intros p [<-|Hp]; [|now apply F2]. now apply run_finished_stable.
    + intros p Hp. rewrite O2 by (intros H; apply Hp; now right).
      apply O1. intros ->. apply Hp. now left.
Qed.

(* one peer after the other *)
Definition sequential (progs : list (list msg)) : list tid :=
  flat_map (fun p => repeat p (3 * length (prog_of progs p))) (seq 0 (length progs)).

Theorem sequential_complete : forall progs, complete progs (sequential progs).
Proof.
  intros progs. unfold complete, sequential.
  destruct (run_blocks (fun p => 3 * length (prog_of progs p)) (seq 0 (length progs)) (init progs))
    as (_ & F & O).
  - intros p. exact I.
  - intros p _. unfold mu, init. cbn. lia.
  - intros p. destruct (Nat.lt_ge_cases p (length progs)) as [Hlt|Hge].
    + apply F. apply in_seq. lia.
    + cbn in O. rewrite O by (rewrite in_seq; lia).
      unfold init. cbn. rewrite prog_of_beyond by assumption. reflexivity.
Qed.

(* a complete schedule stays complete when more steps follow it (idle steps) *)
Lemma complete_app progs a b : complete progs a -> complete progs (a ++ b).
Proof. unfold complete. intros F p. rewrite run_app. apply run_finished_stable, F. Qed.

Lemma run_beyond progs sched p : length progs <= p ->
  thread_finished (threads (run (init progs) sched) p) = true.
Proof.
  intros H. apply run_finished_stable. unfold init. cbn. now rewrite prog_of_beyond.
Qed.

Lemma finishedb_complete progs sched :
  finishedb (length progs) (run (init progs) sched) = true -> complete progs sched.
Proof.
  intros H p. destruct (Nat.lt_ge_cases p (length progs)) as [Hlt|Hge]; [|now apply run_beyond].
  unfold finishedb in H. rewrite forallb_forall in H. apply H. apply in_seq. lia.
Qed.

(* the eager scheduler only produces runs of the fine-grained semantics *)
Lemma eager_is_schedule stp : forall sched s,
  exists sched', run_with (eager stp) s sched = run_with stp s sched'.
Proof.
  induction sched as [|t sched IH]; intros s.
  - exists []. reflexivity.
  - cbn [run_with fold_left]. unfold eager at 2.
    destruct (cur (threads (stp s t) t)) eqn:Ec;
      try (destruct (IH (stp s t)) as (sched' & E); exists (t :: sched'); exact E).
    destruct (todo (threads (stp s t) t)) eqn:Et.
    + destruct (IH (stp s t)) as (sched' & E). exists (t :: sched'). exact E.
    + destruct (IH (stp (stp s t) t)) as (sched' & E). exists (t :: t :: sched'). exact E.
Qed.

Theorem queue_exactly_once_eager : forall progs sched,
  let s := run_with (eager step) (start_eager step (length progs) (init progs)) sched in
  finished s -> exactly_once progs s.
Proof.
  intros progs sched s F. subst s.
  destruct (eager_is_schedule step sched (start_eager step (length progs) (init progs))) as (sched' & E).
  rewrite E in *. unfold start_eager in *.
  change (fold_left step (seq 0 (length progs)) (init progs)) with (run (init progs) (seq 0 (length progs))) in *.
  change (run_with step) with run in *. rewrite <- run_app in *.
  apply queue_exactly_once. exact F.
Qed.

(* ---------------------------------------------------------------------------------------- *)
(* the loop body before the repair violates the property                                      *)
(* ---------------------------------------------------------------------------------------- *)
Definition cmd_inv : bytes := [x69;x6e;x76].

(* peer 0 sends one ping, peer 1 one inv *)
Definition race_progs : list (list msg) := [[Ping 7]; [Other cmd_inv [x00]]].
(* 0:recv 1:recv 0:append(ping) 1:append(inv) 0:test 0:pop (removes the INV) 0:send(pong) 1:test *)
Definition race_sched : list tid := [0; 1; 0; 1; 0; 0; 0; 1].

Lemma step_old_finished_stable s t p :
  thread_finished (threads s p) = true -> thread_finished (threads (step_old s t) p) = true.
Proof.
  intros F. unfold step_old.
  destruct (Nat.eq_dec p t) as [->|Hne].
  - destruct (threads s t) as [td c] eqn:E. unfold thread_finished in F. cbn in F.
    destruct c; try discriminate F. destruct td; [|discriminate F].
    cbn. rewrite E. reflexivity.
  - destruct (cur (threads s t)) as [|m|m|m|m|m]; try exact F.
    + destruct (todo (threads s t)); [exact F|]. cbn. now rewrite upd_other.
    + cbn. now rewrite upd_other.
    + cbn. rewrite upd_other by assumption. destruct m; exact F.
    + destruct (handled m); cbn; now rewrite upd_other.
    + destruct (has_action m); cbn; now rewrite upd_other.
Qed.

Lemma run_old_finished_stable sched : forall s p,
  thread_finished (threads s p) = true -> thread_finished (threads (run_old s sched) p) = true.
Proof.
  induction sched as [|t sched IH]; intros s p F; [exact F|].
  cbn. apply IH. now apply step_old_finished_stable.
Qed.

Lemma finishedb_complete_old progs sched :
  finishedb (length progs) (run_old (init progs) sched) = true -> complete_old progs sched.
Proof.
  intros H p. destruct (Nat.lt_ge_cases p (length progs)) as [Hlt|Hge].
  - unfold finishedb in H. rewrite forallb_forall in H. apply H. apply in_seq. lia.
  - apply run_old_finished_stable. unfold init. cbn. now rewrite prog_of_beyond.
Qed.

Lemma race_final :
  let s := run_old (init race_progs) race_sched in
  queue s = [(0, Ping 7)] /\ sent s 0 = [Pong 7] /\ sent s 1 = [].
Proof. vm_compute. auto. Qed.

Theorem queue_old_refuted : exists progs sched,
  complete_old progs sched /\ ~ exactly_once progs (run_old (init progs) sched).
Proof.
  exists race_progs, race_sched. split.
  - apply finishedb_complete_old. vm_compute. reflexivity.
  - intros (P1 & _). specialize (P1 1). vm_compute in P1. discriminate P1.
Qed.

(* both halves of the damage: peer 1's inv is lost, and peer 0's ping - although answered -
   stays in the queue *)
Theorem queue_old_loses_and_keeps :
  let s := run_old (init race_progs) race_sched in
  complete_old race_progs race_sched /\
  qproj 1 (queue s) = [] /\ tag 1 (unhandled (prog_of race_progs 1)) = [(1, Other cmd_inv [x00])] /\
  qproj 0 (queue s) = [(0, Ping 7)] /\ handled (Ping 7) = true /\ sent s 0 = [Pong 7].
Proof.
  split; [apply finishedb_complete_old; vm_compute; reflexivity|]. vm_compute. repeat split.
Qed.

(* the same programs and the same schedule under the repaired body *)
Lemma race_repaired :
  let s := run (init race_progs) (race_sched ++ [1]) in
  queue s = [(1, Other cmd_inv [x00])] /\ sent s 0 = [Pong 7] /\ sent s 1 = [].
Proof. vm_compute. auto. Qed.

(* ---------------------------------------------------------------------------------------- *)
(* a 3-peer instance                                                                          *)
(* ---------------------------------------------------------------------------------------- *)
Definition cmd_addr : bytes := [x61;x64;x64;x72].
Definition ex3_progs : list (list msg) :=
  [ [Version [x01]; Other cmd_inv [x0a]; Ping 5];
    [Ping 9; Verack; Other cmd_addr [x0b]];
    [Other cmd_inv [x0c]; Version [x02]; Version [x03]] ].
(* an interleaved schedule (round robin, then the stragglers) *)
Definition ex3_sched : list tid :=
  [0;1;2;2;1;0;0;1;2;1;2;0;2;0;1;1;0;2;0;2;1;0;2;1;0;1;2;2;0;1].

Lemma ex3_complete : complete ex3_progs ex3_sched.
Proof. apply finishedb_complete. vm_compute. reflexivity. Qed.

Lemma ex3_final :
  let s := run (init ex3_progs) ex3_sched in
  queue s = [(2, Other cmd_inv [x0c]); (0, Other cmd_inv [x0a]); (1, Other cmd_addr [x0b])] /\
  map (sent s) [0; 1; 2] = [[VerackR; Pong 5]; [Pong 9]; [VerackR; VerackR]] /\
  map (stored s) [0; 1; 2] = [Some [x01]; None; Some [x03]].
Proof. vm_compute. auto. Qed.
