(* Proofs about the block-file store model (Model/BlockFiles.v), part 1: directories, reading the files in
   numeric order, traces of primitive operations that only ever append to the highest-numbered file. *)
From Coq Require Import ZArith NArith List Lia Bool.
Require Import Bits.Lib.Result Bits.Lib.Bytes Bits.Model.BlockFiles.
Import ListNotations.
Local Open Scope Z_scope.

Definition keys (fs : files) : list N := map fst fs.
Definition keys_le (T : N) (fs : files) : Prop := forall n, In n (keys fs) -> (n <= T)%N.

(* ------------------------------------------------------------------ lookup / open / append *)
Lemma lookup_none_iff n fs : lookup n fs = None <-> ~ In n (keys fs).
Proof.
  induction fs as [|[m c] fs IH]; cbn [lookup keys map fst In]; [tauto|].
  destruct (N.eqb_spec m n) as [E|E].
  - split; [discriminate | intros H; exfalso; apply H; auto].
  - rewrite IH. unfold keys. tauto.
Qed.

Lemma content_absent n fs : ~ In n (keys fs) -> content n fs = [].
Proof. intros H. unfold content. apply lookup_none_iff in H. now rewrite H. Qed.

Lemma lookup_append_same n bs fs c : lookup n fs = Some c -> lookup n (append_file n bs fs) = Some (c ++ bs).
Proof.
  induction fs as [|[m d] fs IH]; cbn [lookup append_file]; [discriminate|].
  destruct (N.eqb_spec m n) as [E|E]; cbn [lookup].
  - rewrite (proj2 (N.eqb_eq m n) E). intros H. injection H as <-. reflexivity.
  - rewrite (proj2 (N.eqb_neq m n) E). exact IH.
Qed.

Lemma lookup_append_other m n bs fs : m <> n -> lookup m (append_file n bs fs) = lookup m fs.
Proof.
  intros Hne. induction fs as [|[k d] fs IH]; cbn [lookup append_file]; [reflexivity|].
  destruct (N.eqb_spec k n) as [E|E]; cbn [lookup].
  - subst k. destruct (N.eqb_spec n m); [congruence | reflexivity].
  - destruct (N.eqb_spec k m); [reflexivity | exact IH].
Qed.

Lemma append_absent n bs fs : lookup n fs = None -> append_file n bs fs = fs.
Proof.
  induction fs as [|[m d] fs IH]; cbn [lookup append_file]; [reflexivity|].
  destruct (N.eqb_spec m n); [discriminate|]. intros H. now rewrite IH.
Qed.

Lemma keys_append n bs fs : keys (append_file n bs fs) = keys fs.
Proof.
  induction fs as [|[m d] fs IH]; cbn [append_file keys map fst]; [reflexivity|].
  destruct (N.eqb m n); cbn [map fst]; [reflexivity|]. unfold keys in IH. now rewrite IH.
Qed.

Lemma content_append_same n bs fs : In n (keys fs) -> content n (append_file n bs fs) = content n fs ++ bs.
Proof.
  intros H. unfold content. destruct (lookup n fs) as [c|] eqn:E.
  - now rewrite (lookup_append_same n bs fs c E).
  - apply lookup_none_iff in E. contradiction.
Qed.

Lemma content_append_other m n bs fs : m <> n -> content m (append_file n bs fs) = content m fs.
Proof. intros H. unfold content. now rewrite lookup_append_other. Qed.

Lemma lookup_app n a b : lookup n (a ++ b) = match lookup n a with Some c => Some c | None => lookup n b end.
Proof.
  induction a as [|[m c] a IH]; cbn [app lookup]; [reflexivity|]. destruct (N.eqb m n); [reflexivity | exact IH].
Qed.

Lemma content_open m n fs : content m (open_file n fs) = content m fs.
Proof.
  unfold open_file. destruct (lookup n fs) as [c|] eqn:E; [reflexivity|].
  unfold content. rewrite lookup_app. destruct (lookup m fs); [reflexivity|].
  cbn [lookup]. destruct (N.eqb n m); reflexivity.
Qed.

Lemma keys_open n fs : In n (keys (open_file n fs)) /\ (forall m, In m (keys (open_file n fs)) <-> In m (keys fs) \/ m = n).
Proof.
  unfold open_file. destruct (lookup n fs) as [c|] eqn:E.
  - assert (In n (keys fs)).
    { destruct (in_dec N.eq_dec n (keys fs)) as [H|H]; [exact H|]. apply lookup_none_iff in H. congruence. }
    split; [exact H|]. intros m. split; [tauto | intros [H1 | ->]; auto].
  - unfold keys. rewrite map_app. cbn [map fst]. split.
    + apply in_or_app. right. now left.
    + intros m. rewrite in_app_iff. cbn [In]. split; [intros [H|[H|[]]]; auto | intros [H| ->]; auto].
Qed.

(* ------------------------------------------------------------------ reading the files in numeric order *)
Fixpoint read_upto (k : nat) (fs : files) : bytes :=
  match k with
  | O => []
  | S k' => read_upto k' fs ++ content (N.of_nat k') fs
  end.
Definition read_to (T : N) (fs : files) : bytes := read_upto (S (N.to_nat T)) fs.
Definition top (fs : files) : N := fold_right N.max 0%N (keys fs).
(* the concatenation of all files blk00000.dat, blk00001.dat, ... in numeric order *)
Definition read_all (fs : files) : bytes := read_to (top fs) fs.

Lemma top_ge fs : keys_le (top fs) fs.
Proof.
  unfold keys_le, top. induction (keys fs) as [|k ks IH]; cbn [In fold_right]; [tauto|].
  intros n [-> | H]; [lia | specialize (IH n H); lia].
Qed.

Lemma fold_max_in ks : ks <> [] -> In (fold_right N.max 0%N ks) ks.
Proof.
  induction ks as [|k ks IH]; [congruence|]. intros _. cbn [fold_right].
  destruct ks as [|k' ks'].
  - cbn. left. lia.
  - destruct (N.max_spec k (fold_right N.max 0%N (k' :: ks'))) as [[_ ->]|[_ ->]].
    + right. apply IH. discriminate.
    + now left.
Qed.

Lemma top_in fs : fs <> [] -> In (top fs) (keys fs).
Proof. intros H. apply fold_max_in. destruct fs; [congruence | discriminate]. Qed.

Lemma read_upto_ext k fs fs' :
  (forall i, (i < k)%nat -> content (N.of_nat i) fs = content (N.of_nat i) fs') -> read_upto k fs = read_upto k fs'.
Proof.
  induction k as [|k IH]; intros H; [reflexivity|]. cbn [read_upto]. rewrite IH, H; auto.
Qed.

(* nothing is read beyond the highest-numbered file *)
Lemma read_upto_above k k' fs :
  (forall n, In n (keys fs) -> (N.to_nat n < k)%nat) -> (k <= k')%nat -> read_upto k' fs = read_upto k fs.
Proof.
  intros H Hle. induction Hle as [|k' Hle IH]; [reflexivity|]. cbn [read_upto]. rewrite IH.
  rewrite content_absent; [apply app_nil_r|]. intros Hin. specialize (H _ Hin). lia.
Qed.

Lemma read_all_to T fs : keys_le T fs -> read_all fs = read_to T fs.
Proof.
  intros H. unfold read_all, read_to. symmetry. apply read_upto_above.
  - intros n Hin. pose proof (top_ge fs n Hin). lia.
  - assert (top fs <= T)%N; [|lia].
    destruct fs as [|f fs']; [cbn; lia|]. apply H. apply top_in. discriminate.
Qed.

Lemma read_to_append T bs fs : In T (keys fs) ->
  read_to T (append_file T bs fs) = read_to T fs ++ bs.
Proof.
  intros Hin. unfold read_to. cbn [read_upto]. rewrite N2Nat.id.
  rewrite content_append_same by exact Hin. rewrite app_assoc. do 2 f_equal.
  apply read_upto_ext. intros i Hi. apply content_append_other. lia.
Qed.

Lemma read_to_open T n fs : read_to T (open_file n fs) = read_to T fs.
Proof. unfold read_to. apply read_upto_ext. intros i _. apply content_open. Qed.

(* ------------------------------------------------------------------ traces *)
Fixpoint written (tr : list prim) : bytes :=
  match tr with
  | [] => []
  | Write bs :: tr' => bs ++ written tr'
  | _ :: tr' => written tr'
  end.

Lemma written_app a b : written (a ++ b) = written a ++ written b.
Proof.
  induction a as [|p a IH]; [reflexivity|]. destruct p; cbn [app written]; rewrite IH; try reflexivity.
  apply app_assoc.
Qed.

(* every Write goes to the highest-numbered file T, every Open opens T or a higher number *)
Fixpoint wf_trace (T : N) (op : option N) (tr : list prim) : Prop :=
  match tr with
  | [] => True
  | Write _ :: tr' => op = Some T /\ wf_trace T op tr'
  | Close :: tr' => wf_trace T None tr'
  | Open n :: tr' => (T <= n)%N /\ wf_trace n (Some n) tr'
  end.

Definition run (st : files * option N) (tr : list prim) : files * option N := fold_left apply_prim tr st.

Lemma run_app st a b : run st (a ++ b) = run (run st a) b.
Proof. apply fold_left_app. Qed.

(* state invariant: no file above T; an open file is T and exists *)
Definition inv (T : N) (st : files * option N) : Prop :=
  keys_le T (fst st) /\ (forall c, snd st = Some c -> c = T /\ In T (keys (fst st))).

Lemma run_wf : forall tr T fs op,
  inv T (fs, op) -> wf_trace T op tr ->
  read_all (fst (run (fs, op) tr)) = read_all fs ++ written tr.
Proof.
  induction tr as [|p tr IH]; intros T fs op [HK HO] Hwf; cbn [fst snd] in *.
  - cbn. now rewrite app_nil_r.
  - destruct p as [n|bs|]; cbn [wf_trace] in Hwf; cbn [run fold_left apply_prim written].
    + destruct Hwf as [Hn Hwf]. change (fold_left apply_prim tr (open_file n fs, Some n)) with (run (open_file n fs, Some n) tr).
      destruct (keys_open n fs) as [Hin Hk].
      assert (HK' : keys_le n (open_file n fs)).
      { intros m Hm. apply Hk in Hm. destruct Hm as [Hm| ->]; [specialize (HK m Hm); lia | lia]. }
      rewrite (IH n); [|split; [exact HK' | intros c E; cbn [fst snd] in *; injection E as <-; auto] | exact Hwf].
      f_equal. rewrite (read_all_to n _ HK'), read_to_open. symmetry. apply read_all_to.
      intros m Hm. specialize (HK m Hm). lia.
    + destruct Hwf as [-> Hwf]. destruct (HO T eq_refl) as [_ Hin].
      change (fold_left apply_prim tr (append_file T bs fs, Some T)) with (run (append_file T bs fs, Some T) tr).
      assert (HK' : keys_le T (append_file T bs fs)) by (unfold keys_le; now rewrite keys_append).
      rewrite (IH T); [|split; [exact HK' | intros c E; cbn [fst snd] in *; injection E as <-; rewrite keys_append; auto] | exact Hwf].
      rewrite (read_all_to T _ HK'), read_to_append, (read_all_to T fs HK) by exact Hin. now rewrite app_assoc.
    + change (fold_left apply_prim tr (fs, None)) with (run (fs, None) tr).
      apply (IH T); [split; [exact HK | discriminate] | exact Hwf].
Qed.

(* prefixes of well-formed traces are well-formed *)
Lemma wf_trace_firstn : forall tr k T op, wf_trace T op tr -> wf_trace T op (firstn k tr).
Proof.
  induction tr as [|p tr IH]; intros k T op H; [now rewrite firstn_nil|].
  destruct k; [exact I|]. cbn [firstn]. destruct p; cbn [wf_trace] in *.
  - destruct H as [H1 H2]. split; [exact H1 | now apply IH].
  - destruct H as [H1 H2]. split; [exact H1 | now apply IH].
  - now apply IH.
Qed.

(* whatever the trace: files never disappear and are only ever extended *)
Lemma run_append_only : forall tr fs op n,
  exists suf, content n (fst (run (fs, op) tr)) = content n fs ++ suf /\
              (In n (keys fs) -> In n (keys (fst (run (fs, op) tr)))).
Proof.
  induction tr as [|p tr IH]; intros fs op n.
  - exists []. cbn. rewrite app_nil_r. auto.
  - cbn [run fold_left apply_prim]. destruct p as [m|bs|].
    + destruct (IH (open_file m fs) (Some m) n) as (suf & H1 & H2). exists suf.
      unfold run in *. rewrite H1, content_open. split; [reflexivity|].
      intros Hin. apply H2. apply (proj2 (keys_open m fs)). auto.
    + destruct op as [c|].
      * destruct (IH (append_file c bs fs) (Some c) n) as (suf & H1 & H2). unfold run in *.
        destruct (N.eq_dec n c) as [-> | Hne].
        -- destruct (in_dec N.eq_dec c (keys fs)) as [Hin|Hout].
           ++ exists (bs ++ suf). rewrite H1, content_append_same, app_assoc by exact Hin.
              split; [reflexivity|]. intros _. apply H2. now rewrite keys_append.
           ++ exists suf. apply lookup_none_iff in Hout. rewrite (append_absent c bs fs Hout) in *.
              split; [exact H1 | exact H2].
        -- exists suf. rewrite H1, content_append_other by exact Hne. split; [reflexivity|].
           intros Hin. apply H2. now rewrite keys_append.
      * apply (IH fs None n).
    + apply (IH fs None n).
Qed.
