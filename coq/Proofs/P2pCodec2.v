(* Proofs about the payload codecs, part 2: ping, getheaders, inv, addr; refutation witnesses for the
   version parser outside the domain where it inverts the reference encoding. *)
From Coq Require Import ZArith List Lia Bool.
Require Import Bits.Lib.Result Bits.Lib.Bytes Bits.Lib.CompactSize Bits.Spec.P2p.
Require Import Bits.Model.CompactSize Bits.Proofs.CompactSize Bits.Model.P2pCodec Bits.Proofs.P2pCodec.
Import ListNotations.
Import Coq.Init.Byte.
Local Open Scope Z_scope.

Lemma skipn_at {A} (pre rest : list A) a : a = length pre -> skipn a (pre ++ rest) = rest.
Proof. intros ->. rewrite skipn_app, skipn_all, Nat.sub_diag. reflexivity. Qed.

Lemma firstn_at {A} (pre rest : list A) a : a = length pre -> firstn a (pre ++ rest) = pre.
Proof. intros ->. rewrite firstn_app, Nat.sub_diag, firstn_all. cbn [firstn]. apply app_nil_r. Qed.

Lemma slice_at_end {A} (pre f : list A) a b :
  a = length pre -> b = (a + length f)%nat -> slice a b (pre ++ f) = f.
Proof. intros Ha Hb. rewrite <- (app_nil_r f) at 1. now apply slice_at. Qed.

(* ------------------------------------------------------------------ ping *)
Theorem codec_roundtrip_ping : forall nonce, 0 <= nonce < 2 ^ 64 ->
  exists p, ping_payload nonce = Ok p /\ length p = 8%nat /\ parse_ping_payload p = nonce.
Proof.
  intros n H. exists (to_le 8 n). unfold ping_payload, parse_ping_payload.
  rewrite to_le_chk_ok by (rewrite pow256_8; lia).
  split; [reflexivity|]. split; [apply to_le_length|]. apply of_le_to_le. rewrite pow256_8. lia.
Qed.

Lemma ping_payload_overflow nonce : ~ (0 <= nonce < 2 ^ 64) -> ping_payload nonce = Err OverflowE.
Proof. intros H. unfold ping_payload. apply to_le_chk_err. now rewrite pow256_8. Qed.

(* ------------------------------------------------------------------ getheaders *)
Definition hashes_ok (hs : list bytes) : Prop := Forall (fun h => length h = 32%nat) hs.

Lemma concat_length_32 hs : hashes_ok hs -> length (concat hs) = (32 * length hs)%nat.
Proof.
  induction 1 as [|h hs Hh _ IH]; [reflexivity|]. cbn [concat length]. rewrite app_length, IH, Hh. lia.
Qed.

Lemma chunks_concat hs : hashes_ok hs -> chunks 32 (length hs) (concat hs) = hs.
Proof.
  induction 1 as [|h hs Hh _ IH]; [reflexivity|]. cbn [concat length chunks].
  rewrite firstn_at, skipn_at by lia. now rewrite IH.
Qed.

Theorem codec_roundtrip_getheaders : forall pv hs stop,
  0 <= pv < 2 ^ 32 -> hashes_ok hs -> length stop = 32%nat -> Z.of_nat (length hs) < 2 ^ 64 ->
  exists p, getheaders_payload pv (Z.of_nat (length hs)) hs stop = Ok p /\
    parse_getheaders_payload p
    = Ok (pv, Z.of_nat (length hs), match hs with [] => None | _ => Some hs end, stop).
Proof.
  intros pv hs stop Hpv Hhs Hstop Hn.
  set (n := length hs) in *. set (cs := cs_enc (Z.of_nat n)).
  exists (to_le 4 pv ++ cs ++ concat hs ++ stop). unfold getheaders_payload.
  rewrite to_le_chk_ok by (rewrite pow256_4; lia).
  rewrite compact_size_uint_spec by lia. cbn [bind]. split; [reflexivity|].
  pose proof (to_le_length 4 pv) as L1.
  assert (V1 : of_le (to_le 4 pv) = pv) by (apply of_le_to_le; rewrite pow256_4; lia).
  generalize dependent (to_le 4 pv). intros f1 L1 V1.
  pose proof (concat_length_32 hs Hhs) as Lc. fold n in Lc.
  pose proof (chunks_concat hs Hhs) as Hch. fold n in Hch.
  set (body := concat hs) in *.
  set (p := f1 ++ cs ++ body ++ stop).
  assert (Lp : length p = (4 + length cs + 32 * n + 32)%nat) by (unfold p; len).
  unfold parse_getheaders_payload.
  assert (S1 : slice 0 4 p = f1) by (unfold p; apply slice_hit; len).
  assert (K4 : skipn 4 p = cs ++ body ++ stop) by (unfold p; apply skipn_at; len).
  rewrite S1, K4, V1. unfold cs at 1. rewrite parse_cs_enc by lia. cbn [bind].
  replace (Z.of_nat (length p) - Z.of_nat (length (body ++ stop))) with (Z.of_nat (4 + length cs))
    by (rewrite Lp, app_length; lia).
  replace (Z.of_nat (4 + length cs) + Z.of_nat n * 32 + 32) with (Z.of_nat (4 + length cs + 32 * n + 32)) by lia.
  replace (Z.of_nat (4 + length cs) + Z.of_nat n * 32) with (Z.of_nat (4 + length cs + 32 * n)) by lia.
  replace (Z.of_nat (4 + length cs) + 32) with (Z.of_nat (4 + length cs + 32)) by lia.
  rewrite !zslice_nat, !zdrop_nat.
  destruct (Z.ltb_spec 0 (Z.of_nat n)) as [Hpos|Hz].
  - assert (S2 : slice (4 + length cs) (4 + length cs + 32 * n) p = body).
    { unfold p. replace (f1 ++ cs ++ body ++ stop) with ((f1 ++ cs) ++ body ++ stop) by (now rewrite <- app_assoc).
      apply slice_at; len. }
    assert (S3 : slice (4 + length cs + 32 * n) (4 + length cs + 32 * n + 32) p = stop).
    { unfold p. replace (f1 ++ cs ++ body ++ stop) with ((f1 ++ cs ++ body) ++ stop) by (now rewrite <- !app_assoc).
      apply slice_at_end; len. }
    rewrite S2, S3, Lc. rewrite (skipn_all2 p) by lia. cbn [nonempty].
    rewrite Nat.mul_comm, Nat.div_mul by lia. rewrite Hch.
    destruct hs; [subst n; cbn [length] in Hpos; lia | reflexivity].
  - assert (n = 0)%nat as Hn0 by lia.
    assert (hs = []) as Ehs by (destruct hs; [auto | subst n; cbn [length] in Hn0; lia]).
    assert (S3 : slice (4 + length cs) (4 + length cs + 32) p = stop).
    { unfold p. replace (f1 ++ cs ++ body ++ stop) with ((f1 ++ cs ++ body) ++ stop) by (now rewrite <- !app_assoc).
      apply slice_at_end; len. }
    rewrite S3. rewrite (skipn_all2 p) by lia. cbn [nonempty]. now rewrite Ehs.
Qed.

(* hash_count is an independent argument of the builder: it is checked as a CompactSize only *)
Lemma getheaders_payload_errors pv hc hs stop :
  (~ (0 <= pv < 2 ^ 32) -> getheaders_payload pv hc hs stop = Err OverflowE) /\
  (0 <= pv < 2 ^ 32 -> ~ (0 <= hc < 2 ^ 64) -> getheaders_payload pv hc hs stop = Err ValueE).
Proof.
  unfold getheaders_payload. split.
  - intros H. rewrite to_le_chk_err by (now rewrite pow256_4). reflexivity.
  - intros H1 H2. rewrite to_le_chk_ok by (rewrite pow256_4; lia). cbn [bind].
    rewrite cs_refuses by lia. reflexivity.
Qed.

(* ------------------------------------------------------------------ inv *)
Definition inv_keys : list bytes := map fst inventory_type_id.
Definition inv_item_ok (it : bytes * bytes) : Prop := In (fst it) inv_keys /\ length (snd it) = 32%nat.
Definition inv_ser (it : bytes * bytes) : result bytes := inventory (fst it) (snd it).

Lemma inv_table_ok :
  forallb (fun kv : bytes * Z =>
             match assoc_key (map ascii_upper (fst kv)) inventory_type_id with
             | Some v => (v =? snd kv) && (0 <=? v) && (v <? 2 ^ 32) &&
                         match assoc_val v inventory_type_id with
                         | Some k => bytes_eqb k (fst kv)
                         | None => false
                         end
             | None => false
             end) inventory_type_id = true.
Proof. vm_compute. reflexivity. Qed.

Lemma inventory_ok name hash : In name inv_keys ->
  exists tid, inventory name hash = Ok (to_le 4 tid ++ hash) /\ assoc_val tid inventory_type_id = Some name
              /\ 0 <= tid < 2 ^ 32.
Proof.
  intros H. unfold inv_keys in H. apply in_map_iff in H. destruct H as ([k v] & <- & Hin).
  pose proof inv_table_ok as T. rewrite forallb_forall in T. specialize (T _ Hin). cbn [fst snd] in T.
  destruct (assoc_key (map ascii_upper k) inventory_type_id) as [v'|] eqn:Ek; [|discriminate].
  rewrite !andb_true_iff in T. destruct T as (((T1 & T2) & T3) & T4).
  destruct (assoc_val v' inventory_type_id) as [k'|] eqn:Ev; [|discriminate].
  apply bytes_eqb_eq in T4. subst k'. apply Z.leb_le in T2. apply Z.ltb_lt in T3.
  exists v'. unfold inventory. cbn [fst]. rewrite Ek. cbn [of_option bind].
  rewrite to_le_chk_ok by (rewrite pow256_4; lia). cbn [bind]. auto.
Qed.

Lemma inventory_unknown name hash :
  assoc_key (map ascii_upper name) inventory_type_id = None -> inventory name hash = Err KeyE.
Proof. intros H. unfold inventory. now rewrite H. Qed.

Lemma parse_inventory_ser tid name hash :
  assoc_val tid inventory_type_id = Some name -> 0 <= tid < 2 ^ 32 -> length hash = 32%nat ->
  parse_inventory (to_le 4 tid ++ hash) = Ok (name, hash).
Proof.
  intros Hv Ht Hh. unfold parse_inventory.
  rewrite app_length, to_le_length, Hh. cbn [Nat.add Nat.eqb negb].
  rewrite firstn_at, skipn_at by (now rewrite to_le_length).
  rewrite of_le_to_le by (rewrite pow256_4; lia). rewrite Hv. reflexivity.
Qed.

Lemma parse_inv_items_eq fuel count rest :
  parse_inv_items fuel count rest =
  if count <=? 0 then Ok []
  else match fuel with
       | O => Err FuelE
       | S f => bind (parse_inventory (firstn 36 rest)) (fun item =>
                bind (parse_inv_items f (count - 1) (skipn 36 rest)) (fun items => Ok (item :: items)))
       end.
Proof. destruct fuel; reflexivity. Qed.

Lemma parse_inv_items_ok : forall items sers tail fuel,
  Forall inv_item_ok items -> mapM inv_ser items = Ok sers -> (length items <= fuel)%nat ->
  parse_inv_items fuel (Z.of_nat (length items)) (concat sers ++ tail) = Ok items
  /\ (length items <= length (concat sers))%nat.
Proof.
  induction items as [|[name hash] items IH]; intros sers tail fuel Hok HM Hf.
  - rewrite parse_inv_items_eq. cbn. split; [reflexivity | lia].
  - cbn [mapM] in HM. apply bind_ok in HM. destruct HM as (s & Hs & HM).
    apply bind_ok in HM. destruct HM as (ss & Hss & HM). injection HM as <-.
    inversion Hok as [|? ? [Hk Hh] Hok']; subst. cbn [fst snd] in Hk, Hh.
    destruct (inventory_ok name hash Hk) as (tid & Hinv & Hval & Ht).
    unfold inv_ser in Hs. cbn [fst snd] in Hs. rewrite Hinv in Hs.
    assert (s = to_le 4 tid ++ hash) as -> by congruence. clear Hs.
    destruct fuel as [|f]; [cbn [length] in Hf; lia|].
    rewrite parse_inv_items_eq.
    replace (Z.of_nat (length ((name, hash) :: items)) <=? 0) with false
      by (symmetry; apply Z.leb_gt; cbn [length]; lia).
    replace (Z.of_nat (length ((name, hash) :: items)) - 1) with (Z.of_nat (length items)) by (cbn [length]; lia).
    assert (L36 : length (to_le 4 tid ++ hash) = 36%nat) by (rewrite app_length, to_le_length, Hh; reflexivity).
    pose proof (parse_inventory_ser tid name hash Hval Ht Hh) as HP.
    clear Hinv. generalize dependent (to_le 4 tid ++ hash). intros s L36 HP.
    cbn [concat]. rewrite <- app_assoc.
    rewrite firstn_at, skipn_at by lia.
    rewrite HP. cbn [bind].
    destruct (IH ss tail f Hok' Hss) as (IH1 & IH2); [cbn [length] in Hf; lia|].
    rewrite IH1. cbn [bind]. split; [reflexivity|].
    rewrite app_length, L36. cbn [length]. lia.
Qed.

Lemma parse_inv_payload_eq payload count rest :
  payload <> [] -> parse_compact_size_uint payload = Ok (count, rest) ->
  parse_inv_payload payload =
  bind (parse_inv_items (S (length payload)) count rest) (fun items => Ok (count, items)).
Proof.
  intros Hne H. destruct payload as [|b0 t]; [congruence|].
  unfold parse_inv_payload.
  replace (zindex (b0 :: t) 0) with (@Ok byte b0) by reflexivity. cbn [bind].
  revert H. unfold parse_compact_size_uint.
  destruct (Z.eqb_spec (b2z b0) 255) as [E5|E5]; destruct (Z.eqb_spec (b2z b0) 254) as [E4|E4];
    destruct (Z.eqb_spec (b2z b0) 253) as [E3|E3]; try lia; intros H; injection H as <- <-; reflexivity.
Qed.

Theorem codec_roundtrip_inv : forall items,
  Forall inv_item_ok items -> Z.of_nat (length items) < 2 ^ 64 ->
  exists sers p, mapM inv_ser items = Ok sers /\ inv_payload (Z.of_nat (length items)) sers = Ok p /\
    parse_inv_payload p = Ok (Z.of_nat (length items), items).
Proof.
  intros items Hok Hn.
  assert (HM : exists sers, mapM inv_ser items = Ok sers).
  { clear Hn. induction Hok as [|[name hash] items [Hk Hh] _ IH]; [now exists []|].
    destruct IH as (ss & Hss). cbn [fst snd] in Hk.
    destruct (inventory_ok name hash Hk) as (tid & Hinv & _).
    exists ((to_le 4 tid ++ hash) :: ss). cbn [mapM]. unfold inv_ser at 1. cbn [fst snd].
    rewrite Hinv. cbn [bind]. rewrite Hss. reflexivity. }
  destruct HM as (sers & HM).
  exists sers, (cs_enc (Z.of_nat (length items)) ++ concat sers).
  split; [exact HM|]. unfold inv_payload. rewrite compact_size_uint_spec by lia. cbn [bind].
  split; [reflexivity|].
  rewrite (parse_inv_payload_eq _ (Z.of_nat (length items)) (concat sers)).
  - rewrite <- (app_nil_r (concat sers)).
    destruct (parse_inv_items_ok items sers [] (S (length (cs_enc (Z.of_nat (length items)) ++ concat sers ++ [])))
                Hok HM) as (H1 & _).
    { destruct (parse_inv_items_ok items sers [] (length items) Hok HM (le_n _)) as (_ & H2).
      rewrite !app_length. lia. }
    rewrite H1. reflexivity.
  - intros E. apply app_eq_nil in E. destruct E as [E _]. now apply cs_enc_nonempty in E.
  - apply parse_cs_enc. lia.
Qed.

(* ------------------------------------------------------------------ addr *)
Definition addr_entry : Type := (Z * bytes * bytes * Z)%type.
Definition addr_ok (a : addr_entry) : Prop :=
  let '(t, sv, ip, port) := a in
  0 <= t < 2 ^ 32 /\ length sv = 8%nat /\ length ip = 16%nat /\ 0 <= port < 2 ^ 16.
Definition addr_ser (a : addr_entry) : result bytes :=
  let '(t, sv, ip, port) := a in network_ip_addr t sv ip port.

Lemma addr_ser_ok t sv ip port : addr_ok (t, sv, ip, port) ->
  addr_ser (t, sv, ip, port) = Ok (to_le 4 t ++ sv ++ ip ++ to_be 2 port)
  /\ length (to_le 4 t ++ sv ++ ip ++ to_be 2 port) = 30%nat
  /\ parse_network_ip_addr (to_le 4 t ++ sv ++ ip ++ to_be 2 port) = (t, sv, ip, port).
Proof.
  intros (Ht & Hsv & Hip & Hp). unfold addr_ser, network_ip_addr.
  rewrite to_le_chk_ok by (rewrite pow256_4; lia). rewrite to_be_chk_ok by (rewrite pow256_2; lia).
  cbn [bind]. split; [reflexivity|].
  pose proof (to_le_length 4 t) as L1. pose proof (to_be_length 2 port) as L2.
  assert (V1 : of_le (to_le 4 t) = t) by (apply of_le_to_le; rewrite pow256_4; lia).
  assert (V2 : of_be (to_be 2 port) = port) by (apply of_be_to_be; rewrite pow256_2; lia).
  generalize dependent (to_le 4 t). intros f1 L1 V1.
  generalize dependent (to_be 2 port). intros f2 L2 V2.
  split; [len|]. unfold parse_network_ip_addr.
  assert (S1 : slice 0 4 (f1 ++ sv ++ ip ++ f2) = f1) by peel.
  assert (S2 : slice 4 12 (f1 ++ sv ++ ip ++ f2) = sv) by peel.
  assert (S3 : slice 12 28 (f1 ++ sv ++ ip ++ f2) = ip) by peel.
  assert (S4 : skipn 28 (f1 ++ sv ++ ip ++ f2) = f2).
  { replace (f1 ++ sv ++ ip ++ f2) with ((f1 ++ sv ++ ip) ++ f2) by (now rewrite <- !app_assoc).
    apply skipn_at. len. }
  now rewrite S1, S2, S3, S4, V1, V2.
Qed.

Lemma parse_addrs_ok : forall addrs sers tail,
  Forall addr_ok addrs -> mapM addr_ser addrs = Ok sers ->
  parse_addrs (length addrs) (concat sers ++ tail) = addrs.
Proof.
  induction addrs as [|[[[t sv] ip] port] addrs IH]; intros sers tail Hok HM; [reflexivity|].
  cbn [mapM] in HM. apply bind_ok in HM. destruct HM as (s & Hs & HM).
  apply bind_ok in HM. destruct HM as (ss & Hss & HM). injection HM as <-.
  inversion Hok as [|? ? Ha Hok']; subst.
  destruct (addr_ser_ok t sv ip port Ha) as (E1 & L30 & E2).
  rewrite E1 in Hs. assert (s = to_le 4 t ++ sv ++ ip ++ to_be 2 port) as -> by congruence. clear E1 Hs.
  generalize dependent (to_le 4 t ++ sv ++ ip ++ to_be 2 port). intros s L30 E2.
  cbn [length parse_addrs concat]. rewrite <- app_assoc.
  rewrite firstn_at, skipn_at by lia. rewrite E2. rewrite (IH ss tail Hok' Hss). reflexivity.
Qed.

Theorem codec_roundtrip_addr : forall addrs,
  Forall addr_ok addrs -> Z.of_nat (length addrs) < 2 ^ 64 ->
  exists sers p, mapM addr_ser addrs = Ok sers /\ addr_payload (Z.of_nat (length addrs)) sers = Ok p /\
    parse_addr_payload p = Ok addrs.
Proof.
  intros addrs Hok Hn.
  assert (HM : exists sers, mapM addr_ser addrs = Ok sers).
  { clear Hn. induction Hok as [|[[[t sv] ip] port] addrs Ha _ IH]; [now exists []|].
    destruct IH as (ss & Hss). destruct (addr_ser_ok t sv ip port Ha) as (E1 & _).
    eexists. cbn [mapM]. rewrite E1. cbn [bind]. rewrite Hss. reflexivity. }
  destruct HM as (sers & HM).
  exists sers, (cs_enc (Z.of_nat (length addrs)) ++ concat sers).
  split; [exact HM|]. unfold addr_payload. rewrite compact_size_uint_spec by lia. cbn [bind].
  split; [reflexivity|]. unfold parse_addr_payload. rewrite parse_cs_enc by lia. cbn [bind].
  rewrite Nat2Z.id. rewrite <- (app_nil_r (concat sers)). now rewrite (parse_addrs_ok addrs sers [] Hok HM).
Qed.

(* ------------------------------------------------------------------ where the version parser does NOT
   invert the reference encoding (witnesses) *)
Definition witness_msg (ip : bytes) (ua : bytes) (relay : option bool) : version_msg :=
  {| m_protocol_version := 70015; m_services := 1; m_timestamp := 1700000000;
     m_recv_services := 0; m_recv_ip := ip; m_recv_port := 8333;
     m_trans_services := 1; m_trans_ip := ip; m_trans_port := 8333;
     m_nonce := 7; m_user_agent := ua; m_start_height := 100; m_relay := relay |}.

Definition ipv4_mapped_localhost : bytes :=   (* ::ffff:127.0.0.1 in network byte order *)
  [x00;x00;x00;x00;x00;x00;x00;x00;x00;x00;xff;xff;x7f;x00;x00;x01].

Lemma witness_wf ip ua relay : length ip = 16%nat -> version_msg_wf (witness_msg ip ua relay).
Proof. intros H. unfold version_msg_wf, witness_msg. cbn. repeat split; auto; lia. Qed.

(* a user agent of 253 bytes (CompactSize prefix fd): offsets are computed as if the prefix were one byte *)
Lemma parse_version_long_user_agent_refuted :
  exists m r, version_msg_wf m /\ is_ascii (m_recv_ip m) = true /\ is_ascii (m_trans_ip m) = true /\
    length (m_user_agent m) = 253%nat /\ m_relay m = Some r /\
    parse_version_payload (spec_version_payload m) = Err ValueE.
Proof.
  exists (witness_msg ip_local (repeat x41 253) (Some true)), true.
  split; [now apply witness_wf|]. repeat split; vm_compute; reflexivity.
Qed.

(* the relay byte is optional in the protocol (absent below version 70001): IndexError *)
Lemma parse_version_without_relay_refuted :
  exists m, version_msg_wf m /\ is_ascii (m_recv_ip m) = true /\ is_ascii (m_trans_ip m) = true /\
    (length (m_user_agent m) < 253)%nat /\ m_relay m = None /\
    parse_version_payload (spec_version_payload m) = Err IndexE.
Proof.
  exists (witness_msg ip_local user_agent_const None).
  split; [now apply witness_wf|]. repeat split; try (vm_compute; reflexivity). cbn. lia.
Qed.

(* a real (binary) IPv6 / IPv4-mapped address is not ASCII: UnicodeDecodeError (a ValueError) *)
Lemma parse_version_binary_ip_refuted :
  exists m r, version_msg_wf m /\ (length (m_user_agent m) < 253)%nat /\ m_relay m = Some r /\
    parse_version_payload (spec_version_payload m) = Err ValueE.
Proof.
  exists (witness_msg ipv4_mapped_localhost user_agent_const (Some true)), true.
  split; [now apply witness_wf|]. repeat split; try (vm_compute; reflexivity). cbn. lia.
Qed.
