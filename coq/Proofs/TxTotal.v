(* Facts about tx_deser on ARBITRARY input: the fuel of the counted loops is never exhausted, and a
   successful parse consumes at least one byte (used by block_deser's fuel argument, C15). *)
From Coq Require Import ZArith List Lia Bool.
Require Import Bits.Lib.Result Bits.Lib.Bytes Bits.Lib.CompactSize.
Require Import Bits.Model.CompactSize Bits.Model.Witness Bits.Model.Tx.
Require Import Bits.Proofs.CompactSize Bits.Proofs.Witness Bits.Proofs.Tx.
Import ListNotations.
Import Coq.Init.Byte.
Local Open Scope Z_scope.

Lemma skipn_le {A} k (l : list A) : (length (skipn k l) <= length l)%nat.
Proof. rewrite skipn_length. lia. Qed.

Lemma txin_deser_consumes b i r : txin_deser b = Ok (i, r) -> (length r < length b)%nat.
Proof.
  unfold txin_deser. intros H. apply bind_ok in H as ([len b'] & P & H).
  apply ok_pair_inj in H as [_ <-]. apply parse_cs_length in P as (P & _).
  pose proof (skipn_le 36 b). pose proof (skipn_le 4 (dropZ len b')). pose proof (dropZ_length len b'). lia.
Qed.

Lemma txout_deser_consumes b o r : txout_deser b = Ok (o, r) -> (length r < length b)%nat.
Proof.
  unfold txout_deser. intros H. apply bind_ok in H as ([len b'] & P & H).
  apply ok_pair_inj in H as [_ <-]. apply parse_cs_length in P as (P & _).
  pose proof (skipn_le 8 b). pose proof (dropZ_length len b'). lia.
Qed.

Lemma txin_deser_err b e : txin_deser b = Err e -> e = IndexE.
Proof.
  unfold txin_deser. destruct (parse_compact_size_uint (skipn 36 b)) as [[len b']|e'] eqn:P; cbn [bind].
  - discriminate.
  - intros H; injection H as <-. now apply parse_cs_err in P.
Qed.
Lemma txout_deser_err b e : txout_deser b = Err e -> e = IndexE.
Proof.
  unfold txout_deser. destruct (parse_compact_size_uint (skipn 8 b)) as [[len b']|e'] eqn:P; cbn [bind].
  - discriminate.
  - intros H; injection H as <-. now apply parse_cs_err in P.
Qed.

Section Counted.
  Context {A : Type} (item : bytes -> result (A * bytes)).
  Hypothesis item_consumes : forall b x r, item b = Ok (x, r) -> (length r < length b)%nat.

  Lemma parse_n_le fuel : forall n acc b xs r,
    parse_n item fuel n acc b = Ok (xs, r) -> (length r <= length b)%nat.
  Proof.
    induction fuel as [|f IH]; intros n acc b xs r H.
    - cbn [parse_n] in H. destruct (n <=? 0); [|discriminate]. apply ok_pair_inj in H as [_ <-]. lia.
    - cbn [parse_n] in H. destruct (n <=? 0); [apply ok_pair_inj in H as [_ <-]; lia|].
      apply bind_ok in H as ([x b'] & I & H). apply item_consumes in I. apply IH in H. lia.
  Qed.

  Hypothesis item_no_fuel : forall b, item b <> Err FuelE.

  Lemma parse_n_no_fuel fuel : forall n acc b, (length b < fuel)%nat ->
    parse_n item fuel n acc b <> Err FuelE.
  Proof.
    induction fuel as [|f IH]; intros n acc b L; [lia|].
    cbn [parse_n]. destruct (n <=? 0); [discriminate|].
    destruct (item b) as [[x b']|e] eqn:I; cbn [bind].
    - apply IH. apply item_consumes in I. lia.
    - intros H; injection H as ->. now apply (item_no_fuel b).
  Qed.
End Counted.

Lemma parse_wits_le {I} (ins : list I) : forall acc b ws r,
  parse_wits ins acc b = Ok (ws, r) -> (length r <= length b)%nat.
Proof.
  induction ins as [|i ins IH]; intros acc b ws r H; cbn [parse_wits] in H.
  - apply ok_pair_inj in H as [_ <-]. lia.
  - apply bind_ok in H as ([w b'] & W & H). apply witness_deser_consumes in W. apply IH in H. lia.
Qed.

Lemma parse_wits_no_fuel {I} (ins : list I) : forall acc b, parse_wits ins acc b <> Err FuelE.
Proof.
  induction ins as [|i ins IH]; intros acc b; cbn [parse_wits]; [discriminate|].
  destruct (witness_deser b) as [[w b']|e] eqn:W; cbn [bind]; [apply IH|].
  intros H; injection H as ->. now apply (witness_deser_no_fuel b).
Qed.

Lemma detect_segwit_le n0 p0 sw n p1 : detect_segwit n0 p0 = Ok (sw, n, p1) -> (length p1 <= length p0)%nat.
Proof.
  unfold detect_segwit. destruct p0 as [|flag tl]; [intros H; injection H as <- <- <-; lia|].
  destruct (n0 =? 0).
  - intros H. apply bind_ok in H as (u & _ & H). apply bind_ok in H as ([n' p] & P & H).
    injection H as <- <- <-. apply parse_cs_length in P as (P & _). cbn [skipn length] in *. lia.
  - intros H; injection H as <- <- <-. lia.
Qed.

Lemma detect_segwit_no_fuel n0 p0 : detect_segwit n0 p0 <> Err FuelE.
Proof.
  unfold detect_segwit. destruct p0 as [|flag tl]; [discriminate|]. destruct (n0 =? 0); [|discriminate].
  unfold assert_. destruct (b2z flag =? 1); cbn [bind]; [|discriminate].
  destruct (parse_compact_size_uint (skipn 1 (flag :: tl))) as [[n p]|e] eqn:P; cbn [bind]; [discriminate|].
  apply parse_cs_err in P. subst e. discriminate.
Qed.

(* the serialisers never report FuelE (they have no fuel) *)
Lemma mapM_err {A B} (f : A -> result B) (Q : err -> Prop) xs e :
  (forall x e, f x = Err e -> Q e) -> mapM f xs = Err e -> Q e.
Proof.
  intros Hf. induction xs as [|x xs IH]; [discriminate|]. cbn [mapM].
  destruct (f x) as [y|e'] eqn:F; cbn [bind].
  - destruct (mapM f xs) as [ys|e'']; cbn [bind]; [discriminate|]. intros H; injection H as <-. now apply IH.
  - intros H; injection H as <-. eauto.
Qed.

Definition ser_err (e : err) : Prop := e = OverflowE \/ e = ValueE.

Lemma to_le_chk_err k v e : to_le_chk k v = Err e -> ser_err e.
Proof. unfold to_le_chk. destruct (_ && _); [discriminate|]. intros H; injection H as <-. now left. Qed.
Lemma cs_err n e : compact_size_uint n = Err e -> ser_err e.
Proof. intros H. apply compact_size_uint_err in H as (-> & _). now right. Qed.

Ltac bind_err H :=
  match type of H with
  | bind ?r _ = Err _ => let E := fresh "E" in destruct r eqn:E; cbn [bind] in H
  end.

Lemma txin_ser_err i e : txin_ser i = Err e -> ser_err e.
Proof.
  unfold txin_ser, outpoint, txin. intros H.
  destruct (to_le_chk 4 (ti_vout i)) eqn:E1; cbn [bind] in H.
  - destruct (compact_size_uint _) eqn:E2; cbn [bind] in H; [discriminate|].
    injection H as <-. eapply cs_err; eauto.
  - injection H as <-. eapply to_le_chk_err; eauto.
Qed.
Lemma txout_ser_err o e : txout_ser o = Err e -> ser_err e.
Proof.
  unfold txout_ser, txout. intros H.
  destruct (to_le_chk 8 (to_value o)) eqn:E1; cbn [bind] in H.
  - destruct (compact_size_uint _) eqn:E2; cbn [bind] in H; [discriminate|].
    injection H as <-. eapply cs_err; eauto.
  - injection H as <-. eapply to_le_chk_err; eauto.
Qed.
Lemma tx_raw_err a b v lt w e : tx_raw a b v lt w = Err e -> ser_err e.
Proof.
  unfold tx_raw. intros H.
  destruct w;
    (destruct (to_le_chk 4 v) eqn:E1; cbn [bind] in H; [|injection H as <-; eapply to_le_chk_err; eauto]);
    (destruct (compact_size_uint (Z.of_nat (length a))) eqn:E2; cbn [bind] in H; [|injection H as <-; eapply cs_err; eauto]);
    (destruct (compact_size_uint (Z.of_nat (length b))) eqn:E3; cbn [bind] in H; [|injection H as <-; eapply cs_err; eauto]);
    (destruct (to_le_chk 4 lt) eqn:E4; cbn [bind] in H; [discriminate|injection H as <-; eapply to_le_chk_err; eauto]).
Qed.
Lemma tx_ser_nowit_err t e : tx_ser_nowit t = Err e -> ser_err e.
Proof.
  unfold tx_ser_nowit, tx_ser, strip_wits. cbn [tx_ins tx_outs tx_wits tx_version tx_locktime]. intros H.
  destruct (mapM txin_ser (tx_ins t)) eqn:E1; cbn [bind] in H.
  2:{ injection H as <-. eapply (mapM_err txin_ser ser_err); eauto using txin_ser_err. }
  destruct (mapM txout_ser (tx_outs t)) eqn:E2; cbn [bind] in H.
  2:{ injection H as <-. eapply (mapM_err txout_ser ser_err); eauto using txout_ser_err. }
  eapply tx_raw_err; eauto.
Qed.

Section Total.
  Variable sha256 : bytes -> bytes.

  Theorem tx_deser_consumes bs p rest : tx_deser sha256 bs = Ok (p, rest) -> (length rest < length bs)%nat.
  Proof.
    unfold tx_deser. intros H.
    apply bind_ok in H as ([n0 p0] & P0 & H). apply bind_ok in H as ([[sw n_in] p1] & D & H).
    apply bind_ok in H as ([txins p2] & I & H). apply bind_ok in H as ([n_out p3] & P2 & H).
    apply bind_ok in H as ([txouts p4] & O & H). apply bind_ok in H as ([wits p5] & W & H).
    apply bind_ok in H as (id & _ & H). apply ok_pair_inj in H as [_ <-].
    apply parse_cs_length in P0 as (P0 & _). apply detect_segwit_le in D.
    apply (parse_n_le txin_deser txin_deser_consumes) in I. apply parse_cs_length in P2 as (P2 & _).
    apply (parse_n_le txout_deser txout_deser_consumes) in O.
    assert (W' : (length p5 <= length p4)%nat).
    { destruct sw.
      - apply bind_ok in W as ([ws q] & W & E). injection E as _ <-. now apply parse_wits_le in W.
      - injection W as _ <-. lia. }
    pose proof (skipn_le 4 bs). pose proof (skipn_le 4 p5). lia.
  Qed.

  Theorem tx_deser_no_fuel bs : tx_deser sha256 bs <> Err FuelE.
  Proof.
    unfold tx_deser.
    destruct (parse_compact_size_uint (skipn 4 bs)) as [[n0 p0]|e] eqn:P0; cbn [bind].
    2:{ apply parse_cs_err in P0. subst e. discriminate. }
    destruct (detect_segwit n0 p0) as [[[sw n_in] p1]|e] eqn:D; cbn [bind].
    2:{ intros H; injection H as ->. now apply (detect_segwit_no_fuel n0 p0). }
    destruct (parse_n txin_deser (S (length p1)) n_in [] p1) as [[txins p2]|e] eqn:I; cbn [bind].
    2:{ intros H; injection H as ->. revert I. apply (parse_n_no_fuel txin_deser txin_deser_consumes); [|lia].
        intros b E. apply txin_deser_err in E. discriminate. }
    destruct (parse_compact_size_uint p2) as [[n_out p3]|e] eqn:P2; cbn [bind].
    2:{ apply parse_cs_err in P2. subst e. discriminate. }
    destruct (parse_n txout_deser (S (length p3)) n_out [] p3) as [[txouts p4]|e] eqn:O; cbn [bind].
    2:{ intros H; injection H as ->. revert O. apply (parse_n_no_fuel txout_deser txout_deser_consumes); [|lia].
        intros b E. apply txout_deser_err in E. discriminate. }
    destruct sw.
    - destruct (parse_wits txins [] p4) as [[ws p]|e] eqn:W; cbn [bind].
      2:{ intros H; injection H as ->. now apply (parse_wits_no_fuel txins [] p4). }
      match goal with |- context [tx_ser_nowit ?t] => destruct (tx_ser_nowit t) as [nw|e] eqn:N end; cbn [bind].
      + discriminate.
      + apply tx_ser_nowit_err in N. intros H; injection H as ->. destruct N; discriminate.
    - cbn [bind]. discriminate.
  Qed.
End Total.
