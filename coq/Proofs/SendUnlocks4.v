(* C16, send_valid in the template form, part 4: from send_tx to the signed structured transaction.
     send_tx_inv     the steps of a successful signing run
     final_ins       the inputs of the SIGNED transaction (same outpoints and sequences, final scriptSigs)
     finish          what is common to the eight kinds: given, for every selected input, the items its final scriptSig pushes
                     and its witness stack, together with [unlocks] for them, the returned bytes are the serialisation of a
                     well-formed transaction t' whose every input is unlocked *)
From Coq Require Import ZArith List Lia Bool.
From Coq Require Import Floats.SpecFloat.
Require Import Bits.Lib.Result Bits.Lib.Bytes Bits.Lib.PyStr Bits.Lib.CompactSize.
Require Import Bits.Spec.Bip66 Bits.Spec.Bip143 Bits.Spec.Sighash Bits.Spec.ScriptTemplatesDecode.
Require Import Bits.Model.Ecmath Bits.Model.SendValue Bits.Model.Send.
Require Import Bits.Proofs.Ecdsa Bits.Proofs.Sec1 Bits.Proofs.ScriptWitness.
Require Import Bits.Proofs.SendValue Bits.Proofs.Send Bits.Proofs.SendSign Bits.Proofs.SendValid.
Require Import Bits.Proofs.SendUnlocks Bits.Proofs.SendUnlocks2 Bits.Proofs.SendUnlocks3.
Require Bits.Model.Tx Bits.Proofs.Tx.
Import ListNotations.
Import Coq.Init.Byte.
Local Open Scope Z_scope.
Local Open Scope result_scope.

Module MT := Bits.Model.Tx.
Module PT := Bits.Proofs.Tx.

(* the inputs of the signed transaction *)
Fixpoint final_ins (sel : list (utxo * bytes)) (sss : list bytes) : list tx_input :=
  match sel, sss with
  | xt :: sel', ss :: sss' =>
    Bits.Spec.Bip143.mk_txin (rev (u_txid (fst xt))) (u_vout (fst xt)) ss 0xffffffff :: final_ins sel' sss'
  | _, _ => []
  end.

Lemma final_ins_length : forall sel sss, length sss = length sel -> length (final_ins sel sss) = length sel.
Proof. induction sel as [|xt sel IH]; intros [|ss sss] H; cbn [final_ins length] in *; try lia. now rewrite IH by lia. Qed.

Lemma final_ins_nth : forall sel sss j xt ss, nth_error sel j = Some xt -> nth_error sss j = Some ss ->
  nth_error (final_ins sel sss) j = Some (Bits.Spec.Bip143.mk_txin (rev (u_txid (fst xt))) (u_vout (fst xt)) ss 0xffffffff).
Proof.
  induction sel as [|xt0 sel IH]; intros [|ss0 sss] [|j] xt ss H1 H2; cbn [nth_error final_ins] in *; try discriminate.
  - now injection H1 as <-; injection H2 as <-.
  - now apply IH.
Qed.

Section Finish.
  Variables p a b n : Z.
  Variable G : point.
  Variable sha256 ripemd160 : bytes -> bytes.
  Variable scriptpubkey : bytes -> result bytes.
  Variable is_address : bytes -> bool.
  Hypothesis facts : curve_facts p a b n G.

  Notation build := (build_unsigned p a n G sha256 ripemd160 scriptpubkey is_address).
  Notation send := (send_tx p a n G sha256 ripemd160 scriptpubkey is_address).
  Notation lss := (loop_scriptsig p a n G sha256 ripemd160).
  Notation sel_in := (selected_input p a n G sha256 ripemd160).

  Lemma send_tx_inv sender recipient change sk sks f frac fee version locktime total unspents draws raw :
    send sender recipient change (sk :: sks) (Some f) frac fee version locktime total unspents draws = Ok raw ->
    exists k u sigs left sss witb txins' ul txl,
      decode_keys sha256 (sk :: sks) (Some f) = Ok k /\
      build sender recipient change (Some k) frac fee total unspents = Ok u /\
      sign_inputs p a n G sha256 ripemd160 k (Some f) version locktime u draws = Ok sigs /\
      In (ul, txl) (us_selected u) /\ lss (Some k) ul = Ok left /\
      assemble p a n G k (Some left) (length (us_selected u)) sigs = Ok (sss, witb) /\
      rebuild_txins (map snd (us_selected u)) sss = Ok txins' /\
      MT.tx_raw txins' (us_txouts u) version locktime witb = Ok raw.
  Proof.
    unfold send_tx. intros H. apply bind_ok in H as (ki & Hki & H).
    apply bind_ok in Hki as (k & Hk & Hki). injection Hki as <-.
    apply bind_ok in H as (u & Hu & H). apply bind_ok in H as (tx_ & _ & H).
    apply bind_ok in H as (sigs & Hs & H). apply bind_ok in H as (lo & Hlo & H).
    apply bind_ok in H as ([sss witb] & Ha & H). cbn beta iota in H. apply bind_ok in H as (txins' & Hr & H).
    rewrite map_length in Ha.
    destruct (rev (us_selected u)) as [|[ul txl] r] eqn:Er.
    - injection Hlo as <-. unfold assemble in Ha. cbn [of_option bind] in Ha. discriminate.
    - apply bind_ok in Hlo as (left & Hl & Hlo). injection Hlo as <-.
      exists k, u, sigs, left, sss, witb, txins', ul, txl. repeat split; auto.
      apply in_rev. rewrite Er. left. reflexivity.
  Qed.

  (* rebuilding every txin with its final scriptSig *)
  Lemma rebuild_txins_spec ki : forall sel sss out, length sss = length sel ->
    Forall (fun xt => length (u_txid (fst xt)) = 32%nat /\ reported_input p a n G sha256 ripemd160 ki xt) sel ->
    rebuild_txins (map snd sel) sss = Ok out ->
    out = map ser_txin (final_ins sel sss) /\ Forall wf_txin (final_ins sel sss).
  Proof.
    induction sel as [|[x txi] sel IH]; intros [|ss sss] out L HF H; cbn [length] in L; try lia.
    - cbn in H. injection H as <-. split; [reflexivity|constructor].
    - cbn [map snd rebuild_txins] in H. apply bind_ok in H as (o & Ho & H). apply bind_ok in H as (rest & Hr & H).
      injection H as <-. inversion HF as [|? ? (L32 & Hrep) HF']; subst. cbn [fst] in L32.
      destruct (rebuild_txin_spec p a n G sha256 ripemd160 ki x txi ss L32 Hrep o Ho) as (-> & Ls).
      destruct (IH sss rest ltac:(lia) HF' Hr) as (-> & W). cbn [final_ins map fst]. split.
      + f_equal. rewrite txin_bytes_spec by reflexivity. reflexivity.
      + constructor; [|exact W]. destruct Hrep as (ss0 & _ & Rv & _ & _). cbn [fst] in Rv.
        unfold wf_txin. cbn [ti_txid ti_vout ti_seq ti_script]. rewrite rev_length. repeat split; auto; lia.
  Qed.

  Lemma same_but_scripts_final ki v lt outs : forall sel ins sss, Forall2 (sel_in ki) sel ins -> length sss = length sel ->
    same_but_scripts (mk_tx v ins outs lt) (mk_tx v (final_ins sel sss) outs lt).
  Proof.
    intros sel ins sss HF L. unfold same_but_scripts. cbn [tx_version tx_locktime tx_outs tx_ins].
    repeat split. revert sss L.
    induction HF as [|xt i sel ins (ss0 & _ & -> & _ & _) _ IH]; intros [|ss sss] L; cbn [length] in L; try lia;
      cbn [final_ins]; constructor.
    - cbn [ti_txid ti_vout ti_seq]. auto.
    - apply IH. lia.
  Qed.

  Definition send_unlocks_concl (sats : utxo -> Z) (k : keyinfo) (u : unsigned) (version locktime : Z) (raw : bytes) : Prop :=
    exists t' wstacks,
      wf_tx t' /\ tx_version t' = version /\ tx_locktime t' = locktime /\
      us_txouts u = map ser_txout (tx_outs t') /\
      raw = PT.tx_bytes (segwit_kind k) version (map ser_txin (tx_ins t')) (map ser_txout (tx_outs t'))
                        (map spec_witness wstacks) locktime /\
      length (tx_ins t') = length (us_selected u) /\ length wstacks = length (us_selected u) /\
      forall j xt, nth_error (us_selected u) j = Some xt ->
        exists i' items wit l,
          nth_error (tx_ins t') j = Some i' /\ ti_txid i' = rev (u_txid (fst xt)) /\ ti_vout i' = u_vout (fst xt) /\
          push_items (ti_script i') = Some items /\ nth_error wstacks j = Some wit /\
          lock_of (u_spk (fst xt)) = Some l /\
          unlocks sha256 ripemd160 (ecdsa_ok p a b n G) bip66_valid decode_inner t' j (sats (fst xt)) l items wit.

  Lemma finish (sats : utxo -> Z) sender recipient change f frac fee version locktime total unspents draws raw
        k u sigs sss witb txins' script wstacks :
    build sender recipient change (Some k) frac fee total unspents = Ok u ->
    sign_inputs p a n G sha256 ripemd160 k (Some f) version locktime u draws = Ok sigs ->
    us_selected u <> [] ->
    rebuild_txins (map snd (us_selected u)) sss = Ok txins' ->
    MT.tx_raw txins' (us_txouts u) version locktime witb = Ok raw ->
    (forall x, In x unspents -> length (u_txid x) = 32%nat /\ sat_of_btc (u_amount x) = Ok (sats x) /\ 0 <= sats x < 2 ^ 64) ->
    0 <= version < 2 ^ 32 -> 0 <= locktime < 2 ^ 32 -> standard_flag f ->
    (segwit_kind k = true ->
     scriptcode_of p a n G sha256 ripemd160 k = Ok (ser_script script) /\ Z.of_nat (length script) < 2 ^ 64) ->
    length sss = length (us_selected u) -> length wstacks = length (us_selected u) ->
    witb = (if segwit_kind k then map spec_witness wstacks else []) ->
    (forall t t' j xt i sgs digest,
        same_but_scripts t t' -> nth_error (us_selected u) j = Some xt -> In (fst xt) unspents ->
        sel_in (Some k) xt i -> nth_error sigs j = Some sgs ->
        (if segwit_kind k then sighash sha256 t' j (sats (fst xt)) script f = Some digest
         else legacy_sighash sha256 t' j (ti_script i) f = Some digest) ->
        Forall2 (valid_sig p a b n G digest f) (ki_keys k) sgs ->
        exists items wit l,
          nth_error sss j = Some (push_ser items) /\ Forall (fun d => lenZ d < 2 ^ 32) items /\
          nth_error wstacks j = Some wit /\ lock_of (u_spk (fst xt)) = Some l /\
          unlocks sha256 ripemd160 (ecdsa_ok p a b n G) bip66_valid decode_inner t' j (sats (fst xt)) l items wit) ->
    send_unlocks_concl sats k u version locktime raw.
  Proof.
    intros Hb Hsign Hne Hreb Hraw Hun Rv Rl Hf Hsc Lsss Lw Ewitb Hkind.
    pose proof (build_selected _ _ _ _ _ _ _ _ _ _ _ _ _ _ _ _ _ Hb) as Hsel.
    assert (Hlen64 : Z.of_nat (length (us_selected u)) < 2 ^ 64).
    { apply PT.tx_raw_inv in Hraw as (_ & _ & Hi & _).
      destruct (rebuild_txins_spec (Some k) (us_selected u) sss txins' Lsss) as (E & _); auto.
      { eapply Forall_impl; [|exact Hsel]. intros xt (Hin & Hr). split; [apply Hun; exact Hin|exact Hr]. }
      rewrite E, map_length, final_ins_length in Hi by exact Lsss. exact Hi. }
    destruct (sign_inputs_valid p a b n G sha256 ripemd160 scriptpubkey is_address facts sats sender recipient change k frac fee
                version locktime total unspents u f script draws sigs Hb Hun Rv Rl Hf Hlen64 Hsc Hsign)
      as (t & Hwf & Ev & El & Eins & Eouts & HF2 & Hsigs).
    destruct (rebuild_txins_spec (Some k) (us_selected u) sss txins' Lsss) as (Etx & Wfin); auto.
    { eapply Forall_impl; [|exact Hsel]. intros xt (Hin & Hr). split; [apply Hun; exact Hin|exact Hr]. }
    set (t' := mk_tx version (final_ins (us_selected u) sss) (tx_outs t) locktime).
    assert (Hsame : same_but_scripts t t').
    { destruct t as [tv tins touts tl]. cbn [tx_version tx_locktime tx_ins tx_outs] in *. subst tv tl. subst t'.
      apply (same_but_scripts_final (Some k)); assumption. }
    exists t', wstacks. subst t'. cbn [tx_version tx_locktime tx_ins tx_outs].
    split. { destruct Hwf as (_ & _ & _ & Wo). unfold wf_tx. cbn [tx_version tx_locktime tx_ins tx_outs]. auto. }
    split; [reflexivity|]. split; [reflexivity|]. split; [exact Eouts|].
    split.
    { apply PT.tx_raw_inv in Hraw as (_ & _ & _ & _ & ->). rewrite Etx, Eouts, Ewitb.
      destruct (segwit_kind k); [|reflexivity].
      destruct wstacks as [|w ws]; [|reflexivity]. cbn [length] in Lw. destruct (us_selected u); [congruence|discriminate]. }
    split; [apply final_ins_length; exact Lsss|]. split; [exact Lw|].
    intros j xt Hj.
    assert (Hin : In (fst xt) unspents).
    { rewrite Forall_forall in Hsel. apply (Hsel xt). eapply nth_error_In; exact Hj. }
    destruct (Forall2_nth _ _ _ HF2 j xt Hj) as (i & Hi & Hsi).
    destruct (Hsigs j xt i Hj Hi) as (digest & sgs & Es & Hd & Hv).
    set (t' := mk_tx version (final_ins (us_selected u) sss) (tx_outs t) locktime) in *.
    assert (Hd' : if segwit_kind k then sighash sha256 t' j (sats (fst xt)) script f = Some digest
                  else legacy_sighash sha256 t' j (ti_script i) f = Some digest).
    { destruct (segwit_kind k).
      - rewrite (sighash_same_but_scripts sha256 t t' _ _ _ _ Hsame). exact Hd.
      - rewrite (legacy_sighash_same_but_scripts sha256 t t' _ _ _ Hsame). exact Hd. }
    destruct (Hkind t t' j xt i sgs digest Hsame Hj Hin Hsi Es Hd' Hv) as (items & wit & l & Ess & Hsmall & Ew & El' & Hu).
    eexists _, items, wit, l. split; [apply (final_ins_nth _ _ _ _ _ Hj Ess)|].
    cbn [ti_txid ti_vout ti_script]. split; [reflexivity|]. split; [reflexivity|].
    split; [apply push_items_ser; exact Hsmall|]. auto.
  Qed.
End Finish.
