(* Path text of wallet/hd.py derive_from_path: str.split("/"), the component parser (int(), trailing "'"),
   and the canonical decimal rendering of an index list. *)
From Coq Require Import ZArith List Bool Lia.
Require Import Bits.Lib.Result Bits.Lib.Bytes Bits.Lib.Radix Bits.Model.Bip32.
Import ListNotations.
Import Coq.Init.Byte.
Local Open Scope Z_scope.

Definition slash : byte := x2f.
Definition no_slash (t : bytes) : Prop := ~ In slash t.

(* "pfx/t1/t2/..." *)
Definition join (pfx : bytes) (l : list bytes) : bytes := pfx ++ concat (map (cons slash) l).

Lemma byte_eqb_refl c : byte_eqb c c = true.
Proof. now apply byte_eqb_eq. Qed.
Lemma byte_eqb_neq c d : c <> d -> byte_eqb c d = false.
Proof. intros H. destruct (byte_eqb c d) eqn:E; [apply byte_eqb_eq in E; contradiction|reflexivity]. Qed.

Lemma split_on_join l : forall pfx, no_slash pfx -> Forall no_slash l -> split_on slash (join pfx l) = pfx :: l.
Proof.
  unfold join. induction l as [|t l IH]; intros pfx Hp Hl.
  - cbn [map concat]. rewrite app_nil_r. induction pfx as [|c pfx IHp]; [reflexivity|].
    cbn [split_on]. rewrite byte_eqb_neq by (intros ->; apply Hp; now left).
    rewrite IHp by (intros H; apply Hp; now right). reflexivity.
  - inversion Hl as [|? ? Ht Hl']; subst. cbn [map concat]. cbn [app].
    induction pfx as [|c pfx IHp].
    + cbn [app split_on]. unfold slash at 1. rewrite byte_eqb_refl. f_equal. now apply IH.
    + cbn [app split_on]. rewrite byte_eqb_neq by (intros ->; apply Hp; now left).
      rewrite IHp by (intros H; apply Hp; now right). reflexivity.
Qed.

(* the validated, parsed components (the try/except maps every failure to ValueError) *)
Definition ptree (l : list bytes) : result (list Z) :=
  match mapM parse_component l with Ok r => Ok r | Err _ => Err ValueE end.

Lemma path_tree_join pfx l : no_slash pfx -> Forall no_slash l -> path_tree (join pfx l) = ptree l.
Proof. intros Hp Hl. unfold path_tree. fold slash. rewrite split_on_join by assumption. reflexivity. Qed.

Lemma mapM_app {A B} (f : A -> result B) l1 l2 :
  mapM f (l1 ++ l2) = bind (mapM f l1) (fun r1 => bind (mapM f l2) (fun r2 => Ok (r1 ++ r2))).
Proof.
  induction l1 as [|x l1 IH]; cbn [app mapM bind].
  - destruct (mapM f l2); reflexivity.
  - destruct (f x) as [y|e]; cbn [bind]; [|reflexivity]. rewrite IH.
    destruct (mapM f l1) as [r1|e]; cbn [bind]; [|reflexivity].
    destruct (mapM f l2) as [r2|e]; cbn [bind]; reflexivity.
Qed.

Lemma ptree_app l1 l2 :
  ptree (l1 ++ l2) = bind (ptree l1) (fun r1 => bind (ptree l2) (fun r2 => Ok (r1 ++ r2))).
Proof.
  unfold ptree. rewrite mapM_app.
  destruct (mapM parse_component l1) as [r1|e]; cbn [bind]; [|reflexivity].
  destruct (mapM parse_component l2) as [r2|e]; cbn [bind]; reflexivity.
Qed.

Lemma ptree_err l e : ptree l = Err e -> e = ValueE.
Proof. unfold ptree. destruct (mapM parse_component l); intros H; inversion H; reflexivity. Qed.

Lemma ptree_nil : ptree [] = Ok [].
Proof. reflexivity. Qed.

(* ---------- decimal text ---------- *)
Definition dchar (d : Z) : byte := z2b (48 + d).

Lemma dchar_props d : 0 <= d < 10 ->
  is_digit (dchar d) = true /\ dval (dchar d) = d /\ is_space (dchar d) = false /\
  byte_eqb (dchar d) x2d = false /\ byte_eqb (dchar d) x2b = false /\ byte_eqb (dchar d) x5f = false /\
  byte_eqb (dchar d) x27 = false /\ dchar d <> slash.
Proof.
  intros H.
  assert (E : d = 0 \/ d = 1 \/ d = 2 \/ d = 3 \/ d = 4 \/ d = 5 \/ d = 6 \/ d = 7 \/ d = 8 \/ d = 9) by lia.
  decompose [or] E; subst d; vm_compute; repeat split; try reflexivity; discriminate.
Qed.

Lemma digits_run_digits ds : in_range 10 ds -> forall acc cnt,
  digits_run (map dchar ds) acc cnt =
  Ok (fold_left (fun a d => a * 10 + d) ds acc, cnt + Z.of_nat (length ds), []).
Proof.
  induction ds as [|d ds IH]; intros R acc cnt.
  - cbn [map digits_run fold_left length]. replace (cnt + Z.of_nat 0) with cnt by lia. reflexivity.
  - inversion R as [|? ? Hd R']; subst. destruct (dchar_props d Hd) as (D1 & D2 & _).
    cbn [map digits_run]. rewrite D1, D2. rewrite IH by exact R'. cbn [fold_left length].
    replace (cnt + 1 + Z.of_nat (length ds)) with (cnt + Z.of_nat (S (length ds))) by lia. reflexivity.
Qed.

Lemma py_int_digits ds : ds <> [] -> in_range 10 ds -> Z.of_nat (length ds) <= 4300 ->
  py_int (map dchar ds) = Ok (undigits 10 ds).
Proof.
  intros NE R L. destruct ds as [|d ds]; [congruence|]. inversion R as [|? ? Hd R']; subst.
  destruct (dchar_props d Hd) as (D1 & D2 & D3 & D4 & D5 & _).
  unfold py_int. cbn [map skip_spaces]. rewrite D3. rewrite D4, D5. rewrite D1.
  change (dchar d :: map dchar ds) with (map dchar (d :: ds)).
  rewrite digits_run_digits by exact R. cbn [bind skip_spaces].
  destruct (Z.gtb_spec (0 + Z.of_nat (length (d :: ds))) 4300); [lia|]. reflexivity.
Qed.

Definition decimal (z : Z) : bytes := map dchar (if z =? 0 then [0] else digits 10 10 z).

Lemma digits_aux_length fuel b n acc : (length (digits_aux fuel b n acc) <= fuel + length acc)%nat.
Proof.
  revert n acc. induction fuel as [|f IH]; intros n acc; cbn [digits_aux]; [lia|].
  destruct (n =? 0); [lia|]. specialize (IH (n / b) (n mod b :: acc)). cbn [length] in IH. lia.
Qed.

Lemma decimal_digits z : 0 <= z < 2 ^ 32 ->
  exists ds, decimal z = map dchar ds /\ ds <> [] /\ in_range 10 ds /\ (length ds <= 10)%nat /\ undigits 10 ds = z.
Proof.
  intros Hz. unfold decimal. destruct (Z.eqb_spec z 0) as [->|NZ].
  - exists [0]. repeat split; try (cbn; lia); try congruence. constructor; [lia|constructor].
  - exists (digits 10 10 z). split; [reflexivity|].
    assert (U : undigits 10 (digits 10 10 z) = z).
    { apply digits_undigits; [lia|]. change (10 ^ Z.of_nat 10) with 10000000000. lia. }
    split; [intros E; rewrite E in U; cbn in U; lia|].
    split; [apply digits_in_range; lia|]. split; [|exact U].
    unfold digits. pose proof (digits_aux_length 10 10 z []) as L. cbn [length] in L. lia.
Qed.

(* canonical text of an index: i, or (i - 2^31)' for hardened indices *)
Definition render (i : Z) : bytes := if i <? 2 ^ 31 then decimal i else decimal (i - 2 ^ 31) ++ [x27].

Lemma ends_with_quote_digits ds : in_range 10 ds -> ends_with_quote (map dchar ds) = false.
Proof.
  intros R. unfold ends_with_quote. rewrite <- map_rev.
  destruct (rev ds) as [|d r] eqn:E; [reflexivity|]. cbn [map].
  assert (Hd : 0 <= d < 10).
  { assert (I : In d (rev ds)) by (rewrite E; now left). apply in_rev in I.
    unfold in_range in R. rewrite Forall_forall in R. now apply R. }
  now destruct (dchar_props d Hd) as (_ & _ & _ & _ & _ & _ & D & _).
Qed.

Lemma parse_component_render i : 0 <= i < 2 ^ 32 -> parse_component (render i) = Ok i.
Proof.
  intros Hi. unfold render, parse_component. destruct (Z.ltb_spec i (2 ^ 31)) as [Hl|Hh].
  - destruct (decimal_digits i Hi) as (ds & -> & NE & R & L & U).
    rewrite ends_with_quote_digits by exact R. rewrite py_int_digits by (auto; lia). now rewrite U.
  - destruct (decimal_digits (i - 2 ^ 31) ltac:(lia)) as (ds & -> & NE & R & L & U).
    unfold ends_with_quote. rewrite rev_app_distr. cbn [rev app]. rewrite byte_eqb_refl.
    unfold droplast. rewrite app_length. cbn [length]. replace (length (map dchar ds) + 1 - 1)%nat with (length (map dchar ds)) by lia.
    rewrite firstn_app, Nat.sub_diag, firstn_all. cbn [firstn]. rewrite app_nil_r.
    rewrite py_int_digits by (auto; lia). cbn [bind]. rewrite U. change HARDENED_OFFSET with (2 ^ 31). f_equal. lia.
Qed.

Lemma no_slash_digits ds : in_range 10 ds -> no_slash (map dchar ds).
Proof.
  intros R I. apply in_map_iff in I as (d & E & Hd).
  unfold in_range in R. rewrite Forall_forall in R. specialize (R d Hd).
  destruct (dchar_props d R) as (_ & _ & _ & _ & _ & _ & _ & D). contradiction.
Qed.

Lemma no_slash_render i : 0 <= i < 2 ^ 32 -> no_slash (render i).
Proof.
  intros Hi. unfold render. destruct (Z.ltb_spec i (2 ^ 31)).
  - destruct (decimal_digits i Hi) as (ds & -> & _ & R & _). now apply no_slash_digits.
  - destruct (decimal_digits (i - 2 ^ 31) ltac:(lia)) as (ds & -> & _ & R & _).
    intros I. apply in_app_or in I as [I|[I|[]]]; [now apply (no_slash_digits ds R)|discriminate].
Qed.

Lemma ptree_render l : Forall (fun i => 0 <= i < 2 ^ 32) l -> ptree (map render l) = Ok l.
Proof.
  intros H. unfold ptree.
  assert (M : mapM parse_component (map render l) = Ok l).
  { induction H as [|i l Hi Hl IH]; [reflexivity|]. cbn [map mapM]. rewrite parse_component_render by exact Hi.
    cbn [bind]. rewrite IH. reflexivity. }
  now rewrite M.
Qed.

Lemma no_slash_renders l : Forall (fun i => 0 <= i < 2 ^ 32) l -> Forall no_slash (map render l).
Proof. intros H. apply Forall_map. eapply Forall_impl; [|exact H]. apply no_slash_render. Qed.

(* the prefixes *)
Definition pfx (pub : bool) : bytes := if pub then path_M else path_m.
Lemma no_slash_pfx pub : no_slash (pfx pub).
Proof. destruct pub; intros [H|[]]; discriminate. Qed.
