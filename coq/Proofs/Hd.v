(* wallet/hd.py derive_child and class HD (Model/Hd.v): what the code does today, and how the body of derive_child
   relates to one step of derive_from_path. *)
From Coq Require Import ZArith List Bool Lia.
Require Import Bits.Lib.Result Bits.Lib.Bytes Bits.Model.Ecmath Bits.Proofs.Ecmath Bits.Proofs.Ecdsa Bits.Proofs.Bip32 Bits.Model.Keys Bits.Model.Base58 Bits.Model.Sec1
  Bits.Proofs.Sec1 Bits.Model.Bip32 Bits.Model.Bip39 Bits.Proofs.Bip32Ser Bits.Proofs.Bip32Text Bits.Proofs.Bip32Path
  Bits.Model.Hd.
Import ListNotations.
Import Coq.Init.Byte.
Local Open Scope Z_scope.

(* ---------- derive_child as it is: refuses every argument ---------- *)
Theorem derive_child_always_refuses is_str xkey i :
  derive_child is_str xkey i = Err (if is_str && bad_text_prefix xkey then ValueE else TypeE).
Proof. unfold derive_child. destruct is_str; [destruct (bad_text_prefix xkey)|]; reflexivity. Qed.

Lemma firstn1_cons (l : bytes) c : firstn 1 l = [c] -> exists r, l = c :: r.
Proof. destruct l as [|d r]; cbn; [discriminate|]. intros H. injection H as ->. now exists r. Qed.

Lemma mainnet_versions v : known_version v = true -> is_testnet_version v = false ->
  (v = VERSION_PRIVATE_MAINNET /\ is_private_version v = true /\ is_public_version v = false) \/
  (v = VERSION_PUBLIC_MAINNET /\ is_private_version v = false /\ is_public_version v = true).
Proof.
  unfold known_version, is_testnet_version, is_private_version, is_public_version.
  destruct (bytes_eqb v VERSION_PRIVATE_MAINNET) eqn:E1.
  { apply bytes_eqb_eq in E1. subst v. intros _ _. left. repeat split; reflexivity. }
  destruct (bytes_eqb v VERSION_PRIVATE_TESTNET) eqn:E2; [cbn; discriminate|].
  destruct (bytes_eqb v VERSION_PUBLIC_MAINNET) eqn:E3.
  { apply bytes_eqb_eq in E3. subst v. intros _ _. right. repeat split; reflexivity. }
  destruct (bytes_eqb v VERSION_PUBLIC_TESTNET) eqn:E4; cbn; discriminate.
Qed.

Section HdProofs.
  Variables p a b n : Z.
  Variable G : point.
  Hypothesis SQ : sqrt_facts p.
  Hypothesis Ha : inF p a = true.
  Hypothesis Hb : inF p b = true.
  Hypothesis Hw : p <= 2 ^ 256.
  Variable hmac : bytes -> bytes -> bytes.
  Variable sha256 ripemd160 : bytes -> bytes.

  Notation deser := (deserialized_extended_key p a b n sha256).
  Notation dstep := (derive_step p a b n G hmac sha256 ripemd160).
  Notation dfp := (derive_from_path p a b n G hmac sha256 ripemd160).
  Notation body := (derive_child_body p a b n G hmac sha256 ripemd160).

  (* a compressed encoding that utils.point accepts is what ser_p gives back *)
  Lemma ser_p_of_point pk x y c0 r : pk = c0 :: r -> byte_eqb c0 x02 || byte_eqb c0 x03 = true ->
    sec1_point p a b pk = Ok (x, y) -> ser_p (Some (x, y)) = Ok pk.
  Proof using SQ Ha Hb Hw.
    intros Epk Hc H. destruct (sec1_reencode p a b SQ Ha Hb Hw pk x y H) as [c E].
    destruct c; [exact E|]. exfalso. unfold pubkey in E.
    destruct (to_be_chk 32 x); cbn [bind] in E; [|discriminate].
    destruct (to_be_chk 32 y); cbn [bind] in E; [|discriminate].
    injection E as E. rewrite Epk in E. injection E as <- _. cbn in Hc. discriminate.
  Qed.

  Ltac step := match goal with |- context [bind ?r _] =>
                 lazymatch r with
                 | bind _ _ => fail
                 | match _ with _ => _ end => fail
                 | _ => let E := fresh "E" in destruct r eqn:E; cbn [bind fst snd]
                 end end.
  Ltac done_err := split; intros Hx; discriminate Hx.

  (* the body of derive_child on a key that deserialises, is a mainnet key and carries the matching text prefix:
     exactly one step of derive_from_path (same value, refusal exactly when that step refuses) *)
  Theorem derive_child_body_is_step xkey i v d fp ch cc key :
    deser xkey = Ok (v, d, fp, ch, cc, key) ->
    is_testnet_version v = false ->
    starts_with txt_xprv xkey = is_private_version v ->
    starts_with txt_xpub xkey = is_public_version v ->
    forall y, body xkey i = Ok y <-> dstep (is_public_version v) false xkey i = Ok y.
  Proof using SQ Ha Hb Hw.
    intros D TN PX PU y.
    unfold derive_step. rewrite D. cbn [bind].
    unfold deserialized_extended_key in D.
    destruct (base58check_decode sha256 xkey) as [decoded|e] eqn:B; cbn [bind] in D; [|discriminate].
    unfold xkey_of_payload in D.
    remember (firstn 4 decoded) as version eqn:EVer.
    remember (skipn 45 decoded) as sk eqn:Esk.
    remember (slice 4 5 decoded) as dp eqn:Edp.
    remember (slice 13 45 decoded) as pcc eqn:Ecc.
    remember (slice 5 9 decoded) as pfp eqn:Efp.
    remember (slice 9 13 decoded) as pch eqn:Ech.
    destruct (negb (Nat.eqb (length decoded) 78)); [discriminate|].
    destruct (known_version version) eqn:KV; cbn [negb] in D; [|discriminate].
    destruct (bytes_eqb dp [x00] && negb (bytes_eqb pfp Bits.Spec.Bip32.zero4)); [discriminate|].
    destruct (bytes_eqb dp [x00] && negb (bytes_eqb pch Bits.Spec.Bip32.zero4)); [discriminate|].
    match type of D with bind ?r _ = _ => destruct r as [key0|e] eqn:K; cbn [bind] in D; [|discriminate] end.
    assert (v = version /\ d = dp /\ cc = pcc /\ key = key0) as (-> & -> & -> & ->) by (repeat split; congruence).
    clear D.
    unfold derive_child_body, bad_text_prefix. rewrite PX, PU, B. cbn [bind].
    rewrite <- EVer, <- Esk, <- Edp, <- Ecc.
    destruct (mainnet_versions version KV TN) as [(EV & Pr & Pu)|(EV & Pr & Pu)]; rewrite Pu in K; rewrite ?Pr, ?Pu; cbn [negb andb].
    - (* private parent *)
      rewrite EV. rewrite bytes_eqb_refl'. cbn [orb negb].
      rewrite <- EV.
      destruct (bytes_eqb (firstn 1 sk) [x02] || bytes_eqb (firstn 1 sk) [x03]);
        [discriminate|].
      destruct (bytes_eqb (firstn 1 sk) [x00]) eqn:P0; cbn [negb] in K; [|discriminate].
      apply bytes_eqb_eq in P0. apply firstn1_cons in P0 as [rest ER]. rewrite ER in *. cbn [skipn] in K.
      destruct (privkey_int n rest) as [k|e] eqn:PK; cbn [bind] in K; [|discriminate].
      injection K as <-.
      assert (Ek : of_be rest = k).
      { unfold privkey_int in PK. destruct (negb (Nat.eqb (length rest) 32)); [discriminate|].
        destruct ((0 <? of_be rest) && (of_be rest <? n)); [|discriminate]. now injection PK. }
      replace (byte_eqb x00 x00) with true by reflexivity. rewrite Ek.
      unfold serialized_extended_key.
      step; [|done_err].
      destruct (ser_256 (fst a0)) as [kb|e] eqn:E1; cbn [bind].
      2:{ step; [|done_err]. step; [|done_err]. step; [|done_err]. step; done_err. }
      step; [|done_err]. step; [|done_err]. cbn [fst snd]. step; [|done_err]. step; [|done_err].
      cbn [fst snd]. rewrite EV. unfold VERSION_PRIVATE_MAINNET. reflexivity.
    - (* public parent *)
      rewrite EV. replace (bytes_eqb VERSION_PUBLIC_MAINNET VERSION_PRIVATE_MAINNET) with false by reflexivity.
      rewrite bytes_eqb_refl'. cbn [orb negb]. rewrite <- EV.
      destruct (bytes_eqb (firstn 1 sk) [x00]) eqn:P0; [discriminate|].
      destruct (bytes_eqb (firstn 1 sk) [x02] || bytes_eqb (firstn 1 sk) [x03]) eqn:P23;
        cbn [negb] in K; [|discriminate].
      destruct (sec1_point p a b sk) as [[x y0]|e] eqn:SP; cbn [bind] in K; [|discriminate].
      injection K as <-.
      assert (exists c0 r, sk = c0 :: r /\ byte_eqb c0 x02 || byte_eqb c0 x03 = true /\ byte_eqb c0 x00 = false)
        as (c0 & r & ER & C23 & C0).
      { apply orb_true_iff in P23. destruct P23 as [P|P]; apply bytes_eqb_eq in P; apply firstn1_cons in P as [r ER];
          eexists _, r; (split; [exact ER|split; reflexivity]). }
      pose proof (ser_p_of_point _ _ _ _ _ ER C23 SP) as SPK.
      rewrite ER. rewrite C0, C23. rewrite <- ER. cbn [bind].
      step; [|done_err].
      rewrite SPK. cbn [bind].
      unfold serialized_extended_key.
      destruct (fst a0) as [[x1 y1]|] eqn:EK; cbn [ser_p bind].
      2:{ split; [discriminate|]. repeat step; cbn [bind]; discriminate. }
      destruct (pubkey_compressed x1 y1) as [kd|e] eqn:E1; cbn [bind].
      2:{ step; [|done_err]. step; done_err. }
      step; [|done_err]. step; [|done_err].
      cbn [fst snd]. rewrite EV. unfold VERSION_PUBLIC_MAINNET. reflexivity.
  Qed.
End HdProofs.

(* ---------- the body of derive_child as a one-component path ---------- *)
Lemma deser_known_version p a b n sha256 x v d fp ch cc key :
  deserialized_extended_key p a b n sha256 x = Ok (v, d, fp, ch, cc, key) -> known_version v = true.
Proof.
  unfold deserialized_extended_key. destruct (base58check_decode sha256 x) as [decoded|e]; cbn [bind]; [|discriminate].
  unfold xkey_of_payload. remember (firstn 4 decoded) as version eqn:EV.
  destruct (negb (Nat.eqb (length decoded) 78)); [discriminate|].
  destruct (known_version version) eqn:KV; cbn [negb]; [|discriminate].
  destruct (_ && _); [discriminate|]. destruct (_ && _); [discriminate|].
  match goal with |- bind ?r _ = _ -> _ => destruct r; cbn [bind]; [|discriminate] end.
  intros H. assert (v = version) by congruence. now subst v.
Qed.

Section HdPath.
  Variables p a b n : Z.
  Variable G : point.
  Hypothesis SQ : sqrt_facts p.
  Hypothesis Ha : inF p a = true.
  Hypothesis Hb : inF p b = true.
  Hypothesis Hw : p <= 2 ^ 256.
  Variable hmac : bytes -> bytes -> bytes.
  Variable sha256 ripemd160 : bytes -> bytes.

  (* derive_child(xkey, i) [body] = derive_from_path("m/<i>" or "M/<i>", xkey), i written as derive_from_path reads it
     (render: decimal, with ' for i >= 2^31) *)
  Theorem derive_child_body_is_path xkey i v d fp ch cc key :
    deserialized_extended_key p a b n sha256 xkey = Ok (v, d, fp, ch, cc, key) ->
    is_testnet_version v = false ->
    starts_with txt_xprv xkey = is_private_version v ->
    starts_with txt_xpub xkey = is_public_version v ->
    0 <= i < 2 ^ 32 ->
    forall y, derive_child_body p a b n G hmac sha256 ripemd160 xkey i = Ok y
              <-> derive_from_path p a b n G hmac sha256 ripemd160 (join (pfx (is_public_version v)) [render i]) xkey = Ok y.
  Proof using SQ Ha Hb Hw.
    intros D TN PX PU Hi y.
    rewrite (derive_child_body_is_step p a b n G SQ Ha Hb Hw hmac sha256 ripemd160 xkey i v d fp ch cc key D TN PX PU y).
    rewrite dfp_join by (constructor; [now apply no_slash_render|constructor]).
    rewrite D. cbn [bind version_of].
    pose proof (deser_known_version _ _ _ _ _ _ _ _ _ _ _ _ D) as KV.
    assert (KO : kind_ok (is_public_version v) v = true).
    { destruct (mainnet_versions v KV TN) as [(_ & Pr & Pu)|(_ & Pr & Pu)]; rewrite Pu; cbn [kind_ok]; assumption. }
    rewrite KO, TN.
    change [render i] with (map render [i]). rewrite ptree_render by (constructor; [exact Hi|constructor]).
    cbn [bind derive_steps].
    destruct (derive_step p a b n G hmac sha256 ripemd160 (is_public_version v) false xkey i); cbn [bind]; tauto.
  Qed.
End HdPath.

(* ---------- class HD ---------- *)
Section HdClass.
  Variables p a b n : Z.
  Variable G : point.
  Hypothesis CF : curve_facts p a b n G.
  Hypothesis SQ : sqrt_facts p.
  Hypothesis Hwp : p <= 2 ^ 256.
  Hypothesis Hwn : n <= 2 ^ 256.
  (* to_master_key compares with the literal secp256k1 order *)
  Hypothesis Hn : Bits.Spec.Secp256k1.n <= n.
  Variable hmac : bytes -> bytes -> bytes.
  Hypothesis hmac_len : forall k m, length (hmac k m) = 64%nat.
  Variable sha256 ripemd160 : bytes -> bytes.
  Hypothesis sha256_len : forall m, length (sha256 m) = 32%nat.
  Variable pbkdf2 : bytes -> bytes -> Z -> Z -> bytes.
  Variable nfkd : bytes -> bytes.

  Notation kG := (fun k => smul p a k G).
  Notation Enc := (enc sha256).
  Definition root_of (k : Z) (c : bytes) : S.xkey :=
    {| S.xk_testnet := false; S.xk_depth := 0; S.xk_fp := Bits.Spec.Bip32.zero4; S.xk_child := 0; S.xk_cc := c;
       S.xk_key := S.Prv k |}.

  Lemma root_wf k c : 1 <= k < n -> length c = 32%nat -> S.wf p a b n (root_of k c).
  Proof. intros Hk Lc. unfold S.wf, root_of. cbn. repeat split; try lia; try reflexivity; exact Lc. Qed.

  (* get_root_keys = the BIP's serialisation of the master key (mainnet) and of its neutered key *)
  Theorem get_root_keys_spec k c : 1 <= k < n -> length c = 32%nat ->
    get_root_keys p a G sha256 k c = Ok (Enc (root_of k c), Enc (S.neuter_xkey kG (root_of k c))) /\
    get_xpub p a b n G sha256 (Enc (root_of k c)) = Ok (Enc (S.neuter_xkey kG (root_of k c))).
  Proof.
    intros Hk Lc. pose proof (root_wf k c Hk Lc) as W.
    destruct (get_xpub_spec p a b n G CF SQ Hwp Hwn sha256 sha256_len (root_of k c) W) as [GX W'].
    split; [|exact GX].
    unfold get_root_keys, root_serialized_extended_key.
    pose proof (ser_enc p a b n SQ (cf_a _ _ _ _ _ CF) (cf_b _ _ _ _ _ CF) Hwp Hwn
                  sha256 sha256_len (root_of k c) W (AsBytes [x00]) (AsBytes Bits.Spec.Bip32.zero4)
                  (or_introl eq_refl) (or_introl eq_refl)) as E1.
    cbn [root_of S.xk_key S.xk_cc S.xk_fp S.xk_testnet key_of] in E1. rewrite E1. cbn [bind].
    rewrite (Bits.Proofs.Bip32.point_ok p a b n G CF) by lia. cbn [bind].
    pose proof (ser_enc p a b n SQ (cf_a _ _ _ _ _ CF) (cf_b _ _ _ _ _ CF) Hwp Hwn
                  sha256 sha256_len _ W' (AsBytes [x00]) (AsBytes Bits.Spec.Bip32.zero4)
                  (or_introl eq_refl) (or_introl eq_refl)) as E2.
    cbn [root_of S.neuter_xkey S.xk_key S.xk_cc S.xk_fp S.xk_testnet S.xk_depth S.xk_child key_of S.pub_of] in E2.
    rewrite E2. reflexivity.
  Qed.

  (* HD(...) / HD.from_mnemonic: the seed is to_seed(mnemonic, passphrase), the root keys are the serialised master key
     of that seed and its neutered key, and get_xpub(root_xprv) = root_xpub *)
  Theorem hd_init_spec cls pass fresh xprv xpub st seed mn :
    hd_init p a G hmac sha256 pbkdf2 nfkd cls pass fresh = Ok (xprv, xpub, st, seed, mn) ->
    mn = (match cls with [] => fresh | _ :: _ => cls end) /\
    seed = to_seed pbkdf2 nfkd mn pass /\ st = 8 * str_len mn /\
    exists k c, to_master_key hmac seed = Ok (k, c) /\
      xprv = Enc (root_of k c) /\ xpub = Enc (S.neuter_xkey kG (root_of k c)) /\
      get_xpub p a b n G sha256 xprv = Ok xpub.
  Proof.
    unfold hd_init. set (m := match cls with [] => fresh | _ :: _ => cls end).
    intros H. destruct (to_master_key hmac (to_seed pbkdf2 nfkd m pass)) as [[k c]|e] eqn:MK; cbn [bind fst snd] in H;
      [|discriminate].
    assert (R : 1 <= k < n /\ length c = 32%nat).
    { unfold to_master_key in MK.
      remember (hmac Bits.Spec.Bip32.bitcoin_seed (to_seed pbkdf2 nfkd m pass)) as I eqn:EI.
      remember (of_be (firstn 32 I)) as k0 eqn:Ek0.
      remember (skipn 32 I) as c0 eqn:Ec0.
      destruct (Z.eqb_spec k0 0); [discriminate|].
      destruct (Z.ltb_spec k0 Bits.Spec.Secp256k1.n); cbn [negb] in MK; [|discriminate].
      assert (k = k0 /\ c = c0) as [-> ->] by (split; congruence).
      split.
      - pose proof (of_be_nonneg (firstn 32 I)). lia.
      - rewrite Ec0, skipn_length, EI, hmac_len. reflexivity. }
    destruct R as [Rk Lc]. destruct (get_root_keys_spec k c Rk Lc) as [RK GX].
    rewrite RK in H. cbn [bind fst snd] in H. injection H as <- <- <- <- <-.
    split; [reflexivity|]. split; [reflexivity|]. split; [lia|]. exists k, c.
    split; [exact MK|]. split; [reflexivity|]. split; [reflexivity|]. exact GX.
  Qed.

  (* the class attribute: after from_mnemonic(m1, ...) with a non-empty m1, HD(passphrase=p2) never draws entropy:
     it is the wallet of m1 again *)
  Theorem from_mnemonic_sticks m1 p1 f1 p2 f2 r : m1 <> [] ->
    from_mnemonic_then_new p a G hmac sha256 pbkdf2 nfkd m1 p1 f1 p2 f2 = Ok r ->
    hd_init p a G hmac sha256 pbkdf2 nfkd m1 p2 f2 = Ok r /\
    fst (from_mnemonic p a G hmac sha256 pbkdf2 nfkd m1 p2 f1) = Ok r.
  Proof.
    intros Hne. destruct m1 as [|c0 m1]; [congruence|].
    unfold from_mnemonic_then_new, from_mnemonic. cbn [fst].
    intros H. destruct (hd_init p a G hmac sha256 pbkdf2 nfkd (c0 :: m1) p1 f1); cbn [bind] in H; [|discriminate].
    split; [exact H|]. rewrite <- H. reflexivity.
  Qed.

  Theorem get_xkeys_from_path_always_refuses k c path : get_xkeys_from_path k c path = Err AttributeE.
  Proof. reflexivity. Qed.
  Theorem from_xkey_refuses x : from_xkey x = Err OtherE.
  Proof. reflexivity. Qed.
End HdClass.
