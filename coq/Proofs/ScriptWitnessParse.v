(* decode_script(witness=True, parse=True): the raw stack it returns is the CompactSize serialisation of the parsed
   items, the rest of the stream is returned untouched, and it accepts / refuses / splits exactly like the
   item-decoding mode (Model/Witness.v: witness_deser). *)
From Coq Require Import ZArith List Lia Bool.
Require Import Bits.Lib.Result Bits.Lib.Bytes Bits.Lib.CompactSize.
Require Import Bits.Model.CompactSize Bits.Model.Witness Bits.Model.ScriptWitnessParse.
Require Import Bits.Proofs.CompactSize Bits.Proofs.Witness.
Import ListNotations.
Local Open Scope Z_scope.

Lemma witness_parse_loop_step f n parsed bs : bs <> [] ->
  witness_parse_loop (S f) n parsed bs =
  bind (parse_compact_size_uint bs) (fun x => let '(push, item_bytes) := x in
    let parsed' := parsed ++ takeZ (Z.of_nat (length bs) - Z.of_nat (length item_bytes) + push) bs in
    if n - 1 =? 0 then Ok (parsed', dropZ push item_bytes)
    else witness_parse_loop f (n - 1) parsed' (dropZ push item_bytes)).
Proof. destruct bs; [congruence|reflexivity]. Qed.

Lemma cs_enc_nonnil n : cs_enc n <> [].
Proof. apply cs_enc_nonempty. Qed.

Lemma witness_parse_loop_roundtrip items : items <> [] ->
  forall body parsed fuel rest, witness_items_ser items = Ok body -> (length items <= fuel)%nat ->
  witness_parse_loop fuel (Z.of_nat (length items)) parsed (body ++ rest) = Ok (parsed ++ body, rest).
Proof.
  induction items as [|d ds IH]; [congruence|]. intros _ body parsed fuel rest H Hf.
  apply witness_items_ser_cons in H as (b & Hb & R & ->).
  destruct fuel as [|f]; [cbn [length] in Hf; lia|].
  set (p := cs_enc (Z.of_nat (length d))).
  rewrite witness_parse_loop_step.
  2:{ intro E. apply (f_equal (@length _)) in E. rewrite !app_length in E. cbn [length] in E.
      assert (length p <> 0)%nat by (intro Z0; apply length_zero_iff_nil in Z0; now apply cs_enc_nonnil in Z0). lia. }
  rewrite <- !app_assoc. fold p. unfold p at 1. rewrite parse_cs_enc by lia. cbn [bind].
  replace (Z.of_nat (length (p ++ d ++ b ++ rest)) - Z.of_nat (length (d ++ b ++ rest)) + Z.of_nat (length d))
    with (Z.of_nat (length (p ++ d))) by (rewrite !app_length; lia).
  rewrite (app_assoc p d (b ++ rest)), takeZ_app, dropZ_app.
  replace (Z.of_nat (length (d :: ds)) - 1) with (Z.of_nat (length ds)) by (cbn [length]; lia).
  destruct ds as [|d' ds'].
  - cbn [length Z.of_nat Z.eqb]. cbn [witness_items_ser] in Hb. injection Hb as <-.
    cbn [app]. now rewrite !app_nil_r.
  - destruct (Z.eqb_spec (Z.of_nat (length (d' :: ds'))) 0) as [E|E]; [cbn [length] in E; lia|].
    rewrite IH; [|discriminate|exact Hb|cbn [length] in *; lia].
    now rewrite <- !app_assoc.
Qed.

(* C13 (parse=True): for every stack the encoder accepts and every trailing byte string, the parser returns exactly
   the stack's serialisation and the untouched rest *)
Theorem witness_parse_roundtrip items ser : witness_ser items = Ok ser ->
  forall rest, witness_parse (ser ++ rest) = Ok (ser, rest).
Proof.
  intros H rest. apply witness_ser_inv in H as (body & Hb & R & ->).
  unfold witness_parse. rewrite <- app_assoc, parse_cs_enc by lia. cbn [bind].
  rewrite compact_size_uint_spec by lia. cbn [bind].
  destruct items as [|d ds].
  - cbn [witness_items_ser] in Hb. injection Hb as <-. cbn [length Z.of_nat Z.eqb app]. now rewrite app_nil_r.
  - destruct (Z.eqb_spec (Z.of_nat (length (d :: ds))) 0) as [E|E]; [cbn [length] in E; lia|].
    rewrite (witness_parse_loop_roundtrip (d :: ds)); [reflexivity|discriminate|exact Hb|].
    apply witness_items_ser_length in Hb as (L & _). rewrite app_length. lia.
Qed.

(* both modes run the same loop: same refusals, same remaining bytes *)
Definition same_outcome {A B} (a : result (A * bytes)) (b : result (B * bytes)) : Prop :=
  match a, b with
  | Ok (_, r1), Ok (_, r2) => r1 = r2
  | Err e1, Err e2 => e1 = e2
  | _, _ => False
  end.

Lemma witness_loops_agree fuel : forall n acc parsed bs,
  same_outcome (witness_parse_loop fuel n parsed bs) (witness_loop fuel n acc bs).
Proof.
  induction fuel as [|f IH]; intros n acc parsed bs.
  - destruct bs; reflexivity.
  - destruct bs as [|b tl]; [reflexivity|].
    rewrite witness_parse_loop_step, witness_loop_step by discriminate.
    destruct (parse_compact_size_uint (b :: tl)) as [[push ib]|e]; [|reflexivity].
    cbn [bind]. destruct (n - 1 =? 0); [reflexivity|]. apply IH.
Qed.

Theorem witness_parse_agrees_with_deser bs : same_outcome (witness_parse bs) (witness_deser bs).
Proof.
  unfold witness_parse, witness_deser.
  destruct (parse_compact_size_uint bs) as [[n b1]|e]; [|reflexivity]. cbn [bind].
  destruct (compact_size_uint n) as [c|e]; [|reflexivity]. cbn [bind].
  destruct (n =? 0); [reflexivity|]. apply witness_loops_agree.
Qed.

Theorem witness_parse_no_fuel bs : witness_parse bs <> Err FuelE.
Proof.
  pose proof (witness_parse_agrees_with_deser bs) as A. pose proof (witness_deser_no_fuel bs) as N.
  unfold same_outcome in A. intro E. rewrite E in A.
  destruct (witness_deser bs) as [[w r]|e]; [exact A|]. subst e. now apply N.
Qed.
