(* PEM armor: decode_base64_pem (encode_pem der header footer) = der for the two labels the library writes.
   base64 is an oracle: the two hypotheses about it are stated in Section Armor. *)
From Coq Require Import ZArith List Bool Lia.
Require Import Bits.Lib.Result Bits.Lib.Bytes Bits.Model.Pem.
Import ListNotations.
Import Coq.Init.Byte.
Local Open Scope nat_scope.

(* ---------- strip ---------- *)
Lemma lstrip_ws_app_ws ws l : forallb is_ws ws = true -> lstrip_ws (ws ++ l) = lstrip_ws l.
Proof.
  induction ws as [|c ws IH]; [reflexivity|]. cbn [forallb app lstrip_ws]. intros H.
  apply andb_true_iff in H as [Hc Hws]. rewrite Hc. auto.
Qed.

Lemma lstrip_ws_nonws c l : is_ws c = false -> lstrip_ws (c :: l) = c :: l.
Proof. intros H. cbn [lstrip_ws]. now rewrite H. Qed.

(* core starts and ends with a non-whitespace byte *)
Lemma strip_core ws1 c m d ws2 :
  forallb is_ws ws1 = true -> forallb is_ws ws2 = true -> is_ws c = false -> is_ws d = false ->
  strip (ws1 ++ (c :: m ++ [d]) ++ ws2) = c :: m ++ [d].
Proof.
  intros W1 W2 Hc Hd. unfold strip. rewrite lstrip_ws_app_ws by exact W1.
  cbn [app]. rewrite lstrip_ws_nonws by exact Hc.
  replace (rev (c :: (m ++ [d]) ++ ws2)) with (rev ws2 ++ d :: rev (c :: m)).
  2:{ cbn [rev]. rewrite !rev_app_distr. cbn [rev app]. rewrite <- !app_assoc. reflexivity. }
  rewrite lstrip_ws_app_ws by (rewrite forallb_forall in *; intros x Hx; apply W2; now apply in_rev).
  rewrite lstrip_ws_nonws by exact Hd. cbn [rev]. rewrite rev_app_distr, rev_involutive. reflexivity.
Qed.

Lemma strip_lead_ws c l : is_ws c = true -> strip (c :: l) = strip l.
Proof. intros H. unfold strip. cbn [lstrip_ws]. now rewrite H. Qed.

(* ---------- the matcher ---------- *)
Lemma starts_with_app pre rest : starts_with pre (pre ++ rest) = true.
Proof.
  induction pre as [|c pre IH]; [reflexivity|]. cbn [app starts_with].
  rewrite IH, andb_true_r. now apply byte_eqb_eq.
Qed.

Fixpoint mismatch (pre t : bytes) : bool :=
  match pre, t with
  | c :: pre', d :: t' => negb (byte_eqb c d) || mismatch pre' t'
  | _, _ => false
  end.

Lemma mismatch_no_start pre t X : mismatch pre t = true -> starts_with pre (t ++ X) = false.
Proof.
  revert t. induction pre as [|c pre IH]; intros [|d t]; cbn [mismatch app starts_with]; try discriminate.
  destruct (byte_eqb c d); cbn [negb orb andb]; auto.
Qed.

Definition no_nl (l : bytes) : bool := forallb (fun c => negb (byte_eqb c nl)) l.

Lemma take_line_app l tail : no_nl l = true -> (tail = [] \/ exists r, tail = nl :: r) -> take_line (l ++ tail) = l.
Proof.
  intros H T. induction l as [|c l IH].
  - destruct T as [-> | (r & ->)]; [reflexivity|]. cbn [app take_line].
    replace (byte_eqb nl nl) with true by (symmetry; now apply byte_eqb_eq). reflexivity.
  - cbn [no_nl forallb] in H. apply andb_true_iff in H as [Hc Hl]. cbn [app take_line].
    apply negb_true_iff in Hc. rewrite Hc. f_equal. apply IH, Hl.
Qed.

(* pre ".+-----" anchored on a string whose first line is  pre ++ line *)
Lemma match_here_line pre line tail e :
  no_nl line = true -> (tail = [] \/ exists r, tail = nl :: r) ->
  last_dashes line 0 None = Some e ->
  match_here pre (pre ++ line ++ tail) = Some (length pre + e).
Proof.
  intros Hn T E. unfold match_here. rewrite starts_with_app.
  rewrite skipn_app, Nat.sub_diag, skipn_all. cbn [app skipn].
  rewrite take_line_app by assumption. now rewrite E.
Qed.

Lemma re_search_here pre s i len : match_here pre s = Some len -> re_search pre s i = Some (i, i + len).
Proof. intros H. destruct s; cbn [re_search]; rewrite H; reflexivity. Qed.

Lemma re_search_skip pre l1 l2 i :
  (forall k, k < length l1 -> mismatch pre (skipn k l1) = true) ->
  re_search pre (l1 ++ l2) i = re_search pre l2 (i + length l1).
Proof.
  revert i. induction l1 as [|c l1 IH]; intros i H.
  - cbn [app length]. now rewrite Nat.add_0_r.
  - cbn [app re_search]. unfold match_here.
    pose proof (H 0 ltac:(cbn; lia)) as H0. cbn [skipn] in H0.
    change (c :: l1 ++ l2) with ((c :: l1) ++ l2). rewrite (mismatch_no_start _ _ _ H0).
    cbn [app]. rewrite IH.
    + cbn [length]. f_equal. lia.
    + intros k Hk. apply (H (S k)). cbn [length]. lia.
Qed.

Lemma mismatch_head c pre d t : c <> d -> mismatch (c :: pre) (d :: t) = true.
Proof.
  intros N. cbn [mismatch]. destruct (byte_eqb c d) eqn:E; [apply byte_eqb_eq in E; contradiction|reflexivity].
Qed.

Lemma mismatch_clean pre0 pre l : (forall c, In c l -> c <> pre0) ->
  forall k, k < length l -> mismatch (pre0 :: pre) (skipn k l) = true.
Proof.
  intros Hc k Hk. destruct (skipn k l) as [|d t] eqn:E.
  - apply (f_equal (@length _)) in E. rewrite skipn_length in E. cbn in E. lia.
  - apply mismatch_head. intros E'. apply (Hc d); [|now symmetry].
    rewrite <- (firstn_skipn k l), E. apply in_or_app. right. now left.
Qed.

(* ---------- armor round trip ---------- *)
Definition hdr_ok (label : bytes) : bool :=
  no_nl (label ++ dashes) &&
  match last_dashes (label ++ dashes) 0 None with
  | Some e => Nat.eqb e (length (label ++ dashes)) | None => false end &&
  (* no "-----END " can start inside the header line (including its newline) *)
  forallb (fun k => mismatch end_pre (skipn k (pem_header label ++ [nl]))) (seq 0 (length (pem_header label ++ [nl]))).

Lemma hdr_ok_priv : hdr_ok label_priv = true. Proof. vm_compute. reflexivity. Qed.
Lemma hdr_ok_pub : hdr_ok label_pub = true. Proof. vm_compute. reflexivity. Qed.

Section Armor.
  Variable b64enc : bytes -> bytes.
  Variable b64dec : bytes -> option bytes.
  (* base64.decodebytes (base64.encodebytes x) = x  (trailing newline of the last line stripped by the caller) *)
  Hypothesis b64_roundtrip : forall x, b64dec (strip (encodebytes b64enc x)) = Some x.
  (* the base64 alphabet does not contain "-" *)
  Hypothesis b64_clean : forall x c, In c (b64enc x) -> c <> x2d.

  Lemma encodebytes_clean x c : In c (encodebytes b64enc x) -> c <> x2d.
  Proof using b64_clean.
    unfold encodebytes. generalize (length x) as fuel. intros fuel. revert x.
    induction fuel as [|f IH]; intros x; cbn [encodebytes_aux]; [contradiction|].
    destruct x as [|x0 xs]; [contradiction|].
    intros H. apply in_app_or in H as [H|H]; [eapply b64_clean; eauto|].
    cbn [app] in H. destruct H as [<-|H]; [discriminate|]. eapply IH; eauto.
  Qed.

  Theorem armor_roundtrip label der :
    hdr_ok label = true ->
    decode_base64_pem b64dec (encode_pem b64enc der (pem_header label) (pem_footer label)) = Ok der.
  Proof using b64_roundtrip b64_clean.
    intros HK. unfold hdr_ok in HK. apply andb_true_iff in HK as [HK K3]. apply andb_true_iff in HK as [K1 K2].
    destruct (last_dashes (label ++ dashes) 0 None) as [e|] eqn:EL; [|discriminate].
    apply Nat.eqb_eq in K2. subst e.
    set (B := encodebytes b64enc der).
    set (H := pem_header label). set (F := pem_footer label).
    unfold decode_base64_pem, encode_pem. fold B.
    (* 1. strip *)
    assert (S : strip (H ++ [nl] ++ B ++ F ++ [nl]) = H ++ [nl] ++ B ++ F).
    { set (m := [x2d; x2d; x2d; x2d; x42; x45; x47; x49; x4e; x20] ++ label ++ dashes ++ [nl] ++ B ++
                end_pre ++ label ++ [x2d; x2d; x2d; x2d]).
      assert (E2 : H ++ [nl] ++ B ++ F = x2d :: m ++ [x2d]).
      { unfold m, H, F, pem_header, pem_footer, begin_pre, end_pre, dashes.
        repeat rewrite <- app_assoc. cbn [app]. reflexivity. }
      replace (H ++ [nl] ++ B ++ F ++ [nl]) with ([] ++ (x2d :: m ++ [x2d]) ++ [nl]).
      2:{ rewrite <- E2. rewrite app_nil_l. repeat rewrite <- app_assoc. reflexivity. }
      rewrite strip_core by reflexivity. now rewrite E2. }
    rewrite S. clear S.
    (* 2. header *)
    assert (S1 : re_search begin_pre (H ++ [nl] ++ B ++ F) 0 = Some (0, length H)).
    { replace (H ++ [nl] ++ B ++ F) with (begin_pre ++ (label ++ dashes) ++ [nl] ++ B ++ F)
        by (unfold H, pem_header; repeat rewrite <- app_assoc; reflexivity).
      rewrite (re_search_here _ _ 0 _
        (match_here_line begin_pre (label ++ dashes) ([nl] ++ B ++ F) _ K1 (or_intror (ex_intro _ _ eq_refl)) EL)).
      unfold H, pem_header. rewrite !app_length. reflexivity. }
    rewrite S1. clear S1.
    (* 3. footer *)
    assert (S2 : re_search end_pre (H ++ [nl] ++ B ++ F) 0 = Some (length (H ++ [nl] ++ B), length (H ++ [nl] ++ B ++ F))).
    { rewrite (app_assoc H [nl]).
      rewrite re_search_skip.
      2:{ intros k Hk. rewrite forallb_forall in K3. apply K3. apply in_seq. fold H. lia. }
      rewrite re_search_skip.
      2:{ apply mismatch_clean. intros c Hc. now apply encodebytes_clean in Hc. }
      pose proof (match_here_line end_pre (label ++ dashes) [] _ K1 (or_introl eq_refl) EL) as M.
      rewrite app_nil_r in M.
      replace F with (end_pre ++ label ++ dashes) by (unfold F, pem_footer; reflexivity).
      rewrite (re_search_here _ _ _ _ M).
      f_equal. f_equal; rewrite ?app_length; cbn [length]; lia. }
    rewrite S2. clear S2.
    rewrite Nat.eqb_refl.
    (* 4. body *)
    assert (S3 : slice (length H) (length (H ++ [nl] ++ B)) (H ++ [nl] ++ B ++ F) = [nl] ++ B).
    { unfold slice. rewrite skipn_app, Nat.sub_diag, skipn_all. cbn [skipn app].
      replace (length (H ++ nl :: B) - length H) with (length (nl :: B)) by (rewrite app_length; lia).
      change (nl :: B ++ F) with ((nl :: B) ++ F).
      rewrite firstn_app, Nat.sub_diag, firstn_all. cbn [firstn]. now rewrite app_nil_r. }
    rewrite S3. cbn [app]. rewrite strip_lead_ws by reflexivity.
    unfold B. rewrite b64_roundtrip. reflexivity.
  Qed.
End Armor.
