(* Pure (exception-free) versions of the ecmath formulas, their agreement with the checked model on
   valid inputs, the explicit hypothesis record [curve_facts], and the scalar-multiplication theorems. *)
From Coq Require Import ZArith List Bool Lia Zpow_facts.
Require Import Bits.Lib.Result Bits.Lib.Group Bits.Model.Ecmath.
Import ListNotations.
Local Open Scope Z_scope.

Section Pure.
  Variables p a b : Z.

  Definition fadd x y := (x + y) mod p.
  Definition fsub x y := (x - y) mod p.
  Definition fmul x y := (x * y) mod p.
  Definition fpow x e := Zpow_mod x e p.
  Definition fdiv x y := fmul x (fpow y (p - 2)).

  Definition rhs (x : Z) : Z := fadd (fadd (fpow x 3) (fmul x a)) b.

  Definition oncurve (P : point) : Prop :=
    match P with
    | None => True
    | Some (x, y) => inF p x = true /\ inF p y = true /\ fpow y 2 = rhs x
    end.

  Definition pneg (P : point) : point :=
    match P with None => None | Some (x, y) => Some (x, fsub 0 y) end.

  Definition padd (P1 P2 : point) : point :=
    match P1, P2 with
    | None, _ => P2
    | _, None => P1
    | Some (x1, y1), Some (x2, y2) =>
      if point_eqb P1 P2 then
        let s := fdiv (fadd (fmul 3 (fpow x1 2)) a) (fmul 2 y1) in
        let xr := fsub (fpow s 2) (fmul 2 x1) in
        let yr := fsub (fadd (fmul (fsub 0 s) xr) (fmul s x1)) y1 in
        Some (xr, yr)
      else if point_eqb P1 (pneg P2) then None
      else
        let s := fdiv (fsub y2 y1) (fsub x2 x1) in
        let xr := fsub (fsub (fpow s 2) x1) x2 in
        let yr := fsub (fadd (fmul (fsub 0 s) xr) (fmul s x1)) y1 in
        Some (xr, yr)
    end.

  Hypothesis Hp : 3 < p.
  Hypothesis Ha : inF p a = true.
  Hypothesis Hb : inF p b = true.

  Lemma inF_mod z : inF p (z mod p) = true.
  Proof. unfold inF. pose proof (Z.mod_pos_bound z p ltac:(lia)). apply andb_true_iff. split; [apply Z.leb_le|apply Z.ltb_lt]; lia. Qed.
  Lemma inF_fadd x y : inF p (fadd x y) = true. Proof. apply inF_mod. Qed.
  Lemma inF_fsub x y : inF p (fsub x y) = true. Proof. apply inF_mod. Qed.
  Lemma inF_fmul x y : inF p (fmul x y) = true. Proof. apply inF_mod. Qed.
  Lemma inF_fpow x e : inF p (fpow x e) = true.
  Proof. unfold fpow. rewrite Zpow_mod_correct by lia. apply inF_mod. Qed.
  Lemma inF_fdiv x y : inF p (fdiv x y) = true. Proof. apply inF_mod. Qed.
  Lemma inF_0 : inF p 0 = true. Proof. unfold inF. apply andb_true_iff. split; [apply Z.leb_le|apply Z.ltb_lt]; lia. Qed.
  Lemma inF_2 : inF p 2 = true. Proof. unfold inF. apply andb_true_iff. split; [apply Z.leb_le|apply Z.ltb_lt]; lia. Qed.
  Lemma inF_3 : inF p 3 = true. Proof. unfold inF. apply andb_true_iff. split; [apply Z.leb_le|apply Z.ltb_lt]; lia. Qed.
  Lemma inF_iff x : inF p x = true <-> 0 <= x < p.
  Proof. unfold inF. rewrite andb_true_iff, Z.leb_le, Z.ltb_lt. tauto. Qed.

  Lemma add_ok x y : inF p x = true -> inF p y = true -> add_mod_p p x y = Ok (fadd x y).
  Proof. intros H1 H2. unfold add_mod_p. now rewrite H1, H2. Qed.
  Lemma sub_ok x y : inF p x = true -> inF p y = true -> sub_mod_p p x y = Ok (fsub x y).
  Proof. intros H1 H2. unfold sub_mod_p. now rewrite H1, H2. Qed.
  Lemma mul_ok x y : inF p x = true -> inF p y = true -> mul_mod_p p x y = Ok (fmul x y).
  Proof. intros H1 H2. unfold mul_mod_p. now rewrite H1, H2. Qed.
  Lemma pow_ok x e : inF p x = true -> 0 <= e -> pow_mod_p p x e = Ok (fpow x e).
  Proof. intros H1 H2. unfold pow_mod_p. rewrite H1. simpl. destruct (Z.ltb_spec e 0); [lia|reflexivity]. Qed.
  Lemma div_ok x y : inF p x = true -> inF p y = true -> div_mod_p p x y = Ok (fdiv x y).
  Proof.
    intros H1 H2. unfold div_mod_p. rewrite H1, H2. simpl.
    rewrite pow_ok by (auto; lia). simpl. rewrite mul_ok by (auto using inF_fpow). reflexivity.
  Qed.

  Hint Resolve inF_fadd inF_fsub inF_fmul inF_fpow inF_fdiv inF_0 inF_2 inF_3 : inf.

  Lemma curve_rhs_ok x : inF p x = true -> curve_rhs p a b x = Ok (rhs x).
  Proof.
    intros Hx. unfold curve_rhs, rhs.
    rewrite pow_ok by (auto; lia). cbn [bind].
    rewrite mul_ok by auto. cbn [bind].
    rewrite add_ok by auto with inf. cbn [bind].
    rewrite add_ok by auto with inf. reflexivity.
  Qed.

  Lemma on_curve_ok x y : inF p x = true -> inF p y = true ->
    point_is_on_curve p a b x y = Ok (fpow y 2 =? rhs x).
  Proof.
    intros Hx Hy. unfold point_is_on_curve. rewrite pow_ok by (auto; lia). cbn [bind].
    rewrite curve_rhs_ok by auto. reflexivity.
  Qed.

  Lemma negate_ok P : P <> None -> oncurve P -> point_negate p P = Ok (pneg P).
  Proof.
    destruct P as [[x y]|]; [|congruence]. intros _ (Hx & Hy & _). simpl.
    rewrite sub_ok by auto with inf. reflexivity.
  Qed.

  Lemma point_add_ok P Q : oncurve P -> oncurve Q -> point_add p a P Q = Ok (padd P Q).
  Proof.
    destruct P as [[x1 y1]|], Q as [[x2 y2]|]; try reflexivity.
    intros (Hx1 & Hy1 & _) (Hx2 & Hy2 & _).
    unfold point_add, padd. destruct (point_eqb (Some (x1, y1)) (Some (x2, y2))).
    - rewrite pow_ok by (auto; lia). cbn [bind].
      rewrite mul_ok by auto with inf. cbn [bind].
      rewrite add_ok by auto with inf. cbn [bind].
      rewrite mul_ok by auto with inf. cbn [bind].
      rewrite div_ok by auto with inf. cbn [bind].
      rewrite pow_ok by (auto with inf; lia). cbn [bind].
      rewrite mul_ok by auto with inf. cbn [bind].
      rewrite sub_ok by auto with inf. cbn [bind].
      rewrite sub_ok by auto with inf. cbn [bind].
      rewrite mul_ok by auto with inf. cbn [bind].
      rewrite mul_ok by auto with inf. cbn [bind].
      rewrite add_ok by auto with inf. cbn [bind].
      rewrite sub_ok by auto with inf. reflexivity.
    - cbn [point_negate]. rewrite sub_ok by auto with inf. cbn [bind pneg].
      destruct (point_eqb (Some (x1, y1)) (Some (x2, fsub 0 y2))); [reflexivity|].
      rewrite sub_ok by auto. cbn [bind].
      rewrite sub_ok by auto. cbn [bind].
      rewrite div_ok by auto with inf. cbn [bind].
      rewrite pow_ok by (auto with inf; lia). cbn [bind].
      rewrite sub_ok by auto with inf. cbn [bind].
      rewrite sub_ok by auto with inf. cbn [bind].
      rewrite sub_ok by auto with inf. cbn [bind].
      rewrite mul_ok by auto with inf. cbn [bind].
      rewrite mul_ok by auto with inf. cbn [bind].
      rewrite add_ok by auto with inf. cbn [bind].
      rewrite sub_ok by auto with inf. reflexivity.
  Qed.

  (* ---------- the explicit hypothesis: chord-and-tangent addition is a group ---------- *)
  Definition curve_group : Prop := group_laws point oncurve padd None pneg.

  Hypothesis CG : curve_group.

  Lemma scalar_mul_pos_ok k P : oncurve P ->
    scalar_mul_pos p a k P = Ok (dbl_add_pos point padd None k P).
  Proof.
    intros HP. induction k as [k IH|k IH|]; cbn [scalar_mul_pos dbl_add_pos].
    - rewrite IH. cbn [bind].
      assert (V : oncurve (dbl_add_pos point padd None k P)).
      { rewrite (dbl_add_pos_spec _ _ _ _ _ CG) by auto. now apply (nmul_V _ _ _ _ _ CG). }
      rewrite point_add_ok by auto. cbn [bind].
      rewrite point_add_ok; auto. apply CG; auto.
    - rewrite IH. cbn [bind].
      assert (V : oncurve (dbl_add_pos point padd None k P)).
      { rewrite (dbl_add_pos_spec _ _ _ _ _ CG) by auto. now apply (nmul_V _ _ _ _ _ CG). }
      now rewrite point_add_ok by auto.
    - cbn [point_add bind]. reflexivity.
  Qed.

  (* point_scalar_mul computes k-fold addition, for every k >= 0 (0 gives the identity) *)
  Theorem scalar_mul_ok k P : oncurve P -> 0 <= k ->
    point_scalar_mul p a k P = Ok (nmul point padd None (Z.to_nat k) P).
  Proof.
    intros HP Hk. rewrite <- (dbl_add_spec _ _ _ _ _ CG) by auto.
    destruct k as [|q|q]; [reflexivity| |lia]. cbn [point_scalar_mul dbl_add].
    now apply scalar_mul_pos_ok.
  Qed.

  Definition smul (k : Z) (P : point) : point := dbl_add point padd None k P.

  Corollary scalar_mul_smul k P : oncurve P -> 0 <= k -> point_scalar_mul p a k P = Ok (smul k P).
  Proof. intros. unfold smul. rewrite (dbl_add_spec _ _ _ _ _ CG) by auto. now apply scalar_mul_ok. Qed.

  Lemma smul_oncurve k P : oncurve P -> 0 <= k -> oncurve (smul k P).
  Proof. intros. now apply (dbl_add_V _ _ _ _ _ CG). Qed.

  Theorem smul_add j k P : oncurve P -> 0 <= j -> 0 <= k -> smul (j + k) P = padd (smul j P) (smul k P).
  Proof. intros. now apply (dbl_add_add _ _ _ _ _ CG). Qed.

  Theorem smul_mul j k P : oncurve P -> 0 <= j -> 0 <= k -> smul j (smul k P) = smul (j * k) P.
  Proof. intros. now apply (dbl_add_mul _ _ _ _ _ CG). Qed.
End Pure.
