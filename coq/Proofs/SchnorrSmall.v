(* The additional premises of the BIP340 theorems ([lift_facts], [cofactor_one]) PROVED by kernel computation for
   the small curve y^2 = x^3 + 7 over F_43 (F_79, F_67: Proofs/SchnorrSmallBig.v), and a toy 32-byte "hash" for the non-vacuity examples. *)
From Coq Require Import ZArith List Bool Lia.
Require Import Bits.Lib.Result Bits.Lib.Bytes Bits.Model.Ecmath Bits.Proofs.Ecmath Bits.Proofs.Ecdsa.
Require Import Bits.Proofs.SmallCurves Bits.Proofs.Schnorr Bits.Proofs.SchnorrSign.
Import ListNotations.
Local Open Scope Z_scope.

Definition check_lift (p : Z) : bool :=
  (p mod 2 =? 1) &&
  forallb (fun y => let c := y ^ 2 mod p in (c ^ ((p + 1) / 4) mod p) ^ 2 mod p =? c) (zrange p) &&
  forallb (fun y => forallb (fun z =>
     negb (y ^ 2 mod p =? z ^ 2 mod p) || (z =? y) || (z =? (p - y) mod p)) (zrange p)) (zrange p).

Lemma check_lift_sound p : check_lift p = true -> lift_facts p.
Proof.
  unfold check_lift. rewrite !andb_true_iff. intros [[H1 H2] H3].
  rewrite forallb_forall in H2, H3. constructor.
  - now apply Z.eqb_eq.
  - intros y Hy. cbv zeta. apply Z.eqb_eq. apply (H2 y). now apply in_zrange.
  - intros y z Hy Hz E. specialize (H3 y (in_zrange p y Hy)). rewrite forallb_forall in H3.
    specialize (H3 z (in_zrange p z Hz)). rewrite E, Z.eqb_refl in H3. cbn [negb orb] in H3.
    apply orb_true_iff in H3 as [H3|H3]; apply Z.eqb_eq in H3; auto.
Qed.

Definition check_cofactor (p a b n : Z) : bool :=
  let pts := all_pts p a b in forallb (fun P => point_eqb (smul p a n P) None) pts.

Lemma check_cofactor_sound p a b n : check_cofactor p a b n = true -> cofactor_one p a b n.
Proof.
  unfold check_cofactor. cbv zeta. rewrite forallb_forall. intros H P HP.
  apply point_eqb_eq. apply H. now apply all_pts_complete.
Qed.

Theorem lift_43 : lift_facts 43. Proof. apply check_lift_sound. vm_compute. reflexivity. Qed.
Theorem cofactor_43 : cofactor_one 43 0 7 31. Proof. apply check_cofactor_sound. vm_compute. reflexivity. Qed.

(* a toy stand-in for SHA-256 with 32-byte output (the theorems hold for EVERY such function) *)
Definition toy_hash (m : bytes) : bytes :=
  to_be 32 (fold_left (fun acc x => (acc * 257 + b2z x + 11) mod 1000000007) m 5 * 1000003).
Lemma toy_hash_length m : length (toy_hash m) = 32%nat.
Proof. apply to_be_length. Qed.
