(* Auxiliary lemmas for C10: bit operations as arithmetic, the word-list lookups, join/split. *)
From Coq Require Import ZArith List Lia Bool.
Require Import Bits.Lib.Result Bits.Lib.Bytes Bits.Lib.Radix Bits.Lib.RadixW.
Require Import Bits.Spec.Bip39 Bits.Model.Bip39.
Import ListNotations.
Local Open Scope Z_scope.

(* ---------- bit operations ---------- *)
Lemma lor_shiftl_small a k c : 0 <= k -> 0 <= c < 2 ^ k ->
  Z.lor (Z.shiftl a k) c = a * 2 ^ k + c.
Proof.
  intros Hk Hc. rewrite Z.shiftl_mul_pow2 by lia.
  assert (L : Z.land (a * 2 ^ k) c = 0).
  { rewrite <- (Z.mod_small c (2 ^ k)) by lia. rewrite <- Z.land_ones by lia.
    rewrite (Z.land_comm c), Z.land_assoc, Z.land_ones by lia.
    rewrite Z.mod_mul by lia. apply Z.land_0_l. }
  rewrite <- Z.lxor_lor by exact L. rewrite <- Z.add_nocarry_lxor by exact L. reflexivity.
Qed.

Lemma lor_small_shiftl c g k : 0 <= k -> 0 <= c < 2 ^ k ->
  Z.lor c (Z.shiftl g k) = g * 2 ^ k + c.
Proof. intros. rewrite Z.lor_comm. now apply lor_shiftl_small. Qed.

Lemma land_2047 x : Z.land x 2047 = x mod 2048.
Proof. change 2047 with (Z.ones 11). rewrite Z.land_ones by lia. reflexivity. Qed.

(* the checksum of calculate_mnemonic_phrase: masking the top ENT bits and shifting them down is
   the integer quotient (all 256 byte values, all five sizes, by computation) *)
Lemma checksum_top (hb : byte) cs : 4 <= cs <= 8 ->
  Z.shiftr (Z.land (b2z hb) (Z.shiftl (2 ^ cs - 1) (8 - cs))) (8 - cs) = b2z hb / 2 ^ (8 - cs).
Proof.
  intros H.
  assert (C : cs = 4 \/ cs = 5 \/ cs = 6 \/ cs = 7 \/ cs = 8) by lia.
  destruct C as [-> | [-> | [-> | [-> | ->]]]]; destruct hb; vm_compute; reflexivity.
Qed.

Lemma checksum_top_bound (hb : byte) cs : 4 <= cs <= 8 -> 0 <= b2z hb / 2 ^ (8 - cs) < 2 ^ cs.
Proof.
  intros H. pose proof (b2z_range hb) as R.
  assert (P : 0 < 2 ^ (8 - cs)) by (apply Z.pow_pos_nonneg; lia).
  split; [apply Z.div_pos; lia|]. apply Z.div_lt_upper_bound; [lia|].
  rewrite <- Z.pow_add_r by lia. replace (8 - cs + cs) with 8 by lia. change (2 ^ 8) with 256. lia.
Qed.

(* ---------- bit_groups = fixed-width base-2048 digits ---------- *)
Lemma bit_group_0 D : Z.land (Z.shiftr D (Z.of_nat 0 * 11)) 2047 = D mod 2048.
Proof. change (Z.of_nat 0 * 11) with 0. rewrite Z.shiftr_0_r. apply land_2047. Qed.

Lemma bit_group_S D i :
  Z.land (Z.shiftr D (Z.of_nat (S i) * 11)) 2047 = Z.land (Z.shiftr (D / 2048) (Z.of_nat i * 11)) 2047.
Proof.
  f_equal. replace (Z.of_nat (S i) * 11) with (11 + Z.of_nat i * 11) by lia.
  rewrite <- Z.shiftr_shiftr by lia. f_equal. rewrite Z.shiftr_div_pow2 by lia. reflexivity.
Qed.

Lemma bit_groups_digits D (c : nat) :
  map (fun idx => Z.land (Z.shiftr D (Z.of_nat idx * 11)) 2047) (seq 0 c) = rev (digits_w 2048 c D).
Proof.
  revert D. induction c as [|c IH]; intros D; [reflexivity|].
  cbn [seq map digits_w]. rewrite rev_app_distr. cbn [rev app].
  rewrite bit_group_0. f_equal. rewrite <- seq_shift, map_map, <- IH.
  apply map_ext. intros i. apply bit_group_S.
Qed.

(* ---------- word list lookups ---------- *)
Lemma index_from_word_index w l : forall k i, index_from w l k = Some i -> i = k + Z.of_nat (word_index w l).
Proof.
  induction l as [|x r IH]; intros k i H; cbn [index_from word_index] in *; [discriminate|].
  destruct (bytes_eqb x w); [inversion H; simpl; lia|].
  apply IH in H. lia.
Qed.

Lemma index_from_none w l : forall k, index_from w l k = None <-> ~ In w l.
Proof.
  induction l as [|x r IH]; intros k; cbn [index_from]; [simpl; tauto|].
  destruct (bytes_eqb x w) eqn:E.
  - apply bytes_eqb_eq in E. subst. simpl. split; [discriminate|tauto].
  - rewrite IH. simpl. split; [intros H [->|H']; [|tauto]|tauto].
    assert (bytes_eqb w w = true) by now apply bytes_eqb_eq. congruence.
Qed.

Lemma word_index_lt w l : In w l -> (word_index w l < length l)%nat.
Proof.
  induction l as [|x r IH]; cbn [word_index length]; [intros []|].
  intros H. destruct (bytes_eqb x w) eqn:E; [lia|].
  destruct H as [->|H]; [|apply IH in H; lia].
  assert (bytes_eqb w w = true) by now apply bytes_eqb_eq. congruence.
Qed.

Lemma nth_word_index w l d : In w l -> nth (word_index w l) l d = w.
Proof.
  induction l as [|x r IH]; cbn [word_index]; [intros []|].
  intros H. destruct (bytes_eqb x w) eqn:E; [now apply bytes_eqb_eq in E|].
  cbn [nth]. apply IH. destruct H as [->|H]; [|exact H].
  assert (bytes_eqb w w = true) by now apply bytes_eqb_eq. congruence.
Qed.

Lemma word_index_nth l d (i : nat) : NoDup l -> (i < length l)%nat -> word_index (nth i l d) l = i.
Proof.
  intros ND. revert i. induction ND as [|x r Hx ND IH]; intros i Hi; [simpl in Hi; lia|].
  cbn [word_index]. destruct i as [|i]; cbn [nth].
  - assert (bytes_eqb x x = true) as -> by now apply bytes_eqb_eq. reflexivity.
  - cbn [length] in Hi. destruct (bytes_eqb x (nth i r d)) eqn:E.
    + apply bytes_eqb_eq in E. exfalso. apply Hx. rewrite E. apply nth_In. lia.
    + f_equal. apply IH. lia.
Qed.

Lemma list_index_in l w : In w l -> list_index l w = Ok (Z.of_nat (word_index w l)).
Proof.
  intros H. unfold list_index. destruct (index_from w l 0) as [i|] eqn:E.
  - apply index_from_word_index in E. subst. reflexivity.
  - apply index_from_none in E. contradiction.
Qed.

Lemma list_index_notin l w : ~ In w l -> list_index l w = Err ValueE.
Proof. intros H. unfold list_index. apply (index_from_none w l 0) in H. now rewrite H. Qed.

Lemma In_dec_bytes (w : bytes) l : {In w l} + {~ In w l}.
Proof. apply in_dec. apply list_eq_dec. apply byte_eq_dec. Qed.

Lemma list_get_nth l i : 0 <= i < Z.of_nat (length l) -> list_get l i = Ok (nth (Z.to_nat i) l []).
Proof.
  intros H. unfold list_get.
  destruct (Z.ltb_spec i 0) as [?|_]; [lia|]. destruct (Z.ltb_spec i 0) as [?|_]; [lia|].
  destruct (nth_error l (Z.to_nat i)) as [w|] eqn:E.
  - simpl. f_equal. symmetry. now apply nth_error_nth.
  - apply nth_error_None in E. lia.
Qed.

Lemma mapM_list_get l ds : in_range (Z.of_nat (length l)) ds ->
  mapM (list_get l) ds = Ok (map (fun i => nth (Z.to_nat i) l []) ds).
Proof.
  induction 1 as [|d ds Hd _ IH]; [reflexivity|].
  cbn [mapM map]. rewrite list_get_nth by exact Hd. cbn [bind]. rewrite IH. reflexivity.
Qed.

(* ---------- " ".join / str.split ---------- *)
Lemma ws_len_lower b r : is_lower b = true -> ws_len (b :: r) = O.
Proof.
  unfold is_lower. rewrite andb_true_iff, !Z.leb_le. intros [H1 H2].
  cbn [ws_len]. cbv zeta.
  assert (is_ascii_ws (b2z b) = false) as ->.
  { unfold is_ascii_ws. apply not_true_is_false.
    rewrite orb_true_iff, !andb_true_iff, !Z.leb_le. lia. }
  destruct (Z.ltb_spec (b2z b) 128); [reflexivity|lia].
Qed.

Lemma split_go_word w rest cur : forallb is_lower w = true ->
  split_go (w ++ rest) O cur = split_go rest O (rev w ++ cur).
Proof.
  revert cur. induction w as [|b w IH]; intros cur H; [reflexivity|].
  cbn [forallb] in H. apply andb_true_iff in H as [Hb Hw].
  cbn [app split_go]. rewrite ws_len_lower by exact Hb.
  rewrite IH by exact Hw. cbn [rev]. now rewrite <- app_assoc.
Qed.

Lemma split_go_tail r : Forall (fun w => word_ok w = true) r ->
  forall cur, cur <> [] ->
  split_go (flat_map (fun x => Coq.Init.Byte.x20 :: x) r) O cur = rev cur :: r.
Proof.
  induction 1 as [|w r Hw _ IH]; intros cur Hc.
  - cbn [flat_map split_go]. destruct cur; [congruence|reflexivity].
  - cbn [flat_map app split_go].
    change (ws_len (Coq.Init.Byte.x20 :: w ++ flat_map (fun x => Coq.Init.Byte.x20 :: x) r)) with 1%nat.
    cbv iota. unfold word_ok in Hw. apply andb_true_iff in Hw as [Hne Hl].
    rewrite split_go_word by exact Hl. rewrite app_nil_r.
    rewrite IH.
    + rewrite rev_involutive. destruct cur; [congruence|reflexivity].
    + destruct w; [discriminate|]. cbn [rev]. intros E. apply app_eq_nil in E as [_ E]. discriminate.
Qed.

Lemma split_join ws : Forall (fun w => word_ok w = true) ws -> split_ws (join_sp ws) = ws.
Proof.
  intros H. destruct H as [|w r Hw Hr]; [reflexivity|].
  unfold split_ws, join_sp. unfold word_ok in Hw. apply andb_true_iff in Hw as [Hne Hl].
  rewrite split_go_word by exact Hl. rewrite app_nil_r, split_go_tail.
  - now rewrite rev_involutive.
  - exact Hr.
  - destruct w; [discriminate|]. cbn [rev]. intros E. apply app_eq_nil in E as [_ E]. discriminate.
Qed.
