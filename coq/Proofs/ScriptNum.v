(* Facts about the SPECIFICATION Spec/ScriptNum.v (CScriptNum::serialize, set_vch, minimality, push_int),
   for non-negative numbers: the closed form  scriptnum_enc h = to_le ((log2 h + 9) / 8) h,
   decode . encode = id, the encoding is minimal in Bitcoin Core's sense and the shortest one. *)
From Coq Require Import ZArith List Lia Bool.
Require Import Bits.Lib.Result Bits.Lib.Bytes Bits.Spec.ScriptNum.
Import ListNotations.
Import Coq.Init.Byte.
Local Open Scope Z_scope.

(* ---------- powers ---------- *)
Lemma pow256 k : 0 <= k -> 256 ^ k = 2 ^ (8 * k).
Proof. intros H. change 256 with (2 ^ 8). rewrite <- Z.pow_mul_r by lia. reflexivity. Qed.

Lemma pow256_pos k : 0 <= k -> 0 < 256 ^ k.
Proof. intros. apply Z.pow_pos_nonneg; lia. Qed.

(* number of bytes of the encoding of h > 0 *)
Definition nbytes (h : Z) : Z := (Z.log2 h + 9) / 8.

Lemma nbytes_bounds h : 0 < h -> Z.log2 h + 2 <= 8 * nbytes h <= Z.log2 h + 9.
Proof.
  intros H. unfold nbytes. pose proof (Z.log2_nonneg h).
  pose proof (Z.div_mod (Z.log2 h + 9) 8 ltac:(lia)).
  pose proof (Z.mod_pos_bound (Z.log2 h + 9) 8 ltac:(lia)). lia.
Qed.

Lemma nbytes_pos h : 0 < h -> 1 <= nbytes h.
Proof. intros H. pose proof (nbytes_bounds h H). pose proof (Z.log2_nonneg h). lia. Qed.

(* 2^(8n-9) <= h < 2^(8n-1)   (the lower bound only when n >= 2) *)
Lemma nbytes_upper h : 0 < h -> h < 2 ^ (8 * nbytes h - 1).
Proof.
  intros H. pose proof (nbytes_bounds h H) as B. pose proof (Z.log2_nonneg h) as L0.
  destruct (Z.log2_spec h H) as [_ Hu].
  eapply Z.lt_le_trans; [exact Hu|]. apply Z.pow_le_mono_r; lia.
Qed.

Lemma nbytes_lower h : 0 < h -> 2 <= nbytes h -> 2 ^ (8 * nbytes h - 9) <= h.
Proof.
  intros H H2. pose proof (nbytes_bounds h H) as B.
  destruct (Z.log2_spec h H) as [Hl _].
  eapply Z.le_trans; [|exact Hl]. apply Z.pow_le_mono_r; lia.
Qed.

(* ---------- to_le ---------- *)
Lemma to_le_snoc k a : to_le (S k) a = to_le k a ++ [z2b (a / 256 ^ Z.of_nat k)].
Proof.
  revert a. induction k as [|k IH]; intros a.
  - cbn [to_le app]. change (256 ^ Z.of_nat 0) with 1. now rewrite Z.div_1_r.
  - change (to_le (S (S k)) a) with (z2b a :: to_le (S k) (a / 256)).
    rewrite IH. cbn [to_le app]. do 3 f_equal.
    rewrite Z.div_div by (try apply pow256_pos; lia).
    f_equal. rewrite Nat2Z.inj_succ, Z.pow_succ_r by lia. reflexivity.
Qed.

Lemma to_le_zero_ext k j a : 0 <= a < 256 ^ Z.of_nat k ->
  to_le (k + j) a = to_le k a ++ repeat x00 j.
Proof.
  intros H. induction j as [|j IH].
  - rewrite Nat.add_0_r. cbn [repeat]. now rewrite app_nil_r.
  - rewrite Nat.add_succ_r, to_le_snoc, IH, <- app_assoc. f_equal.
    replace (a / 256 ^ Z.of_nat (k + j)) with 0.
    + change (z2b 0) with x00. cbn [repeat]. rewrite (repeat_cons j x00). reflexivity.
    + symmetry. apply Z.div_small. split; [lia|].
      eapply Z.lt_le_trans; [apply H|]. apply Z.pow_le_mono_r; lia.
Qed.

(* the `while absvalue` loop produces exactly the k significant bytes *)
Lemma magnitude_to_le : forall (k f : nat) a, (1 <= k <= f)%nat ->
  256 ^ (Z.of_nat k - 1) <= a < 256 ^ Z.of_nat k -> magnitude_le f a = to_le k a.
Proof.
  induction k as [|k IH]; intros f a Hk Ha; [lia|].
  destruct f as [|f]; [lia|].
  assert (Hpos : 0 < a).
  { eapply Z.lt_le_trans; [|apply Ha]. apply pow256_pos. lia. }
  cbn [magnitude_le to_le]. destruct (Z.eqb_spec a 0) as [E|_]; [lia|]. f_equal.
  destruct k as [|k].
  - change (256 ^ Z.of_nat 1) with 256 in Ha.
    rewrite Z.div_small by lia. destruct f; reflexivity.
  - apply IH; [lia|].
    replace (Z.of_nat (S (S k)) - 1) with (Z.succ (Z.of_nat (S k) - 1)) in Ha by lia.
    rewrite Z.pow_succ_r in Ha by lia.
    rewrite (Nat2Z.inj_succ (S k)), Z.pow_succ_r in Ha by lia.
    split; [apply Z.div_le_lower_bound; lia | apply Z.div_lt_upper_bound; lia].
Qed.

Lemma last_to_le k a d : last (to_le (S k) a) d = z2b (a / 256 ^ Z.of_nat k).
Proof. rewrite to_le_snoc. apply last_last. Qed.

(* ---------- of_le and the most significant byte ---------- *)
Lemma of_le_snoc bs b : of_le (bs ++ [b]) = of_le bs + b2z b * 256 ^ Z.of_nat (length bs).
Proof.
  unfold of_le. rewrite rev_app_distr. cbn [rev app].
  change (b :: rev bs) with ([b] ++ rev bs). rewrite of_be_app, rev_length.
  unfold of_be at 1. simpl. lia.
Qed.

Lemma of_le_range bs : 0 <= of_le bs < 256 ^ Z.of_nat (length bs).
Proof.
  unfold of_le. rewrite <- (rev_length bs). split; [apply of_be_nonneg | apply of_be_bound].
Qed.

Lemma split_last (bs : bytes) : bs <> [] -> bs = removelast bs ++ [last bs x00].
Proof. intros H. apply app_removelast_last. exact H. Qed.

Lemma removelast_length (bs : bytes) : bs <> [] -> length (removelast bs) = (length bs - 1)%nat.
Proof.
  intros H. rewrite (split_last bs H) at 2. rewrite app_length. simpl. lia.
Qed.

(* ---------- the closed form of scriptnum_enc ---------- *)
Lemma log2_byte_split h : 0 < h ->
  let q := Z.log2 h / 8 in 256 ^ q <= h < 256 ^ (q + 1).
Proof.
  intros H q. pose proof (Z.log2_nonneg h) as L0.
  assert (Hq : 0 <= q) by (apply Z.div_pos; lia).
  pose proof (Z.div_mod (Z.log2 h) 8 ltac:(lia)) as DM.
  pose proof (Z.mod_pos_bound (Z.log2 h) 8 ltac:(lia)) as MB. fold q in DM.
  destruct (Z.log2_spec h H) as [Hl Hu]. rewrite !pow256 by lia. split.
  - eapply Z.le_trans; [|exact Hl]. apply Z.pow_le_mono_r; lia.
  - eapply Z.lt_le_trans; [exact Hu|]. apply Z.pow_le_mono_r; lia.
Qed.

Lemma top_byte_ge h q : 0 < h -> 0 <= q -> h < 256 ^ (q + 1) ->
  (128 <=? b2z (z2b (h / 256 ^ q))) = (8 * q + 7 <=? Z.log2 h).
Proof.
  intros H Hq Hu.
  assert (P : 0 < 256 ^ q) by (apply pow256_pos; lia).
  assert (T : 0 <= h / 256 ^ q < 256).
  { split; [apply Z.div_pos; lia|]. apply Z.div_lt_upper_bound; [lia|].
    rewrite Z.pow_add_r, Z.pow_1_r in Hu by lia. lia. }
  rewrite b2z_z2b by exact T.
  destruct (Z.leb_spec 128 (h / 256 ^ q)) as [A|A]; destruct (Z.leb_spec (8 * q + 7) (Z.log2 h)) as [B|B];
    try reflexivity; exfalso.
  - (* 128*256^q <= h but log2 h < 8q+7 *)
    assert (h < 2 ^ (8 * q + 7)) by (apply Z.log2_lt_pow2; lia).
    rewrite Z.pow_add_r, <- pow256 in H0 by lia. change (2 ^ 7) with 128 in H0.
    assert (128 * 256 ^ q <= h); [|lia].
    eapply Z.le_trans; [|apply (Z.mul_div_le h (256 ^ q)); lia]. nia.
  - assert (2 ^ (8 * q + 7) <= h) by (apply Z.log2_le_pow2; lia).
    rewrite Z.pow_add_r, <- pow256 in H0 by lia. change (2 ^ 7) with 128 in H0.
    assert (h / 256 ^ q >= 128); [|lia].
    apply Z.le_ge. apply Z.div_le_lower_bound; lia.
Qed.

Theorem scriptnum_enc_pos h : 0 < h -> scriptnum_enc h = to_le (Z.to_nat (nbytes h)) h.
Proof.
  intros H. unfold scriptnum_enc.
  destruct (Z.eqb_spec h 0) as [E|_]; [lia|].
  destruct (Z.ltb_spec h 0) as [E|_]; [lia|].
  rewrite Z.abs_eq by lia.
  pose proof (Z.log2_nonneg h) as L0.
  set (q := Z.log2 h / 8).
  assert (Hq : 0 <= q) by (apply Z.div_pos; lia).
  pose proof (log2_byte_split h H) as Sp. cbv zeta in Sp. fold q in Sp.
  pose proof (Z.div_mod (Z.log2 h) 8 ltac:(lia)) as DM. fold q in DM.
  pose proof (Z.mod_pos_bound (Z.log2 h) 8 ltac:(lia)) as MB.
  set (k := Z.to_nat (q + 1)).
  assert (Hk : Z.of_nat k = q + 1) by (subst k; lia).
  assert (M : magnitude_le (S (Z.to_nat (Z.log2 h))) h = to_le k h).
  { apply magnitude_to_le; [subst k; lia|]. rewrite Hk. replace (q + 1 - 1) with q by lia. exact Sp. }
  rewrite M.
  assert (Top : top_bit_set (to_le k h) = (8 * q + 7 <=? Z.log2 h)).
  { unfold top_bit_set. replace k with (S (Z.to_nat q)) by (subst k; lia).
    rewrite last_to_le, Z2Nat.id by lia. apply top_byte_ge; lia. }
  rewrite Top. unfold nbytes.
  destruct (Z.leb_spec (8 * q + 7) (Z.log2 h)) as [B|B].
  - (* sign byte needed *)
    assert (N : (Z.log2 h + 9) / 8 = q + 2).
    { symmetry. apply Z.div_unique with (r := Z.log2 h + 9 - 8 * (q + 2)); lia. }
    rewrite N. replace (Z.to_nat (q + 2)) with (k + 1)%nat by (subst k; lia).
    rewrite to_le_zero_ext; [reflexivity|]. rewrite Hk. lia.
  - assert (N : (Z.log2 h + 9) / 8 = q + 1).
    { symmetry. apply Z.div_unique with (r := Z.log2 h + 9 - 8 * (q + 1)); lia. }
    rewrite N. reflexivity.
Qed.

Lemma scriptnum_enc_length h : 0 < h -> Z.of_nat (length (scriptnum_enc h)) = nbytes h.
Proof.
  intros H. rewrite scriptnum_enc_pos by exact H. rewrite to_le_length.
  pose proof (nbytes_pos h H). lia.
Qed.

(* ---------- decoding ---------- *)
Lemma to_le_top_clear h : 0 < h ->
  top_bit_set (to_le (Z.to_nat (nbytes h)) h) = false.
Proof.
  intros H. pose proof (nbytes_pos h H) as N1. pose proof (nbytes_upper h H) as U.
  unfold top_bit_set.
  replace (Z.to_nat (nbytes h)) with (S (Z.to_nat (nbytes h - 1))) by lia.
  rewrite last_to_le, Z2Nat.id by lia.
  set (n := nbytes h) in *.
  assert (P : 0 < 256 ^ (n - 1)) by (apply pow256_pos; lia).
  assert (E : 2 ^ (8 * n - 1) = 128 * 256 ^ (n - 1)).
  { rewrite pow256 by lia. replace (8 * n - 1) with (7 + 8 * (n - 1)) by lia.
    rewrite Z.pow_add_r by lia. reflexivity. }
  rewrite E in U.
  assert (T : 0 <= h / 256 ^ (n - 1) < 128).
  { split; [apply Z.div_pos; lia | apply Z.div_lt_upper_bound; lia]. }
  rewrite b2z_z2b by lia. apply Z.leb_gt. lia.
Qed.

Lemma nbytes_fits h : 0 < h -> 0 <= h < 256 ^ Z.of_nat (Z.to_nat (nbytes h)).
Proof.
  intros H. pose proof (nbytes_pos h H) as N1. pose proof (nbytes_upper h H) as U.
  rewrite Z2Nat.id by lia. rewrite pow256 by lia. split; [lia|].
  eapply Z.lt_le_trans; [exact U|]. apply Z.pow_le_mono_r; lia.
Qed.

Theorem scriptnum_dec_enc h : 0 <= h -> scriptnum_dec (scriptnum_enc h) = h.
Proof.
  intros H0. destruct (Z.eq_dec h 0) as [->|Hn]; [reflexivity|].
  assert (H : 0 < h) by lia. rewrite scriptnum_enc_pos by exact H.
  pose proof (nbytes_pos h H) as N1.
  unfold scriptnum_dec.
  destruct (to_le (Z.to_nat (nbytes h)) h) as [|b bs] eqn:E.
  - apply (f_equal (@length byte)) in E. rewrite to_le_length in E. simpl in E. lia.
  - rewrite <- E, to_le_top_clear by exact H. apply of_le_to_le, nbytes_fits, H.
Qed.

(* Bitcoin Core's minimality test accepts the encoding *)
Theorem scriptnum_enc_minimal h : 0 <= h -> scriptnum_minimal (scriptnum_enc h) = true.
Proof.
  intros H0. destruct (Z.eq_dec h 0) as [->|Hn]; [reflexivity|].
  assert (H : 0 < h) by lia. rewrite scriptnum_enc_pos by exact H.
  pose proof (nbytes_pos h H) as N1. pose proof (nbytes_upper h H) as U.
  set (n := nbytes h) in *. unfold scriptnum_minimal.
  replace (Z.to_nat n) with (S (Z.to_nat (n - 1))) by lia.
  rewrite to_le_snoc, rev_app_distr. cbn [rev app]. rewrite Z2Nat.id by lia.
  assert (P : 0 < 256 ^ (n - 1)) by (apply pow256_pos; lia).
  assert (E : 2 ^ (8 * n - 1) = 128 * 256 ^ (n - 1)).
  { rewrite pow256 by lia. replace (8 * n - 1) with (7 + 8 * (n - 1)) by lia.
    rewrite Z.pow_add_r by lia. reflexivity. }
  rewrite E in U.
  assert (T : 0 <= h / 256 ^ (n - 1) < 128).
  { split; [apply Z.div_pos; lia | apply Z.div_lt_upper_bound; lia]. }
  rewrite b2z_z2b by lia. rewrite Z.mod_small by lia.
  destruct (Z.eqb_spec (h / 256 ^ (n - 1)) 0) as [Z0|]; [|reflexivity].
  (* top byte is 0: it is the sign byte, so n >= 2 and the byte below has its top bit set *)
  assert (Hlt : h < 256 ^ (n - 1)).
  { apply Z.div_small_iff in Z0; lia. }
  destruct (Z.eq_dec n 1) as [N|N].
  { exfalso. rewrite N in Hlt. change (256 ^ (1 - 1)) with 1 in Hlt. lia. }
  replace (Z.to_nat (n - 1)) with (S (Z.to_nat (n - 2))) by lia.
  rewrite to_le_snoc, rev_app_distr. cbn [rev app]. rewrite Z2Nat.id by lia.
  pose proof (nbytes_lower h H ltac:(fold n; lia)) as Lo. fold n in Lo.
  assert (P2 : 0 < 256 ^ (n - 2)) by (apply pow256_pos; lia).
  assert (E2 : 2 ^ (8 * n - 9) = 128 * 256 ^ (n - 2)).
  { rewrite pow256 by lia. replace (8 * n - 9) with (7 + 8 * (n - 2)) by lia.
    rewrite Z.pow_add_r by lia. reflexivity. }
  rewrite E2 in Lo.
  assert (E3 : 256 ^ (n - 1) = 256 * 256 ^ (n - 2)).
  { replace (n - 1) with (Z.succ (n - 2)) by lia. rewrite Z.pow_succ_r by lia. reflexivity. }
  rewrite E3 in Hlt.
  assert (T2 : 128 <= h / 256 ^ (n - 2) < 256).
  { split; [apply Z.div_le_lower_bound; lia | apply Z.div_lt_upper_bound; lia]. }
  rewrite b2z_z2b by lia. apply Z.leb_le. lia.
Qed.

(* no byte string that decodes to h is shorter *)
Theorem scriptnum_enc_shortest h bs : 0 <= h -> scriptnum_dec bs = h ->
  (length (scriptnum_enc h) <= length bs)%nat.
Proof.
  intros H0 D. destruct (Z.eq_dec h 0) as [->|Hn]; [simpl; lia|].
  assert (H : 0 < h) by lia.
  pose proof (scriptnum_enc_length h H) as Len.
  destruct bs as [|b0 bs0] eqn:Ebs; [simpl in D; lia|].
  rewrite <- Ebs in *. assert (Hne : bs <> []) by (rewrite Ebs; discriminate).
  unfold scriptnum_dec in D. rewrite Ebs in D. rewrite <- Ebs in D.
  pose proof (split_last bs Hne) as SL.
  pose proof (removelast_length bs Hne) as RL.
  assert (Hlen : (1 <= length bs)%nat) by (rewrite Ebs; simpl; lia).
  assert (OL : of_le bs = of_le (removelast bs) + b2z (last bs x00) * 256 ^ (Z.of_nat (length bs) - 1)).
  { rewrite SL at 1. rewrite of_le_snoc, RL. do 3 f_equal. lia. }
  pose proof (of_le_range (removelast bs)) as R. rewrite RL in R.
  replace (Z.of_nat (length bs - 1)) with (Z.of_nat (length bs) - 1) in R by lia.
  pose proof (b2z_range (last bs x00)) as BR.
  set (m := Z.of_nat (length bs)) in *.
  assert (P : 0 < 256 ^ (m - 1)) by (apply pow256_pos; lia).
  unfold top_bit_set in D.
  destruct (Z.leb_spec 128 (b2z (last bs x00))) as [A|A].
  - exfalso. nia.
  - (* h = of_le bs < 128 * 256^(m-1) = 2^(8m-1) *)
    assert (Hu : h < 2 ^ (8 * m - 1)).
    { replace (8 * m - 1) with (7 + 8 * (m - 1)) by lia.
      rewrite Z.pow_add_r, <- pow256 by lia. change (2 ^ 7) with 128. nia. }
    assert (LL : Z.log2 h < 8 * m - 1) by (apply Z.log2_lt_pow2; lia).
    assert (nbytes h < m + 1).
    { unfold nbytes. apply Z.div_lt_upper_bound; lia. }
    lia.
Qed.

(* ---------- push_int ---------- *)
Lemma push_int_small h : 0 <= h <= 16 ->
  push_int h = [if h =? 0 then x00 else z2b (80 + h)].
Proof.
  intros H. unfold push_int.
  destruct (Z.eqb_spec h (-1)) as [E|_]; [lia|]. cbn [orb].
  destruct (Z.leb_spec 1 h) as [A|A]; destruct (Z.leb_spec h 16) as [B|B]; try lia; cbn [andb].
  - destruct (Z.eqb_spec h 0); [lia|]. now rewrite Z.add_comm.
  - destruct (Z.eqb_spec h 0); [reflexivity|lia].
Qed.

Lemma push_int_big h : 16 < h -> nbytes h < 76 ->
  push_int h = z2b (nbytes h) :: to_le (Z.to_nat (nbytes h)) h.
Proof.
  intros H N. unfold push_int.
  destruct (Z.eqb_spec h (-1)) as [E|_]; [lia|]. cbn [orb].
  destruct (Z.leb_spec h 16) as [B|_]; [lia|]. rewrite andb_false_r.
  destruct (Z.eqb_spec h 0) as [E|_]; [lia|].
  unfold push_data. rewrite scriptnum_enc_length by lia.
  destruct (Z.ltb_spec (nbytes h) 76) as [_|C]; [|lia].
  now rewrite scriptnum_enc_pos by lia.
Qed.

Lemma nbytes_small h : 0 < h -> h < 2 ^ 599 -> nbytes h < 76.
Proof.
  intros H U. assert (Z.log2 h < 599) by (apply Z.log2_lt_pow2; lia).
  unfold nbytes. apply Z.div_lt_upper_bound; lia.
Qed.

Lemma nbytes_31 h : 0 < h -> h < 2 ^ 31 -> nbytes h <= 4.
Proof.
  intros H U. assert (Z.log2 h < 31) by (apply Z.log2_lt_pow2; lia).
  unfold nbytes. assert ((Z.log2 h + 9) / 8 < 5) by (apply Z.div_lt_upper_bound; lia). lia.
Qed.

Lemma firstn_app_exact {A} (a b : list A) n : n = length a -> firstn n (a ++ b) = a.
Proof. intros ->. rewrite firstn_app, Nat.sub_diag, firstn_all, firstn_O. apply app_nil_r. Qed.
Lemma skipn_app_exact {A} (a b : list A) n : n = length a -> skipn n (a ++ b) = b.
Proof. intros ->. rewrite skipn_app, Nat.sub_diag, skipn_all, skipn_O. reflexivity. Qed.

(* reading the push back gives the number, whatever follows *)
Theorem read_push_int_push_int h rest : 0 <= h < 2 ^ 599 ->
  read_push_int (push_int h ++ rest) = Some (h, rest).
Proof.
  intros [H0 U]. destruct (Z_le_gt_dec h 16) as [Sm|B].
  - rewrite push_int_small by lia. cbn [app read_push_int].
    destruct (Z.eqb_spec h 0) as [->|Hn]; [reflexivity|].
    rewrite b2z_z2b by lia.
    destruct (Z.eqb_spec (80 + h) 0); [lia|]. destruct (Z.eqb_spec (80 + h) 79); [lia|].
    destruct (Z.leb_spec 81 (80 + h)); [|lia]. destruct (Z.leb_spec (80 + h) 96); [|lia].
    cbn [andb]. do 2 f_equal. lia.
  - assert (H : 0 < h) by lia. pose proof (nbytes_small h H U) as N76. pose proof (nbytes_pos h H) as N1.
    rewrite push_int_big by lia. cbn [app read_push_int].
    set (n := nbytes h) in *. rewrite b2z_z2b by lia.
    destruct (Z.eqb_spec n 0); [lia|]. destruct (Z.eqb_spec n 79); [lia|].
    destruct (Z.leb_spec 81 n) as [X|_]; [lia|]. cbn [andb].
    destruct (Z.leb_spec 1 n); [|lia]. destruct (Z.leb_spec n 75); [|lia]. cbn [andb].
    assert (L : length (to_le (Z.to_nat n) h) = Z.to_nat n) by apply to_le_length.
    replace (Z.to_nat n <=? length (to_le (Z.to_nat n) h ++ rest))%nat with true
      by (symmetry; apply Nat.leb_le; rewrite app_length; lia).
    rewrite (firstn_app_exact _ rest _ (eq_sym L)), (skipn_app_exact _ rest _ (eq_sym L)).
    subst n. rewrite <- scriptnum_enc_pos by exact H.
    rewrite scriptnum_dec_enc, scriptnum_enc_minimal by lia.
    destruct (Z.leb_spec h 16); [lia|]. destruct (Z.eqb_spec h (-1)); [lia|].
    rewrite andb_false_r. cbn [orb]. rewrite andb_false_r. reflexivity.
Qed.
