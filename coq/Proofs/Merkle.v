(* merkle_root (model of the code) = Spec.merkle, for every non-empty list and every hash function. *)
From Coq Require Import ZArith List Lia Bool Arith.
Require Import Bits.Lib.Result Bits.Lib.Bytes Bits.Spec.Merkle Bits.Model.Merkle.
Import ListNotations.

(* induction over a list two elements at a time *)
Lemma list_pair_ind {A} (P : list A -> Prop) :
  P [] -> (forall a, P [a]) -> (forall a b l, P l -> P (a :: b :: l)) -> forall l, P l.
Proof.
  intros H0 H1 H2. fix IH 1. intros [|a [|b l]]; [exact H0 | apply H1 | apply H2, IH].
Qed.

Section WithHash.
  Variable sha256 : bytes -> bytes.
  Notation next_level := (Spec.Merkle.next_level sha256).
  Notation merkle_levels := (Spec.Merkle.merkle_levels sha256).
  Notation merkle := (Spec.Merkle.merkle sha256).
  Notation hash_pairs := (Model.Merkle.hash_pairs sha256).
  Notation merkle_loop := (Model.Merkle.merkle_loop sha256).
  Notation merkle_root := (Model.Merkle.merkle_root sha256).
  Notation merkle_root_fuel := (Model.Merkle.merkle_root_fuel sha256).

  Lemma hash256_same m : Model.Merkle.hash256 sha256 m = Spec.Merkle.hash256 sha256 m.
  Proof. reflexivity. Qed.

  (* ---- one level ---- *)
  Lemma hash_pairs_even row : Nat.even (length row) = true -> hash_pairs row = Ok (next_level row).
  Proof.
    induction row as [| a | a b l IH] using list_pair_ind; intros H.
    - reflexivity.
    - discriminate H.
    - cbn [hash_pairs Spec.Merkle.next_level]. rewrite IH by exact H. reflexivity.
  Qed.

  Lemma hash_pairs_odd row : Nat.odd (length row) = true -> hash_pairs row = Err IndexE.
  Proof.
    induction row as [| a | a b l IH] using list_pair_ind; intros H.
    - discriminate H.
    - reflexivity.
    - cbn [hash_pairs]. rewrite IH by exact H. reflexivity.
  Qed.

  Lemma next_level_dup row : Nat.odd (length row) = true ->
    next_level (row ++ [last row []]) = next_level row.
  Proof.
    induction row as [| a | a b l IH] using list_pair_ind; intros H.
    - discriminate H.
    - reflexivity.
    - assert (Hl : l <> []) by (intros ->; discriminate H).
      replace (last (a :: b :: l) []) with (last l []) by (destruct l; [congruence | reflexivity]).
      change ((a :: b :: l) ++ [last l []]) with (a :: b :: (l ++ [last l []])).
      cbn [Spec.Merkle.next_level]. rewrite IH by exact H. reflexivity.
  Qed.

  Lemma odd_app_one {A} (l : list A) x : Nat.odd (length l) = true -> Nat.even (length (l ++ [x])) = true.
  Proof.
    intros H. rewrite app_length. simpl. rewrite Nat.add_1_r, Nat.even_succ. exact H.
  Qed.

  (* the body of one loop iteration computes the specification's next row, for EVERY row *)
  Lemma level_step row : hash_pairs (dup_last_if_odd row) = Ok (next_level row).
  Proof.
    unfold dup_last_if_odd. destruct (Nat.odd (length row)) eqn:E.
    - rewrite hash_pairs_even by (apply odd_app_one; exact E). now rewrite next_level_dup.
    - apply hash_pairs_even. rewrite <- Nat.negb_odd, E. reflexivity.
  Qed.

  Lemma next_level_length row : length (next_level row) = Nat.div2 (S (length row)).
  Proof.
    induction row as [| a | a b l IH] using list_pair_ind; [reflexivity | reflexivity |].
    cbn [Spec.Merkle.next_level length]. rewrite IH. reflexivity.
  Qed.

  Lemma div2_S_bound n m : (n <= 2 * m -> Nat.div2 (S n) <= m)%nat.
  Proof.
    intros H. pose proof (Nat.div2_odd (S n)) as E.
    destruct (Nat.odd (S n)); cbn [Nat.b2n] in E; lia.
  Qed.

  (* a row of length <= 2^(m+1) is followed by a row of length <= 2^m *)
  Lemma next_level_log row m : (2 <= length row)%nat ->
    (Nat.log2_up (length row) <= S m)%nat -> (Nat.log2_up (length (next_level row)) <= m)%nat.
  Proof.
    intros H2 H. rewrite next_level_length.
    apply Nat.log2_up_le_pow2 in H; [|lia].
    assert (Hpos : (0 < Nat.div2 (S (length row)))%nat).
    { pose proof (Nat.div2_odd (S (length row))) as E.
      destruct (Nat.odd (S (length row))); cbn [Nat.b2n] in E; lia. }
    apply Nat.log2_up_le_pow2; [exact Hpos|].
    apply div2_S_bound. rewrite Nat.pow_succ_r' in H. exact H.
  Qed.

  (* ---- the loop ---- *)
  Lemma merkle_loop_spec : forall n fuel row, row <> [] ->
    (Nat.log2_up (length row) <= n)%nat -> (Nat.log2_up (length row) <= fuel)%nat ->
    merkle_loop fuel row = Ok (merkle_levels n row).
  Proof.
    induction n as [|n IH]; intros fuel row Hne Hn Hf.
    - destruct row as [|a [|b l]]; [congruence | destruct fuel; reflexivity |].
      exfalso. cbn [length] in Hn.
      assert (0 < Nat.log2_up (S (S (length l))))%nat by (apply Nat.log2_up_pos; lia). lia.
    - destruct row as [|a [|b l]]; [congruence | destruct fuel; reflexivity |].
      destruct fuel as [|fuel].
      { exfalso. cbn [length] in Hf.
        assert (0 < Nat.log2_up (S (S (length l))))%nat by (apply Nat.log2_up_pos; lia). lia. }
      set (row := a :: b :: l) in *.
      assert (H2 : (2 <= length row)%nat) by (subst row; cbn [length]; lia).
      cbn [Model.Merkle.merkle_loop].
      replace (2 <=? length row)%nat with true by (symmetry; apply Nat.leb_le; exact H2).
      rewrite level_step. cbn [bind].
      change (merkle_levels (S n) row) with (merkle_levels n (next_level row)).
      apply IH.
      + subst row. cbn [Spec.Merkle.next_level]. discriminate.
      + apply next_level_log; assumption.
      + apply next_level_log; assumption.
  Qed.

  Lemma log2_up_le_self n : (Nat.log2_up n <= n)%nat.
  Proof. apply Nat.log2_up_le_lin. lia. Qed.

  (* the specification's level bound is immaterial as soon as it is >= ceil(log2 (length)) *)
  Lemma merkle_levels_enough n row : row <> [] -> (Nat.log2_up (length row) <= n)%nat ->
    merkle_levels n row = merkle row.
  Proof.
    intros Hne Hn.
    pose proof (merkle_loop_spec n n row Hne Hn Hn) as A.
    pose proof (merkle_loop_spec (length row) n row Hne (log2_up_le_self _) Hn) as B.
    rewrite A in B. unfold Spec.Merkle.merkle. congruence.
  Qed.

  (* characterisation of the specification without any bound *)
  Lemma merkle_single a : merkle [a] = a.
  Proof. reflexivity. Qed.

  Lemma merkle_unfold row : (2 <= length row)%nat -> merkle row = merkle (next_level row).
  Proof.
    intros H2. destruct row as [|a [|b l]]; cbn [length] in H2; try lia.
    set (row := a :: b :: l) in *.
    assert (Hne : next_level row <> []) by (subst row; cbn [Spec.Merkle.next_level]; discriminate).
    unfold Spec.Merkle.merkle at 1.
    change (merkle_levels (length row) row) with (merkle_levels (pred (length row)) (next_level row)).
    apply merkle_levels_enough; [exact Hne|].
    apply next_level_log; [subst row; cbn [length]; lia|].
    replace (S (pred (length row))) with (length row) by (subst row; cbn [length]; lia).
    apply log2_up_le_self.
  Qed.

  (* ---- merkle_root ---- *)
  Theorem merkle_root_fuel_spec fuel l : l <> [] -> (Nat.log2_up (length l) <= fuel)%nat ->
    merkle_root_fuel fuel l = Ok (merkle l).
  Proof.
    intros Hne Hf. unfold Model.Merkle.merkle_root_fuel.
    destruct (Nat.eqb_spec (length l) 1) as [E|E].
    - destruct l as [|a [|b l]]; try discriminate E. reflexivity.
    - rewrite (merkle_loop_spec (length l) fuel l Hne (log2_up_le_self _) Hf). reflexivity.
  Qed.

  Theorem merkle_is_spec l : l <> [] -> merkle_root l = Ok (merkle l).
  Proof. intros Hne. apply merkle_root_fuel_spec; [exact Hne | apply log2_up_le_self]. Qed.

  Theorem merkle_root_empty : merkle_root [] = Err IndexE.
  Proof. reflexivity. Qed.

  (* the fuel (= number of txids) is never exhausted, on any input *)
  Theorem merkle_root_no_fuel l : merkle_root l <> Err FuelE.
  Proof.
    destruct l as [|a l]; [discriminate|].
    rewrite merkle_is_spec by discriminate. discriminate.
  Qed.

  (* the number of levels: ceil(log2 n) iterations suffice, one fewer does not when n >= 2 *)
  Theorem merkle_root_levels l : l <> [] ->
    merkle_root_fuel (Nat.log2_up (length l)) l = Ok (merkle l).
  Proof. intros Hne. apply merkle_root_fuel_spec; [exact Hne | lia]. Qed.

  (* all rows have the hash width when the leaves do *)
  Lemma merkle_two a b : merkle [a; b] = Spec.Merkle.hash256 sha256 (a ++ b).
  Proof. reflexivity. Qed.
  Lemma merkle_three a b c :
    merkle [a; b; c] = Spec.Merkle.hash256 sha256
      (Spec.Merkle.hash256 sha256 (a ++ b) ++ Spec.Merkle.hash256 sha256 (c ++ c)).
  Proof. reflexivity. Qed.
End WithHash.
