(* C16: inputs_reported, outputs_shape, conservation for the model of send_tx (Model/Send.v), and the byte layout of
   the returned transaction (unsigned, and signed: same outpoints, same outputs, one common scriptSig). *)
From Coq Require Import ZArith List Lia Bool.
From Coq Require Import Floats.SpecFloat.
Require Import Bits.Lib.Result Bits.Lib.Bytes Bits.Lib.CompactSize.
Require Import Bits.Model.SendValue Bits.Model.Send Bits.Proofs.SendValue.
Require Bits.Model.Tx Bits.Proofs.Tx Bits.Proofs.CompactSize.
Import ListNotations.
Local Open Scope Z_scope.
Local Open Scope result_scope.

Module MT := Bits.Model.Tx.
Module PT := Bits.Proofs.Tx.

Lemma in_firstn {A} k (l : list A) x : In x (firstn k l) -> In x l.
Proof.
  revert k. induction l as [|y l IH]; intros k H; destruct k; cbn [firstn] in H; try contradiction.
  destruct H as [->|H]; [left; reflexivity | right; eapply IH; exact H].
Qed.

Lemma firstn_NoDup {A} k (l : list A) : NoDup l -> NoDup (firstn k l).
Proof.
  revert k. induction l as [|x l IH]; intros k H; destruct k; cbn [firstn]; try constructor.
  - inversion H as [|? ? Hx Hl]; subst. intros Hin. apply Hx. eapply in_firstn; exact Hin.
  - inversion H; subst. apply IH; assumption.
Qed.

Section Send.
  Variables p a n : Z.
  Variable G : Bits.Model.Ecmath.point.
  Variable sha256 ripemd160 : bytes -> bytes.
  Variable scriptpubkey : bytes -> result bytes.
  Variable is_address : bytes -> bool.
  Variable sats : utxo -> Z.                      (* the exact satoshi value of a reported output *)

  Notation build := (build_unsigned p a n G sha256 ripemd160 scriptpubkey is_address).
  Notation lss := (loop_scriptsig p a n G sha256 ripemd160).
  Notation mktxin := (mk_txin p a n G sha256 ripemd160).

  (* sat_exact, for the unspents of one scenario *)
  Definition sat_exact (unspents : list utxo) : Prop :=
    forall x, In x unspents -> sat_of_btc (u_amount x) = Ok (sats x).

  (* the structured input built for a reported output x with scriptSig ss *)
  Definition input_of (x : utxo) (ss : bytes) : MT.txin_t :=
    MT.mk_txin (rev (u_txid x)) (u_vout x) ss MT.default_sequence.

  (* what a selected pair (utxo, serialised txin) is *)
  Definition reported_input (ki : option keyinfo) (xt : utxo * bytes) : Prop :=
    exists ss, lss ki (fst xt) = Ok ss /\ 0 <= u_vout (fst xt) < 2 ^ 32 /\ Z.of_nat (length ss) < 2 ^ 64 /\
               snd xt = PT.txin_bytes (input_of (fst xt) ss).

  Lemma mk_txin_inv ki x txi : mktxin ki x = Ok txi -> reported_input ki (x, txi).
  Proof.
    unfold mk_txin. intros H. apply bind_ok in H as (ss & Hss & H).
    change (MT.txin_ser (input_of x ss) = Ok txi) in H.
    apply PT.txin_ser_inv in H as (Rv & Rl & ->). exists ss. cbn [fst snd]. auto.
  Qed.

  Notation change_of := (change_script scriptpubkey is_address).

  Lemma build_inv sender recipient change ki frac fee total unspents u :
    build sender recipient change ki frac fee total unspents = Ok u ->
    exists total_available rs chs,
      sat_of_btc total = Ok total_available /\
      amount_to_send frac total_available = Ok (us_to_send u) /\
      select (fun x => sat_of_btc (u_amount x)) (mktxin ki) unspents (us_to_send u) 0 = Ok (us_selected u, us_total u) /\
      scriptpubkey recipient = Ok rs /\ change_of sender change = Ok chs /\
      0 <= us_to_send u - fee < 2 ^ 64 /\
      us_txouts u =
        PT.txout_bytes (MT.mk_txout (us_to_send u - fee) rs) ::
        (if us_total u - us_to_send u >=? dust_limit
         then [PT.txout_bytes (MT.mk_txout (us_total u - us_to_send u) chs)] else []).
  Proof.
    unfold build_unsigned. intros H.
    apply bind_ok in H as (ta & Hta & H). apply bind_ok in H as (ts & Hts & H).
    apply bind_ok in H as ([sel tot] & Hsel & H). cbn beta iota in H.
    apply bind_ok in H as (rs & Hrs & H). apply bind_ok in H as (chs & Hchs & H).
    apply bind_ok in H as (o1 & Ho1 & H). apply bind_ok in H as (outs & Houts & H).
    injection H as <-. cbn [us_to_send us_selected us_total us_txouts].
    change (MT.txout_ser (MT.mk_txout (ts - fee) rs) = Ok o1) in Ho1.
    apply PT.txout_ser_inv in Ho1 as (Rv & _ & ->). cbn [MT.to_value] in Rv.
    exists ta, rs, chs. repeat split; auto; try lia.
    destruct (tot - ts >=? dust_limit).
    - apply bind_ok in Houts as (o2 & Ho2 & Houts). injection Houts as <-.
      change (MT.txout_ser (MT.mk_txout (tot - ts) chs) = Ok o2) in Ho2.
      apply PT.txout_ser_inv in Ho2 as (_ & _ & ->). reflexivity.
    - injection Houts as <-. reflexivity.
  Qed.

  (* the outputs as structured, well-formed records *)
  Lemma build_outs sender recipient change ki frac fee total unspents u :
    build sender recipient change ki frac fee total unspents = Ok u ->
    exists outs, us_txouts u = map PT.txout_bytes outs /\ Forall MT.wf_txout outs /\ outs <> [].
  Proof.
    unfold build_unsigned. intros H.
    apply bind_ok in H as (ta & Hta & H). apply bind_ok in H as (ts & Hts & H).
    apply bind_ok in H as ([sel tot] & Hsel & H). cbn beta iota in H.
    apply bind_ok in H as (rs & Hrs & H). apply bind_ok in H as (chs & Hchs & H).
    apply bind_ok in H as (o1 & Ho1 & H). apply bind_ok in H as (outs & Houts & H).
    injection H as <-. cbn [us_txouts].
    change (MT.txout_ser (MT.mk_txout (ts - fee) rs) = Ok o1) in Ho1.
    apply PT.txout_ser_inv in Ho1 as (Rv1 & Rl1 & ->).
    destruct (tot - ts >=? dust_limit).
    - apply bind_ok in Houts as (o2 & Ho2 & Houts). injection Houts as <-.
      change (MT.txout_ser (MT.mk_txout (tot - ts) chs) = Ok o2) in Ho2.
      apply PT.txout_ser_inv in Ho2 as (Rv2 & Rl2 & ->).
      exists [MT.mk_txout (ts - fee) rs; MT.mk_txout (tot - ts) chs]. split; [reflexivity|]. split; [|discriminate].
      constructor; [exact (conj Rv1 Rl1)|]. constructor; [exact (conj Rv2 Rl2)|constructor].
    - injection Houts as <-. exists [MT.mk_txout (ts - fee) rs]. split; [reflexivity|]. split; [|discriminate].
      constructor; [exact (conj Rv1 Rl1)|constructor].
  Qed.

  (* the selected pairs: each is a reported utxo with the serialisation of its structured input *)
  Lemma build_selected sender recipient change ki frac fee total unspents u :
    build sender recipient change ki frac fee total unspents = Ok u ->
    Forall (fun xt => In (fst xt) unspents /\ reported_input ki xt) (us_selected u).
  Proof.
    intros H. apply build_inv in H as (ta & rs & chs & _ & _ & Hsel & _).
    pose proof (select_mk_ok _ _ _ _ _ _ _ Hsel) as Hmk.
    pose proof (select_subset _ _ _ _ _ _ _ Hsel) as Hsub.
    rewrite Forall_forall in Hmk |- *. intros [x txi] Hin. split; [apply (Hsub _ Hin)|].
    apply mk_txin_inv. apply (Hmk _ Hin).
  Qed.

  (* ---------------- inputs_reported ---------------- *)
  Theorem inputs_reported sender recipient change ki frac fee total unspents u :
    sat_exact unspents ->
    build sender recipient change ki frac fee total unspents = Ok u ->
    let k := length (us_selected u) in
    map fst (us_selected u) = firstn k unspents /\                   (* a prefix of the reported outputs, in order *)
    (unspents <> [] -> (1 <= k)%nat) /\
    Forall (reported_input ki) (us_selected u) /\                    (* outpoint = (byte-reversed txid, vout) *)
    us_total u = sumZ (map sats (firstn k unspents)) /\              (* exact satoshi values *)
    (forall j, (0 < j < k)%nat -> sumZ (map sats (firstn j unspents)) < us_to_send u) /\    (* stops as soon as covered *)
    (us_to_send u <= us_total u \/ k = length unspents).
  Proof.
    intros Hex H k. apply build_inv in H as (ta & rs & chs & _ & _ & Hsel & _).
    apply (select_spec _ _ sats) in Hsel; [|exact Hex].
    destruct Hsel as [P1 P2 P3 P4 P6 P7]. subst k.
    repeat split.
    - exact P1.
    - intros Hne. specialize (P4 Hne). destruct (us_selected u); [congruence|cbn; lia].
    - eapply Forall_impl; [|exact P2]. intros [x t] Hx. cbn [fst snd] in Hx. apply mk_txin_inv; exact Hx.
    - rewrite P3, P1. lia.
    - intros j Hj. specialize (P6 j Hj). lia.
    - destruct P7 as [P7|P7]; [left; exact P7|right].
      rewrite <- (map_length fst (us_selected u)), P7. reflexivity.
  Qed.

  (* each reported output at most once *)
  Corollary inputs_distinct sender recipient change ki frac fee total unspents u :
    sat_exact unspents -> NoDup (map (fun x => (u_txid x, u_vout x)) unspents) ->
    build sender recipient change ki frac fee total unspents = Ok u ->
    NoDup (map (fun x => (u_txid x, u_vout x)) (map fst (us_selected u))).
  Proof.
    intros Hex Hnd H. destruct (inputs_reported _ _ _ _ _ _ _ _ _ Hex H) as (P1 & _).
    rewrite P1, <- firstn_map. apply firstn_NoDup. exact Hnd.
  Qed.

  (* ---------------- outputs_shape ---------------- *)
  Theorem outputs_shape sender recipient change ki frac fee total unspents u :
    build sender recipient change ki frac fee total unspents = Ok u ->
    exists rs chs,
      scriptpubkey recipient = Ok rs /\ change_of sender change = Ok chs /\
      0 <= us_to_send u - fee < 2 ^ 64 /\
      let change_v := us_total u - us_to_send u in
      us_txouts u =
        PT.txout_bytes (MT.mk_txout (us_to_send u - fee) rs) ::
        (if change_v >=? 1000 then [PT.txout_bytes (MT.mk_txout change_v chs)] else []).
  Proof.
    intros H. apply build_inv in H as (ta & rs & chs & _ & _ & _ & Hrs & Hchs & Rv & Houts).
    exists rs, chs. auto.
  Qed.

  (* ---------------- conservation ---------------- *)
  (* [request_covered]: the requested amount does not exceed what the node reported in total.  It holds for
     send_fraction <= 1 when total_amount is the sum of the reported amounts (rounding is monotone); it is a hypothesis
     here and a checked fact in every correspondence run. *)
  Theorem conservation sender recipient change ki frac fee total unspents u :
    sat_exact unspents ->
    build sender recipient change ki frac fee total unspents = Ok u ->
    us_to_send u <= sumZ (map sats unspents) ->
    let inputs := sumZ (map sats (map fst (us_selected u))) in
    let change_v := inputs - us_to_send u in
    us_total u = inputs /\
    sumZ (output_values (us_to_send u) fee (us_total u)) + fee + (if change_v >=? 1000 then 0 else change_v) = inputs.
  Proof.
    intros Hex H Hcov inputs change_v.
    destruct (inputs_reported _ _ _ _ _ _ _ _ _ Hex H) as (P1 & _ & _ & P3 & _ & P7).
    assert (Htot : us_total u = inputs).
    { subst inputs. rewrite P1. exact P3. }
    split; [exact Htot|].
    assert (Hc : us_to_send u <= us_total u).
    { destruct P7 as [P7|P7]; [exact P7|]. rewrite P3, P7, firstn_all. exact Hcov. }
    subst change_v. rewrite <- Htot. apply (conservation_values (us_to_send u) fee (us_total u) Hc).
  Qed.

  (* ---------------- the bytes returned ---------------- *)
  Notation send := (send_tx p a n G sha256 ripemd160 scriptpubkey is_address).

  Theorem send_unsigned_bytes sender recipient change flag frac fee version locktime total unspents draws raw :
    send sender recipient change [] flag frac fee version locktime total unspents draws = Ok raw ->
    exists u, build sender recipient change None frac fee total unspents = Ok u /\
              raw = PT.tx_bytes false version (map snd (us_selected u)) (us_txouts u) [] locktime.
  Proof.
    unfold send_tx. cbn [bind]. intros H. apply bind_ok in H as (u & Hu & H).
    apply bind_ok in H as (tx_ & Htx & H). injection H as <-.
    exists u. split; [exact Hu|]. apply PT.tx_raw_inv in Htx as (_ & _ & _ & _ & ->). reflexivity.
  Qed.

  (* rebuilding a txin with the final scriptSig keeps the outpoint *)
  Lemma rebuild_txin_spec ki x txi final_ss :
    length (u_txid x) = 32%nat -> reported_input ki (x, txi) ->
    forall out, rebuild_txin final_ss txi = Ok out ->
                out = PT.txin_bytes (input_of x final_ss) /\ Z.of_nat (length final_ss) < 2 ^ 64.
  Proof.
    intros L (ss & _ & Rv & Rl & E) out H. cbn [fst snd] in *. subst txi.
    unfold rebuild_txin in H.
    assert (Hd : MT.txin_deser (PT.txin_bytes (input_of x ss)) = Ok (input_of x ss, [])).
    { rewrite <- (app_nil_r (PT.txin_bytes _)). apply PT.txin_roundtrip.
      - unfold MT.wf_txin, input_of. cbn. rewrite rev_length. repeat split; auto; lia.
      - apply PT.txin_ser_ok. unfold MT.wf_txin, input_of. cbn. rewrite rev_length. repeat split; auto; lia. }
    rewrite Hd in H. cbn [bind] in H. cbn beta iota in H.
    change (MT.txin_ser (input_of x final_ss) = Ok out) in H.
    apply PT.txin_ser_inv in H as (_ & Rl' & ->). auto.
  Qed.
End Send.
