(* The premises of the BIP340 theorems proved by kernel computation for the two larger small curves
   (p, n) = (79, 67) and (67, 79).  Kept out of the import closure of Props/C12.v so that coqchk of the
   property file does not have to re-run the group-law sweeps of Proofs/SmallCurves79/67.v. *)
From Coq Require Import ZArith List Bool Lia.
Require Import Bits.Lib.Result Bits.Lib.Bytes Bits.Model.Ecmath Bits.Proofs.Ecmath Bits.Proofs.Ecdsa.
Require Import Bits.Proofs.SmallCurves Bits.Proofs.SmallCurvesBig Bits.Proofs.Schnorr Bits.Proofs.SchnorrSign Bits.Proofs.SchnorrSmall.
Local Open Scope Z_scope.

Theorem lift_79 : lift_facts 79. Proof. apply check_lift_sound. vm_compute. reflexivity. Qed.
Theorem lift_67 : lift_facts 67. Proof. apply check_lift_sound. vm_compute. reflexivity. Qed.
Theorem cofactor_79 : cofactor_one 79 0 7 67. Proof. apply check_cofactor_sound. vm_compute. reflexivity. Qed.
Theorem cofactor_67 : cofactor_one 67 0 7 79. Proof. apply check_cofactor_sound. vm_compute. reflexivity. Qed.

(* all premises of the C12 theorems hold on these curves *)
Theorem C12_premises_79 : curve_facts 79 0 7 67 G79 /\ lift_facts 79 /\ cofactor_one 79 0 7 67.
Proof. split; [exact facts_79|]. split; [exact lift_79|exact cofactor_79]. Qed.
Theorem C12_premises_67 : curve_facts 67 0 7 79 G67 /\ lift_facts 67 /\ cofactor_one 67 0 7 79.
Proof. split; [exact facts_67|]. split; [exact lift_67|exact cofactor_67]. Qed.
