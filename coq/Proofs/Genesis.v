(* The model of genesis_coinbase_tx / genesis_block (Model/Genesis.v) produces the published genesis block
   (Spec/Genesis.v), and its nBits field decodes to the main network's maximum target. *)
From Coq Require Import ZArith List Lia Bool.
Require Import Bits.Lib.Result Bits.Lib.Bytes Bits.Model.Tx.
Require Import Bits.Spec.Genesis Bits.Spec.Target Bits.Model.Genesis Bits.Model.Target.
Require Bits.Model.Block.
Import ListNotations.
Import Coq.Init.Byte.
Local Open Scope Z_scope.

(* no hash involved: the 204 bytes of the coinbase transaction *)
Theorem genesis_coinbase_tx_is_published : genesis_coinbase_tx = Ok Bits.Spec.Genesis.genesis_coinbase.
Proof. vm_compute. reflexivity. Qed.

(* for EVERY hash function: the published header with hash256(coinbase) in the merkle root field, count 1, the
   published coinbase transaction *)
Theorem genesis_block_layout (sha256 : bytes -> bytes) :
  genesis_block sha256
  = Ok (genesis_header_prefix ++ sha256 (sha256 Bits.Spec.Genesis.genesis_coinbase) ++ genesis_header_suffix
        ++ [x01] ++ Bits.Spec.Genesis.genesis_coinbase).
Proof.
  unfold genesis_block. rewrite genesis_coinbase_tx_is_published. cbn [bind].
  change (Bits.Model.Merkle.merkle_root sha256 [txid sha256 Bits.Spec.Genesis.genesis_coinbase])
    with (@Ok bytes (sha256 (sha256 Bits.Spec.Genesis.genesis_coinbase))).
  cbn [bind]. generalize (sha256 (sha256 Bits.Spec.Genesis.genesis_coinbase)). intros h.
  cbn. rewrite <- app_assoc. reflexivity.
Qed.

(* with the hash function giving the published txid, the 285 published bytes *)
Theorem genesis_block_is_published (sha256 : bytes -> bytes) :
  sha256 (sha256 Bits.Spec.Genesis.genesis_coinbase) = genesis_merkle_root ->
  genesis_block sha256 = Ok Bits.Spec.Genesis.genesis_block.
Proof.
  intros H. rewrite genesis_block_layout, H. unfold Bits.Spec.Genesis.genesis_block, genesis_header.
  now rewrite <- !app_assoc.
Qed.

(* the header fields the code writes are the published ones *)
Theorem genesis_header_fields :
  Bits.Model.Block.block_header_deser Bits.Spec.Genesis.genesis_header
  = Ok (Bits.Model.Block.mk_header genesis_version (repeat x00 32) genesis_merkle_root genesis_time
          (to_le 4 genesis_nbits) genesis_nonce).
Proof. vm_compute. reflexivity. Qed.

(* target_threshold takes the field in RPC (big-endian) byte order: the main network's difficulty-1 target *)
Theorem genesis_target :
  target_threshold (rev (to_le 4 genesis_nbits)) = PInt (65535 * 256 ^ 26)
  /\ sc_value genesis_nbits = 65535 * 256 ^ 26 /\ sc_negative genesis_nbits = false /\ sc_overflow genesis_nbits = false.
Proof. vm_compute. auto. Qed.
