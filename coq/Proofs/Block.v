(* block_header / block_header_deser are mutually inverse; block_deser . block_ser = id for every transaction
   parser that satisfies the codec law on the serialised transactions; the fuel of block_deser is never
   exhausted when every successful parse consumes at least one byte. *)
From Coq Require Import ZArith List Lia Bool.
Require Import Bits.Lib.Result Bits.Lib.Bytes Bits.Lib.CompactSize.
Require Import Bits.Model.CompactSize Bits.Proofs.CompactSize Bits.Model.Block.
Import ListNotations.
Local Open Scope Z_scope.

(* ---------- list helpers ---------- *)
Lemma firstn_len_app {A} (a r : list A) n : n = length a -> firstn n (a ++ r) = a.
Proof. intros ->. rewrite firstn_app, Nat.sub_diag, firstn_all, firstn_O. apply app_nil_r. Qed.
Lemma skipn_len_app {A} (a r : list A) n : n = length a -> skipn n (a ++ r) = r.
Proof. intros ->. rewrite skipn_app, Nat.sub_diag, skipn_all, skipn_O. reflexivity. Qed.

Lemma skipn_skipn {A} (a b : nat) (l : list A) : skipn a (skipn b l) = skipn (a + b) l.
Proof.
  revert l. induction b as [|b IH]; intros l.
  - now rewrite Nat.add_0_r.
  - rewrite Nat.add_succ_r. destruct l as [|x l]; [now rewrite !skipn_nil|]. cbn [skipn]. apply IH.
Qed.

Lemma Forall2_len {A B} (R : A -> B -> Prop) l1 l2 : Forall2 R l1 l2 -> length l1 = length l2.
Proof. induction 1; cbn [length]; congruence. Qed.

Lemma slice_skipn {A} (i j : nat) (l : list A) : (i <= j)%nat -> slice i j l ++ skipn j l = skipn i l.
Proof.
  intros H. unfold slice. replace j with ((j - i) + i)%nat at 2 by lia.
  rewrite <- skipn_skipn. apply firstn_skipn.
Qed.

Lemma slice_length {A} (i j : nat) (l : list A) : (i <= j <= length l)%nat -> length (slice i j l) = (j - i)%nat.
Proof. intros H. unfold slice. rewrite firstn_length, skipn_length. lia. Qed.

Lemma of_le_lt bs k : length bs = k -> 0 <= of_le bs < 256 ^ Z.of_nat k.
Proof.
  intros <-. unfold of_le. rewrite <- (rev_length bs). split; [apply of_be_nonneg | apply of_be_bound].
Qed.

Lemma to_le_of_le_len bs k : length bs = k -> to_le k (of_le bs) = bs.
Proof. intros <-. apply to_le_of_le. Qed.

Lemma le_chk_ok k v : 0 <= v < 256 ^ Z.of_nat k -> to_le_chk k v = Ok (to_le k v).
Proof.
  intros H. unfold to_le_chk.
  destruct (Z.leb_spec 0 v); [|lia]. destruct (Z.ltb_spec v (256 ^ Z.of_nat k)); [|lia]. reflexivity.
Qed.

Lemma le_chk_inv k v bs : to_le_chk k v = Ok bs -> 0 <= v < 256 ^ Z.of_nat k /\ bs = to_le k v.
Proof.
  unfold to_le_chk. destruct (Z.leb_spec 0 v); destruct (Z.ltb_spec v (256 ^ Z.of_nat k));
    cbn [andb]; intros E; inversion E; subst; auto.
Qed.

(* ---------- header ---------- *)
Definition wf_header (h : header) : Prop :=
  0 <= h_version h < 2 ^ 32 /\ length (h_prev h) = 32%nat /\ length (h_merkle h) = 32%nat /\
  0 <= h_time h < 2 ^ 32 /\ length (h_bits h) = 4%nat /\ 0 <= h_nonce h < 2 ^ 32.

Definition header_bytes (h : header) : bytes :=
  to_le 4 (h_version h) ++ h_prev h ++ h_merkle h ++ to_le 4 (h_time h) ++ h_bits h ++ to_le 4 (h_nonce h).

Lemma block_header_ok h : wf_header h -> block_header h = Ok (header_bytes h).
Proof.
  intros (V & _ & _ & T & _ & N). unfold block_header.
  rewrite !le_chk_ok by (change (256 ^ Z.of_nat 4) with (2 ^ 32); assumption). reflexivity.
Qed.

Lemma header_bytes_length h : wf_header h -> length (header_bytes h) = 80%nat.
Proof.
  intros (_ & P & M & _ & B & _). unfold header_bytes.
  rewrite !app_length, !to_le_length, P, M, B. reflexivity.
Qed.

Lemma block_header_inv h bs : block_header h = Ok bs ->
  bs = header_bytes h /\ 0 <= h_version h < 2 ^ 32 /\ 0 <= h_time h < 2 ^ 32 /\ 0 <= h_nonce h < 2 ^ 32.
Proof.
  unfold block_header. intros E.
  apply bind_ok in E as (v & E1 & E). apply bind_ok in E as (t & E2 & E). apply bind_ok in E as (n & E3 & E).
  apply le_chk_inv in E1 as [R1 ->]. apply le_chk_inv in E2 as [R2 ->]. apply le_chk_inv in E3 as [R3 ->].
  change (256 ^ Z.of_nat 4) with (2 ^ 32) in *. inversion E. auto.
Qed.

Theorem header_roundtrip h : wf_header h ->
  block_header h = Ok (header_bytes h) /\ block_header_deser (header_bytes h) = Ok h.
Proof.
  intros W. split; [apply block_header_ok, W|].
  pose proof (header_bytes_length h W) as L80.
  destruct W as (V & P & M & T & B & N). destruct h as [v p m t b n]. cbn [h_version h_prev h_merkle h_time h_bits h_nonce] in *.
  unfold block_header_deser. rewrite L80. cbn [Nat.eqb]. unfold header_bytes in *.
  cbn [h_version h_prev h_merkle h_time h_bits h_nonce] in *.
  set (V4 := to_le 4 v). set (T4 := to_le 4 t). set (N4 := to_le 4 n).
  assert (LV : length V4 = 4%nat) by apply to_le_length.
  assert (LT : length T4 = 4%nat) by apply to_le_length.
  assert (LN : length N4 = 4%nat) by apply to_le_length.
  (* peel the fields one by one *)
  assert (S4 : skipn 4 (V4 ++ p ++ m ++ T4 ++ b ++ N4) = p ++ m ++ T4 ++ b ++ N4)
    by (apply skipn_len_app; auto).
  assert (S36 : skipn 36 (V4 ++ p ++ m ++ T4 ++ b ++ N4) = m ++ T4 ++ b ++ N4).
  { change 36%nat with (32 + 4)%nat. rewrite <- skipn_skipn, S4. apply skipn_len_app; auto. }
  assert (S68 : skipn 68 (V4 ++ p ++ m ++ T4 ++ b ++ N4) = T4 ++ b ++ N4).
  { change 68%nat with (32 + 36)%nat. rewrite <- skipn_skipn, S36. apply skipn_len_app; auto. }
  assert (S72 : skipn 72 (V4 ++ p ++ m ++ T4 ++ b ++ N4) = b ++ N4).
  { change 72%nat with (4 + 68)%nat. rewrite <- skipn_skipn, S68. apply skipn_len_app; auto. }
  assert (S76 : skipn 76 (V4 ++ p ++ m ++ T4 ++ b ++ N4) = N4).
  { change 76%nat with (4 + 72)%nat. rewrite <- skipn_skipn, S72. apply skipn_len_app; auto. }
  unfold slice. rewrite S4, S36, S68, S72, S76.
  change (36 - 4)%nat with 32%nat. change (68 - 36)%nat with 32%nat.
  change (72 - 68)%nat with 4%nat. change (76 - 72)%nat with 4%nat.
  rewrite !firstn_len_app by auto.
  subst V4 T4 N4.
  rewrite !of_le_to_le by (change (256 ^ Z.of_nat 4) with (2 ^ 32); assumption).
  reflexivity.
Qed.

(* every 80-byte string is the header of exactly the fields block_header_deser returns *)
Theorem header_deser_ser bs h : block_header_deser bs = Ok h ->
  length bs = 80%nat /\ wf_header h /\ block_header h = Ok bs.
Proof.
  unfold block_header_deser. destruct (Nat.eqb_spec (length bs) 80) as [L|L]; [|discriminate].
  intros E. apply (f_equal (fun r => match r with Ok x => x | Err _ => h end)) in E. cbv beta iota in E.
  subst h. split; [exact L|].
  assert (L1 : length (firstn 4 bs) = 4%nat) by (rewrite firstn_length; lia).
  assert (L2 : length (slice 4 36 bs) = 32%nat) by (rewrite slice_length; lia).
  assert (L3 : length (slice 36 68 bs) = 32%nat) by (rewrite slice_length; lia).
  assert (L4 : length (slice 68 72 bs) = 4%nat) by (rewrite slice_length; lia).
  assert (L5 : length (slice 72 76 bs) = 4%nat) by (rewrite slice_length; lia).
  assert (L6 : length (skipn 76 bs) = 4%nat) by (rewrite skipn_length; lia).
  assert (W : wf_header (mk_header (of_le (firstn 4 bs)) (slice 4 36 bs) (slice 36 68 bs)
                                   (of_le (slice 68 72 bs)) (slice 72 76 bs) (of_le (skipn 76 bs)))).
  { unfold wf_header. cbn [h_version h_prev h_merkle h_time h_bits h_nonce].
    pose proof (of_le_lt _ 4 L1) as R1. pose proof (of_le_lt _ 4 L4) as R4. pose proof (of_le_lt _ 4 L6) as R6.
    change (256 ^ Z.of_nat 4) with (2 ^ 32) in *.
    split; [exact R1|]. split; [exact L2|]. split; [exact L3|]. split; [exact R4|]. split; [exact L5|exact R6]. }
  split; [exact W|]. rewrite block_header_ok by exact W. f_equal.
  unfold header_bytes. cbn [h_version h_prev h_merkle h_time h_bits h_nonce].
  rewrite !(to_le_of_le_len _ 4) by assumption.
  rewrite (slice_skipn 72 76), (slice_skipn 68 72), (slice_skipn 36 68), (slice_skipn 4 36) by lia.
  change (firstn 4 bs) with (slice 0 4 bs). rewrite (slice_skipn 0 4) by lia. reflexivity.
Qed.

Theorem header_deser_ok_iff bs : (exists h, block_header_deser bs = Ok h) <-> length bs = 80%nat.
Proof.
  split.
  - intros [h E]. now apply header_deser_ser in E.
  - intros L. unfold block_header_deser. rewrite L. cbn [Nat.eqb]. eauto.
Qed.

Theorem header_deser_err bs e : block_header_deser bs = Err e -> e = AssertionE /\ length bs <> 80%nat.
Proof.
  unfold block_header_deser. destruct (Nat.eqb_spec (length bs) 80); [discriminate|].
  intros E; inversion E; auto.
Qed.

(* ---------- blocks ---------- *)
Section WithTxParser.
  Variable T : Type.
  Variable tx_deser : bytes -> result (T * bytes).

  (* [raw] is a serialised transaction that the parser reads back as [p], whatever follows it *)
  Definition parses_as (raw : bytes) (p : T) : Prop :=
    raw <> [] /\ forall rest, tx_deser (raw ++ rest) = Ok (p, rest).

  Lemma block_txs_loop_roundtrip txns ps : Forall2 parses_as txns ps ->
    forall fuel acc, (length (concat txns) <= fuel)%nat ->
    block_txs_loop T tx_deser fuel (concat txns) acc = Ok (rev acc ++ ps).
  Proof.
    induction 1 as [|raw p txns ps [Hne Hp] _ IH]; intros fuel acc Hf.
    - cbn [concat]. destruct fuel; cbn [block_txs_loop]; now rewrite app_nil_r.
    - cbn [concat] in *. rewrite app_length in Hf.
      destruct raw as [|b raw']; [congruence|].
      destruct fuel as [|fuel]; [cbn [length] in Hf; lia|].
      change ((b :: raw') ++ concat txns) with (b :: (raw' ++ concat txns)).
      cbn [block_txs_loop]. change (b :: (raw' ++ concat txns)) with ((b :: raw') ++ concat txns).
      rewrite Hp. cbn [bind].
      rewrite IH by (cbn [length] in Hf; lia). cbn [rev]. now rewrite <- app_assoc.
  Qed.

  Theorem block_roundtrip_gen hdr h txns ps :
    block_header_deser hdr = Ok h -> Forall2 parses_as txns ps -> Z.of_nat (length txns) < 2 ^ 64 ->
    exists blk, block_ser hdr txns = Ok blk /\ block_deser T tx_deser blk = Ok (h, ps).
  Proof.
    intros HD F L. pose proof (header_deser_ser hdr h HD) as (L80 & _ & _).
    unfold block_ser. rewrite compact_size_uint_spec by lia. cbn [bind].
    eexists. split; [reflexivity|]. unfold block_deser.
    rewrite (firstn_len_app hdr _ 80), (skipn_len_app hdr _ 80) by auto.
    rewrite parse_cs_enc by lia. cbn [bind].
    rewrite (block_txs_loop_roundtrip txns ps F) by lia. cbn [bind rev app].
    rewrite <- (Forall2_len _ _ _ F). rewrite Z.eqb_refl. rewrite HD. reflexivity.
  Qed.

  (* ---- fuel ---- *)
  Hypothesis tx_deser_consumes : forall bs p rest, tx_deser bs = Ok (p, rest) -> (length rest < length bs)%nat.

  Lemma block_txs_loop_no_fuel : forall fuel bs acc, (length bs <= fuel)%nat ->
    block_txs_loop T tx_deser fuel bs acc <> Err FuelE \/
    exists bs', (bs' <> [] /\ tx_deser bs' = Err FuelE).
  Proof.
    induction fuel as [|fuel IH]; intros bs acc Hf.
    - destruct bs; [left; discriminate | cbn [length] in Hf; lia].
    - destruct bs as [|b bs]; [left; discriminate|].
      cbn [block_txs_loop]. destruct (tx_deser (b :: bs)) as [[p rest]|e] eqn:E.
      + cbn [bind]. apply IH. apply tx_deser_consumes in E. cbn [length] in *. lia.
      + cbn [bind]. destruct e; try (left; discriminate). right. exists (b :: bs). split; [discriminate|exact E].
  Qed.

  (* if the transaction parser itself never runs out of fuel, neither does block_deser *)
  Theorem block_deser_no_fuel block :
    (forall bs, tx_deser bs <> Err FuelE) -> block_deser T tx_deser block <> Err FuelE.
  Proof.
    intros NF. unfold block_deser.
    destruct (parse_compact_size_uint (skipn 80 block)) as [[n rest]|e] eqn:P.
    - cbn [bind].
      destruct (block_txs_loop_no_fuel (length rest) rest [] (le_n _)) as [H|(bs' & _ & H)];
        [|exfalso; exact (NF bs' H)].
      destruct (block_txs_loop T tx_deser (length rest) rest []) as [txns|e]; cbn [bind].
      + destruct (Z.of_nat (length txns) =? n); [|discriminate].
        destruct (block_header_deser (firstn 80 block)) as [hd|e] eqn:HD; cbn [bind]; [discriminate|].
        apply header_deser_err in HD as [-> _]. discriminate.
      + intros E. inversion E. subst. apply H. reflexivity.
    - cbn [bind]. unfold parse_compact_size_uint in P. destruct (skipn 80 block); [|repeat destruct (_ =? _); discriminate].
      inversion P. discriminate.
  Qed.
End WithTxParser.
