(* C16, send_valid in the template form: the main theorem.  For every sender kind of send_tx, every selected input of the SIGNED
   transaction it returns is unlocked (Spec/Sighash.unlocks) by the scriptSig items and the witness stack placed for it, for the
   lock its reported scriptPubKey denotes - provided that scriptPubKey is the standard script of the sender's keys ([pays_to]). *)
From Coq Require Import ZArith List Lia Bool.
From Coq Require Import Floats.SpecFloat.
Require Import Bits.Lib.Result Bits.Lib.Bytes Bits.Lib.PyStr Bits.Lib.CompactSize.
Require Import Bits.Spec.Bip66 Bits.Spec.Bip143 Bits.Spec.Sighash Bits.Spec.ScriptTemplatesDecode.
Require Import Bits.Model.Ecmath Bits.Model.SendValue Bits.Model.Send Bits.Model.Script.
Require Import Bits.Proofs.Ecdsa Bits.Proofs.Sec1 Bits.Proofs.ScriptWitness.
Require Import Bits.Proofs.SendValue Bits.Proofs.Send Bits.Proofs.SendSign Bits.Proofs.SendValid.
Require Import Bits.Proofs.SendUnlocks Bits.Proofs.SendUnlocks2 Bits.Proofs.SendUnlocks3 Bits.Proofs.SendUnlocks4
        Bits.Proofs.SendUnlocks5 Bits.Proofs.SendUnlocks6 Bits.Proofs.SendUnlocks7.
Require Bits.Model.Tx Bits.Proofs.Tx.
Import ListNotations.
Import Coq.Init.Byte.
Local Open Scope Z_scope.

Theorem send_unlocks :
  forall (p a b n : Z) (G : point) (sha256 ripemd160 : bytes -> bytes) (scriptpubkey : bytes -> result bytes)
         (is_address : bytes -> bool),
    curve_facts p a b n G -> sqrt_facts p -> p <= 2 ^ 256 -> n <= 2 ^ 256 ->
    (forall m, length (ripemd160 m) = 20%nat) -> (forall m, length (sha256 m) = 32%nat) ->
    forall (sats : utxo -> Z) sender recipient change sk sks f frac fee version locktime total unspents draws raw,
    send_tx p a n G sha256 ripemd160 scriptpubkey is_address sender recipient change (sk :: sks) (Some f) frac fee version locktime
            total unspents draws = Ok raw ->
    (forall x, In x unspents -> length (u_txid x) = 32%nat /\ sat_of_btc (u_amount x) = Ok (sats x) /\ 0 <= sats x < 2 ^ 64) ->
    standard_flag f ->
    (forall k, decode_keys sha256 (sk :: sks) (Some f) = Ok k ->
               forall x, In x unspents -> pays_to p a b n G sha256 ripemd160 k (u_spk x)) ->
    exists k u,
      decode_keys sha256 (sk :: sks) (Some f) = Ok k /\
      build_unsigned p a n G sha256 ripemd160 scriptpubkey is_address sender recipient change (Some k) frac fee total unspents = Ok u /\
      send_unlocks_concl p a b n G sha256 ripemd160 sats k u version locktime raw.
Proof.
  intros p a b n G sha256 ripemd160 scriptpubkey is_address facts SQ Hpw Hnw Hr160 Hs256
         sats sender recipient change sk sks f frac fee version locktime total unspents draws raw Hsend Hun Hf Hpays.
  destruct (send_tx_inv p a n G sha256 ripemd160 scriptpubkey is_address _ _ _ _ _ _ _ _ _ _ _ _ _ _ Hsend)
    as (k & u & sigs & left & sss & witb & txins' & ul & txl & Hk & Hb & Hsign & Hul & Hleft & Hasm & Hreb & Hraw).
  exists k, u. split; [exact Hk|]. split; [exact Hb|].
  pose proof (Hpays k Hk) as Hp.
  destruct (Bits.Proofs.Tx.tx_raw_inv _ _ _ _ _ _ Hraw) as (Rv & Rl & _).
  assert (Hulin : In ul unspents).
  { pose proof (build_selected _ _ _ _ _ _ _ _ _ _ _ _ _ _ _ _ _ Hb) as Hsel. rewrite Forall_forall in Hsel. apply (Hsel _ Hul). }
  destruct (kind_of (ki_type k)) as [kd|] eqn:EK.
  2:{ pose proof (Hp _ Hulin) as H. unfold pays_to in H. rewrite EK in H. contradiction. }
  apply kind_of_sound in EK. destruct kd; cbn [kind_name] in EK.
  - eapply case_p2pk; eauto.
  - eapply case_p2pkh; eauto.
  - eapply case_multisig; eauto.
  - eapply case_p2sh; eauto.
  - eapply case_p2wpkh; eauto.
  - eapply case_p2wsh; eauto.
  - eapply case_p2sh_p2wpkh; eauto.
  - eapply case_p2sh_p2wsh; eauto.
Qed.

(* the finding: send_tx signs with ALL the keys it is given.  For an m-of-n script with more than m keys supplied, the
   scriptSig / witness it assembles carries more than m signatures and is NOT valid (OP_CHECKMULTISIG pops exactly m signatures;
   the surplus leaves a non-empty dummy / an unclean stack) *)
Theorem multisig_surplus_keys_refuted :
  forall sha256 ripemd160 ecdsa strict_der (dg : Z -> option bytes) m pks sgs,
    length sgs <> m -> ~ inner_unlocks sha256 ripemd160 ecdsa strict_der dg (I_multisig m pks) ([] :: sgs).
Proof. intros * Hne (sigs & E & L & _). injection E as <-. contradiction. Qed.
