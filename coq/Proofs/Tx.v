(* Proofs about the transaction codec (Model/Tx.v): prefix laws of the components, then the round trip. *)
From Coq Require Import ZArith List Lia Bool.
Require Import Bits.Lib.Result Bits.Lib.Bytes Bits.Lib.CompactSize.
Require Import Bits.Model.CompactSize Bits.Model.Witness Bits.Model.Tx.
Require Import Bits.Proofs.CompactSize Bits.Proofs.Witness.
Import ListNotations.
Import Coq.Init.Byte.
Local Open Scope Z_scope.

(* ---------------- generic list / codec facts ---------------- *)
Lemma firstn_app_exact {A} k (a r : list A) : length a = k -> firstn k (a ++ r) = a.
Proof. intros <-. rewrite firstn_app, Nat.sub_diag, firstn_all. cbn [firstn]. apply app_nil_r. Qed.
Lemma skipn_app_exact {A} k (a r : list A) : length a = k -> skipn k (a ++ r) = r.
Proof. intros <-. rewrite skipn_app, Nat.sub_diag, skipn_all. reflexivity. Qed.

Lemma to_le_chk_inv k v bs : to_le_chk k v = Ok bs -> 0 <= v < 256 ^ Z.of_nat k /\ bs = to_le k v.
Proof.
  unfold to_le_chk. destruct (Z.leb_spec 0 v); destruct (Z.ltb_spec v (256 ^ Z.of_nat k));
    cbn [andb]; try discriminate. intros E; injection E as <-. split; [lia|reflexivity].
Qed.
Lemma to_le_chk_ok k v : 0 <= v < 256 ^ Z.of_nat k -> to_le_chk k v = Ok (to_le k v).
Proof.
  intros R. unfold to_le_chk. destruct (Z.leb_spec 0 v); destruct (Z.ltb_spec v (256 ^ Z.of_nat k));
    cbn [andb]; try lia. reflexivity.
Qed.

Lemma mapM_cons_inv {A B} (f : A -> result B) x xs ys : mapM f (x :: xs) = Ok ys ->
  exists y ys', f x = Ok y /\ mapM f xs = Ok ys' /\ ys = y :: ys'.
Proof.
  cbn [mapM]. intros H. apply bind_ok in H as (y & Hy & H). apply bind_ok in H as (ys' & Hys & H).
  injection H as <-. eauto.
Qed.

Lemma mapM_length {A B} (f : A -> result B) xs ys : mapM f xs = Ok ys -> length ys = length xs.
Proof.
  revert ys. induction xs as [|x xs IH]; intros ys H.
  - injection H as <-. reflexivity.
  - apply mapM_cons_inv in H as (y & ys' & _ & H & ->). cbn [length]. f_equal. now apply IH.
Qed.

Lemma mapM_ok {A B} (f : A -> result B) (P : A -> Prop) xs :
  (forall x, P x -> exists y, f x = Ok y) -> Forall P xs -> exists ys, mapM f xs = Ok ys.
Proof.
  intros Hf. induction 1 as [|x xs Hx _ IH]; [eexists; reflexivity|].
  destruct (Hf x Hx) as [y Hy]. destruct IH as [ys Hys]. cbn [mapM]. rewrite Hy. cbn [bind].
  rewrite Hys. cbn [bind]. eauto.
Qed.

(* serialisations of at least one byte each: the concatenation is at least as long as the list *)
Lemma mapM_concat_length {A} (f : A -> result bytes) xs bss :
  (forall x bs, f x = Ok bs -> (1 <= length bs)%nat) -> mapM f xs = Ok bss ->
  (length xs <= length (concat bss))%nat.
Proof.
  intros Hf. revert bss. induction xs as [|x xs IH]; intros bss H; [cbn; lia|].
  apply mapM_cons_inv in H as (y & ys' & Hy & H & ->). cbn [concat length]. rewrite app_length.
  apply Hf in Hy. apply IH in H. lia.
Qed.

(* prefix law of a counted repetition, from the prefix law of the element *)
Lemma parse_n_roundtrip {A} (ser : A -> result bytes) (item : bytes -> result (A * bytes)) (P : A -> Prop) :
  (forall a bs rest, P a -> ser a = Ok bs -> item (bs ++ rest) = Ok (a, rest)) ->
  forall xs bss acc fuel rest, Forall P xs -> mapM ser xs = Ok bss -> (length xs <= fuel)%nat ->
  parse_n item fuel (Z.of_nat (length xs)) acc (concat bss ++ rest) = Ok (rev acc ++ xs, rest).
Proof.
  intros Law. induction xs as [|x xs IH]; intros bss acc fuel rest F H L.
  - injection H as <-. destruct fuel; cbn [parse_n length Z.of_nat Z.leb Z.compare concat app];
      now rewrite rev_append_rev, !app_nil_r.
  - apply mapM_cons_inv in H as (y & ys' & Hy & H & ->). inversion F as [|? ? Px Fxs]; subst.
    destruct fuel as [|f]; [cbn [length] in L; lia|]. cbn [parse_n].
    destruct (Z.leb_spec (Z.of_nat (length (x :: xs))) 0) as [E|E]; [cbn [length] in E; lia|].
    cbn [concat]. rewrite <- app_assoc. rewrite (Law x y _ Px Hy). cbn [bind].
    replace (Z.of_nat (length (x :: xs)) - 1) with (Z.of_nat (length xs)) by (cbn [length]; lia).
    rewrite IH; [|assumption|assumption|cbn [length] in L; lia]. cbn [rev]. now rewrite <- app_assoc.
Qed.

Lemma parse_wits_roundtrip {I} : forall (ins : list I) ws wss acc rest,
  length ws = length ins -> mapM witness_ser ws = Ok wss ->
  parse_wits ins acc (concat wss ++ rest) = Ok (rev acc ++ ws, rest).
Proof.
  induction ins as [|i ins IH]; intros ws wss acc rest L H.
  - destruct ws; [|discriminate]. injection H as <-. cbn [parse_wits concat app].
    now rewrite rev_append_rev, !app_nil_r.
  - destruct ws as [|w ws]; [discriminate|]. apply mapM_cons_inv in H as (y & ys' & Hy & H & ->).
    cbn [parse_wits concat]. rewrite <- app_assoc. rewrite (witness_stack_roundtrip w y Hy). cbn [bind].
    rewrite (IH ws ys'); [|cbn [length] in L; lia|assumption]. cbn [rev]. now rewrite <- app_assoc.
Qed.

(* ---------------- inputs and outputs ---------------- *)
Definition txin_bytes (i : txin_t) : bytes :=
  ti_txid i ++ to_le 4 (ti_vout i) ++ cs_enc (Z.of_nat (length (ti_script i))) ++ ti_script i ++ ti_seq i.
Definition txout_bytes (o : txout_t) : bytes :=
  to_le 8 (to_value o) ++ cs_enc (Z.of_nat (length (to_script o))) ++ to_script o.

Lemma txin_ser_inv i bs : txin_ser i = Ok bs ->
  0 <= ti_vout i < 2 ^ 32 /\ Z.of_nat (length (ti_script i)) < 2 ^ 64 /\ bs = txin_bytes i.
Proof.
  unfold txin_ser, outpoint, txin. intros H. apply bind_ok in H as (op & Hop & H).
  apply bind_ok in Hop as (v & Hv & Hop). injection Hop as <-.
  apply bind_ok in H as (l & Hl & H). injection H as <-.
  apply to_le_chk_inv in Hv as (Rv & ->). apply compact_size_uint_inv in Hl as (Rl & ->).
  change (256 ^ Z.of_nat 4) with (2 ^ 32) in Rv. split; [lia|]. split; [lia|].
  unfold txin_bytes. now rewrite <- !app_assoc.
Qed.

Lemma txin_ser_ok i : wf_txin i -> txin_ser i = Ok (txin_bytes i).
Proof.
  intros (_ & Rv & Rl & _). unfold txin_ser, outpoint, txin.
  rewrite to_le_chk_ok by (change (256 ^ Z.of_nat 4) with (2 ^ 32); lia). cbn [bind].
  rewrite compact_size_uint_spec by lia. cbn [bind]. unfold txin_bytes. now rewrite <- !app_assoc.
Qed.

Lemma txout_ser_inv o bs : txout_ser o = Ok bs ->
  0 <= to_value o < 2 ^ 64 /\ Z.of_nat (length (to_script o)) < 2 ^ 64 /\ bs = txout_bytes o.
Proof.
  unfold txout_ser, txout. intros H. apply bind_ok in H as (v & Hv & H).
  apply bind_ok in H as (l & Hl & H). injection H as <-.
  apply to_le_chk_inv in Hv as (Rv & ->). apply compact_size_uint_inv in Hl as (Rl & ->).
  change (256 ^ Z.of_nat 8) with (2 ^ 64) in Rv. split; [lia|]. split; [lia|reflexivity].
Qed.

Lemma txout_ser_ok o : wf_txout o -> txout_ser o = Ok (txout_bytes o).
Proof.
  intros (Rv & Rl). unfold txout_ser, txout.
  rewrite to_le_chk_ok by (change (256 ^ Z.of_nat 8) with (2 ^ 64); lia). cbn [bind].
  rewrite compact_size_uint_spec by lia. reflexivity.
Qed.

(* prefix law of one input *)
Lemma txin_roundtrip i bs rest : wf_txin i -> txin_ser i = Ok bs -> txin_deser (bs ++ rest) = Ok (i, rest).
Proof.
  intros (Lt & Rv & Rl & Ls) H. apply txin_ser_inv in H as (_ & _ & ->).
  unfold txin_deser, txin_bytes. rewrite <- !app_assoc.
  set (tail := cs_enc _ ++ _).
  assert (E36 : skipn 36 (ti_txid i ++ to_le 4 (ti_vout i) ++ tail) = tail).
  { rewrite app_assoc. apply skipn_app_exact. rewrite app_length, to_le_length. lia. }
  assert (E32 : firstn 32 (ti_txid i ++ to_le 4 (ti_vout i) ++ tail) = ti_txid i)
    by now apply firstn_app_exact.
  assert (EV : slice 32 36 (ti_txid i ++ to_le 4 (ti_vout i) ++ tail) = to_le 4 (ti_vout i)).
  { unfold slice. rewrite (skipn_app_exact 32) by assumption. change (36 - 32)%nat with 4%nat.
    apply firstn_app_exact, to_le_length. }
  rewrite E36, E32, EV. subst tail. rewrite parse_cs_enc by lia. cbn [bind].
  rewrite takeZ_app, dropZ_app. rewrite (firstn_app_exact 4) by assumption.
  rewrite (skipn_app_exact 4) by assumption.
  rewrite of_le_to_le by (change (256 ^ Z.of_nat 4) with (2 ^ 32); lia). destruct i; reflexivity.
Qed.

Lemma txout_roundtrip o bs rest : wf_txout o -> txout_ser o = Ok bs -> txout_deser (bs ++ rest) = Ok (o, rest).
Proof.
  intros (Rv & Rl) H. apply txout_ser_inv in H as (_ & _ & ->).
  unfold txout_deser, txout_bytes. rewrite <- !app_assoc.
  rewrite (firstn_app_exact 8) by apply to_le_length. rewrite (skipn_app_exact 8) by apply to_le_length.
  rewrite parse_cs_enc by lia. cbn [bind]. rewrite takeZ_app, dropZ_app.
  rewrite of_le_to_le by (change (256 ^ Z.of_nat 8) with (2 ^ 64); lia). destruct o; reflexivity.
Qed.

Lemma txin_ser_nonempty i bs : txin_ser i = Ok bs -> (1 <= length bs)%nat.
Proof.
  intros H. apply txin_ser_inv in H as (_ & _ & ->). unfold txin_bytes.
  rewrite !app_length, to_le_length. lia.
Qed.
Lemma txout_ser_nonempty o bs : txout_ser o = Ok bs -> (1 <= length bs)%nat.
Proof.
  intros H. apply txout_ser_inv in H as (_ & _ & ->). unfold txout_bytes.
  rewrite !app_length, to_le_length. lia.
Qed.

(* ---------------- the whole transaction ---------------- *)
(* the byte string tx() produces, [sw] = segwit form *)
Definition tx_bytes (sw : bool) (v : Z) (inss outss wss : list bytes) (lt : Z) : bytes :=
  to_le 4 v ++ (if sw then [x00; x01] else []) ++ cs_enc (Z.of_nat (length inss)) ++ concat inss ++
  cs_enc (Z.of_nat (length outss)) ++ concat outss ++ (if sw then concat wss else []) ++ to_le 4 lt.

Lemma tx_raw_inv ins outs v lt wits bs : tx_raw ins outs v lt wits = Ok bs ->
  0 <= v < 2 ^ 32 /\ 0 <= lt < 2 ^ 32 /\ Z.of_nat (length ins) < 2 ^ 64 /\ Z.of_nat (length outs) < 2 ^ 64 /\
  bs = tx_bytes (match wits with [] => false | _ => true end) v ins outs wits lt.
Proof.
  unfold tx_raw. destruct wits as [|w wits]; intros H;
    apply bind_ok in H as (a & Ha & H); apply bind_ok in H as (b & Hb & H);
    apply bind_ok in H as (c & Hc & H); apply bind_ok in H as (d & Hd & H); injection H as <-;
    apply to_le_chk_inv in Ha as (Ra & ->); apply to_le_chk_inv in Hd as (Rd & ->);
    apply compact_size_uint_inv in Hb as (Rb & ->); apply compact_size_uint_inv in Hc as (Rc & ->);
    change (256 ^ Z.of_nat 4) with (2 ^ 32) in *; (repeat split; try lia); reflexivity.
Qed.

Lemma tx_raw_ok ins outs v lt wits :
  0 <= v < 2 ^ 32 -> 0 <= lt < 2 ^ 32 -> Z.of_nat (length ins) < 2 ^ 64 -> Z.of_nat (length outs) < 2 ^ 64 ->
  tx_raw ins outs v lt wits = Ok (tx_bytes (match wits with [] => false | _ => true end) v ins outs wits lt).
Proof.
  intros Rv Rl Ri Ro. unfold tx_raw.
  destruct wits as [|w wits];
    rewrite !to_le_chk_ok by (change (256 ^ Z.of_nat 4) with (2 ^ 32); lia);
    rewrite !compact_size_uint_spec by lia; reflexivity.
Qed.

Lemma detect_segwit_legacy n p : n <> 0 -> detect_segwit n p = Ok (false, n, p).
Proof. intros H. unfold detect_segwit. destruct p; [reflexivity|]. destruct (Z.eqb_spec n 0); [lia|reflexivity]. Qed.

Lemma detect_segwit_marker n r : 0 <= n < 2 ^ 64 ->
  detect_segwit 0 (x01 :: cs_enc n ++ r) = Ok (true, n, r).
Proof.
  intros H. unfold detect_segwit. change (0 =? 0) with true. change (b2z x01 =? 1) with true.
  cbn [assert_ bind skipn]. rewrite parse_cs_enc by lia. reflexivity.
Qed.

Section Main.
  Variable sha256 : bytes -> bytes.

  Lemma tx_deser_bytes (sw : bool) v ins inss outs outss ws wss lt rest :
    0 <= v < 2 ^ 32 -> 0 <= lt < 2 ^ 32 ->
    ins <> [] -> Z.of_nat (length ins) < 2 ^ 64 -> Forall wf_txin ins -> mapM txin_ser ins = Ok inss ->
    Z.of_nat (length outs) < 2 ^ 64 -> Forall wf_txout outs -> mapM txout_ser outs = Ok outss ->
    (sw = true -> length ws = length ins /\ mapM witness_ser ws = Ok wss) ->
    tx_deser sha256 (tx_bytes sw v inss outss wss lt ++ rest) =
    Ok (mk_parsed (hash256 sha256 (tx_bytes false v inss outss [] lt))
                  (hash256 sha256 (tx_bytes sw v inss outss wss lt))
                  (tx_bytes sw v inss outss wss lt)
                  (mk_tx v ins outs (if sw then Some ws else None) lt), rest).
  Proof.
    intros Rv Rl Ne Ri Fi Hi Ro Fo Ho Hw.
    pose proof (mapM_length _ _ _ Hi) as Li. pose proof (mapM_length _ _ _ Ho) as Lo.
    set (B := tx_bytes sw v inss outss wss lt). set (tx_ := B ++ rest).
    set (wtail := (if sw then concat wss else []) ++ to_le 4 lt ++ rest).
    set (otail := cs_enc (Z.of_nat (length outss)) ++ concat outss ++ wtail).
    set (itail := cs_enc (Z.of_nat (length inss)) ++ concat inss ++ otail).
    assert (E : tx_ = to_le 4 v ++ (if sw then [x00; x01] else []) ++ itail).
    { subst tx_ B itail otail wtail. unfold tx_bytes. now rewrite <- !app_assoc. }
    assert (F4 : firstn 4 tx_ = to_le 4 v) by (rewrite E; apply firstn_app_exact, to_le_length).
    assert (S4 : skipn 4 tx_ = (if sw then [x00; x01] else []) ++ itail)
      by (rewrite E; apply skipn_app_exact, to_le_length).
    assert (Raw : firstn (length tx_ - length rest) tx_ = B).
    { subst tx_. rewrite app_length, Nat.add_sub. now apply firstn_app_exact. }
    unfold tx_deser. rewrite F4, S4.
    (* marker / flag *)
    assert (P0 : parse_compact_size_uint ((if sw then [x00; x01] else []) ++ itail)
                 = Ok (if sw then 0 else Z.of_nat (length inss),
                       if sw then x01 :: itail else concat inss ++ otail)).
    { destruct sw; [reflexivity|]. cbn [app]. subst itail. now rewrite parse_cs_enc by lia. }
    assert (D : detect_segwit (if sw then 0 else Z.of_nat (length inss))
                              (if sw then x01 :: itail else concat inss ++ otail)
                = Ok (sw, Z.of_nat (length inss), concat inss ++ otail)).
    { destruct sw.
      - subst itail. apply detect_segwit_marker. lia.
      - apply detect_segwit_legacy. destruct ins; [congruence|]. cbn [length] in Li. lia. }
    rewrite P0. cbn [bind].
    match goal with |- context [detect_segwit ?a ?b] =>
      replace (detect_segwit a b) with (@Ok (bool * Z * bytes) (sw, Z.of_nat (length inss), concat inss ++ otail))
        by (symmetry; exact D) end.
    cbn [bind]. clear P0 D.
    (* inputs *)
    rewrite Li.
    rewrite (parse_n_roundtrip txin_ser txin_deser wf_txin txin_roundtrip ins inss [] _ otail Fi Hi).
    2:{ pose proof (mapM_concat_length _ _ _ txin_ser_nonempty Hi). rewrite app_length. lia. }
    cbn [bind rev app].
    (* outputs *)
    subst otail. rewrite parse_cs_enc by lia. cbn [bind]. rewrite Lo.
    rewrite (parse_n_roundtrip txout_ser txout_deser wf_txout txout_roundtrip outs outss [] _ wtail Fo Ho).
    2:{ pose proof (mapM_concat_length _ _ _ txout_ser_nonempty Ho). rewrite app_length. lia. }
    cbn [bind rev app].
    (* witnesses, locktime, raw, ids *)
    subst wtail. destruct sw.
    - destruct (Hw eq_refl) as (Lw & Hws).
      rewrite (parse_wits_roundtrip ins ws wss [] _ Lw Hws). cbn [bind rev app].
      rewrite (firstn_app_exact 4) by apply to_le_length. rewrite (skipn_app_exact 4) by apply to_le_length.
      rewrite Raw. rewrite !of_le_to_le by (change (256 ^ Z.of_nat 4) with (2 ^ 32); lia).
      assert (NW : tx_ser_nowit (mk_tx v ins outs (Some ws) lt) = Ok (tx_bytes false v inss outss [] lt)).
      { unfold tx_ser_nowit, strip_wits, tx_ser. cbn [tx_version tx_ins tx_outs tx_wits tx_locktime].
        rewrite Hi, Ho. cbn [bind]. rewrite tx_raw_ok by lia. reflexivity. }
      rewrite NW. reflexivity.
    - cbn [app bind].
      rewrite (firstn_app_exact 4) by apply to_le_length. rewrite (skipn_app_exact 4) by apply to_le_length.
      rewrite Raw. rewrite !of_le_to_le by (change (256 ^ Z.of_nat 4) with (2 ^ 32); lia).
      reflexivity.
  Qed.

  (* shape of the serialisation of a well-formed transaction *)
  Lemma tx_ser_wf t : wf_tx t ->
    exists inss outss wss,
      mapM txin_ser (tx_ins t) = Ok inss /\ mapM txout_ser (tx_outs t) = Ok outss /\
      (match tx_wits t with Some ws => mapM witness_ser ws = Ok wss | None => wss = [] end) /\
      tx_ser t = Ok (tx_bytes (match tx_wits t with Some _ => true | None => false end)
                              (tx_version t) inss outss wss (tx_locktime t)) /\
      tx_ser_nowit t = Ok (tx_bytes false (tx_version t) inss outss [] (tx_locktime t)).
  Proof.
    intros (Rv & Rl & Ne & Ri & Fi & Ro & Fo & Hw).
    destruct (mapM_ok txin_ser wf_txin (tx_ins t)) as [inss Hi];
      [intros x Hx; eexists; now apply txin_ser_ok|assumption|].
    destruct (mapM_ok txout_ser wf_txout (tx_outs t)) as [outss Ho];
      [intros x Hx; eexists; now apply txout_ser_ok|assumption|].
    pose proof (mapM_length _ _ _ Hi) as Li. pose proof (mapM_length _ _ _ Ho) as Lo.
    assert (NW : tx_ser_nowit t = Ok (tx_bytes false (tx_version t) inss outss [] (tx_locktime t))).
    { unfold tx_ser_nowit, strip_wits, tx_ser. cbn [tx_version tx_ins tx_outs tx_wits tx_locktime].
      rewrite Hi, Ho. cbn [bind]. rewrite tx_raw_ok by lia. reflexivity. }
    destruct (tx_wits t) as [ws|] eqn:Ew.
    - destruct Hw as (Lw & Fw).
      destruct (mapM_ok witness_ser wf_stack ws) as [wss Hws];
        [intros x (Hx1 & Hx2); now apply witness_ser_ok_iff|assumption|].
      exists inss, outss, wss. repeat split; try assumption.
      unfold tx_ser. rewrite Hi, Ho, Ew. cbn [bind]. rewrite Hws. cbn [bind].
      rewrite tx_raw_ok by lia.
      destruct wss as [|w wss]; [|reflexivity].
      apply mapM_length in Hws. destruct (tx_ins t); [congruence|]. cbn [length] in *. lia.
    - exists inss, outss, []. repeat split; try assumption.
      unfold tx_ser. rewrite Hi, Ho, Ew. cbn [bind]. rewrite tx_raw_ok by lia. reflexivity.
  Qed.

  Theorem tx_ser_ok t : wf_tx t -> exists bs, tx_ser t = Ok bs.
  Proof. intros H. destruct (tx_ser_wf t H) as (a & b & c & _ & _ & _ & E & _). eauto. Qed.

  (* master theorem: C05 round trip and C04 identifiers at once *)
  Theorem tx_roundtrip t bs : wf_tx t -> tx_ser t = Ok bs -> forall rest,
    exists nw, tx_ser_nowit t = Ok nw /\
      tx_deser sha256 (bs ++ rest) = Ok (mk_parsed (hash256 sha256 nw) (hash256 sha256 bs) bs t, rest).
  Proof.
    intros Wf H rest. destruct (tx_ser_wf t Wf) as (inss & outss & wss & Hi & Ho & Hws & E & NW).
    rewrite E in H. injection H as <-. eexists. split; [exact NW|].
    destruct Wf as (Rv & Rl & Ne & Ri & Fi & Ro & Fo & Hw).
    destruct t as [v ins outs wits lt]. cbn [tx_version tx_ins tx_outs tx_wits tx_locktime] in *.
    destruct wits as [ws|].
    - destruct Hw as (Lw & Fw).
      apply (tx_deser_bytes true v ins inss outs outss ws wss lt rest); auto.
    - subst wss. apply (tx_deser_bytes false v ins inss outs outss [] [] lt rest); auto. discriminate.
  Qed.
End Main.
