(* ECDSA verification: the model of ecmath.verify accepts exactly the textbook equation. *)
From Coq Require Import ZArith List Bool Lia Zpow_facts.
Require Import Bits.Lib.Result Bits.Lib.Group Bits.Lib.ModArith Bits.Model.Ecmath Bits.Proofs.Ecmath Bits.Proofs.Ecdsa.
Import ListNotations.
Local Open Scope Z_scope.

Section Spec.
  Variables p a n : Z.
  Variable G : point.
  (* textbook ECDSA verification (SEC 1 v2, 4.1.4) with e = z mod n, w = s^-1 as Fermat power *)
  Definition spec_verify (r s : Z) (Q : point) (z : Z) : bool :=
    (1 <=? r) && (r <? n) && ((1 <=? s) && (s <? n)) &&
    (let w := Zpow_mod s (n - 2) n in
     let u1 := ((z mod n) * w) mod n in
     let u2 := (r * w) mod n in
     match padd p a (smul p a u1 G) (smul p a u2 Q) with
     | None => false
     | Some (x, _) => r =? x mod n
     end).
End Spec.

Lemma bind_Ok_inv {A B} (r : result A) (k : A -> result B) v :
  bind r k = Ok v -> exists x, r = Ok x /\ k x = Ok v.
Proof. destruct r; simpl; [eauto|discriminate]. Qed.

(* whatever the inputs: verify never returns Ok false (it returns True or raises) *)
Theorem verify_never_false p a b n G r s Q z : verify p a b n G r s Q z <> Ok false.
Proof.
  unfold verify. intros H.
  destruct (negb ((1 <=? r) && (r <? n))); [discriminate|].
  destruct (negb ((1 <=? s) && (s <? n))); [discriminate|].
  apply bind_Ok_inv in H as (u1 & _ & H).
  apply bind_Ok_inv in H as (u2 & _ & H).
  apply bind_Ok_inv in H as (A & _ & H).
  apply bind_Ok_inv in H as (B & _ & H).
  apply bind_Ok_inv in H as (R & _ & H).
  destruct R as [[x y]|]; [|discriminate].
  apply bind_Ok_inv in H as (oc & _ & H).
  destruct (negb oc); [discriminate|].
  destruct (negb (r =? x mod n)); discriminate.
Qed.

Section More.
  Variables p a b n : Z.
  Variable G : point.
  Hypothesis CF : curve_facts p a b n G.

  Theorem verify_iff r s Q z : oncurve p a b Q ->
    (verify p a b n G r s Q z = Ok true <-> spec_verify p a n G r s Q z = true).
  Proof.
    intros HQ. unfold spec_verify.
    destruct ((1 <=? r) && (r <? n)) eqn:Er.
    2:{ split; [|discriminate]. unfold verify. rewrite Er. discriminate. }
    destruct ((1 <=? s) && (s <? n)) eqn:Es.
    2:{ split; [|discriminate]. unfold verify. rewrite Er, Es. discriminate. }
    apply andb_true_iff in Er as [Er1 Er2]. apply andb_true_iff in Es as [Es1 Es2].
    apply Z.leb_le in Er1, Es1. apply Z.ltb_lt in Er2, Es2.
    rewrite (verify_unfold p a b n G CF) by (auto; lia).
    cbn [andb]. unfold fdiv, fmul, fpow.
    destruct (padd p a _ _) as [[x y]|]; [|split; discriminate].
    destruct (r =? x mod n); split; congruence.
  Qed.

  (* every rejection is an error, never a success *)
  Corollary verify_rejects r s Q z : oncurve p a b Q -> spec_verify p a n G r s Q z = false ->
    exists e, verify p a b n G r s Q z = Err e.
  Proof.
    intros HQ Hs. destruct (verify p a b n G r s Q z) as [[|]|e] eqn:E; [| |eauto].
    - apply verify_iff in E; auto. congruence.
    - exfalso. eapply verify_never_false; eauto.
  Qed.

  (* out-of-range r or s: AssertionError, before anything else is looked at *)
  Theorem verify_range r s Q z : ~ (1 <= r < n /\ 1 <= s < n) -> verify p a b n G r s Q z = Err AssertionE.
  Proof.
    intros H. unfold verify.
    destruct ((1 <=? r) && (r <? n)) eqn:Er; [|reflexivity].
    destruct ((1 <=? s) && (s <? n)) eqn:Es; [|reflexivity].
    apply andb_true_iff in Er as [Er1 Er2]. apply andb_true_iff in Es as [Es1 Es2].
    apply Z.leb_le in Er1, Es1. apply Z.ltb_lt in Er2, Es2. lia.
  Qed.
End More.
