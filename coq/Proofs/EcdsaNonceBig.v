(* curve_facts_x for the two larger small curves (kept apart so that the property files do not depend on the
   minutes-long sweeps of SmallCurves79/67 when coqchk re-checks them) *)
From Coq Require Import ZArith List Bool.
Require Import Bits.Model.Ecmath Bits.Proofs.Ecmath Bits.Proofs.Ecdsa Bits.Proofs.SmallCurves Bits.Proofs.SmallCurvesBig
  Bits.Proofs.EcdsaNonce.
Theorem facts_x_79 : curve_facts_x 79 0 7 67 G79.
Proof. apply check_x_sound. vm_compute. reflexivity. Qed.
Theorem facts_x_67 : curve_facts_x 67 0 7 79 G67.
Proof. apply check_x_sound. vm_compute. reflexivity. Qed.
