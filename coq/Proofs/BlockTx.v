(* block round trip with the transaction codec of Model/Tx.v (C05/C04): header fields, order, ids, raw bytes *)
From Coq Require Import ZArith List Lia Bool.
Require Import Bits.Lib.Result Bits.Lib.Bytes.
Require Import Bits.Model.CompactSize Bits.Model.Witness Bits.Model.Tx Bits.Proofs.Tx Bits.Proofs.TxTotal.
Require Import Bits.Model.Block Bits.Proofs.Block.
Import ListNotations.
Local Open Scope Z_scope.

Section WithHash.
  Variable sha256 : bytes -> bytes.

  Lemma tx_deser_nil : tx_deser sha256 [] = Err IndexE.
  Proof. reflexivity. Qed.

  (* what block_deser must return for the transaction [t]: the structured transaction itself, its raw
     serialisation, wtxid = hash256(raw), txid = hash256(serialisation without witness data) *)
  Definition parsed_ok (t : tx_t) (p : tx_parsed) : Prop :=
    p_tx p = t /\ tx_ser t = Ok (p_raw p) /\ p_wtxid p = hash256 sha256 (p_raw p) /\
    exists nw, tx_ser_nowit t = Ok nw /\ p_txid p = hash256 sha256 nw.

  Lemma txs_parse : forall ts raws, Forall wf_tx ts -> mapM tx_ser ts = Ok raws ->
    exists ps, Forall2 (parses_as tx_parsed (tx_deser sha256)) raws ps /\ Forall2 parsed_ok ts ps
               /\ map p_raw ps = raws.
  Proof.
    induction ts as [|t ts IH]; intros raws W M.
    - cbn [mapM] in M. injection M as <-. exists []. repeat split; constructor.
    - cbn [mapM] in M. apply bind_ok in M as (raw & E1 & M). apply bind_ok in M as (raws' & E2 & M).
      injection M as <-. inversion W as [|? ? Wt Wts]; subst.
      destruct (IH raws' Wts E2) as (ps & F1 & F2 & F3).
      destruct (tx_roundtrip sha256 t raw Wt E1 []) as (nw & NW & _).
      set (p := mk_parsed (hash256 sha256 nw) (hash256 sha256 raw) raw t).
      exists (p :: ps). split; [|split].
      + constructor; [|exact F1]. split.
        * intros ->. destruct (tx_roundtrip sha256 t [] Wt E1 []) as (nw' & _ & D).
          cbn [app] in D. rewrite tx_deser_nil in D. discriminate.
        * intros rest. destruct (tx_roundtrip sha256 t raw Wt E1 rest) as (nw' & NW' & D).
          rewrite NW in NW'. injection NW' as <-. exact D.
      + constructor; [|exact F2]. subst p. unfold parsed_ok. cbn [p_tx p_raw p_wtxid p_txid].
        repeat split; auto. exists nw. auto.
      + cbn [map]. subst p. cbn [p_raw]. now rewrite F3.
  Qed.

  Theorem block_roundtrip hdr h ts raws :
    block_header_deser hdr = Ok h -> Forall wf_tx ts -> mapM tx_ser ts = Ok raws ->
    Z.of_nat (length ts) < 2 ^ 64 ->
    exists blk ps, block_ser hdr raws = Ok blk /\
      block_deser tx_parsed (tx_deser sha256) blk = Ok (h, ps) /\
      Forall2 parsed_ok ts ps /\ map p_raw ps = raws.
  Proof.
    intros HD W M L. destruct (txs_parse ts raws W M) as (ps & F1 & F2 & F3).
    assert (Len : length raws = length ts).
    { rewrite (Forall2_len _ _ _ F1), <- (Forall2_len _ _ _ F2). reflexivity. }
    destruct (block_roundtrip_gen tx_parsed (tx_deser sha256) hdr h raws ps HD F1) as (blk & S & D);
      [rewrite Len; exact L|].
    exists blk, ps. auto.
  Qed.

  (* block_deser with the real transaction parser never exhausts its fuel, on any input *)
  Theorem block_deser_tx_no_fuel block : block_deser tx_parsed (tx_deser sha256) block <> Err FuelE.
  Proof.
    apply block_deser_no_fuel; [apply tx_deser_consumes | apply tx_deser_no_fuel].
  Qed.

  (* from a structured header as well *)
  Corollary block_roundtrip_header h ts raws :
    wf_header h -> Forall wf_tx ts -> mapM tx_ser ts = Ok raws -> Z.of_nat (length ts) < 2 ^ 64 ->
    exists hdr blk ps, block_header h = Ok hdr /\ length hdr = 80%nat /\ block_ser hdr raws = Ok blk /\
      block_deser tx_parsed (tx_deser sha256) blk = Ok (h, ps) /\
      Forall2 parsed_ok ts ps /\ map p_raw ps = raws.
  Proof.
    intros Wh W M L. destruct (header_roundtrip h Wh) as [S D].
    destruct (block_roundtrip (header_bytes h) h ts raws D W M L) as (blk & ps & A & B & C & E).
    exists (header_bytes h), blk, ps. repeat split; auto. apply header_bytes_length, Wh.
  Qed.
End WithHash.
