(* Proofs about the framing model (Model/P2pFrame.v): the accumulate-until-length loop, recv_msg on complete
   and on truncated frames, msg_ser, and the corollaries used by Props/C17.v. *)
From Coq Require Import ZArith List Lia Bool.
Require Import Bits.Lib.Result Bits.Lib.Bytes Bits.Spec.P2p Bits.Model.P2pFrame.
Import ListNotations.
Import Coq.Init.Byte.
Local Open Scope Z_scope.

Definition pos_sched (sch : list Z) : Prop := Forall (fun c => 0 < c) sch.

Lemma pos_sched_tl sch : pos_sched sch -> pos_sched (tl sch).
Proof. intros H. destruct sch; [exact H | now inversion H]. Qed.

Lemma skipn_tl {A} j (l : list A) : skipn j (tl l) = skipn (S j) l.
Proof. destruct l; [now destruct j | reflexivity]. Qed.

Lemma skipn_skipn' {A} (a b : nat) (l : list A) : skipn a (skipn b l) = skipn (a + b) l.
Proof.
  revert l; induction b as [|b IH]; intros l.
  - now rewrite Nat.add_0_r.
  - rewrite Nat.add_succ_r. destruct l; [now rewrite !skipn_nil | cbn [skipn]; apply IH].
Qed.

Lemma zlen_app {A} (a b : list A) : zlen (a ++ b) = zlen a + zlen b.
Proof. unfold zlen. rewrite app_length. lia. Qed.

Lemma zlen_nil_inv {A} (l : list A) : zlen l = 0 -> l = [].
Proof. unfold zlen. destruct l; [auto | cbn [length]; lia]. Qed.

(* ------------------------------------------------------------------ one recv call *)
Definition recv_k (n : Z) (st : bytes) (sch : list Z) : nat :=
  Z.to_nat (Z.min (match sch with [] => n | c :: _ => Z.min n c end) (zlen st)).

Lemma recv_eq n st sch :
  recv n (st, sch) = (firstn (recv_k n st sch) st, (skipn (recv_k n st sch) st, tl sch)).
Proof. reflexivity. Qed.

Lemma recv_k_le_len n st sch : (recv_k n st sch <= length st)%nat.
Proof. unfold recv_k, zlen. lia. Qed.

Lemma recv_k_le_n n st sch : 0 <= n -> Z.of_nat (recv_k n st sch) <= n.
Proof. unfold recv_k, zlen. destruct sch; lia. Qed.

Lemma recv_k_pos n st sch : 0 < n -> pos_sched sch -> st <> [] -> (1 <= recv_k n st sch)%nat.
Proof.
  intros Hn Hs Hst. unfold recv_k, zlen.
  assert (1 <= length st)%nat by (destruct st; [congruence | cbn [length]; lia]).
  destruct sch as [|c t]; [lia|]. inversion Hs as [|? ? Hc _]; subst. lia.
Qed.

Lemma firstn_nonempty_pos {A} k (l : list A) x xs : firstn k l = x :: xs -> (1 <= k)%nat.
Proof. destruct k; [discriminate | lia]. Qed.

(* ------------------------------------------------------------------ the loop *)
Lemma recv_exact_eq fuel want acc s :
  recv_exact fuel want acc s =
  if zlen acc =? want then Ok (acc, s, fuel)
  else match fuel with
       | O => Err FuelE
       | S f =>
         let '(data, s') := recv (want - zlen acc) s in
         match data with
         | [] => Err ConnE
         | _ :: _ => recv_exact f want (acc ++ data) s'
         end
       end.
Proof. destruct fuel; reflexivity. Qed.

(* whatever the schedule: an Ok result has consumed exactly the bytes it appended, one recv call per
   at least one byte, and stops with exactly [want] bytes *)
Lemma recv_exact_ok_inv : forall fuel want acc st sch acc' st' sch' f',
  recv_exact fuel want acc (st, sch) = Ok (acc', (st', sch'), f') ->
  exists d, acc' = acc ++ d /\ st = d ++ st' /\ (fuel <= f' + length d)%nat /\ (f' <= fuel)%nat
            /\ zlen acc' = want /\ exists j, sch' = skipn j sch.
Proof.
  induction fuel as [|f IH]; intros want acc st sch acc' st' sch' f' H; rewrite recv_exact_eq in H.
  - destruct (Z.eqb_spec (zlen acc) want) as [E|E]; [|discriminate].
    injection H as <- <- <- <-. exists []. rewrite app_nil_r. repeat split; auto; try lia; try (now exists 0%nat).
  - destruct (Z.eqb_spec (zlen acc) want) as [E|E].
    + injection H as <- <- <- <-. exists []. rewrite app_nil_r. repeat split; auto; try lia; try (now exists 0%nat).
    + rewrite recv_eq in H. set (k := recv_k (want - zlen acc) st sch) in *.
      destruct (firstn k st) as [|x xs] eqn:Ed; [discriminate|].
      apply IH in H. destruct H as (d & -> & Hst & Hf & Hf2 & Hw & j & ->).
      exists ((x :: xs) ++ d). rewrite app_assoc. split; [reflexivity|].
      split. { rewrite <- app_assoc, <- Hst, <- Ed. symmetry. apply firstn_skipn. }
      split. { rewrite app_length. cbn [length]. lia. }
      split; [lia|]. split; [exact Hw|]. exists (S j). apply skipn_tl.
Qed.

(* whatever the schedule: the loop stops within (bytes available + 1) recv calls *)
Lemma recv_exact_no_fuelE : forall fuel want acc st sch,
  (length st < fuel)%nat -> recv_exact fuel want acc (st, sch) <> Err FuelE.
Proof.
  induction fuel as [|f IH]; intros want acc st sch Hf; [lia|].
  rewrite recv_exact_eq. destruct (zlen acc =? want); [discriminate|].
  rewrite recv_eq. set (k := recv_k (want - zlen acc) st sch).
  destruct (firstn k st) as [|x xs] eqn:Ed; [discriminate|].
  assert (1 <= length st)%nat by (destruct st; [rewrite firstn_nil in Ed; discriminate | cbn [length]; lia]).
  apply IH. apply firstn_nonempty_pos in Ed. rewrite skipn_length. lia.
Qed.

(* positive chunks, enough bytes: the loop returns exactly the bytes wanted and leaves the rest *)
Lemma recv_exact_complete : forall fuel want acc data rest sch,
  pos_sched sch -> zlen acc + zlen data = want -> (length data <= fuel)%nat ->
  exists sch' f', recv_exact fuel want acc (data ++ rest, sch) = Ok (acc ++ data, (rest, sch'), f')
    /\ pos_sched sch' /\ (fuel <= f' + length data)%nat /\ (f' <= fuel)%nat /\ exists j, sch' = skipn j sch.
Proof.
  induction fuel as [|f IH]; intros want acc data rest sch Hs Hw Hf.
  - assert (data = []) as -> by (destruct data; [auto | cbn [length] in Hf; lia]).
    rewrite recv_exact_eq. unfold zlen in Hw at 2. cbn [length] in Hw.
    replace (zlen acc =? want) with true by (symmetry; apply Z.eqb_eq; lia).
    exists sch, 0%nat. rewrite app_nil_r. cbn [app length]. repeat split; auto; try lia; try (now exists 0%nat).
  - rewrite recv_exact_eq. destruct (Z.eqb_spec (zlen acc) want) as [E|E].
    + assert (data = []) as -> by (apply zlen_nil_inv; lia).
      exists sch, (S f). rewrite app_nil_r. cbn [app length]. repeat split; auto; try lia; try (now exists 0%nat).
    + assert (Hd : 0 < zlen data) by (unfold zlen in *; lia).
      assert (Hne : data <> []) by (intros ->; unfold zlen in Hd; cbn in Hd; lia).
      rewrite recv_eq. set (k := recv_k (want - zlen acc) (data ++ rest) sch).
      assert (Hk1 : (1 <= k)%nat).
      { apply recv_k_pos; [lia | exact Hs |]. destruct data; [congruence | discriminate]. }
      assert (Hk2 : (k <= length data)%nat).
      { pose proof (recv_k_le_n (want - zlen acc) (data ++ rest) sch ltac:(lia)) as Hk.
        fold k in Hk. unfold zlen in *. lia. }
      rewrite firstn_app, skipn_app.
      replace (k - length data)%nat with 0%nat by lia. cbn [firstn skipn]. rewrite app_nil_r.
      destruct (firstn k data) as [|x xs] eqn:Ed.
      { apply (f_equal (@length byte)) in Ed. rewrite firstn_length in Ed. cbn [length] in Ed. lia. }
      rewrite <- Ed.
      destruct (IH want (acc ++ firstn k data) (skipn k data) rest (tl sch)) as (sch' & f' & HR & Hp & Hfu & Hfu2 & j & Hj).
      * now apply pos_sched_tl.
      * rewrite zlen_app. unfold zlen in *. rewrite firstn_length, skipn_length. lia.
      * rewrite skipn_length. lia.
      * exists sch', f'. rewrite HR. rewrite <- app_assoc, firstn_skipn.
        split; [reflexivity|]. split; [exact Hp|]. rewrite skipn_length in Hfu.
        split; [lia|]. split; [lia|]. exists (S j). rewrite Hj. apply skipn_tl.
Qed.

(* positive chunks, not enough bytes: ConnectionError after at most (bytes available + 1) recv calls *)
Lemma recv_exact_short : forall fuel want acc st sch,
  pos_sched sch -> zlen acc + zlen st < want -> (length st < fuel)%nat ->
  recv_exact fuel want acc (st, sch) = Err ConnE.
Proof.
  induction fuel as [|f IH]; intros want acc st sch Hs Hw Hf; [lia|].
  rewrite recv_exact_eq.
  assert (0 <= zlen st) by (unfold zlen; lia).
  destruct (Z.eqb_spec (zlen acc) want) as [E|E]; [lia|].
  rewrite recv_eq. set (k := recv_k (want - zlen acc) st sch).
  destruct (firstn k st) as [|x xs] eqn:Ed; [reflexivity|].
  rewrite <- Ed. apply IH.
  - now apply pos_sched_tl.
  - rewrite zlen_app. unfold zlen in *. rewrite firstn_length, skipn_length. lia.
  - assert (1 <= length st)%nat by (destruct st; [rewrite firstn_nil in Ed; discriminate | cbn [length]; lia]).
    apply firstn_nonempty_pos in Ed. rewrite skipn_length. lia.
Qed.

(* ------------------------------------------------------------------ frames *)
Definition frame (m cmd lenb chk body : bytes) : bytes := m ++ cmd ++ lenb ++ chk ++ body.
Definition pad12 (c : bytes) : bytes := c ++ repeat x00 (12 - length c).

Ltac destr_len H :=
  repeat match type of H with
         | length ?l = S _ => destruct l; [discriminate H|]; cbn [length] in H; apply Nat.succ_inj in H
         | length ?l = O => destruct l; [clear H | discriminate H]
         end.

Lemma bytes_eqb_refl a : bytes_eqb a a = true.
Proof. now apply bytes_eqb_eq. Qed.

Lemma bytes_eqb_neq a b : a <> b -> bytes_eqb a b = false.
Proof. intros H. destruct (bytes_eqb a b) eqn:E; [apply bytes_eqb_eq in E; contradiction | reflexivity]. Qed.

(* rewrite with an equation about recv_exact up to conversion of the pair's type annotations *)
Ltac rewc H :=
  match type of H with
  | ?l = _ => match goal with
              | |- context [recv_exact ?f ?w ?a ?s] => change (recv_exact f w a s) with l; rewrite H
              end
  end.

Section WithHash.
  Variable sha256 : bytes -> bytes.
  Notation recv_msg := (recv_msg sha256).
  Notation msg_ser := (msg_ser sha256).
  Notation checksum4 := (checksum4 sha256).

  (* the outcome of recv_msg on a stream that starts with a complete frame, for ANY header fields *)
  Definition frame_outcome (magic m cmd chk body : bytes) : option (bytes * bytes * bytes) :=
    if negb (bytes_eqb chk (checksum4 body)) then None
    else if negb (bytes_eqb m magic) then None
    else Some (m, rstrip0 cmd, body).

  Lemma recv_msg_complete : forall fuel magic m cmd lenb chk body rest sch,
    length m = 4%nat -> length cmd = 12%nat -> length lenb = 4%nat -> length chk = 4%nat ->
    of_le lenb = zlen body -> pos_sched sch -> (24 + length body <= fuel)%nat ->
    exists sch' f', pos_sched sch' /\ (fuel <= f' + 24 + length body)%nat /\ (exists j, sch' = skipn j sch) /\
      recv_msg fuel magic (frame m cmd lenb chk body ++ rest, sch) =
      match frame_outcome magic m cmd chk body with
      | Some r => Ok (r, (rest, sch'), f')
      | None => Err ValueE
      end.
  Proof.
    intros fuel magic m cmd lenb chk body rest sch Hm Hc Hl Hk Hlen Hs Hf.
    unfold P2pFrame.recv_msg, frame.
    set (hdr := m ++ cmd ++ lenb ++ chk).
    assert (Hh : length hdr = 24%nat) by (unfold hdr; rewrite !app_length; lia).
    replace (m ++ cmd ++ lenb ++ chk ++ body) with (hdr ++ body) by (unfold hdr; now rewrite <- !app_assoc).
    rewrite <- app_assoc.
    destruct (recv_exact_complete fuel msg_header_len [] hdr (body ++ rest) sch Hs) as (sch1 & f1 & HR & Hp1 & Hf1 & Hf1' & j1 & Hj1).
    { unfold zlen, msg_header_len. cbn [length]. lia. } { lia. }
    rewrite HR. cbn [bind app].
    assert (E1 : firstn 4 hdr = m) by (unfold hdr; destr_len Hm; reflexivity).
    assert (E2 : slice 4 16 hdr = cmd) by (unfold hdr; destr_len Hm; destr_len Hc; reflexivity).
    assert (E3 : slice 16 20 hdr = lenb) by (unfold hdr; destr_len Hm; destr_len Hc; destr_len Hl; reflexivity).
    assert (E4 : slice 20 24 hdr = chk) by (unfold hdr; destr_len Hm; destr_len Hc; destr_len Hl; destr_len Hk; reflexivity).
    assert (E5 : skipn 24 hdr = []) by (rewrite <- Hh; apply skipn_all).
    rewrite E1, E2, E3, E4, E5, Hlen.
    match goal with |- context [bind ?X _] => set (PL := X) end.
    assert (HB : exists sch' f',
      PL = Ok (body, (rest, sch'), f') /\ pos_sched sch' /\ (f1 <= f' + length body)%nat /\ exists j, sch' = skipn j sch1).
    { unfold PL. destruct (Z.eqb_spec (zlen body) 0) as [E0|E0].
      - apply zlen_nil_inv in E0. subst body. exists sch1, f1. cbn [app length]. repeat split; auto; try lia; try (now exists 0%nat).
      - destruct (recv_exact_complete f1 (zlen body) [] body rest sch1 Hp1) as (sch2 & f2 & HR2 & Hp2 & Hf2 & _ & j2 & Hj2).
        { unfold zlen; cbn [length]; lia. } { lia. }
        exists sch2, f2. cbn [app] in HR2. repeat split; auto. now exists j2. }
    destruct HB as (sch' & f' & HB & Hp' & Hf' & j2 & Hj2).
    exists sch', f'. split; [exact Hp'|]. split; [lia|].
    split. { exists (j2 + j1)%nat. rewrite Hj2, Hj1. apply skipn_skipn'. }
    rewrite HB. cbn [bind]. rewrite Z.eqb_refl. cbn [negb]. unfold frame_outcome.
    destruct (negb (bytes_eqb chk (checksum4 body))); [reflexivity|].
    destruct (negb (bytes_eqb m magic)); reflexivity.
  Qed.

  (* truncated stream: fewer than 24 bytes, or fewer payload bytes than the header declares *)
  Definition truncated (st : bytes) : Prop :=
    (length st < 24)%nat \/ zlen st < 24 + of_le (slice 16 20 st).

  Lemma recv_msg_short : forall fuel magic st sch,
    pos_sched sch -> truncated st -> (length st < fuel)%nat ->
    recv_msg fuel magic (st, sch) = Err ConnE.
  Proof.
    intros fuel magic st sch Hs Ht Hf. unfold P2pFrame.recv_msg.
    destruct (Nat.lt_ge_cases (length st) 24) as [Hlt|Hge].
    - rewrite recv_exact_short; auto. unfold zlen, msg_header_len. cbn [length]. lia.
    - destruct Ht as [Ht|Ht]; [lia|].
      set (hdr := firstn 24 st). set (st' := skipn 24 st).
      assert (Est : st = hdr ++ st') by (symmetry; apply firstn_skipn).
      assert (Hh : length hdr = 24%nat) by (unfold hdr; rewrite firstn_length; lia).
      assert (Hl : length st = (24 + length st')%nat) by (rewrite Est at 1; rewrite app_length; lia).
      assert (Esl : slice 16 20 st = slice 16 20 hdr).
      { rewrite Est. clearbody hdr st'. clear -Hh. destr_len Hh. reflexivity. }
      rewrite Esl in Ht. rewrite Est.
      destruct (recv_exact_complete fuel msg_header_len [] hdr st' sch Hs) as (sch1 & f1 & HR & Hp1 & Hf1 & _ & _).
      { unfold zlen, msg_header_len. cbn [length]. lia. } { lia. }
      rewc HR. cbn [bind app].
      replace (skipn 24 hdr) with (@nil byte) by (rewrite <- Hh; symmetry; apply skipn_all).
      assert (0 <= zlen st') by (unfold zlen; lia).
      destruct (Z.eqb_spec (of_le (slice 16 20 hdr)) 0) as [E0|E0].
      { unfold zlen in *. lia. }
      rewrite recv_exact_short; auto.
      + unfold zlen in *. cbn [length]. lia.
      + lia.
  Qed.

  (* anything accepted is a well-formed frame at the head of the stream, and nothing beyond it was consumed *)
  Lemma recv_msg_ok_inv : forall fuel magic st sch m c p st' sch' f',
    recv_msg fuel magic (st, sch) = Ok ((m, c, p), (st', sch'), f') ->
    exists hdr, st = hdr ++ p ++ st' /\ length hdr = 24%nat /\ m = magic /\ firstn 4 hdr = magic
      /\ c = rstrip0 (slice 4 16 hdr) /\ of_le (slice 16 20 hdr) = zlen p /\ slice 20 24 hdr = checksum4 p
      /\ (fuel <= f' + 24 + length p)%nat.
  Proof.
    intros fuel magic st sch m c p st' sch' f' H. unfold P2pFrame.recv_msg in H.
    destruct (recv_exact fuel msg_header_len [] (st, sch)) as [[[msg [st1 sch1]] f1]|e] eqn:E1; [|discriminate].
    cbn [bind] in H.
    apply recv_exact_ok_inv in E1. destruct E1 as (hdr & Ehdr & Est & Hf1 & _ & Hw & _).
    cbn [app] in Ehdr. subst msg.
    assert (Hh : length hdr = 24%nat) by (unfold zlen, msg_header_len in Hw; lia).
    replace (skipn 24 hdr) with (@nil byte) in H by (rewrite <- Hh; symmetry; apply skipn_all).
    set (psz := of_le (slice 16 20 hdr)) in *.
    match type of H with bind ?X _ = _ => destruct X as [[[pl [st2 sch2]] f2]|e] eqn:E2; [|discriminate] end.
    cbn [bind] in H.
    assert (HB : st1 = pl ++ st2 /\ zlen pl = psz /\ (f1 <= f2 + length pl)%nat).
    { destruct (psz =? 0) eqn:E0.
      - apply Z.eqb_eq in E0. injection E2 as <- <- <- <-. cbn [app length]. rewrite E0.
        split; [reflexivity|]. split; [reflexivity | lia].
      - apply recv_exact_ok_inv in E2. destruct E2 as (d & Ed & Est1 & Hf2 & _ & Hw2 & _).
        cbn [app] in Ed. subst d. auto. }
    destruct HB as (Est1 & Hz & Hf2).
    rewrite Hz, Z.eqb_refl in H. cbn [negb] in H.
    destruct (bytes_eqb (slice 20 24 hdr) (checksum4 pl)) eqn:Ec; [|discriminate]. cbn [negb] in H.
    destruct (bytes_eqb (firstn 4 hdr) magic) eqn:Em; [|discriminate]. cbn [negb] in H.
    injection H as <- <- <- <- <- <-. apply bytes_eqb_eq in Ec, Em.
    exists hdr. rewrite Est, Est1. repeat split; auto. lia.
  Qed.

  (* for every stream and every schedule (positive or not): the loops stop within |stream| + 1 recv calls *)
  Lemma recv_msg_terminates : forall fuel magic st sch,
    (length st < fuel)%nat -> recv_msg fuel magic (st, sch) <> Err FuelE.
  Proof.
    intros fuel magic st sch Hf. unfold P2pFrame.recv_msg.
    destruct (recv_exact fuel msg_header_len [] (st, sch)) as [[[msg [st1 sch1]] f1]|e] eqn:E1.
    2:{ cbn [bind]. intros H. injection H as ->. now apply (recv_exact_no_fuelE fuel msg_header_len [] st sch Hf). }
    cbn [bind]. apply recv_exact_ok_inv in E1. destruct E1 as (d & _ & Est & Hf1 & _ & _ & _).
    assert (Hl : (length st1 < f1)%nat).
    { apply (f_equal (@length byte)) in Est. rewrite app_length in Est. lia. }
    match goal with |- bind ?X _ <> _ => destruct X as [[[pl [st2 sch2]] f2]|e] eqn:E2 end.
    - cbn [bind]. destruct (negb _); [discriminate|]. destruct (negb _); [discriminate|].
      destruct (negb _); discriminate.
    - cbn [bind]. intros H. injection H as ->.
      destruct (of_le (slice 16 20 msg) =? 0); [discriminate|].
      now apply (recv_exact_no_fuelE f1 _ _ st1 sch1 Hl) in E2.
  Qed.

  (* ---------------------------------------------------------------- msg_ser *)
  Lemma existsb_bytes_In c l : existsb (bytes_eqb c) l = true <-> In c l.
  Proof.
    rewrite existsb_exists. split.
    - intros (x & Hin & E). apply bytes_eqb_eq in E. now subst.
    - intros H. exists c. split; [exact H | apply bytes_eqb_refl].
  Qed.

  Lemma commands_wf_b :
    forallb (fun c => (length c <=? 12)%nat && bytes_eqb (rstrip0 (pad12 c)) c) commands = true.
  Proof. vm_compute. reflexivity. Qed.

  Lemma command_facts c : In c commands ->
    (length c <= 12)%nat /\ rstrip0 (pad12 c) = c /\ length (pad12 c) = 12%nat.
  Proof.
    intros H. pose proof commands_wf_b as W. rewrite forallb_forall in W. specialize (W c H).
    apply andb_true_iff in W. destruct W as [W1 W2]. apply Nat.leb_le in W1. apply bytes_eqb_eq in W2.
    repeat split; auto. unfold pad12. rewrite app_length, repeat_length. lia.
  Qed.

  Lemma msg_ser_ok m c p : In c commands -> zlen p <= max_size ->
    msg_ser m c p = Ok (frame m (pad12 c) (to_le 4 (zlen p)) (checksum4 p) p).
  Proof.
    intros Hc Hp. unfold P2pFrame.msg_ser.
    apply existsb_bytes_In in Hc. rewrite Hc. cbn [negb].
    replace (zlen p >? max_size) with false by (symmetry; rewrite Z.gtb_ltb; apply Z.ltb_ge; lia).
    unfold to_le_chk. change (256 ^ Z.of_nat 4) with 4294967296.
    assert (0 <= zlen p) by (unfold zlen; lia). unfold max_size in Hp.
    replace (0 <=? zlen p) with true by (symmetry; apply Z.leb_le; lia).
    replace (zlen p <? 4294967296) with true by (symmetry; apply Z.ltb_lt; lia).
    reflexivity.
  Qed.

  Lemma msg_ser_ok_inv m c p fr : msg_ser m c p = Ok fr ->
    In c commands /\ zlen p <= max_size /\ fr = frame m (pad12 c) (to_le 4 (zlen p)) (checksum4 p) p.
  Proof.
    intros H. pose proof H as H0. unfold P2pFrame.msg_ser in H.
    destruct (existsb (bytes_eqb c) commands) eqn:Ec; [|discriminate]. cbn [negb] in H.
    destruct (zlen p >? max_size) eqn:Ep; [discriminate|].
    apply existsb_bytes_In in Ec. rewrite Z.gtb_ltb in Ep; apply Z.ltb_ge in Ep.
    rewrite (msg_ser_ok m c p Ec Ep) in H0. injection H0 as <-. auto.
  Qed.

  Lemma msg_ser_rejects m c p : ~ (In c commands /\ zlen p <= max_size) -> msg_ser m c p = Err ValueE.
  Proof.
    intros H. unfold P2pFrame.msg_ser.
    destruct (existsb (bytes_eqb c) commands) eqn:Ec; [|reflexivity]. cbn [negb].
    destruct (zlen p >? max_size) eqn:Ep; [reflexivity|].
    apply existsb_bytes_In in Ec. rewrite Z.gtb_ltb in Ep; apply Z.ltb_ge in Ep. tauto.
  Qed.

  Lemma of_le_len4 (p : bytes) : zlen p <= max_size -> of_le (to_le 4 (zlen p)) = zlen p.
  Proof.
    intros H. apply of_le_to_le. change (256 ^ Z.of_nat 4) with 4294967296.
    unfold max_size, zlen in *. lia.
  Qed.

  Lemma frame_outcome_good magic cmd body :
    frame_outcome magic magic cmd (checksum4 body) body = Some (magic, rstrip0 cmd, body).
  Proof. unfold frame_outcome. now rewrite !bytes_eqb_refl. Qed.

  Lemma checksum4_length_le p : (length (checksum4 p) <= 4)%nat.
  Proof. unfold P2pFrame.checksum4. rewrite firstn_length. lia. Qed.

  (* ---------------------------------------------------------------- the property theorems *)
  Hypothesis sha256_len : forall m, length (sha256 m) = 32%nat.

  Lemma checksum4_length p : length (checksum4 p) = 4%nat.
  Proof. unfold P2pFrame.checksum4, hash256. rewrite firstn_length, sha256_len. reflexivity. Qed.

  Ltac side := auto using to_le_length, checksum4_length, of_le_len4; try lia.

  Theorem frame_any_fragmentation : forall magic c p rest sch fuel,
    length magic = 4%nat -> In c commands -> zlen p <= max_size ->
    pos_sched sch -> (24 + length p <= fuel)%nat ->
    exists fr sch' f',
      msg_ser magic c p = Ok fr /\
      recv_msg fuel magic (fr ++ rest, sch) = Ok ((magic, c, p), (rest, sch'), f') /\
      (fuel <= f' + 24 + length p)%nat /\ pos_sched sch' /\ exists j, sch' = skipn j sch.
  Proof.
    intros magic c p rest sch fuel Hm Hc Hp Hs Hf.
    destruct (command_facts c Hc) as (_ & Hrs & Hl12).
    destruct (recv_msg_complete fuel magic magic (pad12 c) (to_le 4 (zlen p)) (checksum4 p) p rest sch)
      as (sch' & f' & Hp' & Hfu & Hj & HR); side.
    exists (frame magic (pad12 c) (to_le 4 (zlen p)) (checksum4 p) p), sch', f'.
    split; [now apply msg_ser_ok|]. rewrite HR, frame_outcome_good, Hrs. auto.
  Qed.

  Theorem back_to_back : forall magic msgs frames rest sch fuel,
    length magic = 4%nat -> pos_sched sch ->
    mapM (fun cp => msg_ser magic (fst cp) (snd cp)) msgs = Ok frames ->
    Forall (fun cp : bytes * bytes => (24 + length (snd cp) <= fuel)%nat) msgs ->
    exists sch', pos_sched sch' /\
      recv_msgs sha256 (length msgs) fuel magic (concat frames ++ rest, sch)
      = Ok (map (fun cp => (magic, fst cp, snd cp)) msgs, (rest, sch')).
  Proof.
    intros magic msgs. induction msgs as [|[c p] msgs IH]; intros frames rest sch fuel Hm Hs HM HF.
    - cbn in HM. injection HM as <-. exists sch. split; [exact Hs | reflexivity].
    - cbn [mapM fst snd] in HM. apply bind_ok in HM. destruct HM as (fr & Hfr & HM).
      apply bind_ok in HM. destruct HM as (frs & Hfrs & HM). injection HM as <-.
      inversion HF as [|? ? HF1 HF2]; subst. cbn [snd] in HF1.
      apply msg_ser_ok_inv in Hfr as Hinv. destruct Hinv as (Hc & Hp & _).
      destruct (frame_any_fragmentation magic c p (concat frs ++ rest) sch fuel Hm Hc Hp Hs HF1)
        as (fr' & sch1 & f1 & Hser & HR & _ & Hp1 & _).
      rewrite Hfr in Hser. injection Hser as <-.
      destruct (IH frs rest sch1 fuel Hm Hp1 Hfrs HF2) as (sch' & Hp' & HR').
      exists sch'. split; [exact Hp'|].
      cbn [length recv_msgs concat map fst snd]. rewrite <- app_assoc. rewrite HR. cbn [bind].
      rewrite HR'. reflexivity.
  Qed.

  (* corrupted fields of an otherwise well-formed frame *)
  Theorem flip_magic_rejected : forall magic magic' c p rest sch fuel,
    length magic' = 4%nat -> magic' <> magic -> In c commands -> zlen p <= max_size ->
    pos_sched sch -> (24 + length p <= fuel)%nat ->
    recv_msg fuel magic (frame magic' (pad12 c) (to_le 4 (zlen p)) (checksum4 p) p ++ rest, sch) = Err ValueE.
  Proof.
    intros magic magic' c p rest sch fuel Hm Hne Hc Hp Hs Hf.
    destruct (command_facts c Hc) as (_ & _ & Hl12).
    destruct (recv_msg_complete fuel magic magic' (pad12 c) (to_le 4 (zlen p)) (checksum4 p) p rest sch)
      as (sch' & f' & _ & _ & _ & HR); side.
    rewrite HR. unfold frame_outcome. rewrite bytes_eqb_refl, (bytes_eqb_neq _ _ Hne). reflexivity.
  Qed.

  Theorem flip_checksum_rejected : forall magic c p chk' rest sch fuel,
    length magic = 4%nat -> length chk' = 4%nat -> chk' <> checksum4 p -> In c commands -> zlen p <= max_size ->
    pos_sched sch -> (24 + length p <= fuel)%nat ->
    recv_msg fuel magic (frame magic (pad12 c) (to_le 4 (zlen p)) chk' p ++ rest, sch) = Err ValueE.
  Proof.
    intros magic c p chk' rest sch fuel Hm Hk Hne Hc Hp Hs Hf.
    destruct (command_facts c Hc) as (_ & _ & Hl12).
    destruct (recv_msg_complete fuel magic magic (pad12 c) (to_le 4 (zlen p)) chk' p rest sch)
      as (sch' & f' & _ & _ & _ & HR); side.
    rewrite HR. unfold frame_outcome. rewrite (bytes_eqb_neq _ _ Hne). reflexivity.
  Qed.

  (* the payload bytes are changed (same length); hypothesis: the 32-bit checksums do not collide *)
  Theorem flip_payload_rejected : forall magic c p p' rest sch fuel,
    length magic = 4%nat -> length p' = length p -> checksum4 p' <> checksum4 p ->
    In c commands -> zlen p <= max_size -> pos_sched sch -> (24 + length p <= fuel)%nat ->
    recv_msg fuel magic (frame magic (pad12 c) (to_le 4 (zlen p)) (checksum4 p) p' ++ rest, sch) = Err ValueE.
  Proof.
    intros magic c p p' rest sch fuel Hm Hl Hne Hc Hp Hs Hf.
    destruct (command_facts c Hc) as (_ & _ & Hl12).
    destruct (recv_msg_complete fuel magic magic (pad12 c) (to_le 4 (zlen p)) (checksum4 p) p' rest sch)
      as (sch' & f' & _ & _ & _ & HR); side.
    { rewrite of_le_len4 by exact Hp. unfold zlen. now rewrite Hl. }
    rewrite HR. unfold frame_outcome. rewrite (bytes_eqb_neq (checksum4 p) (checksum4 p')) by congruence. reflexivity.
  Qed.

  (* the declared length is changed: the receiver takes L' bytes of what follows as the payload; hypothesis: the
     checksum of that other byte string does not collide with the transmitted one *)
  Theorem flip_length_rejected : forall magic c p lenb' rest sch fuel,
    length magic = 4%nat -> length lenb' = 4%nat -> of_le lenb' <> zlen p ->
    In c commands -> zlen p <= max_size -> pos_sched sch ->
    (24 + length p + length rest < fuel)%nat ->
    checksum4 (firstn (Z.to_nat (of_le lenb')) (p ++ rest)) <> checksum4 p ->
    let r := recv_msg fuel magic (frame magic (pad12 c) lenb' (checksum4 p) p ++ rest, sch) in
    r = Err ValueE \/ r = Err ConnE.
  Proof.
    intros magic c p lenb' rest sch fuel Hm Hl Hne Hc Hp Hs Hf Hcol r. subst r.
    destruct (command_facts c Hc) as (_ & _ & Hl12).
    set (L := of_le lenb') in *.
    assert (HL0 : 0 <= L) by apply of_be_nonneg.
    destruct (Z_le_gt_dec L (zlen (p ++ rest))) as [Hfit|Hshort].
    - left. set (body := firstn (Z.to_nat L) (p ++ rest)) in *.
      assert (Hb : zlen body = L).
      { unfold body, zlen in *. rewrite firstn_length. lia. }
      assert (Hsplit : p ++ rest = body ++ skipn (Z.to_nat L) (p ++ rest)) by (symmetry; apply firstn_skipn).
      assert (Hbl : (length body <= length p + length rest)%nat).
      { unfold body. rewrite firstn_length, app_length. lia. }
      replace (frame magic (pad12 c) lenb' (checksum4 p) p ++ rest)
        with (frame magic (pad12 c) lenb' (checksum4 p) body ++ skipn (Z.to_nat L) (p ++ rest)).
      2:{ unfold frame. rewrite <- !app_assoc. now rewrite <- Hsplit. }
      destruct (recv_msg_complete fuel magic magic (pad12 c) lenb' (checksum4 p) body
                  (skipn (Z.to_nat L) (p ++ rest)) sch) as (sch' & f' & _ & _ & _ & HR); side.
      rewrite HR. unfold frame_outcome.
      rewrite (bytes_eqb_neq (checksum4 p) (checksum4 body)) by congruence. reflexivity.
    - right. apply recv_msg_short; auto.
      + right. unfold frame.
        assert (Esl : slice 16 20 (magic ++ pad12 c ++ lenb' ++ checksum4 p ++ p ++ rest) = lenb').
        { pose proof (checksum4_length p) as Hk. clear -Hm Hl12 Hl.
          destr_len Hm. destr_len Hl12. destr_len Hl. reflexivity. }
        rewrite <- !app_assoc. rewrite Esl. fold L.
        pose proof (checksum4_length p) as Hk.
        unfold zlen in *. rewrite !app_length in *. rewrite Hm, Hl12, Hl, Hk. lia.
      + pose proof (checksum4_length p) as Hk. unfold frame. rewrite !app_length. rewrite Hm, Hl12, Hl, Hk. lia.
  Qed.

  (* the command field is outside the checksum by protocol design: another 12-byte field is accepted and
     yields that other command with the unchanged payload *)
  Theorem flip_command_passes : forall magic cmd' p rest sch fuel,
    length magic = 4%nat -> length cmd' = 12%nat -> zlen p <= max_size ->
    pos_sched sch -> (24 + length p <= fuel)%nat ->
    exists sch' f', recv_msg fuel magic (frame magic cmd' (to_le 4 (zlen p)) (checksum4 p) p ++ rest, sch)
                    = Ok ((magic, rstrip0 cmd', p), (rest, sch'), f').
  Proof.
    intros magic cmd' p rest sch fuel Hm Hc Hp Hs Hf.
    destruct (recv_msg_complete fuel magic magic cmd' (to_le 4 (zlen p)) (checksum4 p) p rest sch)
      as (sch' & f' & _ & _ & _ & HR); side.
    exists sch', f'. rewrite HR, frame_outcome_good. reflexivity.
  Qed.

  (* the peer closes the connection at ANY offset inside a message: ConnectionError, within k + 1 recv calls *)
  Theorem eof_every_offset : forall magic c p fr k sch fuel,
    length magic = 4%nat -> msg_ser magic c p = Ok fr -> (k < length fr)%nat ->
    pos_sched sch -> (k < fuel)%nat ->
    recv_msg fuel magic (firstn k fr, sch) = Err ConnE.
  Proof.
    intros magic c p fr k sch fuel Hm Hser Hk Hs Hf.
    apply msg_ser_ok_inv in Hser. destruct Hser as (Hc & Hp & ->).
    destruct (command_facts c Hc) as (_ & _ & Hl12).
    pose proof (checksum4_length p) as Hck. pose proof (to_le_length 4 (zlen p)) as Hll.
    assert (Hfl : length (frame magic (pad12 c) (to_le 4 (zlen p)) (checksum4 p) p) = (24 + length p)%nat).
    { unfold frame. rewrite !app_length. lia. }
    rewrite Hfl in Hk.
    assert (Hlen : length (firstn k (frame magic (pad12 c) (to_le 4 (zlen p)) (checksum4 p) p)) = k).
    { rewrite firstn_length. lia. }
    apply recv_msg_short; auto; [|now rewrite Hlen].
    destruct (Nat.lt_ge_cases k 24) as [Hlt|Hge]; [left; now rewrite Hlen | right].
    unfold zlen at 1. rewrite Hlen.
    set (hdr := magic ++ pad12 c ++ to_le 4 (zlen p) ++ checksum4 p).
    assert (Hh : length hdr = 24%nat) by (unfold hdr; rewrite !app_length; lia).
    assert (Ef : frame magic (pad12 c) (to_le 4 (zlen p)) (checksum4 p) p = hdr ++ p).
    { unfold frame, hdr. now rewrite <- !app_assoc. }
    rewrite Ef. replace k with (length hdr + (k - 24))%nat by lia. rewrite firstn_app_2.
    assert (Esl : slice 16 20 (hdr ++ firstn (k - 24) p) = to_le 4 (zlen p)).
    { unfold hdr. generalize (to_le 4 (zlen p)) Hll. generalize (checksum4 p) Hck. generalize (pad12 c) Hl12.
      clear -Hm. intros l1 H1 l2 H2 l3 H3. destr_len Hm. destr_len H1. destr_len H3. reflexivity. }
    rewrite Esl, of_le_len4 by exact Hp. unfold zlen. lia.
  Qed.
End WithHash.
