(* Proofs about the framing model (Model/P2pFrame.v): the accumulate-until-length loop, recv_msg on complete
   and on truncated frames, msg_ser, and the corollaries used by Props/C17.v. *)
From Coq Require Import ZArith List Lia Bool.
Require Import Bits.Lib.Result Bits.Lib.Bytes Bits.Spec.P2p Bits.Model.P2pFrame.
Import ListNotations.
Import Coq.Init.Byte.
Local Open Scope Z_scope.

Definition pos_sched (sch : list Z) : Prop := Forall (fun c => 0 < c) sch.

Lemma pos_sched_tl sch : pos_sched sch -> pos_sched (tl sch).
Proof. intros H. destruct sch; [exact H | now inversion H]. Qed.

Lemma skipn_tl {A} j (l : list A) : skipn j (tl l) = skipn (S j) l.
Proof. destruct l; [now destruct j | reflexivity]. Qed.

Lemma zlen_app {A} (a b : list A) : zlen (a ++ b) = zlen a + zlen b.
Proof. unfold zlen. rewrite app_length. lia. Qed.

Lemma zlen_nil_inv {A} (l : list A) : zlen l = 0 -> l = [].
Proof. unfold zlen. destruct l; [auto | cbn [length]; lia]. Qed.

(* ------------------------------------------------------------------ one recv call *)
Definition recv_k (n : Z) (st : bytes) (sch : list Z) : nat :=
  Z.to_nat (Z.min (match sch with [] => n | c :: _ => Z.min n c end) (zlen st)).

Lemma recv_eq n st sch :
  recv n (st, sch) = (firstn (recv_k n st sch) st, (skipn (recv_k n st sch) st, tl sch)).
Proof. reflexivity. Qed.

Lemma recv_k_le_len n st sch : (recv_k n st sch <= length st)%nat.
Proof. unfold recv_k, zlen. lia. Qed.

Lemma recv_k_le_n n st sch : 0 <= n -> Z.of_nat (recv_k n st sch) <= n.
Proof. unfold recv_k, zlen. destruct sch; lia. Qed.

Lemma recv_k_pos n st sch : 0 < n -> pos_sched sch -> st <> [] -> (1 <= recv_k n st sch)%nat.
Proof.
  intros Hn Hs Hst. unfold recv_k, zlen.
  assert (1 <= length st)%nat by (destruct st; [congruence | cbn [length]; lia]).
  destruct sch as [|c t]; [lia|]. inversion Hs as [|? ? Hc _]; subst. lia.
Qed.

Lemma firstn_nonempty_pos {A} k (l : list A) x xs : firstn k l = x :: xs -> (1 <= k)%nat.
Proof. destruct k; [discriminate | lia]. Qed.

(* ------------------------------------------------------------------ the loop *)
Lemma recv_exact_eq fuel want acc s :
  recv_exact fuel want acc s =
  if zlen acc =? want then Ok (acc, s, fuel)
  else match fuel with
       | O => Err FuelE
       | S f =>
         let '(data, s') := recv (want - zlen acc) s in
         match data with
         | [] => Err ConnE
         | _ :: _ => recv_exact f want (acc ++ data) s'
         end
       end.
Proof. destruct fuel; reflexivity. Qed.

(* whatever the schedule: an Ok result has consumed exactly the bytes it appended, one recv call per
   at least one byte, and stops with exactly [want] bytes *)
Lemma recv_exact_ok_inv : forall fuel want acc st sch acc' st' sch' f',
  recv_exact fuel want acc (st, sch) = Ok (acc', (st', sch'), f') ->
  exists d, acc' = acc ++ d /\ st = d ++ st' /\ (fuel <= f' + length d)%nat /\ (f' <= fuel)%nat
            /\ zlen acc' = want /\ exists j, sch' = skipn j sch.
Proof.
  induction fuel as [|f IH]; intros want acc st sch acc' st' sch' f' H; rewrite recv_exact_eq in H.
  - destruct (Z.eqb_spec (zlen acc) want) as [E|E]; [|discriminate].
    injection H as <- <- <- <-. exists []. rewrite app_nil_r. repeat split; auto; try lia; try (now exists 0%nat).
  - destruct (Z.eqb_spec (zlen acc) want) as [E|E].
    + injection H as <- <- <- <-. exists []. rewrite app_nil_r. repeat split; auto; try lia; try (now exists 0%nat).
    + rewrite recv_eq in H. set (k := recv_k (want - zlen acc) st sch) in *.
      destruct (firstn k st) as [|x xs] eqn:Ed; [discriminate|].
      apply IH in H. destruct H as (d & -> & Hst & Hf & Hf2 & Hw & j & ->).
      exists ((x :: xs) ++ d). rewrite app_assoc. split; [reflexivity|].
      split. { rewrite <- app_assoc, <- Hst, <- Ed. symmetry. apply firstn_skipn. }
      split. { rewrite app_length. cbn [length]. lia. }
      split; [lia|]. split; [exact Hw|]. exists (S j). apply skipn_tl.
Qed.

(* whatever the schedule: the loop stops within (bytes available + 1) recv calls *)
Lemma recv_exact_no_fuelE : forall fuel want acc st sch,
  (length st < fuel)%nat -> recv_exact fuel want acc (st, sch) <> Err FuelE.
Proof.
  induction fuel as [|f IH]; intros want acc st sch Hf; [lia|].
  rewrite recv_exact_eq. destruct (zlen acc =? want); [discriminate|].
  rewrite recv_eq. set (k := recv_k (want - zlen acc) st sch).
  destruct (firstn k st) as [|x xs] eqn:Ed; [discriminate|].
  apply IH. apply firstn_nonempty_pos in Ed. rewrite skipn_length.
  assert (1 <= length st)%nat; [|lia].
  destruct st; [now destruct k | cbn [length]; lia].
Qed.

(* positive chunks, enough bytes: the loop returns exactly the bytes wanted and leaves the rest *)
Lemma recv_exact_complete : forall fuel want acc data rest sch,
  pos_sched sch -> zlen acc + zlen data = want -> (length data <= fuel)%nat ->
  exists sch' f', recv_exact fuel want acc (data ++ rest, sch) = Ok (acc ++ data, (rest, sch'), f')
    /\ pos_sched sch' /\ (fuel <= f' + length data)%nat /\ (f' <= fuel)%nat /\ exists j, sch' = skipn j sch.
Proof.
  induction fuel as [|f IH]; intros want acc data rest sch Hs Hw Hf.
  - assert (data = []) as -> by (destruct data; [auto | cbn [length] in Hf; lia]).
    rewrite recv_exact_eq. unfold zlen in Hw at 2. cbn [length] in Hw.
    replace (zlen acc =? want) with true by (symmetry; apply Z.eqb_eq; lia).
    exists sch, 0%nat. rewrite app_nil_r. cbn [app length]. repeat split; auto; try lia; try (now exists 0%nat).
  - rewrite recv_exact_eq. destruct (Z.eqb_spec (zlen acc) want) as [E|E].
    + assert (data = []) as -> by (apply zlen_nil_inv; lia).
      exists sch, (S f). rewrite app_nil_r. cbn [app length]. repeat split; auto; try lia; try (now exists 0%nat).
    + assert (Hd : 0 < zlen data) by (unfold zlen in *; lia).
      assert (Hne : data <> []) by (intros ->; unfold zlen in Hd; cbn in Hd; lia).
      rewrite recv_eq. set (k := recv_k (want - zlen acc) (data ++ rest) sch).
      assert (Hk1 : (1 <= k)%nat).
      { apply recv_k_pos; [lia | exact Hs |]. destruct data; [congruence | discriminate]. }
      assert (Hk2 : (k <= length data)%nat).
      { pose proof (recv_k_le_n (want - zlen acc) (data ++ rest) sch ltac:(lia)) as Hk.
        fold k in Hk. unfold zlen in *. lia. }
      rewrite firstn_app, skipn_app.
      replace (k - length data)%nat with 0%nat by lia. cbn [firstn skipn]. rewrite app_nil_r.
      destruct (firstn k data) as [|x xs] eqn:Ed.
      { apply (f_equal (@length byte)) in Ed. rewrite firstn_length in Ed. cbn [length] in Ed. lia. }
      rewrite <- Ed.
      destruct (IH want (acc ++ firstn k data) (skipn k data) rest (tl sch)) as (sch' & f' & HR & Hp & Hfu & Hfu2 & j & Hj).
      * now apply pos_sched_tl.
      * rewrite zlen_app. unfold zlen in *. rewrite firstn_length, skipn_length. lia.
      * rewrite skipn_length. lia.
      * exists sch', f'. rewrite HR. rewrite <- app_assoc, firstn_skipn.
        split; [reflexivity|]. split; [exact Hp|]. rewrite skipn_length in Hfu.
        split; [lia|]. split; [lia|]. exists (S j). rewrite Hj. apply skipn_tl.
Qed.

(* positive chunks, not enough bytes: ConnectionError after at most (bytes available + 1) recv calls *)
Lemma recv_exact_short : forall fuel want acc st sch,
  pos_sched sch -> zlen acc + zlen st < want -> (length st < fuel)%nat ->
  recv_exact fuel want acc (st, sch) = Err ConnE.
Proof.
  induction fuel as [|f IH]; intros want acc st sch Hs Hw Hf; [lia|].
  rewrite recv_exact_eq.
  assert (0 <= zlen st) by (unfold zlen; lia).
  destruct (Z.eqb_spec (zlen acc) want) as [E|E]; [lia|].
  rewrite recv_eq. set (k := recv_k (want - zlen acc) st sch).
  destruct (firstn k st) as [|x xs] eqn:Ed; [reflexivity|].
  rewrite <- Ed. apply IH.
  - now apply pos_sched_tl.
  - rewrite zlen_app. unfold zlen in *. rewrite firstn_length, skipn_length. lia.
  - apply firstn_nonempty_pos in Ed. rewrite skipn_length.
    assert (1 <= length st)%nat; [|lia]. destruct st; [now destruct k | cbn [length]; lia].
Qed.

(* ------------------------------------------------------------------ frames *)
Definition frame (m cmd lenb chk body : bytes) : bytes := m ++ cmd ++ lenb ++ chk ++ body.
Definition pad12 (c : bytes) : bytes := c ++ repeat x00 (12 - length c).

Ltac destr_len H :=
  repeat match type of H with
         | length ?l = S _ => destruct l; [discriminate H|]; cbn [length] in H; apply Nat.succ_inj in H
         | length ?l = O => destruct l; [clear H | discriminate H]
         end.

Lemma bytes_eqb_refl a : bytes_eqb a a = true.
Proof. now apply bytes_eqb_eq. Qed.

Lemma bytes_eqb_neq a b : a <> b -> bytes_eqb a b = false.
Proof. intros H. destruct (bytes_eqb a b) eqn:E; [apply bytes_eqb_eq in E; contradiction | reflexivity]. Qed.

Section WithHash.
  Variable sha256 : bytes -> bytes.
  Notation recv_msg := (recv_msg sha256).
  Notation msg_ser := (msg_ser sha256).
  Notation checksum4 := (checksum4 sha256).

  (* the outcome of recv_msg on a stream that starts with a complete frame, for ANY header fields *)
  Definition frame_outcome (magic m cmd chk body : bytes) : option (bytes * bytes * bytes) :=
    if negb (bytes_eqb chk (checksum4 body)) then None
    else if negb (bytes_eqb m magic) then None
    else Some (m, rstrip0 cmd, body).

  Lemma recv_msg_complete : forall fuel magic m cmd lenb chk body rest sch,
    length m = 4%nat -> length cmd = 12%nat -> length lenb = 4%nat -> length chk = 4%nat ->
    of_le lenb = zlen body -> pos_sched sch -> (24 + length body <= fuel)%nat ->
    exists sch' f', pos_sched sch' /\ (fuel <= f' + 24 + length body)%nat /\ (exists j, sch' = skipn j sch) /\
      recv_msg fuel magic (frame m cmd lenb chk body ++ rest, sch) =
      match frame_outcome magic m cmd chk body with
      | Some r => Ok (r, (rest, sch'), f')
      | None => Err ValueE
      end.
  Proof.
    intros fuel magic m cmd lenb chk body rest sch Hm Hc Hl Hk Hlen Hs Hf.
    unfold P2pFrame.recv_msg, frame.
    set (hdr := m ++ cmd ++ lenb ++ chk).
    assert (Hh : length hdr = 24%nat) by (unfold hdr; rewrite !app_length; lia).
    replace (m ++ cmd ++ lenb ++ chk ++ body) with (hdr ++ body) by (unfold hdr; now rewrite <- !app_assoc).
    rewrite <- app_assoc.
    destruct (recv_exact_complete fuel msg_header_len [] hdr (body ++ rest) sch Hs) as (sch1 & f1 & HR & Hp1 & Hf1 & Hf1' & j1 & Hj1).
    { unfold zlen, msg_header_len. cbn [length]. lia. } { lia. }
    rewrite HR. cbn [bind app].
    assert (E1 : firstn 4 hdr = m) by (unfold hdr; destr_len Hm; reflexivity).
    assert (E2 : slice 4 16 hdr = cmd) by (unfold hdr; destr_len Hm; destr_len Hc; reflexivity).
    assert (E3 : slice 16 20 hdr = lenb) by (unfold hdr; destr_len Hm; destr_len Hc; destr_len Hl; reflexivity).
    assert (E4 : slice 20 24 hdr = chk) by (unfold hdr; destr_len Hm; destr_len Hc; destr_len Hl; destr_len Hk; reflexivity).
    assert (E5 : skipn 24 hdr = []) by (rewrite <- Hh; apply skipn_all).
    rewrite E1, E2, E3, E4, E5, Hlen.
    assert (HB : exists sch' f',
      (if zlen body =? 0 then Ok ([], (body ++ rest, sch1), f1) else recv_exact f1 (zlen body) [] (body ++ rest, sch1))
      = Ok (body, (rest, sch'), f') /\ pos_sched sch' /\ (f1 <= f' + length body)%nat /\ exists j, sch' = skipn j sch1).
    { destruct (Z.eqb_spec (zlen body) 0) as [E0|E0].
      - apply zlen_nil_inv in E0. subst body. exists sch1, f1. cbn [app length]. repeat split; auto; try lia; try (now exists 0%nat).
      - destruct (recv_exact_complete f1 (zlen body) [] body rest sch1 Hp1) as (sch2 & f2 & HR2 & Hp2 & Hf2 & _ & j2 & Hj2).
        { unfold zlen; cbn [length]; lia. } { lia. }
        exists sch2, f2. cbn [app] in HR2. repeat split; auto. now exists j2. }
    destruct HB as (sch' & f' & -> & Hp' & Hf' & j2 & Hj2). cbn [bind].
    exists sch', f'. split; [exact Hp'|]. split; [lia|].
    split. { exists (j2 + j1)%nat. rewrite Hj2, Hj1. apply skipn_skipn. }
    rewrite Z.eqb_refl. cbn [negb]. unfold frame_outcome.
    destruct (negb (bytes_eqb chk (checksum4 body))); [reflexivity|].
    destruct (negb (bytes_eqb m magic)); reflexivity.
  Qed.

  (* truncated stream: fewer than 24 bytes, or fewer payload bytes than the header declares *)
  Definition truncated (st : bytes) : Prop :=
    (length st < 24)%nat \/ zlen st < 24 + of_le (slice 16 20 st).

  Lemma recv_msg_short : forall fuel magic st sch,
    pos_sched sch -> truncated st -> (length st < fuel)%nat ->
    recv_msg fuel magic (st, sch) = Err ConnE.
  Proof.
    intros fuel magic st sch Hs Ht Hf. unfold P2pFrame.recv_msg.
    destruct (Nat.lt_ge_cases (length st) 24) as [Hlt|Hge].
    - rewrite recv_exact_short; auto. unfold zlen, msg_header_len. cbn [length]. lia.
    - destruct Ht as [Ht|Ht]; [lia|].
      set (hdr := firstn 24 st). set (st' := skipn 24 st).
      assert (Est : st = hdr ++ st') by (symmetry; apply firstn_skipn).
      assert (Hh : length hdr = 24%nat) by (unfold hdr; rewrite firstn_length; lia).
      assert (Hl : length st = (24 + length st')%nat) by (rewrite Est at 1; rewrite app_length; lia).
      assert (Esl : slice 16 20 st = slice 16 20 hdr).
      { rewrite Est. clearbody hdr st'. clear -Hh. destr_len Hh. reflexivity. }
      rewrite Esl in Ht. rewrite Est.
      destruct (recv_exact_complete fuel msg_header_len [] hdr st' sch Hs) as (sch1 & f1 & HR & Hp1 & Hf1 & _ & _).
      { unfold zlen, msg_header_len. cbn [length]. lia. } { lia. }
      rewrite HR. cbn [bind app].
      replace (skipn 24 hdr) with (@nil byte) by (rewrite <- Hh; symmetry; apply skipn_all).
      assert (0 <= zlen st') by (unfold zlen; lia).
      destruct (Z.eqb_spec (of_le (slice 16 20 hdr)) 0) as [E0|E0].
      { unfold zlen in *. lia. }
      rewrite recv_exact_short; auto.
      + unfold zlen in *. cbn [length]. lia.
      + lia.
  Qed.

  (* anything accepted is a well-formed frame at the head of the stream, and nothing beyond it was consumed *)
  Lemma recv_msg_ok_inv : forall fuel magic st sch m c p st' sch' f',
    recv_msg fuel magic (st, sch) = Ok ((m, c, p), (st', sch'), f') ->
    exists hdr, st = hdr ++ p ++ st' /\ length hdr = 24%nat /\ m = magic /\ firstn 4 hdr = magic
      /\ c = rstrip0 (slice 4 16 hdr) /\ of_le (slice 16 20 hdr) = zlen p /\ slice 20 24 hdr = checksum4 p
      /\ (fuel <= f' + 24 + length p)%nat.
  Proof.
    intros fuel magic st sch m c p st' sch' f' H. unfold P2pFrame.recv_msg in H.
    destruct (recv_exact fuel msg_header_len [] (st, sch)) as [[[msg [st1 sch1]] f1]|e] eqn:E1; [|discriminate].
    cbn [bind] in H.
    apply recv_exact_ok_inv in E1. destruct E1 as (hdr & Ehdr & Est & Hf1 & _ & Hw & _).
    cbn [app] in Ehdr. subst msg.
    assert (Hh : length hdr = 24%nat) by (unfold zlen, msg_header_len in Hw; lia).
    replace (skipn 24 hdr) with (@nil byte) in H by (rewrite <- Hh; symmetry; apply skipn_all).
    set (psz := of_le (slice 16 20 hdr)) in *.
    assert (HB : exists d, (fuel <= f' + 24 + length d)%nat /\ st1 = d ++ st' /\ zlen d = psz /\
       (if negb (zlen d =? psz) then Err ValueE
        else if negb (bytes_eqb (slice 20 24 hdr) (checksum4 d)) then Err ValueE
        else if negb (bytes_eqb (firstn 4 hdr) magic) then Err ValueE
        else Ok (firstn 4 hdr, rstrip0 (slice 4 16 hdr), d, (st', sch'), f')) = Ok (m, c, p, (st', sch'), f')).
    { destruct (Z.eqb_spec psz 0) as [E0|E0].
      - cbn [bind] in H. exists [].
        destruct (negb (zlen (@nil byte) =? psz)); [discriminate|].
        destruct (negb (bytes_eqb (slice 20 24 hdr) (checksum4 []))) eqn:Ec; [discriminate|].
        destruct (negb (bytes_eqb (firstn 4 hdr) magic)) eqn:Em; [discriminate|].
        injection H as <- <- <- <- <- <-. cbn [length app]. repeat split; auto; try lia.
        rewrite E0, Ec, Em. reflexivity.
      - destruct (recv_exact f1 psz [] st1) as [[[pl [st2 sch2]] f2]|e] eqn:E2; [|discriminate].
        cbn [bind] in H. destruct st1 as [st1 sch1'].
        apply recv_exact_ok_inv in E2. destruct E2 as (d & Ed & Est1 & Hf2 & _ & Hw2 & _).
        cbn [app] in Ed. subst pl.
        destruct (negb (zlen d =? psz)) eqn:Ez; [discriminate|].
        destruct (negb (bytes_eqb (slice 20 24 hdr) (checksum4 d))) eqn:Ec; [discriminate|].
        destruct (negb (bytes_eqb (firstn 4 hdr) magic)) eqn:Em; [discriminate|].
        injection H as <- <- <- <- <- <-. exists d. rewrite Ez, Ec, Em.
        injection E1 as <- <-. repeat split; auto. lia. }
    destruct HB as (d & Hfu & Est1 & Hz & HE).
    rewrite Hz, Z.eqb_refl in HE. cbn [negb] in HE.
    destruct (bytes_eqb (slice 20 24 hdr) (checksum4 d)) eqn:Ec; [|discriminate]. cbn [negb] in HE.
    destruct (bytes_eqb (firstn 4 hdr) magic) eqn:Em; [|discriminate]. cbn [negb] in HE.
    injection HE as <- <- <-. apply bytes_eqb_eq in Ec, Em.
    exists hdr. rewrite Est. repeat split; auto.
    - destruct st1 as [x y]. cbn in *. congruence.
  Qed.
End WithHash.
