(* BIP340 part 2: lift_x characterised, default signing = the BIP's, signatures verify.
   Additional explicit premise [lift_facts p] (square roots mod p, p = 3 mod 4 prime): proved by computation
   for p = 43, 79, 67 in Proofs/SchnorrSmall.v. *)
From Coq Require Import ZArith List Bool Lia Zpow_facts.
Require Import Bits.Lib.Result Bits.Lib.Bytes Bits.Lib.Group Bits.Lib.ModArith.
Require Import Bits.Model.Ecmath Bits.Model.Keys Bits.Model.Schnorr.
Require Import Bits.Proofs.Ecmath Bits.Proofs.Ecdsa Bits.Proofs.Keys Bits.Proofs.Schnorr.
Require Bits.Spec.Bip340.
Import ListNotations.
Local Open Scope Z_scope.

(* what lift_x needs from the field: p odd; c^((p+1)/4) is a square root of every square c; a square has
   no other roots than y and p - y.  (Consequences of: p prime, p = 3 mod 4.) *)
Record lift_facts (p : Z) : Prop := {
  lf_odd : p mod 2 = 1;
  lf_sqrt : forall y, 0 <= y < p ->
    let c := y ^ 2 mod p in (c ^ ((p + 1) / 4) mod p) ^ 2 mod p = c;
  lf_roots : forall y z, 0 <= y < p -> 0 <= z < p -> y ^ 2 mod p = z ^ 2 mod p ->
    z = y \/ z = (p - y) mod p;
}.

Lemma firstn_app_exact {A} (k : nat) (l1 l2 : list A) : length l1 = k -> firstn k (l1 ++ l2) = l1.
Proof. intros <-. rewrite firstn_app, Nat.sub_diag, firstn_all. cbn. apply app_nil_r. Qed.
Lemma skipn_app_exact {A} (k : nat) (l1 l2 : list A) : length l1 = k -> skipn k (l1 ++ l2) = l2.
Proof. intros <-. rewrite skipn_app, Nat.sub_diag, skipn_all. reflexivity. Qed.

Ltac euclid := Z.to_euclidean_division_equations; lia.

Section LiftChar.
  Variable p : Z.
  Hypothesis Hp : 7 < p.
  Hypothesis LF : lift_facts p.

  Lemma rhs_eq x : rhs p 0 7 x = (x ^ 3 + 7) mod p.
  Proof.
    unfold rhs, fadd, fmul. rewrite fpow_pow by lia. rewrite Z.mul_0_r, Z.mod_0_l, Z.add_0_r by lia.
    rewrite Z.mod_mod by lia. apply Zplus_mod_idemp_l.
  Qed.

  (* a point with even y is what lift_x returns for its x *)
  Lemma lift_x_even x y : oncurve p 0 7 (Some (x, y)) -> y mod 2 = 0 -> S.lift_x p x = Some (x, y).
  Proof.
    intros (Fx & Fy & E) Ev. apply (inF_iff p) in Fx. apply (inF_iff p) in Fy.
    rewrite fpow_pow, rhs_eq in E by lia.
    unfold S.lift_x. destruct (Z.leb_spec p x); [lia|].
    rewrite <- E. pose proof (lf_sqrt p LF y Fy) as Sq. cbv zeta in Sq.
    set (y0 := (y ^ 2 mod p) ^ ((p + 1) / 4) mod p) in *.
    rewrite Sq, Z.eqb_refl. cbn [negb].
    assert (R0 : 0 <= y0 < p) by (apply Z.mod_pos_bound; lia).
    pose proof (lf_odd p LF) as Odd.
    destruct (lf_roots p LF y y0 Fy R0 (eq_sym Sq)) as [->|E0].
    - rewrite Ev. reflexivity.
    - destruct (Z.eq_dec y 0) as [->|Ny].
      + rewrite Z.sub_0_r, Z.mod_same in E0 by lia. rewrite E0. reflexivity.
      + rewrite Z.mod_small in E0 by lia.
        assert (Od : y0 mod 2 = 1) by (rewrite E0; euclid).
        rewrite Od. cbn. do 2 f_equal. lia.
  Qed.

  Lemma spec_lift_x_even_y x x' y : S.lift_x p x = Some (x', y) -> y mod 2 = 0.
  Proof.
    unfold S.lift_x. destruct (p <=? x); [discriminate|].
    set (c := (x ^ 3 + 7) mod p). set (y0 := c ^ ((p + 1) / 4) mod p).
    destruct (c =? y0 ^ 2 mod p); [|discriminate]. cbn [negb].
    pose proof (lf_odd p LF) as Odd.
    destruct (Z.eqb_spec (y0 mod 2) 0) as [Ev|Od]; intros H; injection H as <- <-; [exact Ev|].
    euclid.
  Qed.

  (* lift_x(x) "returns the point P for which x(P) = x and has_even_y(P), or fails if ... no such point exists" *)
  Theorem lift_x_char x x' y : 0 <= x ->
    (S.lift_x p x = Some (x', y) <-> x' = x /\ oncurve p 0 7 (Some (x, y)) /\ y mod 2 = 0).
  Proof.
    intros X0. split.
    - intros H. destruct (spec_lift_x_oncurve p Hp x x' y X0 H) as [-> OC].
      split; [reflexivity|]. split; [exact OC|]. now apply (spec_lift_x_even_y x x y).
    - intros (-> & OC & Ev). now apply lift_x_even.
  Qed.

  Theorem lift_x_fails_iff x : 0 <= x -> (S.lift_x p x = None <-> forall y, ~ oncurve p 0 7 (Some (x, y))).
  Proof.
    intros X0. split.
    - intros H y OC. pose proof (lf_odd p LF) as Odd.
      destruct (Z.eq_dec (y mod 2) 0) as [Ev|Od].
      + rewrite (lift_x_even x y OC Ev) in H. discriminate.
      + destruct OC as (Fx & Fy & E). pose proof Fy as Fy'. apply (inF_iff p) in Fy'.
        assert (Ny : y <> 0) by (intros ->; apply Od; reflexivity).
        assert (OC' : oncurve p 0 7 (Some (x, p - y))).
        { split; [exact Fx|]. split; [apply inF_iff; lia|].
          rewrite fpow_pow in * by lia. rewrite neg_sq_mod by lia. exact E. }
        rewrite (lift_x_even x (p - y) OC') in H by euclid. discriminate.
    - intros H. destruct (S.lift_x p x) as [[x' y]|] eqn:E; [|reflexivity].
      destruct (spec_lift_x_oncurve p Hp x x' y X0 E) as [-> OC]. exfalso. exact (H y OC).
  Qed.
End LiftChar.

Section Sign.
  Variables p n : Z.
  Variable G : point.
  Variable sha256 : bytes -> bytes.
  Hypothesis CF : curve_facts p 0 7 n G.
  Hypothesis LF : lift_facts p.
  Hypothesis Hp256 : p <= 2 ^ 256.
  Hypothesis Hn256 : n <= 2 ^ 256.
  Hypothesis Hsha : forall x, length (sha256 x) = 32%nat.

  Let Hp := cf_p _ _ _ _ _ CF.
  Let Ha := cf_a _ _ _ _ _ CF.
  Let Hb := cf_b _ _ _ _ _ CF.
  Let CG := cf_group _ _ _ _ _ CF.
  Let Hn := cf_n _ _ _ _ _ CF.
  Let HG := cf_G _ _ _ _ _ CF.
  Let Hp7 : 7 < p := p_gt_7 p n G CF.

  Notation mverify := (verify p 0 7 n G sha256).
  Notation sverify := (S.verify p n G (padd p 0) sha256).
  Notation msign := (sign p 0 7 n G sha256).
  Notation ssign := (S.sign p n G (padd p 0) sha256).
  Notation chal := (S.challenge n sha256).

  Lemma neg_mod_n m : 0 < m < n -> (- m) mod n = n - m.
  Proof. intros H. symmetry. apply (Z.mod_unique (- m) n (-1) (n - m)); lia. Qed.

  Lemma kG_some m : 0 < m < n -> exists x y, smul p 0 m G = Some (x, y) /\ oncurve p 0 7 (Some (x, y)).
  Proof.
    intros Hm. pose proof (cf_min _ _ _ _ _ CF m Hm) as NZ.
    assert (OC : oncurve p 0 7 (smul p 0 m G)) by (apply (smul_oncurve p 0 7 CG); auto; lia).
    destruct (smul p 0 m G) as [[x y]|]; [|congruence]. eauto.
  Qed.

  Lemma kG_x_range m x y : 0 < m < n -> smul p 0 m G = Some (x, y) -> 0 <= x < p.
  Proof.
    intros Hm E. assert (OC : oncurve p 0 7 (Some (x, y))).
    { rewrite <- E. apply (smul_oncurve p 0 7 CG); auto; lia. }
    destruct OC as (F & _). now apply (inF_iff p) in F.
  Qed.

  (* the BIP's "d = d' if has_even_y(P), otherwise n - d'": the multiple with the same x and an even y *)
  Lemma even_normalise m x y : 0 < m < n -> smul p 0 m G = Some (x, y) ->
    let m' := if y mod 2 =? 0 then m else n - m in
    0 < m' < n /\ exists y', smul p 0 m' G = Some (x, y') /\ y' mod 2 = 0.
  Proof.
    intros Hm E. cbv zeta. destruct (Z.eqb_spec (y mod 2) 0) as [Ev|Od].
    - split; [lia|]. exists y. auto.
    - split; [lia|].
      assert (OC : oncurve p 0 7 (Some (x, y))).
      { rewrite <- E. apply (smul_oncurve p 0 7 CG); auto; lia. }
      destruct OC as (_ & Fy & _). apply (inF_iff p) in Fy.
      assert (Ny : y <> 0) by (intros ->; apply Od; reflexivity).
      rewrite <- neg_mod_n by lia. rewrite (smul_neg p 0 7 n G CF) by lia. rewrite E. cbn [pneg].
      rewrite fsub0 by lia. exists (p - y). split; [reflexivity|].
      pose proof (lf_odd p LF). euclid.
  Qed.

  (* s.G - e.(d.G) = k.G  when  s = k + e d (mod n) *)
  Lemma schnorr_algebra d k e : 0 <= d -> 0 <= k < n -> 0 <= e ->
    padd p 0 (smul p 0 ((k + e * d) mod n) G) (pneg p (smul p 0 e (smul p 0 d G))) = smul p 0 k G.
  Proof.
    intros Hd Hk He.
    rewrite (smul_mul p 0 7 CG) by auto.
    rewrite <- (smul_neg p 0 7 n G CF) by nia.
    assert (T : 0 <= (- (e * d)) mod n < n) by (apply Z.mod_pos_bound; lia).
    assert (U : 0 <= (k + e * d) mod n < n) by (apply Z.mod_pos_bound; lia).
    rewrite <- (smul_add p 0 7 CG) by (auto; lia).
    rewrite <- (smul_mod p 0 7 n G CF) by lia.
    rewrite <- Zplus_mod. replace (k + e * d + - (e * d)) with k by ring.
    rewrite Z.mod_small by lia. reflexivity.
  Qed.

  Lemma e_dG_finite d e : 0 < d < n -> 0 < e < n -> smul p 0 e (smul p 0 d G) <> None.
  Proof.
    intros Hd He. rewrite (smul_mul p 0 7 CG) by (auto; lia).
    rewrite <- (smul_mod p 0 7 n G CF) by nia.
    apply (cf_min _ _ _ _ _ CF).
    pose proof (mul_nonzero_mod p n G CF e d He Hd). pose proof (Z.mod_pos_bound (e * d) n ltac:(lia)). lia.
  Qed.

  (* ---------------- the state of a signing run after the nonce has been derived ---------------- *)
  Section State.
    Variables (m : bytes) (d k : Z) (px py rx ry : Z).
    Hypothesis Hd : 0 < d < n.
    Hypothesis Hk : 0 < k < n.
    Hypothesis EP : smul p 0 d G = Some (px, py).
    Hypothesis EvP : py mod 2 = 0.
    Hypothesis ER : smul p 0 k G = Some (rx, ry).
    Hypothesis EvR : ry mod 2 = 0.
    Let e := chal (to_be 32 rx) (to_be 32 px) m.
    Let s := (k + e * d) mod n.
    Let pk := to_be 32 px.
    Let sig := to_be 32 rx ++ to_be 32 s.

    Lemma st_P : oncurve p 0 7 (Some (px, py)).
    Proof. rewrite <- EP. apply (smul_oncurve p 0 7 CG); auto; lia. Qed.
    Lemma st_R : oncurve p 0 7 (Some (rx, ry)).
    Proof. rewrite <- ER. apply (smul_oncurve p 0 7 CG); auto; lia. Qed.
    Lemma st_px : 0 <= px < 2 ^ 256.
    Proof. destruct st_P as (F & _). apply (inF_iff p) in F. lia. Qed.
    Lemma st_rx : 0 <= rx < p.
    Proof. destruct st_R as (F & _). now apply (inF_iff p) in F. Qed.
    Lemma st_s : 0 <= s < n.
    Proof. apply Z.mod_pos_bound. lia. Qed.
    Lemma st_e : 0 <= e < n.
    Proof. apply Z.mod_pos_bound. lia. Qed.

    Lemma st_Lpk : length pk = 32%nat. Proof. apply to_be_length. Qed.
    Lemma st_Lsig : length sig = 64%nat. Proof. unfold sig. now rewrite app_length, !to_be_length. Qed.
    Lemma st_r : of_be (firstn 32 sig) = rx.
    Proof.
      unfold sig. rewrite firstn_app_exact by apply to_be_length.
      pose proof st_rx. apply of_be_to_be_32. lia.
    Qed.
    Lemma st_sv : of_be (skipn 32 sig) = s.
    Proof.
      unfold sig. rewrite skipn_app_exact by apply to_be_length.
      pose proof st_s. apply of_be_to_be_32. lia.
    Qed.
    Lemma st_lift : S.lift_x p (of_be pk) = Some (px, py).
    Proof.
      unfold pk. rewrite of_be_to_be_32 by apply st_px. apply (lift_x_even p Hp7 LF); [apply st_P|exact EvP].
    Qed.
    Lemma st_chal : chal (to_be 32 (of_be (firstn 32 sig))) (to_be 32 px) m = e.
    Proof. now rewrite st_r. Qed.

    Lemma st_core : padd p 0 (smul p 0 s G) (pneg p (smul p 0 e (Some (px, py)))) = Some (rx, ry).
    Proof.
      rewrite <- EP. unfold s. pose proof st_e. rewrite schnorr_algebra by lia. exact ER.
    Qed.

    (* the BIP's verification accepts the signature (whatever e is) *)
    Lemma st_spec_verify : sverify pk m sig = true.
    Proof.
      pose proof st_rx. pose proof st_s.
      rewrite (verify_spec_unfold p n G sha256 CF pk m sig px py st_Lpk st_Lsig st_lift)
        by (rewrite ?st_r, ?st_sv; lia).
      rewrite st_chal, st_r, st_sv. unfold vcore_spec. rewrite st_core.
      rewrite EvR, !Z.eqb_refl. reflexivity.
    Qed.

    (* the code's verification accepts it unless e = 0 *)
    Lemma st_model_verify : e <> 0 -> mverify pk m sig = Ok ok_str.
    Proof.
      intros E0. pose proof st_rx. pose proof st_s. pose proof st_e.
      rewrite (verify_model_unfold p n G sha256 CF Hp256 pk m sig px py st_Lpk st_Lsig st_lift)
        by (rewrite ?st_r, ?st_sv; lia).
      rewrite st_chal, st_r, st_sv. unfold vcore_model.
      pose proof (e_dG_finite d e Hd ltac:(lia)) as FN. rewrite EP in FN.
      pose proof st_core as C.
      destruct (smul p 0 e (Some (px, py))) as [Q|]; [|congruence].
      rewrite C, EvR, !Z.eqb_refl. reflexivity.
    Qed.

    Lemma st_model_verify_e0 : e = 0 -> mverify pk m sig = Err TypeE.
    Proof.
      intros E0. pose proof st_rx. pose proof st_s.
      rewrite (verify_model_unfold p n G sha256 CF Hp256 pk m sig px py st_Lpk st_Lsig st_lift)
        by (rewrite ?st_r, ?st_sv; lia).
      rewrite st_chal, E0. reflexivity.
    Qed.
  End State.

  (* ---------------- sign ---------------- *)
  (* the challenge of a signature under a public key, on the encodings (as in Proofs/Schnorr.v) *)
  Notation challenge_of := (challenge_of n sha256).

  (* the intermediate values of a signing run, as pure functions *)
  Definition sg_norm (m y : Z) : Z := if y mod 2 =? 0 then m else n - m.
  Definition sg_t (d : Z) (aux : bytes) : bytes := to_be 32 (Z.lxor d (of_be (tagged sha256 S.tag_aux aux))).
  Definition sg_nonce (d px : Z) (m aux : bytes) : Z :=
    of_be (tagged sha256 S.tag_nonce (sg_t d aux ++ to_be 32 px ++ m)) mod n.
  Definition sg_sig (d k rx px : Z) (m : bytes) : bytes :=
    to_be 32 rx ++ to_be 32 ((k + chal (to_be 32 rx) (to_be 32 px) m * d) mod n).
  Definition sg_tail {A} (fin : bytes -> A) (fail0 failinf : A) (d px : Z) (m aux : bytes) : A :=
    let k' := sg_nonce d px m aux in
    if k' =? 0 then fail0 else
    match smul p 0 k' G with
    | None => failinf
    | Some (rx, ry) => fin (sg_sig d (sg_norm k' ry) rx px m)
    end.

  Section Run.
    Variables rnd key m aux : bytes.
    Variables px py : Z.
    Hypothesis Lkey : length key = 32%nat.
    Hypothesis Laux : length aux = 32%nat.
    Hypothesis Hkey : 1 <= of_be key < n.
    Hypothesis EP : smul p 0 (of_be key) G = Some (px, py).
    Let d := sg_norm (of_be key) py.

    Lemma run_d : 0 < d < n /\ exists y', smul p 0 d G = Some (px, y') /\ y' mod 2 = 0.
    Proof. exact (even_normalise (of_be key) px py ltac:(lia) EP). Qed.

    Lemma run_px : 0 <= px < 2 ^ 256.
    Proof. pose proof (kG_x_range (of_be key) px py ltac:(lia) EP). lia. Qed.

    Lemma run_xor : 0 <= Z.lxor d (of_be (tagged sha256 S.tag_aux aux)) < 2 ^ 256.
    Proof. destruct run_d as (Hd & _). apply lxor_bound; [lia|]. apply of_be_32_bound, Hsha. Qed.

    Lemma model_sign_unfold : msign rnd key m (Some aux) =
      sg_tail (fun sig => bind (mverify (to_be 32 px) m sig) (fun _ => Ok sig)) (Err AssertionE) (Err TypeE) d px m aux.
    Proof.
      unfold sign. rewrite Lkey, Laux. cbn [Nat.eqb negb].
      destruct (Z.eqb_spec (of_be key) 0); [lia|]. destruct (Z.leb_spec n (of_be key)); [lia|]. cbn [orb].
      rewrite (scalar_mul_smul p 0 7 Hp Ha CG) by (auto; lia). rewrite EP. cbn [bind].
      fold (sg_norm (of_be key) py). fold d.
      rewrite to_be_chk_ok by exact run_xor. cbn [bind]. fold (sg_t d aux).
      rewrite to_be_chk_ok by exact run_px. cbn [bind]. fold (sg_nonce d px m aux).
      unfold sg_tail. set (k' := sg_nonce d px m aux).
      assert (Bk' : 0 <= k' < n) by (apply Z.mod_pos_bound; lia).
      destruct (Z.eqb_spec k' 0) as [K0|K0]; [reflexivity|].
      rewrite (scalar_mul_smul p 0 7 Hp Ha CG) by (auto; lia).
      destruct (smul p 0 k' G) as [[rx ry]|] eqn:ER; cbn [bind]; [|reflexivity].
      pose proof (kG_x_range k' rx ry ltac:(lia) ER) as Brx.
      rewrite to_be_chk_ok by lia. cbn [bind].
      fold (sg_norm k' ry).
      rewrite to_be_chk_ok by (pose proof (Z.mod_pos_bound
        (sg_norm k' ry + of_be (tagged sha256 S.tag_challenge (to_be 32 rx ++ to_be 32 px ++ m)) mod n * d) n ltac:(lia)); lia).
      cbn [bind]. reflexivity.
    Qed.

    Lemma spec_sign_unfold : ssign key m aux =
      sg_tail (fun sig => if sverify (to_be 32 px) m sig then Some sig else None) None None d px m aux.
    Proof.
      unfold S.sign, S.int.
      destruct (Z.eqb_spec (of_be key) 0); [lia|]. destruct (Z.leb_spec n (of_be key)); [lia|]. cbn [orb].
      rewrite (spec_mul_smul p n G CF) by (auto; lia). rewrite EP. cbv zeta.
      unfold S.has_even_y. fold (sg_norm (of_be key) py). fold d. unfold S.bytes32.
      replace (S.xor_bytes (to_be 32 d) (S.tagged_hash sha256 S.tag_aux aux)) with (sg_t d aux)
        by (apply xor_is_bytewise, Hsha).
      change (of_be (S.tagged_hash sha256 S.tag_nonce (sg_t d aux ++ to_be 32 px ++ m)) mod n)
        with (sg_nonce d px m aux).
      unfold sg_tail. set (k' := sg_nonce d px m aux).
      assert (Bk' : 0 <= k' < n) by (apply Z.mod_pos_bound; lia).
      destruct (k' =? 0); [reflexivity|].
      rewrite (spec_mul_smul p n G CF k' G HG (proj1 Bk')).
      destruct (smul p 0 k' G) as [[rx ry]|]; reflexivity.
    Qed.

    Lemma pubkeys : S.pubkey_gen n G (padd p 0) key = Some (to_be 32 px) /\
                    pubkey_of_key p 0 7 n G key = Ok (to_be 32 px).
    Proof.
      assert (OCP : oncurve p 0 7 (Some (px, py))).
      { rewrite <- EP. apply (smul_oncurve p 0 7 CG); auto; lia. }
      split.
      - unfold S.pubkey_gen, S.int.
        destruct (Z.eqb_spec (of_be key) 0); [lia|]. destruct (Z.leb_spec n (of_be key)); [lia|]. cbn [orb].
        rewrite (spec_mul_smul p n G CF) by (auto; lia). now rewrite EP.
      - unfold pubkey_of_key, compute_point.
        rewrite (proj2 (privkey_int_iff n key (of_be key))) by (repeat split; auto; lia). cbn [bind].
        rewrite (scalar_mul_smul p 0 7 Hp Ha CG) by (auto; lia). rewrite EP. cbn [bind pubkey].
        rewrite (on_curve_true p 0 7 n G CF) by exact OCP. cbn [bind negb].
        apply to_be_chk_ok. exact run_px.
    Qed.

    (* both sides, reduced to the final verification of the same candidate signature *)
    Lemma sign_reduce_ :
      (exists sig, length sig = 64%nat /\
         sverify (to_be 32 px) m sig = true /\
         ssign key m aux = Some sig /\
         (challenge_of (to_be 32 px) m sig <> 0 ->
            mverify (to_be 32 px) m sig = Ok ok_str /\ msign rnd key m (Some aux) = Ok sig) /\
         (challenge_of (to_be 32 px) m sig = 0 ->
            mverify (to_be 32 px) m sig = Err TypeE /\ msign rnd key m (Some aux) = Err TypeE))
      \/ (ssign key m aux = None /\ msign rnd key m (Some aux) = Err AssertionE).
    Proof.
      rewrite model_sign_unfold, spec_sign_unfold. unfold sg_tail.
      destruct run_d as (Hd & py' & EP' & EvP).
      set (k' := sg_nonce d px m aux).
      assert (Bk' : 0 <= k' < n) by (apply Z.mod_pos_bound; lia).
      destruct (Z.eqb_spec k' 0) as [K0|K0]; [right; split; reflexivity|]. left.
      destruct (kG_some k' ltac:(lia)) as (rx & ry & ER & OCR). rewrite ER.
      destruct (even_normalise k' rx ry ltac:(lia) ER) as (Hk & ry' & ER' & EvR).
      fold (sg_norm k' ry) in Hk, ER'. set (k := sg_norm k' ry) in *.
      set (sig := sg_sig d k rx px m).
      pose proof (st_spec_verify m d k px py' rx ry' Hd Hk EP' EvP ER' EvR) as SV. fold (sg_sig d k rx px m) in SV. fold sig in SV.
      assert (Ech : challenge_of (to_be 32 px) m sig = chal (to_be 32 rx) (to_be 32 px) m).
      { unfold Schnorr.challenge_of, sig, sg_sig. now rewrite firstn_app_exact by apply to_be_length. }
      exists sig. split; [unfold sig, sg_sig; now rewrite app_length, !to_be_length|].
      split; [exact SV|]. rewrite SV. split; [reflexivity|]. rewrite Ech. split.
      - intros E0.
        pose proof (st_model_verify m d k px py' rx ry' Hd Hk EP' EvP ER' EvR E0) as MV.
        fold (sg_sig d k rx px m) in MV. fold sig in MV. rewrite MV. auto.
      - intros E0.
        pose proof (st_model_verify_e0 m d k px py' rx ry' Hd Hk EP' EvP ER' E0) as MV.
        fold (sg_sig d k rx px m) in MV. fold sig in MV. rewrite MV. auto.
    Qed.
  End Run.

  Lemma sign_reduce rnd key m aux : length key = 32%nat -> length aux = 32%nat -> 1 <= of_be key < n ->
      (exists px sig, length sig = 64%nat /\
         S.pubkey_gen n G (padd p 0) key = Some (to_be 32 px) /\
         pubkey_of_key p 0 7 n G key = Ok (to_be 32 px) /\
         sverify (to_be 32 px) m sig = true /\
         ssign key m aux = Some sig /\
         (challenge_of (to_be 32 px) m sig <> 0 ->
            mverify (to_be 32 px) m sig = Ok ok_str /\ msign rnd key m (Some aux) = Ok sig) /\
         (challenge_of (to_be 32 px) m sig = 0 ->
            mverify (to_be 32 px) m sig = Err TypeE /\ msign rnd key m (Some aux) = Err TypeE))
      \/ (ssign key m aux = None /\ msign rnd key m (Some aux) = Err AssertionE).
  Proof.
    intros Lkey Laux Hkey.
    destruct (kG_some (of_be key) ltac:(lia)) as (px & py & EP & _).
    destruct (pubkeys key aux px py Lkey Laux Hkey EP) as [PK MPK].
    destruct (sign_reduce_ rnd key m aux px py Lkey Laux Hkey EP) as [(sig & L & SV & SS & Hok & He0)|R]; [left|right; exact R].
    exists px, sig. auto 10.
  Qed.

  (* sign computes exactly the BIP's default signing algorithm (AssertionError where the BIP fails: k' = 0) *)
  Theorem sign_is_spec rnd key m aux :
    length key = 32%nat -> 1 <= of_be key < n -> length aux = 32%nat ->
    (forall sig pk, ssign key m aux = Some sig -> S.pubkey_gen n G (padd p 0) key = Some pk ->
       challenge_of pk m sig <> 0) ->
    msign rnd key m (Some aux) = of_option AssertionE (ssign key m aux).
  Proof.
    intros Lkey Hkey Laux E0.
    destruct (sign_reduce rnd key m aux Lkey Laux Hkey) as [(px & sig & _ & PK & _ & _ & SS & Hok & _)|[SS MS]].
    - rewrite SS. cbn [of_option]. apply Hok. now apply E0.
    - now rewrite SS, MS.
  Qed.

  (* with aux omitted the code signs with the 32 bytes secrets.token_bytes returned *)
  Theorem sign_aux_omitted rnd key m : msign rnd key m None = msign [] key m (Some rnd).
  Proof. reflexivity. Qed.

  (* the BIP's signing algorithm never aborts at its final self-verification; it fails only on a zero nonce *)
  Theorem spec_sign_some key m aux : length key = 32%nat -> 1 <= of_be key < n -> length aux = 32%nat ->
    forall sig, ssign key m aux = Some sig ->
    length sig = 64%nat /\ exists pk, S.pubkey_gen n G (padd p 0) key = Some pk /\ sverify pk m sig = true.
  Proof.
    intros Lkey Hkey Laux sig H.
    destruct (sign_reduce [] key m aux Lkey Laux Hkey) as [(px & sig' & L & PK & _ & SV & SS & _)|[SS _]];
      [|congruence].
    rewrite SS in H. injection H as <-. split; [exact L|]. eauto.
  Qed.

  (* whatever sign returns verifies under the x-only public key of the secret key: by the code and by the BIP *)
  Theorem sign_verifies rnd key m aux sig : msign rnd key m aux = Ok sig ->
    length sig = 64%nat /\
    exists pk, pubkey_of_key p 0 7 n G key = Ok pk /\ S.pubkey_gen n G (padd p 0) key = Some pk /\
               mverify pk m sig = Ok ok_str /\ sverify pk m sig = true.
  Proof.
    intros H.
    set (ax := match aux with Some x => x | None => rnd end).
    assert (H' : msign [] key m (Some ax) = Ok sig) by (destruct aux; exact H).
    assert (L : length key = 32%nat /\ length ax = 32%nat /\ 1 <= of_be key < n).
    { unfold sign in H'. destruct (Nat.eqb_spec (length key) 32); cbn [negb] in H'; [|discriminate].
      destruct (Nat.eqb_spec (length ax) 32); cbn [negb] in H'; [|discriminate].
      destruct (Z.eqb_spec (of_be key) 0); cbn [orb] in H'; [discriminate|].
      destruct (Z.leb_spec n (of_be key)); [discriminate|].
      pose proof (of_be_nonneg key). repeat split; auto; lia. }
    destruct L as (Lkey & Laux & Hkey).
    destruct (sign_reduce [] key m ax Lkey Laux Hkey) as [(px & sig' & Ls & PK & MPK & SV & SS & Hok & He0)|[_ MS]];
      [|discriminate (eq_trans (eq_sym H') MS)].
    destruct (Z.eq_dec (challenge_of (to_be 32 px) m sig') 0) as [E0|E0].
    - destruct (He0 E0) as [_ MS]. discriminate (eq_trans (eq_sym H') MS).
    - destruct (Hok E0) as [MV MS]. pose proof (eq_trans (eq_sym H') MS) as X. injection X as ->.
      split; [exact Ls|]. exists (to_be 32 px). auto.
  Qed.

  (* the deviation on the signing side: a candidate signature whose challenge is 0 mod n makes sign raise
     TypeError (from its self-verification) although the BIP returns that signature *)
  Theorem sign_e0_typeerror rnd key m aux sig pk :
    length key = 32%nat -> 1 <= of_be key < n -> length aux = 32%nat ->
    ssign key m aux = Some sig -> S.pubkey_gen n G (padd p 0) key = Some pk -> challenge_of pk m sig = 0 ->
    msign rnd key m (Some aux) = Err TypeE.
  Proof.
    intros Lkey Hkey Laux SS PK E0.
    destruct (sign_reduce rnd key m aux Lkey Laux Hkey) as [(px & sig' & _ & PK' & _ & _ & SS' & _ & He0)|[SS' _]];
      [|congruence].
    rewrite SS' in SS. injection SS as ->. rewrite PK' in PK. injection PK as <-.
    now apply He0.
  Qed.

  (* refusals *)
  Theorem sign_refuses_range rnd key m aux : length key = 32%nat ->
    length (match aux with Some x => x | None => rnd end) = 32%nat ->
    of_be key = 0 \/ n <= of_be key -> msign rnd key m aux = Err ValueE.
  Proof.
    intros Lkey Laux H. unfold sign. destruct aux as [ax|]; cbv beta iota zeta; rewrite Lkey, Laux; cbn [Nat.eqb negb];
    (destruct (Z.eqb_spec (of_be key) 0); [reflexivity|]; destruct (Z.leb_spec n (of_be key)); [reflexivity|lia]).
  Qed.

  Theorem sign_refuses_length rnd key m aux :
    length key <> 32%nat \/ length (match aux with Some x => x | None => rnd end) <> 32%nat ->
    msign rnd key m aux = Err AssertionE.
  Proof.
    intros H. unfold sign. destruct aux as [ax|]; cbv beta iota zeta;
      (destruct (Nat.eqb_spec (length key) 32) as [E|E]; cbn [negb]; [|reflexivity];
       destruct H as [H|H]; [contradiction|]; apply Nat.eqb_neq in H; rewrite H; reflexivity).
  Qed.

  (* x-only public key derivation is the BIP's PubKey(sk); every refusal is an AssertionError *)
  Theorem pubkey_is_spec key : length key = 32%nat ->
    pubkey_of_key p 0 7 n G key = of_option AssertionE (S.pubkey_gen n G (padd p 0) key).
  Proof.
    intros Lkey. unfold pubkey_of_key, compute_point, S.pubkey_gen, S.int, privkey_int. rewrite Lkey. cbn [Nat.eqb negb].
    pose proof (of_be_nonneg key) as K0. set (d' := of_be key) in *.
    destruct (Z.eqb_spec d' 0) as [->|NZ]; [reflexivity|].
    destruct (Z.leb_spec n d'); destruct (Z.ltb_spec 0 d'); destruct (Z.ltb_spec d' n); try lia; cbn [orb andb bind]; [reflexivity|].
    rewrite (scalar_mul_smul p 0 7 Hp Ha CG) by (auto; lia). rewrite (spec_mul_smul p n G CF) by (auto; lia).
    destruct (kG_some d' ltac:(lia)) as (px & py & EP & OCP). rewrite EP. cbn [bind pubkey].
    rewrite (on_curve_true p 0 7 n G CF) by exact OCP. cbn [bind negb of_option].
    apply to_be_chk_ok. destruct OCP as (F & _). apply (inF_iff p) in F. lia.
  Qed.
End Sign.
