(* Bech32 data part: character table facts, the 8->5 / 5->8 regrouping of bip173.py (done on big
   integers) connected to the bit-list formulation of BIP173 (Spec.convert_5to8) through Lib/Radix. *)
From Coq Require Import ZArith List Lia Bool.
Require Import Bits.Lib.Result Bits.Lib.Bytes Bits.Lib.Radix Bits.Lib.RadixW.
Require Import Bits.Spec.Bip173 Bits.Model.Base58 Bits.Model.Bech32 Bits.Proofs.Bech32Checksum.
Import ListNotations.
Local Open Scope Z_scope.
Ltac Zify.zify_post_hook ::= Z.to_euclidean_division_equations.

(* ---------- the character table, byte by byte ---------- *)
Definition byte_facts (c : byte) : bool :=
  match int_map_byte c, char_value c with
  | Ok v, Some v' => (v =? v') && (0 <=? v) && (v <? 32) && in_chars c && bytes_eqb (chars_slice v) [c]
                     && negb (byte_eqb c separator) && negb (ascii_upper c)
  | Err KeyE, None => negb (in_chars c)
  | _, _ => false
  end.

Lemma byte_facts_all c : byte_facts c = true.
Proof. destruct c; vm_compute; reflexivity. Qed.

Lemma int_map_byte_ok c v : int_map_byte c = Ok v ->
  char_value c = Some v /\ 0 <= v < 32 /\ in_chars c = true /\ chars_slice v = [c]
  /\ c <> separator /\ ascii_upper c = false.
Proof.
  intros H. pose proof (byte_facts_all c) as F. unfold byte_facts in F. rewrite H in F.
  destruct (char_value c) as [v'|]; [|discriminate].
  rewrite !andb_true_iff in F. destruct F as ((((((F1 & F2) & F3) & F4) & F5) & F6) & F7).
  apply Z.eqb_eq in F1. apply Z.leb_le in F2. apply Z.ltb_lt in F3. apply bytes_eqb_eq in F5.
  apply negb_true_iff in F6, F7. subst v'. repeat split; auto; try lia.
  intros ->. assert (byte_eqb separator separator = true) by now apply byte_eqb_eq. congruence.
Qed.

Lemma int_map_byte_err c e : int_map_byte c = Err e -> e = KeyE /\ in_chars c = false /\ char_value c = None.
Proof.
  intros H. pose proof (byte_facts_all c) as F. unfold byte_facts in F. rewrite H in F.
  destruct e; try discriminate. destruct (char_value c); [discriminate|].
  apply negb_true_iff in F. auto.
Qed.

Lemma in_chars_int_map c : in_chars c = true -> exists v, int_map_byte c = Ok v.
Proof.
  intros H. destruct (int_map_byte c) as [v|e] eqn:E; [eauto|].
  apply int_map_byte_err in E as (_ & E & _). congruence.
Qed.

Lemma char_value_int_map c v : char_value c = Some v -> int_map_byte c = Ok v.
Proof.
  intros H. destruct (int_map_byte c) as [v'|e] eqn:E.
  - apply int_map_byte_ok in E as (E & _). congruence.
  - apply int_map_byte_err in E as (_ & _ & E). congruence.
Qed.

Lemma chars_slice_ok v : 0 <= v < 32 -> exists c, chars_slice v = [c] /\ int_map_byte c = Ok v.
Proof.
  intros H.
  assert (F : forallb (fun n => match chars_slice (Z.of_nat n) with
                                | [c] => match int_map_byte c with Ok j => j =? Z.of_nat n | Err _ => false end
                                | _ => false end) (seq 0 32) = true) by (vm_compute; reflexivity).
  rewrite forallb_forall in F. specialize (F (Z.to_nat v)). rewrite Z2Nat.id in F by lia.
  assert (I : In (Z.to_nat v) (seq 0 32)) by (apply in_seq; lia). specialize (F I).
  destruct (chars_slice v) as [|c [|? ?]]; try discriminate. exists c. split; [reflexivity|].
  destruct (int_map_byte c) as [j|]; [|discriminate]. apply Z.eqb_eq in F. now subst.
Qed.

(* mapM over the table *)
Lemma mapM_int_map_slices vs : in_range 32 vs -> mapM int_map_byte (flat_map chars_slice vs) = Ok vs.
Proof.
  induction 1 as [|v vs Hv _ IH]; [reflexivity|].
  destruct (chars_slice_ok v Hv) as (c & E1 & E2). cbn [flat_map]. rewrite E1. cbn [app mapM].
  rewrite E2. cbn [bind]. now rewrite IH.
Qed.

Lemma mapM_int_map_ok s vs : mapM int_map_byte s = Ok vs ->
  values_of s = Some vs /\ in_range 32 vs /\ forallb in_chars s = true /\ flat_map chars_slice vs = s
  /\ ~ In separator s /\ length vs = length s /\ forallb (fun c => negb (ascii_upper c)) s = true.
Proof.
  revert vs. induction s as [|c s IH]; intros vs H; cbn [mapM] in H.
  - inversion H; subst. repeat split; auto. constructor.
  - destruct (int_map_byte c) as [v|] eqn:E; cbn [bind] in H; [|discriminate].
    destruct (mapM int_map_byte s) as [vs'|] eqn:E'; cbn [bind] in H; [|discriminate].
    inversion H; subst. apply int_map_byte_ok in E as (A1 & A2 & A3 & A4 & A5 & A6).
    destruct (IH vs' eq_refl) as (B1 & B2 & B3 & B4 & B5 & B6 & B7).
    cbn [values_of forallb flat_map length]. rewrite A1, B1, A3, B3, A4, B4, A6, B7. cbn [app].
    repeat split; auto.
    + constructor; assumption.
    + intros [X|X]; [congruence|auto].
Qed.

Lemma mapM_int_map_err s e : mapM int_map_byte s = Err e ->
  e = KeyE /\ forallb in_chars s = false /\ values_of s = None.
Proof.
  induction s as [|c s IH]; intros H; cbn [mapM] in H; [discriminate|].
  destruct (int_map_byte c) as [v|e'] eqn:E; cbn [bind] in H.
  - destruct (mapM int_map_byte s) as [vs'|e''] eqn:E'; cbn [bind] in H; [discriminate|].
    inversion H; subst. destruct (IH eq_refl) as (B1 & B2 & B3). cbn [forallb values_of].
    rewrite B2, B3, andb_false_r. destruct (char_value c); auto.
  - inversion H; subst. apply int_map_byte_err in E as (A1 & A2 & A3). cbn [forallb values_of].
    rewrite A2, A3. auto.
Qed.

Lemma forallb_in_chars_mapM s : forallb in_chars s = true -> exists vs, mapM int_map_byte s = Ok vs.
Proof.
  intros H. destruct (mapM int_map_byte s) as [vs|e] eqn:E; [eauto|].
  apply mapM_int_map_err in E as (_ & E & _). congruence.
Qed.

Lemma values_of_mapM s vs : values_of s = Some vs -> mapM int_map_byte s = Ok vs.
Proof.
  intros H. destruct (mapM int_map_byte s) as [vs'|e] eqn:E.
  - apply mapM_int_map_ok in E as (E & _). congruence.
  - apply mapM_int_map_err in E as (_ & _ & E). congruence.
Qed.

(* ---------- the 5->8 direction ---------- *)
(* what bech32_decode computes once the characters have been looked up *)
Definition decode_vals (integers : list Z) : result bytes :=
  let decoded_bits := 5 * lenZ integers in
  match integers with
  | [] => Err IndexE
  | i0 :: rest =>
    let decoded := fold_left (fun decoded integer => Z.lor (Z.shiftl decoded 5) integer) rest i0 in
    let modulo := decoded_bits mod 8 in
    if modulo =? 0 then to_be_chk (Z.to_nat (decoded_bits / 8)) decoded
    else
      bind (assert_ (Z.land decoded (Z.shiftl 1 modulo - 1) =? 0) AssertionE) (fun _ =>
      bind (assert_ (modulo <=? 4) AssertionE) (fun _ =>
      to_be_chk (Z.to_nat ((decoded_bits - modulo) / 8)) (Z.shiftr decoded modulo)))
  end.

Lemma bech32_decode_vals data vs : mapM int_map_byte data = Ok vs -> bech32_decode data = decode_vals vs.
Proof. intros H. unfold bech32_decode. rewrite H. reflexivity. Qed.

Lemma fold_lor_undigits rest : in_range 32 rest -> forall acc,
  fold_left (fun decoded integer => Z.lor (Z.shiftl decoded 5) integer) rest acc
  = fold_left (fun a d => a * 32 + d) rest acc.
Proof.
  induction 1 as [|d ds Hd _ IH]; intros acc; cbn [fold_left]; [reflexivity|].
  now rewrite lor_shl5, IH by assumption.
Qed.

Lemma decoded_undigits i0 rest : in_range 32 (i0 :: rest) ->
  fold_left (fun decoded integer => Z.lor (Z.shiftl decoded 5) integer) rest i0 = undigits 32 (i0 :: rest).
Proof.
  intros H. inversion H; subst. rewrite fold_lor_undigits by assumption.
  unfold undigits. cbn [fold_left]. f_equal.
Qed.

Lemma to_be_chk_ok k n : 0 <= n < 256 ^ Z.of_nat k -> to_be_chk k n = Ok (to_be k n).
Proof.
  intros [H0 H1]. unfold to_be_chk.
  replace (0 <=? n) with true by (symmetry; apply Z.leb_le; lia).
  replace (n <? 256 ^ Z.of_nat k) with true by (symmetry; apply Z.ltb_lt; lia). reflexivity.
Qed.

Lemma pow256 k : 256 ^ Z.of_nat k = 2 ^ Z.of_nat (8 * k).
Proof. change 256 with (2 ^ 8). rewrite <- Z.pow_mul_r by lia. f_equal. lia. Qed.

(* groups of 8 bits <-> big-endian bytes *)
Lemma groups8_app k : forall A R, length A = (8 * k)%nat -> groups8 k (A ++ R) = groups8 k A.
Proof.
  induction k as [|k IH]; intros A R HA; [reflexivity|].
  cbn [groups8]. rewrite firstn_app, skipn_app.
  replace (8 - length A)%nat with 0%nat by lia. rewrite firstn_O, skipn_O, app_nil_r.
  f_equal. apply IH. rewrite skipn_length. lia.
Qed.

Lemma bits_of_groups8 k : forall A, in_range 2 A -> length A = (8 * k)%nat ->
  bits_of_bytes (map (fun g => z2b (undigits 2 g)) (groups8 k A)) = A.
Proof.
  induction k as [|k IH]; intros A HR HA.
  - destruct A; [reflexivity|discriminate].
  - cbn [groups8 map]. rewrite bits_of_bytes_cons.
    assert (L8 : length (firstn 8 A) = 8%nat) by (rewrite firstn_length; lia).
    assert (R8 : in_range 2 (firstn 8 A)) by now apply in_range_firstn.
    rewrite b2z_z2b.
    + rewrite <- L8 at 1. rewrite digits_w_undigits by (lia || assumption).
      rewrite IH; [apply firstn_skipn|now apply in_range_skipn|rewrite skipn_length; lia].
    + split; [apply undigits_nonneg; [lia|assumption]|].
      pose proof (undigits_bound 2 (firstn 8 A) ltac:(lia) R8) as B. rewrite L8 in B. exact B.
Qed.

Lemma groups8_to_be k A : in_range 2 A -> length A = (8 * k)%nat ->
  map (fun g => z2b (undigits 2 g)) (groups8 k A) = to_be k (undigits 2 A).
Proof.
  intros HR HA. apply bits_of_bytes_inj. rewrite bits_of_groups8 by assumption.
  symmetry. apply (undigits_inj 2); [lia|apply bits_of_bytes_in_range|assumption| |].
  - now rewrite bits_of_bytes_length, to_be_length.
  - rewrite undigits_bits_of_bytes. apply of_be_to_be.
    split; [apply undigits_nonneg; [lia|assumption]|].
    rewrite pow256, <- HA. apply undigits_bound; [lia|assumption].
Qed.

Lemma undigits2_zero_iff l : in_range 2 l -> undigits 2 l = 0 <-> forallb (Z.eqb 0) l = true.
Proof.
  induction 1 as [|d ds Hd Hds IH]; [unfold undigits; cbn; tauto|].
  rewrite undigits_cons. cbn [forallb]. rewrite andb_true_iff, <- IH, Z.eqb_eq.
  pose proof (undigits_nonneg 2 ds ltac:(lia) Hds).
  assert (0 < 2 ^ Z.of_nat (length ds)) by (apply Z.pow_pos_nonneg; lia). nia.
Qed.

(* the integer computation of bech32_decode is BIP173's bit regrouping *)
Theorem decode_vals_spec vs : in_range 32 vs -> vs <> [] ->
  decode_vals vs = match convert_5to8 vs with Some p => Ok p | None => Err AssertionE end.
Proof.
  intros HR HN. destruct vs as [|i0 rest]; [congruence|]. clear HN.
  unfold decode_vals. rewrite decoded_undigits by assumption.
  set (vs := i0 :: rest) in *. set (L := length vs).
  unfold convert_5to8. set (bits := expand 5 vs).
  assert (Lb : length bits = (5 * L)%nat) by apply expand_length.
  assert (Rb : in_range 2 bits) by apply expand_in_range.
  assert (Ub : undigits 2 bits = undigits 32 vs) by (apply (undigits_expand 5); exact HR).
  rewrite Lb. remember (5 * L / 8)%nat as k eqn:Dk. remember (5 * L mod 8)%nat as m eqn:Dm.
  assert (Ek : (5 * L = 8 * k + m)%nat) by (subst k m; apply Nat.div_mod; lia).
  assert (Hm : (m < 8)%nat) by (subst m; apply Nat.mod_upper_bound; lia).
  assert (E1 : (5 * lenZ vs) mod 8 = Z.of_nat m) by (unfold lenZ; fold L; lia).
  assert (E2 : (5 * lenZ vs) / 8 = Z.of_nat k) by (unfold lenZ; fold L; lia).
  rewrite E1, E2.
  remember (firstn (8 * k) bits) as A eqn:DA. remember (skipn (8 * k) bits) as R eqn:DR.
  assert (EA : bits = A ++ R) by (subst A R; symmetry; apply firstn_skipn).
  assert (LA : length A = (8 * k)%nat) by (subst A; rewrite firstn_length; lia).
  assert (LR : length R = m) by (subst R; rewrite skipn_length; lia).
  assert (RA : in_range 2 A) by (subst A; now apply in_range_firstn).
  assert (RR : in_range 2 R) by (subst R; now apply in_range_skipn).
  assert (UD : undigits 32 vs = undigits 2 A * 2 ^ Z.of_nat m + undigits 2 R).
  { rewrite <- Ub, EA, undigits_app, LR. reflexivity. }
  pose proof (undigits_nonneg 2 A ltac:(lia) RA) as NA. pose proof (undigits_bound 2 A ltac:(lia) RA) as BA.
  pose proof (undigits_nonneg 2 R ltac:(lia) RR) as NR. pose proof (undigits_bound 2 R ltac:(lia) RR) as BR.
  rewrite LA in BA. rewrite LR in BR.
  replace (groups8 k bits) with (groups8 k (A ++ R)) by (now rewrite <- EA). rewrite (groups8_app k A R LA), (groups8_to_be k A RA LA).
  destruct (Z.eqb_spec (Z.of_nat m) 0) as [M0|M0].
  - (* no padding *)
    assert (m0 : m = 0%nat) by lia. rewrite m0 in *. destruct R as [|r0 R']; [|discriminate LR].
    cbn [length Nat.leb forallb andb].
    unfold undigits at 2 in UD. cbn [fold_left] in UD. rewrite Nat2Z.id, UD.
    change (2 ^ Z.of_nat 0) with 1. rewrite Z.mul_1_r, Z.add_0_r.
    apply to_be_chk_ok. rewrite pow256. lia.
  - rewrite Z.shiftl_1_l.
    replace (2 ^ Z.of_nat m - 1) with (Z.ones (Z.of_nat m)) by (rewrite Z.ones_equiv; lia).
    rewrite Z.land_ones by lia.
    assert (P : 0 < 2 ^ Z.of_nat m) by (apply Z.pow_pos_nonneg; lia).
    assert (MD : undigits 32 vs mod 2 ^ Z.of_nat m = undigits 2 R).
    { rewrite UD, Z.add_comm, Z.mod_add by lia. apply Z.mod_small. lia. }
    assert (DV : undigits 32 vs / 2 ^ Z.of_nat m = undigits 2 A).
    { rewrite UD, Z.add_comm, Z.div_add by lia. rewrite Z.div_small by lia. lia. }
    rewrite MD, LR.
    destruct (forallb (Z.eqb 0) R) eqn:FZ.
    + apply undigits2_zero_iff in FZ; [|exact RR]. rewrite FZ. cbn [Z.eqb assert_ bind].
      rewrite andb_true_r.
      destruct (Z.leb_spec (Z.of_nat m) 4) as [M4|M4].
      * replace (m <=? 4)%nat with true by (symmetry; apply Nat.leb_le; lia). cbn [assert_ bind].
        rewrite Z.shiftr_div_pow2, DV by lia.
        replace ((5 * lenZ vs - Z.of_nat m) / 8) with (Z.of_nat k) by (unfold lenZ; fold L; lia).
        rewrite Nat2Z.id. apply to_be_chk_ok. rewrite pow256. lia.
      * replace (m <=? 4)%nat with false by (symmetry; apply Nat.leb_gt; lia). reflexivity.
    + rewrite andb_false_r.
      destruct (Z.eqb_spec (undigits 2 R) 0) as [Z0|Z0]; [|reflexivity].
      apply undigits2_zero_iff in Z0; [congruence|exact RR].
Qed.

Lemma decode_vals_nil : decode_vals [] = Err IndexE.
Proof. reflexivity. Qed.

Lemma groups8_length k : forall l, length (groups8 k l) = k.
Proof. induction k as [|k IH]; intros l; cbn [groups8 length]; [reflexivity|]. now rewrite IH. Qed.

Lemma convert_5to8_length vs p : convert_5to8 vs = Some p -> length p = (5 * length vs / 8)%nat.
Proof.
  unfold convert_5to8. destruct (_ && _); [|discriminate]. intros H. injection H as <-.
  now rewrite map_length, groups8_length, expand_length.
Qed.

(* ---------- the 8->5 direction and the round trip ---------- *)
Definition pad_bits (n : Z) : Z := if (n * 8) mod 5 =? 0 then 0 else 5 - (n * 8) mod 5.
Definition n_groups (n : Z) : Z := if (n * 8) mod 5 =? 0 then n * 8 / 5 else n * 8 / 5 + 1.

Lemma flat_map_map {A B C} (f : B -> list C) (g : A -> B) l : flat_map f (map g l) = flat_map (fun x => f (g x)) l.
Proof. induction l as [|x l IH]; cbn [map flat_map]; [reflexivity|]. now rewrite IH. Qed.

Lemma regroup_digits data :
  regroup_8to5 data
  = flat_map chars_slice (digits_w 32 (Z.to_nat (n_groups (lenZ data))) (of_be data * 2 ^ pad_bits (lenZ data))).
Proof.
  unfold regroup_8to5, n_groups, pad_bits. set (n := lenZ data).
  assert (Hn : 0 <= n) by (unfold n, lenZ; lia).
  destruct (Z.eqb_spec ((n * 8) mod 5) 0) as [E|E].
  - rewrite <- py_range_digits by lia. rewrite flat_map_map. change 31 with 0x1F.
    rewrite Z.pow_0_r, Z.mul_1_r. reflexivity.
  - rewrite <- py_range_digits by lia. rewrite flat_map_map. change 31 with 0x1F.
    rewrite Z.shiftl_mul_pow2 by lia. reflexivity.
Qed.

Lemma regroup_vals data :
  mapM int_map_byte (regroup_8to5 data)
  = Ok (digits_w 32 (Z.to_nat (n_groups (lenZ data))) (of_be data * 2 ^ pad_bits (lenZ data))).
Proof. rewrite regroup_digits. apply mapM_int_map_slices. apply digits_w_in_range. lia. Qed.

Lemma regroup_length data : lenZ (regroup_8to5 data) = n_groups (lenZ data).
Proof.
  pose proof (regroup_vals data) as H. apply mapM_int_map_ok in H as (_ & _ & _ & _ & _ & L & _).
  rewrite digits_w_length in L. unfold lenZ at 1. rewrite <- L.
  apply Z2Nat.id. unfold n_groups, lenZ. destruct (_ =? 0); lia.
Qed.

Lemma decode_vals_regroup data : data <> [] ->
  decode_vals (digits_w 32 (Z.to_nat (n_groups (lenZ data))) (of_be data * 2 ^ pad_bits (lenZ data))) = Ok data.
Proof.
  intros HN. set (n := lenZ data). set (g := n_groups n). set (pad := pad_bits n).
  assert (Hn : 1 <= n) by (unfold n, lenZ; destruct data; [congruence|cbn [length]; lia]).
  assert (Hpad : 0 <= pad <= 4) by (unfold pad, pad_bits; destruct (Z.eqb_spec ((n * 8) mod 5) 0); lia).
  assert (Hg : 5 * g = 8 * n + pad).
  { unfold g, n_groups, pad, pad_bits. destruct (Z.eqb_spec ((n * 8) mod 5) 0); lia. }
  assert (Hg1 : 1 <= g) by lia.
  set (D := of_be data).
  assert (HD : 0 <= D < 2 ^ (8 * n)).
  { split; [apply of_be_nonneg|]. pose proof (of_be_bound data) as B. rewrite pow256 in B.
    unfold n, lenZ. replace (8 * Z.of_nat (length data)) with (Z.of_nat (8 * length data)) by lia. exact B. }
  assert (P : 0 < 2 ^ pad) by (apply Z.pow_pos_nonneg; lia).
  assert (HD' : 0 <= D * 2 ^ pad < 32 ^ Z.of_nat (Z.to_nat g)).
  { rewrite Z2Nat.id by lia. change 32 with (2 ^ 5). rewrite <- Z.pow_mul_r by lia.
    rewrite Hg, Z.pow_add_r by lia. nia. }
  set (vs := digits_w 32 (Z.to_nat g) (D * 2 ^ pad)).
  assert (Lv : length vs = Z.to_nat g) by apply digits_w_length.
  assert (Rv : in_range 32 vs) by (apply digits_w_in_range; lia).
  assert (Uv : undigits 32 vs = D * 2 ^ pad) by (apply undigits_digits_w_small; [lia|exact HD']).
  unfold decode_vals. destruct vs as [|i0 rest] eqn:Evs; [cbn [length] in Lv; lia|].
  rewrite decoded_undigits by assumption. rewrite Uv.
  assert (EL : lenZ (i0 :: rest) = g) by (unfold lenZ; rewrite Lv; lia). rewrite EL.
  assert (M : (5 * g) mod 8 = pad) by lia. rewrite M.
  destruct (Z.eqb_spec pad 0) as [P0|P0].
  - rewrite P0, Z.pow_0_r, Z.mul_1_r in *.
    replace (Z.to_nat (5 * g / 8)) with (length data) by (unfold n, lenZ in *; lia).
    rewrite to_be_chk_ok; [f_equal; apply to_be_of_be|]. rewrite pow256.
    replace (Z.of_nat (8 * length data)) with (8 * n) by (unfold n, lenZ; lia). lia.
  - rewrite Z.shiftl_1_l.
    replace (2 ^ pad - 1) with (Z.ones pad) by (rewrite Z.ones_equiv; lia).
    rewrite Z.land_ones by lia. rewrite Z.mod_mul by lia.
    cbn [Z.eqb assert_ bind].
    replace (pad <=? 4) with true by (symmetry; apply Z.leb_le; lia). cbn [assert_ bind].
    rewrite Z.shiftr_div_pow2, Z.div_mul by lia.
    replace (Z.to_nat ((5 * g - pad) / 8)) with (length data) by (unfold n, lenZ in *; lia).
    rewrite to_be_chk_ok; [f_equal; apply to_be_of_be|]. rewrite pow256.
    replace (Z.of_nat (8 * length data)) with (8 * n) by (unfold n, lenZ; lia). lia.
Qed.

(* decoding the regrouped data gives the data back *)
Theorem regroup_roundtrip data : data <> [] -> bech32_decode (regroup_8to5 data) = Ok data.
Proof.
  intros HN. rewrite (bech32_decode_vals _ _ (regroup_vals data)). now apply decode_vals_regroup.
Qed.

Lemma regroup_nil : regroup_8to5 [] = [] /\ bech32_decode [] = Err IndexE.
Proof. split; reflexivity. Qed.
