(* Round trip of the ASN.1 codec of pem.py on the domain of well-formed trees (one-byte lengths), and the error
   behaviour of the parser.  *)
From Coq Require Import ZArith List Bool Lia.
Require Import Bits.Lib.Result Bits.Lib.Bytes Bits.Model.Asn1.
Import ListNotations.
Local Open Scope Z_scope.

(* ---------- induction principle for the nested tree ---------- *)
Section NodeInd.
  Variable P : node -> Prop.
  Hypothesis HL : forall t len l, Forall P l -> P (Node t len (VList l)).
  Hypothesis HB : forall t len bs, P (Node t len (VBytes bs)).
  Hypothesis HO : forall t len o, P (Node t len (VOid o)).
  Fixpoint node_ind' (nd : node) : P nd :=
    match nd with
    | Node t len v =>
      match v return P (Node t len v) with
      | VList l =>
        HL t len l ((fix go (l : list node) : Forall P l :=
                       match l with
                       | [] => Forall_nil P
                       | x :: xs => Forall_cons x (node_ind' x) (go xs)
                       end) l)
      | VBytes bs => HB t len bs
      | VOid o => HO t len o
      end
    end.
End NodeInd.

(* ---------- unfolding of encode_node with encode_nodes for the inner loop ---------- *)
Definition encode_body (k : Z) (v : value) : result bytes :=
  if (k =? T_SEQUENCE) || (k =? 0) || (k =? 1) then
    match v with
    | VList l => encode_nodes l
    | VBytes [] => Ok []
    | _ => Err TypeE
    end
  else if (k =? T_INTEGER) || (k =? T_OCTETSTRING) || (k =? T_BITSTRING) then
    match v with VBytes b => Ok b | _ => Err TypeE end
  else if k =? T_OID then
    match v with VOid o => encode_oid (oid_nodes_of o) | _ => Err TypeE end
  else Ok [].

Lemma enc_list_eq l :
  (fix enc_list (l : list node) : result bytes :=
     match l with
     | [] => Ok []
     | x :: xs => bind (encode_node x) (fun h => bind (enc_list xs) (fun t => Ok (h ++ t)))
     end) l = encode_nodes l.
Proof. induction l as [|x xs IH]; [reflexivity|]. cbn [encode_nodes]. rewrite <- IH. reflexivity. Qed.

Lemma encode_node_eq t len v :
  encode_node (Node t len v) =
  if negb ((0 <=? tcls t) && (tcls t <? 4)) then Err KeyE else
  bind (to_be_chk 1 (tag_int t)) (fun tb =>
  bind (to_be_chk 1 len) (fun lb =>
  bind (encode_body (Z.land (tag_int t) 31) v) (fun body => Ok (tb ++ lb ++ body)))).
Proof.
  cbn [encode_node]. destruct (negb ((0 <=? tcls t) && (tcls t <? 4))); [reflexivity|].
  destruct (to_be_chk 1 (tag_int t)) as [tb|e]; [|reflexivity]. cbn [bind].
  destruct (to_be_chk 1 len) as [lb|e]; [|reflexivity]. cbn [bind].
  unfold encode_body. destruct v as [l|bs|o]; reflexivity.
Qed.

(* ---------- tag byte ---------- *)
Definition tag_eqb (s t : tag) : bool :=
  (tnum s =? tnum t) && Bool.eqb (tcons s) (tcons t) && (tcls s =? tcls t).

Lemma tag_eqb_eq s t : tag_eqb s t = true -> s = t.
Proof.
  destruct s as [a b c], t as [a' b' c']. unfold tag_eqb. cbn [tnum tcons tcls].
  rewrite !andb_true_iff, !Z.eqb_eq, eqb_true_iff. intros [[-> ->] ->]. reflexivity.
Qed.

Definition tag_ok (t : tag) : bool :=
  let ti := tag_int t in
  (0 <=? ti) && (ti <? 256) && tag_eqb (tag_of_byte (z2b ti)) t && (Z.land ti 31 =? tnum t).

Lemma all_tags_ok :
  forallb (fun n => forallb (fun c => forallb (fun k => tag_ok (Tag (Z.of_nat n) c k)) [0; 1; 2; 3])
                            [true; false]) (seq 0 32) = true.
Proof. vm_compute. reflexivity. Qed.

Lemma tag_facts t : 0 <= tnum t < 32 -> 0 <= tcls t < 4 ->
  0 <= tag_int t < 256 /\ tag_of_byte (z2b (tag_int t)) = t /\ Z.land (tag_int t) 31 = tnum t.
Proof.
  intros Hn Hc. destruct t as [n c k]. cbn [tnum tcons tcls] in *.
  pose proof all_tags_ok as A. rewrite forallb_forall in A.
  specialize (A (Z.to_nat n)). rewrite in_seq in A. specialize (A ltac:(lia)).
  rewrite forallb_forall in A. specialize (A c ltac:(destruct c; simpl; auto)).
  rewrite forallb_forall in A. specialize (A k ltac:(simpl; lia)).
  rewrite Z2Nat.id in A by lia. unfold tag_ok in A.
  rewrite !andb_true_iff, Z.leb_le, Z.ltb_lt, Z.eqb_eq in A.
  destruct A as [[[A1 A2] A3] A4]. repeat split; auto. now apply tag_eqb_eq.
Qed.

Lemma to_be_chk_1 z : 0 <= z < 256 -> to_be_chk 1 z = Ok [z2b z].
Proof.
  intros H. unfold to_be_chk. change (256 ^ Z.of_nat 1) with 256.
  destruct (Z.leb_spec 0 z); [|lia]. destruct (Z.ltb_spec z 256); [|lia]. reflexivity.
Qed.

(* ---------- the domain ---------- *)
(* an OID value the codec round-trips (holds for the two named OIDs: wf_oid_named; any concrete OID: vm_compute) *)
Definition wf_oid (o : oidv) : Prop :=
  exists e, encode_oid (oid_nodes_of o) = Ok e /\ parse_oid_nodes e = Ok (oid_nodes_of o) /\
            name_oid (oid_nodes_of o) = o.

Lemma wf_oid_ecPublicKey : wf_oid IdEcPublicKey.
Proof. eexists. repeat split; vm_compute; reflexivity. Qed.
Lemma wf_oid_ansip256k1 : wf_oid IdAnsip256k1.
Proof. eexists. repeat split; vm_compute; reflexivity. Qed.

(* shape: the tag determines the Python type of the value the same way in the parser and in the encoder *)
Fixpoint wf_shape (nd : node) : Prop :=
  match nd with
  | Node t len v =>
    0 <= tnum t < 32 /\ 0 <= tcls t < 4 /\ 0 <= len < 256 /\
    match v with
    | VList l =>
      (tnum t = T_SEQUENCE \/ (tcons t = true /\ (tnum t = 0 \/ tnum t = 1))) /\
      (fix all (l : list node) : Prop := match l with [] => True | x :: xs => wf_shape x /\ all xs end) l
    | VBytes _ => tcons t = false /\ (tnum t = T_INTEGER \/ tnum t = T_BITSTRING \/ tnum t = T_OCTETSTRING)
    | VOid o => tnum t = T_OID /\ wf_oid o
    end
  end.

(* the stored length field is the length of the encoded content (the encoder never recomputes it) *)
Definition len_ok (nd : node) : Prop :=
  match nd with
  | Node _ len _ =>
    match encode_node nd with Ok bs => Z.of_nat (length bs) = 2 + len | Err _ => True end
  end.
Fixpoint lens_ok (nd : node) : Prop :=
  len_ok nd /\
  match nd with
  | Node _ _ (VList l) =>
    (fix all (l : list node) : Prop := match l with [] => True | x :: xs => lens_ok x /\ all xs end) l
  | _ => True
  end.

Definition wf_node (nd : node) : Prop := wf_shape nd /\ lens_ok nd.

Lemma shape_all l :
  (fix all (l : list node) : Prop := match l with [] => True | x :: xs => wf_shape x /\ all xs end) l
  <-> Forall wf_shape l.
Proof. induction l as [|x xs IH]; [split; auto|]. rewrite Forall_cons_iff, <- IH. tauto. Qed.
Lemma lens_all l :
  (fix all (l : list node) : Prop := match l with [] => True | x :: xs => lens_ok x /\ all xs end) l
  <-> Forall lens_ok l.
Proof. induction l as [|x xs IH]; [split; auto|]. rewrite Forall_cons_iff, <- IH. tauto. Qed.

(* ---------- round trip ---------- *)
Lemma parse_nil f : parse_asn1 f [] = Ok [].
Proof. destruct f; reflexivity. Qed.

Definition RT (nd : node) : Prop :=
  wf_node nd -> forall bs, encode_node nd = Ok bs ->
  forall fuel rest tl, (length bs + length rest <= fuel)%nat ->
    (forall f', (length rest <= f')%nat -> parse_asn1 f' rest = Ok tl) ->
    parse_asn1 fuel (bs ++ rest) = Ok (nd :: tl).

Lemma RT_list l : Forall RT l -> Forall wf_node l -> forall bs, encode_nodes l = Ok bs ->
  forall f, (length bs <= f)%nat -> parse_asn1 f bs = Ok l.
Proof.
  induction l as [|x xs IH]; intros HR HW bs E f Hf.
  - injection E as <-. apply parse_nil.
  - cbn [encode_nodes] in E. apply bind_ok in E as (h & Eh & E). apply bind_ok in E as (t & Et & E).
    injection E as <-. inversion HR as [|? ? Rx Rxs]; subst. inversion HW as [|? ? Wx Wxs]; subst.
    rewrite app_length in Hf. apply (Rx Wx h Eh f t xs); [lia|].
    intros f' Hf'. apply (IH Rxs Wxs t Et f' Hf').
Qed.

Lemma firstn_app_exact {A} (x y : list A) : firstn (length x) (x ++ y) = x.
Proof. rewrite firstn_app, Nat.sub_diag, firstn_all. simpl. apply app_nil_r. Qed.
Lemma skipn_app_exact {A} (x y : list A) : skipn (length x) (x ++ y) = y.
Proof. rewrite skipn_app, Nat.sub_diag, skipn_all. reflexivity. Qed.

Lemma RT_all nd : RT nd.
Proof.
  induction nd as [t len l IHl | t len bs0 | t len o] using node_ind';
    intros [WS WL] bs E fuel rest tl Hfuel Hrest;
    cbn [wf_shape] in WS; destruct WS as (Hn & Hc & Hlen & WS);
    destruct WL as [WLen WL]; unfold len_ok in WLen; rewrite E in WLen;
    rewrite encode_node_eq in E;
    destruct (tag_facts t Hn Hc) as (Hti & Htag & Hland);
    (destruct (Z.leb_spec 0 (tcls t)); [|lia]); (destruct (Z.ltb_spec (tcls t) 4); [|lia]);
    cbn [andb negb] in E;
    rewrite (to_be_chk_1 _ Hti), (to_be_chk_1 _ Hlen) in E; cbn [bind] in E; rewrite Hland in E;
    apply bind_ok in E as (body & Eb & E); injection E as <-;
    cbn [app length] in WLen;
    assert (Lb : Z.to_nat len = length body) by lia;
    (destruct fuel as [|f]; [cbn [app length] in Hfuel; lia|]);
    cbn [app parse_asn1]; cbv zeta; rewrite Htag, b2z_z2b by lia; rewrite Lb, firstn_app_exact, skipn_app_exact;
    cbn [length app] in Hfuel.
  - (* list *)
    destruct WS as [Hk WSl]. apply shape_all in WSl. apply lens_all in WL.
    assert (Eb' : encode_nodes l = Ok body).
    { unfold encode_body in Eb. destruct Hk as [Hk | [_ [Hk | Hk]]]; rewrite Hk in Eb; exact Eb. }
    assert (Pl : parse_asn1 f body = Ok l).
    { apply (RT_list l IHl); [|exact Eb'|lia].
      rewrite Forall_forall in *. intros x Hx. split; auto. }
    destruct Hk as [Hk | [Hcons Hk]].
    + rewrite Hk. cbn [Z.eqb T_SEQUENCE Pos.eqb]. rewrite Pl. cbn [rmap bind].
      rewrite Hrest by lia. reflexivity.
    + assert (N16 : (tnum t =? T_SEQUENCE) = false) by (apply Z.eqb_neq; unfold T_SEQUENCE; lia).
      assert (N6 : (tnum t =? T_OID) = false) by (apply Z.eqb_neq; unfold T_OID; lia).
      rewrite N16, N6, Hcons, Pl. cbn [rmap bind]. rewrite Hrest by lia. reflexivity.
  - (* bytes *)
    destruct WS as [Hcons Hk].
    assert (Eb' : body = bs0).
    { unfold encode_body in Eb.
      destruct Hk as [Hk | [Hk | Hk]]; rewrite Hk in Eb; cbn in Eb; injection Eb as <-; reflexivity. }
    subst body.
    assert (N16 : (tnum t =? T_SEQUENCE) = false)
      by (apply Z.eqb_neq; unfold T_SEQUENCE, T_INTEGER, T_BITSTRING, T_OCTETSTRING in *; lia).
    assert (N6 : (tnum t =? T_OID) = false)
      by (apply Z.eqb_neq; unfold T_OID, T_INTEGER, T_BITSTRING, T_OCTETSTRING in *; lia).
    rewrite N16, N6, Hcons. cbn [bind]. rewrite Hrest by lia. reflexivity.
  - (* oid *)
    destruct WS as [Hk (e & Ee & Pe & Ne)].
    assert (Eb' : body = e).
    { unfold encode_body in Eb. rewrite Hk in Eb. cbn in Eb. rewrite Ee in Eb. injection Eb as <-. reflexivity. }
    subst body. rewrite Hk. cbn [Z.eqb T_SEQUENCE T_OID Pos.eqb]. rewrite Pe. cbn [rmap bind].
    rewrite Ne, Hrest by lia. reflexivity.
Qed.

(* pem.parse_asn1 (encode of a well-formed forest) returns the forest; one tree: ts = [t] *)
Theorem asn1_roundtrip ts bs fuel :
  Forall wf_node ts -> encode_nodes ts = Ok bs -> (length bs <= fuel)%nat -> parse_asn1 fuel bs = Ok ts.
Proof.
  intros W E F. apply (RT_list ts); auto. rewrite Forall_forall. intros x _. apply RT_all.
Qed.

Corollary asn1_roundtrip_top t bs :
  wf_node t -> encode_node t = Ok bs -> parse_asn1_top bs = Ok [t].
Proof.
  intros W E. unfold parse_asn1_top. apply asn1_roundtrip; [constructor; [exact W|constructor]| |lia].
  cbn [encode_nodes]. rewrite E. cbn [bind]. now rewrite app_nil_r.
Qed.

(* ---------- the parser is total with fuel = length, and IndexError is its only exception ---------- *)
Lemma oid_nodes_err mid acc data e : oid_nodes mid acc data = Err e -> e = IndexE.
Proof.
  revert mid acc. induction data as [|c rest IH]; intros mid acc H; cbn [oid_nodes] in H.
  - destruct mid; congruence.
  - destruct (128 <=? b2z c); [eauto|].
    destruct (oid_nodes false 0 rest) eqn:E; cbn in H; [discriminate|]. injection H as <-. eauto.
Qed.

Lemma parse_oid_err data e : parse_oid_nodes data = Err e -> e = IndexE.
Proof.
  destruct data as [|c rest]; cbn; [congruence|].
  destruct (oid_nodes false 0 rest) eqn:E; cbn; [discriminate|]. intros H. injection H as <-.
  eapply oid_nodes_err; eauto.
Qed.

Theorem parse_asn1_err fuel : forall data e, (length data <= fuel)%nat ->
  parse_asn1 fuel data = Err e -> e = IndexE.
Proof.
  induction fuel as [|f IH]; intros data e Hl H.
  - destruct data as [|x [|y r]]; cbn in *; try congruence; lia.
  - destruct data as [|tg [|ln rest]]; cbn [parse_asn1] in H; try congruence.
    cbn [length] in Hl.
    set (val := firstn (Z.to_nat (b2z ln)) rest) in *.
    assert (Lv : (length val <= f)%nat) by (unfold val; rewrite firstn_length; lia).
    assert (Ls : (length (skipn (Z.to_nat (b2z ln)) rest) <= f)%nat) by (rewrite skipn_length; lia).
    match type of H with bind ?V _ = _ => destruct V as [v|e0] eqn:EV end; cbn [bind] in H.
    + destruct (parse_asn1 f (skipn (Z.to_nat (b2z ln)) rest)) eqn:ES; cbn [bind] in H; [discriminate|].
      injection H as <-. exact (IH _ _ Ls ES).
    + injection H as <-.
      destruct (tnum (tag_of_byte tg) =? T_SEQUENCE).
      { destruct (parse_asn1 f val) eqn:EP; cbn in EV; [discriminate|]. injection EV as <-. exact (IH _ _ Lv EP). }
      destruct (tnum (tag_of_byte tg) =? T_OID).
      { destruct (parse_oid_nodes val) eqn:EP; cbn in EV; [discriminate|]. injection EV as <-.
        eapply parse_oid_err; eauto. }
      destruct (tcons (tag_of_byte tg)); [|discriminate].
      destruct (parse_asn1 f val) eqn:EP; cbn in EV; [discriminate|]. injection EV as <-. exact (IH _ _ Lv EP).
Qed.

Corollary parse_asn1_top_err data e : parse_asn1_top data = Err e -> e = IndexE.
Proof. apply parse_asn1_err. lia. Qed.

(* more fuel than the length never changes the result *)
Theorem parse_asn1_fuel f1 : forall f2 data, (length data <= f1)%nat -> (length data <= f2)%nat ->
  parse_asn1 f1 data = parse_asn1 f2 data.
Proof.
  induction f1 as [|f1 IH]; intros f2 data H1 H2.
  - destruct data as [|x [|y r]]; cbn in H1; try lia. now rewrite !parse_nil.
  - destruct data as [|tg [|ln rest]]; [now rewrite !parse_nil | destruct f2; reflexivity |].
    destruct f2 as [|f2]; [cbn in H2; lia|]. cbn [parse_asn1]. cbn [length] in H1, H2.
    assert (Lv : forall f, (S (length rest) <= f)%nat ->
                 (length (firstn (Z.to_nat (b2z ln)) rest) <= f)%nat) by (intros; rewrite firstn_length; lia).
    assert (Ls : forall f, (S (length rest) <= f)%nat ->
                 (length (skipn (Z.to_nat (b2z ln)) rest) <= f)%nat) by (intros; rewrite skipn_length; lia).
    rewrite (IH f2 (firstn (Z.to_nat (b2z ln)) rest)) by (apply Lv; lia).
    rewrite (IH f2 (skipn (Z.to_nat (b2z ln)) rest)) by (apply Ls; lia).
    reflexivity.
Qed.

(* ---------- building blocks: encodings and well-formedness of the shapes the library writes ---------- *)
Lemma encode_leaf t len v body :
  0 <= tnum t < 32 -> 0 <= tcls t < 4 -> 0 <= len < 256 ->
  encode_body (tnum t) v = Ok body ->
  encode_node (Node t len v) = Ok (z2b (tag_int t) :: z2b len :: body).
Proof.
  intros Hn Hc Hl Eb. rewrite encode_node_eq.
  destruct (tag_facts t Hn Hc) as (Hti & _ & Hland).
  destruct (Z.leb_spec 0 (tcls t)); [|lia]. destruct (Z.ltb_spec (tcls t) 4); [|lia]. cbn [andb negb].
  rewrite (to_be_chk_1 _ Hti), (to_be_chk_1 _ Hl). cbn [bind]. rewrite Hland, Eb. reflexivity.
Qed.

Lemma encode_prim tn bs :
  tn = T_INTEGER \/ tn = T_BITSTRING \/ tn = T_OCTETSTRING -> (length bs < 256)%nat ->
  encode_node (mk_prim tn bs) = Ok (z2b tn :: z2b (Z.of_nat (length bs)) :: bs).
Proof.
  intros Ht Hl. unfold mk_prim.
  destruct Ht as [-> | [-> | ->]]; (rewrite (encode_leaf _ _ _ bs); cbn [tnum tcls]; [reflexivity | | | | reflexivity]);
    unfold T_INTEGER, T_BITSTRING, T_OCTETSTRING; lia.
Qed.

Lemma wf_prim tn bs :
  tn = T_INTEGER \/ tn = T_BITSTRING \/ tn = T_OCTETSTRING -> (length bs < 256)%nat -> wf_node (mk_prim tn bs).
Proof.
  intros Ht Hl. split.
  - unfold mk_prim. cbn [wf_shape tnum tcls tcons].
    repeat split; auto; try lia; destruct Ht as [-> | [-> | ->]]; unfold T_INTEGER, T_BITSTRING, T_OCTETSTRING; lia.
  - cbn [lens_ok mk_prim]. split; [|exact I]. unfold len_ok. fold (mk_prim tn bs).
    rewrite encode_prim by auto. cbn [length]. lia.
Qed.

Lemma encode_constructed t len l body :
  0 <= tnum t < 32 -> 0 <= tcls t < 4 -> 0 <= len < 256 ->
  tnum t = T_SEQUENCE \/ tnum t = 0 \/ tnum t = 1 ->
  encode_nodes l = Ok body ->
  encode_node (Node t len (VList l)) = Ok (z2b (tag_int t) :: z2b len :: body).
Proof.
  intros Hn Hc Hl Hk E. apply encode_leaf; auto. unfold encode_body.
  destruct Hk as [-> | [-> | ->]]; exact E.
Qed.

Lemma wf_constructed t len l body :
  0 <= tnum t < 32 -> 0 <= tcls t < 4 ->
  tnum t = T_SEQUENCE \/ (tcons t = true /\ (tnum t = 0 \/ tnum t = 1)) ->
  Forall wf_node l -> encode_nodes l = Ok body -> len = Z.of_nat (length body) -> len < 256 ->
  wf_node (Node t len (VList l)).
Proof.
  intros Hn Hc Hk Wl E Hlen Hlt.
  assert (Hl : 0 <= len < 256) by lia. split.
  - cbn [wf_shape]. repeat split; auto; try lia. apply shape_all.
    rewrite Forall_forall in *. intros x Hx. apply Wl, Hx.
  - cbn [lens_ok]. split.
    + unfold len_ok. rewrite (encode_constructed t len l body); auto; [cbn [length]; lia|tauto].
    + apply lens_all. rewrite Forall_forall in *. intros x Hx. apply Wl, Hx.
Qed.

Lemma wf_oid_node len o e :
  wf_oid o -> encode_oid (oid_nodes_of o) = Ok e -> len = Z.of_nat (length e) -> len < 256 ->
  wf_node (mk_oid len o) /\ encode_node (mk_oid len o) = Ok (z2b T_OID :: z2b len :: e).
Proof.
  intros W E Hlen Hlt. assert (Hl : 0 <= len < 256) by lia.
  assert (EN : encode_node (mk_oid len o) = Ok (z2b T_OID :: z2b len :: e)).
  { unfold mk_oid. rewrite (encode_leaf _ _ _ e); cbn [tnum tcls]; auto; unfold T_OID; try lia. }
  split; [|exact EN]. split.
  - cbn [wf_shape mk_oid tnum tcls]. unfold T_OID. repeat split; auto; lia.
  - cbn [lens_ok mk_oid]. split; [|exact I]. unfold len_ok. fold (mk_oid len o). rewrite EN. cbn [length]. lia.
Qed.
