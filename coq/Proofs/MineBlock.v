(* The block-assembly lines of mine_block (Model/MineBlock.v): for well-formed mempool transactions the coinbase
   carries the BIP141 commitment to the block's witness root exactly when some transaction has witness data, pays
   exactly the subsidy of the new height, starts with the BIP34 push of the new height, and the header's merkle
   root is Bitcoin's merkle root of the block's txids. *)
From Coq Require Import ZArith List Lia Bool.
Require Import Bits.Lib.Result Bits.Lib.Bytes.
Require Import Bits.Model.CompactSize Bits.Model.Witness Bits.Model.Tx Bits.Proofs.Tx.
Require Import Bits.Spec.Merkle Bits.Spec.Subsidy Bits.Spec.ScriptNum Bits.Spec.Coinbase.
Require Import Bits.Model.Merkle Bits.Model.Coinbase Bits.Model.MineBlock.
Require Import Bits.Proofs.Merkle Bits.Proofs.ScriptNum Bits.Proofs.Coinbase Bits.Proofs.CoinbaseTx.
Import ListNotations.
Import Coq.Init.Byte.
Local Open Scope Z_scope.

Section WithHash.
  Variable sha256 : bytes -> bytes.
  Hypothesis sha256_len : forall m, length (sha256 m) = 32%nat.

  (* (txid, wtxid) of a structured transaction *)
  Definition tx_ids (t : tx_t) : result (bytes * bytes) :=
    bind (tx_ser t) (fun raw => bind (tx_ser_nowit t) (fun nw =>
      Ok (Model.Tx.hash256 sha256 nw, Model.Tx.hash256 sha256 raw))).

  Lemma deser_ids_ser t raw : wf_tx t -> tx_ser t = Ok raw -> deser_ids sha256 raw = tx_ids t.
  Proof.
    intros W S. destruct (tx_roundtrip sha256 t raw W S []) as (nw & NW & D).
    rewrite app_nil_r in D. unfold deser_ids, tx_ids. rewrite D, S, NW. reflexivity.
  Qed.

  Lemma mapM_deser_ids : forall ts raws, Forall wf_tx ts -> mapM tx_ser ts = Ok raws ->
    mapM (deser_ids sha256) raws = mapM tx_ids ts.
  Proof.
    induction ts as [|t ts IH]; intros raws W M.
    - cbn [mapM] in M. injection M as <-. reflexivity.
    - cbn [mapM] in M. apply bind_ok in M as (raw & E1 & M). apply bind_ok in M as (raws' & E2 & M).
      injection M as <-. inversion W as [|? ? Wt Wts]; subst. cbn [mapM].
      rewrite (deser_ids_ser t raw Wt E1), (IH raws' Wts E2). reflexivity.
  Qed.

  Definition bits_script : bytes := [x62; x69; x74; x73].      (* b"bits" *)

  Theorem mine_block_assemble_spec spk h rt ts raws ids :
    0 <= h + 1 < 2 ^ 31 -> zlen spk < 2 ^ 64 ->
    Forall wf_tx ts -> mapM tx_ser ts = Ok raws -> mapM tx_ids ts = Ok ids ->
    let must_commit := existsb (fun i => negb (bytes_eqb (fst i) (snd i))) ids in
    let commit := if must_commit
                  then Some (commitment_script
                               (commitment_hash sha256 (witness_root sha256 (map snd ids)) witness_reserved_value))
                  else None in
    let script := push_int (h + 1) ++ bits_script in
    let value := subsidy (h + 1) (interval_of rt) in
    let cb := coinbase_expected script value spk commit in
    exists cb_txid cb_wtxid,
      tx_ids (coinbase_struct script value spk commit) = Ok (cb_txid, cb_wtxid) /\
      mine_block_assemble sha256 spk h rt raws = Ok (cb, Spec.Merkle.merkle sha256 (cb_txid :: map fst ids)).
  Proof.
    intros Hh Hs W M I must_commit commit script value cb.
    unfold mine_block_assemble. rewrite (mapM_deser_ids ts raws W M), I. cbn [bind].
    fold must_commit. rewrite mine_block_commitment_is_bip141. cbn [bind].
    set (ch := commitment_hash sha256 (witness_root sha256 (map snd ids)) witness_reserved_value).
    assert (Lch : length ch = 32%nat) by (unfold ch, commitment_hash, Spec.Merkle.hash256; apply sha256_len).
    (* the coinbase *)
    assert (P : prepend_height bits_script (Some (h + 1)) = Ok script).
    { apply prepend_height_some. split; [lia|]. apply Z.lt_trans with (2 ^ 31); [lia | reflexivity]. }
    assert (Lp : (length script <= 100)%nat).
    { unfold script. rewrite app_length. cbn [bits_script length].
      destruct (Z_le_gt_dec (h + 1) 16) as [Sm|Bg].
      - rewrite push_int_small by lia. cbn [length]. lia.
      - pose proof (nbytes_31 (h + 1) ltac:(lia) ltac:(lia)) as N4. pose proof (nbytes_pos (h + 1) ltac:(lia)) as N1.
        rewrite push_int_big by lia. cbn [length]. rewrite to_le_length. lia. }
    pose proof (subsidy_range (h + 1) (interval_of rt) ltac:(lia) (interval_pos rt)) as VR.
    assert (V64 : 0 <= value < 2 ^ 64).
    { unfold value. split; [lia|]. apply Z.le_lt_trans with 5000000000; [lia | reflexivity]. }
    assert (CS : commit_spk (if must_commit then Some ch else None) = Ok commit).
    { unfold commit. destruct must_commit; [apply commit_spk_32; exact Lch | reflexivity]. }
    assert (CL : forall c, commit = Some c -> zlen c < 2 ^ 64).
    { intros c Ec. eapply commit_spk_length. rewrite CS, Ec. reflexivity. }
    change [x62; x69; x74; x73] with bits_script.
    rewrite (coinbase_tx_ok bits_script spk None (Some (h + 1)) rt (if must_commit then Some ch else None)
               script value commit P Lp); try assumption; try reflexivity.
    2:{ intros h' Eh. injection Eh as <-. lia. }
    2:{ intros h' r _ Er. discriminate Er. }
    cbn [bind]. fold cb.
    (* the coinbase through tx_deser *)
    pose proof (coinbase_struct_wf script value spk commit Lp V64 Hs CL) as Wc.
    pose proof (coinbase_struct_ser script value spk commit Lp V64 Hs CL) as Sc. fold cb in Sc.
    cbn [mapM]. rewrite (deser_ids_ser _ cb Wc Sc).
    destruct (tx_ids (coinbase_struct script value spk commit)) as [[ctx cwtx]|e] eqn:TI.
    2:{ exfalso. unfold tx_ids in TI. rewrite Sc in TI. cbn [bind] in TI.
        destruct (tx_roundtrip sha256 _ cb Wc Sc []) as (nw & NW & _). rewrite NW in TI. discriminate. }
    exists ctx, cwtx. split; [reflexivity|]. cbn [bind].
    rewrite (mapM_deser_ids ts raws W M), I. cbn [bind map fst].
    rewrite merkle_is_spec by discriminate. reflexivity.
  Qed.
End WithHash.
