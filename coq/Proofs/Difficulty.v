(* Proofs about the model of bits.blockchain.difficulty (Model/Difficulty.v): the returned float is within half a unit
   of its last place of the exact quotient, ties go to the even mantissa; refusals. *)
From Coq Require Import ZArith List Lia Bool.
Require Import Bits.Lib.Result Bits.Lib.Bytes Bits.Model.Target Bits.Model.Difficulty.
Import ListNotations.
Import Coq.Init.Byte.
Local Open Scope Z_scope.

Lemma round_half_even_spec n d : 0 < d -> 2 * Z.abs (round_half_even n d * d - n) <= d.
Proof.
  intros Hd. unfold round_half_even.
  pose proof (Z.div_mod n d ltac:(lia)) as E. pose proof (Z.mod_pos_bound n d Hd) as B.
  set (q := n / d) in *. set (r := n mod d) in *.
  destruct (Z.ltb_spec (2 * r) d); [lia|].
  destruct (Z.ltb_spec d (2 * r)); [lia|].
  destruct (Z.even q); lia.
Qed.

Lemma round_half_even_tie n d : 0 < d -> 2 * (n mod d) = d -> Z.even (round_half_even n d) = true.
Proof.
  intros Hd T. unfold round_half_even. rewrite T.
  destruct (Z.ltb_spec d d); [lia|].
  destruct (Z.even (n / d)) eqn:Ev; [exact Ev|].
  rewrite Z.even_add, Ev. reflexivity.
Qed.

Lemma round_half_even_exact q d : 0 < d -> round_half_even (q * d) d = q.
Proof.
  intros Hd. unfold round_half_even. rewrite Z.div_mul, Z.mod_mul by lia.
  destruct (Z.ltb_spec (2 * 0) d); [reflexivity|lia].
Qed.

Lemma pow2_pos_pos k : 0 < pow2_pos k.
Proof. unfold pow2_pos. destruct (Z.leb_spec 0 k); [apply Z.pow_pos_nonneg; lia | lia]. Qed.

(* (m, e) = true_div_me a b:  | m * 2^e - a/b | <= 2^e / 2, stated without fractions *)
Theorem true_div_half_ulp a b : 0 < a -> 0 < b ->
  let '(m, e) := true_div_me a b in
  -1074 <= e /\
  2 * Z.abs (m * (b * pow2_pos e) - a * pow2_pos (- e)) <= b * pow2_pos e.
Proof.
  intros Ha Hb. unfold true_div_me.
  set (fl := if _ <=? _ then _ else _). set (e := Z.max (fl - 52) (-1074)).
  split; [lia|]. apply round_half_even_spec.
  pose proof (pow2_pos_pos e). nia.
Qed.

Theorem difficulty_unknown_network target network :
  bytes_eqb network s_mainnet = false -> bytes_eqb network s_testnet = false -> bytes_eqb network s_regtest = false ->
  difficulty target network = Err ValueE.
Proof. intros H1 H2 H3. unfold difficulty. now rewrite H1, H2, H3. Qed.

Theorem difficulty_zero_target network :
  bytes_eqb network s_mainnet || bytes_eqb network s_testnet || bytes_eqb network s_regtest = true ->
  difficulty 0 network = Err OtherE.
Proof.
  unfold difficulty. destruct (bytes_eqb network s_mainnet || bytes_eqb network s_testnet); [reflexivity|].
  cbn [orb]. intros ->. reflexivity.
Qed.

(* difficulty 1 at the maximum target of each network; the wiki's worked example 0x1b0404cb = 16307.420938523983 *)
Theorem difficulty_vectors :
  difficulty MAX_TARGET s_mainnet = Ok (PFloat 1 1) /\ difficulty MAX_TARGET s_testnet = Ok (PFloat 1 1)
  /\ difficulty MAX_TARGET_REGTEST s_regtest = Ok (PFloat 1 1)
  /\ target_threshold [x1b; x04; x04; xcb] = PInt (263371 * 256 ^ 24)
  /\ difficulty (263371 * 256 ^ 24) s_mainnet = Ok (PFloat 8965099470472465 549755813888).
Proof. vm_compute. repeat split; reflexivity. Qed.
