(* Every template builder of Model/Script.v emits the reference assembly of its intended item list, and
   that script disassembles to exactly those items (up to the alias printed for a shared byte). *)
From Coq Require Import ZArith List Lia Bool.
Require Import Bits.Lib.Result Bits.Lib.Bytes Bits.Lib.PyStr Bits.Spec.Opcodes Bits.Spec.Script
  Bits.Spec.ScriptTemplates Bits.Model.Script.
Require Import Bits.GenProps.Opcodes Bits.Proofs.ScriptTable Bits.Proofs.Script.
Import ListNotations.
Import Coq.Init.Byte.
Local Open Scope Z_scope.

(* [r] is the reference serialisation of [items], and disassembles to them *)
Definition emits (r : result bytes) (items : list item) : Prop :=
  r = Ok (spec_asm items)
  /\ decode_script (spec_asm items) = Ok (map render (map canon items)).

Lemma emits_intro r items : Forall valid_item items -> r = Ok (spec_asm items) -> emits r items.
Proof. intros V E. split; [exact E | now apply decode_spec_asm]. Qed.

Lemma pow32 : 2 ^ 32 = 4294967296.
Proof. reflexivity. Qed.

(* ---------- names ---------- *)
Lemma names_eq : s_DUP = n_DUP /\ s_HASH160 = n_HASH160 /\ s_EQUALVERIFY = n_EQUALVERIFY /\ s_EQUAL = n_EQUAL
  /\ s_CHECKSIG = n_CHECKSIG /\ s_CHECKMULTISIG = n_CHECKMULTISIG /\ s_RETURN = n_RETURN /\ s_OP_0 = n_0
  /\ s_OP_ = n_OP_.
Proof. repeat split; reflexivity. Qed.

Ltac spec_names :=
  change s_DUP with n_DUP in *; change s_HASH160 with n_HASH160 in *;
  change s_EQUALVERIFY with n_EQUALVERIFY in *; change s_EQUAL with n_EQUAL in *;
  change s_CHECKSIG with n_CHECKSIG in *; change s_CHECKMULTISIG with n_CHECKMULTISIG in *;
  change s_RETURN with n_RETURN in *; change s_OP_0 with n_0 in *.

Lemma sv_DUP : spec_value n_DUP = Some 118. Proof. vm_compute. reflexivity. Qed.
Lemma sv_HASH160 : spec_value n_HASH160 = Some 169. Proof. vm_compute. reflexivity. Qed.
Lemma sv_EQUALVERIFY : spec_value n_EQUALVERIFY = Some 136. Proof. vm_compute. reflexivity. Qed.
Lemma sv_EQUAL : spec_value n_EQUAL = Some 135. Proof. vm_compute. reflexivity. Qed.
Lemma sv_CHECKSIG : spec_value n_CHECKSIG = Some 172. Proof. vm_compute. reflexivity. Qed.
Lemma sv_CHECKMULTISIG : spec_value n_CHECKMULTISIG = Some 174. Proof. vm_compute. reflexivity. Qed.
Lemma sv_RETURN : spec_value n_RETURN = Some 106. Proof. vm_compute. reflexivity. Qed.
Lemma sv_0 : spec_value n_0 = Some 0. Proof. vm_compute. reflexivity. Qed.

Lemma op_byte_spec n v : spec_value n = Some v -> op_byte n = Ok [z2b v].
Proof.
  intros H. apply spec_name_in_table in H. destruct (table_entry n v H) as (_ & R & _).
  unfold op_byte, getattr_op. rewrite H. cbn [of_option bind]. now apply to_le_chk_1.
Qed.

Lemma valid_op n v : spec_value n = Some v -> spec_is_pushdata v = false -> valid_item (Op n).
Proof. intros H P. cbn [valid_item]. unfold spec_nonpush_name. now rewrite H, P. Qed.

Lemma item_op n v : spec_value n = Some v -> spec_asm_item (Op n) = [z2b v].
Proof. intros H. cbn [spec_asm_item]. now rewrite H. Qed.

Definition small_val (k : Z) : Z := if k =? 0 then 0 else 80 + k.

Lemma small_getattr k : 0 <= k <= 16 -> getattr_op (s_OP_ ++ dec_str k) = Ok (small_val k).
Proof. intros H. unfold getattr_op. now rewrite small_int_name. Qed.
Lemma small_sv k : 0 <= k <= 16 -> spec_value (n_small k) = Some (small_val k).
Proof. intros H. apply (small_int_spec k H). Qed.
Lemma small_valid k : 0 <= k <= 16 -> valid_item (Op (n_small k)).
Proof. intros H. apply (small_int_spec k H). Qed.
Lemma small_val_range k : 0 <= k <= 16 -> 0 <= small_val k < 256.
Proof. intros H. unfold small_val. destruct (Z.eqb_spec k 0); lia. Qed.

(* ---------- pushes with a hand-written length byte ---------- *)
Lemma len1_ok x : lenZ x < 256 -> len1 x = Ok [z2b (lenZ x)].
Proof. intros H. unfold len1. apply to_le_chk_1. pose proof (lenZ_nonneg x). lia. Qed.

Lemma spec_push_direct d : lenZ d <= 75 -> spec_push d = z2b (lenZ d) :: d.
Proof. intros H. unfold spec_push, minimal_form. destruct (Z.leb_spec (lenZ d) 75); [reflexivity|lia]. Qed.

Lemma len_prefixed_ok (xs : list bytes) : Forall (fun x => 1 <= lenZ x <= 75) xs ->
  len_prefixed xs = Ok (concat (map spec_push xs)).
Proof.
  induction 1 as [|x xs H _ IH]; [reflexivity|].
  cbn [len_prefixed map concat]. rewrite len1_ok by lia. cbn [bind]. rewrite IH. cbn [bind].
  rewrite spec_push_direct by lia. reflexivity.
Qed.

Lemma spec_asm_cons it its : spec_asm (it :: its) = spec_asm_item it ++ spec_asm its.
Proof. reflexivity. Qed.
Lemma spec_asm_app a b : spec_asm (a ++ b) = spec_asm a ++ spec_asm b.
Proof. unfold spec_asm. now rewrite map_app, concat_app. Qed.
Lemma spec_asm_data (xs : list bytes) : spec_asm (map Data xs) = concat (map spec_push xs).
Proof. unfold spec_asm. now rewrite map_map. Qed.
Lemma spec_asm_nil : spec_asm [] = [].
Proof. reflexivity. Qed.

Lemma valid_data_small (xs : list bytes) : Forall (fun x => 1 <= lenZ x <= 75) xs -> Forall valid_item (map Data xs).
Proof. intros H. apply Forall_map. eapply Forall_impl; [|exact H]. intros x Hx. cbv beta in Hx. cbn [valid_item]. rewrite pow32. lia. Qed.
Lemma valid_data_any (xs : list bytes) : Forall (fun x => 1 <= lenZ x < 2 ^ 32) xs -> Forall valid_item (map Data xs).
Proof. intros H. apply Forall_map. eapply Forall_impl; [|exact H]. intros x Hx. exact Hx. Qed.

Lemma item_data d : spec_asm_item (Data d) = spec_push d.
Proof. reflexivity. Qed.

Ltac asm_norm :=
  repeat rewrite ?spec_asm_cons, ?spec_asm_app, ?spec_asm_data, ?spec_asm_nil;
  rewrite ?(item_op _ _ sv_DUP), ?(item_op _ _ sv_HASH160), ?(item_op _ _ sv_EQUALVERIFY), ?(item_op _ _ sv_EQUAL),
    ?(item_op _ _ sv_CHECKSIG), ?(item_op _ _ sv_CHECKMULTISIG), ?(item_op _ _ sv_RETURN), ?(item_op _ _ sv_0);
  rewrite ?item_data.

Ltac valid_ops :=
  repeat match goal with
  | |- Forall _ [] => constructor
  | |- Forall _ (_ :: _) => constructor
  | |- valid_item (Op n_DUP) => exact (valid_op _ _ sv_DUP eq_refl)
  | |- valid_item (Op n_HASH160) => exact (valid_op _ _ sv_HASH160 eq_refl)
  | |- valid_item (Op n_EQUALVERIFY) => exact (valid_op _ _ sv_EQUALVERIFY eq_refl)
  | |- valid_item (Op n_EQUAL) => exact (valid_op _ _ sv_EQUAL eq_refl)
  | |- valid_item (Op n_CHECKSIG) => exact (valid_op _ _ sv_CHECKSIG eq_refl)
  | |- valid_item (Op n_CHECKMULTISIG) => exact (valid_op _ _ sv_CHECKMULTISIG eq_refl)
  | |- valid_item (Op n_RETURN) => exact (valid_op _ _ sv_RETURN eq_refl)
  | |- valid_item (Op n_0) => exact (valid_op _ _ sv_0 eq_refl)
  | |- valid_item (Data _) => cbn [valid_item]; rewrite ?pow32; lia
  end.

(* ---------- scriptPubKeys ---------- *)
Theorem p2pkh_script_pubkey_emits h : 1 <= lenZ h <= 75 -> emits (p2pkh_script_pubkey h) (tpl_p2pkh h).
Proof.
  intros H. apply emits_intro; unfold tpl_p2pkh; [valid_ops|].
  unfold p2pkh_script_pubkey. spec_names.
  rewrite (op_byte_spec _ _ sv_DUP), (op_byte_spec _ _ sv_HASH160), (op_byte_spec _ _ sv_EQUALVERIFY),
    (op_byte_spec _ _ sv_CHECKSIG), len1_ok by lia. cbn [bind].
  asm_norm. rewrite spec_push_direct by lia. cbn [app]. rewrite ?app_nil_r. reflexivity.
Qed.

Theorem p2pk_script_pubkey_emits pk : 1 <= lenZ pk <= 75 -> emits (p2pk_script_pubkey pk) (tpl_p2pk pk).
Proof.
  intros H. apply emits_intro; unfold tpl_p2pk; [valid_ops|].
  unfold p2pk_script_pubkey. spec_names. rewrite (op_byte_spec _ _ sv_CHECKSIG), len1_ok by lia. cbn [bind].
  asm_norm. rewrite spec_push_direct by lia. cbn [app]. rewrite ?app_nil_r. reflexivity.
Qed.

Theorem p2sh_script_pubkey_emits sh : 1 <= lenZ sh <= 75 -> emits (p2sh_script_pubkey sh) (tpl_p2sh sh).
Proof.
  intros H. apply emits_intro; unfold tpl_p2sh; [valid_ops|].
  unfold p2sh_script_pubkey. spec_names.
  rewrite (op_byte_spec _ _ sv_HASH160), (op_byte_spec _ _ sv_EQUAL), len1_ok by lia. cbn [bind].
  asm_norm. rewrite spec_push_direct by lia. cbn [app]. rewrite ?app_nil_r. reflexivity.
Qed.

Theorem multisig_script_pubkey_emits m (pks : list bytes) :
  1 <= m <= lenZ pks -> lenZ pks <= 16 -> Forall (fun k => 1 <= lenZ k <= 75) pks ->
  emits (multisig_script_pubkey m pks) (tpl_multisig m pks).
Proof.
  intros Hm Hn Hk.
  assert (Vm : 0 <= m <= 16) by lia. assert (Vn : 0 <= lenZ pks <= 16) by lia.
  apply emits_intro; unfold tpl_multisig.
  - constructor; [exact (small_valid m Vm)|]. apply Forall_app. split; [now apply valid_data_small|].
    constructor; [exact (small_valid _ Vn)|]. valid_ops.
  - unfold multisig_script_pubkey. cbv zeta. spec_names.
    destruct (Z.leb_spec 1 m); [|lia]. destruct (Z.ltb_spec m 17); [|lia].
    destruct (Z.leb_spec 1 (lenZ pks)); [|lia]. destruct (Z.ltb_spec (lenZ pks) 17); [|lia].
    destruct (Z.leb_spec m (lenZ pks)); [|lia]. cbn [andb assert_ bind].
    rewrite (small_getattr m Vm), (small_getattr _ Vn). cbn [bind].
    rewrite len_prefixed_ok by exact Hk. cbn [bind].
    rewrite (to_be_chk_1 _ (small_val_range m Vm)), (to_be_chk_1 _ (small_val_range _ Vn)). cbn [bind].
    rewrite (op_byte_spec _ _ sv_CHECKMULTISIG). cbn [bind].
    asm_norm. rewrite (item_op _ _ (small_sv m Vm)), (item_op _ _ (small_sv _ Vn)).
    cbn [app]. rewrite <- ?app_assoc. reflexivity.
Qed.

Theorem multisig_script_pubkey_refuses m (pks : list bytes) :
  ~ (1 <= m <= lenZ pks /\ lenZ pks <= 16) -> multisig_script_pubkey m pks = Err AssertionE.
Proof.
  intros H. unfold multisig_script_pubkey. cbv zeta. set (n := lenZ pks) in *.
  destruct (Z.leb_spec 1 m); [|reflexivity]. destruct (Z.ltb_spec m 17); [|reflexivity].
  destruct (Z.leb_spec 1 n); [|reflexivity]. destruct (Z.ltb_spec n 17); [|reflexivity].
  destruct (Z.leb_spec m n); [lia|reflexivity].
Qed.

Theorem null_data_script_pubkey_emits d : 1 <= lenZ d < 2 ^ 32 ->
  emits (null_data_script_pubkey d) (tpl_null_data d).
Proof.
  intros H. apply emits_intro; unfold tpl_null_data; [valid_ops|].
  unfold null_data_script_pubkey. spec_names. rewrite (op_byte_spec _ _ sv_RETURN). cbn [bind script].
  rewrite script_arg_data by lia. cbn [bind]. asm_norm. cbn [app]. reflexivity.
Qed.

(* the empty payload: OP_RETURN followed by the empty push, which IS the opcode OP_0 *)
Theorem null_data_script_pubkey_empty :
  null_data_script_pubkey [] = Ok [x6a; x00]
  /\ decode_script [x6a; x00] = Ok [render (canon (Op n_RETURN)); render (canon (Op n_0))].
Proof. split; vm_compute; reflexivity. Qed.

Theorem witness_program_emits prog v : 0 <= v <= 16 -> 1 <= lenZ prog <= 75 ->
  emits (p2wpkh_script_pubkey prog v) (tpl_witness_program v prog).
Proof.
  intros Hv H. apply emits_intro; unfold tpl_witness_program.
  - constructor; [apply small_valid; lia|]. valid_ops.
  - unfold p2wpkh_script_pubkey. rewrite small_getattr by lia. cbn [bind].
    rewrite to_be_chk_1 by (apply small_val_range; lia). cbn [bind]. rewrite len1_ok by lia. cbn [bind].
    asm_norm. rewrite (item_op _ _ (small_sv v Hv)). rewrite spec_push_direct by lia. cbn [app].
    rewrite ?app_nil_r. reflexivity.
Qed.

Theorem witness_program_refuses prog v : ~ (0 <= v <= 16) ->
  assoc_b (s_OP_ ++ dec_str v) G.op_int_map = None -> p2wpkh_script_pubkey prog v = Err AttributeE.
Proof. intros _ H. unfold p2wpkh_script_pubkey, getattr_op. now rewrite H. Qed.

(* ---------- scriptSigs ---------- *)
Theorem p2pk_script_sig_emits sig : 1 <= lenZ sig <= 75 -> emits (p2pk_script_sig sig) (tpl_p2pk_sig sig).
Proof.
  intros H. apply emits_intro; unfold tpl_p2pk_sig; [valid_ops|].
  unfold p2pk_script_sig. rewrite len1_ok by lia. cbn [bind].
  asm_norm. rewrite spec_push_direct by lia. cbn [app]. rewrite ?app_nil_r. reflexivity.
Qed.

Theorem p2pkh_script_sig_emits sig pk : 1 <= lenZ sig <= 75 -> 1 <= lenZ pk <= 75 ->
  emits (p2pkh_script_sig sig pk) (tpl_p2pkh_sig sig pk).
Proof.
  intros H1 H2. apply emits_intro; unfold tpl_p2pkh_sig; [valid_ops|].
  unfold p2pkh_script_sig. rewrite !len1_ok by lia. cbn [bind].
  asm_norm. rewrite !spec_push_direct by lia. cbn [app]. rewrite ?app_nil_r. reflexivity.
Qed.

Theorem p2sh_script_sig_emits (sigs : list bytes) rs :
  Forall (fun s => 1 <= lenZ s <= 75) sigs -> 1 <= lenZ rs < 2 ^ 32 ->
  emits (p2sh_script_sig sigs rs) (tpl_p2sh_sig sigs rs).
Proof.
  intros Hs Hr. apply emits_intro; unfold tpl_p2sh_sig.
  - apply Forall_app. split; [now apply valid_data_small | valid_ops].
  - unfold p2sh_script_sig. rewrite len_prefixed_ok by exact Hs. cbn [bind script].
    rewrite script_arg_data by lia. cbn [bind]. asm_norm. reflexivity.
Qed.

Theorem multisig_script_sig_emits (sigs : list bytes) : Forall (fun s => 1 <= lenZ s <= 75) sigs ->
  emits (multisig_script_sig sigs) (tpl_multisig_sig sigs).
Proof.
  intros Hs. apply emits_intro; unfold tpl_multisig_sig.
  - constructor; [valid_ops | now apply valid_data_small].
  - unfold multisig_script_sig. spec_names. rewrite len_prefixed_ok by exact Hs. cbn [bind].
    rewrite (op_byte_spec _ _ sv_0). cbn [bind]. asm_norm. reflexivity.
Qed.

Theorem p2sh_multisig_script_sig_emits (sigs : list bytes) rs :
  Forall (fun s => 1 <= lenZ s < 2 ^ 32) sigs -> 1 <= lenZ rs < 2 ^ 32 ->
  emits (p2sh_multisig_script_sig sigs rs) (tpl_p2sh_multisig_sig sigs rs).
Proof.
  intros Hs Hr.
  assert (V : Forall valid_item (tpl_p2sh_multisig_sig sigs rs)).
  { unfold tpl_p2sh_multisig_sig. constructor; [valid_ops|]. apply Forall_app.
    split; [now apply valid_data_any | valid_ops]. }
  apply emits_intro; [exact V|].
  rewrite <- (script_items _ V). unfold p2sh_multisig_script_sig, tpl_p2sh_multisig_sig.
  cbn [map render app]. rewrite map_app, map_map. reflexivity.
Qed.

Theorem p2sh_p2wpkh_script_sig_emits rs : 1 <= lenZ rs < 2 ^ 32 ->
  emits (p2sh_p2wpkh_script_sig rs) (tpl_p2sh_sig [] rs).
Proof. intros H. apply (p2sh_script_sig_emits [] rs); [constructor | exact H]. Qed.

Theorem empty_script_sigs : emits p2wpkh_script_sig [] /\ emits p2wsh_script_sig [].
Proof. split; (split; [reflexivity | vm_compute; reflexivity]). Qed.

(* ---------- builders that hash an inner script ---------- *)
Section WithHash.
  Variable sha256 : bytes -> bytes.
  Variable ripemd160 : bytes -> bytes.

  Lemma emits_ok r items : emits r items -> r = Ok (spec_asm items).
  Proof. intros [E _]. exact E. Qed.

  Theorem p2sh_multisig_script_pubkey_emits m (pks : list bytes) :
    (forall x, length (ripemd160 x) = 20%nat) ->
    1 <= m <= lenZ pks -> lenZ pks <= 16 -> Forall (fun k => 1 <= lenZ k <= 75) pks ->
    emits (p2sh_multisig_script_pubkey sha256 ripemd160 m pks)
          (tpl_p2sh (ripemd160 (sha256 (spec_asm (tpl_multisig m pks))))).
  Proof.
    intros HL Hm Hn Hk. unfold p2sh_multisig_script_pubkey.
    rewrite (emits_ok _ _ (multisig_script_pubkey_emits m pks Hm Hn Hk)). cbn [bind]. unfold script_hash.
    apply p2sh_script_pubkey_emits. unfold lenZ. rewrite HL. lia.
  Qed.

  Theorem p2sh_p2wpkh_script_pubkey_emits h v :
    (forall x, length (ripemd160 x) = 20%nat) -> 0 <= v <= 16 -> 1 <= lenZ h <= 75 ->
    emits (p2sh_p2wpkh_script_pubkey sha256 ripemd160 h v)
          (tpl_p2sh (ripemd160 (sha256 (spec_asm (tpl_witness_program v h))))).
  Proof.
    intros HL Hv Hh. unfold p2sh_p2wpkh_script_pubkey.
    rewrite (emits_ok _ _ (witness_program_emits h v Hv Hh)). cbn [bind]. unfold script_hash.
    apply p2sh_script_pubkey_emits. unfold lenZ. rewrite HL. lia.
  Qed.

  Theorem p2sh_p2wsh_script_pubkey_emits ws v :
    (forall x, length (ripemd160 x) = 20%nat) -> (forall x, length (sha256 x) = 32%nat) -> 0 <= v <= 16 ->
    emits (p2sh_p2wsh_script_pubkey sha256 ripemd160 ws v)
          (tpl_p2sh (ripemd160 (sha256 (spec_asm (tpl_witness_program v (sha256 ws)))))).
  Proof.
    intros HL HS Hv. unfold p2sh_p2wsh_script_pubkey, p2wsh_script_pubkey, witness_script_hash.
    assert (Hh : 1 <= lenZ (sha256 ws) <= 75) by (unfold lenZ; rewrite HS; lia).
    rewrite (emits_ok _ _ (witness_program_emits (sha256 ws) v Hv Hh)). cbn [bind]. unfold script_hash.
    apply p2sh_script_pubkey_emits. unfold lenZ. rewrite HL. lia.
  Qed.

  (* BIP141: the scriptSig of P2SH-P2WSH is the single push of the redeem script  0 <sha256(witness script)> *)
  Theorem p2sh_p2wsh_script_sig_emits ws :
    (forall x, length (sha256 x) = 32%nat) ->
    emits (p2sh_p2wsh_script_sig sha256 ws) (tpl_p2sh_sig [] (spec_asm (tpl_witness_program 0 (sha256 ws)))).
  Proof.
    intros HS. unfold p2sh_p2wsh_script_sig, p2wsh_script_pubkey, witness_script_hash.
    assert (Hh : 1 <= lenZ (sha256 ws) <= 75) by (unfold lenZ; rewrite HS; lia).
    rewrite (emits_ok _ _ (witness_program_emits (sha256 ws) 0 ltac:(lia) Hh)). cbn [bind].
    apply p2sh_script_sig_emits; [constructor|].
    unfold tpl_witness_program. asm_norm. rewrite (item_op _ _ (small_sv 0 ltac:(lia))).
    rewrite spec_push_direct by lia. rewrite app_nil_r, lenZ_app, !lenZ_cons. unfold lenZ in *. rewrite HS.
    rewrite pow32. cbn [length]. lia.
  Qed.
End WithHash.
