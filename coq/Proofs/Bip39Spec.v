(* C10: the mnemonic computed by the model is the one the standard describes on bit strings
   (entropy bits ++ first ENT/32 bits of SHA-256, cut into groups of 11, each group an index). *)
From Coq Require Import ZArith List Lia Bool.
Require Import Bits.Lib.Result Bits.Lib.Bytes Bits.Lib.Radix Bits.Lib.RadixW.
Require Import Bits.Spec.Bip39 Bits.Model.Bip39 Bits.Proofs.Bip39Lemmas Bits.Proofs.Bip39.
Import ListNotations.
Local Open Scope Z_scope.

Lemma chunks_length {A} k n (l : list A) : length (chunks k n l) = n.
Proof. revert l. induction n as [|n IH]; intros l; cbn [chunks length]; [reflexivity|now rewrite IH]. Qed.

Lemma chunks_in_range n : forall l, in_range 2 l -> in_range 2048 (map (undigits 2) (chunks 11 n l)).
Proof.
  induction n as [|n IH]; intros l Hl; cbn [chunks map]; constructor.
  - pose proof (in_range_firstn 2 11 l Hl) as R.
    pose proof (undigits_nonneg 2 _ ltac:(lia) R). pose proof (undigits_bound 2 _ ltac:(lia) R) as B.
    assert (L : (length (firstn 11 l) <= 11)%nat) by apply firstn_le_length.
    assert (2 ^ Z.of_nat (length (firstn 11 l)) <= 2 ^ 11) by (apply Z.pow_le_mono_r; lia).
    change (2 ^ 11) with 2048 in *. lia.
  - apply IH. now apply in_range_skipn.
Qed.

Lemma chunks_val n : forall l, in_range 2 l -> length l = (11 * n)%nat ->
  undigits 2048 (map (undigits 2) (chunks 11 n l)) = undigits 2 l.
Proof.
  induction n as [|n IH]; intros l Hr Hl.
  - destruct l; [reflexivity|simpl in Hl; lia].
  - cbn [chunks map]. rewrite undigits_cons, map_length, chunks_length.
    rewrite IH by (try apply in_range_skipn; try rewrite skipn_length; try assumption; lia).
    rewrite <- (firstn_skipn 11 l) at 3. rewrite undigits_app, skipn_length, Hl.
    rewrite pow2048 by lia. f_equal. f_equal. f_equal. lia.
Qed.

Section SpecLink.
  Variable sha256 : bytes -> bytes.
  Variable wl : list bytes.
  Hypothesis Hsha : forall m, length (sha256 m) = 32%nat.
  Hypothesis Hwl : length wl = 2048%nat.

  Lemma spec_bits_val c e : (4 <= c <= 8)%nat -> length e = (4 * c)%nat ->
    in_range 2 (spec_bits sha256 e) /\ length (spec_bits sha256 e) = (11 * (3 * c))%nat
    /\ undigits 2 (spec_bits sha256 e) = payload sha256 c e.
  Proof.
    intros Hc He. unfold spec_bits. rewrite He.
    replace (8 * (4 * c) / 32)%nat with c
      by (replace (8 * (4 * c))%nat with (c * 32)%nat by lia; now rewrite Nat.div_mul by lia).
    destruct (hash_bits_val sha256 wl Hsha Hwl c e Hc) as [HV HL].
    split; [|split].
    - apply Forall_app. split; [apply bits_of_bytes_in_range|apply in_range_firstn, bits_of_bytes_in_range].
    - rewrite app_length, bits_of_bytes_length, HL, He. lia.
    - rewrite undigits_app, HL, HV, undigits_bits_of_bytes. reflexivity.
  Qed.

  Theorem mnemonic_is_spec e : In (length e) ent_lengths ->
    mnemonic_words sha256 wl e = Ok (spec_mnemonic sha256 wl e).
  Proof.
    intros H. apply ent_lengths_c in H as (c & Hc & He).
    rewrite (mnemonic_words_char sha256 wl Hsha Hwl c e Hc He). f_equal.
    unfold spec_mnemonic. fold (nthw wl). f_equal.
    destruct (spec_bits_val c e Hc He) as (R & L & V).
    unfold spec_indices. rewrite He.
    replace (8 * (4 * c) / 32)%nat with c
      by (replace (8 * (4 * c))%nat with (c * 32)%nat by lia; now rewrite Nat.div_mul by lia).
    replace ((8 * (4 * c) + c) / 11)%nat with (3 * c)%nat
      by (replace (8 * (4 * c) + c)%nat with (3 * c * 11)%nat by lia; now rewrite Nat.div_mul by lia).
    apply (undigits_inj 2048); [lia| | | |].
    - apply digits_w_in_range. lia.
    - now apply chunks_in_range.
    - now rewrite digits_w_length, map_length, chunks_length.
    - rewrite chunks_val by assumption. rewrite V.
      apply undigits_digits_w_small; [lia|]. now apply (payload_range sha256 wl).
  Qed.
End SpecLink.
