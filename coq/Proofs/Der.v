(* DER signature codec of utils.py (der_encode_sig / der_decode_sig / sig / ensure_sig_low_s): minimal positive
   INTEGER contents, exact byte layout, round trip, BIP66 strictness, sighash-flag suffix, low-S normalisation. *)
From Coq Require Import ZArith List Bool Lia.
Require Import Bits.Lib.Result Bits.Lib.Bytes Bits.Model.Asn1 Bits.Model.Ecmath Bits.Model.Keys Bits.Model.Der
  Bits.Spec.Bip66.
Import ListNotations.
Import Coq.Init.Byte.
Local Open Scope Z_scope.

(* ---------- to_be: the top byte ---------- *)
Lemma der_to_le_snoc k : forall v, to_le (S k) v = to_le k v ++ [z2b (v / 256 ^ Z.of_nat k)].
Proof.
  induction k as [|k IH]; intros v.
  - cbn [to_le app]. change (256 ^ Z.of_nat 0) with 1. now rewrite Z.div_1_r.
  - change (to_le (S (S k)) v) with (z2b v :: to_le (S k) (v / 256)).
    rewrite IH. cbn [to_le app]. do 3 f_equal.
    rewrite Nat2Z.inj_succ, Z.pow_succ_r by lia. rewrite Z.div_div by lia. reflexivity.
Qed.

Lemma to_be_top k v : to_be (S k) v = z2b (v / 256 ^ Z.of_nat k) :: to_be k v.
Proof. unfold to_be. rewrite der_to_le_snoc, rev_app_distr. reflexivity. Qed.

(* ---------- bit_length ---------- *)
Lemma bit_length_spec v : 1 <= v ->
  1 <= bit_length v /\ 2 ^ (bit_length v - 1) <= v < 2 ^ bit_length v.
Proof.
  intros H. unfold bit_length. destruct (Z.leb_spec v 0) as [|_]; [lia|].
  pose proof (Z.log2_nonneg v). pose proof (Z.log2_spec v ltac:(lia)) as L.
  replace (Z.log2 v + 1 - 1) with (Z.log2 v) by lia. replace (Z.log2 v + 1) with (Z.succ (Z.log2 v)) by lia.
  lia.
Qed.

Lemma der_pow256 k : 0 <= k -> 256 ^ k = 2 ^ (8 * k).
Proof. intros H. change 256 with (2 ^ 8). now rewrite <- Z.pow_mul_r by lia. Qed.

(* number of content bytes: 256^(nb-1) <= v < 256^nb *)
Lemma nbytes_spec v : 1 <= v -> let nb := (bit_length v + 7) / 8 in
  1 <= nb /\ 256 ^ (nb - 1) <= v < 256 ^ nb.
Proof.
  intros H nb. destruct (bit_length_spec v H) as (B1 & B2 & B3).
  assert (N : 8 * nb <= bit_length v + 7 < 8 * nb + 8).
  { unfold nb. pose proof (Z.div_mod (bit_length v + 7) 8 ltac:(lia)).
    pose proof (Z.mod_pos_bound (bit_length v + 7) 8 ltac:(lia)). lia. }
  assert (N1 : 1 <= nb) by lia. split; [exact N1|].
  rewrite !der_pow256 by lia. split.
  - apply Z.le_trans with (2 ^ (bit_length v - 1)); [|exact B2]. apply Z.pow_le_mono_r; lia.
  - apply Z.lt_le_trans with (2 ^ bit_length v); [exact B3|]. apply Z.pow_le_mono_r; lia.
Qed.

Lemma of_be_cons0 bs : of_be (x00 :: bs) = of_be bs.
Proof. change (x00 :: bs) with ([x00] ++ bs). rewrite of_be_app. reflexivity. Qed.

(* ---------- int_min_bytes ---------- *)
Lemma int_min_bytes_zero : int_min_bytes 0 = Err IndexE.
Proof. reflexivity. Qed.

Lemma int_min_bytes_neg v : v < 0 -> int_min_bytes v = Err OverflowE.
Proof. intros H. unfold int_min_bytes. destruct (Z.ltb_spec v 0); [reflexivity|lia]. Qed.

Lemma int_min_bytes_spec : forall v, 1 <= v ->
  exists bs, int_min_bytes v = Ok bs /\ of_be bs = v /\ (1 <= length bs)%nat /\
    (forall k, v < 256 ^ Z.of_nat k -> (length bs <= k + 1)%nat) /\
    (forall b0 rest, bs = b0 :: rest ->
       b2z b0 < 128 /\ (b2z b0 = 0 -> exists b1 rest', rest = b1 :: rest' /\ 128 <= b2z b1)).
Proof.
  intros v Hv. unfold int_min_bytes. destruct (Z.ltb_spec v 0) as [|_]; [lia|]. cbv zeta.
  destruct (nbytes_spec v Hv) as (N1 & N2 & N3). set (nb := (bit_length v + 7) / 8) in *.
  destruct (Z.to_nat nb) as [|k] eqn:Ek; [lia|].
  assert (Hk : Z.of_nat k = nb - 1) by lia. replace nb with (Z.of_nat (S k)) in N3 by lia.
  rewrite <- Hk in N2.
  assert (Hbe : of_be (to_be (S k) v) = v) by (apply of_be_to_be; lia).
  assert (Hlen : length (to_be (S k) v) = S k) by apply to_be_length.
  rewrite to_be_top in *. set (top := v / 256 ^ Z.of_nat k) in *.
  assert (Pk : 0 < 256 ^ Z.of_nat k) by (apply Z.pow_pos_nonneg; lia).
  assert (Htop : 1 <= top < 256).
  { unfold top. split.
    - apply Z.div_le_lower_bound; lia.
    - apply Z.div_lt_upper_bound; [lia|]. rewrite Nat2Z.inj_succ, Z.pow_succ_r in N3 by lia. lia. }
  assert (Hb : b2z (z2b top) = top) by (apply b2z_z2b; lia).
  assert (Hbound : forall j, v < 256 ^ Z.of_nat j -> (k < j)%nat).
  { intros j Hj. destruct (Nat.lt_ge_cases k j) as [|Hge]; [assumption|exfalso].
    assert (256 ^ Z.of_nat j <= 256 ^ Z.of_nat k) by (apply Z.pow_le_mono_r; lia). lia. }
  rewrite Hb. destruct (Z.leb_spec 128 top) as [Hhi|Hlo].
  - eexists. split; [reflexivity|]. rewrite of_be_cons0. split; [exact Hbe|].
    cbn [length] in *. split; [lia|]. split.
    + intros j Hj. specialize (Hbound j Hj). lia.
    + intros b0 rest E. injection E as <- <-. change (b2z x00) with 0. split; [lia|].
      intros _. eexists _, _. split; [reflexivity|]. rewrite Hb. exact Hhi.
  - eexists. split; [reflexivity|]. split; [exact Hbe|].
    cbn [length] in *. split; [lia|]. split.
    + intros j Hj. specialize (Hbound j Hj). lia.
    + intros b0 rest E. injection E as <- <-. rewrite Hb. split; lia.
Qed.

(* ---------- der_encode_sig: exact layout ---------- *)
Lemma der_to_be_chk_1 z : 0 <= z < 256 -> to_be_chk 1 z = Ok [z2b z].
Proof.
  intros H. unfold to_be_chk. change (256 ^ Z.of_nat 1) with 256.
  destruct (Z.leb_spec 0 z); [|lia]. destruct (Z.ltb_spec z 256); [|lia]. reflexivity.
Qed.

Lemma encode_int_node bs : Z.of_nat (length bs) < 256 ->
  encode_node (mk_prim T_INTEGER bs) = Ok (x02 :: z2b (Z.of_nat (length bs)) :: bs).
Proof.
  intros H. unfold mk_prim. cbn [encode_node tcls tnum tcons].
  rewrite (der_to_be_chk_1 (Z.of_nat (length bs))) by lia. reflexivity.
Qed.

Lemma encode_seq2 len n0 n1 e0 e1 : 0 <= len < 256 ->
  encode_node n0 = Ok e0 -> encode_node n1 = Ok e1 ->
  encode_node (mk_seq len [n0; n1]) = Ok (x30 :: z2b len :: e0 ++ e1).
Proof.
  intros H E0 E1. unfold mk_seq. cbn [encode_node tcls tnum tcons].
  rewrite (der_to_be_chk_1 len) by lia. rewrite E0, E1.
  cbn [bind]. rewrite app_nil_r. reflexivity.
Qed.

(* the layout written for two INTEGER contents *)
Definition der_layout (rb sb : bytes) : bytes :=
  [x30; z2b (Z.of_nat (length rb + length sb + 4)); x02; z2b (Z.of_nat (length rb))] ++ rb ++
  [x02; z2b (Z.of_nat (length sb))] ++ sb.

(* content of a DER INTEGER as BIP66 wants it: 1..33 bytes, positive, no superfluous leading 00 *)
Definition int_content_ok (bs : bytes) : Prop :=
  (1 <= length bs <= 33)%nat /\
  forall b0 rest, bs = b0 :: rest ->
    b2z b0 < 128 /\ (b2z b0 = 0 -> exists b1 rest', rest = b1 :: rest' /\ 128 <= b2z b1).

Lemma int_min_bytes_256 v : 1 <= v < 2 ^ 256 ->
  exists bs, int_min_bytes v = Ok bs /\ of_be bs = v /\ int_content_ok bs.
Proof.
  intros [H1 H2]. destruct (int_min_bytes_spec v H1) as (bs & E & Hv & L1 & L2 & Hc).
  exists bs. split; [exact E|]. split; [exact Hv|]. split; [|exact Hc].
  specialize (L2 32%nat). change (256 ^ Z.of_nat 32) with (2 ^ 256) in L2. specialize (L2 H2). lia.
Qed.

Lemma der_encode_layout r s rb sb :
  int_min_bytes r = Ok rb -> int_min_bytes s = Ok sb -> (length rb <= 33)%nat -> (length sb <= 33)%nat ->
  der_encode_sig r s = Ok (der_layout rb sb).
Proof.
  intros Er Es Lr Ls. unfold der_encode_sig. rewrite Er, Es. cbn [bind].
  assert (Hlen : 0 <= Z.of_nat (length rb) + Z.of_nat (length sb) + 4 < 256) by lia.
  rewrite (encode_seq2 _ _ _ _ _ Hlen (encode_int_node rb ltac:(lia)) (encode_int_node sb ltac:(lia))).
  unfold der_layout. cbn [app]. do 3 f_equal. f_equal. lia.
Qed.

Lemma der_encode_shape : forall r s, 1 <= r < 2^256 -> 1 <= s < 2^256 ->
  exists rb sb, int_min_bytes r = Ok rb /\ int_min_bytes s = Ok sb /\
    der_encode_sig r s = Ok ([x30; z2b (Z.of_nat (length rb + length sb + 4)); x02; z2b (Z.of_nat (length rb))]
                             ++ rb ++ [x02; z2b (Z.of_nat (length sb))] ++ sb).
Proof.
  intros r s Hr Hs.
  destruct (int_min_bytes_256 r Hr) as (rb & Er & _ & [Lr _]).
  destruct (int_min_bytes_256 s Hs) as (sb & Es & _ & [Ls _]).
  exists rb, sb. split; [exact Er|]. split; [exact Es|].
  apply der_encode_layout; auto; lia.
Qed.

(* ---------- der_decode_sig on the layout ---------- *)
Lemma der_parse_nil f : parse_asn1 f [] = Ok [].
Proof. destruct f; reflexivity. Qed.

Lemma der_firstn_app {A} (x y : list A) : firstn (length x) (x ++ y) = x.
Proof. rewrite firstn_app, Nat.sub_diag, firstn_all. cbn [firstn]. apply app_nil_r. Qed.
Lemma der_skipn_app {A} (x y : list A) : skipn (length x) (x ++ y) = y.
Proof. rewrite skipn_app, Nat.sub_diag, skipn_all. reflexivity. Qed.

Lemma parse_int_node f bs rest : Z.of_nat (length bs) < 256 ->
  parse_asn1 (S f) (x02 :: z2b (Z.of_nat (length bs)) :: bs ++ rest) =
  bind (parse_asn1 f rest) (fun tl => Ok (mk_prim T_INTEGER bs :: tl)).
Proof.
  intros H. cbn [parse_asn1]. cbv zeta. rewrite b2z_z2b by lia. rewrite Nat2Z.id.
  rewrite der_firstn_app, der_skipn_app. reflexivity.
Qed.

Lemma parse_int_node_last f bs : Z.of_nat (length bs) < 256 ->
  parse_asn1 (S f) (x02 :: z2b (Z.of_nat (length bs)) :: bs) = Ok [mk_prim T_INTEGER bs].
Proof.
  intros H. pose proof (parse_int_node f bs [] H) as Q. rewrite app_nil_r, der_parse_nil in Q. exact Q.
Qed.

Lemma parse_seq_node f body : Z.of_nat (length body) < 256 ->
  parse_asn1 (S f) (x30 :: z2b (Z.of_nat (length body)) :: body) =
  bind (parse_asn1 f body) (fun l => Ok [mk_seq (Z.of_nat (length body)) l]).
Proof.
  intros H. cbn [parse_asn1]. cbv zeta. rewrite b2z_z2b by lia. rewrite Nat2Z.id.
  rewrite firstn_all, skipn_all, der_parse_nil.
  change (tnum (tag_of_byte x30) =? T_SEQUENCE) with true. cbv iota.
  destruct (parse_asn1 f body); reflexivity.
Qed.

Lemma der_decode_layout rb sb : (length rb <= 33)%nat -> (length sb <= 33)%nat ->
  der_decode_sig (der_layout rb sb) = Ok (of_be rb, of_be sb).
Proof.
  intros Lr Ls. unfold der_decode_sig, parse_asn1_top, der_layout.
  set (body := [x02; z2b (Z.of_nat (length rb))] ++ rb ++ [x02; z2b (Z.of_nat (length sb))] ++ sb).
  assert (Lb : length body = (length rb + length sb + 4)%nat).
  { unfold body. cbn [app length]. rewrite app_length. cbn [length]. lia. }
  change ([x30; z2b (Z.of_nat (length rb + length sb + 4)); x02; z2b (Z.of_nat (length rb))] ++ rb ++
          [x02; z2b (Z.of_nat (length sb))] ++ sb)
    with (x30 :: z2b (Z.of_nat (length rb + length sb + 4)) :: body).
  rewrite <- Lb. cbn [length]. rewrite parse_seq_node by lia.
  assert (P : parse_asn1 (S (length body)) body = Ok [mk_prim T_INTEGER rb; mk_prim T_INTEGER sb]).
  { rewrite Lb. replace (S (length rb + length sb + 4)) with (S (S (length rb + length sb + 3))) by lia.
    unfold body. cbn [app]. rewrite parse_int_node by lia.
    rewrite parse_int_node_last by lia. reflexivity. }
  rewrite P. reflexivity.
Qed.

Lemma der_roundtrip : forall r s, 1 <= r < 2^256 -> 1 <= s < 2^256 ->
  exists der, der_encode_sig r s = Ok der /\ der_decode_sig der = Ok (r, s).
Proof.
  intros r s Hr Hs.
  destruct (int_min_bytes_256 r Hr) as (rb & Er & Vr & [Lr _]).
  destruct (int_min_bytes_256 s Hs) as (sb & Es & Vs & [Ls _]).
  exists (der_layout rb sb). split; [apply der_encode_layout; auto; lia|].
  rewrite der_decode_layout by lia. now rewrite Vr, Vs.
Qed.

Lemma der_decode_encode_unique r s r' s' der :
  der_encode_sig r s = Ok der -> der_decode_sig der = Ok (r', s') ->
  1 <= r < 2^256 -> 1 <= s < 2^256 -> r' = r /\ s' = s.
Proof.
  intros E D Hr Hs. destruct (der_roundtrip r s Hr Hs) as (der' & E' & D').
  rewrite E in E'. injection E' as <-. rewrite D in D'. injection D' as -> ->. auto.
Qed.

(* ---------- BIP66 strictness of the layout ---------- *)
Lemma if_false_chain (c : bool) (X : bool) : c = false -> X = true -> (if c then false else X) = true.
Proof. intros -> H. exact H. Qed.

Lemma nth_after {A} (h0 h1 h2 h3 : A) (rb tl : list A) (j : nat) d :
  nth (4 + length rb + j) (h0 :: h1 :: h2 :: h3 :: rb ++ tl) d = nth j tl d.
Proof. cbn [Nat.add nth]. apply app_nth2_plus. Qed.

Lemma bip66_layout rb sb flag : int_content_ok rb -> int_content_ok sb ->
  bip66_valid (der_layout rb sb ++ [flag]) = true.
Proof.
  intros [Lr Cr] [Ls Cs].
  destruct rb as [|r0 rb']; [cbn [length] in Lr; lia|]. destruct sb as [|s0 sb']; [cbn [length] in Ls; lia|].
  destruct (Cr r0 rb' eq_refl) as [Cr1 Cr2]. destruct (Cs s0 sb' eq_refl) as [Cs1 Cs2]. clear Cr Cs.
  set (rb := r0 :: rb') in *. set (sb := s0 :: sb') in *.
  set (lr := Z.of_nat (length rb)). set (ls := Z.of_nat (length sb)).
  set (tl := x02 :: z2b ls :: sb ++ [flag]).
  set (sg := der_layout rb sb ++ [flag]).
  assert (Esg : sg = x30 :: z2b (Z.of_nat (length rb + length sb + 4)) :: x02 :: z2b lr :: rb ++ tl).
  { unfold sg, der_layout, tl. cbn [app]. do 4 f_equal. rewrite <- !app_assoc. reflexivity. }
  assert (Hlr : 1 <= lr <= 33) by (unfold lr; lia). assert (Hls : 1 <= ls <= 33) by (unfold ls; lia).
  assert (Hsize : Z.of_nat (length sg) = lr + ls + 7).
  { rewrite Esg. unfold tl. cbn [length]. rewrite app_length. cbn [length]. rewrite app_length. cbn [length].
    unfold lr, ls. lia. }
  assert (A0 : byte_at sg 0 = 48) by (rewrite Esg; reflexivity).
  assert (A1 : byte_at sg 1 = lr + ls + 4).
  { rewrite Esg. unfold byte_at. change (Z.to_nat 1) with 1%nat. cbn [nth]. rewrite b2z_z2b by lia.
    unfold lr, ls. lia. }
  assert (A2 : byte_at sg 2 = 2) by (rewrite Esg; reflexivity).
  assert (A3 : byte_at sg 3 = lr).
  { rewrite Esg. unfold byte_at. change (Z.to_nat 3) with 3%nat. cbn [nth]. apply b2z_z2b. lia. }
  assert (A4 : byte_at sg 4 = b2z r0) by (rewrite Esg; reflexivity).
  assert (A5 : forall r1 rest, rb' = r1 :: rest -> byte_at sg 5 = b2z r1).
  { intros r1 rest E. rewrite Esg. unfold rb. rewrite E. reflexivity. }
  assert (AT : forall j, byte_at sg (lr + 4 + Z.of_nat j) = b2z (nth j tl x00)).
  { intros j. unfold byte_at. replace (Z.to_nat (lr + 4 + Z.of_nat j)) with (4 + length rb + j)%nat by (unfold lr; lia).
    rewrite Esg. now rewrite nth_after. }
  assert (B0 : byte_at sg (lr + 4) = 2).
  { replace (lr + 4) with (lr + 4 + Z.of_nat 0) by lia. rewrite AT. reflexivity. }
  assert (B1 : byte_at sg (5 + lr) = ls).
  { replace (5 + lr) with (lr + 4 + Z.of_nat 1) by lia. rewrite AT. unfold tl. cbn [nth]. apply b2z_z2b. lia. }
  assert (B2 : byte_at sg (lr + 6) = b2z s0).
  { replace (lr + 6) with (lr + 4 + Z.of_nat 2) by lia. rewrite AT. reflexivity. }
  assert (B3 : forall s1 rest, sb' = s1 :: rest -> byte_at sg (lr + 7) = b2z s1).
  { intros s1 rest E. replace (lr + 7) with (lr + 4 + Z.of_nat 3) by lia. rewrite AT. unfold tl, sb. rewrite E.
    reflexivity. }
  unfold bip66_valid. fold sg. cbv zeta. rewrite Hsize, A0, A1, A2, A3, A4, B0, B1, B2.
  apply if_false_chain; [apply Z.ltb_ge; lia|].
  apply if_false_chain; [rewrite Z.gtb_ltb; apply Z.ltb_ge; lia|].
  apply if_false_chain; [reflexivity|].
  apply if_false_chain; [apply negb_false_iff, Z.eqb_eq; lia|].
  apply if_false_chain; [rewrite Z.geb_leb; apply Z.leb_gt; lia|].
  apply if_false_chain; [apply negb_false_iff, Z.eqb_eq; lia|].
  apply if_false_chain; [reflexivity|].
  apply if_false_chain; [apply Z.eqb_neq; lia|].
  apply if_false_chain; [apply Z.leb_gt; lia|].
  apply if_false_chain.
  { destruct (b2z r0 =? 0) eqn:E0; [|now rewrite andb_false_r].
    apply Z.eqb_eq in E0. destruct (Cr2 E0) as (r1 & rest & E & H1). rewrite (A5 r1 rest E).
    destruct (Z.leb_spec 128 (b2z r1)); [|lia]. now rewrite andb_false_r. }
  apply if_false_chain; [reflexivity|].
  apply if_false_chain; [apply Z.eqb_neq; lia|].
  apply if_false_chain; [apply Z.leb_gt; lia|].
  apply if_false_chain.
  { destruct (b2z s0 =? 0) eqn:E0; [|now rewrite andb_false_r].
    apply Z.eqb_eq in E0. destruct (Cs2 E0) as (s1 & rest & E & H1). rewrite (B3 s1 rest E).
    destruct (Z.leb_spec 128 (b2z s1)); [|lia]. now rewrite andb_false_r. }
  reflexivity.
Qed.

Lemma der_strict : forall r s flag, 1 <= r < 2^256 -> 1 <= s < 2^256 ->
  exists der, der_encode_sig r s = Ok der /\ bip66_valid (der ++ [flag]) = true.
Proof.
  intros r s flag Hr Hs.
  destruct (int_min_bytes_256 r Hr) as (rb & Er & _ & Cr).
  destruct (int_min_bytes_256 s Hs) as (sb & Es & _ & Cs).
  exists (der_layout rb sb). split; [|apply bip66_layout; assumption].
  destruct Cr as [Lr _], Cs as [Ls _]. apply der_encode_layout; auto; lia.
Qed.

(* ---------- utils.sig: decomposition and the sighash-flag suffix ---------- *)
(* the two [match]es of Model.Der.sig, named *)
Definition sig_pre (msg : bytes) (flag : option Z) (preimage : bool) : result (bytes * option Z) :=
  match flag, preimage with
  | Some f, false => bind (to_le_chk 4 f) (fun f4 => Ok (msg ++ f4, None))
  | Some f, true => let sh := of_le (lastn 4 msg) in if sh =? f then Ok (msg, Some sh) else Err AssertionE
  | None, true => Ok (msg, Some (of_le (lastn 4 msg)))
  | None, false => Ok (msg, None)
  end.
Definition sig_suffix (flag sh : option Z) : result bytes :=
  match flag, sh with
  | Some f, _ => to_le_chk 1 f
  | None, Some h => to_le_chk 1 h
  | None, None => Ok []
  end.

Lemma sig_unfold p a n G sha256 draws key msg flag preimage :
  sig p a n G sha256 draws key msg flag preimage =
  bind (sig_pre msg flag preimage) (fun pre =>
  bind (privkey_int n key) (fun d =>
  bind (sign_with p a n G draws d (of_be (hash256 sha256 (fst pre)))) (fun rs =>
  bind (der_encode_sig (fst (fst rs)) (snd (fst rs))) (fun der =>
  bind (sig_suffix flag (snd pre)) (fun suffix => Ok (der ++ suffix, snd rs)))))).
Proof.
  unfold sig. fold (sig_pre msg flag preimage). destruct (sig_pre msg flag preimage) as [[m sh]|e]; [|reflexivity].
  cbn [bind fst snd]. destruct (privkey_int n key) as [d|e]; [|reflexivity]. cbn [bind].
  destruct (sign_with p a n G draws d (of_be (hash256 sha256 m))) as [[[r s] rest]|e]; reflexivity.
Qed.

Lemma sig_ok_inv p a n G sha256 draws key msg flag preimage sg rest :
  sig p a n G sha256 draws key msg flag preimage = Ok (sg, rest) ->
  exists m sh d r s der suffix,
    sig_pre msg flag preimage = Ok (m, sh) /\ privkey_int n key = Ok d /\
    sign_with p a n G draws d (of_be (hash256 sha256 m)) = Ok (r, s, rest) /\
    der_encode_sig r s = Ok der /\ sig_suffix flag sh = Ok suffix /\ sg = der ++ suffix.
Proof.
  rewrite sig_unfold. intros H.
  apply bind_ok in H as ([m sh] & E1 & H). apply bind_ok in H as (d & E2 & H).
  apply bind_ok in H as ([[r s] rest'] & E3 & H). cbn [fst snd] in *.
  apply bind_ok in H as (der & E4 & H). apply bind_ok in H as (suffix & E5 & H).
  injection H as <- <-. exists m, sh, d, r, s, der, suffix. repeat split; assumption.
Qed.

Lemma der_to_le_chk_1 z : 0 <= z < 256 -> to_le_chk 1 z = Ok [z2b z].
Proof.
  intros H. unfold to_le_chk. change (256 ^ Z.of_nat 1) with 256.
  destruct (Z.leb_spec 0 z); [|lia]. destruct (Z.ltb_spec z 256); [|lia]. reflexivity.
Qed.

Lemma der_to_le_chk_1_overflow z : 256 <= z -> to_le_chk 1 z = Err OverflowE.
Proof.
  intros H. unfold to_le_chk. change (256 ^ Z.of_nat 1) with 256.
  destruct (Z.ltb_spec z 256); [lia|]. now rewrite andb_false_r.
Qed.

(* sig(key, msg, sighash_flag=f[, msg_preimage]) = DER signature followed by the flag byte *)
Lemma sig_flag_suffix p a n G sha256 draws key msg f pre sg rest :
  sig p a n G sha256 draws key msg (Some f) pre = Ok (sg, rest) -> 0 <= f < 256 ->
  exists der, sg = der ++ [z2b f].
Proof.
  intros H Hf. apply sig_ok_inv in H as (m & sh & d & r & s & der & suffix & _ & _ & _ & _ & E5 & ->).
  cbn [sig_suffix] in E5. rewrite (der_to_le_chk_1 f Hf) in E5. injection E5 as <-. now exists der.
Qed.

(* the same with the DER part identified *)
Lemma sig_flag_suffix_der p a n G sha256 draws key msg f pre sg rest :
  sig p a n G sha256 draws key msg (Some f) pre = Ok (sg, rest) -> 0 <= f < 256 ->
  exists m d r s der,
    privkey_int n key = Ok d /\ sign_with p a n G draws d (of_be (hash256 sha256 m)) = Ok (r, s, rest) /\
    m = (if pre then msg else msg ++ to_le 4 f) /\
    der_encode_sig r s = Ok der /\ sg = der ++ [z2b f].
Proof.
  intros H Hf. apply sig_ok_inv in H as (m & sh & d & r & s & der & suffix & E1 & E2 & E3 & E4 & E5 & ->).
  cbn [sig_suffix] in E5. rewrite (der_to_le_chk_1 f Hf) in E5. injection E5 as <-.
  exists m, d, r, s, der. repeat split; try assumption.
  destruct pre; cbn [sig_pre] in E1.
  - cbv zeta in E1. destruct (of_le (lastn 4 msg) =? f); [|discriminate]. now injection E1 as <- _.
  - unfold to_le_chk in E1. change (256 ^ Z.of_nat 4) with 4294967296 in E1.
    destruct (Z.leb_spec 0 f); [|lia]. destruct (Z.ltb_spec f 4294967296); [|lia].
    cbn [andb bind] in E1. now injection E1 as <- _.
Qed.

(* preimage mode without an explicit flag: the flag byte is read from the last four bytes of the preimage *)
Lemma sig_preimage_flag_suffix p a n G sha256 draws key msg sg rest :
  sig p a n G sha256 draws key msg None true = Ok (sg, rest) ->
  of_le (lastn 4 msg) < 256 /\ exists der, sg = der ++ [z2b (of_le (lastn 4 msg))].
Proof.
  intros H. apply sig_ok_inv in H as (m & sh & d & r & s & der & suffix & E1 & _ & _ & _ & E5 & ->).
  cbn [sig_pre] in E1. injection E1 as <- <-. cbn [sig_suffix] in E5.
  assert (N : 0 <= of_le (lastn 4 msg)) by (unfold of_le; apply of_be_nonneg).
  destruct (Z.lt_ge_cases (of_le (lastn 4 msg)) 256) as [Hlt|Hge].
  - split; [exact Hlt|]. rewrite der_to_le_chk_1 in E5 by lia. injection E5 as <-. now exists der.
  - rewrite der_to_le_chk_1_overflow in E5 by lia. discriminate.
Qed.

(* ... and a sighash type that does not fit one byte is never signed; when the signing itself succeeds the
   exception is the OverflowError of sighash_flag.to_bytes(1, "little") *)
Lemma sig_preimage_flag_overflow p a n G sha256 draws key msg :
  256 <= of_le (lastn 4 msg) ->
  (exists e, sig p a n G sha256 draws key msg None true = Err e) /\
  (forall d r s rest der, privkey_int n key = Ok d ->
     sign_with p a n G draws d (of_be (hash256 sha256 msg)) = Ok (r, s, rest) ->
     der_encode_sig r s = Ok der ->
     sig p a n G sha256 draws key msg None true = Err OverflowE).
Proof.
  intros Hge. split.
  - destruct (sig p a n G sha256 draws key msg None true) as [[sg rest]|e] eqn:E; [|now exists e].
    apply sig_preimage_flag_suffix in E as [Hlt _]. lia.
  - intros d r s rest der E2 E3 E4. rewrite sig_unfold. cbn [sig_pre bind fst snd].
    rewrite E2. cbn [bind]. rewrite E3. cbn [bind fst snd]. rewrite E4. cbn [bind sig_suffix].
    rewrite der_to_le_chk_1_overflow by lia. reflexivity.
Qed.

(* ---------- utils.ensure_sig_low_s ---------- *)
Lemma ensure_low_s_spec n r s sg : 2 < n <= 2 ^ 256 ->
  1 <= r < 2^256 -> 1 <= s < n -> der_encode_sig r s = Ok sg ->
  exists out, ensure_sig_low_s n sg = Ok out /\
    exists s', (s' = s \/ s' = n - s) /\ 1 <= s' <= n / 2 /\ der_decode_sig out = Ok (r, s') /\
               (forall flag, bip66_valid (out ++ [flag]) = true).
Proof.
  intros Hn Hr Hs E.
  assert (Hs' : 1 <= s < 2 ^ 256) by lia.
  destruct (der_roundtrip r s Hr Hs') as (der & E' & D). rewrite E in E'. injection E' as <-.
  unfold ensure_sig_low_s. rewrite D. cbn [bind].
  destruct (Z.ltb_spec s 1) as [|_]; [lia|]. rewrite orb_false_r.
  assert (Hhalf : n - 1 <= 2 * (n / 2) <= n).
  { pose proof (Z.div_mod n 2 ltac:(lia)). pose proof (Z.mod_pos_bound n 2 ltac:(lia)). lia. }
  rewrite Z.gtb_ltb. destruct (Z.ltb_spec (n / 2) s) as [Hhi|Hlo].
  - unfold sub_mod_p, inF. destruct (Z.leb_spec 0 0); [|lia]. destruct (Z.ltb_spec 0 n); [|lia].
    destruct (Z.leb_spec 0 s); [|lia]. destruct (Z.ltb_spec s n); [|lia]. cbn [andb negb bind].
    assert (Em : (0 - s) mod n = n - s).
    { symmetry. apply (Z.mod_unique (0 - s) n (-1) (n - s)); [left|]; lia. }
    rewrite Em. assert (Hs2 : 1 <= n - s < 2 ^ 256) by lia.
    destruct (der_roundtrip r (n - s) Hr Hs2) as (out & Eo & Do).
    exists out. split; [exact Eo|]. exists (n - s). split; [now right|]. split; [lia|]. split; [exact Do|].
    intros flag. destruct (der_strict r (n - s) flag Hr Hs2) as (out' & Eo' & V).
    rewrite Eo in Eo'. injection Eo' as <-. exact V.
  - exists sg. split; [reflexivity|]. exists s. split; [now left|]. split; [lia|]. split; [exact D|].
    intros flag. destruct (der_strict r s flag Hr Hs') as (out' & Eo' & V).
    rewrite E in Eo'. injection Eo' as <-. exact V.
Qed.

(* ---------- concrete vectors ---------- *)
Definition der_check (r s : Z) (expect : bytes) : bool :=
  match der_encode_sig r s with
  | Ok der => bytes_eqb der expect && bip66_valid (der ++ [x01]) &&
              match der_decode_sig der with Ok (r', s') => (r' =? r) && (s' =? s) | Err _ => false end
  | Err _ => false
  end.

Example der_ex_1_1 : der_check 1 1 [x30; x06; x02; x01; x01; x02; x01; x01] = true.
Proof. vm_compute. reflexivity. Qed.
Example der_ex_127_128 : der_check 127 128 [x30; x07; x02; x01; x7f; x02; x02; x00; x80] = true.
Proof. vm_compute. reflexivity. Qed.
Example der_ex_255_256 : der_check 255 256 [x30; x08; x02; x02; x00; xff; x02; x02; x01; x00] = true.
Proof. vm_compute. reflexivity. Qed.
(* r = 2^255 has its top bit set: 32 content bytes + the 00 pad *)
Example der_ex_2p255 :
  der_check (2 ^ 255) 127 ([x30; x26; x02; x21; x00; x80] ++ repeat x00 31 ++ [x02; x01; x7f]) = true.
Proof. vm_compute. reflexivity. Qed.
(* the largest values of the domain: 33-byte contents, 72 bytes in total (73 with the sighash byte) *)
Example der_ex_max :
  der_check (2 ^ 256 - 1) (2 ^ 256 - 1)
            ([x30; x46; x02; x21; x00] ++ repeat xff 32 ++ [x02; x21; x00] ++ repeat xff 32) = true
  /\ rmap (@length byte) (der_encode_sig (2 ^ 256 - 1) (2 ^ 256 - 1)) = Ok 72%nat.
Proof. split; vm_compute; reflexivity. Qed.
Example int_min_bytes_ex :
  int_min_bytes 127 = Ok [x7f] /\ int_min_bytes 128 = Ok [x00; x80] /\ int_min_bytes 255 = Ok [x00; xff] /\
  int_min_bytes 256 = Ok [x01; x00] /\ int_min_bytes 32768 = Ok [x00; x80; x00].
Proof. repeat split; vm_compute; reflexivity. Qed.
(* outside the domain of the theorems: r = 0 raises IndexError (r_bytes[0] of b""), negative OverflowError *)
Example der_ex_zero : der_encode_sig 0 1 = Err IndexE /\ der_encode_sig 1 0 = Err IndexE /\
                      der_encode_sig (-1) 1 = Err OverflowE.
Proof. repeat split; vm_compute; reflexivity. Qed.

(* bip66_valid is not trivially true: padded, negative, truncated, wrong-length encodings are rejected *)
Example bip66_rejects :
  bip66_valid [x30; x07; x02; x02; x00; x01; x02; x01; x01; x01] = false /\   (* superfluous 00 in R *)
  bip66_valid [x30; x06; x02; x01; x80; x02; x01; x01; x01] = false /\        (* negative R *)
  bip66_valid [x30; x06; x02; x01; x01; x02; x01; x80; x01] = false /\        (* negative S *)
  bip66_valid [x30; x06; x02; x00; x02; x02; x00; x80; x01] = false /\        (* empty R *)
  bip66_valid [x30; x07; x02; x01; x01; x02; x01; x01; x01] = false /\        (* wrong total length *)
  bip66_valid [x30; x06; x02; x01; x01; x02; x01; x01] = false /\             (* sighash byte missing *)
  bip66_valid [x30; x06; x02; x01; x01; x02; x01; x01; x01] = true.
Proof. repeat split; vm_compute; reflexivity. Qed.

(* ensure_sig_low_s with the secp256k1 group order: s = n - 1 becomes 1, a low s is left alone *)
Definition der_ex_n : Z := 0xFFFFFFFFFFFFFFFFFFFFFFFFFFFFFFFEBAAEDCE6AF48A03BBFD25E8CD0364141.
Example ensure_low_s_ex :
  2 < der_ex_n <= 2 ^ 256 /\
  bind (der_encode_sig 5 (der_ex_n - 1)) (ensure_sig_low_s der_ex_n) = der_encode_sig 5 1 /\
  bind (der_encode_sig 5 (der_ex_n / 2)) (ensure_sig_low_s der_ex_n) = der_encode_sig 5 (der_ex_n / 2) /\
  bind (der_encode_sig 5 (der_ex_n / 2 + 1)) (ensure_sig_low_s der_ex_n) = der_encode_sig 5 (der_ex_n / 2).
Proof. split; [vm_compute; split; congruence|]. repeat split; vm_compute; reflexivity. Qed.
