(* C16, send_valid in the template form, part 7: the segwit kinds p2wpkh, p2sh-p2wpkh, p2wsh, p2sh-p2wsh. *)
From Coq Require Import ZArith List Lia Bool.
From Coq Require Import Floats.SpecFloat.
Require Import Bits.Lib.Result Bits.Lib.Bytes Bits.Lib.PyStr Bits.Lib.CompactSize.
Require Import Bits.Spec.Bip66 Bits.Spec.Bip143 Bits.Spec.Sighash Bits.Spec.ScriptTemplatesDecode.
Require Import Bits.Model.Ecmath Bits.Model.SendValue Bits.Model.Send Bits.Model.Script.
Require Import Bits.Proofs.Ecdsa Bits.Proofs.Sec1 Bits.Proofs.ScriptWitness.
Require Import Bits.Proofs.SendValue Bits.Proofs.Send Bits.Proofs.SendSign Bits.Proofs.SendValid.
Require Import Bits.Proofs.SendUnlocks Bits.Proofs.SendUnlocks2 Bits.Proofs.SendUnlocks3 Bits.Proofs.SendUnlocks4
        Bits.Proofs.SendUnlocks5.
Require Bits.Model.Tx Bits.Proofs.CompactSize.
Import ListNotations.
Import Coq.Init.Byte.
Local Open Scope Z_scope.
Local Open Scope result_scope.

(* the dummy argument / item as a function of the committed script *)
Definition dargs_of (s : inner_script) : list bytes := match s with I_multisig _ _ => [s_OP_0] | _ => [] end.
Definition ditems_of (s : inner_script) : list bytes := match s with I_multisig _ _ => [[]] | _ => [] end.

Section Cases.
  Variables p a b n : Z.
  Variable G : point.
  Variable sha256 ripemd160 : bytes -> bytes.
  Variable scriptpubkey : bytes -> result bytes.
  Variable is_address : bytes -> bool.
  Hypothesis facts : curve_facts p a b n G.
  Hypothesis SQ : sqrt_facts p.
  Hypothesis Hpw : p <= 2 ^ 256.
  Hypothesis Hnw : n <= 2 ^ 256.
  Hypothesis Hr160 : forall m, length (ripemd160 m) = 20%nat.
  Hypothesis Hs256 : forall m, length (sha256 m) = 32%nat.

  Variable sats : utxo -> Z.
  Variables sender recipient : bytes.
  Variable change : option bytes.
  Variables (f : Z) (frac : spec_float) (fee version locktime : Z) (total : spec_float) (unspents : list utxo).
  Variables (draws : list Z) (raw : bytes) (k : keyinfo) (u : unsigned) (sigs : list (list bytes)).
  Variables (left : bytes) (sss witb txins' : list bytes) (ul : utxo) (txl : bytes).

  Notation lss := (loop_scriptsig p a n G sha256 ripemd160).
  Notation sel_in := (selected_input p a n G sha256 ripemd160).
  Notation pays := (pays_to p a b n G sha256 ripemd160).
  Notation owned := (redeem_owned p a b n G).
  Notation concl := (send_unlocks_concl p a b n G sha256 ripemd160 sats k u version locktime raw).
  Notation nins := (length (us_selected u)).
  Notation h160_ := (hash160 sha256 ripemd160).
  Notation ecdsa_ := (ecdsa_ok p a b n G).
  Notation unlocks_ := (unlocks sha256 ripemd160 ecdsa_ bip66_valid decode_inner).
  Notation wunlocks_ := (witness_unlocks sha256 ripemd160 ecdsa_ bip66_valid decode_inner).

  Hypothesis Hb : build_unsigned p a n G sha256 ripemd160 scriptpubkey is_address sender recipient change (Some k) frac fee total
                                 unspents = Ok u.
  Hypothesis Hsign : sign_inputs p a n G sha256 ripemd160 k (Some f) version locktime u draws = Ok sigs.
  Hypothesis Hul : In (ul, txl) (us_selected u).
  Hypothesis Hleft : lss (Some k) ul = Ok left.
  Hypothesis Hasm : assemble p a n G k (Some left) nins sigs = Ok (sss, witb).
  Hypothesis Hreb : rebuild_txins (map snd (us_selected u)) sss = Ok txins'.
  Hypothesis Hraw : Bits.Model.Tx.tx_raw txins' (us_txouts u) version locktime witb = Ok raw.
  Hypothesis Hun : forall x, In x unspents ->
                     length (u_txid x) = 32%nat /\ sat_of_btc (u_amount x) = Ok (sats x) /\ 0 <= sats x < 2 ^ 64.
  Hypothesis Rv : 0 <= version < 2 ^ 32.
  Hypothesis Rl : 0 <= locktime < 2 ^ 32.
  Hypothesis Hf : standard_flag f.
  Hypothesis Hpays : forall x, In x unspents -> pays k (u_spk x).

  Lemma kind_of_ty kd : ki_type k = kind_name kd -> kind_of (ki_type k) = Some kd.
  Proof. intros ->. apply kind_of_name. Qed.

  Lemma ul_unspent : In ul unspents.
  Proof.
    pose proof (build_selected _ _ _ _ _ _ _ _ _ _ _ _ _ _ _ _ _ Hb) as Hsel. rewrite Forall_forall in Hsel.
    apply (Hsel _ Hul).
  Qed.

  Lemma finish_segwit script wstacks :
    segwit_kind k = true ->
    scriptcode_of p a n G sha256 ripemd160 k = Ok (ser_script script) -> Z.of_nat (length script) < 2 ^ 64 ->
    length sss = nins -> length wstacks = nins -> witb = map spec_witness wstacks ->
    (forall t' j xt sgs digest,
        nth_error (us_selected u) j = Some xt -> In (fst xt) unspents -> nth_error sigs j = Some sgs ->
        sighash sha256 t' j (sats (fst xt)) script f = Some digest ->
        Forall2 (valid_sig p a b n G digest f) (ki_keys k) sgs ->
        exists items wit l,
          nth_error sss j = Some (push_ser items) /\ Forall (fun d => lenZ d < 2 ^ 32) items /\
          nth_error wstacks j = Some wit /\ lock_of (u_spk (fst xt)) = Some l /\
          unlocks_ t' j (sats (fst xt)) l items wit) ->
    concl.
  Proof.
    intros Hseg Hsc Lsc Lsss Lw Ew H.
    apply (finish p a b n G sha256 ripemd160 scriptpubkey is_address facts sats sender recipient change f frac fee version
                  locktime total unspents draws raw k u sigs sss witb txins' script wstacks); auto.
    - intros E. rewrite E in Hul. exact Hul.
    - rewrite Hseg. exact Ew.
    - intros t t' j xt i sgs digest _ Hj Hin _ Es Hd Hv. rewrite Hseg in Hd.
      apply (H t' j xt sgs digest Hj Hin Es Hd Hv).
  Qed.

  Lemma sign_scriptcode : segwit_kind k = true -> exists sc, scriptcode_of p a n G sha256 ripemd160 k = Ok sc.
  Proof.
    intros Hseg. pose proof Hsign as H. unfold sign_inputs in H. fold (segwit_kind k) in H. rewrite Hseg in H.
    apply bind_ok in H as (sc & Hsc & _). now exists sc.
  Qed.

  (* ---------------------------------------------------------------- the two P2WPKH kinds *)
  Lemma wpkh_core (items_left : list bytes) (lk : lock) (ws : list bytes) k0 pk :
    segwit_kind k = true -> is_kind (ki_type k) [k_p2wpkh; k_p2sh_p2wpkh] = true ->
    for_inputs nins 0 (fun i => sgs <- nth_r sigs i ;; s0 <- hd_r sgs ;; k0 <- hd_r (ki_keys k) ;; pk <- pub p a n G k0 true ;;
                                script_w [hex_of_bytes s0; hex_of_bytes pk]) = Ok ws ->
    sss = repeat left nins -> witb = ws ->
    left = push_ser items_left -> Forall (fun d => lenZ d < 2 ^ 32) items_left ->
    hd_error (ki_keys k) = Some k0 -> pub p a n G k0 true = Ok pk ->
    (forall x, In x unspents -> lock_of (u_spk x) = Some lk) ->
    (forall t' j amt wit, wunlocks_ t' j amt (L_p2wpkh (h160_ pk)) wit -> unlocks_ t' j amt lk items_left wit) ->
    concl.
  Proof.
    intros Hseg Hk2 Hfor Esss Ewitb Eleft Hsmall Ek0 Hpk Hlock Hwrap.
    destruct (sign_scriptcode Hseg) as (sc & Hsc).
    destruct (scriptcode_wpkh p a n G sha256 ripemd160 Hr160 k sc Hk2 Hsc) as (k0' & pk' & Ek0' & Hpk' & -> & Lsc).
    rewrite Ek0 in Ek0'. injection Ek0' as <-. rewrite Hpk in Hpk'. injection Hpk' as <-.
    destruct (pub_inv p a b n G facts SQ Hpw k0 true pk Hpk) as (Kpk & Wpk).
    destruct (for_inputs_spec _ _ _ _ Hfor) as (Lws & Hnth).
    destruct (choice_list spec_witness ws
                (fun j w => exists sgs s0, nth_error sigs j = Some sgs /\ hd_error sgs = Some s0 /\ w = [s0; pk]))
      as (wstacks & Ews & Hws).
    { intros j x Hx. pose proof (nth_lt _ _ _ Hx) as Hlt. rewrite Lws in Hlt.
      destruct (Hnth j Hlt) as (x' & Ex' & Fx). rewrite Hx in Ex'. injection Ex' as <-. cbn [Nat.add] in Fx.
      apply bind_ok in Fx as (sgs & Hsgs & Fx). apply nth_r_inv in Hsgs.
      apply bind_ok in Fx as (s0 & Hs0 & Fx). apply hd_r_inv in Hs0.
      apply bind_ok in Fx as (k0' & Hk0' & Fx). apply hd_r_inv in Hk0'. rewrite Ek0 in Hk0'. injection Hk0' as <-.
      apply bind_ok in Fx as (pk' & Hpk' & Fx). rewrite Hpk in Hpk'. injection Hpk' as <-.
      exists [s0; pk]. split; [apply (script_w_data [s0; pk] x Fx)|]. exists sgs, s0. auto. }
    assert (Lw : length wstacks = nins) by (rewrite <- Lws, Ews, map_length; reflexivity).
    apply (finish_segwit (p2pkh_code (h160_ pk)) wstacks); auto.
    - rewrite Esss. apply repeat_length.
    - rewrite Ewitb. exact Ews.
    - intros t' j xt sgs digest Hj Hin Es Hd Hv.
      pose proof (nth_lt _ _ _ Hj) as Hlt.
      destruct (nth_error wstacks j) as [w|] eqn:Ew; [|apply nth_error_None in Ew; lia].
      destruct (Hws j w Ew) as (sgs' & s0 & Es' & Hs0 & ->). rewrite Es in Es'. injection Es' as <-.
      exists items_left, [s0; pk], lk.
      split; [rewrite Esss, Eleft; apply nth_error_repeat; exact Hlt|]. split; [exact Hsmall|].
      split; [reflexivity|]. split; [apply Hlock; exact Hin|].
      apply Hwrap. cbn [witness_unlocks]. exists s0, pk. split; [reflexivity|]. split; [reflexivity|].
      refine (proj1 (checksig_hd p a b n G Hnw (fun ht => sighash sha256 t' j (sats (fst xt)) (p2pkh_code (h160_ pk)) ht)
                                 digest f (ki_keys k) sgs k0 s0 pk Hf Hd Hv Ek0 Hs0 Kpk)).
  Qed.

  Lemma case_p2wpkh : ki_type k = k_p2wpkh -> concl.
  Proof.
    intros Hty.
    assert (Hseg : segwit_kind k = true) by (unfold segwit_kind; rewrite Hty; reflexivity).
    assert (Hk2 : is_kind (ki_type k) [k_p2wpkh; k_p2sh_p2wpkh] = true) by (rewrite Hty; reflexivity).
    assert (El : left = []).
    { pose proof Hleft as H. unfold loop_scriptsig in H. rewrite Hty in H.
      change (is_kind k_p2wpkh [k_p2pk; k_p2pkh; k_multisig]) with false in H.
      change (is_kind k_p2wpkh [k_p2sh]) with false in H. change (is_kind k_p2wpkh [k_p2sh_p2wpkh]) with false in H.
      change (is_kind k_p2wpkh [k_p2sh_p2wsh]) with false in H. cbv iota in H. now injection H as <-. }
    pose proof Hasm as Ha. unfold assemble in Ha. rewrite Hty in Ha. cbn [of_option bind] in Ha.
    change (bytes_eqb k_p2wpkh k_p2pk) with false in Ha. change (bytes_eqb k_p2wpkh k_multisig) with false in Ha.
    change (bytes_eqb k_p2wpkh k_p2pkh) with false in Ha.
    change (is_kind k_p2wpkh [k_p2wpkh; k_p2sh_p2wpkh]) with true in Ha. cbv iota in Ha.
    apply bind_ok in Ha as (ws & Hfor & Ha). injection Ha as Esss Ewitb. symmetry in Esss, Ewitb.
    pose proof (Hpays _ ul_unspent) as Hp. unfold pays_to in Hp. rewrite (kind_of_ty K_p2wpkh Hty) in Hp. destruct Hp as (k0 & pk & Ek0 & Hpk & _).
    apply (wpkh_core [] (L_p2wpkh (h160_ pk)) ws k0 pk); auto.
    - intros x Hin. pose proof (Hpays _ Hin) as Hp. unfold pays_to in Hp. rewrite (kind_of_ty K_p2wpkh Hty) in Hp. destruct Hp as (k0' & pk' & Ek0' & Hpk' & ->).
      rewrite Ek0 in Ek0'. injection Ek0' as <-. rewrite Hpk in Hpk'. injection Hpk' as <-.
      apply lock_of_p2wpkh. apply Hr160.
    - intros t' j amt wit Hw. cbn [unlocks]. split; [reflexivity|exact Hw].
  Qed.

  Lemma case_p2sh_p2wpkh : ki_type k = k_p2sh_p2wpkh -> concl.
  Proof.
    intros Hty.
    assert (Hseg : segwit_kind k = true) by (unfold segwit_kind; rewrite Hty; reflexivity).
    assert (Hk2 : is_kind (ki_type k) [k_p2wpkh; k_p2sh_p2wpkh] = true) by (rewrite Hty; reflexivity).
    pose proof (Hpays _ ul_unspent) as Hp. unfold pays_to in Hp. rewrite (kind_of_ty K_p2sh_p2wpkh Hty) in Hp. destruct Hp as (k0 & pk & Ek0 & Hpk & _).
    assert (Lh : length (h160_ pk) = 20%nat) by apply Hr160.
    assert (El : left = push_ser [spk_p2wpkh (h160_ pk)]).
    { pose proof Hleft as H. unfold loop_scriptsig in H. rewrite Hty in H.
      change (is_kind k_p2sh_p2wpkh [k_p2pk; k_p2pkh; k_multisig]) with false in H.
      change (is_kind k_p2sh_p2wpkh [k_p2sh]) with false in H.
      change (is_kind k_p2sh_p2wpkh [k_p2sh_p2wpkh]) with true in H. cbv iota in H.
      unfold hd_r in H. rewrite Ek0 in H. cbn [of_option bind] in H. rewrite Hpk in H. cbn [bind] in H.
      rewrite (p2wpkh_spk_20 _ Lh) in H. cbn [bind] in H.
      rewrite script_single in H by (unfold lenZ, spk_p2wpkh; cbn [app length]; rewrite Lh; lia). now injection H as <-. }
    pose proof Hasm as Ha. unfold assemble in Ha. rewrite Hty in Ha. cbn [of_option bind] in Ha.
    change (bytes_eqb k_p2sh_p2wpkh k_p2pk) with false in Ha. change (bytes_eqb k_p2sh_p2wpkh k_multisig) with false in Ha.
    change (bytes_eqb k_p2sh_p2wpkh k_p2pkh) with false in Ha.
    change (is_kind k_p2sh_p2wpkh [k_p2wpkh; k_p2sh_p2wpkh]) with true in Ha. cbv iota in Ha.
    apply bind_ok in Ha as (ws & Hfor & Ha). injection Ha as Esss Ewitb. symmetry in Esss, Ewitb.
    apply (wpkh_core [spk_p2wpkh (h160_ pk)] (L_p2sh (h160_ (spk_p2wpkh (h160_ pk)))) ws k0 pk); auto.
    - constructor; [|constructor]. unfold lenZ, spk_p2wpkh. cbn [app length]. rewrite Lh. lia.
    - intros x Hin. pose proof (Hpays _ Hin) as Hp. unfold pays_to in Hp. rewrite (kind_of_ty K_p2sh_p2wpkh Hty) in Hp. destruct Hp as (k0' & pk' & Ek0' & Hpk' & ->).
      rewrite Ek0 in Ek0'. injection Ek0' as <-. rewrite Hpk in Hpk'. injection Hpk' as <-.
      apply lock_of_p2sh. apply Hr160.
    - intros t' j amt wit Hw. cbn [unlocks]. exists [], (spk_p2wpkh (h160_ pk)). split; [reflexivity|]. split; [reflexivity|].
      right. exists (L_p2wpkh (h160_ pk)). split; [reflexivity|]. split; [reflexivity|exact Hw].
  Qed.

  (* ---------------------------------------------------------------- the two P2WSH kinds *)
  Lemma owned_dummy s : owned k s -> multisig_dummy (ki_redeem k) = Ok (dargs_of s) /\ decode_inner (ki_redeem k) = Some s.
  Proof.
    intros (W & Er & Hs). rewrite Er, (decode_enc_inner s W). split; [|reflexivity].
    destruct s as [pk|h|m pks]; [apply multisig_dummy_p2pk; exact W | contradiction | apply multisig_dummy_multisig; exact W].
  Qed.

  Lemma owned_unlocks s (dg : Z -> option bytes) digest sgs :
    owned k s -> dg f = Some digest -> Forall2 (valid_sig p a b n G digest f) (ki_keys k) sgs ->
    inner_unlocks sha256 ripemd160 ecdsa_ bip66_valid dg s (ditems_of s ++ sgs).
  Proof.
    intros Hown Hdg Hv.
    destruct (owned_inner_unlocks p a b n G sha256 ripemd160 Hnw k s dg digest f sgs Hown Hf Hdg Hv)
      as (dargs & ditems & Hd & Hcase & _ & Hin).
    destruct (owned_dummy s Hown) as (Hd' & _). rewrite Hd in Hd'. injection Hd' as ->.
    destruct s as [pk|h|m pks]; cbn [dargs_of ditems_of] in *; destruct Hcase as [(E1 & ->)|(E1 & ->)]; try discriminate; exact Hin.
  Qed.

  Lemma dummy_case s : (dargs_of s = [s_OP_0] /\ ditems_of s = [[]]) \/ (dargs_of s = [] /\ ditems_of s = []).
  Proof. destruct s; cbn; auto. Qed.

  Lemma wsh_core (items_left : list bytes) (lk : lock) (ws : list bytes) s :
    segwit_kind k = true -> is_kind (ki_type k) [k_p2wpkh; k_p2sh_p2wpkh] = false ->
    owned k s ->
    for_inputs nins 0 (fun i => sgs <- nth_r sigs i ;;
                                script_w (dargs_of s ++ map hex_of_bytes sgs ++ [hex_of_bytes (ki_redeem k)])) = Ok ws ->
    sss = repeat left nins -> witb = ws ->
    left = push_ser items_left -> Forall (fun d => lenZ d < 2 ^ 32) items_left ->
    (forall x, In x unspents -> lock_of (u_spk x) = Some lk) ->
    (forall t' j amt wit, wunlocks_ t' j amt (L_p2wsh (sha256 (ki_redeem k))) wit -> unlocks_ t' j amt lk items_left wit) ->
    concl.
  Proof.
    intros Hseg Hk2 Hown Hfor Esss Ewitb Eleft Hsmall Hlock Hwrap.
    destruct (sign_scriptcode Hseg) as (sc & Hsc).
    assert (Hsc' : scriptcode_of p a n G sha256 ripemd160 k = Ok (ser_script (ki_redeem k)) /\
                   Z.of_nat (length (ki_redeem k)) < 2 ^ 64).
    { pose proof Hsc as H. unfold scriptcode_of in H. rewrite Hk2 in H. apply bind_ok in H as (l & Hl & _).
      apply Bits.Proofs.CompactSize.compact_size_uint_inv in Hl as (R & _). unfold lenZ in R.
      split; [apply scriptcode_wsh; [exact Hk2|lia] | lia]. }
    destruct Hsc' as (Hsc' & Lsc).
    destruct (owned_dummy s Hown) as (_ & Hdec).
    destruct (for_inputs_spec _ _ _ _ Hfor) as (Lws & Hnth).
    destruct (choice_list spec_witness ws
                (fun j w => exists sgs, nth_error sigs j = Some sgs /\ w = ditems_of s ++ sgs ++ [ki_redeem k]))
      as (wstacks & Ews & Hws).
    { intros j x Hx. pose proof (nth_lt _ _ _ Hx) as Hlt. rewrite Lws in Hlt.
      destruct (Hnth j Hlt) as (x' & Ex' & Fx). rewrite Hx in Ex'. injection Ex' as <-. cbn [Nat.add] in Fx.
      apply bind_ok in Fx as (sgs & Hsgs & Fx). apply nth_r_inv in Hsgs.
      change [hex_of_bytes (ki_redeem k)] with (map hex_of_bytes [ki_redeem k]) in Fx. rewrite <- map_app in Fx.
      exists (ditems_of s ++ sgs ++ [ki_redeem k]). split; [apply (script_w_dummy_inv _ _ _ x (dummy_case s) Fx)|].
      exists sgs. auto. }
    assert (Lw : length wstacks = nins) by (rewrite <- Lws, Ews, map_length; reflexivity).
    apply (finish_segwit (ki_redeem k) wstacks); auto.
    - rewrite Esss. apply repeat_length.
    - rewrite Ewitb. exact Ews.
    - intros t' j xt sgs digest Hj Hin Es Hd Hv.
      pose proof (nth_lt _ _ _ Hj) as Hlt.
      destruct (nth_error wstacks j) as [w|] eqn:Ew; [|apply nth_error_None in Ew; lia].
      destruct (Hws j w Ew) as (sgs' & Es' & ->). rewrite Es in Es'. injection Es' as <-.
      exists items_left, (ditems_of s ++ sgs ++ [ki_redeem k]), lk.
      split; [rewrite Esss, Eleft; apply nth_error_repeat; exact Hlt|]. split; [exact Hsmall|].
      split; [reflexivity|]. split; [apply Hlock; exact Hin|].
      apply Hwrap. cbn [witness_unlocks]. exists (ditems_of s ++ sgs), (ki_redeem k), s.
      split; [now rewrite app_assoc|]. split; [reflexivity|]. split; [exact Hdec|].
      apply (owned_unlocks s (fun ht => sighash sha256 t' j (sats (fst xt)) (ki_redeem k) ht) digest sgs Hown Hd Hv).
  Qed.

  Lemma owned_same s s' : owned k s -> owned k s' -> s' = s.
  Proof.
    intros H H'. destruct (owned_dummy s H) as (_ & E). destruct (owned_dummy s' H') as (_ & E'). congruence.
  Qed.

  Lemma case_p2wsh : ki_type k = k_p2wsh -> concl.
  Proof.
    intros Hty.
    assert (Hseg : segwit_kind k = true) by (unfold segwit_kind; rewrite Hty; reflexivity).
    assert (Hk2 : is_kind (ki_type k) [k_p2wpkh; k_p2sh_p2wpkh] = false) by (rewrite Hty; reflexivity).
    assert (El : left = []).
    { pose proof Hleft as H. unfold loop_scriptsig in H. rewrite Hty in H.
      change (is_kind k_p2wsh [k_p2pk; k_p2pkh; k_multisig]) with false in H.
      change (is_kind k_p2wsh [k_p2sh]) with false in H. change (is_kind k_p2wsh [k_p2sh_p2wpkh]) with false in H.
      change (is_kind k_p2wsh [k_p2sh_p2wsh]) with false in H. cbv iota in H. now injection H as <-. }
    pose proof (Hpays _ ul_unspent) as Hp. unfold pays_to in Hp. rewrite (kind_of_ty K_p2wsh Hty) in Hp. destruct Hp as (s & Hown & _).
    destruct (owned_dummy s Hown) as (Hdum & _).
    pose proof Hasm as Ha. unfold assemble in Ha. rewrite Hty in Ha. cbn [of_option bind] in Ha.
    change (bytes_eqb k_p2wsh k_p2pk) with false in Ha. change (bytes_eqb k_p2wsh k_multisig) with false in Ha.
    change (bytes_eqb k_p2wsh k_p2pkh) with false in Ha.
    change (is_kind k_p2wsh [k_p2wpkh; k_p2sh_p2wpkh]) with false in Ha.
    change (is_kind k_p2wsh [k_p2sh; k_p2wsh; k_p2sh_p2wsh]) with true in Ha.
    change (bytes_eqb k_p2wsh k_p2sh) with false in Ha. cbv iota in Ha.
    rewrite Hdum in Ha. cbn [bind] in Ha.
    apply bind_ok in Ha as (ws & Hfor & Ha). injection Ha as Esss Ewitb. symmetry in Esss, Ewitb.
    apply (wsh_core [] (L_p2wsh (sha256 (ki_redeem k))) ws s); auto.
    - intros x Hin. pose proof (Hpays _ Hin) as Hp. unfold pays_to in Hp. rewrite (kind_of_ty K_p2wsh Hty) in Hp. destruct Hp as (s' & _ & ->). apply lock_of_p2wsh. apply Hs256.
    - intros t' j amt wit Hw. cbn [unlocks]. split; [reflexivity|exact Hw].
  Qed.

  Lemma case_p2sh_p2wsh : ki_type k = k_p2sh_p2wsh -> concl.
  Proof.
    intros Hty.
    assert (Hseg : segwit_kind k = true) by (unfold segwit_kind; rewrite Hty; reflexivity).
    assert (Hk2 : is_kind (ki_type k) [k_p2wpkh; k_p2sh_p2wpkh] = false) by (rewrite Hty; reflexivity).
    assert (Lh : length (sha256 (ki_redeem k)) = 32%nat) by apply Hs256.
    assert (El : left = push_ser [spk_p2wsh (sha256 (ki_redeem k))]).
    { pose proof Hleft as H. unfold loop_scriptsig in H. rewrite Hty in H.
      change (is_kind k_p2sh_p2wsh [k_p2pk; k_p2pkh; k_multisig]) with false in H.
      change (is_kind k_p2sh_p2wsh [k_p2sh]) with false in H. change (is_kind k_p2sh_p2wsh [k_p2sh_p2wpkh]) with false in H.
      change (is_kind k_p2sh_p2wsh [k_p2sh_p2wsh]) with true in H. cbv iota in H.
      rewrite (p2wsh_spk_32 _ Lh) in H. cbn [bind] in H.
      rewrite script_single in H by (unfold lenZ, spk_p2wsh; cbn [app length]; rewrite Lh; lia). now injection H as <-. }
    pose proof (Hpays _ ul_unspent) as Hp. unfold pays_to in Hp. rewrite (kind_of_ty K_p2sh_p2wsh Hty) in Hp. destruct Hp as (s & Hown & _).
    destruct (owned_dummy s Hown) as (Hdum & _).
    pose proof Hasm as Ha. unfold assemble in Ha. rewrite Hty in Ha. cbn [of_option bind] in Ha.
    change (bytes_eqb k_p2sh_p2wsh k_p2pk) with false in Ha. change (bytes_eqb k_p2sh_p2wsh k_multisig) with false in Ha.
    change (bytes_eqb k_p2sh_p2wsh k_p2pkh) with false in Ha.
    change (is_kind k_p2sh_p2wsh [k_p2wpkh; k_p2sh_p2wpkh]) with false in Ha.
    change (is_kind k_p2sh_p2wsh [k_p2sh; k_p2wsh; k_p2sh_p2wsh]) with true in Ha.
    change (bytes_eqb k_p2sh_p2wsh k_p2sh) with false in Ha. cbv iota in Ha.
    rewrite Hdum in Ha. cbn [bind] in Ha.
    apply bind_ok in Ha as (ws & Hfor & Ha). injection Ha as Esss Ewitb. symmetry in Esss, Ewitb.
    apply (wsh_core [spk_p2wsh (sha256 (ki_redeem k))] (L_p2sh (h160_ (spk_p2wsh (sha256 (ki_redeem k))))) ws s); auto.
    - constructor; [|constructor]. unfold lenZ, spk_p2wsh. cbn [app length]. rewrite Lh. lia.
    - intros x Hin. pose proof (Hpays _ Hin) as Hp. unfold pays_to in Hp. rewrite (kind_of_ty K_p2sh_p2wsh Hty) in Hp. destruct Hp as (s' & _ & ->). apply lock_of_p2sh. apply Hr160.
    - intros t' j amt wit Hw. cbn [unlocks]. exists [], (spk_p2wsh (sha256 (ki_redeem k))).
      split; [reflexivity|]. split; [reflexivity|].
      right. exists (L_p2wsh (sha256 (ki_redeem k))). split; [reflexivity|]. split; [reflexivity|exact Hw].
  Qed.
End Cases.
