(* parse_bech32: CPython's split/join/isupper/islower/lower as used by the code, connected to
   BIP173's "the last '1' is the separator", "no mixed case", "lowercase form". *)
From Coq Require Import ZArith List Lia Bool.
Require Import Bits.Lib.Result Bits.Lib.Bytes.
Require Import Bits.Spec.Bip173 Bits.Model.Base58 Bits.Model.Bech32.
Import ListNotations.
Local Open Scope Z_scope.

(* ---------- split at the last separator ---------- *)
Lemma byte_eqb_refl c : byte_eqb c c = true.
Proof. now apply byte_eqb_eq. Qed.

Lemma byte_eqb_sym a b : byte_eqb a b = byte_eqb b a.
Proof.
  destruct (byte_eqb a b) eqn:E, (byte_eqb b a) eqn:F; auto.
  - apply byte_eqb_eq in E. subst. now rewrite byte_eqb_refl in F.
  - apply byte_eqb_eq in F. subst. now rewrite byte_eqb_refl in E.
Qed.

Lemma byte_eqb_neq a b : byte_eqb a b = false <-> a <> b.
Proof.
  split.
  - intros H ->. now rewrite byte_eqb_refl in H.
  - intros H. destruct (byte_eqb a b) eqn:E; [|reflexivity]. apply byte_eqb_eq in E. contradiction.
Qed.

Lemma existsb_sep_In sep s : existsb (byte_eqb sep) s = true <-> In sep s.
Proof.
  rewrite existsb_exists. split.
  - intros (x & Hx & E). apply byte_eqb_eq in E. now subst.
  - intros H. exists sep. split; [assumption|apply byte_eqb_refl].
Qed.

(* python's split + join[:-1] + [-1] compute exactly the spec's split at the last separator *)
Lemma py_split_last_sep s :
  match split_last_sep s with
  | Some (h, d) =>
      (exists p q ps, py_split separator s = p :: q :: ps)
      /\ py_join separator (removelast (py_split separator s)) = h
      /\ last (py_split separator s) [] = d
      /\ existsb (byte_eqb separator) s = true
  | None => py_split separator s = [s] /\ existsb (byte_eqb separator) s = false
  end.
Proof.
  induction s as [|c r IH]; [cbn; auto|].
  cbn [split_last_sep py_split existsb]. rewrite (byte_eqb_sym separator c).
  destruct (split_last_sep r) as [[h d]|].
  - destruct IH as ((p & q & ps & E) & J & L & X). rewrite E in *. rewrite X, orb_true_r.
    destruct (byte_eqb c separator) eqn:C.
    + apply byte_eqb_eq in C. subst c. split; [eauto|]. split; [|split; [exact L|reflexivity]].
      change (removelast ([] :: p :: q :: ps)) with ([] :: removelast (p :: q :: ps)).
      change (removelast (p :: q :: ps)) with (p :: removelast (q :: ps)) in *.
      cbn [py_join app flat_map] in *. now rewrite J.
    + split; [eauto|]. split; [|split; [exact L|reflexivity]].
      change (removelast ((c :: p) :: q :: ps)) with ((c :: p) :: removelast (q :: ps)).
      change (removelast (p :: q :: ps)) with (p :: removelast (q :: ps)) in J.
      cbn [py_join app] in *. now rewrite J.
  - destruct IH as (E & X). rewrite E, X.
    destruct (byte_eqb c separator) eqn:C.
    + apply byte_eqb_eq in C. subst c. cbn. split; [eauto|auto].
    + cbn. auto.
Qed.

Lemma split_last_sep_none d : ~ In separator d -> split_last_sep d = None.
Proof.
  induction d as [|c d IH]; intros H; [reflexivity|].
  cbn [split_last_sep]. rewrite IH by (intros X; apply H; now right).
  destruct (byte_eqb c separator) eqn:C; [|reflexivity].
  apply byte_eqb_eq in C. subst. exfalso. apply H. now left.
Qed.

Lemma split_last_sep_app h d : ~ In separator d -> split_last_sep (h ++ separator :: d) = Some (h, d).
Proof.
  intros H. induction h as [|c h IH].
  - cbn [app split_last_sep]. now rewrite split_last_sep_none, byte_eqb_refl.
  - cbn [app split_last_sep]. now rewrite IH.
Qed.

Lemma split_last_sep_some s h d : split_last_sep s = Some (h, d) -> s = h ++ separator :: d /\ ~ In separator d.
Proof.
  revert h d. induction s as [|c r IH]; intros h d H; [discriminate|].
  cbn [split_last_sep] in H. destruct (split_last_sep r) as [[h' d']|] eqn:E.
  - injection H as <- <-. destruct (IH h' d' eq_refl) as (-> & N). split; [reflexivity|exact N].
  - destruct (byte_eqb c separator) eqn:C; [|discriminate]. injection H as <- <-.
    apply byte_eqb_eq in C. subst c. split; [reflexivity|].
    pose proof (py_split_last_sep r) as P. rewrite E in P. destruct P as (_ & X).
    intros I. apply existsb_sep_In in I. congruence.
Qed.

(* ---------- case ---------- *)
Lemma py_lower_spec s : py_lower s = lowercase s.
Proof. reflexivity. Qed.

Lemma case_letter_facts c :
  implb (is_lower (to_lower c)) (is_lower c || is_upper c) = true
  /\ implb (negb (is_upper c)) (byte_eqb (to_lower c) c) = true.
Proof. destruct c; vm_compute; auto. Qed.

Lemma to_lower_id c : is_upper c = false -> to_lower c = c.
Proof. intros H. unfold to_lower. now rewrite H. Qed.

Lemma lowercase_id s : existsb is_upper s = false -> lowercase s = s.
Proof.
  induction s as [|c s IH]; intros H; [reflexivity|].
  cbn [existsb] in H. apply orb_false_iff in H as [H1 H2].
  cbn [lowercase map]. fold (lowercase s). now rewrite to_lower_id, IH.
Qed.

(* a string whose lowercase form starts with a lowercase letter contains a letter *)
Lemma lowercase_head_letter s c t : lowercase s = c :: t -> is_lower c = true ->
  existsb is_upper s || existsb is_lower s = true.
Proof.
  destruct s as [|c0 s]; [discriminate|]. cbn [lowercase map]. intros H L. injection H as <- _.
  destruct (case_letter_facts c0) as [F _]. rewrite L in F. cbn [implb] in F.
  cbn [existsb]. destruct (is_lower c0), (is_upper c0); cbn in *; try discriminate; auto using orb_true_r.
Qed.

(* ---------- parse_bech32 as an equation over the spec's notions ---------- *)
Theorem parse_bech32_eq s :
  parse_bech32 s =
  if (lenZ s <=? max_len) && (py_isupper s || py_islower s) then
    match split_last_sep (lowercase s) with
    | Some (h, d) => if nonempty h then Ok (h, d) else Err AssertionE
    | None => Err AssertionE
    end
  else Err AssertionE.
Proof.
  unfold parse_bech32, bech32_max_len, bech32_separator.
  destruct (lenZ s <=? max_len); [|reflexivity].
  destruct (py_isupper s || py_islower s); [|reflexivity].
  cbn [andb assert_ bind]. rewrite py_lower_spec.
  pose proof (py_split_last_sep (lowercase s)) as P.
  destruct (split_last_sep (lowercase s)) as [[h d]|].
  - destruct P as (_ & J & L & X). rewrite X, J, L. cbn [assert_ bind].
    destruct (nonempty h); reflexivity.
  - destruct P as (_ & X). rewrite X. reflexivity.
Qed.

Lemma case_ok_not_mixed s : py_isupper s || py_islower s = true -> mixed_case s = false.
Proof.
  unfold py_isupper, py_islower, mixed_case.
  change ascii_upper with is_upper. change ascii_lower with is_lower.
  destruct (existsb is_upper s), (existsb is_lower s); cbn; congruence.
Qed.

Lemma not_mixed_case_ok s : mixed_case s = false -> existsb is_upper s || existsb is_lower s = true ->
  py_isupper s || py_islower s = true.
Proof.
  unfold py_isupper, py_islower, mixed_case.
  change ascii_upper with is_upper. change ascii_lower with is_lower.
  destruct (existsb is_upper s), (existsb is_lower s); cbn; congruence.
Qed.
