(* C20, configuration half: the Config that main() ends up with obeys
   explicit flag > config file (TOML over JSON when supported and present) > built-in default,
   for every option whose action is marked explicit; unknown keys are ignored. *)
From Coq Require Import ZArith List Lia Bool Arith.
Require Import Bits.Lib.Result Bits.Lib.Bytes.
Require Import Bits.Spec.Cli Bits.Model.Cli.
Import ListNotations.
Import Coq.Init.Byte.
Local Open Scope Z_scope.

(* ---------------------------------------------------------------------------------------- *)
(* association lists                                                                         *)
(* ---------------------------------------------------------------------------------------- *)
Lemma bytes_eqb_refl a : bytes_eqb a a = true.
Proof. now apply bytes_eqb_eq. Qed.

Lemma bytes_eqb_neq a b : a <> b -> bytes_eqb a b = false.
Proof. intros H. destruct (bytes_eqb a b) eqn:E; [|reflexivity]. apply bytes_eqb_eq in E. contradiction. Qed.

Lemma bytes_eqb_false a b : bytes_eqb a b = false -> a <> b.
Proof. intros E ->. rewrite bytes_eqb_refl in E. discriminate. Qed.

Lemma dget_app k a b : dget k (a ++ b) = match dget k a with Some v => Some v | None => dget k b end.
Proof.
  induction a as [|[k' v] a IH]; [reflexivity|]. cbn [app dget]. destruct (bytes_eqb k' k); [reflexivity|exact IH].
Qed.

Lemma dget_skip k l r : (forall kv, In kv l -> fst kv <> k) -> dget k (l ++ r) = dget k r.
Proof.
  induction l as [|[k' v] l IH]; intros H; [reflexivity|]. cbn [app dget].
  rewrite bytes_eqb_neq by (apply (H (k', v)); now left). apply IH. intros kv Hin. apply H. now right.
Qed.

Lemma dget_none k l : (forall kv, In kv l -> fst kv <> k) -> dget k l = None.
Proof. intros H. rewrite <- (app_nil_r l). rewrite dget_skip by assumption. reflexivity. Qed.

Lemma dget_in k l v : dget k l = Some v -> In (k, v) l.
Proof.
  induction l as [|[k' v'] l IH]; cbn [dget]; [discriminate|].
  destruct (bytes_eqb k' k) eqn:E.
  - intros H. injection H as <-. apply bytes_eqb_eq in E. subst. now left.
  - intros H. right. auto.
Qed.

Lemma dgetd_app k a b d : dgetd k (a ++ b) d = match dget k a with Some v => v | None => dgetd k b d end.
Proof. unfold dgetd. rewrite dget_app. destruct (dget k a); reflexivity. Qed.

Lemma dmem_app k a b : dmem k (a ++ b) = dmem k a || dmem k b.
Proof. unfold dmem. rewrite dget_app. destruct (dget k a); reflexivity. Qed.

(* a filter whose predicate only looks at the key *)
Lemma dget_filter_key (P : key -> bool) l k :
  dget k (filter (fun kv => P (fst kv)) l) = if P k then dget k l else None.
Proof.
  induction l as [|[k' v] l IH]; cbn [filter dget fst]; [now destruct (P k)|].
  destruct (bytes_eqb k' k) eqn:E.
  - apply bytes_eqb_eq in E. subst k'. destruct (P k) eqn:EP; cbn [dget]; [now rewrite bytes_eqb_refl|].
    rewrite IH. rewrite ?EP. reflexivity.
  - destruct (P k') eqn:EP'; cbn [dget]; rewrite ?E; exact IH.
Qed.

(* ---------------------------------------------------------------------------------------- *)
(* Config.__init__                                                                           *)
(* ---------------------------------------------------------------------------------------- *)
Section Pipeline.
Variable cfgd : dict.

Definition cfg_image (kw : dict) : dict := map (fun kd => (fst kd, dgetd (fst kd) kw (snd kd))) cfgd.

Lemma cfg_init_ok kw : dmem s_self kw = false -> cfg_init cfgd kw = Ok (cfg_image kw).
Proof. intros H. unfold cfg_init. now rewrite H. Qed.

Lemma dget_cfg_image_gen (l kw : dict) k :
  dget k (map (fun kd => (fst kd, dgetd (fst kd) kw (snd kd))) l)
  = match dget k l with Some d => Some (dgetd k kw d) | None => None end.
Proof.
  induction l as [|[k' d] l IH]; [reflexivity|]. cbn [map dget fst snd].
  destruct (bytes_eqb k' k) eqn:E; [|exact IH]. apply bytes_eqb_eq in E. now subst.
Qed.

Lemma dget_cfg_image kw k :
  dget k (cfg_image kw) = match dget k cfgd with Some d => Some (dgetd k kw d) | None => None end.
Proof. apply dget_cfg_image_gen. Qed.

Lemma dmem_cfg_image kw k : dmem k (cfg_image kw) = dmem k cfgd.
Proof. unfold dmem. rewrite dget_cfg_image. destruct (dget k cfgd); reflexivity. Qed.

Lemma cfg_image_keys kw : map fst (cfg_image kw) = map fst cfgd.
Proof. unfold cfg_image. rewrite map_map. reflexivity. Qed.

(* the image only depends on the bindings of Config's own keys *)
Lemma cfg_image_ext kw kw' :
  (forall k, In k (map fst cfgd) -> dget k kw = dget k kw') -> cfg_image kw = cfg_image kw'.
Proof.
  intros H. unfold cfg_image. apply map_ext_in. intros [k d] Hin. cbn [fst snd]. unfold dgetd.
  rewrite (H k); [reflexivity|]. apply in_map_iff. exists (k, d). auto.
Qed.

Definition known_only (d : dict) : dict := filter (fun kv => dmem (fst kv) cfgd) d.

Lemma dget_known_only d k : dget k (known_only d) = if dmem k cfgd then dget k d else None.
Proof. unfold known_only. apply (dget_filter_key (fun k => dmem k cfgd)). Qed.

(* the filter of load_config, applied to a Config object, keeps exactly the keys Config defines *)
Lemma filter_known kw d : filter (fun kv => dmem (fst kv) (cfg_image kw)) d = known_only d.
Proof. unfold known_only. apply filter_ext. intros kv. apply dmem_cfg_image. Qed.

Lemma dmem_known_only_self d : dmem s_self cfgd = false -> dmem s_self (known_only d) = false.
Proof. intros H. unfold dmem. rewrite dget_known_only, H. reflexivity. Qed.

Definition mark (ns : dict) (opt : key) : bool := truthy (dgetd (opt ++ s_explicit) ns (PBool false)).

Lemma dget_explicit_options ns k :
  dget k (explicit_options ns) = if mark ns k then dget k ns else None.
Proof. unfold explicit_options, mark. apply (dget_filter_key (fun k => truthy (dgetd (k ++ s_explicit) ns (PBool false)))). Qed.

(* ---------------------------------------------------------------------------------------- *)
(* Config( **ns) -> load_config -> update(explicit): the value of one option                 *)
(* ---------------------------------------------------------------------------------------- *)
Definition file_value (has_toml : bool) (ftoml fjson : option dict) (opt : key) : option pyval :=
  match spec_config_file has_toml ftoml fjson with Some d => dget opt d | None => None end.

Lemma select_file_spec has_toml ftoml fjson :
  select_file has_toml ftoml fjson = match spec_config_file has_toml ftoml fjson with Some d => d | None => [] end.
Proof. unfold select_file, spec_config_file. destruct has_toml, ftoml, fjson; reflexivity. Qed.

Lemma file_value_select has_toml ftoml fjson opt :
  file_value has_toml ftoml fjson opt = dget opt (select_file has_toml ftoml fjson).
Proof. unfold file_value. rewrite select_file_spec. destruct (spec_config_file has_toml ftoml fjson); reflexivity. Qed.

Lemma config_of_ns_spec has_toml ns ftoml fjson :
  dmem s_self cfgd = false -> dmem s_self ns = false ->
  exists c, config_of_ns cfgd has_toml ns ftoml fjson = Ok c
    /\ map fst c = map fst cfgd
    /\ forall opt d0, dget opt cfgd = Some d0 ->
         dget opt c = Some (match (if mark ns opt then dget opt ns else None) with
                            | Some v => v
                            | None => match dget opt (select_file has_toml ftoml fjson) with
                                      | Some v => v
                                      | None => dgetd opt ns d0
                                      end
                            end).
Proof.
  intros Hc Hns. unfold config_of_ns. rewrite cfg_init_ok by assumption.
  set (file := select_file has_toml ftoml fjson) in *.
  (* after load_config *)
  assert (L : exists c1, load_config cfgd has_toml ftoml fjson (cfg_image ns) = Ok c1
                /\ dmem s_self c1 = false /\ map fst c1 = map fst cfgd
                /\ forall opt d0, dget opt cfgd = Some d0 ->
                     dget opt c1 = Some (match dget opt file with Some v => v | None => dgetd opt ns d0 end)).
  { unfold load_config. fold file. destruct file as [|kv file'] eqn:Efile.
    - exists (cfg_image ns). cbn [dempty]. repeat split.
      + now rewrite dmem_cfg_image.
      + apply cfg_image_keys.
      + intros opt d0 Hd. rewrite dget_cfg_image, Hd. reflexivity.
    - rewrite <- Efile in *. replace (dempty file) with false by (rewrite Efile; reflexivity).
      unfold dupdate. rewrite filter_known.
      rewrite cfg_init_ok by (rewrite dmem_app, dmem_known_only_self, dmem_cfg_image; auto).
      exists (cfg_image (known_only file ++ cfg_image ns)). repeat split.
      + now rewrite dmem_cfg_image.
      + apply cfg_image_keys.
      + intros opt d0 Hd. rewrite dget_cfg_image, Hd, dgetd_app, dget_known_only. f_equal.
        unfold dmem. rewrite Hd.
        destruct (dget opt file); [reflexivity|]. unfold dgetd at 1. rewrite dget_cfg_image, Hd. reflexivity. }
  destruct L as (c1 & HL & Hs1 & Hk1 & Hv1). rewrite HL.
  unfold cfg_update, dupdate.
  assert (HsE : dmem s_self (explicit_options ns) = false).
  { unfold dmem. rewrite dget_explicit_options. unfold dmem in Hns.
    destruct (mark ns s_self); [exact Hns|reflexivity]. }
  rewrite cfg_init_ok by (rewrite dmem_app, HsE, Hs1; reflexivity).
  eexists. split; [reflexivity|]. split; [apply cfg_image_keys|].
  intros opt d0 Hd. rewrite dget_cfg_image, Hd, dgetd_app, dget_explicit_options. f_equal.
  destruct (if mark ns opt then dget opt ns else None); [reflexivity|].
  unfold dgetd at 1. rewrite (Hv1 opt d0 Hd). reflexivity.
Qed.

(* ---------------------------------------------------------------------------------------- *)
(* the namespace                                                                             *)
(* ---------------------------------------------------------------------------------------- *)
Definition accepts (p : parser) (opt : key) : Prop := exists a, In a p /\ a_dest a = opt.
Definition marks_explicit (p : parser) (opt : key) : Prop :=
  forall a, In a p -> a_dest a = opt -> a_explicit a = true.
(* a name that cannot be confused with opt's `__explicit` mark, nor be the mark of something called opt *)
Definition key_ok (opt k : key) : Prop := k <> opt ++ s_explicit /\ k ++ s_explicit <> opt.

Lemma app_explicit_neq (k : key) : k <> k ++ s_explicit.
Proof. intros E. apply (f_equal (@length _)) in E. rewrite app_length in E. cbn in E. lia. Qed.

Lemma explicit_not_self (k : key) : k ++ s_explicit <> s_self.
Proof. intros E. apply (f_equal (@length _)) in E. rewrite app_length in E. cbn in E. lia. Qed.

Lemma ns_entry_keys cv a kv : In kv (ns_entry cv a) ->
  fst kv = a_dest a \/ (fst kv = a_dest a ++ s_explicit /\ dget (a_dest a) cv <> None).
Proof.
  unfold ns_entry. destruct (dget (a_dest a) cv) as [v|].
  - destruct (a_explicit a); cbn [In]; intros [<- | H]; auto.
    + destruct H as [<- | []]. right. split; [reflexivity|discriminate].
    + destruct H.
  - cbn [In]. intros [<- | []]. now left.
Qed.

Lemma ns_given p cv opt v :
  (forall a, In a p -> key_ok opt (a_dest a)) -> accepts p opt -> marks_explicit p opt ->
  dget opt cv = Some v ->
  dget opt (ns_of_parser p cv) = Some v /\ dget (opt ++ s_explicit) (ns_of_parser p cv) = Some (PBool true).
Proof.
  intros Hok Hacc Hmark Hcv. unfold ns_of_parser.
  induction p as [|a p IH]; [destruct Hacc as (a & [] & _)|]. cbn [flat_map].
  destruct (bytes_eqb (a_dest a) opt) eqn:E.
  - apply bytes_eqb_eq in E. unfold ns_entry at 1 3. rewrite E, Hcv.
    rewrite (Hmark a (or_introl eq_refl) E). cbn [app dget].
    rewrite bytes_eqb_refl, (bytes_eqb_neq _ _ (app_explicit_neq opt)), bytes_eqb_refl. split; reflexivity.
  - apply bytes_eqb_false in E.
    assert (Hp : forall a', In a' p -> key_ok opt (a_dest a')) by (intros; apply Hok; now right).
    assert (Ha : accepts p opt).
    { destruct Hacc as (a' & [<- | Hin] & Hd); [contradiction|]. now exists a'. }
    assert (Hm : marks_explicit p opt) by (intros a' Hin; apply Hmark; now right).
    destruct (Hok a (or_introl eq_refl)) as [K1 K2].
    rewrite !dget_skip.
    + apply IH; assumption.
    + intros kv Hin. apply ns_entry_keys in Hin as [-> | [-> _]]; [assumption|].
      intros EE. apply app_inv_tail in EE. contradiction.
    + intros kv Hin. apply ns_entry_keys in Hin as [-> | [-> _]]; assumption.
Qed.

Lemma ns_not_given p cv opt :
  (forall a, In a p -> key_ok opt (a_dest a)) -> dget opt cv = None ->
  dget opt (ns_of_parser p cv) = dget opt (ns_of_parser p []) /\
  dget (opt ++ s_explicit) (ns_of_parser p cv) = None.
Proof.
  intros Hok Hcv. unfold ns_of_parser. induction p as [|a p IH]; [split; reflexivity|]. cbn [flat_map].
  assert (Hp : forall a', In a' p -> key_ok opt (a_dest a')) by (intros; apply Hok; now right).
  destruct (IH Hp) as [IH1 IH2]. destruct (Hok a (or_introl eq_refl)) as [K1 K2]. split.
  - destruct (bytes_eqb (a_dest a) opt) eqn:E.
    + apply bytes_eqb_eq in E. unfold ns_entry. rewrite E, Hcv. cbn [dget app]. now rewrite bytes_eqb_refl.
    + apply bytes_eqb_false in E. rewrite !dget_skip; [exact IH1| |].
      * intros kv Hin. apply ns_entry_keys in Hin as [-> | [-> _]]; assumption.
      * intros kv Hin. apply ns_entry_keys in Hin as [-> | [-> _]]; assumption.
  - rewrite dget_skip; [exact IH2|].
    intros kv Hin. apply ns_entry_keys in Hin as [-> | [-> Hg]]; [assumption|].
    intros EE. apply app_inv_tail in EE. rewrite EE in Hg. contradiction.
Qed.

Lemma ns_no_self p cv : (forall a, In a p -> a_dest a <> s_self) -> dget s_self (ns_of_parser p cv) = None.
Proof.
  intros H. apply dget_none. intros kv Hin. unfold ns_of_parser in Hin. apply in_flat_map in Hin as (a & Ha & Hkv).
  apply ns_entry_keys in Hkv as [-> | [-> _]]; [now apply H|apply explicit_not_self].
Qed.

Lemma find_action_in d p a : find_action d p = Some a -> In a p /\ a_dest a = d.
Proof.
  induction p as [|a' p IH]; cbn [find_action]; [discriminate|].
  destruct (bytes_eqb (a_dest a') d) eqn:E.
  - intros H. injection H as <-. apply bytes_eqb_eq in E. split; [now left|assumption].
  - intros H. destruct (IH H). split; [now right|assumption].
Qed.

Lemma convert_cli_accepts p cli cv opt v : convert_cli p cli = Ok cv -> dget opt cv = Some v -> accepts p opt.
Proof.
  revert cv. induction cli as [|[d arg] cli IH]; intros cv; cbn [convert_cli].
  - intros H. injection H as <-. discriminate.
  - destruct (find_action d p) as [a|] eqn:Ef; [|discriminate].
    destruct (arg_value a arg) as [v0|]; [|discriminate].
    destruct (convert_cli p cli) as [rest|] eqn:Er; [|discriminate].
    intros H. injection H as <-. cbn [dget]. destruct (bytes_eqb d opt) eqn:E.
    + intros _. apply bytes_eqb_eq in E. subst d. apply find_action_in in Ef as [Hin Hd]. now exists a.
    + intros Hg. eapply IH; eauto.
Qed.

(* ---------------------------------------------------------------------------------------- *)
(* the table                                                                                 *)
(* ---------------------------------------------------------------------------------------- *)
Definition parser_of (t : cli_table) (sub : bytes) : option parser :=
  if bytes_eqb sub [] then Some (t_base t) else find_sub sub (t_subs t).

(* no name in the namespace of `bits <sub>` can be confused with opt / its mark / "self" *)
Definition name_okb (opt k : key) : bool :=
  negb (bytes_eqb k (opt ++ s_explicit)) && negb (bytes_eqb (k ++ s_explicit) opt) && negb (bytes_eqb k s_self).
Definition wf_namesb (t : cli_table) (p : parser) (opt : key) : bool :=
  forallb (fun a => name_okb opt (a_dest a)) (t_base t) && forallb (fun a => name_okb opt (a_dest a)) p
  && name_okb opt (t_subdest t) && negb (bytes_eqb (t_subdest t) opt).

Lemma name_okb_spec opt k : name_okb opt k = true -> key_ok opt k /\ k <> s_self.
Proof.
  unfold name_okb. rewrite !andb_true_iff, !negb_true_iff. intros [[A B] C].
  repeat split; now apply bytes_eqb_false.
Qed.

Lemma wf_namesb_spec t p opt : wf_namesb t p opt = true ->
  (forall a, In a (t_base t) -> key_ok opt (a_dest a) /\ a_dest a <> s_self) /\
  (forall a, In a p -> key_ok opt (a_dest a) /\ a_dest a <> s_self) /\
  (key_ok opt (t_subdest t) /\ t_subdest t <> s_self) /\ t_subdest t <> opt.
Proof.
  unfold wf_namesb. rewrite !andb_true_iff, negb_true_iff. intros [[[A B] C] D].
  rewrite forallb_forall in A, B.
  split; [intros a Hin; apply name_okb_spec; apply A; exact Hin|].
  split; [intros a Hin; apply name_okb_spec; apply B; exact Hin|].
  split; [apply name_okb_spec; exact C|]. now apply bytes_eqb_false.
Qed.

(* the value in effect when neither the command line nor a file says anything *)
Definition builtin_default (t : cli_table) (sub : bytes) (opt : key) : pyval :=
  match namespace t sub [] with
  | Ok ns => dgetd opt ns (dgetd opt cfgd PNone)
  | Err _ => PNone
  end.

Lemma namespace_shape t sub p cli cv :
  parser_of t sub = Some p -> convert_cli p cli = Ok cv ->
  exists pre post,
    namespace t sub cli = Ok (pre ++ ns_of_parser p cv ++ post) /\
    namespace t sub [] = Ok (pre ++ ns_of_parser p [] ++ post) /\
    (pre = [] \/ pre = [(t_subdest t, PStr sub)]) /\
    (post = [] \/ post = ns_of_parser (t_base t) []).
Proof.
  unfold parser_of, namespace. intros Hp Hcv. destruct (bytes_eqb sub []) eqn:E.
  - injection Hp as <-. rewrite Hcv. exists [], []. cbn [convert_cli app]. rewrite !app_nil_r. auto.
  - rewrite Hp, Hcv. cbn [convert_cli]. unfold dupdate.
    exists [(t_subdest t, PStr sub)], (ns_of_parser (t_base t) []). cbn [app]. auto.
Qed.

Theorem precedence t has_toml sub p cli cv ftoml fjson opt :
  parser_of t sub = Some p ->
  convert_cli p cli = Ok cv ->
  wf_namesb t p opt = true -> dmem s_self cfgd = false ->
  dmem opt cfgd = true ->
  (dget opt cv <> None -> marks_explicit p opt) ->
  effective cfgd t has_toml sub cli ftoml fjson opt =
    Ok (spec_effective (dget opt cv) (file_value has_toml ftoml fjson opt) (builtin_default t sub opt)).
Proof.
  intros Hp Hcv Hwf Hcs Hopt Hmark.
  destruct (wf_namesb_spec _ _ _ Hwf) as (WB & WP & (WS & WS') & WSo).
  destruct (namespace_shape t sub p cli cv Hp Hcv) as (pre & post & Hns & Hns0 & Hpre & Hpost).
  unfold effective, main_config, builtin_default. rewrite Hns, Hns0.
  (* facts about pre / post *)
  assert (PreK : forall k, k <> t_subdest t -> dget k pre = None).
  { intros k Hk. destruct Hpre as [-> | ->]; [reflexivity|]. cbn [dget]. now rewrite bytes_eqb_neq by congruence. }
  assert (PostMark : dget (opt ++ s_explicit) post = None).
  { destruct Hpost as [-> | ->]; [reflexivity|].
    apply (ns_not_given (t_base t) [] opt); [intros a Hin; apply WB; exact Hin|reflexivity]. }
  assert (PostSelf : dget s_self post = None).
  { destruct Hpost as [-> | ->]; [reflexivity|]. apply ns_no_self. intros a Hin. now apply WB. }
  assert (NsSelf : forall cv', dmem s_self (pre ++ ns_of_parser p cv' ++ post) = false).
  { intros cv'. unfold dmem. rewrite !dget_app, PreK by (intros E; now apply WS').
    rewrite ns_no_self by (intros a Hin; now apply WP). now rewrite PostSelf. }
  destruct (config_of_ns_spec has_toml (pre ++ ns_of_parser p cv ++ post) ftoml fjson Hcs (NsSelf cv))
    as (c & Hc & _ & Hv).
  rewrite Hc. unfold dmem in Hopt. destruct (dget opt cfgd) as [d0|] eqn:Hd0; [|discriminate].
  unfold dgetd at 1. rewrite (Hv opt d0 Hd0). f_equal.
  rewrite file_value_select. unfold spec_effective, mark.
  assert (Kp : forall a, In a p -> key_ok opt (a_dest a)) by (intros a Hin; now apply WP).
  destruct (dget opt cv) as [v|] eqn:Hg.
  - (* given on the command line *)
    assert (Hacc : accepts p opt) by (eapply convert_cli_accepts; eauto).
    destruct (ns_given p cv opt v Kp Hacc (Hmark ltac:(discriminate)) Hg) as [G1 G2].
    unfold dgetd. rewrite !dget_app, !PreK by (intros E; (now apply WSo) || (now apply (proj1 WS))).
    rewrite G1, G2. reflexivity.
  - (* not given *)
    destruct (ns_not_given p cv opt Kp Hg) as [N1 N2].
    unfold dgetd at 1. rewrite !dget_app, PreK by (intros E; now apply (proj1 WS)).
    rewrite N2, PostMark. cbn [truthy].
    destruct (dget opt (select_file has_toml ftoml fjson)); [reflexivity|].
    unfold dgetd. rewrite !dget_app, N1. rewrite Hd0. reflexivity.
Qed.

(* the hypothesis is necessary: an option that is accepted but NOT marked explicit loses against the file *)
Theorem unmarked_loses_to_file t has_toml sub p cli cv ftoml fjson opt v fv :
  parser_of t sub = Some p ->
  convert_cli p cli = Ok cv ->
  wf_namesb t p opt = true -> dmem s_self cfgd = false ->
  dmem opt cfgd = true ->
  (forall a, In a p -> a_dest a = opt -> a_explicit a = false) ->
  dget opt cv = Some v -> file_value has_toml ftoml fjson opt = Some fv ->
  effective cfgd t has_toml sub cli ftoml fjson opt = Ok fv.
Proof.
  intros Hp Hcv Hwf Hcs Hopt Hun Hg Hf.
  destruct (wf_namesb_spec _ _ _ Hwf) as (WB & WP & (WS & WS') & WSo).
  destruct (namespace_shape t sub p cli cv Hp Hcv) as (pre & post & Hns & _ & Hpre & Hpost).
  unfold effective, main_config. rewrite Hns.
  assert (PreK : forall k, k <> t_subdest t -> dget k pre = None).
  { intros k Hk. destruct Hpre as [-> | ->]; [reflexivity|]. cbn [dget]. now rewrite bytes_eqb_neq by congruence. }
  assert (PostMark : dget (opt ++ s_explicit) post = None).
  { destruct Hpost as [-> | ->]; [reflexivity|].
    apply (ns_not_given (t_base t) [] opt); [intros a Hin; apply WB; exact Hin|reflexivity]. }
  assert (PostSelf : dget s_self post = None).
  { destruct Hpost as [-> | ->]; [reflexivity|]. apply ns_no_self. intros a Hin. now apply WB. }
  assert (NsSelf : dmem s_self (pre ++ ns_of_parser p cv ++ post) = false).
  { unfold dmem. rewrite !dget_app, PreK by (intros E; now apply WS').
    rewrite ns_no_self by (intros a Hin; now apply WP). now rewrite PostSelf. }
  destruct (config_of_ns_spec has_toml _ ftoml fjson Hcs NsSelf) as (c & Hc & _ & Hv).
  rewrite Hc. unfold dmem in Hopt. destruct (dget opt cfgd) as [d0|] eqn:Hd0; [|discriminate].
  unfold dgetd at 1. rewrite (Hv opt d0 Hd0). f_equal.
  rewrite file_value_select in Hf. rewrite Hf.
  (* the mark is absent *)
  assert (M : dget (opt ++ s_explicit) (ns_of_parser p cv) = None).
  { apply dget_none. intros kv Hin. unfold ns_of_parser in Hin. apply in_flat_map in Hin as (a & Ha & Hkv).
    destruct (WP a Ha) as [[K1 K2] _].
    unfold ns_entry in Hkv. destruct (dget (a_dest a) cv) as [w|] eqn:Ew.
    - destruct (a_explicit a) eqn:Ee.
      + cbn [In] in Hkv. destruct Hkv as [<- | [<- | []]]; cbn [fst]; [assumption|].
        intros EE. apply app_inv_tail in EE. rewrite (Hun a Ha EE) in Ee. discriminate.
      + cbn [In] in Hkv. destruct Hkv as [<- | []]. assumption.
    - cbn [In] in Hkv. destruct Hkv as [<- | []]. assumption. }
  unfold mark, dgetd. rewrite !dget_app, PreK by (intros E; now apply (proj1 WS)).
  rewrite M, PostMark. reflexivity.
Qed.

(* ---------------------------------------------------------------------------------------- *)
(* unknown keys are ignored                                                                  *)
(* ---------------------------------------------------------------------------------------- *)
Lemma nodup_dget (l : dict) k d : NoDup (map fst l) -> In (k, d) l -> dget k l = Some d.
Proof.
  induction l as [|[k0 d0] l IH]; intros Hnd Hin; [destruct Hin|]. cbn [map fst] in Hnd.
  inversion Hnd as [|? ? Hni Hnd']; subst. cbn [dget]. destruct Hin as [H|H].
  - injection H as -> ->. now rewrite bytes_eqb_refl.
  - rewrite bytes_eqb_neq; [auto|]. intros ->. apply Hni. apply in_map_iff. exists (k, d). auto.
Qed.

Lemma in_keys_dmem k : In k (map fst cfgd) -> dmem k cfgd = true.
Proof.
  intros Hk. unfold dmem. destruct (dget k cfgd) eqn:E; [reflexivity|]. exfalso.
  apply in_map_iff in Hk as ([k' d] & <- & Hin). cbn [fst] in E.
  clear - Hin E. induction cfgd as [|[k0 d0] l IH]; [destruct Hin|].
  cbn [dget] in E. destruct (bytes_eqb k0 k') eqn:E0; [discriminate|].
  destruct Hin as [H|H]; [injection H as -> ->; rewrite bytes_eqb_refl in E0; discriminate|auto].
Qed.

(* Config( **vars(config)) changes nothing *)
Lemma cfg_image_idem kw : NoDup (map fst cfgd) -> cfg_image (cfg_image kw) = cfg_image kw.
Proof.
  intros Hnd. unfold cfg_image at 1 3. apply map_ext_in. intros [k d] Hin. cbn [fst snd]. f_equal.
  unfold dgetd at 1. rewrite dget_cfg_image, (nodup_dget cfgd k d Hnd Hin). reflexivity.
Qed.

Lemma load_config_image has_toml ftoml fjson kw :
  NoDup (map fst cfgd) -> dmem s_self cfgd = false ->
  load_config cfgd has_toml ftoml fjson (cfg_image kw)
  = Ok (cfg_image (known_only (select_file has_toml ftoml fjson) ++ cfg_image kw)).
Proof.
  intros Hnd Hc. unfold load_config. destruct (select_file has_toml ftoml fjson) as [|kv f] eqn:E.
  - cbn [dempty known_only filter app]. now rewrite cfg_image_idem.
  - cbn [dempty]. unfold dupdate. rewrite filter_known, cfg_init_ok; [reflexivity|].
    rewrite dmem_app, dmem_known_only_self, dmem_cfg_image; auto.
Qed.

(* the Config main() ends up with depends on the selected file only through the keys Config defines: whatever
   else the file holds -- including a key called "self" -- is ignored *)
Theorem unknown_keys_ignored has_toml ns ft fj ft' fj' :
  NoDup (map fst cfgd) -> dmem s_self cfgd = false ->
  (forall k, dmem k cfgd = true -> dget k (select_file has_toml ft fj) = dget k (select_file has_toml ft' fj')) ->
  config_of_ns cfgd has_toml ns ft fj = config_of_ns cfgd has_toml ns ft' fj'.
Proof.
  intros Hnd Hc Hag. unfold config_of_ns.
  destruct (dmem s_self ns) eqn:Hns; [unfold cfg_init; now rewrite Hns|].
  rewrite cfg_init_ok by assumption. rewrite !load_config_image by assumption.
  replace (cfg_image (known_only (select_file has_toml ft' fj') ++ cfg_image ns))
    with (cfg_image (known_only (select_file has_toml ft fj) ++ cfg_image ns)); [reflexivity|].
  apply cfg_image_ext. intros k Hk. pose proof (in_keys_dmem k Hk) as Hm.
  rewrite !dget_app, !dget_known_only, Hm, (Hag k Hm). reflexivity.
Qed.

Corollary unknown_keys_dropped has_toml ns ft fj :
  NoDup (map fst cfgd) -> dmem s_self cfgd = false ->
  config_of_ns cfgd has_toml ns ft fj
  = config_of_ns cfgd has_toml ns (option_map known_only ft) (option_map known_only fj).
Proof.
  intros Hnd Hc.
  assert (Sel : select_file has_toml (option_map known_only ft) (option_map known_only fj)
                = known_only (select_file has_toml ft fj)).
  { unfold select_file. destruct has_toml, ft, fj; reflexivity. }
  apply unknown_keys_ignored; try assumption.
  intros k Hk. rewrite Sel, dget_known_only, Hk. reflexivity.
Qed.

(* and the pipeline never fails because of the FILE: with a namespace free of a dest called "self" it returns a
   Config with exactly Config's keys *)
Theorem config_total has_toml ns ft fj :
  dmem s_self cfgd = false -> dmem s_self ns = false ->
  exists c, config_of_ns cfgd has_toml ns ft fj = Ok c /\ map fst c = map fst cfgd.
Proof.
  intros Hc Hns. destruct (config_of_ns_spec has_toml ns ft fj Hc Hns) as (c & H1 & H2 & _). eauto.
Qed.
End Pipeline.
