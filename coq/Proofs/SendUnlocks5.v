(* C16, send_valid in the template form, part 5: what the sender's keys are supposed to unlock ([pays_to]) and the
   pieces shared by the per-kind proofs. *)
From Coq Require Import ZArith List Lia Bool.
From Coq Require Import Floats.SpecFloat.
Require Import Bits.Lib.Result Bits.Lib.Bytes Bits.Lib.PyStr Bits.Lib.CompactSize.
Require Import Bits.Spec.Bip66 Bits.Spec.Bip143 Bits.Spec.Sighash Bits.Spec.ScriptTemplatesDecode.
Require Import Bits.Model.Ecmath Bits.Model.SendValue Bits.Model.Send Bits.Model.Script.
Require Import Bits.Proofs.Ecdsa Bits.Proofs.Sec1 Bits.Proofs.ScriptWitness.
Require Import Bits.Proofs.SendValue Bits.Proofs.Send Bits.Proofs.SendSign Bits.Proofs.SendValid.
Require Import Bits.Proofs.SendUnlocks Bits.Proofs.SendUnlocks2 Bits.Proofs.SendUnlocks3 Bits.Proofs.SendUnlocks4.
Require Bits.Proofs.CompactSize.
Import ListNotations.
Import Coq.Init.Byte.
Local Open Scope Z_scope.
Local Open Scope result_scope.

Inductive kind := K_p2pk | K_p2pkh | K_multisig | K_p2sh | K_p2wpkh | K_p2wsh | K_p2sh_p2wpkh | K_p2sh_p2wsh.
Definition kind_name (kd : kind) : bytes :=
  match kd with
  | K_p2pk => k_p2pk | K_p2pkh => k_p2pkh | K_multisig => k_multisig | K_p2sh => k_p2sh
  | K_p2wpkh => k_p2wpkh | K_p2wsh => k_p2wsh | K_p2sh_p2wpkh => k_p2sh_p2wpkh | K_p2sh_p2wsh => k_p2sh_p2wsh
  end.
Definition all_kinds : list kind := [K_p2pk; K_p2pkh; K_multisig; K_p2sh; K_p2wpkh; K_p2wsh; K_p2sh_p2wpkh; K_p2sh_p2wsh].
Definition kind_of (ty : bytes) : option kind := find (fun kd => bytes_eqb ty (kind_name kd)) all_kinds.

Lemma kind_of_sound ty kd : kind_of ty = Some kd -> ty = kind_name kd.
Proof. intros H. apply find_some in H as (_ & H). now apply bytes_eqb_eq. Qed.

Lemma kind_of_name kd : kind_of (kind_name kd) = Some kd.
Proof. destruct kd; vm_compute; reflexivity. Qed.

(* ---- finite choice over a list ---- *)
Lemma choice_list {A B} (f : B -> A) : forall (l : list A) (P : nat -> B -> Prop),
  (forall j x, nth_error l j = Some x -> exists w, x = f w /\ P j w) ->
  exists ws, l = map f ws /\ forall j w, nth_error ws j = Some w -> P j w.
Proof.
  induction l as [|x l IH]; intros P H.
  - exists []. split; [reflexivity|]. intros [|j] w E; discriminate.
  - destruct (H 0%nat x eq_refl) as (w0 & -> & P0).
    destruct (IH (fun j => P (S j))) as (ws & -> & Hws). { intros j y Hy. apply (H (S j) y Hy). }
    exists (w0 :: ws). split; [reflexivity|]. intros [|j] w E; cbn [nth_error] in E.
    + now injection E as <-.
    + apply Hws. exact E.
Qed.

Lemma hd_r_inv {A} (l : list A) x : hd_r l = Ok x -> hd_error l = Some x.
Proof. unfold hd_r. destruct (hd_error l); cbn; congruence. Qed.
Lemma nth_r_some {A} (l : list A) j x : nth_error l j = Some x -> nth_r l j = Ok x.
Proof. unfold nth_r. now intros ->. Qed.
Lemma nth_r_inv {A} (l : list A) j x : nth_r l j = Ok x -> nth_error l j = Some x.
Proof. unfold nth_r. destruct (nth_error l j); cbn; congruence. Qed.

Section Main.
  Variables p a b n : Z.
  Variable G : point.
  Variable sha256 ripemd160 : bytes -> bytes.
  Variable scriptpubkey : bytes -> result bytes.
  Variable is_address : bytes -> bool.
  Hypothesis facts : curve_facts p a b n G.
  Hypothesis SQ : sqrt_facts p.
  Hypothesis Hpw : p <= 2 ^ 256.
  Hypothesis Hnw : n <= 2 ^ 256.
  Hypothesis Hr160 : forall m, length (ripemd160 m) = 20%nat.
  Hypothesis Hs256 : forall m, length (sha256 m) = 32%nat.

  Notation key_pk_ := (key_pk p a b n G).
  Notation pub_ := (pub p a n G).
  Notation h160_ := (hash160 sha256 ripemd160).
  Notation valid_ := (valid_sig p a b n G).
  Notation ecdsa_ := (ecdsa_ok p a b n G).
  Notation lss := (loop_scriptsig p a n G sha256 ripemd160).
  Notation sel_in := (selected_input p a n G sha256 ripemd160).
  Notation inner_unlocks_ := (inner_unlocks sha256 ripemd160 ecdsa_ bip66_valid).

  (* the inner scripts behind a script hash that send_tx can spend: the standard multisig script, with the sender's keys
     (exactly m of them) matching its keys in order, and the pubkey script with the sender's one key *)
  Definition redeem_owned (k : keyinfo) (s : inner_script) : Prop :=
    wf_inner s /\ ki_redeem k = enc_inner s /\
    match s with
    | I_p2pk pk => exists k0, ki_keys k = [k0] /\ key_pk_ k0 pk
    | I_multisig m pks => length (ki_keys k) = m /\ keys_in_order p a b n G (ki_keys k) pks
    | I_p2pkh _ => False
    end.

  (* [pays_to k spk]: spk is the standard scriptPubKey that the decoded sender keys k are the keys of *)
  Definition pays_to (k : keyinfo) (spk : bytes) : Prop :=
    match kind_of (ki_type k) with
    | Some K_p2pk => exists k0 pk, hd_error (ki_keys k) = Some k0 /\ key_pk_ k0 pk /\ pk_len_ok pk /\ spk = enc_inner (I_p2pk pk)
    | Some K_p2pkh => exists k0 pk, hd_error (ki_keys k) = Some k0 /\
                                   pub_ k0 (negb (Nat.eqb (length (ki_data k)) 0)) = Ok pk /\ spk = enc_inner (I_p2pkh (h160_ pk))
    | Some K_multisig => exists m pks, wf_inner (I_multisig m pks) /\ length (ki_keys k) = m /\
                                       keys_in_order p a b n G (ki_keys k) pks /\ spk = enc_inner (I_multisig m pks)
    | Some K_p2sh => exists s, redeem_owned k s /\ spk = spk_p2sh (h160_ (ki_redeem k))
    | Some K_p2wpkh => exists k0 pk, hd_error (ki_keys k) = Some k0 /\ pub_ k0 true = Ok pk /\ spk = spk_p2wpkh (h160_ pk)
    | Some K_p2wsh => exists s, redeem_owned k s /\ spk = spk_p2wsh (sha256 (ki_redeem k))
    | Some K_p2sh_p2wpkh => exists k0 pk, hd_error (ki_keys k) = Some k0 /\ pub_ k0 true = Ok pk /\
                                         spk = spk_p2sh (h160_ (spk_p2wpkh (h160_ pk)))
    | Some K_p2sh_p2wsh => exists s, redeem_owned k s /\ spk = spk_p2sh (h160_ (spk_p2wsh (sha256 (ki_redeem k))))
    | None => False
    end.

  (* ---- signatures ---- *)
  Lemma hd_valid digest f keys sgs k0 s0 :
    Forall2 (valid_ digest f) keys sgs -> hd_error keys = Some k0 -> hd_error sgs = Some s0 -> valid_ digest f k0 s0.
  Proof. intros H. destruct H; cbn [hd_error]; intros E1 E2; try discriminate. now injection E1 as <-; injection E2 as <-. Qed.

  Lemma single_valid digest f k0 sgs : Forall2 (valid_ digest f) [k0] sgs -> exists s0, sgs = [s0] /\ valid_ digest f k0 s0.
  Proof. intros H. inversion H as [|? s0 ? l' Hv Hr]; subst. inversion Hr; subst. now exists s0. Qed.

  Lemma checksig_hd (dg : Z -> option bytes) digest f keys sgs k0 s0 pk :
    standard_flag f -> dg f = Some digest -> Forall2 (valid_ digest f) keys sgs ->
    hd_error keys = Some k0 -> hd_error sgs = Some s0 -> key_pk_ k0 pk ->
    checksig ecdsa_ bip66_valid dg s0 pk /\ lenZ s0 < 2 ^ 32.
  Proof using Hnw.
    intros Hf Hdg HF E1 E2 Hpk. pose proof (hd_valid _ _ _ _ _ _ HF E1 E2) as Hv.
    destruct (valid_sig_checksig p a b n G Hnw digest f k0 s0 pk dg (standard_flag_byte f Hf) Hv Hpk Hdg) as (C & L).
    split; [exact C|]. clear -L. unfold lenZ. lia.
  Qed.

  Lemma sigs_small digest f keys sgs : standard_flag f -> Forall2 (valid_ digest f) keys sgs ->
    Forall (fun d => lenZ d < 2 ^ 32) sgs.
  Proof using Hnw.
    intros Hf H. induction H as [|k sg keys sgs Hv _ IH]; constructor; [|exact IH].
    pose proof (valid_sig_length p a b n G Hnw digest f k sg (standard_flag_byte f Hf) Hv) as L. clear -L. unfold lenZ. lia.
  Qed.

  (* the stack below a script-hash-committed script: what send_tx puts there, and that it satisfies the script *)
  Lemma owned_inner_unlocks k s (dg : Z -> option bytes) digest f sgs :
    redeem_owned k s -> standard_flag f -> dg f = Some digest -> Forall2 (valid_ digest f) (ki_keys k) sgs ->
    exists dargs ditems,
      multisig_dummy (ki_redeem k) = Ok dargs /\
      ((dargs = [s_OP_0] /\ ditems = [[]]) \/ (dargs = [] /\ ditems = [])) /\
      decode_inner (ki_redeem k) = Some s /\ inner_unlocks_ dg s (ditems ++ sgs).
  Proof using Hnw.
    intros (W & Er & Hs) Hf Hdg HF. rewrite Er. rewrite (decode_enc_inner s W).
    destruct s as [pk|h|m pks]; [| contradiction |].
    - destruct Hs as (k0 & Ek & Hpk). rewrite Ek in HF. destruct (single_valid _ _ _ _ HF) as (s0 & -> & Hv).
      exists [], []. rewrite (multisig_dummy_p2pk pk W). split; [reflexivity|]. split; [right; auto|]. split; [reflexivity|].
      cbn [app inner_unlocks]. exists s0. split; [reflexivity|].
      apply (valid_sig_checksig p a b n G Hnw digest f k0 s0 pk dg (standard_flag_byte f Hf) Hv Hpk Hdg).
    - destruct Hs as (Lk & Hord). exists [s_OP_0], [[]]. rewrite (multisig_dummy_multisig m pks W).
      split; [reflexivity|]. split; [left; auto|]. split; [reflexivity|].
      cbn [app inner_unlocks]. exists sgs. split; [reflexivity|]. split.
      + etransitivity; [exact (valid_sigs_lengths p a b n G digest f _ _ (standard_flag_byte f Hf) HF)|exact Lk].
      + apply (valid_sigs_multisig p a b n G Hnw digest f (ki_keys k) sgs pks dg (standard_flag_byte f Hf) Hdg HF Hord).
  Qed.

  Lemma script_dummy_inv dargs ditems ds bs :
    (dargs = [s_OP_0] /\ ditems = [[]]) \/ (dargs = [] /\ ditems = []) ->
    script (dargs ++ map hex_of_bytes ds) = Ok bs ->
    bs = push_ser (ditems ++ ds) /\ Forall (fun d => lenZ d < 2 ^ 32) (ditems ++ ds).
  Proof.
    intros [(-> & ->)|(-> & ->)] H; cbn [app] in *.
    - now apply script_op0_data_inv.
    - now apply script_data_inv.
  Qed.

  Lemma script_w_dummy_inv dargs ditems ds bs :
    (dargs = [s_OP_0] /\ ditems = [[]]) \/ (dargs = [] /\ ditems = []) ->
    script_w (dargs ++ map hex_of_bytes ds) = Ok bs -> bs = spec_witness (ditems ++ ds).
  Proof.
    intros [(-> & ->)|(-> & ->)] H; cbn [app] in *.
    - now apply script_w_op0_data.
    - now apply script_w_data.
  Qed.

  (* ---- the scriptSig of the unsigned input ---- *)
  Lemma sel_in_script k xt i ss : sel_in (Some k) xt i -> lss (Some k) (fst xt) = Ok ss -> ti_script i = ss.
  Proof. intros (ss' & E & -> & _) H. rewrite E in H. now injection H as <-. Qed.

  Lemma nth_lt {A} (l : list A) j x : nth_error l j = Some x -> (j < length l)%nat.
  Proof. intros H. apply nth_error_Some. congruence. Qed.
End Main.
