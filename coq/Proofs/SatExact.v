(* C16, value layer: the numeric premise sat_exact, closed.

     sat_of_btc (btc_of_sat k) = Ok k      for every 0 <= k <= 2 100 000 000 000 000 (21e6 BTC in satoshi)

   [btc_of_sat k] is the binary64 a JSON parser produces for the 8-decimal string of k satoshis (the correctly rounded
   quotient k / 10^8), [sat_of_btc a] is the model of round(a * 1e8) (Model/SendValue.v).  Both are terms of Coq's
   [Floats.SpecFloat]; the proof transports them to Flocq's [BinarySingleNaN] (same algorithms, rounding mode NE), uses
   the correctness theorems of Bdiv / Bmult / binary_normalize and the relative error bound of round-to-nearest in the
   normal range:  x = RN(k/1e8) = (k/1e8)(1+e1),  y = RN(x*1e8) = k(1+e1)(1+e2),  |ei| <= 2^-53, hence
   |y - k| <= 2.1e15 * 2.2205e-16 < 1/2, and round-half-even(y) = k.
   No real-interval automation is used (it would pull in the primitive-float interface); the bounds are done with lra. *)
From Coq Require Import ZArith List Lia Bool Reals Lra.
From Coq Require Import Floats.SpecFloat.
From Flocq Require Import Core BinarySingleNaN Relative.
Require Import Bits.Lib.Result Bits.Model.SendValue.
Require Bits.Model.Send Bits.Proofs.Send.
Import ListNotations.
Local Open Scope Z_scope.

(* ------------------------------------------------------------------------------------------------ SpecFloat = Flocq *)
Definition Hprec : Prec_gt_0 prec := eq_refl.
Definition Hmax : Prec_lt_emax prec emax := eq_refl.
Local Notation B := (binary_float prec emax).
Local Notation bmul := (@Bmult prec emax Hprec Hmax mode_NE).
Local Notation bdiv := (@Bdiv prec emax Hprec Hmax mode_NE).
Local Notation bnorm := (BinarySingleNaN.binary_normalize prec emax Hprec Hmax mode_NE).
Local Notation rnd := (round radix2 (SpecFloat.fexp prec emax) ZnearestE).

Lemma rne_equiv s m l : round_nearest_even m l = choice_mode mode_NE s m l.
Proof.
  destruct l as [|c]; [reflexivity|]. destruct c; try reflexivity.
  cbn. unfold Round.cond_incr. destruct (Z.even m); reflexivity.
Qed.

Lemma bra_equiv sx mx ex lx :
  SpecFloat.binary_round_aux prec emax sx mx ex lx = BinarySingleNaN.binary_round_aux prec emax mode_NE sx mx ex lx.
Proof.
  unfold SpecFloat.binary_round_aux, BinarySingleNaN.binary_round_aux.
  destruct (shr_fexp prec emax mx ex lx) as [mrs' e'].
  rewrite (rne_equiv sx). reflexivity.
Qed.

Lemma br_equiv s m e :
  SpecFloat.binary_round prec emax s m e = BinarySingleNaN.binary_round prec emax mode_NE s m e.
Proof.
  unfold SpecFloat.binary_round, BinarySingleNaN.binary_round, shl_align_fexp.
  destruct (shl_align m e _) as [mz ez]. apply bra_equiv.
Qed.

Lemma norm_equiv m e : sf_of_me m e = B2SF (bnorm m e false).
Proof.
  unfold sf_of_me. destruct m as [|p|p]; cbn [SpecFloat.binary_normalize BinarySingleNaN.binary_normalize].
  - reflexivity.
  - rewrite B2SF_SF2B. apply br_equiv.
  - rewrite B2SF_SF2B. apply br_equiv.
Qed.

Lemma mul_equiv (x y : B) : SFmul prec emax (B2SF x) (B2SF y) = B2SF (bmul x y).
Proof.
  destruct x as [sx|sx| |sx mx ex Bx]; destruct y as [sy|sy| |sy my ey By]; try reflexivity.
  cbn [B2SF SFmul Bmult]. rewrite B2SF_SF2B. apply bra_equiv.
Qed.

Lemma div_equiv (x y : B) : SFdiv prec emax (B2SF x) (B2SF y) = B2SF (bdiv x y).
Proof.
  destruct x as [sx|sx| |sx mx ex Bx]; destruct y as [sy|sy| |sy my ey By]; try reflexivity.
  cbn [B2SF SFdiv Bdiv]. rewrite B2SF_SF2B.
  destruct (SFdiv_core_binary _ _ _ _ _ _) as [[mz ez] lz]. apply bra_equiv.
Qed.

(* ------------------------------------------------------------------------------------------------ sf_round = ZnearestE *)
Lemma sf_round_pos m e :
  sf_round (S754_finite false m e) = Ok (ZnearestE (F2R (Float radix2 (Zpos m) e))).
Proof.
  unfold sf_round. f_equal. unfold F2R. cbn [Fnum Fexp].
  destruct (Z.leb_spec 0 e) as [He|He].
  - rewrite <- IZR_Zpower by exact He. rewrite <- mult_IZR.
    change (Z.pow_pos 2) with (Z.pow 2). symmetry.
    apply Znearest_imp. rewrite Rminus_diag_eq by reflexivity. rewrite Rabs_R0. lra.
  - set (d := 2 ^ (- e)).
    assert (Hd : 0 < d) by (apply Z.pow_pos_nonneg; lia).
    assert (Hb : bpow radix2 e = (/ IZR d)%R).
    { replace e with (- (- e)) at 1 by lia. rewrite bpow_opp. f_equal. symmetry. exact (IZR_Zpower radix2 (- e) ltac:(lia)). }
    rewrite Hb. fold (Rdiv (IZR (Z.pos m)) (IZR d)).
    set (q := Z.pos m / d). set (r := Z.pos m mod d).
    assert (Hm : Z.pos m = d * q + r) by (apply Z.div_mod; lia).
    assert (Hr : 0 <= r < d) by (apply Z.mod_pos_bound; lia).
    assert (HD : (0 < IZR d)%R) by (apply IZR_lt; exact Hd).
    assert (Hfl : Zfloor (IZR (Z.pos m) / IZR d) = q) by (apply Zfloor_div; lia).
    assert (Hfr : (IZR (Z.pos m) / IZR d - IZR q = IZR r / IZR d)%R).
    { rewrite Hm, plus_IZR, mult_IZR. field. lra. }
    unfold Znearest. rewrite Hfl, Hfr.
    assert (Hc : Rcompare (IZR r / IZR d) (/ 2) = (2 * r ?= d)).
    { rewrite <- (Rcompare_mult_r (IZR d)) by exact HD.
      replace (IZR r / IZR d * IZR d)%R with (IZR r) by (field; lra).
      rewrite <- (Rcompare_mult_r 2) by lra.
      replace (/ 2 * IZR d * 2)%R with (IZR d) by field.
      replace (IZR r * 2)%R with (IZR (2 * r)) by (rewrite mult_IZR; lra).
      apply Rcompare_IZR. }
    rewrite Hc.
    assert (Hce : r <> 0 -> Zceil (IZR (Z.pos m) / IZR d) = q + 1).
    { intros Hr0. rewrite Zceil_floor_neq; rewrite Hfl; [reflexivity|].
      intros Heq. apply Hr0. apply eq_IZR.
      assert (Hz : (IZR r / IZR d = 0)%R) by lra.
      apply (f_equal (fun t => (t * IZR d)%R)) in Hz.
      replace (IZR r / IZR d * IZR d)%R with (IZR r) in Hz by (field; lra). lra. }
    destruct (Z.compare_spec (2 * r) d) as [E|E|E].
    + rewrite Hce by lia. destruct (Z.even q); reflexivity.
    + reflexivity.
    + rewrite Hce by lia. reflexivity.
Qed.

(* ------------------------------------------------------------------------------------------------ real bounds *)
Local Open Scope R_scope.
Lemma abs_bounds e : Rabs e <= / 9007199254740992 -> - / 9007199254740992 <= e <= / 9007199254740992.
Proof. intros H. unfold Rabs in H. destruct (Rcase_abs e); lra. Qed.

Lemma prod_bounds a b la ua lb ub : 0 <= la -> 0 <= lb -> la <= a <= ua -> lb <= b <= ub -> la * lb <= a * b <= ua * ub.
Proof.
  intros Ha Hb [A1 A2] [B1 B2]. split.
  - apply Rmult_le_compat; assumption.
  - apply Rmult_le_compat; lra.
Qed.

Lemma abs_lt x c : - c < x < c -> Rabs x < c.
Proof. intros [H1 H2]. apply Rabs_def1; assumption. Qed.

Section RealBounds.
  Variables K e1 e2 : R.
  Hypothesis HK : 1 <= K <= 2100000000000000.
  Hypothesis He1 : Rabs e1 <= / 9007199254740992.
  Hypothesis He2 : Rabs e2 <= / 9007199254740992.

  Let u := / 9007199254740992.

  Lemma rb_prod1 : (1 - u) <= K * (1 + e1) <= 2100000000000000 * (1 + u).
  Proof.
    pose proof (abs_bounds e1 He1) as B1. fold u in B1.
    assert (U : 0 < u < 1 / 1000) by (unfold u; lra).
    pose proof (prod_bounds K (1 + e1) 1 2100000000000000 (1 - u) (1 + u) ltac:(lra) ltac:(lra) HK ltac:(lra)). lra.
  Qed.

  Lemma rb_prod2 : (1 - u) * (1 - u) <= K * (1 + e1) * (1 + e2) <= 2100000000000000 * (1 + u) * (1 + u).
  Proof.
    pose proof (abs_bounds e2 He2) as B2. fold u in B2.
    assert (U : 0 < u < 1 / 1000) by (unfold u; lra).
    pose proof rb_prod1 as H1.
    apply prod_bounds; lra.
  Qed.

  Lemma rb_quot_abs : Rabs (K / 100000000 * (1 + e1)) < 1152921504606846976.
  Proof.
    replace (K / 100000000 * (1 + e1)) with (K * (1 + e1) / 100000000) by field.
    pose proof rb_prod1 as H1. assert (U : 0 < u < 1 / 1000) by (unfold u; lra).
    apply abs_lt. lra.
  Qed.

  Lemma rb_prod_lo : / 134217728 <= K * (1 + e1).
  Proof. pose proof rb_prod1 as H1. assert (U : 0 < u < 1 / 1000) by (unfold u; lra). lra. Qed.

  Lemma rb_prod_abs : Rabs (K * (1 + e1) * (1 + e2)) < 1152921504606846976.
  Proof.
    pose proof rb_prod2 as H. assert (U : 0 < u < 1 / 1000) by (unfold u; lra).
    apply abs_lt.
    assert (0 < (1 - u) * (1 - u)) by (apply Rmult_lt_0_compat; lra).
    assert (2100000000000000 * (1 + u) * (1 + u) <= 2100000000000000 * 2 * 2).
    { apply Rmult_le_compat; try lra. }
    lra.
  Qed.

  Lemma rb_prod_pos : 0 < K * (1 + e1) * (1 + e2).
  Proof.
    pose proof rb_prod2 as H. assert (U : 0 < u < 1 / 1000) by (unfold u; lra).
    assert (0 < (1 - u) * (1 - u)) by (apply Rmult_lt_0_compat; lra). lra.
  Qed.

  Lemma rb_err : Rabs (K * (1 + e1) * (1 + e2) - K) < / 2.
  Proof.
    pose proof (abs_bounds e1 He1) as B1. pose proof (abs_bounds e2 He2) as B2. fold u in B1, B2.
    assert (U : 0 < u < 1 / 1000) by (unfold u; lra).
    pose proof (prod_bounds (1 + e1) (1 + e2) (1 - u) (1 + u) (1 - u) (1 + u) ltac:(lra) ltac:(lra) ltac:(lra) ltac:(lra)) as P.
    set (s := (1 + e1) * (1 + e2)) in *.
    assert (S : - (22205 / 100000000000000000000) <= s - 1 <= 22205 / 100000000000000000000) by (unfold u in P; lra).
    replace (K * (1 + e1) * (1 + e2) - K) with (K * (s - 1)) by (unfold s; ring).
    rewrite Rabs_mult, (Rabs_pos_eq K) by lra.
    assert (A : Rabs (s - 1) <= 22205 / 100000000000000000000) by (unfold Rabs; destruct (Rcase_abs (s - 1)); lra).
    assert (K * Rabs (s - 1) <= 2100000000000000 * (22205 / 100000000000000000000)).
    { apply Rmult_le_compat; try lra. apply Rabs_pos. }
    lra.
  Qed.
End RealBounds.
Local Close Scope R_scope.

(* ------------------------------------------------------------------------------------------------ rounding facts *)
Lemma bpow_m27 : bpow radix2 (-27) = (/ 134217728)%R.
Proof. reflexivity. Qed.
Lemma bpow_60 : bpow radix2 60 = 1152921504606846976%R.
Proof. reflexivity. Qed.
Lemma bpow_53 : bpow radix2 53 = 9007199254740992%R.
Proof. reflexivity. Qed.
Lemma bpow_m52 : bpow radix2 (-52) = (/ 4503599627370496)%R.
Proof. reflexivity. Qed.

Lemma no_overflow x : (Rabs x < 1152921504606846976)%R -> (Rabs x < bpow radix2 emax)%R.
Proof.
  intros H. apply Rlt_trans with (1 := H). rewrite <- bpow_60. apply bpow_lt. reflexivity.
Qed.

Lemma rnd_eps x : (/ 134217728 <= x)%R ->
  exists eps, (Rabs eps <= / 9007199254740992)%R /\ rnd x = (x * (1 + eps))%R.
Proof.
  intros Hx.
  destruct (relative_error_N_FLT_ex radix2 (-1074) 53 Hprec (fun t => negb (Z.even t)) x) as (eps & He & Hr).
  - change (-1074 + 53 - 1) with (-1022).
    apply Rle_trans with (bpow radix2 (-27)).
    + apply bpow_le. lia.
    + rewrite bpow_m27. rewrite Rabs_pos_eq; [exact Hx|]. lra.
  - exists eps. split; [|exact Hr].
    change (Rabs eps <= / 2 * / 4503599627370496)%R in He. lra.
Qed.

Lemma rnd_exact k : 0 <= k < 2 ^ 53 -> rnd (IZR k) = IZR k.
Proof.
  intros Hk. apply round_generic; [typeclasses eauto|].
  apply (generic_format_FLT radix2 (-1074) 53).
  exists (Float radix2 k 0).
  - unfold F2R. cbn [Fnum Fexp bpow]. lra.
  - cbn [Fnum]. change (radix2 ^ 53) with (2 ^ 53). lia.
  - cbn [Fexp]. lia.
Qed.

Lemma bnorm_exact k : 0 <= k < 2 ^ 53 ->
  B2R (bnorm k 0 false) = IZR k /\ is_finite (bnorm k 0 false) = true.
Proof.
  intros Hk.
  pose proof (binary_normalize_correct prec emax Hprec Hmax mode_NE k 0 false) as H.
  cbv zeta in H. cbn [round_mode] in H.
  assert (HF : F2R (Float radix2 k 0) = IZR k) by (unfold F2R; cbn [Fnum Fexp bpow]; lra).
  rewrite HF, (rnd_exact k Hk) in H.
  rewrite Rlt_bool_true in H.
  - destruct H as (H1 & H2 & _). split; assumption.
  - apply no_overflow. rewrite Rabs_pos_eq by (apply IZR_le; lia).
    apply Rlt_trans with (IZR (2 ^ 53)); [apply IZR_lt; lia|].
    change (IZR (2 ^ 53)) with 9007199254740992%R. lra.
Qed.

(* ------------------------------------------------------------------------------------------------ the theorem *)
Definition btc_of_sat (k : Z) : spec_float := SFdiv prec emax (sf_of_me k 0) f1e8.

Definition max_sats : Z := 2100000000000000.

Lemma sf_round_B (z : B) k :
  is_finite z = true -> (0 < B2R z)%R -> (Rabs (B2R z - IZR k) < / 2)%R -> sf_round (B2SF z) = Ok k.
Proof.
  intros Hf Hp Hk. destruct z as [s|s| |s m e Hb]; cbn [B2R] in Hp; try lra; try discriminate Hf.
  destruct s.
  - exfalso. cbn [cond_Zopp] in Hp.
    assert (F2R (Float radix2 (- Z.pos m) e) < 0)%R by (apply F2R_lt_0; cbn; lia). lra.
  - cbn [B2SF]. rewrite sf_round_pos. f_equal. apply Znearest_imp. exact Hk.
Qed.

Lemma sat_exact_pos k : 1 <= k <= max_sats -> sat_of_btc (btc_of_sat k) = Ok k.
Proof.
  unfold max_sats. intros Hk.
  unfold sat_of_btc, btc_of_sat, f1e8. rewrite !norm_equiv, div_equiv, mul_equiv.
  destruct (bnorm_exact k ltac:(lia)) as (Rk & Fk).
  destruct (bnorm_exact 100000000 ltac:(lia)) as (R8 & F8).
  set (bk := bnorm k 0 false) in *. set (b8 := bnorm 100000000 0 false) in *.
  assert (HK : (1 <= IZR k <= 2100000000000000)%R) by (split; apply IZR_le; lia).
  set (K := IZR k) in *.
  (* the quotient x = RN(k / 1e8) *)
  destruct (rnd_eps (K / 100000000)) as (e1 & He1 & Hr1); [lra|].
  pose proof (Bdiv_correct prec emax Hprec Hmax mode_NE bk b8) as Hd.
  rewrite Rk, R8 in Hd. cbn [round_mode] in Hd. rewrite Hr1 in Hd.
  rewrite Rlt_bool_true in Hd by (apply no_overflow; apply rb_quot_abs; assumption).
  destruct (Hd ltac:(lra)) as (Rx & Fx & _). clear Hd. rewrite Fk in Fx.
  set (x := bdiv bk b8) in *.
  (* the product y = RN(x * 1e8) *)
  assert (Hxy : (B2R x * B2R b8 = K * (1 + e1))%R) by (rewrite Rx, R8; field).
  destruct (rnd_eps (K * (1 + e1))) as (e2 & He2 & Hr2); [apply rb_prod_lo; assumption|].
  pose proof (Bmult_correct prec emax Hprec Hmax mode_NE x b8) as Hm.
  rewrite Hxy in Hm. cbn [round_mode] in Hm. rewrite Hr2 in Hm.
  rewrite Rlt_bool_true in Hm by (apply no_overflow; apply rb_prod_abs; assumption).
  destruct Hm as (Ry & Fy & _). rewrite Fx, F8 in Fy.
  set (y := bmul x b8) in *.
  apply sf_round_B.
  - exact Fy.
  - rewrite Ry. apply rb_prod_pos; assumption.
  - rewrite Ry. fold K. apply rb_err; assumption.
Qed.

Theorem sat_exact_all : forall k : Z, 0 <= k <= 2100000000000000 -> sat_of_btc (btc_of_sat k) = Ok k.
Proof.
  intros k Hk. destruct (Z.eq_dec k 0) as [->|Hn].
  - vm_compute. reflexivity.
  - apply sat_exact_pos. unfold max_sats. lia.
Qed.
Print Assumptions sat_exact_all.

(* the shape the C16 theorems consume (Proofs/Send.v: sat_exact sats unspents): every reported amount is the JSON float of
   its satoshi value, and that value is within the money supply *)
Corollary sat_exact_of_json (sats : Bits.Model.Send.utxo -> Z) (unspents : list Bits.Model.Send.utxo) :
  (forall x, In x unspents ->
     Bits.Model.Send.u_amount x = btc_of_sat (sats x) /\ 0 <= sats x <= 2100000000000000) ->
  Bits.Proofs.Send.sat_exact sats unspents.
Proof.
  intros H x Hx. destruct (H x Hx) as (-> & Hr). apply sat_exact_all. exact Hr.
Qed.
Print Assumptions sat_exact_of_json.

(* a concrete instance of the hypotheses: 0.29 BTC (the value truncation got wrong), one satoshi, the whole supply *)
Example sat_exact_of_json_instance :
  let ux k := Bits.Model.Send.mk_utxo [] 0 (btc_of_sat k) [] in
  let sats (x : Bits.Model.Send.utxo) :=
      match sat_of_btc (Bits.Model.Send.u_amount x) with Ok v => v | Err _ => -1 end in
  let us := [ux 29000000; ux 1; ux 2100000000000000] in
  map sats us = [29000000; 1; 2100000000000000] /\
  Bits.Proofs.Send.sat_exact sats us.
Proof.
  intros ux sats us. split; [vm_compute; reflexivity|].
  apply sat_exact_of_json. intros x Hx.
  destruct Hx as [<-|[<-|[<-|[]]]]; (split; [vm_compute; reflexivity | vm_compute; split; discriminate]).
Qed.
