(* C08: scriptpubkey (the dispatcher) composed with to_bitcoin_address / segwit_addr / SEC1 keys.
   Reuses C07 (Proofs/Base58.v), C06 (Proofs/Bech32*.v), C13 (Proofs/Script*.v), C14 (Proofs/Sec1.v).
   sha256 is an arbitrary function with 32-byte output; the curve parameters p a b are arbitrary except where
   [sec1_facts] is stated. *)
From Coq Require Import ZArith List Lia Bool.
Require Import Bits.Lib.Result Bits.Lib.Bytes.
Require Import Bits.Spec.Base58 Bits.Spec.Bip173 Bits.Spec.Opcodes Bits.Spec.Script Bits.Spec.ScriptTemplates.
Require Import Bits.Model.Base58 Bits.Model.Bech32 Bits.Model.Ecmath Bits.Model.Sec1.
Require Import Bits.Lib.PyStr Bits.Model.Script Bits.Model.Address.
Require Import Bits.Proofs.Base58 Bits.Proofs.Bech32Regroup Bits.Proofs.Bech32Parse Bits.Proofs.Bech32
  Bits.Proofs.Bech32Roundtrip.
Require Import Bits.Proofs.ScriptTable Bits.Proofs.Script Bits.Proofs.ScriptBuilders.
Require Bits.Spec.Templates.
Import ListNotations.
Import Coq.Init.Byte.
Local Open Scope Z_scope.

Module T := Bits.Spec.Templates.

(* ------------------------------------------------------------------------------------------------ *)
(* A. the template builders as raw bytes (any data length: one length byte, OverflowError from 256 on) *)
(* ------------------------------------------------------------------------------------------------ *)
Lemma len1_overflow x : 256 <= lenZ x -> len1 x = Err OverflowE.
Proof.
  intros H. unfold len1, to_le_chk. change (256 ^ Z.of_nat 1) with 256.
  destruct (Z.ltb_spec (lenZ x) 256); [lia|]. now rewrite andb_false_r.
Qed.

Lemma p2pkh_bytes h : lenZ h < 256 ->
  p2pkh_script_pubkey h = Ok (x76 :: xa9 :: z2b (lenZ h) :: h ++ [x88; xac]).
Proof.
  intros H. unfold p2pkh_script_pubkey. spec_names.
  rewrite (op_byte_spec _ _ sv_DUP), (op_byte_spec _ _ sv_HASH160), (op_byte_spec _ _ sv_EQUALVERIFY),
    (op_byte_spec _ _ sv_CHECKSIG), (len1_ok _ H). cbn [bind app]. reflexivity.
Qed.

Lemma p2pkh_overflow h : 256 <= lenZ h -> p2pkh_script_pubkey h = Err OverflowE.
Proof.
  intros H. unfold p2pkh_script_pubkey. spec_names.
  rewrite (op_byte_spec _ _ sv_DUP), (op_byte_spec _ _ sv_HASH160), (len1_overflow _ H). reflexivity.
Qed.

Lemma p2sh_bytes h : lenZ h < 256 -> p2sh_script_pubkey h = Ok (xa9 :: z2b (lenZ h) :: h ++ [x87]).
Proof.
  intros H. unfold p2sh_script_pubkey. spec_names.
  rewrite (op_byte_spec _ _ sv_HASH160), (op_byte_spec _ _ sv_EQUAL), (len1_ok _ H). cbn [bind app]. reflexivity.
Qed.

Lemma p2sh_overflow h : 256 <= lenZ h -> p2sh_script_pubkey h = Err OverflowE.
Proof.
  intros H. unfold p2sh_script_pubkey. spec_names.
  rewrite (op_byte_spec _ _ sv_HASH160), (len1_overflow _ H). reflexivity.
Qed.

Lemma p2pk_bytes k : lenZ k < 256 -> p2pk_script_pubkey k = Ok (z2b (lenZ k) :: k ++ [xac]).
Proof.
  intros H. unfold p2pk_script_pubkey. spec_names.
  rewrite (op_byte_spec _ _ sv_CHECKSIG), (len1_ok _ H). cbn [bind app]. reflexivity.
Qed.

Lemma z2b_small_val v : z2b (small_val v) = T.OP_N v.
Proof. unfold small_val, T.OP_N. destruct (v =? 0); reflexivity. Qed.

Lemma witness_bytes prog v : 0 <= v <= 16 -> lenZ prog < 256 ->
  p2wpkh_script_pubkey prog v = Ok (T.OP_N v :: z2b (lenZ prog) :: prog).
Proof.
  intros Hv H. unfold p2wpkh_script_pubkey. rewrite small_getattr by lia. cbn [bind].
  rewrite to_be_chk_1 by (apply small_val_range; lia). cbn [bind]. rewrite (len1_ok _ H). cbn [bind app].
  now rewrite z2b_small_val.
Qed.

(* script([f"OP_{v}", prog.hex()]) : the generic branch for versions 1..16 *)
Lemma script_witness_bytes prog v : 0 <= v <= 16 -> 1 <= lenZ prog <= 75 ->
  script [s_OP_ ++ dec_str v; hex_of_bytes prog] = Ok (T.OP_N v :: z2b (lenZ prog) :: prog).
Proof.
  intros Hv H.
  change [s_OP_ ++ dec_str v; hex_of_bytes prog] with (map render (tpl_witness_program v prog)).
  rewrite script_items.
  - unfold tpl_witness_program. asm_norm. rewrite (item_op _ _ (small_sv v Hv)). rewrite spec_push_direct by lia.
    cbn [app]. now rewrite z2b_small_val, app_nil_r.
  - unfold tpl_witness_program. constructor; [apply small_valid; lia|]. valid_ops.
Qed.

(* the raw templates of Spec/Templates.v are the reference assembly of C13's item-list templates *)
Lemma templates_are_assembly h : length h = 20%nat ->
  spec_asm (tpl_p2pkh h) = T.tpl_p2pkh h /\ spec_asm (tpl_p2sh h) = T.tpl_p2sh h
  /\ spec_asm (tpl_witness_program 0 h) = T.tpl_p2wpkh h.
Proof.
  intros L. assert (LZ : lenZ h = 20) by (unfold lenZ; lia).
  unfold tpl_p2pkh, tpl_p2sh, tpl_witness_program. repeat split; asm_norm; rewrite ?(item_op _ _ (small_sv 0 ltac:(lia)));
    rewrite spec_push_direct by lia; rewrite LZ; cbn [app]; rewrite ?app_nil_r; reflexivity.
Qed.

Lemma witness_template_is_assembly v prog : 0 <= v <= 16 -> 1 <= lenZ prog <= 75 ->
  spec_asm (tpl_witness_program v prog) = T.tpl_witness v prog.
Proof.
  intros Hv H. unfold tpl_witness_program. asm_norm. rewrite (item_op _ _ (small_sv v Hv)). rewrite spec_push_direct by lia.
  cbn [app]. rewrite z2b_small_val, app_nil_r. reflexivity.
Qed.

(* ------------------------------------------------------------------------------------------------ *)
(* B. who can be a point: only a buffer of 33/65 bytes whose first byte is 2, 3 or 4                 *)
(* ------------------------------------------------------------------------------------------------ *)
Definition key_prefix (v : byte) : Prop := b2z v = 2 \/ b2z v = 3 \/ b2z v = 4.

Section Point.
  Variables p a b : Z.

  Lemma is_point_other_prefix data :
    (forall v rest, data = v :: rest -> ~ key_prefix v) -> is_point p a b data = Ok false.
  Proof.
    intros H. destruct data as [|v rest]; [reflexivity|].
    specialize (H v rest eq_refl). unfold key_prefix in H.
    unfold is_point, sec1_point. cbv zeta.
    destruct (negb (Nat.eqb (length (v :: rest)) 33 || Nat.eqb (length (v :: rest)) 65)); [reflexivity|].
    destruct (Z.eqb_spec (b2z v) 2); [tauto|]. destruct (Z.eqb_spec (b2z v) 3); [tauto|].
    destruct (Z.eqb_spec (b2z v) 4); [tauto|]. reflexivity.
  Qed.

  Lemma is_point_bad_length data : length data <> 33%nat -> length data <> 65%nat -> is_point p a b data = Ok false.
  Proof.
    intros H1 H2. unfold is_point, sec1_point. cbv zeta.
    destruct (Nat.eqb_spec (length data) 33); [contradiction|]. destruct (Nat.eqb_spec (length data) 65); [contradiction|].
    reflexivity.
  Qed.

  Lemma is_point_true_inv data : is_point p a b data = Ok true ->
    exists v rest, data = v :: rest /\ key_prefix v /\ (length data = 33%nat \/ length data = 65%nat).
  Proof.
    intros H. destruct data as [|v rest]; [discriminate|]. exists v, rest. split; [reflexivity|]. split.
    - destruct (Z.eq_dec (b2z v) 2) as [|N2]; [left; assumption|].
      destruct (Z.eq_dec (b2z v) 3) as [|N3]; [right; left; assumption|].
      destruct (Z.eq_dec (b2z v) 4) as [|N4]; [right; right; assumption|].
      rewrite is_point_other_prefix in H; [discriminate|].
      intros v' r' E. injection E as <- _. unfold key_prefix. lia.
    - destruct (Nat.eq_dec (length (v :: rest)) 33) as [|N1]; [left; assumption|].
      destruct (Nat.eq_dec (length (v :: rest)) 65) as [|N2]; [right; assumption|].
      rewrite is_point_bad_length in H by assumption. discriminate.
  Qed.

  (* every Base58 character is an ASCII letter or digit *)
  Lemma alphabet_range c : In c alphabet -> 49 <= b2z c <= 122.
  Proof.
    assert (F : forallb (fun c => (49 <=? b2z c) && (b2z c <=? 122)) alphabet = true) by (vm_compute; reflexivity).
    intros H. apply (proj1 (forallb_forall _ _) F) in H. apply andb_true_iff in H as [H1 H2].
    apply Z.leb_le in H1, H2. lia.
  Qed.

  Lemma b58_string_not_point s d : base58decode s = Ok d -> is_point p a b s = Ok false.
  Proof.
    intros D. apply is_point_other_prefix. intros v rest ->.
    assert (A : Forall (fun c => In c alphabet) (v :: rest)) by (apply b58_decode_ok_iff; eauto).
    inversion A as [|? ? Hv _]; subst. apply alphabet_range in Hv. unfold key_prefix. lia.
  Qed.

  (* a valid segwit address starts with a letter (its human-readable part is bc / tb / bcrt) *)
  Lemma valid_segwit_head s r : spec_decode s = Some r -> exists c0 t, s = c0 :: t /\ 65 <= b2z c0.
  Proof.
    rewrite spec_decode_unfold. destruct (negb _); [discriminate|]. destruct (mixed_case s); [discriminate|].
    destruct (split_last_sep (lowercase s)) as [[h d]|] eqn:SP; [|discriminate]. intros ST.
    apply spec_tail_hrp in ST. apply segwit_hrp_head in ST as (c & t & -> & LC).
    apply split_last_sep_some in SP as (SP & _). cbn [app] in SP.
    destruct s as [|c0 s']; [discriminate|]. cbn [lowercase map] in SP. injection SP as E _.
    exists c0, s'. split; [reflexivity|].
    unfold to_lower in E. destruct (is_upper c0) eqn:U.
    - unfold is_upper in U. apply andb_true_iff in U as [U _]. apply Z.leb_le in U. exact U.
    - subst c. unfold is_lower in LC. apply andb_true_iff in LC as [L _]. apply Z.leb_le in L. lia.
  Qed.

  Lemma segwit_not_point s r : spec_decode s = Some r -> is_point p a b s = Ok false.
  Proof.
    intros H. destruct (valid_segwit_head s r H) as (c0 & t & -> & B).
    apply is_point_other_prefix. intros v rest E. injection E as <- _. unfold key_prefix. lia.
  Qed.
End Point.

(* what spec_decode returns: version 0..16, a program of a permitted length, one of the three hrps *)
Lemma spec_decode_facts s hrp v prog : spec_decode s = Some (hrp, v, prog) ->
  0 <= v <= 16 /\ program_length_ok v (length prog) = true /\ existsb (bytes_eqb hrp) segwit_hrps = true.
Proof.
  rewrite spec_decode_unfold. destruct (negb _); [discriminate|]. destruct (mixed_case s); [discriminate|].
  destruct (split_last_sep (lowercase s)) as [[h d]|]; [|discriminate].
  unfold spec_tail. destruct (negb _); [discriminate|]. destruct (negb _); [discriminate|].
  destruct (values_of d) as [[|v' rest]|] eqn:VO; try discriminate.
  destruct (Z.leb_spec v' 16) as [V16|]; cbn [negb]; [|discriminate]. destruct (negb _); [discriminate|].
  destruct (convert_5to8 _) as [pr|]; [|discriminate].
  destruct (program_length_ok v' (length pr) && existsb (bytes_eqb h) segwit_hrps) eqn:E; [|discriminate].
  intros Q. injection Q as <- <- <-. apply andb_true_iff in E as [E1 E2].
  apply values_of_mapM in VO. apply mapM_int_map_ok in VO as (_ & R & _). inversion R as [|? ? Rv _]; subst.
  repeat split; auto; lia.
Qed.

(* ------------------------------------------------------------------------------------------------ *)
(* C. the dispatcher                                                                                *)
(* ------------------------------------------------------------------------------------------------ *)
Definition net_name (n : T.network) : bytes :=
  match n with T.Mainnet => net_mainnet | T.Testnet => net_testnet | T.Regtest => net_regtest end.
Definition kind_name (k : T.addr_kind) : bytes := match k with T.P2PKH => s_p2pkh | T.P2SH => s_p2sh end.
Definition net_hrp (n : T.network) : bytes :=
  match n with T.Mainnet => hrp_bc | T.Testnet => hrp_tb | T.Regtest => hrp_bcrt end.
Definition kind_template (k : T.addr_kind) (h : bytes) : bytes :=
  match k with T.P2PKH => T.tpl_p2pkh h | T.P2SH => T.tpl_p2sh h end.

(* what the Base58Check branch does with a decoded payload [pl] = version byte + hash *)
Definition b58_branch (pl : bytes) : result bytes :=
  let version := firstn 1 pl in
  let payload := skipn 1 pl in
  if negb (Z.of_nat (length payload) =? 20) then Err ValueE
  else if bytes_eqb version ver_p2pkh_main || bytes_eqb version ver_p2pkh_test then p2pkh_script_pubkey payload
  else if bytes_eqb version ver_p2sh_main || bytes_eqb version ver_p2sh_test then p2sh_script_pubkey payload
  else Err ValueE.

(* the decoded form of a Base58Check ADDRESS: a known version byte in front of a 20-byte hash *)
Definition b58_address_payload (pl : bytes) : Prop :=
  exists v h, pl = v :: h /\ length h = 20%nat /\ (In v T.p2pkh_versions \/ In v T.p2sh_versions).

Lemma b58_address_payload_dec pl : b58_address_payload pl \/ ~ b58_address_payload pl.
Proof.
  destruct pl as [|v h]; [right; intros (v & h & E & _); discriminate|].
  destruct (Nat.eq_dec (length h) 20) as [L|NL].
  - destruct (in_dec byte_eq_dec v T.p2pkh_versions) as [I|N1]; [left; exists v, h; auto|].
    destruct (in_dec byte_eq_dec v T.p2sh_versions) as [I|N2]; [left; exists v, h; auto|].
    right. intros (v' & h' & E & _ & [I|I]); injection E as <- <-; contradiction.
  - right. intros (v' & h' & E & L & _). injection E as <- <-. contradiction.
Qed.

Lemma b58_branch_known v h : length h = 20%nat ->
  (In v T.p2pkh_versions -> b58_branch (v :: h) = Ok (T.tpl_p2pkh h))
  /\ (In v T.p2sh_versions -> b58_branch (v :: h) = Ok (T.tpl_p2sh h)).
Proof.
  intros L. assert (LZ : lenZ h = 20) by (unfold lenZ; lia).
  split; intros I; unfold b58_branch; cbn [firstn skipn]; rewrite L; change (negb (Z.of_nat 20 =? 20)) with false; cbv iota;
    cbn [In T.p2pkh_versions T.p2sh_versions] in I.
  - destruct I as [<-|[<-|[]]]; cbn [bytes_eqb byte_eqb orb andb]; rewrite p2pkh_bytes by lia; rewrite LZ; reflexivity.
  - destruct I as [<-|[<-|[]]]; rewrite p2sh_bytes by lia; rewrite LZ; reflexivity.
Qed.

(* everything else is refused: no version byte, a version byte other than 00 6f 05 c4 (252 of them), a payload
   that is not 20 bytes long *)
Lemma b58_branch_refuses pl : ~ b58_address_payload pl -> b58_branch pl = Err ValueE.
Proof.
  intros H. unfold b58_branch. destruct (Z.eqb_spec (Z.of_nat (length (skipn 1 pl))) 20) as [L|]; [|reflexivity].
  cbn [negb]. destruct pl as [|v payload]; [reflexivity|]. cbn [firstn skipn] in *.
  assert (N1 : ~ In v T.p2pkh_versions) by (intros I; apply H; exists v, payload; repeat split; auto; lia).
  assert (N2 : ~ In v T.p2sh_versions) by (intros I; apply H; exists v, payload; repeat split; auto; lia).
  unfold ver_p2pkh_main, ver_p2pkh_test, ver_p2sh_main, ver_p2sh_test. cbn [T.version_byte bytes_eqb].
  rewrite !andb_true_r.
  destruct (byte_eqb v x00) eqn:E1; [apply byte_eqb_eq in E1; subst; exfalso; apply N1; cbn; auto|].
  destruct (byte_eqb v x6f) eqn:E2; [apply byte_eqb_eq in E2; subst; exfalso; apply N1; cbn; auto|].
  destruct (byte_eqb v x05) eqn:E3; [apply byte_eqb_eq in E3; subst; exfalso; apply N2; cbn; auto|].
  destruct (byte_eqb v xc4) eqn:E4; [apply byte_eqb_eq in E4; subst; exfalso; apply N2; cbn; auto|].
  reflexivity.
Qed.

Lemma b58_branch_ok_inv pl s : b58_branch pl = Ok s ->
  exists v h, pl = v :: h /\ length h = 20%nat /\
    ((In v T.p2pkh_versions /\ s = T.tpl_p2pkh h) \/ (In v T.p2sh_versions /\ s = T.tpl_p2sh h)).
Proof.
  intros Q. destruct (b58_address_payload_dec pl) as [A|A]; [|rewrite (b58_branch_refuses _ A) in Q; discriminate].
  destruct A as (v & h & -> & L & I). exists v, h. split; [reflexivity|]. split; [exact L|].
  destruct (b58_branch_known v h L) as [B1 B2].
  destruct I as [I|I]; [left; rewrite (B1 I) in Q | right; rewrite (B2 I) in Q]; injection Q as <-; auto.
Qed.

Lemma b58_branch_err pl e : b58_branch pl = Err e -> e = ValueE.
Proof.
  destruct (b58_address_payload_dec pl) as [(v & h & -> & L & I)|A].
  - destruct (b58_branch_known v h L) as [B1 B2]. destruct I as [I|I]; [rewrite (B1 I)|rewrite (B2 I)]; discriminate.
  - rewrite (b58_branch_refuses _ A). now intros [= <-].
Qed.

Section Dispatch.
  Variable sha256 : bytes -> bytes.
  Hypothesis sha256_len : forall m, length (sha256 m) = 32%nat.
  Variables p a b : Z.

  Notation scriptpubkey := (scriptpubkey sha256 p a b).
  Notation is_point := (is_point p a b).

  Lemma b58check_not_point s : is_base58check sha256 s = true -> is_point s = Ok false.
  Proof.
    intros H. apply is_base58check_iff in H as [pl H].
    apply (b58check_accept_iff sha256 sha256_len) in H as (d & D & _). now apply (b58_string_not_point p a b s d).
  Qed.

  Lemma not_b58check_bad_char s c : In c s -> ~ In c alphabet -> is_base58check sha256 s = false.
  Proof.
    intros I N. destruct (is_base58check sha256 s) eqn:E; [|reflexivity].
    apply is_base58check_iff in E as [pl E]. apply (b58check_accept_iff sha256 sha256_len) in E as (d & D & _).
    assert (A : Forall (fun c => In c alphabet) s) by (apply b58_decode_ok_iff; eauto).
    rewrite Forall_forall in A. exfalso. auto.
  Qed.

  (* ---- Base58Check branch, for EVERY accepted string ---- *)
  Lemma scriptpubkey_b58 data pl : base58check_decode sha256 data = Ok pl -> scriptpubkey data = b58_branch pl.
  Proof.
    intros D. unfold Address.scriptpubkey.
    assert (B : is_base58check sha256 data = true) by (apply is_base58check_iff; eauto).
    rewrite (b58check_not_point _ B). cbn [bind]. rewrite B, D. reflexivity.
  Qed.

  (* ---- T: p2pkh_script, p2sh_script (three networks, both kinds) ---- *)
  Theorem b58_address_script k net h : length h = 20%nat ->
    let addr := base58check sha256 (T.version_byte k net :: h) in
    to_bitcoin_address sha256 h (kind_name k) (net_name net) None = Ok addr
    /\ is_point addr = Ok false
    /\ scriptpubkey addr = Ok (kind_template k h).
  Proof.
    intros L addr.
    assert (D : base58check_decode sha256 addr = Ok (T.version_byte k net :: h)) by apply (b58check_roundtrip sha256 sha256_len).
    split; [destruct k, net; reflexivity|]. split.
    - apply b58check_not_point. apply is_base58check_iff. eauto.
    - rewrite (scriptpubkey_b58 _ _ D).
      destruct (b58_branch_known (T.version_byte k net) h L) as [B1 B2].
      destruct k; [apply B1 | apply B2]; destruct net; cbn; auto.
  Qed.

  (* ... and every ACCEPTED Base58Check string whose payload is a known version byte and a 20-byte hash *)
  Theorem b58_accepted data v h : base58check_decode sha256 data = Ok (v :: h) -> length h = 20%nat ->
    (In v T.p2pkh_versions -> scriptpubkey data = Ok (T.tpl_p2pkh h))
    /\ (In v T.p2sh_versions -> scriptpubkey data = Ok (T.tpl_p2sh h)).
  Proof. intros D L. rewrite (scriptpubkey_b58 _ _ D). now apply b58_branch_known. Qed.

  (* a checksum-valid Base58Check string that is NOT version byte + 20-byte hash is refused (the repaired defect:
     payloads of the wrong size; and all 252 unknown version bytes) *)
  Theorem b58_non_address_refused data pl : base58check_decode sha256 data = Ok pl -> ~ b58_address_payload pl ->
    scriptpubkey data = Err ValueE.
  Proof. intros D N. rewrite (scriptpubkey_b58 _ _ D). now apply b58_branch_refuses. Qed.

  (* ---- segwit branch, for EVERY valid segwit address that is not also checksum-valid Base58Check ---- *)
  Lemma scriptpubkey_segwit data hrp v prog : spec_decode data = Some (hrp, v, prog) ->
    is_base58check sha256 data = false -> scriptpubkey data = Ok (T.tpl_witness v prog).
  Proof.
    intros SD NB. destruct (spec_decode_facts _ _ _ _ SD) as (Hv & PL & HH).
    pose proof (proj2 (accept_iff_spec _ _) SD) as DV. apply decode_valid_parts in DV as (D & _).
    unfold Address.scriptpubkey. rewrite (segwit_not_point p a b _ _ SD). cbn [bind]. rewrite NB.
    rewrite is_segwit_addr_spec. unfold valid_segwit. rewrite SD. cbn [bind]. rewrite D. cbn [bind].
    change [hrp_bc; hrp_tb; hrp_bcrt] with segwit_hrps. rewrite HH. cbn [assert_ bind].
    unfold program_length_ok in PL. apply andb_true_iff in PL as [PL P3]. apply andb_true_iff in PL as [P1 P2].
    apply Nat.leb_le in P1, P2.
    assert (LZ : lenZ prog = Z.of_nat (length prog)) by reflexivity.
    unfold T.tpl_witness, T.push. rewrite <- LZ.
    destruct (Z.eqb_spec (lenZ prog) 20); [apply witness_bytes; lia|].
    destruct (Z.eqb_spec (lenZ prog) 32); [apply witness_bytes; lia|].
    destruct (Z.eqb_spec v 0) as [->|NZ].
    - exfalso. cbn in P3. apply orb_true_iff in P3 as [P3|P3]; apply Nat.eqb_eq in P3; lia.
    - destruct (Z.geb_spec v 1); [|lia]. apply script_witness_bytes; lia.
  Qed.

  (* ---- T: witness_vn_script (p2wpkh_script / p2wsh_script are its instances v = 0, 20 / 32 bytes) ---- *)
  Theorem witness_vn_script net v prog : 0 <= v <= 16 -> program_length_ok v (length prog) = true ->
    exists addr,
      segwit_addr prog v (net_name net) = Ok addr
      /\ (forall ty, to_bitcoin_address sha256 prog ty (net_name net) (Some v) = Ok addr)
      /\ spec_decode addr = Some (net_hrp net, v, prog)
      /\ is_point addr = Ok false
      /\ (is_base58check sha256 addr = false -> scriptpubkey addr = Ok (T.tpl_witness v prog)).
  Proof.
    intros Hv PL.
    assert (HN : In (net_name net, net_hrp net) networks) by (destruct net; cbn; auto).
    destruct (segwit_roundtrip _ _ v prog HN Hv PL) as (addr & SA & _ & _ & _ & SD & _ & TB).
    exists addr. repeat split; auto.
    - now apply (segwit_not_point p a b _ _ SD).
    - intros NB. now apply (scriptpubkey_segwit _ _ _ _ SD).
  Qed.

  Corollary p2wpkh_script net h : length h = 20%nat ->
    exists addr, (forall ty, to_bitcoin_address sha256 h ty (net_name net) (Some 0) = Ok addr)
      /\ (is_base58check sha256 addr = false -> scriptpubkey addr = Ok (T.tpl_p2wpkh h)).
  Proof.
    intros L. destruct (witness_vn_script net 0 h ltac:(lia)) as (addr & _ & TB & _ & _ & S); [now rewrite L|].
    exists addr. split; [exact TB|]. intros NB. rewrite (S NB). unfold T.tpl_witness, T.push. now rewrite L.
  Qed.

  Corollary p2wsh_script net h : length h = 32%nat ->
    exists addr, (forall ty, to_bitcoin_address sha256 h ty (net_name net) (Some 0) = Ok addr)
      /\ (is_base58check sha256 addr = false -> scriptpubkey addr = Ok (T.tpl_p2wsh h)).
  Proof.
    intros L. destruct (witness_vn_script net 0 h ltac:(lia)) as (addr & _ & TB & _ & _ & S); [now rewrite L|].
    exists addr. split; [exact TB|]. intros NB. rewrite (S NB). unfold T.tpl_witness, T.push. now rewrite L.
  Qed.

  (* ---- T: p2pk_script ---- *)
  Theorem p2pk_script pk : is_point pk = Ok true ->
    scriptpubkey pk = Ok (T.tpl_p2pk pk) /\ (length pk = 33%nat \/ length pk = 65%nat).
  Proof.
    clear sha256_len. intros H. destruct (is_point_true_inv p a b pk H) as (v & rest & E & _ & L). split; [|exact L].
    unfold Address.scriptpubkey. rewrite H. cbn [bind]. rewrite p2pk_bytes by (unfold lenZ; lia). reflexivity.
  Qed.

  (* ---- T: dispatch_disjoint (unconditional) ---- *)
  Theorem dispatch_disjoint data :
    (is_base58check sha256 data = true -> is_point data = Ok false)
    /\ (valid_segwit data = true -> is_point data = Ok false)
    /\ (is_point data = Ok true -> is_base58check sha256 data = false /\ valid_segwit data = false).
  Proof.
    assert (S : valid_segwit data = true -> is_point data = Ok false).
    { unfold valid_segwit. destruct (spec_decode data) as [r|] eqn:SD; [|discriminate]. intros _.
      now apply (segwit_not_point p a b _ _ SD). }
    split; [apply b58check_not_point|]. split; [exact S|]. intros H. split.
    - destruct (is_base58check sha256 data) eqn:B; [|reflexivity]. rewrite (b58check_not_point _ B) in H. discriminate.
    - destruct (valid_segwit data) eqn:V; [|reflexivity]. rewrite (S eq_refl) in H. discriminate.
  Qed.

  (* ---- the dispatcher as one equation over the three decoders (for every byte string) ---- *)
  Theorem scriptpubkey_equation data :
    scriptpubkey data =
    match is_point data with
    | Err e => Err e
    | Ok true => Ok (T.tpl_p2pk data)
    | Ok false =>
      match base58check_decode sha256 data with
      | Ok pl => b58_branch pl
      | Err _ => match spec_decode data with
                 | Some (_, v, prog) => Ok (T.tpl_witness v prog)
                 | None => Err ValueE
                 end
      end
    end.
  Proof.
    destruct (is_point data) as [[|]|e] eqn:IP.
    - now destruct (p2pk_script data IP).
    - destruct (base58check_decode sha256 data) as [pl|e] eqn:D.
      + now apply scriptpubkey_b58.
      + assert (NB : is_base58check sha256 data = false) by (unfold is_base58check; now rewrite D).
        destruct (spec_decode data) as [[[hrp v] prog]|] eqn:SD; [now apply (scriptpubkey_segwit _ hrp)|].
        unfold Address.scriptpubkey. rewrite IP. cbn [bind]. rewrite NB, is_segwit_addr_spec. unfold valid_segwit.
        rewrite SD. reflexivity.
    - unfold Address.scriptpubkey. rewrite IP. reflexivity.
  Qed.

  (* ---- T: refuses_others, at full strength ---- *)
  Theorem refuses_others data :
    is_point data = Ok false ->
    (forall pl, base58check_decode sha256 data = Ok pl -> ~ b58_address_payload pl) ->
    valid_segwit data = false ->
    scriptpubkey data = Err ValueE.
  Proof.
    intros IP NB NS. rewrite scriptpubkey_equation, IP.
    destruct (base58check_decode sha256 data) as [pl|e] eqn:D.
    - apply b58_branch_refuses. now apply NB.
    - unfold valid_segwit in NS. destruct (spec_decode data); [discriminate|reflexivity].
  Qed.

  (* ... and conversely every script that comes out is one of exactly these *)
  Theorem scriptpubkey_ok_inv data s : scriptpubkey data = Ok s ->
    (is_point data = Ok true /\ s = T.tpl_p2pk data /\ (length data = 33%nat \/ length data = 65%nat))
    \/ (exists v h, base58check_decode sha256 data = Ok (v :: h) /\ length h = 20%nat /\
          ((In v T.p2pkh_versions /\ s = T.tpl_p2pkh h) \/ (In v T.p2sh_versions /\ s = T.tpl_p2sh h)))
    \/ (exists hrp v prog, spec_decode data = Some (hrp, v, prog) /\ is_base58check sha256 data = false
          /\ s = T.tpl_witness v prog).
  Proof.
    rewrite scriptpubkey_equation. destruct (is_point data) as [[|]|e] eqn:IP; [| |discriminate].
    - intros Q. injection Q as <-. left. destruct (p2pk_script data IP) as [_ L]. auto.
    - destruct (base58check_decode sha256 data) as [pl|e] eqn:D.
      + intros Q. right. left. apply b58_branch_ok_inv in Q as (v & h & -> & L & C). exists v, h. auto.
      + destruct (spec_decode data) as [[[hrp v] prog]|] eqn:SD; [|discriminate].
        intros Q. injection Q as <-. right. right. exists hrp, v, prog. repeat split.
        unfold is_base58check. now rewrite D.
  Qed.

  (* whatever comes out is a standard scriptPubKey *)
  Theorem scriptpubkey_standard data s : scriptpubkey data = Ok s -> T.standard_script s.
  Proof.
    intros Q. apply scriptpubkey_ok_inv in Q as [(_ & -> & L) | [(v & h & _ & L & C) | (hrp & v & prog & SD & _ & ->)]].
    - right. right. exists data. auto.
    - left. exists h. split; [exact L|]. destruct C as [[_ ->]|[_ ->]]; auto.
    - right. left. exists v, prog. destruct (spec_decode_facts _ _ _ _ SD) as (Hv & PL & _).
      unfold program_length_ok in PL. apply andb_true_iff in PL as [PL _]. apply andb_true_iff in PL as [P1 P2].
      apply Nat.leb_le in P1, P2. auto.
  Qed.
End Dispatch.

(* ------------------------------------------------------------------------------------------------ *)
(* D. with C14's premise about the curve: "valid SEC1 key" instead of "is_point returned True"       *)
(* ------------------------------------------------------------------------------------------------ *)
Require Bits.Spec.Sec1 Bits.Proofs.Sec1.

Section WithCurve.
  Variable sha256 : bytes -> bytes.
  Hypothesis sha256_len : forall m, length (sha256 m) = 32%nat.
  Variables p a b : Z.
  Hypothesis SF : Bits.Proofs.Sec1.sec1_facts p a b.

  Lemma is_point_decides bs : exists r, is_point p a b bs = Ok r /\
    (r = true <-> exists x y, Bits.Spec.Sec1.valid_encoding p a b bs x y).
  Proof. destruct SF as [SQ Ha Hb Hw N2]. exact (Bits.Proofs.Sec1.is_point_total p a b SQ Ha Hb Hw N2 bs). Qed.

  Theorem p2pk_script_valid_key pk x y : Bits.Spec.Sec1.valid_encoding p a b pk x y ->
    scriptpubkey sha256 p a b pk = Ok (T.tpl_p2pk pk).
  Proof.
    clear sha256_len. intros V. destruct (is_point_decides pk) as (r & IP & R).
    assert (r = true) by (apply R; eauto). subst r. now destruct (p2pk_script sha256 p a b pk IP).
  Qed.

  (* both forms, from the point *)
  Corollary p2pk_script_both x y c : Bits.Proofs.Ecmath.oncurve p a b (Some (x, y)) ->
    scriptpubkey sha256 p a b (Bits.Spec.Sec1.encode c x y)
    = Ok ((if c then x21 else x41) :: Bits.Spec.Sec1.encode c x y ++ [xac]).
  Proof.
    clear sha256_len. intros OC. destruct SF as [SQ Ha Hb Hw N2].
    destruct (Bits.Proofs.Sec1.sec1_roundtrip p a b SQ Ha Hb Hw x y c OC) as [_ SP].
    assert (IP : is_point p a b (Bits.Spec.Sec1.encode c x y) = Ok true) by (unfold is_point; now rewrite SP).
    destruct (p2pk_script sha256 p a b _ IP) as [S _]. rewrite S. unfold T.tpl_p2pk, T.push.
    destruct c; unfold Bits.Spec.Sec1.encode; cbn [length app]; rewrite ?app_length, !to_be_length; reflexivity.
  Qed.

  (* refuses_others with the three notions of validity spelled out *)
  Theorem refuses_others_total data :
    (forall x y, ~ Bits.Spec.Sec1.valid_encoding p a b data x y) ->
    (forall pl, base58check_decode sha256 data = Ok pl -> ~ b58_address_payload pl) ->
    valid_segwit data = false ->
    scriptpubkey sha256 p a b data = Err ValueE.
  Proof.
    intros NK NB NS. apply (refuses_others sha256 sha256_len); auto.
    destruct (is_point_decides data) as ([|] & IP & R); [|exact IP].
    destruct (proj1 R eq_refl) as (x & y & V). now destruct (NK x y).
  Qed.

  (* the dispatcher is total: a standard script or ValueError, nothing else *)
  Theorem scriptpubkey_total data :
    (exists s, scriptpubkey sha256 p a b data = Ok s /\ T.standard_script s) \/ scriptpubkey sha256 p a b data = Err ValueE.
  Proof.
    destruct (scriptpubkey sha256 p a b data) as [s|e] eqn:Q.
    - left. exists s. split; [reflexivity|]. exact (scriptpubkey_standard sha256 sha256_len p a b data s Q).
    - right. f_equal. rewrite (scriptpubkey_equation sha256 sha256_len) in Q.
      destruct (is_point_decides data) as (r & IP & _). rewrite IP in Q. destruct r; [discriminate|].
      destruct (base58check_decode sha256 data) as [pl|e'].
      + now apply b58_branch_err in Q.
      + destruct (spec_decode data) as [[[? ?] ?]|]; [discriminate|]. now injection Q as <-.
  Qed.
End WithCurve.
