(* utils.sig_verify accepts exactly the tuples whose decoded components satisfy the ECDSA equation. *)
From Coq Require Import ZArith List Bool Lia Zpow_facts.
Require Import Bits.Lib.Result Bits.Lib.Bytes Bits.Model.Ecmath Bits.Model.Sec1 Bits.Model.Asn1 Bits.Model.Der
  Bits.Proofs.Ecmath Bits.Proofs.Ecdsa Bits.Proofs.EcdsaMore.
Import ListNotations.
Local Open Scope Z_scope.

Lemma pow_inv m x e v : pow_mod_p m x e = Ok v -> inF m x = true /\ 0 <= e /\ v = fpow m x e.
Proof.
  unfold pow_mod_p. destruct (inF m x); simpl; [|discriminate].
  destruct (Z.ltb_spec e 0) as [L|L]; [discriminate|]. intros H'; inversion H'; auto.
Qed.

(* a successful on-curve test means: coordinates in range and the curve equation holds *)
Lemma on_curve_inv p a b x y : 3 < p -> inF p a = true -> inF p b = true ->
  point_is_on_curve p a b x y = Ok true -> oncurve p a b (Some (x, y)).
Proof.
  intros Hp Ha Hb. unfold point_is_on_curve.
  destruct (pow_mod_p p y 2) as [l|] eqn:E1; simpl; [|discriminate].
  apply pow_inv in E1 as (Fy & _ & ->).
  destruct (curve_rhs p a b x) as [r|] eqn:E2; simpl; [|discriminate].
  assert (Fx : inF p x = true).
  { unfold curve_rhs in E2. destruct (pow_mod_p p x 3) as [x3|] eqn:E3; simpl in E2; [|discriminate].
    now apply pow_inv in E3 as (Fx & _). }
  rewrite (curve_rhs_ok p a b Hp Ha Hb x Fx) in E2. injection E2 as <-.
  intros H. injection H as H. apply Z.eqb_eq in H. simpl. auto.
Qed.

Lemma sec1_point_oncurve p a b pk x y : 3 < p -> inF p a = true -> inF p b = true ->
  sec1_point p a b pk = Ok (x, y) -> oncurve p a b (Some (x, y)).
Proof.
  intros Hp Ha Hb. unfold sec1_point.
  destruct (negb _); [discriminate|]. destruct pk as [|v payload]; [discriminate|].
  set (X := of_be (firstn 32 payload)).
  match goal with |- bind ?R _ = _ -> _ => destruct R as [y0|e] end; simpl; [|discriminate].
  destruct (point_is_on_curve p a b X y0) as [[|]|] eqn:E; simpl; try discriminate.
  intros H. injection H as <- <-. now apply on_curve_inv.
Qed.

Section SigVerify.
  Variables p a b n : Z.
  Variable G : point.
  Variable sha256 : bytes -> bytes.
  Hypothesis CF : curve_facts p a b n G.

  (* sig_verify returns "OK" exactly when: the last byte is the sighash byte, the rest decodes as DER to (r, s),
     the key decodes to a curve point Q, and (r, s) satisfies the verification equation for
     z = HASH256(msg || flag as 4 little-endian bytes) (or HASH256(msg) in preimage mode) *)
  Theorem sig_verify_iff sg pk msg pre :
    sig_verify p a b n G sha256 sg pk msg pre = Ok true <->
    exists body fl r s x y,
      sg = body ++ [fl] /\ der_decode_sig body = Ok (r, s) /\ sec1_point p a b pk = Ok (x, y) /\
      spec_verify p a n G r s (Some (x, y))
        (of_be (hash256 sha256 (if pre then msg else msg ++ to_le 4 (b2z fl)))) = true.
  Proof.
    unfold sig_verify. split.
    - destruct (rev sg) as [|fl body_rev] eqn:Er; [discriminate|].
      destruct (der_decode_sig (rev body_rev)) as [[r s]|] eqn:Ed; simpl; [|discriminate].
      destruct (sec1_point p a b pk) as [[x y]|e] eqn:Ep.
      + destruct (verify p a b n G r s (Some (x, y)) _) as [v|e] eqn:Ev.
        * intros _. exists (rev body_rev), fl, r, s, x, y.
          split; [rewrite <- (rev_involutive sg), Er; reflexivity|].
          split; [exact Ed|]. split; [reflexivity|].
          assert (OC : oncurve p a b (Some (x, y))) by (eapply sec1_point_oncurve; eauto; apply CF).
          apply (verify_iff p a b n G CF); auto.
          destruct v; [exact Ev|]. exfalso. eapply verify_never_false; eauto.
        * destruct e; discriminate.
      + destruct e; discriminate.
    - intros (body & fl & r & s & x & y & -> & Ed & Ep & Hs).
      rewrite rev_app_distr. cbn [rev app]. rewrite rev_involutive, Ed. cbn [bind].
      rewrite Ep.
      assert (OC : oncurve p a b (Some (x, y))) by (eapply sec1_point_oncurve; eauto; apply CF).
      apply (verify_iff p a b n G CF) in Hs; auto. rewrite Hs. reflexivity.
  Qed.

  (* it never reports success otherwise: every other outcome is "not OK" or an exception *)
  Corollary sig_verify_otherwise sg pk msg pre :
    sig_verify p a b n G sha256 sg pk msg pre <> Ok true ->
    sig_verify p a b n G sha256 sg pk msg pre = Ok false \/ exists e, sig_verify p a b n G sha256 sg pk msg pre = Err e.
  Proof. destruct (sig_verify p a b n G sha256 sg pk msg pre) as [[|]|e]; intros H; eauto; congruence. Qed.
End SigVerify.
