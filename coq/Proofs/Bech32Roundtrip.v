(* C06 round trip: segwit_addr produces, for every network / version 0..16 / allowed program, an address
   of at most 90 characters that BIP173/BIP350 (Spec.spec_decode) and the code's decoder map back to the
   same (hrp, version, program). *)
From Coq Require Import ZArith List Lia Bool.
Require Import Bits.Lib.Result Bits.Lib.Bytes Bits.Lib.Radix Bits.Lib.RadixW.
Require Import Bits.Spec.Bip173 Bits.Model.Base58 Bits.Model.Bech32.
Require Import Bits.Proofs.Bech32Checksum Bits.Proofs.Bech32Regroup Bits.Proofs.Bech32Parse Bits.Proofs.Bech32.
Import ListNotations.
Local Open Scope Z_scope.
Ltac Zify.zify_post_hook ::= Z.to_euclidean_division_equations.

Definition networks : list (bytes * bytes) :=
  [(net_mainnet, hrp_bc); (net_testnet, hrp_tb); (net_regtest, hrp_bcrt)].

(* the 5-bit payload values of a program *)
Definition payload_vals (prog : bytes) : list Z :=
  digits_w 32 (Z.to_nat (n_groups (lenZ prog))) (of_be prog * 2 ^ pad_bits (lenZ prog)).

Definition seg_const (v : Z) : Z := if v =? 0 then 1 else BECH32M_CONST.

(* the address text *)
Definition addr_text (hrp : bytes) (v : Z) (prog : bytes) : bytes :=
  hrp ++ separator ::
  flat_map chars_slice ((v :: payload_vals prog) ++ bech32_create_checksum hrp (v :: payload_vals prog) (seg_const v)).

Lemma payload_vals_in_range prog : in_range 32 (payload_vals prog).
Proof. apply digits_w_in_range. lia. Qed.

Lemma payload_vals_length prog : Z.of_nat (length (payload_vals prog)) = n_groups (lenZ prog).
Proof.
  unfold payload_vals. rewrite digits_w_length. apply Z2Nat.id.
  unfold n_groups, lenZ. destruct (_ =? 0); lia.
Qed.

Lemma flat_map_slices_length vs : in_range 32 vs -> length (flat_map chars_slice vs) = length vs.
Proof.
  intros H. pose proof (mapM_int_map_slices vs H) as M.
  apply mapM_int_map_ok in M as (_ & _ & _ & _ & _ & L & _). now rewrite L.
Qed.

Lemma network_cases net hrp : In (net, hrp) networks ->
  (net = net_mainnet /\ hrp = hrp_bc) \/ (net = net_testnet /\ hrp = hrp_tb) \/ (net = net_regtest /\ hrp = hrp_bcrt).
Proof.
  unfold networks. cbn [In]. intros [H|[H|[H|[]]]]; injection H as <- <-; auto.
Qed.

(* ---------- the encoder ---------- *)
Theorem segwit_addr_ok net hrp v prog : In (net, hrp) networks -> 0 <= v <= 16 ->
  lenZ prog < 89 - lenZ hrp ->
  segwit_addr prog v net = Ok (addr_text hrp v prog).
Proof.
  intros HN Hv HL.
  assert (Hv32 : 0 <= v < 32) by lia.
  destruct (chars_slice_ok v Hv32) as (cv & CS & CI).
  assert (E : forall h, forallb (fun c => in_range_Z (b2z c) 33 127) h = true -> in_range_Z (lenZ h) 1 84 = true ->
              lenZ prog < 89 - lenZ h ->
              bech32_encode h prog (chars_slice v) (seg_const v) = Ok (addr_text h v prog)).
  { intros h F1 F2 F3. unfold bech32_encode. rewrite F1, F2. cbn [assert_ bind].
    rewrite CS. unfold in_range_Z, bech32_max_len, max_len.
    replace (0 <=? lenZ prog) with true by (symmetry; apply Z.leb_le; unfold lenZ; lia).
    replace (lenZ prog <? 90 - lenZ h - 1 - lenZ [cv] + 1) with true
      by (symmetry; apply Z.ltb_lt; unfold lenZ in *; cbn [length]; lia).
    cbn [andb assert_ bind].
    rewrite regroup_digits. fold (payload_vals prog). rewrite <- CS.
    change (chars_slice v ++ flat_map chars_slice (payload_vals prog))
      with (flat_map chars_slice (v :: payload_vals prog)).
    rewrite mapM_int_map_slices by (constructor; [lia|apply payload_vals_in_range]). cbn [bind].
    unfold addr_text, bech32_separator. rewrite flat_map_app. cbn [app flat_map]. now rewrite <- !app_assoc. }
  unfold segwit_addr, in_range_Z.
  replace (0 <=? v) with true by (symmetry; apply Z.leb_le; lia).
  replace (v <? 17) with true by (symmetry; apply Z.ltb_lt; lia). fold (seg_const v).
  apply network_cases in HN as [[-> ->] | [[-> ->] | [-> ->]]].
  - change (bytes_eqb net_mainnet net_mainnet) with true. cbn [bind andb assert_]. now apply E.
  - change (bytes_eqb net_testnet net_mainnet) with false. change (bytes_eqb net_testnet net_testnet) with true.
    cbn [bind andb assert_]. now apply E.
  - change (bytes_eqb net_regtest net_mainnet) with false. change (bytes_eqb net_regtest net_testnet) with false.
    change (bytes_eqb net_regtest net_regtest) with true. cbn [bind andb assert_]. now apply E.
Qed.

(* ---------- the produced text is a valid address per the BIPs ---------- *)
Lemma existsb_forallb_neg {A} (p : A -> bool) l : forallb (fun x => negb (p x)) l = true -> existsb p l = false.
Proof.
  induction l as [|x l IH]; cbn [forallb existsb]; [reflexivity|]. intros H.
  apply andb_true_iff in H as [H1 H2]. apply negb_true_iff in H1. now rewrite H1, IH.
Qed.

Lemma droplast_app_exact {A} (a b : list A) n : length b = n -> droplast n (a ++ b) = a.
Proof.
  intros L. unfold droplast. rewrite app_length, L, Nat.add_sub.
  rewrite firstn_app, Nat.sub_diag, firstn_all. cbn [firstn]. apply app_nil_r.
Qed.

Lemma n_groups_bound n : 2 <= n <= 40 -> 4 <= n_groups n <= 64.
Proof. intros H. unfold n_groups. destruct (Z.eqb_spec ((n * 8) mod 5) 0); lia. Qed.

Theorem addr_text_valid hrp v prog : existsb (bytes_eqb hrp) segwit_hrps = true -> 0 <= v <= 16 ->
  program_length_ok v (length prog) = true ->
  spec_decode (addr_text hrp v prog) = Some (hrp, v, prog) /\ lenZ (addr_text hrp v prog) <= 90.
Proof.
  intros HH Hv HP.
  assert (PL : 2 <= lenZ prog <= 40).
  { unfold program_length_ok in HP. apply andb_true_iff in HP as [HP _]. apply andb_true_iff in HP as [P1 P2].
    apply Nat.leb_le in P1, P2. unfold lenZ. lia. }
  set (vals := payload_vals prog). set (c := seg_const v).
  set (cs := bech32_create_checksum hrp (v :: vals) c).
  set (all := (v :: vals) ++ cs).
  assert (RV : in_range 32 (v :: vals)) by (constructor; [lia|apply payload_vals_in_range]).
  assert (RA : in_range 32 all) by (apply Forall_app; split; [exact RV|apply create_checksum_in_range]).
  assert (LV : Z.of_nat (length vals) = n_groups (lenZ prog)) by apply payload_vals_length.
  pose proof (n_groups_bound _ PL) as GB.
  assert (LA : Z.of_nat (length all) = n_groups (lenZ prog) + 7).
  { unfold all. rewrite app_length. cbn [length]. unfold cs. rewrite create_checksum_length. lia. }
  set (dp := flat_map chars_slice all).
  pose proof (mapM_int_map_ok _ _ (mapM_int_map_slices all RA)) as (VO & _ & _ & _ & NS & LD & NU).
  fold dp in VO, NS, LD, NU.
  assert (Hc : 0 <= c < 2 ^ 30) by (unfold c, seg_const; destruct (v =? 0); vm_compute; split; congruence).
  assert (CK : polymod (hrp_expand hrp ++ all) =? c = true).
  { pose proof (checksum_sound hrp (v :: vals) c RV Hc) as K.
    unfold bech32_verify_checksum in K. now rewrite polymod_spec, hrp_expand_spec in K. }
  assert (CV : convert_5to8 vals = Some prog).
  { assert (NE : prog <> []) by (intros ->; unfold lenZ in PL; cbn in PL; lia).
    pose proof (decode_vals_regroup prog NE) as D. fold (payload_vals prog) in D. fold vals in D.
    rewrite decode_vals_spec in D; [|apply payload_vals_in_range|].
    - destruct (convert_5to8 vals); [now injection D as ->|discriminate].
    - intros E. rewrite E in LV. cbn [length] in LV. lia. }
  assert (HL : lenZ hrp <= 4 /\ existsb is_upper hrp = false /\
               ((1 <=? length hrp)%nat && (length hrp <=? 83)%nat
                && forallb (fun c => (33 <=? b2z c) && (b2z c <=? 126)) hrp) = true).
  { apply segwit_hrp_cases in HH as [-> | [-> | ->]]; vm_compute; repeat split; congruence. }
  destruct HL as (HL1 & HL2 & HL3).
  assert (LT : lenZ (addr_text hrp v prog) = lenZ hrp + 1 + (n_groups (lenZ prog) + 7)).
  { unfold addr_text. fold vals c cs all dp. unfold lenZ in *. rewrite app_length. cbn [length]. rewrite <- LD. lia. }
  split; [|lia].
  rewrite spec_decode_unfold. fold (lenZ (addr_text hrp v prog)).
  replace (lenZ (addr_text hrp v prog) <=? max_len) with true by (symmetry; apply Z.leb_le; unfold max_len; lia).
  cbn [negb].
  assert (NUp : existsb is_upper (addr_text hrp v prog) = false).
  { unfold addr_text. fold vals c cs all dp. rewrite existsb_app, HL2. cbn [existsb orb].
    replace (is_upper separator) with false by reflexivity. cbn [orb].
    apply existsb_forallb_neg. exact NU. }
  unfold mixed_case. rewrite NUp. cbn [andb]. rewrite (lowercase_id _ NUp).
  unfold addr_text. fold vals c cs all dp. rewrite (split_last_sep_app hrp dp NS).
  unfold spec_tail. rewrite HL3. cbn [negb].
  replace (6 <=? length dp)%nat with true by (symmetry; apply Nat.leb_le; lia). cbn [negb].
  rewrite VO. unfold all at 1. cbn [app].
  replace (v <=? 16) with true by (symmetry; apply Z.leb_le; lia). cbn [negb].
  change (v :: vals ++ cs) with all. fold (seg_const v). unfold BECH32_CONST. fold (seg_const v). fold c.
  rewrite CK. cbn [negb].
  rewrite (droplast_app_exact vals cs 6) by apply create_checksum_length.
  rewrite CV, HP, HH. reflexivity.
Qed.

(* ---------- round trip ---------- *)
Theorem segwit_roundtrip net hrp v prog : In (net, hrp) networks -> 0 <= v <= 16 ->
  program_length_ok v (length prog) = true ->
  exists addr,
    segwit_addr prog v net = Ok addr
    /\ decode_segwit_addr addr = Ok (hrp, v, prog)
    /\ assert_valid_segwit hrp v prog = Ok tt
    /\ lenZ addr <= 90
    /\ spec_decode addr = Some (hrp, v, prog)
    /\ is_segwit_addr addr = Ok true
    /\ to_bitcoin_address_witness prog net v = Ok addr.
Proof.
  intros HN Hv HP. exists (addr_text hrp v prog).
  assert (HH : existsb (bytes_eqb hrp) segwit_hrps = true /\ lenZ hrp <= 4
               /\ (bytes_eqb net net_mainnet || bytes_eqb net net_testnet || bytes_eqb net net_regtest) = true).
  { apply network_cases in HN as [[-> ->] | [[-> ->] | [-> ->]]]; vm_compute; repeat split; congruence. }
  destruct HH as (HH & HL & HNet).
  assert (PL : lenZ prog <= 40).
  { unfold program_length_ok in HP. apply andb_true_iff in HP as [HP' _]. apply andb_true_iff in HP' as [_ P2].
    apply Nat.leb_le in P2. unfold lenZ. lia. }
  destruct (addr_text_valid hrp v prog HH Hv HP) as (SD & LN).
  assert (SA : segwit_addr prog v net = Ok (addr_text hrp v prog)) by (apply segwit_addr_ok; [assumption|lia|lia]).
  pose proof (proj2 (accept_iff_spec _ _) SD) as DV.
  apply decode_valid_parts in DV as (D & S).
  repeat split; try assumption.
  - rewrite is_segwit_addr_spec. unfold valid_segwit. now rewrite SD.
  - unfold to_bitcoin_address_witness, in_range_Z. rewrite HNet.
    replace (0 <=? v) with true by (symmetry; apply Z.leb_le; lia).
    replace (v <? 17) with true by (symmetry; apply Z.ltb_lt; lia). cbn [andb assert_ bind]. exact SA.
Qed.

(* ---------- derived forms used by Props/C06.v ---------- *)
Lemma checksum_sound_both (hrp : bytes) (d : list Z) : in_range 32 d ->
  bech32_verify_checksum hrp (d ++ bech32_create_checksum hrp d 1) 1 = true /\
  bech32_verify_checksum hrp (d ++ bech32_create_checksum hrp d 0x2bc830a3) 0x2bc830a3 = true.
Proof. intros H. split; [exact (checksum_sound_bech32 hrp d H)|exact (checksum_sound_bech32m hrp d H)]. Qed.

Lemma decode_is_bip173_regrouping (data : bytes) (vs : list Z) :
  values_of data = Some vs -> vs <> [] ->
  bech32_decode data = match convert_5to8 vs with Some p => Ok p | None => Err AssertionE end.
Proof.
  intros H N. pose proof (values_of_mapM _ _ H) as M.
  rewrite (bech32_decode_vals _ _ M). apply decode_vals_spec; [|exact N].
  now apply mapM_int_map_ok in M as (_ & R & _).
Qed.

Lemma accept_iff_spec_parts (s hrp : bytes) (v : Z) (prog : bytes) :
  (decode_segwit_addr s = Ok (hrp, v, prog) /\ assert_valid_segwit hrp v prog = Ok tt)
  <-> spec_decode s = Some (hrp, v, prog).
Proof. rewrite <- decode_valid_parts. apply accept_iff_spec. Qed.

Lemma accept_iff_valid (s : bytes) : (exists r, decode_valid s = Ok r) <-> valid_segwit s = true.
Proof.
  unfold valid_segwit. split.
  - intros [r H]. apply accept_iff_spec in H. now rewrite H.
  - destruct (spec_decode s) as [r|] eqn:E; [|discriminate]. intros _. exists r. now apply accept_iff_spec.
Qed.

Lemma only_assertion_errors (s : bytes) (e : err) :
  (decode_valid s = Err e -> e = AssertionE) /\ (decode_segwit_addr s = Err e -> e = AssertionE).
Proof. split; [apply decode_valid_error_kind|apply decode_segwit_addr_error_kind]. Qed.

Lemma classifiers_exact (sha256 : bytes -> bytes) (s : bytes) :
  is_segwit_addr s = Ok (valid_segwit s)
  /\ is_addr sha256 s = Ok (is_base58check sha256 s || valid_segwit s)
  /\ assert_addr sha256 s = (if is_base58check sha256 s || valid_segwit s then Ok true else Err AssertionE).
Proof. split; [apply is_segwit_addr_spec|split; [apply is_addr_spec|apply assert_addr_spec]]. Qed.

(* a valid Bech32 string without any letter is rejected by parse_bech32 (generic Bech32 layer only) *)
Import Coq.Init.Byte.
Definition no_letter_bech32 : bytes := [x32; x31; x37; x39; x38; x30; x32; x33; x36; x30; x34].   (* b"21798023604" *)
Lemma bech32_without_letters_refuted :
  exists s, spec_bech32_decode s 1 = Some ([x32], [30; 5; 7])
            /\ parse_bech32 s = Err AssertionE /\ decode_bech32_string s 1 = Err AssertionE.
Proof. exists no_letter_bech32. vm_compute. auto. Qed.

(* ---------- inversion lemmas for callers of the classifier (C08: scriptpubkey's segwit branch) ---------- *)
Lemma spec_decode_facts s h v p : spec_decode s = Some (h, v, p) ->
  existsb (bytes_eqb h) segwit_hrps = true /\ 0 <= v <= 16 /\ program_length_ok v (length p) = true.
Proof.
  rewrite spec_decode_unfold. intros H.
  destruct (negb _); [discriminate|]. destruct (mixed_case s); [discriminate|].
  destruct (split_last_sep (lowercase s)) as [[h' d]|]; [|discriminate].
  unfold spec_tail in H.
  destruct (negb _); [discriminate|]. destruct (negb _); [discriminate|].
  destruct (values_of d) as [[|v' rest]|] eqn:VO; try discriminate.
  destruct (v' <=? 16) eqn:V16; [|discriminate]. cbn [negb] in H.
  destruct (negb _); [discriminate|].
  destruct (convert_5to8 _) as [p'|]; [|discriminate].
  destruct (program_length_ok v' (length p') && existsb (bytes_eqb h') segwit_hrps) eqn:E; [|discriminate].
  injection H as -> -> ->. apply andb_true_iff in E as [E1 E2]. apply Z.leb_le in V16.
  pose proof (values_of_mapM _ _ VO) as M. apply mapM_int_map_ok in M as (_ & R & _).
  inversion R; subst. repeat split; auto; lia.
Qed.

Lemma is_segwit_addr_true_inv s : is_segwit_addr s = Ok true ->
  exists h v p, decode_segwit_addr s = Ok (h, v, p) /\ assert_valid_segwit h v p = Ok tt
                /\ spec_decode s = Some (h, v, p)
                /\ existsb (bytes_eqb h) segwit_hrps = true /\ 0 <= v <= 16
                /\ program_length_ok v (length p) = true.
Proof.
  rewrite is_segwit_addr_spec. unfold valid_segwit. intros H.
  destruct (spec_decode s) as [[[h v] p]|] eqn:SD; [|discriminate]. exists h, v, p.
  pose proof (proj2 (accept_iff_spec _ _) SD) as DV. apply decode_valid_parts in DV as (D & S).
  destruct (spec_decode_facts _ _ _ _ SD) as (F1 & F2 & F3). auto 10.
Qed.

Lemma is_segwit_addr_false_iff s : is_segwit_addr s = Ok false <-> spec_decode s = None.
Proof.
  rewrite is_segwit_addr_spec. unfold valid_segwit. destruct (spec_decode s); split; intros H; congruence.
Qed.

(* ---------- the `bits bech32` command line entry point (model of __main__.py's branch) ---------- *)
(* --decode reports a segwit address (network / witness_version / witness_program) exactly for the strings
   BIP173/BIP350 define as valid segwit addresses, with the triple they define *)
Theorem cli_decode_segwit_iff s h v p :
  cli_bech32_decode s = Ok (CliSegwit h v p) <-> spec_decode s = Some (h, v, p).
Proof.
  unfold cli_bech32_decode. rewrite is_segwit_addr_spec. cbn [bind]. unfold valid_segwit.
  destruct (spec_decode s) as [[[h' v'] p']|] eqn:SD.
  - pose proof (proj2 (accept_iff_spec _ _) SD) as DV. apply decode_valid_parts in DV as (D & _).
    destruct (spec_decode_facts _ _ _ _ SD) as (F & _). rewrite D. cbn [bind].
    change [hrp_bc; hrp_tb; hrp_bcrt] with segwit_hrps. rewrite F. cbn [assert_ bind].
    split; intros H; injection H as -> -> ->; reflexivity.
  - split; [|discriminate]. destruct (decode_bech32_string s 1) as [[h' p']|]; cbn [bind]; discriminate.
Qed.

(* with --witness-version v, 0 <= v <= 16, the encoder is segwit_addr (Bech32 for 0, Bech32m for 1..16) *)
Theorem cli_encode_is_segwit_addr net hrp v data : In (net, hrp) networks -> 0 <= v <= 16 ->
  cli_bech32_encode hrp data (Some v) false = segwit_addr data v net.
Proof.
  intros HN Hv.
  assert (R : in_range_Z v 0 17 = true).
  { unfold in_range_Z. replace (0 <=? v) with true by (symmetry; apply Z.leb_le; lia).
    replace (v <? 17) with true by (symmetry; apply Z.ltb_lt; lia). reflexivity. }
  assert (E : segwit_addr data v net
              = bech32_encode hrp data (chars_slice v) (if v =? 0 then 1 else BECH32M_CONST)).
  { unfold segwit_addr. rewrite R.
    apply network_cases in HN as [[-> ->] | [[-> ->] | [-> ->]]].
    - change (bytes_eqb net_mainnet net_mainnet) with true. reflexivity.
    - change (bytes_eqb net_testnet net_mainnet) with false. change (bytes_eqb net_testnet net_testnet) with true.
      reflexivity.
    - change (bytes_eqb net_regtest net_mainnet) with false. change (bytes_eqb net_regtest net_testnet) with false.
      change (bytes_eqb net_regtest net_regtest) with true. reflexivity. }
  rewrite E. unfold cli_bech32_encode. rewrite R. cbn [bind].
  destruct (bech32_encode hrp data (chars_slice v) (if v =? 0 then 1 else BECH32M_CONST)); reflexivity.
Qed.

(* a witness version outside 0..16 is refused (ValueError), whatever the hrp and the data are *)
Theorem cli_encode_refuses_version hrp data v pr : v < 0 \/ 16 < v ->
  cli_bech32_encode hrp data (Some v) pr = Err ValueE.
Proof.
  intros Hv. unfold cli_bech32_encode, in_range_Z.
  destruct (Z.leb_spec 0 v), (Z.ltb_spec v 17); cbn [andb bind]; try reflexivity. lia.
Qed.

(* hence every in-range use yields a valid segwit address that decodes to the inputs *)
Theorem cli_encode_roundtrip net hrp v prog : In (net, hrp) networks -> 0 <= v <= 16 ->
  program_length_ok v (length prog) = true ->
  exists addr, cli_bech32_encode hrp prog (Some v) false = Ok addr
               /\ spec_decode addr = Some (hrp, v, prog)
               /\ cli_bech32_decode addr = Ok (CliSegwit hrp v prog).
Proof.
  intros HN Hv HP. destruct (segwit_roundtrip net hrp v prog HN Hv HP) as (addr & SA & _ & _ & _ & SD & _).
  exists addr. rewrite (cli_encode_is_segwit_addr net hrp v prog HN Hv). repeat split; auto.
  now apply cli_decode_segwit_iff.
Qed.
