(* PEM armor for ANY label: decode_pem (encode_pem der BEGIN-label END-label) = der whenever the label is not empty and
   contains neither a newline nor "-"; what decode_pem refuses. *)
From Coq Require Import ZArith List Bool Lia.
Require Import Bits.Lib.Result Bits.Lib.Bytes Bits.Model.Pem Bits.Proofs.PemArmor Bits.Model.PemExt.
Import ListNotations.
Import Coq.Init.Byte.
Local Open Scope nat_scope.

Definition clean_label (label : bytes) : Prop :=
  label <> [] /\ forall c, In c label -> c <> nl /\ c <> x2d.

Lemma byte_eqb_false c d : c <> d -> byte_eqb c d = false.
Proof. intros N. destruct (byte_eqb c d) eqn:E; [apply byte_eqb_eq in E; contradiction|reflexivity]. Qed.

Lemma last_dashes_tail i best : 1 <= i -> last_dashes dashes i best = Some (i + 5).
Proof. intros H. destruct i as [|i]; [lia|]. reflexivity. Qed.

Lemma last_dashes_label label : (forall c, In c label -> c <> x2d) -> forall i best,
  last_dashes (label ++ dashes) i best = last_dashes dashes (i + length label) best.
Proof.
  induction label as [|c label IH]; intros H i best.
  - cbn [app length]. now rewrite Nat.add_0_r.
  - cbn [app last_dashes length].
    assert (SW : starts_with dashes (c :: label ++ dashes) = false).
    { unfold dashes at 1. cbn [starts_with].
      rewrite (byte_eqb_false x2d c) by (intros E; apply (H c); [now left|now symmetry]). reflexivity. }
    rewrite SW, andb_false_r. rewrite IH by (intros d Hd; apply H; now right).
    f_equal. lia.
Qed.

Lemma skipn_app_lt {A} k (l1 l2 : list A) : k <= length l1 -> skipn k (l1 ++ l2) = skipn k l1 ++ l2.
Proof. intros H. rewrite skipn_app. replace (k - length l1) with 0 by lia. reflexivity. Qed.
Lemma skipn_app_ge {A} k (l1 l2 : list A) : length l1 <= k -> skipn k (l1 ++ l2) = skipn (k - length l1) l2.
Proof. intros H. rewrite skipn_app, skipn_all2 by lia. reflexivity. Qed.

Theorem hdr_ok_clean label : clean_label label -> hdr_ok label = true.
Proof.
  intros [NE CL]. unfold hdr_ok.
  assert (ND : forall c, In c label -> c <> x2d) by (intros c Hc; now apply CL).
  apply andb_true_iff. split; [apply andb_true_iff; split|].
  - unfold no_nl. rewrite forallb_app. apply andb_true_iff. split; [|reflexivity].
    apply forallb_forall. intros c Hc. apply negb_true_iff, byte_eqb_false. now apply CL.
  - rewrite last_dashes_label by exact ND. rewrite last_dashes_tail.
    + rewrite app_length. cbn [length dashes plus]. apply Nat.eqb_eq. unfold dashes. cbn [length]. lia.
    + destruct label; [congruence|cbn [length]; lia].
  - apply forallb_forall. intros k Hk. apply in_seq in Hk. destruct Hk as [_ Hk]. cbn [plus] in Hk.
    unfold pem_header in *. rewrite <- !app_assoc in *. rewrite !app_length in Hk.
    change (length begin_pre) with 11 in Hk. change (length dashes) with 5 in Hk. cbn [length] in Hk.
    destruct (Nat.lt_ge_cases k 11) as [K1|K1].
    { rewrite skipn_app_lt by (change (length begin_pre) with 11; lia).
      do 11 (destruct k as [|k]; [reflexivity|]). lia. }
    rewrite skipn_app_ge by (change (length begin_pre) with 11; lia). change (length begin_pre) with 11.
    destruct (Nat.lt_ge_cases (k - 11) (length label)) as [K2|K2].
    { rewrite skipn_app_lt by lia.
      destruct (skipn (k - 11) label) as [|d t] eqn:E.
      - apply (f_equal (@length _)) in E. rewrite skipn_length in E. cbn in E. lia.
      - cbn [app]. unfold end_pre, dashes. cbn [app]. apply mismatch_head. intros E'. apply (ND d); [|now symmetry].
        rewrite <- (firstn_skipn (k - 11) label), E. apply in_or_app. right. now left. }
    rewrite skipn_app_ge by lia.
    remember (k - 11 - length label) as j eqn:Ej.
    assert (Hj : j < 6) by lia.
    do 6 (destruct j as [|j]; [reflexivity|]). lia.
Qed.

Lemma hdr_ok_cert : hdr_ok label_cert = true. Proof. vm_compute. reflexivity. Qed.

(* ---------- what is refused ---------- *)
Lemma re_search_ge pre s : forall i j e, re_search pre s i = Some (j, e) -> i <= j.
Proof.
  induction s as [|c s IH]; intros i j e H; cbn [re_search] in H.
  - destruct (match_here pre []); [injection H as <- _; lia|discriminate].
  - destruct (match_here pre (c :: s)); [injection H as <- _; lia|]. apply IH in H. lia.
Qed.

Lemma re_search_at pre s i e : re_search pre s i = Some (i, e) -> starts_with pre s = true.
Proof.
  intros H. assert (M : match_here pre s <> None).
  { destruct s as [|c s]; cbn [re_search] in H; destruct (match_here pre _) eqn:E; try discriminate; try congruence.
    apply re_search_ge in H. lia. }
  unfold match_here in M. destruct (starts_with pre s); [reflexivity|congruence].
Qed.

Section Refusals.
  Variable b64dec : bytes -> option bytes.

  (* the shape of everything decode_pem accepts *)
  Theorem decode_pem_ok_inv pem der : decode_pem b64dec pem = Ok der ->
    let s := strip pem in
    exists he fs, re_search begin_pre s 0 = Some (0, he) /\ re_search end_pre s 0 = Some (fs, length s) /\
                  b64dec (strip (slice he fs s)) = Some der /\ starts_with begin_pre s = true.
  Proof.
    unfold decode_pem, decode_base64_pem. intros H.
    destruct (re_search begin_pre (strip pem) 0) as [[[|hs] he]|] eqn:R1; try discriminate.
    destruct (re_search end_pre (strip pem) 0) as [[fs fe]|] eqn:R2; try discriminate.
    destruct (Nat.eqb fe (length (strip pem))) eqn:E; [|discriminate]. apply Nat.eqb_eq in E. subst fe.
    exists he, fs. repeat split; try reflexivity.
    - destruct (b64dec (strip (slice he fs (strip pem)))); cbn in H; [now injection H as ->|discriminate].
    - exact (re_search_at _ _ _ _ R1).
  Qed.

  (* every refusal is a ValueError (binascii.Error is one) *)
  Theorem decode_pem_err_kind pem e : decode_pem b64dec pem = Err e -> e = ValueE.
  Proof.
    unfold decode_pem, decode_base64_pem. intros H.
    destruct (re_search begin_pre (strip pem) 0) as [[[|hs] he]|]; try (now injection H).
    destruct (re_search end_pre (strip pem) 0) as [[fs fe]|]; try (now injection H).
    destruct (Nat.eqb fe (length (strip pem))); try (now injection H).
    destruct (b64dec (strip (slice he fs (strip pem)))); cbn in H; [discriminate|now injection H].
  Qed.

  (* text that (after stripping white space) does not begin with "-----BEGIN " is refused; so is a body base64 refuses *)
  Theorem decode_pem_no_header pem : starts_with begin_pre (strip pem) = false -> decode_pem b64dec pem = Err ValueE.
  Proof.
    intros H. destruct (decode_pem b64dec pem) as [der|e] eqn:D.
    - destruct (decode_pem_ok_inv pem der D) as (he & fs & _ & _ & _ & S). cbv zeta in S. congruence.
    - f_equal. exact (decode_pem_err_kind pem e D).
  Qed.

  Theorem decode_pem_no_footer pem : re_search end_pre (strip pem) 0 = None -> decode_pem b64dec pem = Err ValueE.
  Proof.
    intros H. unfold decode_pem, decode_base64_pem. rewrite H.
    destruct (re_search begin_pre (strip pem) 0) as [[[|hs] he]|]; reflexivity.
  Qed.
End Refusals.

Section RoundTrip.
  Variable b64enc : bytes -> bytes.
  Variable b64dec : bytes -> option bytes.
  Hypothesis b64_roundtrip : forall x, b64dec (strip (encodebytes b64enc x)) = Some x.
  Hypothesis b64_clean : forall x c, In c (b64enc x) -> c <> x2d.

  Theorem decode_pem_roundtrip label der : clean_label label ->
    decode_pem b64dec (encode_pem b64enc der (pem_header label) (pem_footer label)) = Ok der.
  Proof using b64_roundtrip b64_clean.
    intros CL. unfold decode_pem. apply (armor_roundtrip b64enc b64dec b64_roundtrip b64_clean). now apply hdr_ok_clean.
  Qed.

  Theorem decode_pem_roundtrip_default der : decode_pem b64dec (encode_pem_default b64enc der) = Ok der.
  Proof using b64_roundtrip b64_clean.
    unfold decode_pem, encode_pem_default.
    apply (armor_roundtrip b64enc b64dec b64_roundtrip b64_clean). exact hdr_ok_cert.
  Qed.

End RoundTrip.
