(* Proofs about the script codec of Model/Script.v: push selection, script(), decode_script(),
   asm_disasm, disasm_asm.  (Template builders: Proofs/ScriptBuilders.v.) *)
From Coq Require Import ZArith List Lia Bool.
Require Import Bits.Lib.Result Bits.Lib.Bytes Bits.Lib.PyStr Bits.Spec.Opcodes Bits.Spec.Script Bits.Model.Script.
Require Import Bits.GenProps.Opcodes Bits.Proofs.ScriptTable.
Import ListNotations.
Import Coq.Init.Byte.
Local Open Scope Z_scope.

(* ---------------------------------------------------------------------------------------------- *)
(* push_op: the push operation chosen for a length                                                 *)
(* ---------------------------------------------------------------------------------------------- *)
Lemma op_byte_pd1 : op_byte s_PUSHDATA1 = Ok [x4c].
Proof. vm_compute. reflexivity. Qed.
Lemma op_byte_pd2 : op_byte s_PUSHDATA2 = Ok [x4d].
Proof. vm_compute. reflexivity. Qed.
Lemma op_byte_pd4 : op_byte s_PUSHDATA4 = Ok [x4e].
Proof. vm_compute. reflexivity. Qed.

Lemma to_le_chk_ok k n : 0 <= n < 256 ^ Z.of_nat k -> to_le_chk k n = Ok (to_le k n).
Proof.
  intros H. unfold to_le_chk.
  destruct (Z.leb_spec 0 n); [|lia]. destruct (Z.ltb_spec n (256 ^ Z.of_nat k)); [reflexivity|lia].
Qed.
Lemma to_le_chk_1 n : 0 <= n < 256 -> to_le_chk 1 n = Ok [z2b n].
Proof. intros H. now rewrite to_le_chk_ok by (change (256 ^ Z.of_nat 1) with 256; lia). Qed.
Lemma to_le_chk_2 n : 0 <= n < 65536 -> to_le_chk 2 n = Ok (to_le 2 n).
Proof. intros H. apply to_le_chk_ok. change (256 ^ Z.of_nat 2) with 65536. lia. Qed.
Lemma to_le_chk_4 n : 0 <= n < 4294967296 -> to_le_chk 4 n = Ok (to_le 4 n).
Proof. intros H. apply to_le_chk_ok. change (256 ^ Z.of_nat 4) with 4294967296. lia. Qed.
Lemma to_be_chk_1 n : 0 <= n < 256 -> to_be_chk 1 n = Ok [z2b n].
Proof.
  intros H. unfold to_be_chk. change (256 ^ Z.of_nat 1) with 256.
  destruct (Z.leb_spec 0 n); [|lia]. destruct (Z.ltb_spec n 256); [reflexivity|lia].
Qed.

(* (bit_length + 7) // 8 *)
Lemma min_bytes_bounds n k : 0 < n -> 0 <= k ->
  (2 ^ (8 * k) <= n -> k + 1 <= (Z.log2 n + 1 + 7) / 8) /\ (n < 2 ^ (8 * k) -> (Z.log2 n + 1 + 7) / 8 <= k).
Proof.
  intros Hn Hk. pose proof (Z.log2_nonneg n) as L0. split; intros H.
  - apply Z.log2_le_pow2 in H; [|lia]. apply Z.div_le_lower_bound; lia.
  - apply Z.log2_lt_pow2 in H; [|lia].
    assert ((Z.log2 n + 1 + 7) / 8 < k + 1) by (apply Z.div_lt_upper_bound; lia). lia.
Qed.

Lemma push_op_spec len : 0 <= len < 2 ^ 32 -> push_op len = Ok (form_prefix (minimal_form len) len).
Proof.
  intros H. unfold push_op, minimal_form.
  destruct (Z.ltb_spec 75 len) as [L|L].
  2:{ destruct (Z.leb_spec len 75); [|lia]. cbn [form_prefix]. apply to_le_chk_1. lia. }
  destruct (Z.leb_spec len 75); [lia|].
  set (mb := (Z.log2 len + 1 + 7) / 8).
  assert (Hlo : forall k, 0 <= k -> 2 ^ (8 * k) <= len -> k + 1 <= mb)
    by (intros k Hk; apply (min_bytes_bounds len k); lia).
  assert (Hhi : forall k, 0 <= k -> len < 2 ^ (8 * k) -> mb <= k)
    by (intros k Hk; apply (min_bytes_bounds len k); lia).
  pose proof (Hlo 0 ltac:(lia) ltac:(change (2 ^ (8 * 0)) with 1; lia)) as M1.
  destruct (Z.leb_spec len 255).
  - pose proof (Hhi 1 ltac:(lia) ltac:(change (2 ^ (8 * 1)) with 256; lia)).
    destruct (Z.eqb_spec mb 1); [|lia].
    cbn [bind]. rewrite op_byte_pd1. cbn [bind]. rewrite to_le_chk_1 by lia. reflexivity.
  - pose proof (Hlo 1 ltac:(lia) ltac:(change (2 ^ (8 * 1)) with 256; lia)).
    destruct (Z.eqb_spec mb 1); [lia|].
    destruct (Z.leb_spec len 65535).
    + pose proof (Hhi 2 ltac:(lia) ltac:(change (2 ^ (8 * 2)) with 65536; lia)).
      destruct (Z.eqb_spec mb 2); [|lia].
      cbn [bind]. rewrite op_byte_pd2. cbn [bind]. rewrite to_le_chk_2 by lia. reflexivity.
    + pose proof (Hlo 2 ltac:(lia) ltac:(change (2 ^ (8 * 2)) with 65536; lia)).
      pose proof (Hhi 4 ltac:(lia) ltac:(change (2 ^ (8 * 4)) with (2 ^ 32); lia)).
      destruct (Z.eqb_spec mb 2); [lia|]. destruct (Z.leb_spec mb 4); [|lia].
      cbn [bind]. rewrite op_byte_pd4. cbn [bind]. rewrite to_le_chk_4 by lia. reflexivity.
Qed.

Lemma push_op_too_big len : 2 ^ 32 <= len -> push_op len = Err ValueE.
Proof.
  intros H. unfold push_op.
  destruct (Z.ltb_spec 75 len) as [L|L]; [|lia].
  set (mb := (Z.log2 len + 1 + 7) / 8).
  assert (5 <= mb) by (apply (min_bytes_bounds len 4); [lia|lia|exact H]).
  destruct (Z.eqb_spec mb 1); [lia|]. destruct (Z.eqb_spec mb 2); [lia|]. destruct (Z.leb_spec mb 4); [lia|].
  reflexivity.
Qed.

(* ---------------------------------------------------------------------------------------------- *)
(* script()                                                                                        *)
(* ---------------------------------------------------------------------------------------------- *)
Lemma script_arg_data d : 0 <= lenZ d < 2 ^ 32 -> script_arg (hex_of_bytes d) = Ok (spec_push d).
Proof.
  intros H. unfold script_arg. rewrite s_OP_eq, hex_not_OP, fromhex_hex. cbn [bind].
  rewrite push_op_spec by exact H. reflexivity.
Qed.

Lemma script_arg_data_too_big d : 2 ^ 32 <= lenZ d -> script_arg (hex_of_bytes d) = Err ValueE.
Proof.
  intros H. unfold script_arg. rewrite s_OP_eq, hex_not_OP, fromhex_hex. cbn [bind].
  now rewrite push_op_too_big.
Qed.

Lemma script_arg_op n v : assoc_b n G.op_int_map = Some v -> script_arg n = Ok [z2b v].
Proof.
  intros H. destruct (table_entry n v H) as (Hs & Hr & _).
  unfold script_arg. rewrite Hs. unfold getattr_op. rewrite H. cbn [of_option bind].
  now apply to_be_chk_1.
Qed.

Lemma script_cons a rest ra rr : script_arg a = Ok ra -> script rest = Ok rr -> script (a :: rest) = Ok (ra ++ rr).
Proof. intros H1 H2. cbn [script]. rewrite H1, H2. reflexivity. Qed.

Lemma script_app a b ra rb : script a = Ok ra -> script b = Ok rb -> script (a ++ b) = Ok (ra ++ rb).
Proof.
  revert ra. induction a as [|x a IH]; intros ra Ha Hb.
  - cbn in Ha. injection Ha as <-. exact Hb.
  - cbn [script app] in *. destruct (script_arg x) as [rx|e]; [|discriminate]. cbn [bind] in *.
    destruct (script a) as [r1|e]; [|discriminate]. cbn [bind] in *. injection Ha as <-.
    rewrite (IH r1 eq_refl Hb). cbn [bind]. now rewrite app_assoc.
Qed.

Lemma script_arg_item it : valid_item it -> script_arg (render it) = Ok (spec_asm_item it).
Proof.
  destruct it as [n|d]; cbn [valid_item render spec_asm_item]; intros H.
  - unfold spec_nonpush_name in H. destruct (spec_value n) as [v|] eqn:E; [|discriminate].
    apply script_arg_op. now apply spec_name_in_table.
  - apply script_arg_data. lia.
Qed.

Lemma script_items items : Forall valid_item items -> script (map render items) = Ok (spec_asm items).
Proof.
  induction 1 as [|it its H _ IH]; [reflexivity|].
  cbn [map]. unfold spec_asm. cbn [map concat]. apply script_cons; [now apply script_arg_item | exact IH].
Qed.

(* ---------------------------------------------------------------------------------------------- *)
(* decode_script(): fuel, unfolding equations                                                      *)
(* ---------------------------------------------------------------------------------------------- *)
Lemma zdrop_le {A} z (l : list A) n : (length l <= n)%nat -> (length (zdrop z l) <= n)%nat.
Proof. pose proof (zdrop_length_le z l). lia. Qed.
Lemma skipn_le {A} k (l : list A) n : (length l <= n)%nat -> (length (skipn k l) <= n)%nat.
Proof. pose proof (skipn_length_le k l). lia. Qed.

Lemma decode_loop_fuel : forall f1 f2 sb acc, (length sb <= f1)%nat -> (length sb <= f2)%nat ->
  decode_loop f1 sb acc = decode_loop f2 sb acc.
Proof.
  induction f1 as [|f1 IH]; intros f2 sb acc H1 H2.
  - destruct sb; [destruct f2; reflexivity | cbn [length] in H1; lia].
  - destruct sb as [|b0 rest]; [destruct f2; reflexivity|].
    destruct f2 as [|f2]; [cbn [length] in H2; lia|].
    cbn [length] in H1, H2. apply le_S_n in H1. apply le_S_n in H2.
    cbn [decode_loop].
    destruct ((1 <=? b2z b0) && (b2z b0 <? 76)).
    + apply IH; apply zdrop_le; assumption.
    + destruct (int_op (b2z b0)) as [op|e]; [|reflexivity].
      destruct (bytes_eqb op s_PUSHDATA1).
      * destruct rest as [|l r]; [reflexivity|]. cbn [length] in H1, H2. apply IH; apply zdrop_le; lia.
      * destruct (bytes_eqb op s_PUSHDATA2); [apply IH; apply zdrop_le, skipn_le; assumption|].
        destruct (bytes_eqb op s_PUSHDATA4); [apply IH; apply zdrop_le, skipn_le; assumption|].
        apply IH; assumption.
Qed.

(* the supplied fuel (the length of the script) is never exhausted *)
Lemma decode_loop_no_fuel : forall f sb acc, (length sb <= f)%nat -> decode_loop f sb acc <> Err FuelE.
Proof.
  induction f as [|f IH]; intros sb acc H.
  - destruct sb; [discriminate | cbn [length] in H; lia].
  - destruct sb as [|b0 rest]; [discriminate|].
    cbn [length] in H. apply le_S_n in H. cbn [decode_loop].
    destruct ((1 <=? b2z b0) && (b2z b0 <? 76)).
    + apply IH, zdrop_le, H.
    + unfold int_op. destruct (assoc_z (b2z b0) G.int_op_map) as [op|]; [|discriminate]. cbn [of_option].
      destruct (bytes_eqb op s_PUSHDATA1).
      * destruct rest as [|l r]; [discriminate|]. cbn [length] in H. apply IH, zdrop_le. lia.
      * destruct (bytes_eqb op s_PUSHDATA2); [apply IH, zdrop_le, skipn_le, H|].
        destruct (bytes_eqb op s_PUSHDATA4); [apply IH, zdrop_le, skipn_le, H|].
        apply IH, H.
Qed.

Lemma decode_script_no_fuel sb : decode_script sb <> Err FuelE.
Proof. apply decode_loop_no_fuel. lia. Qed.

(* fuel-free view of the loop *)
Definition dec (sb : bytes) (acc : list bytes) : result (list bytes) := decode_loop (length sb) sb acc.

Lemma decode_script_dec sb : decode_script sb = dec sb [].
Proof. reflexivity. Qed.
Lemma dec_nil acc : dec [] acc = Ok (rev acc).
Proof. reflexivity. Qed.
Lemma dec_refuel f sb acc : (length sb <= f)%nat -> decode_loop f sb acc = dec sb acc.
Proof. intros H. unfold dec. apply decode_loop_fuel; lia. Qed.

Lemma dec_unfold b0 rest acc : dec (b0 :: rest) acc =
  if (1 <=? b2z b0) && (b2z b0 <? 76) then
    dec (zdrop (b2z b0) rest) (hex_of_bytes (ztake (b2z b0) rest) :: acc)
  else match int_op (b2z b0) with
       | Err e => Err e
       | Ok op =>
         if bytes_eqb op s_PUSHDATA1 then
           match rest with
           | [] => Err IndexE
           | l :: r => dec (zdrop (b2z l) r) (hex_of_bytes (ztake (b2z l) r) :: acc)
           end
         else if bytes_eqb op s_PUSHDATA2 then
           dec (zdrop (of_le (firstn 2 rest)) (skipn 2 rest))
               (hex_of_bytes (ztake (of_le (firstn 2 rest)) (skipn 2 rest)) :: acc)
         else if bytes_eqb op s_PUSHDATA4 then
           dec (zdrop (of_le (firstn 4 rest)) (skipn 4 rest))
               (hex_of_bytes (ztake (of_le (firstn 4 rest)) (skipn 4 rest)) :: acc)
         else dec rest (op :: acc)
       end.
Proof.
  unfold dec at 1. cbn [length decode_loop].
  destruct ((1 <=? b2z b0) && (b2z b0 <? 76)); [apply dec_refuel, zdrop_length_le|].
  destruct (int_op (b2z b0)) as [op|e]; [|reflexivity].
  destruct (bytes_eqb op s_PUSHDATA1).
  { destruct rest as [|l r]; [reflexivity|]. apply dec_refuel. cbn [length]. apply zdrop_le. lia. }
  destruct (bytes_eqb op s_PUSHDATA2); [apply dec_refuel, zdrop_le, skipn_length_le|].
  destruct (bytes_eqb op s_PUSHDATA4); [apply dec_refuel, zdrop_le, skipn_length_le|].
  apply dec_refuel. lia.
Qed.

Lemma int_op_76 : int_op 76 = Ok s_PUSHDATA1.
Proof. vm_compute. reflexivity. Qed.
Lemma int_op_77 : int_op 77 = Ok s_PUSHDATA2.
Proof. vm_compute. reflexivity. Qed.
Lemma int_op_78 : int_op 78 = Ok s_PUSHDATA4.
Proof. vm_compute. reflexivity. Qed.

Lemma dec_direct b0 rest acc : 1 <= b2z b0 < 76 ->
  dec (b0 :: rest) acc = dec (zdrop (b2z b0) rest) (hex_of_bytes (ztake (b2z b0) rest) :: acc).
Proof.
  intros H. rewrite dec_unfold.
  destruct (Z.leb_spec 1 (b2z b0)); [|lia]. destruct (Z.ltb_spec (b2z b0) 76); [|lia]. reflexivity.
Qed.

Lemma dec_op b0 rest acc op :
  (1 <=? b2z b0) && (b2z b0 <? 76) = false -> int_op (b2z b0) = Ok op ->
  bytes_eqb op s_PUSHDATA1 = false -> bytes_eqb op s_PUSHDATA2 = false -> bytes_eqb op s_PUSHDATA4 = false ->
  dec (b0 :: rest) acc = dec rest (op :: acc).
Proof. intros H0 H1 H2 H3 H4. rewrite dec_unfold, H0, H1, H2, H3, H4. reflexivity. Qed.

Lemma dec_pd1 b0 l r acc : b2z b0 = 76 ->
  dec (b0 :: l :: r) acc = dec (zdrop (b2z l) r) (hex_of_bytes (ztake (b2z l) r) :: acc).
Proof. intros H. rewrite dec_unfold, H, int_op_76. reflexivity. Qed.

Lemma dec_pd2 b0 rest acc : b2z b0 = 77 ->
  dec (b0 :: rest) acc = dec (zdrop (of_le (firstn 2 rest)) (skipn 2 rest))
                             (hex_of_bytes (ztake (of_le (firstn 2 rest)) (skipn 2 rest)) :: acc).
Proof. intros H. rewrite dec_unfold, H, int_op_77. reflexivity. Qed.

Lemma dec_pd4 b0 rest acc : b2z b0 = 78 ->
  dec (b0 :: rest) acc = dec (zdrop (of_le (firstn 4 rest)) (skipn 4 rest))
                             (hex_of_bytes (ztake (of_le (firstn 4 rest)) (skipn 4 rest)) :: acc).
Proof. intros H. rewrite dec_unfold, H, int_op_78. reflexivity. Qed.

(* ---------------------------------------------------------------------------------------------- *)
(* asm_disasm                                                                                      *)
(* ---------------------------------------------------------------------------------------------- *)
Lemma firstn_app_exact {A} (a b : list A) n : length a = n -> firstn n (a ++ b) = a.
Proof. intros <-. rewrite firstn_app, Nat.sub_diag, firstn_all. simpl. apply app_nil_r. Qed.
Lemma skipn_app_exact {A} (a b : list A) n : length a = n -> skipn n (a ++ b) = b.
Proof. intros <-. rewrite skipn_app, Nat.sub_diag, skipn_all. reflexivity. Qed.

Lemma dec_push d rest acc : 1 <= lenZ d < 2 ^ 32 ->
  dec (spec_push d ++ rest) acc = dec rest (hex_of_bytes d :: acc).
Proof.
  intros H. unfold spec_push, minimal_form.
  destruct (Z.leb_spec (lenZ d) 75).
  { cbn [form_prefix to_le app].
    rewrite dec_direct by (rewrite b2z_z2b; lia). rewrite b2z_z2b by lia.
    now rewrite ztake_app_exact, zdrop_app_exact. }
  destruct (Z.leb_spec (lenZ d) 255).
  { cbn [form_prefix to_le app]. rewrite dec_pd1 by reflexivity. rewrite b2z_z2b by lia.
    now rewrite ztake_app_exact, zdrop_app_exact. }
  destruct (Z.leb_spec (lenZ d) 65535).
  { cbn [form_prefix app]. rewrite <- app_assoc. rewrite dec_pd2 by reflexivity.
    rewrite (firstn_app_exact _ _ 2) by apply to_le_length.
    rewrite (skipn_app_exact _ _ 2) by apply to_le_length.
    rewrite of_le_to_le by (change (256 ^ Z.of_nat 2) with 65536; lia).
    now rewrite ztake_app_exact, zdrop_app_exact. }
  cbn [form_prefix app]. rewrite <- app_assoc. rewrite dec_pd4 by reflexivity.
  rewrite (firstn_app_exact _ _ 4) by apply to_le_length.
  rewrite (skipn_app_exact _ _ 4) by apply to_le_length.
  rewrite of_le_to_le by (change (256 ^ Z.of_nat 4) with (2 ^ 32); lia).
  now rewrite ztake_app_exact, zdrop_app_exact.
Qed.

Lemma dec_item it rest acc : valid_item it ->
  dec (spec_asm_item it ++ rest) acc = dec rest (render (canon it) :: acc).
Proof.
  destruct it as [n|d]; cbn [valid_item spec_asm_item canon render]; intros H.
  - unfold spec_nonpush_name in H. destruct (spec_value n) as [v|] eqn:E; [|discriminate].
    apply negb_true_iff in H.
    pose proof (spec_name_in_table n v E) as T.
    destruct (table_entry n v T) as (_ & Hr & Hnd & r & Hz & _).
    unfold rep_of. rewrite T, Hz.
    destruct (rep_not_pushdata v r Hz H) as (P1 & P2 & P4).
    cbn [app]. apply dec_op; rewrite ?b2z_z2b by lia; auto.
    + destruct (Z.leb_spec 1 v); [|reflexivity]. destruct (Z.ltb_spec v 76); [lia|reflexivity].
    + unfold int_op. now rewrite Hz.
  - now apply dec_push.
Qed.

Lemma dec_items items : Forall valid_item items -> forall rest acc,
  dec (spec_asm items ++ rest) acc = dec rest (rev (map render (map canon items)) ++ acc).
Proof.
  induction 1 as [|it its H _ IH]; intros rest acc; [reflexivity|].
  unfold spec_asm. cbn [map concat]. rewrite <- app_assoc. rewrite dec_item by exact H.
  fold (spec_asm its). rewrite IH. cbn [rev]. now rewrite <- app_assoc.
Qed.

Lemma decode_spec_asm items : Forall valid_item items ->
  decode_script (spec_asm items) = Ok (map render (map canon items)).
Proof.
  intros H. rewrite decode_script_dec. rewrite <- (app_nil_r (spec_asm items)).
  rewrite dec_items by exact H. rewrite dec_nil, app_nil_r. now rewrite rev_involutive.
Qed.

(* asm_disasm, with the assembled bytes named: they are the reference assembly of the items *)
Theorem asm_disasm items : Forall valid_item items ->
  script (map render items) = Ok (spec_asm items)
  /\ decode_script (spec_asm items) = Ok (map render (map canon items)).
Proof. intros H. split; [now apply script_items | now apply decode_spec_asm]. Qed.

(* the alias printed for a name denotes the same byte in the reference table *)
Theorem canon_same_byte n : spec_nonpush_name n = true ->
  spec_nonpush_name (rep_of n) = true /\ spec_value (rep_of n) = spec_value n.
Proof.
  unfold spec_nonpush_name. destruct (spec_value n) as [v|] eqn:E; [|discriminate]. intros H.
  rewrite (rep_of_same_byte n v E). auto.
Qed.

(* ---------------------------------------------------------------------------------------------- *)
(* push_minimal                                                                                    *)
(* ---------------------------------------------------------------------------------------------- *)
Definition length_field (f : push_form) (prefix : bytes) : bytes :=
  match f with Direct => prefix | _ => tl prefix end.

Theorem push_minimal d : 1 <= lenZ d < 2 ^ 32 ->
  let len := lenZ d in let f := minimal_form len in
  script [hex_of_bytes d] = Ok (form_prefix f len ++ d)
  /\ form_valid f len = true
  /\ (forall g, form_valid g len = true -> form_overhead f <= form_overhead g)
  /\ of_le (length_field f (form_prefix f len)) = len.
Proof.
  intros H len f. split; [|split; [|split]].
  - cbn [script]. rewrite script_arg_data by lia. cbn [bind]. now rewrite app_nil_r.
  - now apply minimal_form_valid.
  - intros g. apply minimal_form_least.
  - subst f. unfold minimal_form. fold len in H.
    destruct (Z.leb_spec len 75); [cbn [form_prefix length_field]; apply of_le_to_le; change (256 ^ Z.of_nat 1) with 256; lia|].
    destruct (Z.leb_spec len 255); [cbn [form_prefix length_field tl]; apply of_le_to_le; change (256 ^ Z.of_nat 1) with 256; lia|].
    destruct (Z.leb_spec len 65535); cbn [form_prefix length_field tl]; apply of_le_to_le.
    + change (256 ^ Z.of_nat 2) with 65536; lia.
    + change (256 ^ Z.of_nat 4) with (2 ^ 32); lia.
Qed.

Theorem push_too_big d rest : 2 ^ 32 <= lenZ d -> script (hex_of_bytes d :: rest) = Err ValueE.
Proof. intros H. cbn [script]. now rewrite script_arg_data_too_big. Qed.

(* ---------------------------------------------------------------------------------------------- *)
(* disasm_asm                                                                                      *)
(* ---------------------------------------------------------------------------------------------- *)
Lemma of_le_bound bs : 0 <= of_le bs < 256 ^ Z.of_nat (length bs).
Proof.
  unfold of_le. rewrite <- (rev_length bs). split; [apply of_be_nonneg | apply of_be_bound].
Qed.

Lemma byte_of_value b v : b2z b = v -> b = z2b v.
Proof. intros <-. now rewrite z2b_b2z. Qed.

Lemma script_push_step d strs tail :
  1 <= lenZ d < 2 ^ 32 -> script strs = Ok tail ->
  script (hex_of_bytes d :: strs) = Ok (spec_push d ++ tail).
Proof. intros H Hs. apply script_cons; [apply script_arg_data; lia | exact Hs]. Qed.

Lemma disasm_asm_gen : forall f bs, canonical_fuel f bs = true -> forall acc,
  exists strs, dec bs acc = Ok (rev acc ++ strs) /\ script strs = Ok bs.
Proof.
  induction f as [|f IH]; intros bs C acc.
  - destruct bs; [|discriminate]. exists []. split; [now rewrite dec_nil, app_nil_r | reflexivity].
  - destruct bs as [|b rest]; [exists []; split; [now rewrite dec_nil, app_nil_r | reflexivity]|].
    cbn [canonical_fuel] in C. pose proof (b2z_range b) as Rb.
    destruct ((1 <=? b2z b) && (b2z b <=? 75)) eqn:E1.
    { (* direct push *)
      apply andb_true_iff in E1. destruct E1 as [A1 A2]. apply Z.leb_le in A1, A2.
      apply andb_true_iff in C. destruct C as [C1 C2]. apply Z.leb_le in C1.
      set (v := b2z b) in *. set (d := ztake v rest).
      assert (Ld : lenZ d = v) by (apply ztake_lenZ; lia).
      destruct (IH _ C2 (hex_of_bytes d :: acc)) as (strs & D & S).
      exists (hex_of_bytes d :: strs). split.
      - rewrite dec_direct by (fold v; lia). fold v. fold d. rewrite D. cbn [rev]. now rewrite <- app_assoc.
      - rewrite (script_push_step d strs _ ltac:(lia) S).
        unfold spec_push, minimal_form. rewrite Ld. destruct (Z.leb_spec v 75); [|lia].
        cbn [form_prefix to_le app]. unfold v at 1. rewrite z2b_b2z. unfold d. now rewrite ztake_zdrop. }
    destruct (Z.eqb_spec (b2z b) 76) as [E2|E2].
    { (* PUSHDATA1 *)
      destruct rest as [|l r]; [discriminate|].
      apply andb_true_iff in C. destruct C as [C C3]. apply andb_true_iff in C. destruct C as [C1 C2].
      apply Z.leb_le in C1, C2. pose proof (b2z_range l) as Rl.
      set (n := b2z l) in *. set (d := ztake n r).
      assert (Ld : lenZ d = n) by (apply ztake_lenZ; lia).
      destruct (IH _ C3 (hex_of_bytes d :: acc)) as (strs & D & S).
      exists (hex_of_bytes d :: strs). split.
      - rewrite dec_pd1 by exact E2. fold n. fold d. rewrite D. cbn [rev]. now rewrite <- app_assoc.
      - rewrite (script_push_step d strs _ ltac:(lia) S).
        unfold spec_push, minimal_form. rewrite Ld. destruct (Z.leb_spec n 75); [lia|].
        destruct (Z.leb_spec n 255); [|lia].
        cbn [form_prefix to_le app]. unfold n at 1. rewrite z2b_b2z.
        rewrite (byte_of_value b 76 E2). unfold d. now rewrite ztake_zdrop. }
    destruct (Z.eqb_spec (b2z b) 77) as [E3|E3].
    { (* PUSHDATA2 *)
      apply andb_true_iff in C. destruct C as [C0 C]. apply andb_true_iff in C. destruct C as [C C3].
      apply andb_true_iff in C. destruct C as [C1 C2]. apply Z.leb_le in C0, C1, C2.
      assert (L2 : length (firstn 2 rest) = 2%nat) by (rewrite firstn_length; unfold lenZ in C0; lia).
      pose proof (of_le_bound (firstn 2 rest)) as Bn. rewrite L2 in Bn. change (256 ^ Z.of_nat 2) with 65536 in Bn.
      set (n := of_le (firstn 2 rest)) in *. set (r := skipn 2 rest) in *. set (d := ztake n r).
      assert (Lr : lenZ r = lenZ rest - 2) by (unfold r, lenZ in *; rewrite skipn_length; lia).
      assert (Ld : lenZ d = n) by (apply ztake_lenZ; lia).
      destruct (IH _ C3 (hex_of_bytes d :: acc)) as (strs & D & S).
      exists (hex_of_bytes d :: strs). split.
      - rewrite dec_pd2 by exact E3. fold n. fold r. fold d. rewrite D. cbn [rev]. now rewrite <- app_assoc.
      - rewrite (script_push_step d strs _ ltac:(lia) S).
        unfold spec_push, minimal_form. rewrite Ld. destruct (Z.leb_spec n 75); [lia|].
        destruct (Z.leb_spec n 255); [lia|]. destruct (Z.leb_spec n 65535); [|lia].
        cbn [form_prefix app]. rewrite (byte_of_value b 77 E3). change (z2b 77) with x4d.
        unfold n at 1. rewrite <- L2 at 1. rewrite to_le_of_le. rewrite <- app_assoc.
        unfold d. rewrite ztake_zdrop. unfold r. now rewrite firstn_skipn. }
    destruct (Z.eqb_spec (b2z b) 78) as [E4|E4].
    { (* PUSHDATA4 *)
      apply andb_true_iff in C. destruct C as [C0 C]. apply andb_true_iff in C. destruct C as [C C3].
      apply andb_true_iff in C. destruct C as [C1 C2]. apply Z.leb_le in C0, C1, C2.
      assert (L4 : length (firstn 4 rest) = 4%nat) by (rewrite firstn_length; unfold lenZ in C0; lia).
      pose proof (of_le_bound (firstn 4 rest)) as Bn. rewrite L4 in Bn. change (256 ^ Z.of_nat 4) with (2 ^ 32) in Bn.
      set (n := of_le (firstn 4 rest)) in *. set (r := skipn 4 rest) in *. set (d := ztake n r).
      assert (Lr : lenZ r = lenZ rest - 4) by (unfold r, lenZ in *; rewrite skipn_length; lia).
      assert (Ld : lenZ d = n) by (apply ztake_lenZ; lia).
      destruct (IH _ C3 (hex_of_bytes d :: acc)) as (strs & D & S).
      exists (hex_of_bytes d :: strs). split.
      - rewrite dec_pd4 by exact E4. fold n. fold r. fold d. rewrite D. cbn [rev]. now rewrite <- app_assoc.
      - rewrite (script_push_step d strs _ ltac:(lia) S).
        unfold spec_push, minimal_form. rewrite Ld. destruct (Z.leb_spec n 75); [lia|].
        destruct (Z.leb_spec n 255); [lia|]. destruct (Z.leb_spec n 65535); [lia|].
        cbn [form_prefix app]. rewrite (byte_of_value b 78 E4). change (z2b 78) with x4e.
        unfold n at 1. rewrite <- L4 at 1. rewrite to_le_of_le. rewrite <- app_assoc.
        unfold d. rewrite ztake_zdrop. unfold r. now rewrite firstn_skipn. }
    (* an opcode of the reference *)
    apply andb_true_iff in C. destruct C as [C1 C2].
    destruct (spec_byte_decodes (b2z b) Rb C1) as (r & Hi & P1 & P2 & P4 & Hs & Ha).
    destruct (IH _ C2 (r :: acc)) as (strs & D & S).
    exists (r :: strs). split.
    + rewrite (dec_op b rest acc r); auto.
      * rewrite D. cbn [rev]. now rewrite <- app_assoc.
      * assert (N : ~ (1 <= b2z b <= 75)).
        { intros [A B]. apply andb_false_iff in E1. destruct E1 as [N|N]; apply Z.leb_gt in N; lia. }
        destruct (Z.leb_spec 1 (b2z b)); [|reflexivity]. destruct (Z.ltb_spec (b2z b) 76); [lia|reflexivity].
    + rewrite (script_cons r strs [z2b (b2z b)] rest (script_arg_op r _ Ha) S). now rewrite z2b_b2z.
Qed.

Theorem disasm_asm bs : canonical bs = true ->
  exists strs, decode_script bs = Ok strs /\ script strs = Ok bs.
Proof.
  intros C. destruct (disasm_asm_gen _ _ C []) as (strs & D & S).
  exists strs. split; [now rewrite decode_script_dec, D | exact S].
Qed.
