(* C16, send_valid at the signature level, FULL domain of the repaired send_tx: every signature made for selected input j
   (any number of inputs, any output indices, any version / locktime, all six flags, all eight sender kinds) is
   DER(r, s) || hashtype for an (r, s) that ecmath.verify accepts, under the public key of the signing key, for the CONSENSUS
   signature hash of input j (BIP143 for the segwit kinds, the legacy algorithm of Spec/Sighash.v otherwise) - by
   message_is_sighash (Proofs/SendSign.v), C01's sign_sound and the decomposition of utils.sig.
   [curve_facts] is the explicit hypothesis record of C01 (proved outright for the small curves). *)
From Coq Require Import ZArith List Lia Bool.
From Coq Require Import Floats.SpecFloat.
Require Import Bits.Lib.Result Bits.Lib.Bytes Bits.Lib.Group.
Require Import Bits.Spec.Bip143 Bits.Spec.Sighash.
Require Import Bits.Model.Ecmath Bits.Model.Keys Bits.Model.Der Bits.Model.SendValue Bits.Model.Send.
Require Import Bits.Proofs.Ecmath Bits.Proofs.Ecdsa Bits.Proofs.Keys Bits.Proofs.SendSign.
Require Bits.Proofs.Der Bits.Model.Tx Bits.Proofs.Send.
Import ListNotations.
Local Open Scope Z_scope.

Module MT := Bits.Model.Tx.

Lemma Forall2_imp {A B} (P Q : A -> B -> Prop) l l' :
  (forall x y, P x y -> Q x y) -> Forall2 P l l' -> Forall2 Q l l'.
Proof. intros H. induction 1; constructor; auto. Qed.

Lemma Forall2_nth {A B} (P : A -> B -> Prop) l l' :
  Forall2 P l l' -> forall k x, nth_error l k = Some x -> exists y, nth_error l' k = Some y /\ P x y.
Proof.
  induction 1 as [|x0 y0 l l' H0 _ IH]; intros k x Hk; destruct k; try discriminate.
  - injection Hk as <-. exists y0. split; [reflexivity|exact H0].
  - cbn [nth_error] in *. apply IH. exact Hk.
Qed.

Section Valid.
  Variables p a b n : Z.
  Variable G : point.
  Variable sha256 ripemd160 : bytes -> bytes.
  Variable scriptpubkey : bytes -> result bytes.
  Variable is_address : bytes -> bool.
  Hypothesis facts : curve_facts p a b n G.

  (* what one signature is: [digest] = the 32 bytes that were signed *)
  Definition valid_sig (digest : bytes) (f : Z) (key sg : bytes) : Prop :=
    exists d r s der,
      privkey_int n key = Ok d /\ der_encode_sig r s = Ok der /\ sg = der ++ [z2b f] /\
      verify p a b n G r s (smul p a d G) (of_be digest) = Ok true.

  Lemma sign_keys_sound : forall keys draws msg f pre sigs rest,
    0 <= f < 256 ->
    sign_keys p a n G sha256 draws keys msg (Some f) pre = Ok (sigs, rest) ->
    Forall2 (valid_sig (Bits.Model.Der.hash256 sha256 (if pre then msg else msg ++ to_le 4 f)) f) keys sigs.
  Proof.
    induction keys as [|k keys IH]; intros draws msg f pre sigs rest Hf H.
    - cbn [sign_keys] in H. injection H as <- _. constructor.
    - cbn [sign_keys] in H. apply bind_ok in H as ([sg d1] & Hsig & H). cbn beta iota in H.
      apply bind_ok in H as ([sgs d2] & Hrest & H). cbn beta iota in H. injection H as <- _.
      constructor; [|eapply IH; eauto].
      apply Bits.Proofs.Der.sig_flag_suffix_der in Hsig as (m & d & r & s & der & Hd & Hsign & -> & Hder & ->); [|exact Hf].
      pose proof Hd as Hd'. apply privkey_int_iff in Hd' as (_ & Rd & Ed).
      assert (Rd' : 1 <= d < n) by lia.
      destruct (sign_sound p a b n G facts draws d _ r s d1 Rd' Hsign) as (_ & Hv & _).
      exists d, r, s, der. repeat split; auto.
  Qed.

  Lemma sign_msgs_sound : forall msgs keys draws f pre sigss,
    0 <= f < 256 ->
    sign_msgs p a n G sha256 draws keys msgs (Some f) pre = Ok sigss ->
    Forall2 (fun m sgs => Forall2 (valid_sig (Bits.Model.Der.hash256 sha256 (if pre then m else m ++ to_le 4 f)) f) keys sgs)
            msgs sigss.
  Proof.
    induction msgs as [|m msgs IH]; intros keys draws f pre sigss Hf H.
    - cbn [sign_msgs] in H. injection H as <-. constructor.
    - cbn [sign_msgs] in H. apply bind_ok in H as ([sgs d1] & Hk & H). cbn beta iota in H.
      apply bind_ok in H as (rest & Hrest & H). injection H as <-.
      constructor; [eapply sign_keys_sound; eauto | eapply IH; eauto].
  Qed.

  Lemma standard_flag_byte f : standard_flag f -> 0 <= f < 256.
  Proof. unfold standard_flag, standard_flags. cbn [In]. lia. Qed.

  (* ---- segwit kinds ---- *)
  Theorem segwit_signatures_valid (sats : utxo -> Z) (t : tx) script f (selected : list utxo) keys draws msgs sigss :
    wf_tx t -> standard_flag f ->
    Z.of_nat (length script) < 2 ^ 64 ->
    (length selected <= length (tx_ins t))%nat ->
    (forall x, In x selected -> sat_of_btc (u_amount x) = Ok (sats x) /\ 0 <= sats x < 2 ^ 64) ->
    segwit_msgs sha256 (map ser_txin (tx_ins t)) (map ser_txout (tx_outs t)) (ser_script script)
                (tx_version t) (tx_locktime t) (Some f) 0 selected = Ok msgs ->
    sign_msgs p a n G sha256 draws keys msgs (Some f) true = Ok sigss ->
    forall j x, nth_error selected j = Some x ->
      exists digest sgs,
        sighash sha256 t j (sats x) script f = Some digest /\ nth_error sigss j = Some sgs /\
        Forall2 (valid_sig digest f) keys sgs.
  Proof.
    intros Hwf Hf Hs Hlen Hall Hm Hsign j x Hj.
    destruct (segwit_messages sha256 sats t script f selected 0 msgs Hwf Hf Hs) with (i := j) (x := x) as (m & Em & Pm); auto.
    pose proof (sign_msgs_sound _ _ _ _ _ _ (standard_flag_byte f Hf) Hsign) as HS.
    destruct (Forall2_nth _ _ _ HS j m Em) as (sgs & Es & Hg).
    exists (Bits.Spec.Bip143.hash256 sha256 m), sgs. split; [|split; [exact Es|exact Hg]].
    unfold sighash. cbn [Nat.add] in Pm. rewrite Pm. reflexivity.
  Qed.

  (* ---- legacy kinds ---- *)
  Theorem legacy_signatures_valid (t : tx) f keys draws msgs sigss :
    wf_tx t -> standard_flag f ->
    Z.of_nat (length (tx_ins t)) < 2 ^ 64 -> Z.of_nat (length (tx_outs t)) < 2 ^ 64 ->
    legacy_msgs (map ser_txin (tx_ins t)) (map ser_txout (tx_outs t)) (tx_version t) (tx_locktime t) f
                0 (map ser_txin (tx_ins t)) = Ok msgs ->
    sign_msgs p a n G sha256 draws keys msgs (Some f) false = Ok sigss ->
    forall j i, nth_error (tx_ins t) j = Some i ->
      exists pre sgs,
        legacy_preimage t j (ti_script i) f = Some pre /\
        legacy_sighash sha256 t j (ti_script i) f = Some (h256 sha256 pre) /\       (* never the digest-1 case *)
        nth_error sigss j = Some sgs /\
        Forall2 (valid_sig (h256 sha256 pre) f) keys sgs.
  Proof.
    intros Hwf Hf Hni Hno Hm Hsign j i Hj.
    destruct (legacy_messages t Hwf Hni Hno f (tx_ins t) 0 msgs) with (j := j) (i := i) as (Q & m & Em & Pm); auto.
    cbn [Nat.add] in Q, Pm.
    pose proof (sign_msgs_sound _ _ _ _ _ _ (standard_flag_byte f Hf) Hsign) as HS.
    destruct (Forall2_nth _ _ _ HS j m Em) as (sgs & Es & Hg).
    exists (m ++ u32le f), sgs. split; [exact Pm|]. split; [|split; [exact Es|exact Hg]].
    unfold legacy_sighash. rewrite Hj, Q, Pm. reflexivity.
  Qed.

  (* ---- send_tx: the signatures it computes (sign_inputs) for the transaction it builds ---- *)
  Definition segwit_kind (k : keyinfo) : bool := is_kind (ki_type k) [k_p2wpkh; k_p2wsh; k_p2sh_p2wpkh; k_p2sh_p2wsh].

  Theorem sign_inputs_valid (sats : utxo -> Z) sender recipient change k frac fee version locktime total unspents u f script
          draws sigs :
    build_unsigned p a n G sha256 ripemd160 scriptpubkey is_address sender recipient change (Some k) frac fee total unspents = Ok u ->
    (forall x, In x unspents -> length (u_txid x) = 32%nat /\ sat_of_btc (u_amount x) = Ok (sats x) /\ 0 <= sats x < 2 ^ 64) ->
    0 <= version < 2 ^ 32 -> 0 <= locktime < 2 ^ 32 -> standard_flag f ->
    Z.of_nat (length (us_selected u)) < 2 ^ 64 ->
    (* segwit kinds: [script] is the script whose CompactSize-prefixed form is the scriptCode *)
    (segwit_kind k = true ->
     scriptcode_of p a n G sha256 ripemd160 k = Ok (ser_script script) /\ Z.of_nat (length script) < 2 ^ 64) ->
    sign_inputs p a n G sha256 ripemd160 k (Some f) version locktime u draws = Ok sigs ->
    exists t,
      wf_tx t /\ tx_version t = version /\ tx_locktime t = locktime /\
      map snd (us_selected u) = map ser_txin (tx_ins t) /\ us_txouts u = map ser_txout (tx_outs t) /\
      Forall2 (selected_input p a n G sha256 ripemd160 (Some k)) (us_selected u) (tx_ins t) /\
      forall j xt i, nth_error (us_selected u) j = Some xt -> nth_error (tx_ins t) j = Some i ->
        exists digest sgs,
          nth_error sigs j = Some sgs /\
          (if segwit_kind k then sighash sha256 t j (sats (fst xt)) script f = Some digest
           else legacy_sighash sha256 t j (ti_script i) f = Some digest) /\
          Forall2 (valid_sig digest f) (ki_keys k) sgs.
  Proof.
    intros Hb Hun Rv Rl Hf Hlen Hsc Hsign.
    destruct (unsigned_structured p a n G sha256 ripemd160 scriptpubkey is_address _ _ _ _ _ _ _ _ _ version locktime Hb)
      as (t & Hwf & Ev & El & Eins & Eouts & Hsel & Lout); auto.
    { intros x Hx. apply Hun. exact Hx. }
    exists t. repeat (split; [assumption|]).
    assert (Lins : length (tx_ins t) = length (us_selected u)).
    { rewrite <- (map_length ser_txin), <- Eins, map_length. reflexivity. }
    intros j xt i Hj Hi.
    unfold sign_inputs in Hsign. fold (segwit_kind k) in Hsign.
    destruct (segwit_kind k) eqn:Ek.
    - destruct (Hsc eq_refl) as (Esc & Ls). rewrite Esc in Hsign. cbn [bind] in Hsign.
      apply bind_ok in Hsign as (msgs & Hm & Hsign).
      rewrite Eins, Eouts, <- Ev, <- El in Hm.
      assert (Hx : nth_error (map fst (us_selected u)) j = Some (fst xt)) by (now apply map_nth_error).
      destruct (segwit_signatures_valid sats t script f (map fst (us_selected u)) (ki_keys k) draws msgs sigs Hwf Hf Ls)
        with (j := j) (x := fst xt) as (digest & sgs & Ed & Es & Hg); auto.
      + rewrite map_length. lia.
      + intros x Hx'. apply in_map_iff in Hx' as (xt' & <- & Hin).
        pose proof (Bits.Proofs.Send.build_selected _ _ _ _ _ _ _ _ _ _ _ _ _ _ _ _ _ Hb) as Hsub.
        rewrite Forall_forall in Hsub. destruct (Hsub _ Hin) as (Hin' & _). apply Hun in Hin'. tauto.
      + exists digest, sgs. auto.
    - cbn [of_option bind] in Hsign. apply bind_ok in Hsign as (msgs & Hm & Hsign).
      rewrite Eins, Eouts, <- Ev, <- El in Hm.
      destruct (legacy_signatures_valid t f (ki_keys k) draws msgs sigs Hwf Hf) with (j := j) (i := i)
        as (pre & sgs & Ep & Ed & Es & Hg); auto.
      + rewrite Lins. exact Hlen.
      + rewrite Lout.
        pose proof (Bits.Proofs.Send.outputs_shape _ _ _ _ _ _ _ _ _ _ _ _ _ _ _ _ _ Hb) as (rs & chs & _ & _ & _ & Esh).
        cbv zeta in Esh. rewrite Esh. destruct (_ >=? 1000); cbn; lia.
      + exists (h256 sha256 pre), sgs. auto.
  Qed.
End Valid.
