(* C16, send_valid on the legacy sub-domain, at the signature level: every signature placed in the transaction is
   DER(r, s) || hashtype for an (r, s) that ecmath.verify accepts, under the public key of the signing key, for the
   double-SHA256 of the CONSENSUS legacy pre-image of input 0 (Spec/Sighash.v) - by message_is_sighash
   (legacy_message_partial), C01's sign_sound and the decomposition of utils.sig.  [curve_facts] is the explicit
   hypothesis record of C01 (proved outright for the small curves). *)
From Coq Require Import ZArith List Lia Bool.
From Coq Require Import Floats.SpecFloat.
Require Import Bits.Lib.Result Bits.Lib.Bytes Bits.Lib.Group.
Require Import Bits.Spec.Bip143 Bits.Spec.Sighash.
Require Import Bits.Model.Ecmath Bits.Model.Keys Bits.Model.Der Bits.Model.SendValue Bits.Model.Send.
Require Import Bits.Proofs.Ecmath Bits.Proofs.Ecdsa Bits.Proofs.Keys Bits.Proofs.SendSign.
Require Bits.Proofs.Der Bits.Model.Tx.
Import ListNotations.
Local Open Scope Z_scope.

Module MT := Bits.Model.Tx.

Lemma Forall2_imp {A B} (P Q : A -> B -> Prop) l l' :
  (forall x y, P x y -> Q x y) -> Forall2 P l l' -> Forall2 Q l l'.
Proof. intros H. induction 1; constructor; auto. Qed.

Section Valid.
  Variables p a b n : Z.
  Variable G : point.
  Variable sha256 ripemd160 : bytes -> bytes.
  Variable scriptpubkey : bytes -> result bytes.
  Hypothesis facts : curve_facts p a b n G.

  (* what one signature of sign_keys is *)
  Definition good_sig (msg : bytes) (f : Z) (pre : bool) (key sg : bytes) : Prop :=
    exists d r s der,
      privkey_int n key = Ok d /\ 1 <= d < n /\
      der_encode_sig r s = Ok der /\ sg = der ++ [z2b f] /\
      (1 <= r < n /\ 1 <= s <= n / 2) /\
      verify p a b n G r s (smul p a d G)
             (of_be (Bits.Model.Der.hash256 sha256 (if pre then msg else msg ++ to_le 4 f))) = Ok true.

  Lemma sign_keys_sound : forall keys draws msg f pre sigs rest,
    0 <= f < 256 ->
    sign_keys p a n G sha256 draws keys msg (Some f) pre = Ok (sigs, rest) ->
    Forall2 (good_sig msg f pre) keys sigs.
  Proof.
    induction keys as [|k keys IH]; intros draws msg f pre sigs rest Hf H.
    - cbn [sign_keys] in H. injection H as <- _. constructor.
    - cbn [sign_keys] in H. apply bind_ok in H as ([sg d1] & Hsig & H). cbn beta iota in H.
      apply bind_ok in H as ([sgs d2] & Hrest & H). cbn beta iota in H. injection H as <- _.
      constructor; [|eapply IH; eauto].
      apply Bits.Proofs.Der.sig_flag_suffix_der in Hsig as (m & d & r & s & der & Hd & Hsign & -> & Hder & ->); [|exact Hf].
      pose proof Hd as Hd'. apply privkey_int_iff in Hd' as (_ & Rd & Ed).
      assert (Rd' : 1 <= d < n) by lia.
      destruct (sign_sound p a b n G facts draws d _ r s d1 Rd' Hsign) as (Rs & Hv & _).
      exists d, r, s, der. repeat split; auto; lia.
  Qed.

  (* send_valid, legacy kinds, partial: one selected input, hash type with an unmodified pre-image *)
  Theorem legacy_signatures_valid_partial sender recipient change k frac fee version locktime total unspents u x txi tx_ ht
          draws sigs rest :
    build_unsigned p a n G sha256 ripemd160 scriptpubkey sender recipient change (Some k) frac fee total unspents = Ok u ->
    us_selected u = [(x, txi)] ->
    is_kind (ki_type k) [k_p2pk; k_p2pkh; k_multisig; k_p2sh] = true ->
    MT.tx_raw (map snd (us_selected u)) (us_txouts u) version locktime [] = Ok tx_ ->
    ht = 1 \/ ht = 0x81 \/ ((ht = 3 \/ ht = 0x83) /\ length (us_txouts u) = 1%nat) ->
    sign_keys p a n G sha256 draws (ki_keys k) tx_ (Some ht) false = Ok (sigs, rest) ->      (* what send_tx does *)
    exists sc t pre,
      sc = (if is_kind (ki_type k) [k_p2pk; k_p2pkh; k_multisig] then u_spk x else ki_redeem k) /\
      ser_legacy t = tx_ /\ tx_version t = version /\ tx_locktime t = locktime /\
      legacy_preimage t 0 sc ht = Some pre /\
      legacy_sighash sha256 t 0 sc ht = Some (h256 sha256 pre) /\
      (* every signature: strict layout DER || ht, and ECDSA-valid for the consensus sighash under its key *)
      Forall2 (fun key sg => exists d r s der,
                 privkey_int n key = Ok d /\ der_encode_sig r s = Ok der /\ sg = der ++ [z2b ht] /\
                 verify p a b n G r s (smul p a d G) (of_be (h256 sha256 pre)) = Ok true)
              (ki_keys k) sigs.
  Proof.
    intros Hb Hsel Hkind Hraw Hht Hsign.
    destruct (legacy_message_partial p a n G sha256 ripemd160 scriptpubkey _ _ _ _ _ _ _ _ _ _ _ _ _ _ ht Hb Hsel Hkind Hraw Hht)
      as (sc & t & Esc & Eins & Ev & El & Eser & Epre).
    exists sc, t, (tx_ ++ to_le 4 ht). repeat split; auto.
    - unfold legacy_sighash. rewrite Eins. cbn [nth_error].
      assert (Hns : (is_single ht && (length (tx_outs t) <=? 0)%nat) = false).
      { unfold legacy_preimage in Epre. rewrite Eins in Epre. cbn [nth_error] in Epre.
        destruct (is_single ht && (length (tx_outs t) <=? 0)%nat); [discriminate|reflexivity]. }
      rewrite Hns, Epre. reflexivity.
    - assert (Hf : 0 <= ht < 256) by (destruct Hht as [->|[->|[[->| ->] _]]]; lia).
      pose proof (sign_keys_sound _ _ _ _ _ _ _ Hf Hsign) as HS.
      eapply Forall2_imp; [|exact HS]. intros key sg (d & r & s & der & Hd & _ & Hder & Hsg & _ & Hv).
      exists d, r, s, der. repeat split; auto.
  Qed.
  (* ---- segwit kinds: the same for sign_msgs (preimage mode) ---- *)
  Lemma sign_msgs_sound : forall msgs keys draws f sigss,
    0 <= f < 256 ->
    sign_msgs p a n G sha256 draws keys msgs (Some f) = Ok sigss ->
    Forall2 (fun m sgs => Forall2 (good_sig m f true) keys sgs) msgs sigss.
  Proof.
    induction msgs as [|m msgs IH]; intros keys draws f sigss Hf H.
    - cbn [sign_msgs] in H. injection H as <-. constructor.
    - cbn [sign_msgs] in H. apply bind_ok in H as ([sgs d1] & Hk & H). cbn beta iota in H.
      apply bind_ok in H as (rest & Hrest & H). injection H as <-.
      constructor; [eapply sign_keys_sound; eauto | eapply IH; eauto].
  Qed.

  (* send_valid, segwit kinds, partial (signature level): on the sub-domain of segwit_messages_partial every signature
     made for input j is DER || flag and ECDSA-valid for the BIP143 sighash of input j under its key *)
  Theorem segwit_signatures_valid_partial (sats : utxo -> Z) (t : tx) script f (unspents : list utxo) keys draws msgs sigss :
    wf_tx t -> tx_version t = 1 -> tx_locktime t = 0 -> standard_flag f ->
    Z.of_nat (length script) < 2 ^ 64 ->
    length unspents = length (tx_ins t) ->
    (forall j x, nth_error unspents j = Some x ->
                 u_vout x = Z.of_nat j /\ sat_of_btc (u_amount x) = Ok (sats x) /\ 0 <= sats x < 2 ^ 64) ->
    segwit_msgs sha256 (map ser_txin (tx_ins t)) (map ser_txout (tx_outs t)) (ser_script script) (Some f) unspents = Ok msgs ->
    sign_msgs p a n G sha256 draws keys msgs (Some f) = Ok sigss ->
    forall j x, nth_error unspents j = Some x ->
      exists digest sgs,
        sighash sha256 t j (sats x) script f = Some digest /\ nth_error sigss j = Some sgs /\
        Forall2 (fun key sg => exists d r s der,
                   privkey_int n key = Ok d /\ der_encode_sig r s = Ok der /\ sg = der ++ [z2b f] /\
                   verify p a b n G r s (smul p a d G) (of_be digest) = Ok true)
                keys sgs.
  Proof.
    intros Hwf Hv Hl Hf Hs Hlen Hall Hm Hsign j x Hj.
    destruct (segwit_messages_partial sha256 sats t script f unspents msgs Hwf Hv Hl Hf Hs Hlen Hall Hm j x Hj) as (m & Em & Pm).
    assert (Rf : 0 <= f < 256).
    { unfold standard_flag, standard_flags in Hf. cbn [In] in Hf. lia. }
    pose proof (sign_msgs_sound _ _ _ _ _ Rf Hsign) as HS.
    assert (Hnth : forall (ms : list bytes) (ss : list (list bytes)) k mm,
               Forall2 (fun m sgs => Forall2 (good_sig m f true) keys sgs) ms ss -> nth_error ms k = Some mm ->
               exists sgs, nth_error ss k = Some sgs /\ Forall2 (good_sig mm f true) keys sgs).
    { intros ms ss k mm HF. revert k. induction HF as [|m0 s0 ms' ss' H0 _ IH]; intros k Hk; destruct k; try discriminate.
      - injection Hk as <-. exists s0. split; [reflexivity|exact H0].
      - cbn [nth_error] in *. apply IH. exact Hk. }
    destruct (Hnth msgs sigss j m HS Em) as (sgs & Es & Hg).
    exists (Bits.Spec.Bip143.hash256 sha256 m), sgs. split; [|split; [exact Es|]].
    - unfold sighash. rewrite Pm. reflexivity.
    - eapply Forall2_imp; [|exact Hg]. intros key sg (d & r & s & der & Hd & _ & Hder & Hsg & _ & Hver).
      exists d, r, s, der. repeat split; auto.
  Qed.
End Valid.
