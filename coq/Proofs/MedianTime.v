(* Proofs about the model of bits.integrations.median_time (Model/MedianTime.v) against Bitcoin Core's
   GetMedianTimePast (Spec/MedianTime.v). *)
From Coq Require Import ZArith List Lia Bool Arith Sorting.Sorted Sorting.Permutation.
Require Import Bits.Lib.Result Bits.Spec.MedianTime Bits.Model.MedianTime.
Import ListNotations.
Local Open Scope Z_scope.
Ltac Zify.zify_post_hook ::= Z.to_euclidean_division_equations.

(* ------------------------------------------------------------------ sorted() *)
Lemma insert_perm x l : Permutation (insert x l) (x :: l).
Proof.
  induction l as [|y r IH]; [reflexivity|]. cbn [insert]. destruct (x <=? y); [reflexivity|].
  rewrite IH. apply perm_swap.
Qed.

Lemma sort_perm l : Permutation (sort l) l.
Proof.
  induction l as [|x r IH]; [reflexivity|]. cbn [sort fold_right]. fold (sort r).
  rewrite insert_perm. now constructor.
Qed.

Lemma sort_length l : length (sort l) = length l.
Proof. apply Permutation_length, sort_perm. Qed.

Lemma insert_sorted x l : StronglySorted Z.le l -> StronglySorted Z.le (insert x l).
Proof.
  induction 1 as [|y r Hs IH Hy]; cbn [insert].
  - constructor; constructor.
  - destruct (Z.leb_spec x y) as [L|G].
    + constructor; [constructor; assumption|]. constructor; [exact L|].
      eapply Forall_impl; [|exact Hy]. cbn. intros; lia.
    + constructor; [exact IH|].
      eapply Permutation_Forall; [symmetry; apply insert_perm|]. constructor; [lia | exact Hy].
Qed.

Lemma sort_sorted l : StronglySorted Z.le (sort l).
Proof.
  induction l as [|x r IH]; [constructor|]. cbn [sort fold_right]. fold (sort r). now apply insert_sorted.
Qed.

Lemma sorted_perm_unique s1 : forall s2,
  StronglySorted Z.le s1 -> StronglySorted Z.le s2 -> Permutation s1 s2 -> s1 = s2.
Proof.
  induction s1 as [|a r1 IH]; intros s2 H1 H2 P.
  - apply Permutation_nil in P. now subst.
  - destruct s2 as [|b r2]; [symmetry in P; apply Permutation_nil in P; discriminate|].
    inversion H1 as [|? ? S1 F1]; subst. inversion H2 as [|? ? S2 F2]; subst.
    assert (Hab : a = b).
    { assert (Ia : In a (b :: r2)) by (eapply Permutation_in; [exact P | now left]).
      assert (Ib : In b (a :: r1)) by (eapply Permutation_in; [symmetry; exact P | now left]).
      rewrite Forall_forall in F1, F2.
      destruct Ia as [E|Ia]; [now symmetry|]. destruct Ib as [E|Ib]; [exact E|].
      specialize (F1 _ Ib). specialize (F2 _ Ia). lia. }
    subst b. f_equal. apply IH; [assumption | assumption |]. eapply Permutation_cons_inv; exact P.
Qed.

(* [sort] computes THE sorted list of the specification *)
Theorem sort_is_sort_of l : is_sort_of (sort l) l.
Proof. split; [apply sort_perm | apply sort_sorted]. Qed.

Theorem is_sort_of_unique s l : is_sort_of s l -> s = sort l.
Proof.
  intros (P & S). apply sorted_perm_unique; [exact S | apply sort_sorted|].
  rewrite P. symmetry. apply sort_perm.
Qed.

Theorem sort_perm_invariant a b : Permutation a b -> sort a = sort b.
Proof.
  intros P. apply sorted_perm_unique; [apply sort_sorted | apply sort_sorted|].
  rewrite (sort_perm a), P. symmetry. apply sort_perm.
Qed.

(* ------------------------------------------------------------------ the median of the collected times *)
Theorem median_of_perm a b : Permutation a b -> median_of a = median_of b.
Proof. intros P. unfold median_of. now rewrite (sort_perm_invariant a b P). Qed.

Lemma half_lt n : (0 < n)%nat -> (Nat.div n 2 < n)%nat.
Proof. intros H. apply Nat.div_lt; lia. Qed.

Lemma nth_error_some_in {A} (l : list A) i : (i < length l)%nat -> exists x, nth_error l i = Some x /\ In x l.
Proof.
  intros H. destruct (nth_error l i) as [x|] eqn:E.
  - exists x. split; [reflexivity|]. eapply nth_error_In; exact E.
  - apply nth_error_None in E. lia.
Qed.

(* odd count (in particular 11): element number count/2 of the sorted list, one of the inputs *)
Theorem median_of_odd ts : Nat.odd (length ts) = true ->
  exists m, median_of ts = Ok m /\ nth_error (sort ts) (Nat.div (length ts) 2) = Some m /\ In m ts.
Proof.
  intros Hodd. unfold median_of, median_sorted. rewrite sort_length, Hodd.
  assert (0 < length ts)%nat by (destruct ts; [discriminate Hodd | cbn; lia]).
  destruct (nth_error_some_in (sort ts) (Nat.div (length ts) 2)) as (x & E & I).
  { rewrite sort_length. now apply half_lt. }
  exists x. rewrite E. repeat split. eapply Permutation_in; [apply sort_perm | exact I].
Qed.

(* even count: the floor of the mean of the two middle elements *)
Theorem median_of_even ts : Nat.odd (length ts) = false -> ts <> [] ->
  exists a b, nth_error (sort ts) (Nat.div (length ts) 2 - 1) = Some a
           /\ nth_error (sort ts) (Nat.div (length ts) 2) = Some b
           /\ In a ts /\ In b ts /\ median_of ts = Ok ((a + b) / 2).
Proof.
  intros Hodd Hne. unfold median_of, median_sorted. rewrite sort_length, Hodd.
  assert (L : (0 < length ts)%nat) by (destruct ts; [congruence | cbn; lia]).
  pose proof (half_lt _ L) as Hh.
  destruct (nth_error_some_in (sort ts) (Nat.div (length ts) 2 - 1)) as (a & Ea & Ia); [rewrite sort_length; lia|].
  destruct (nth_error_some_in (sort ts) (Nat.div (length ts) 2)) as (b & Eb & Ib); [rewrite sort_length; lia|].
  exists a, b. rewrite Ea, Eb. destruct (length ts) eqn:El; [lia|].
  repeat split; try (eapply Permutation_in; [apply sort_perm | assumption]).
Qed.

(* every count >= 1: an answer, between the smallest and the largest input *)
Theorem median_of_bounds ts lo hi : ts <> [] -> Forall (fun t => lo <= t <= hi) ts ->
  exists m, median_of ts = Ok m /\ lo <= m <= hi.
Proof.
  intros Hne HF. rewrite Forall_forall in HF.
  destruct (Nat.odd (length ts)) eqn:Hodd.
  - destruct (median_of_odd ts Hodd) as (m & E & _ & I). exists m. split; [exact E | now apply HF].
  - destruct (median_of_even ts Hodd Hne) as (a & b & _ & _ & Ia & Ib & E).
    exists ((a + b) / 2). split; [exact E|]. specialize (HF _ Ia) as Ha. specialize (HF _ Ib) as Hb. lia.
Qed.

Theorem median_of_empty : median_of [] = Err IndexE.
Proof. reflexivity. Qed.

(* ------------------------------------------------------------------ median_time on a chain *)
Lemma collected_full chain : (12 <= length chain)%nat -> collected chain = window chain.
Proof. intros H. unfold collected, window, median_time_span. f_equal. lia. Qed.

(* a chain of at least 12 blocks: the code answers Bitcoin Core's median time past *)
Theorem median_time_full_window chain : (12 <= length chain)%nat ->
  exists m, median_time chain = Ok m /\ is_median_time_past chain m /\ In m chain.
Proof.
  intros H. unfold median_time.
  assert (Lr : length (rev chain) = length chain) by apply rev_length.
  destruct (rev chain) as [|tip rest] eqn:Er; [cbn in Lr; lia|].
  destruct (Nat.eqb_spec (length chain - 1) 0) as [E|_]; [lia|].
  rewrite collected_full by exact H.
  assert (Lw : length (window chain) = 11%nat).
  { unfold window, median_time_span. rewrite firstn_length, Er, Lr. lia. }
  destruct (median_of_odd (window chain)) as (m & E & N & I); [now rewrite Lw|].
  exists m. split; [exact E|]. split.
  - exists (sort (window chain)). split; [apply sort_is_sort_of|]. now rewrite sort_length.
  - apply in_rev. rewrite Er. unfold window in I. rewrite Er in I.
    rewrite <- (firstn_skipn median_time_span (tip :: rest)). apply in_or_app. now left.
Qed.

(* the genesis block alone *)
Theorem median_time_genesis t : median_time [t] = Ok t /\ is_median_time_past [t] t.
Proof. split; [reflexivity|]. exists [t]. split; [split; [reflexivity | repeat constructor] | reflexivity]. Qed.

Theorem median_time_empty : median_time [] = Err OtherE.
Proof. reflexivity. Qed.

(* never refused on a non-empty chain, and between the smallest and the largest block time *)
Theorem median_time_bounds chain lo hi : chain <> [] -> Forall (fun t => lo <= t <= hi) chain ->
  exists m, median_time chain = Ok m /\ lo <= m <= hi.
Proof.
  intros Hne HF. unfold median_time.
  assert (Lr : length (rev chain) = length chain) by apply rev_length.
  assert (HFr : Forall (fun t => lo <= t <= hi) (rev chain)).
  { rewrite Forall_forall in *. intros x Hx. apply HF. now apply in_rev. }
  destruct (rev chain) as [|tip rest] eqn:Er.
  { destruct chain; [congruence | cbn in Lr; lia]. }
  destruct (Nat.eqb_spec (length chain - 1) 0) as [E|N].
  - exists tip. split; [reflexivity|]. now inversion HFr.
  - apply median_of_bounds.
    + unfold collected. rewrite Er. intros C. apply (f_equal (@length Z)) in C.
      rewrite firstn_length, Lr in C. cbn [length] in C. lia.
    + unfold collected. rewrite Er.
      rewrite <- (firstn_skipn (Nat.min (length chain - 1) 11) (tip :: rest)) in HFr.
      apply Forall_app in HFr. apply HFr.
Qed.

(* ------------------------------------------------------------------ where the code is NOT the median time past *)
(* three blocks (height 2): the loop collects heights 2 and 1 only, the count is even, the answer is the mean 15 of the
   two collected times - not the time of any block; Core: sorted [0;10;21], element 3/2 = 1, i.e. 10 *)
Theorem median_time_short_chain_refuted :
  exists chain m, (2 <= length chain <= 11)%nat /\ median_time chain = Ok m
                  /\ ~ is_median_time_past chain m /\ ~ In m chain /\ is_median_time_past chain 10.
Proof.
  exists [0; 10; 21], 15. split; [cbn; lia|]. split; [reflexivity|]. split; [|split].
  - intros (s & (P & _) & N). apply nth_error_In in N. eapply Permutation_in in N; [|exact P].
    cbn in N. lia.
  - cbn. lia.
  - exists [0; 10; 21]. split; [split|reflexivity].
    + change (window [0; 10; 21]) with (rev [0; 10; 21]). apply Permutation_rev.
    + repeat constructor; lia.
Qed.

(* odd height below 11 with a non-monotone chain: the genesis block is not collected *)
Theorem median_time_skips_genesis_refuted :
  exists chain m, median_time chain = Ok m /\ ~ is_median_time_past chain m /\ is_median_time_past chain 5.
Proof.
  exists [5; 1], 1. split; [reflexivity|]. split.
  - intros (s & Hs & N). apply is_sort_of_unique in Hs. subst s. vm_compute in N. discriminate N.
  - exists [1; 5]. split; [split|reflexivity].
    + change (window [5; 1]) with [1; 5]. reflexivity.
    + repeat constructor; lia.
Qed.
