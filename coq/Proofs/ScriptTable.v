(* Facts about the generated opcode tables (Gen/Opcodes.v), lifted from the finite checks of
   GenProps/Opcodes.v to the form the codec proofs use. *)
From Coq Require Import ZArith List Lia Bool.
Require Import Bits.Lib.Result Bits.Lib.Bytes Bits.Lib.PyStr Bits.Spec.Opcodes Bits.Spec.Script Bits.Model.Script.
Require Import Bits.GenProps.Opcodes.
Import ListNotations.
Import Coq.Init.Byte.
Local Open Scope Z_scope.

Lemma s_OP_eq : s_OP_ = [x4f; x50; x5f].
Proof. reflexivity. Qed.

Lemma in_all_byte_values v : 0 <= v < 256 -> In v all_byte_values.
Proof.
  intros H. unfold all_byte_values. apply in_map_iff. exists (Z.to_nat v). split; [lia|].
  apply in_seq. lia.
Qed.

(* a name of the code's table *)
Lemma table_entry n v : assoc_b n G.op_int_map = Some v ->
  starts_with s_OP_ n = true /\ 0 <= v < 256 /\ ~ (1 <= v <= 75)
  /\ exists r, assoc_z v G.int_op_map = Some r /\ assoc_b r G.op_int_map = Some v.
Proof.
  intros H. apply assoc_b_in in H.
  pose proof (proj1 (forallb_forall _ _) gen_entries_ok _ H) as E.
  unfold entry_ok in E. cbn [fst snd] in E.
  apply andb_true_iff in E. destruct E as [E E5].
  apply andb_true_iff in E. destruct E as [E E4].
  apply andb_true_iff in E. destruct E as [E E3].
  apply andb_true_iff in E. destruct E as [E1 E2].
  destruct (assoc_z v G.int_op_map) as [r|] eqn:Er; [|discriminate].
  destruct (assoc_b r G.op_int_map) as [v'|] eqn:Ev; [|discriminate].
  apply Z.eqb_eq in E5. subst v'.
  apply Z.leb_le in E2. apply Z.ltb_lt in E3. apply negb_true_iff in E4.
  split; [exact E1|]. split; [lia|]. split.
  - intros [A B]. apply andb_false_iff in E4. destruct E4 as [N|N]; apply Z.leb_gt in N; lia.
  - exists r. auto.
Qed.

(* a name printed by the decoder is a name of that byte *)
Lemma rep_entry v r : assoc_z v G.int_op_map = Some r -> assoc_b r G.op_int_map = Some v.
Proof.
  intros H. apply assoc_z_in in H.
  pose proof (proj1 (forallb_forall _ _) gen_reps_ok _ H) as E.
  unfold rep_ok in E. cbn [fst snd] in E.
  destruct (assoc_b r G.op_int_map) as [v'|]; [|discriminate].
  apply Z.eqb_eq in E. now subst.
Qed.

(* a name of the REFERENCE is a name of the code with the same value *)
Lemma spec_name_in_table n v : spec_value n = Some v -> assoc_b n G.op_int_map = Some v.
Proof.
  intros H. apply assoc_b_in in H.
  pose proof (proj1 (forallb_forall _ _) gen_has_every_spec_opcode _ H) as E.
  unfold has_spec_entry in E. cbn [fst snd] in E.
  destruct (assoc_b n G.op_int_map) as [v'|]; [|discriminate].
  apply Z.eqb_eq in E. now subst.
Qed.

Lemma pd_names :
  assoc_b s_PUSHDATA1 G.op_int_map = Some 76 /\ assoc_b s_PUSHDATA2 G.op_int_map = Some 77
  /\ assoc_b s_PUSHDATA4 G.op_int_map = Some 78.
Proof. pose proof gen_pushdata_values as H. tauto. Qed.

(* the decoder's name for a non-PUSHDATA byte is not a PUSHDATA name *)
Lemma rep_not_pushdata v r : assoc_z v G.int_op_map = Some r -> spec_is_pushdata v = false ->
  bytes_eqb r s_PUSHDATA1 = false /\ bytes_eqb r s_PUSHDATA2 = false /\ bytes_eqb r s_PUSHDATA4 = false.
Proof.
  intros Hr Hv. apply rep_entry in Hr. destruct pd_names as (P1 & P2 & P4).
  unfold spec_is_pushdata in Hv. apply orb_false_iff in Hv. destruct Hv as [Hv H3].
  apply orb_false_iff in Hv. destruct Hv as [H1 H2].
  apply Z.eqb_neq in H1, H2, H3.
  repeat split.
  - destruct (bytes_eqb r s_PUSHDATA1) eqn:E; [|reflexivity]. apply bytes_eqb_eq in E. subst r. congruence.
  - destruct (bytes_eqb r s_PUSHDATA2) eqn:E; [|reflexivity]. apply bytes_eqb_eq in E. subst r. congruence.
  - destruct (bytes_eqb r s_PUSHDATA4) eqn:E; [|reflexivity]. apply bytes_eqb_eq in E. subst r. congruence.
Qed.

(* every non-push opcode byte of the reference is decoded, to a name that assembles back *)
Lemma spec_byte_decodes v : 0 <= v < 256 -> spec_defined_nonpush v = true ->
  exists r, int_op v = Ok r
    /\ bytes_eqb r s_PUSHDATA1 = false /\ bytes_eqb r s_PUSHDATA2 = false /\ bytes_eqb r s_PUSHDATA4 = false
    /\ starts_with s_OP_ r = true /\ assoc_b r G.op_int_map = Some v.
Proof.
  intros Hv Hd.
  pose proof (proj1 (forallb_forall _ _) gen_decodes_every_spec_byte _ (in_all_byte_values v Hv)) as E.
  unfold decodes_ok in E. rewrite Hd in E. cbn [implb] in E.
  unfold int_op. destruct (assoc_z v G.int_op_map) as [r|]; [|discriminate].
  apply andb_true_iff in E. destruct E as [E E5].
  apply andb_true_iff in E. destruct E as [E E4].
  apply andb_true_iff in E. destruct E as [E E3].
  apply andb_true_iff in E. destruct E as [E1 E2].
  destruct (assoc_b r G.op_int_map) as [v'|] eqn:Ev; [|discriminate].
  apply Z.eqb_eq in E5. subst v'.
  apply negb_true_iff in E1, E2, E3.
  exists r. cbn [of_option]. auto 10.
Qed.

(* the names OP_0 .. OP_16 *)
Lemma small_int_name k : 0 <= k <= 16 ->
  assoc_b (s_OP_ ++ dec_str k) G.op_int_map = Some (if k =? 0 then 0 else 80 + k).
Proof.
  intros H.
  assert (Hin : In k (map Z.of_nat (seq 0 17))).
  { apply in_map_iff. exists (Z.to_nat k). split; [lia|]. apply in_seq. lia. }
  pose proof (proj1 (forallb_forall _ _) gen_small_int_opcodes _ Hin) as E. cbv beta in E.
  destruct (assoc_b (s_OP_ ++ dec_str k) G.op_int_map) as [v|]; [|discriminate].
  apply Z.eqb_eq in E. now subst.
Qed.

Definition small_int_spec_ok (k : Z) : bool :=
  match spec_value (s_OP_ ++ dec_str k) with
  | Some v => (v =? (if k =? 0 then 0 else 80 + k)) && negb (spec_is_pushdata v)
  | None => false
  end.
Lemma small_int_spec_all : forallb small_int_spec_ok (map Z.of_nat (seq 0 17)) = true.
Proof. vm_compute. reflexivity. Qed.

Lemma small_int_spec k : 0 <= k <= 16 ->
  spec_value (s_OP_ ++ dec_str k) = Some (if k =? 0 then 0 else 80 + k)
  /\ spec_nonpush_name (s_OP_ ++ dec_str k) = true.
Proof.
  intros H.
  assert (Hin : In k (map Z.of_nat (seq 0 17))).
  { apply in_map_iff. exists (Z.to_nat k). split; [lia|]. apply in_seq. lia. }
  pose proof (proj1 (forallb_forall _ _) small_int_spec_all _ Hin) as E.
  unfold small_int_spec_ok in E. unfold spec_nonpush_name.
  destruct (spec_value (s_OP_ ++ dec_str k)) as [v|]; [|discriminate].
  apply andb_true_iff in E. destruct E as [E1 E2]. apply Z.eqb_eq in E1. subst v. auto.
Qed.

(* the alias printed for a reference name is a reference name of the same byte *)
Definition alias_ok (p : bytes * Z) : bool :=
  match spec_value (rep_of (fst p)) with Some v => v =? snd p | None => false end.
Lemma alias_all : forallb alias_ok spec_opcodes = true.
Proof. vm_compute. reflexivity. Qed.

Lemma rep_of_same_byte n v : spec_value n = Some v -> spec_value (rep_of n) = Some v.
Proof.
  intros H. unfold spec_value in H. apply assoc_b_in in H.
  pose proof (proj1 (forallb_forall _ _) alias_all _ H) as E. unfold alias_ok in E. cbn [fst snd] in E.
  destruct (spec_value (rep_of n)) as [v'|]; [|discriminate]. apply Z.eqb_eq in E. now subst.
Qed.
