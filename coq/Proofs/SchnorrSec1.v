(* Bridge to C14's hypothesis record: [sqrt_facts p] (Proofs/Sec1.v) implies the [lift_facts p] used by the BIP340
   theorems, so that for secp256k1 ONE record about square roots mod p is the premise of both properties. *)
From Coq Require Import ZArith List Bool Lia Zpow_facts.
Require Import Bits.Lib.Result Bits.Lib.Bytes Bits.Model.Ecmath Bits.Proofs.Ecmath.
Require Import Bits.Proofs.Schnorr Bits.Proofs.SchnorrSign Bits.Proofs.Sec1.
Local Open Scope Z_scope.

Lemma sq_root_pow p (SQ : sqrt_facts p) y : 0 <= y < p ->
  let w := (y ^ 2 mod p) ^ ((p + 1) / 4) mod p in w = y \/ w = (p - y) mod p.
Proof.
  intros Hy. pose proof (sq_p p SQ) as Hp. pose proof (sq_root p SQ y Hy) as R. cbv zeta in *.
  unfold fmul in R. rewrite fpow_pow in R by lia. rewrite <- Z.pow_2_r in R.
  destruct R as [R|R]; [left; exact R|right]. rewrite R. unfold fsub.
  replace (0 - y) with (p - y + (-1) * p) by ring. apply Z.mod_add. lia.
Qed.

Lemma neg_invol p u : 0 < p -> 0 <= u < p -> (p - (p - u) mod p) mod p = u.
Proof.
  intros Hp Hu. destruct (Z.eq_dec u 0) as [->|Nu].
  - rewrite Z.sub_0_r, Z.mod_same, Z.sub_0_r, Z.mod_same by lia. reflexivity.
  - rewrite (Z.mod_small (p - u)) by lia. replace (p - (p - u)) with u by ring. apply Z.mod_small. lia.
Qed.

Theorem lift_facts_of_sqrt_facts p : sqrt_facts p -> lift_facts p.
Proof.
  intros SQ. pose proof (sq_p p SQ) as Hp. pose proof (sq_mod4 p SQ) as H4.
  constructor.
  - Z.to_euclidean_division_equations; lia.
  - intros y Hy. cbv zeta. destruct (sq_root_pow p SQ y Hy) as [E|E]; cbv zeta in E; rewrite E; [reflexivity|].
    rewrite Z.pow_2_r, <- Zmult_mod, <- Z.pow_2_r. apply neg_sq_mod. lia.
  - intros y z Hy Hz E.
    pose proof (sq_root_pow p SQ y Hy) as Ry. pose proof (sq_root_pow p SQ z Hz) as Rz. cbv zeta in Ry, Rz.
    rewrite <- E in Rz. set (w := (y ^ 2 mod p) ^ ((p + 1) / 4) mod p) in *.
    destruct Ry as [Ry|Ry], Rz as [Rz|Rz].
    + left. congruence.
    + right. rewrite <- Ry, Rz. symmetry. apply neg_invol; lia.
    + right. congruence.
    + left. rewrite <- (neg_invol p z) by lia. rewrite <- Rz, Ry. apply neg_invol; lia.
Qed.
