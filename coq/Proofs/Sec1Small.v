(* The hypothesis records of Proofs/Sec1.v PROVED by computation for the small curves y^2 = x^3 + 7 over
   F_43, F_79, F_67 (the curves of Proofs/SmallCurves*.v), and a generic computational criterion. *)
From Coq Require Import ZArith List Bool Lia Zpow_facts.
Require Import Bits.Lib.Result Bits.Lib.Bytes Bits.Model.Ecmath Bits.Proofs.Ecmath Bits.Model.Sec1 Bits.Proofs.Sec1.
Import ListNotations.
Local Open Scope Z_scope.

Definition zrange (p : Z) : list Z := map Z.of_nat (seq 0 (Z.to_nat p)).

Lemma in_zrange p y : 0 <= y < p -> In y (zrange p).
Proof.
  intros H. unfold zrange. rewrite <- (Z2Nat.id y) by lia. apply in_map. apply in_seq. lia.
Qed.

Definition sqrt_check (p : Z) : bool :=
  (3 <? p) && (p mod 4 =? 3) &&
  forallb (fun y => let w := fpow p (fmul p y y) ((p + 1) / 4) in (w =? y) || (w =? fsub p 0 y)) (zrange p).

Lemma sqrt_check_ok p : sqrt_check p = true -> sqrt_facts p.
Proof.
  unfold sqrt_check. rewrite !andb_true_iff, Z.ltb_lt, Z.eqb_eq, forallb_forall. intros [[H1 H2] H3].
  constructor; auto. intros y Hy. specialize (H3 y (in_zrange p y Hy)). cbv zeta in *.
  apply orb_true_iff in H3. rewrite !Z.eqb_eq in H3. exact H3.
Qed.

Definition sec1_check (p a b : Z) : bool :=
  sqrt_check p && inF p a && inF p b && (p <=? 2 ^ 256) &&
  forallb (fun x => negb (fpow p (rhs p a b x) ((p + 1) / 4) =? 0)) (zrange p).

Lemma sec1_check_ok p a b : sec1_check p a b = true -> sec1_facts p a b.
Proof.
  unfold sec1_check. rewrite !andb_true_iff, Z.leb_le, forallb_forall. intros [[[[H1 H2] H3] H4] H5].
  constructor; auto using sqrt_check_ok. intros x Hx. specialize (H5 x (in_zrange p x Hx)).
  apply negb_true_iff, Z.eqb_neq in H5. exact H5.
Qed.

Theorem sec1_facts_43 : sec1_facts 43 0 7. Proof. apply sec1_check_ok. vm_compute. reflexivity. Qed.
Theorem sec1_facts_79 : sec1_facts 79 0 7. Proof. apply sec1_check_ok. vm_compute. reflexivity. Qed.
Theorem sec1_facts_67 : sec1_facts 67 0 7. Proof. apply sec1_check_ok. vm_compute. reflexivity. Qed.
Theorem sqrt_facts_43 : sqrt_facts 43. Proof. exact (s1_sqrt _ _ _ sec1_facts_43). Qed.
Theorem sqrt_facts_79 : sqrt_facts 79. Proof. exact (s1_sqrt _ _ _ sec1_facts_79). Qed.
Theorem sqrt_facts_67 : sqrt_facts 67. Proof. exact (s1_sqrt _ _ _ sec1_facts_67). Qed.

(* the selection hazard is real on other curves: y^2 = x^3 + 1 over F_7 has the point (3, 0)... of order two;
   for the 33-byte string 03 || 3 both candidates are 0, the odd-parity filter is empty and utils.point
   raises IndexError, which is_point does NOT catch *)
Example order_two_point_raises :
  sec1_point 7 0 1 (Coq.Init.Byte.x03 :: to_be 32 3) = Err IndexE /\
  is_point 7 0 1 (Coq.Init.Byte.x03 :: to_be 32 3) = Err IndexE.
Proof. vm_compute. split; reflexivity. Qed.
