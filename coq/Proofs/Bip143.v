(* Proofs for C11: the model of bip143.witness_message (fed through the model of tx.outpoint/txin/txout)
   equals the BIP143 preimage of Spec/Bip143.v for the six standard sighash types. *)
From Coq Require Import ZArith List Lia Bool.
Require Import Bits.Lib.Result Bits.Lib.Bytes Bits.Lib.CompactSize Bits.Spec.Bip143 Bits.Model.Bip143.
Import ListNotations.
Import Coq.Init.Byte.
Local Open Scope Z_scope.

(* ---------- list / slice helpers ---------- *)
Lemma firstn_app_len {A} n (a b : list A) : length a = n -> firstn n (a ++ b) = a.
Proof. intros <-. rewrite firstn_app, Nat.sub_diag, firstn_all. simpl. apply app_nil_r. Qed.

Lemma lastn_app_len {A} n (a b : list A) : length b = n -> lastn n (a ++ b) = b.
Proof.
  intros <-. unfold lastn. rewrite app_length.
  replace (length a + length b - length b)%nat with (length a) by lia.
  rewrite skipn_app, Nat.sub_diag, skipn_all. reflexivity.
Qed.

Lemma mapM_ok_map {A B} (f : A -> result B) (g : A -> B) l :
  Forall (fun x => f x = Ok (g x)) l -> mapM f l = Ok (map g l).
Proof.
  induction 1 as [|x xs Hx _ IH]; [reflexivity|].
  cbn [mapM map]. rewrite Hx, IH. reflexivity.
Qed.

Lemma py_index_nat {A} (l : list A) (i : nat) x :
  nth_error l i = Some x -> py_index l (Z.of_nat i) = Ok x.
Proof.
  intros H. assert (Hi : (i < length l)%nat) by (apply nth_error_Some; congruence).
  unfold py_index.
  destruct (Z.ltb_spec (Z.of_nat i) 0) as [Hneg|_]; [lia|].
  destruct (Z.leb_spec 0 (Z.of_nat i)) as [_|Hneg]; [|lia].
  destruct (Z.ltb_spec (Z.of_nat i) (Z.of_nat (length l))) as [_|Hge]; [|lia].
  cbn [andb]. rewrite Nat2Z.id, H. reflexivity.
Qed.

Lemma py_index_oob {A} (l : list A) (i : Z) : Z.of_nat (length l) <= i -> py_index l i = Err IndexE.
Proof.
  intros H. unfold py_index.
  destruct (Z.ltb_spec i 0) as [Hn|Hn]; [lia|].
  destruct (Z.ltb_spec i (Z.of_nat (length l))) as [Hc|Hc]; [lia|]. now rewrite andb_false_r.
Qed.

Lemma py_index_map_nat {A B} (f : A -> B) (l : list A) (i : nat) x :
  nth_error l i = Some x -> py_index (map f l) (Z.of_nat i) = Ok (f x).
Proof. intros H. apply py_index_nat. now apply map_nth_error. Qed.

Lemma to_le_chk_ok k n : 0 <= n < 256 ^ Z.of_nat k -> to_le_chk k n = Ok (to_le k n).
Proof.
  intros [H0 H1]. unfold to_le_chk.
  destruct (Z.leb_spec 0 n); [|lia]. destruct (Z.ltb_spec n (256 ^ Z.of_nat k)); [|lia]. reflexivity.
Qed.

Lemma to_le_chk_u32 n : 0 <= n < 2 ^ 32 -> to_le_chk 4 n = Ok (u32le n).
Proof. intros H. apply to_le_chk_ok. change (256 ^ Z.of_nat 4) with (2 ^ 32). exact H. Qed.

Lemma to_le_chk_u64 n : 0 <= n < 2 ^ 64 -> to_le_chk 8 n = Ok (u64le n).
Proof. intros H. apply to_le_chk_ok. change (256 ^ Z.of_nat 8) with (2 ^ 64). exact H. Qed.

(* ---------- utils.compact_size_uint = the developer reference's CompactSize below 2^64 ---------- *)
Lemma compact_size_uint_spec n : 0 <= n < 2 ^ 64 -> compact_size_uint n = Ok (cs_enc n).
Proof.
  intros [H0 H1]. unfold compact_size_uint, cs_enc.
  change 0xFFFF with 65535. change 0x10000 with 65536. change 0xFFFFFFFF with 4294967295.
  change 0x100000000 with 4294967296. change 0xFFFFFFFFFFFFFFFF with 18446744073709551615.
  change (2 ^ 16) with 65536. change (2 ^ 32) with 4294967296.
  change (2 ^ 64) with 18446744073709551616 in H1.
  destruct (Z.ltb_spec n 0); [lia|].
  destruct (Z.leb_spec 0 n); [|lia]. cbn [andb].
  destruct (Z.leb_spec n 252); destruct (Z.ltb_spec n 253); try lia; [reflexivity|].
  destruct (Z.leb_spec 253 n); [|lia]. cbn [andb].
  destruct (Z.leb_spec n 65535); destruct (Z.ltb_spec n 65536); try lia; [reflexivity|].
  destruct (Z.leb_spec 65536 n); [|lia]. cbn [andb].
  destruct (Z.leb_spec n 4294967295); destruct (Z.ltb_spec n 4294967296); try lia; [reflexivity|].
  destruct (Z.leb_spec 4294967296 n); [|lia]. cbn [andb].
  destruct (Z.leb_spec n 18446744073709551615); [reflexivity|lia].
Qed.

(* above the 8-byte range (and below 0) the function raises ValueError *)
Lemma compact_size_uint_err n : n < 0 \/ 2 ^ 64 <= n -> compact_size_uint n = Err ValueE.
Proof.
  intros H. unfold compact_size_uint.
  change 0xFFFF with 65535. change 0x10000 with 65536. change 0xFFFFFFFF with 4294967295.
  change 0x100000000 with 4294967296. change 0xFFFFFFFFFFFFFFFF with 18446744073709551615.
  change (2 ^ 64) with 18446744073709551616 in H.
  destruct (Z.ltb_spec n 0); [reflexivity|].
  destruct (Z.leb_spec n 252); [lia|]. rewrite andb_false_r.
  destruct (Z.leb_spec n 65535); [lia|]. rewrite andb_false_r.
  destruct (Z.leb_spec n 4294967295); [lia|]. rewrite andb_false_r.
  destruct (Z.leb_spec n 18446744073709551615); [lia|]. rewrite andb_false_r. reflexivity.
Qed.

(* ---------- the serialisers of tx.py produce the wire format on well-formed fields ---------- *)
Lemma ser_scriptcode_spec s : Z.of_nat (length s) < 2 ^ 64 -> ser_scriptcode s = Ok (ser_script s).
Proof.
  intros H. unfold ser_scriptcode. rewrite compact_size_uint_spec by lia. reflexivity.
Qed.

Lemma ser_in_spec i : wf_txin i -> ser_in i = Ok (ser_txin i).
Proof.
  intros (Hid & Hv & Hs & Hl). unfold ser_in, outpoint, txin.
  rewrite (to_le_chk_u32 _ Hv). cbn [bind]. rewrite (to_le_chk_u32 _ Hs). cbn [bind].
  rewrite compact_size_uint_spec by lia. cbn [bind].
  unfold ser_txin, ser_outpoint, ser_script. now rewrite <- ?app_assoc.
Qed.

Lemma ser_out_spec o : wf_txout o -> ser_out o = Ok (ser_txout o).
Proof.
  intros (Hv & Hl). unfold ser_out, txout.
  rewrite (to_le_chk_u64 _ Hv). cbn [bind]. rewrite compact_size_uint_spec by lia. cbn [bind].
  unfold ser_txout, ser_script. now rewrite <- ?app_assoc.
Qed.

(* the two slices witness_message takes from a serialised input *)
Lemma outpoint_slice i : length (ti_txid i) = 32%nat -> firstn 36 (ser_txin i) = ser_outpoint i.
Proof.
  intros H. unfold ser_txin. apply firstn_app_len.
  unfold ser_outpoint, u32le. rewrite app_length, to_le_length, H. reflexivity.
Qed.

Lemma sequence_slice i : lastn 4 (ser_txin i) = u32le (ti_seq i).
Proof.
  unfold ser_txin. rewrite !app_assoc. apply lastn_app_len. unfold u32le. apply to_le_length.
Qed.

(* ---------- the flag tests of the code agree with BIP143's on the six standard types ---------- *)
Lemma flag_cases (P : Z -> Prop) :
  P 0x01 -> P 0x02 -> P 0x03 -> P 0x81 -> P 0x82 -> P 0x83 -> forall f, standard_flag f -> P f.
Proof.
  intros H1 H2 H3 H4 H5 H6 f Hf. unfold standard_flag, standard_flags in Hf. cbn [In] in Hf.
  destruct Hf as [<-|[<-|[<-|[<-|[<-|[<-|[]]]]]]]; assumption.
Qed.

Lemma flag_prevouts f : (Z.land f 0x80 =? 0) = negb (anyonecanpay f).
Proof. unfold anyonecanpay, SIGHASH_ANYONECANPAY. now rewrite negb_involutive. Qed.

(* [flag_ok f]: the three flag tests of the code (membership in [2,3,0x81,0x82,0x83]; & 0x7F against [2,3];
   & 0x7F == 3) give the same answers as BIP143's (ANYONECANPAY bit; & 0x1f against SINGLE / NONE),
   and the flag fits 4 bytes.  Decidable; true for the six standard types, false e.g. for 0x80. *)
Definition flag_ok (f : Z) : bool :=
  Bool.eqb (mem_z f [0x02; 0x03; 0x81; 0x82; 0x83])
           (negb (negb (anyonecanpay f) && negb (is_single f) && negb (is_none f)))
  && Bool.eqb (negb (mem_z (Z.land f 0x7F) [0x02; 0x03])) (negb (is_single f) && negb (is_none f))
  && Bool.eqb (Z.land f 0x7F =? 0x03) (is_single f)
  && (0 <=? f) && (f <? 2 ^ 32).

Lemma standard_flag_ok f : standard_flag f -> flag_ok f = true.
Proof. revert f. apply flag_cases; vm_compute; reflexivity. Qed.

Lemma flag_ok_inv f : flag_ok f = true ->
  mem_z f [0x02; 0x03; 0x81; 0x82; 0x83] = negb (negb (anyonecanpay f) && negb (is_single f) && negb (is_none f))
  /\ negb (mem_z (Z.land f 0x7F) [0x02; 0x03]) = negb (is_single f) && negb (is_none f)
  /\ (Z.land f 0x7F =? 0x03) = is_single f
  /\ 0 <= f < 2 ^ 32.
Proof.
  unfold flag_ok. rewrite !andb_true_iff. intros ((((A & B) & C) & D) & E).
  apply eqb_prop in A. apply eqb_prop in B. apply eqb_prop in C.
  apply Z.leb_le in D. apply Z.ltb_lt in E. repeat split; assumption.
Qed.

(* the 125 one-byte hash types on which the code follows BIP143, and the 131 on which it does not *)
Definition byte_flags : list Z := map Z.of_nat (seq 0 256).
Lemma flag_ok_census :
  length (filter flag_ok byte_flags) = 125%nat
  /\ forallb flag_ok standard_flags = true
  /\ flag_ok 0x80 = false /\ flag_ok 0x84 = false /\ flag_ok 0x22 = false /\ flag_ok 0x00 = true.
Proof. vm_compute. repeat split; reflexivity. Qed.

Section WithHash.
  Variable sha256 : bytes -> bytes.

  (* the hashOutputs branch of the code, on serialised outputs *)
  Lemma hash_outputs_eq t (i : nat) f : flag_ok f = true ->
    (if negb (mem_z (Z.land f 0x7F) [0x02; 0x03])
     then Ok (Model.Bip143.hash256 sha256 (concat (map ser_txout (tx_outs t))))
     else if (Z.land f 0x7F =? 0x03) && (Z.of_nat i <? Z.of_nat (length (map ser_txout (tx_outs t))))
     then bind (py_index (map ser_txout (tx_outs t)) (Z.of_nat i)) (fun o => Ok (Model.Bip143.hash256 sha256 o))
     else Ok zeros32)
    = Ok (hash_outputs sha256 t i f).
  Proof.
    intros Hf. destruct (flag_ok_inv f Hf) as (_ & Fo & Fs & _). rewrite Fo, Fs, map_length.
    unfold hash_outputs.
    destruct (negb (is_single f) && negb (is_none f)); [reflexivity|].
    destruct (is_single f); cbn [andb]; [|reflexivity].
    destruct (Nat.ltb_spec i (length (tx_outs t))) as [Hlt|Hge].
    - destruct (Z.ltb_spec (Z.of_nat i) (Z.of_nat (length (tx_outs t)))) as [_|Hc]; [|lia].
      destruct (nth_error (tx_outs t) i) as [o|] eqn:E.
      + rewrite (py_index_map_nat ser_txout _ _ _ E). reflexivity.
      + apply nth_error_None in E. lia.
    - destruct (Z.ltb_spec (Z.of_nat i) (Z.of_nat (length (tx_outs t)))) as [Hc|_]; [lia|]. reflexivity.
  Qed.

  (* ----- main theorem, on the wire-format byte strings ----- *)
  Theorem witness_message_serialised t (i : nat) inp amount script f :
    0 <= tx_version t < 2 ^ 32 -> 0 <= tx_locktime t < 2 ^ 32 ->
    Forall (fun x => length (ti_txid x) = 32%nat) (tx_ins t) ->
    nth_error (tx_ins t) i = Some inp ->
    0 <= amount < 2 ^ 64 -> flag_ok f = true ->
    witness_message sha256 (map ser_txin (tx_ins t)) (Z.of_nat i) amount (ser_script script)
                    (map ser_txout (tx_outs t)) (tx_version t) (tx_locktime t) (Some f)
    = of_option IndexE (preimage sha256 t i amount script f).
  Proof.
    intros Hv Hl Hids Hi Ha Hf. destruct (flag_ok_inv f Hf) as (Fq & _ & _ & Fr).
    unfold witness_message, preimage. rewrite Hi. cbn [of_option].
    unfold bytes in *. rewrite !map_map.
    rewrite (map_ext_in (fun x => firstn 36 (ser_txin x)) ser_outpoint).
    2:{ intros x Hx. apply outpoint_slice. rewrite Forall_forall in Hids. now apply Hids. }
    rewrite (map_ext (fun x => lastn 4 (ser_txin x)) (fun x => u32le (ti_seq x)) sequence_slice).
    pose proof (py_index_map_nat ser_outpoint _ _ _ Hi) as E1. unfold bytes in E1. rewrite E1. cbn [bind].
    pose proof (py_index_map_nat (fun x => u32le (ti_seq x)) _ _ _ Hi) as E2. unfold bytes in E2.
    rewrite E2. cbn [bind].
    pose proof (hash_outputs_eq t i f Hf) as E3. unfold bytes in E3. rewrite E3. cbn [bind].
    rewrite (to_le_chk_u32 _ Hv). cbn [bind]. rewrite (to_le_chk_u64 _ Ha). cbn [bind].
    rewrite (to_le_chk_u32 _ Hl). cbn [bind]. rewrite (to_le_chk_u32 _ Fr). cbn [bind].
    rewrite flag_prevouts, Fq.
    unfold hash_prevouts, hash_sequence.
    change (Model.Bip143.hash256 sha256) with (Spec.Bip143.hash256 sha256).
    change zeros32 with zero32.
    destruct (anyonecanpay f); cbn [negb andb];
      destruct (negb (is_single f) && negb (is_none f)); cbn [negb];
      rewrite <- !app_assoc; reflexivity.
  Qed.

  (* ----- the same through the model of tx.outpoint / tx.txin / tx.txout / compact_size_uint ----- *)
  Theorem bip143_exact_gen t (i : nat) amount script f :
    wf_tx t -> (i < length (tx_ins t))%nat -> 0 <= amount < 2 ^ 64 ->
    Z.of_nat (length script) < 2 ^ 64 -> flag_ok f = true ->
    exists p, preimage sha256 t i amount script f = Some p
      /\ witness_message_tx sha256 t (Z.of_nat i) amount script (Some f) = Ok p
      /\ mapM ser_in (tx_ins t) = Ok (map ser_txin (tx_ins t))
      /\ mapM ser_out (tx_outs t) = Ok (map ser_txout (tx_outs t))
      /\ ser_scriptcode script = Ok (ser_script script)
      /\ witness_message sha256 (map ser_txin (tx_ins t)) (Z.of_nat i) amount (ser_script script)
                         (map ser_txout (tx_outs t)) (tx_version t) (tx_locktime t) (Some f) = Ok p.
  Proof.
    intros (Hv & Hl & Hins & Houts) Hi Ha Hs Hf.
    destruct (nth_error (tx_ins t) i) as [inp|] eqn:E; [|apply nth_error_None in E; lia].
    assert (Hids : Forall (fun x => length (ti_txid x) = 32%nat) (tx_ins t)).
    { eapply Forall_impl; [|exact Hins]. intros x Hx. apply Hx. }
    pose proof (witness_message_serialised t i inp amount script f Hv Hl Hids E Ha Hf) as W.
    assert (Min : mapM ser_in (tx_ins t) = Ok (map ser_txin (tx_ins t))).
    { apply mapM_ok_map. eapply Forall_impl; [|exact Hins]. intros x Hx. now apply ser_in_spec. }
    assert (Mout : mapM ser_out (tx_outs t) = Ok (map ser_txout (tx_outs t))).
    { apply mapM_ok_map. eapply Forall_impl; [|exact Houts]. intros x Hx. now apply ser_out_spec. }
    destruct (preimage sha256 t i amount script f) as [p|] eqn:P.
    2:{ unfold preimage in P. rewrite E in P. discriminate. }
    cbn [of_option] in W. exists p. split; [reflexivity|].
    split; [|repeat split; auto using ser_scriptcode_spec].
    unfold witness_message_tx. rewrite Min, Mout. cbn [bind].
    rewrite (ser_scriptcode_spec _ Hs). cbn [bind]. exact W.
  Qed.

  Theorem bip143_exact t (i : nat) amount script f :
    wf_tx t -> (i < length (tx_ins t))%nat -> 0 <= amount < 2 ^ 64 ->
    Z.of_nat (length script) < 2 ^ 64 -> standard_flag f ->
    exists p, preimage sha256 t i amount script f = Some p
      /\ witness_message_tx sha256 t (Z.of_nat i) amount script (Some f) = Ok p
      /\ mapM ser_in (tx_ins t) = Ok (map ser_txin (tx_ins t))
      /\ mapM ser_out (tx_outs t) = Ok (map ser_txout (tx_outs t))
      /\ ser_scriptcode script = Ok (ser_script script)
      /\ witness_message sha256 (map ser_txin (tx_ins t)) (Z.of_nat i) amount (ser_script script)
                         (map ser_txout (tx_outs t)) (tx_version t) (tx_locktime t) (Some f) = Ok p.
  Proof. intros Hwf Hi Ha Hs Hf. apply bip143_exact_gen; auto using standard_flag_ok. Qed.

  (* ----- layout: which outpoint / sequence / amount are signed, and when hashOutputs is zero ----- *)
  Theorem selected_fields t (i : nat) inp amount script f :
    wf_tx t -> nth_error (tx_ins t) i = Some inp -> 0 <= amount < 2 ^ 64 ->
    Z.of_nat (length script) < 2 ^ 64 -> standard_flag f ->
    witness_message_tx sha256 t (Z.of_nat i) amount script (Some f)
    = Ok (u32le (tx_version t) ++ hash_prevouts sha256 t f ++ hash_sequence sha256 t f
          ++ (ti_txid inp ++ u32le (ti_vout inp))
          ++ (cs_enc (Z.of_nat (length script)) ++ script)
          ++ u64le amount
          ++ u32le (ti_seq inp)
          ++ hash_outputs sha256 t i f
          ++ u32le (tx_locktime t) ++ u32le f).
  Proof.
    intros Hwf E Ha Hs Hf.
    assert (Hi : (i < length (tx_ins t))%nat) by (apply nth_error_Some; congruence).
    destruct (bip143_exact t i amount script f Hwf Hi Ha Hs Hf) as (p & P & W & _).
    rewrite W. unfold preimage in P. rewrite E in P. injection P as <-. reflexivity.
  Qed.

  Lemma single_hash_outputs_zero t (i : nat) f :
    (f = 0x03 \/ f = 0x83) -> (length (tx_outs t) <= i)%nat -> hash_outputs sha256 t i f = zero32.
  Proof.
    intros Hf Hge. unfold hash_outputs.
    assert (S : is_single f = true) by (destruct Hf as [-> | ->]; vm_compute; reflexivity).
    assert (N : is_none f = false) by (destruct Hf as [-> | ->]; vm_compute; reflexivity).
    rewrite S, N. cbn [negb andb].
    destruct (Nat.ltb_spec i (length (tx_outs t))); [lia|reflexivity].
  Qed.

  Theorem single_out_of_range t (i : nat) inp amount script f :
    wf_tx t -> nth_error (tx_ins t) i = Some inp -> 0 <= amount < 2 ^ 64 ->
    Z.of_nat (length script) < 2 ^ 64 ->
    (f = 0x03 \/ f = 0x83) -> (length (tx_outs t) <= i)%nat ->
    witness_message_tx sha256 t (Z.of_nat i) amount script (Some f)
    = Ok (u32le (tx_version t) ++ hash_prevouts sha256 t f ++ zero32
          ++ ser_outpoint inp ++ ser_script script ++ u64le amount ++ u32le (ti_seq inp)
          ++ zero32
          ++ u32le (tx_locktime t) ++ u32le f).
  Proof.
    intros Hwf E Ha Hs Hf Hge.
    assert (Hstd : standard_flag f).
    { unfold standard_flag, standard_flags. destruct Hf as [-> | ->]; cbn [In]; auto 10. }
    rewrite (selected_fields t i inp amount script f Hwf E Ha Hs Hstd).
    rewrite (single_hash_outputs_zero t i f Hf Hge).
    assert (HS : hash_sequence sha256 t f = zero32).
    { unfold hash_sequence. destruct Hf as [-> | ->]; reflexivity. }
    rewrite HS. reflexivity.
  Qed.

  (* SINGLE with a matching output commits to exactly that output *)
  Lemma single_in_range t (i : nat) o f :
    (f = 0x03 \/ f = 0x83) -> nth_error (tx_outs t) i = Some o ->
    hash_outputs sha256 t i f = Spec.Bip143.hash256 sha256 (ser_txout o).
  Proof.
    intros Hf E. unfold hash_outputs.
    assert (S : is_single f = true) by (destruct Hf as [-> | ->]; vm_compute; reflexivity).
    assert (N : is_none f = false) by (destruct Hf as [-> | ->]; vm_compute; reflexivity).
    rewrite S, N, E. cbn [negb andb].
    assert (Hi : (i < length (tx_outs t))%nat) by (apply nth_error_Some; congruence).
    destruct (Nat.ltb_spec i (length (tx_outs t))); [reflexivity|lia].
  Qed.

  (* ----- behaviour outside the property's domain (stated, not hidden) ----- *)
  (* the default sighash_flag=None cannot be used: `None & 0x80` raises TypeError *)
  Lemma default_flag_raises txins i v sc txouts ver lt :
    witness_message_py sha256 txins i v sc txouts ver lt None = Err TypeE.
  Proof. reflexivity. Qed.

  (* an input index outside [-n, n) raises IndexError *)
  Lemma index_out_of_range txins i v sc txouts ver lt f :
    Z.of_nat (length txins) <= i -> witness_message sha256 txins i v sc txouts ver lt (Some f) = Err IndexE.
  Proof.
    intros H. unfold witness_message.
    rewrite (py_index_oob (map (firstn 36) txins) i) by (rewrite map_length; exact H). reflexivity.
  Qed.
End WithHash.
