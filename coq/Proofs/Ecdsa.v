(* ECDSA algebra over the model of ecmath.sign / ecmath.verify, from the explicit hypothesis
   record [curve_facts] (proved outright for the small curves in Proofs/SmallCurves*.v). *)
From Coq Require Import ZArith List Bool Lia Zpow_facts.
Require Import Bits.Lib.Result Bits.Lib.Group Bits.Lib.ModArith Bits.Model.Ecmath Bits.Proofs.Ecmath.
Import ListNotations.
Local Open Scope Z_scope.

Record curve_facts (p a b n : Z) (G : point) : Prop := {
  cf_p : 3 < p;
  cf_a : inF p a = true;
  cf_b : inF p b = true;
  cf_group : curve_group p a b;
  cf_n : 3 < n;
  cf_G : oncurve p a b G;
  cf_order : smul p a n G = None;
  cf_min : forall k, 0 < k < n -> smul p a k G <> None;
  cf_inv_n : forall s, 0 < s < n -> (s * Zpow_mod s (n - 2) n) mod n = 1;
}.

(* inversion lemmas for the checked helpers *)
Lemma add_inv m x y v : add_mod_p m x y = Ok v -> inF m x = true /\ inF m y = true /\ v = fadd m x y.
Proof. unfold add_mod_p. destruct (inF m x), (inF m y); simpl; intros H; inversion H; auto. Qed.
Lemma sub_inv m x y v : sub_mod_p m x y = Ok v -> inF m x = true /\ inF m y = true /\ v = fsub m x y.
Proof. unfold sub_mod_p. destruct (inF m x), (inF m y); simpl; intros H; inversion H; auto. Qed.
Lemma mul_inv m x y v : mul_mod_p m x y = Ok v -> inF m x = true /\ inF m y = true /\ v = fmul m x y.
Proof. unfold mul_mod_p. destruct (inF m x), (inF m y); simpl; intros H; inversion H; auto. Qed.
Lemma div_inv m x y v : 3 < m -> div_mod_p m x y = Ok v -> inF m x = true /\ inF m y = true /\ v = fdiv m x y.
Proof.
  intros Hm. unfold div_mod_p. destruct (inF m x) eqn:Ex, (inF m y) eqn:Ey; simpl; try discriminate.
  rewrite (pow_ok m) by (auto; lia). simpl. rewrite (mul_ok m) by (auto using inF_fpow).
  intros H; inversion H; auto.
Qed.

Section Ecdsa.
  Variables p a b n : Z.
  Variable G : point.
  Hypothesis CF : curve_facts p a b n G.

  Let Hp := cf_p _ _ _ _ _ CF.
  Let Ha := cf_a _ _ _ _ _ CF.
  Let Hb := cf_b _ _ _ _ _ CF.
  Let CG := cf_group _ _ _ _ _ CF.
  Let Hn := cf_n _ _ _ _ _ CF.
  Let HG := cf_G _ _ _ _ _ CF.

  Notation ninv := (fun s => Zpow_mod s (n - 2) n).

  Lemma smul_mod k : 0 <= k -> smul p a (k mod n) G = smul p a k G.
  Proof. intros. apply (dbl_add_mod _ _ _ _ _ CG n G); auto; try lia. apply CF. Qed.

  Lemma smul_neg k : 0 <= k -> smul p a ((- k) mod n) G = pneg p (smul p a k G).
  Proof. intros. apply (dbl_add_neg _ _ _ _ _ CG n G); auto; try lia. apply CF. Qed.

  Lemma on_curve_true x y : oncurve p a b (Some (x, y)) -> point_is_on_curve p a b x y = Ok true.
  Proof.
    intros (Hx & Hy & E). rewrite (on_curve_ok p a b Hp Ha Hb) by auto. rewrite E, Z.eqb_refl. reflexivity.
  Qed.

  (* what verify computes, for a public key on the curve and r, s in range *)
  Lemma verify_unfold r s Q z : oncurve p a b Q -> 1 <= r < n -> 1 <= s < n ->
    verify p a b n G r s Q z =
    match padd p a (smul p a (fdiv n (z mod n) s) G) (smul p a (fdiv n r s) Q) with
    | None => Err TypeE
    | Some (x, y) => if r =? x mod n then Ok true else Err AssertionE
    end.
  Proof.
    intros HQ Hr Hs. unfold verify.
    assert (Er : (1 <=? r) && (r <? n) = true) by (apply andb_true_iff; split; [apply Z.leb_le|apply Z.ltb_lt]; lia).
    assert (Es : (1 <=? s) && (s <? n) = true) by (apply andb_true_iff; split; [apply Z.leb_le|apply Z.ltb_lt]; lia).
    rewrite Er, Es. cbn [negb].
    assert (Fs : inF n s = true) by (apply inF_iff; lia).
    assert (Fr : inF n r = true) by (apply inF_iff; lia).
    rewrite (div_ok n Hn) by (auto; apply inF_mod; lia). cbn [bind].
    rewrite (div_ok n Hn) by auto. cbn [bind].
    assert (U1 : 0 <= fdiv n (z mod n) s) by (apply Z.mod_pos_bound; lia).
    assert (U2 : 0 <= fdiv n r s) by (apply Z.mod_pos_bound; lia).
    rewrite (scalar_mul_smul p a b Hp Ha CG) by auto. cbn [bind].
    rewrite (scalar_mul_smul p a b Hp Ha CG) by auto. cbn [bind].
    rewrite (point_add_ok p a b Hp Ha) by (apply (smul_oncurve p a b CG); auto). cbn [bind].
    destruct (padd p a _ _) as [[x y]|] eqn:ER; [|reflexivity].
    assert (OC : oncurve p a b (Some (x, y))).
    { rewrite <- ER. apply CG; apply (smul_oncurve p a b CG); auto. }
    rewrite on_curve_true by exact OC. cbn [bind negb].
    destruct (r =? x mod n); reflexivity.
  Qed.

  (* R = u1 G + u2 (d G) = ((u1 + u2 d) mod n) G *)
  Lemma combine u1 u2 d : 0 <= u1 -> 0 <= u2 -> 0 <= d ->
    padd p a (smul p a u1 G) (smul p a u2 (smul p a d G)) = smul p a ((u1 + u2 * d) mod n) G.
  Proof.
    intros H1 H2 H3. rewrite (smul_mul p a b CG) by auto.
    rewrite <- (smul_add p a b CG) by (auto; nia). symmetry. apply smul_mod. nia.
  Qed.

  Theorem sign_sound draws : forall d z r s rest, 1 <= d < n ->
    sign_with p a n G draws d z = Ok (r, s, rest) ->
    (1 <= r < n /\ 1 <= s <= n / 2) /\
    verify p a b n G r s (smul p a d G) z = Ok true /\
    (exists k, In k draws /\ 0 < k < n /\
       exists x y, smul p a k G = Some (x, y) /\ r = x mod n).
  Proof.
    induction draws as [|k draws IH]; intros d z r s rest Hd H; [discriminate|].
    cbn [sign_with] in H.
    assert (IH' : sign_with p a n G draws d z = Ok (r, s, rest) ->
      (1 <= r < n /\ 1 <= s <= n / 2) /\ verify p a b n G r s (smul p a d G) z = Ok true /\
      (exists k0, In k0 (k :: draws) /\ 0 < k0 < n /\ exists x y, smul p a k0 G = Some (x, y) /\ r = x mod n)).
    { intros H'. destruct (IH d z r s rest Hd H') as (A & B & (k0 & K1 & K2)).
      split; [exact A|]. split; [exact B|]. exists k0. split; [right; exact K1|exact K2]. }
    destruct (Z.eqb_spec k 0) as [->|Hk0]; [auto|].
    destruct (point_scalar_mul p a k G) as [R|e] eqn:ER; cbn [bind] in H; [|discriminate].
    destruct R as [[x y]|]; [|discriminate].
    destruct (Z.eqb_spec (x mod n) 0) as [_|Hr0]; [auto|].
    destruct (mul_mod_p n (x mod n) d) as [rk|] eqn:E1; cbn [bind] in H; [|discriminate].
    apply mul_inv in E1 as (Fr & Fd & ->).
    destruct (add_mod_p n (z mod n) _) as [num|] eqn:E2; cbn [bind] in H; [|discriminate].
    apply add_inv in E2 as (Fz & _ & ->).
    destruct (div_mod_p n _ k) as [s0|] eqn:E3; cbn [bind] in H; [|discriminate].
    apply (div_inv n _ _ _ Hn) in E3 as (_ & Fk & ->).
    apply inF_iff in Fk.
    assert (Hk : 0 < k < n) by lia.
    set (e := z mod n) in *. set (r0 := x mod n) in *.
    set (s0 := fdiv n (fadd n e (fmul n r0 d)) k) in *.
    assert (Rs0 : 0 <= s0 < n) by (apply Z.mod_pos_bound; lia).
    assert (Rr0 : 0 <= r0 < n) by (apply Z.mod_pos_bound; lia).
    (* the public key and the nonce point *)
    rewrite (scalar_mul_smul p a b Hp Ha CG) in ER by (auto; lia).
    injection ER as ER.
    assert (Hd0 : 0 <= d) by lia.
    assert (OQ : oncurve p a b (smul p a d G)) by (apply (smul_oncurve p a b CG); auto).
    assert (Wit : exists k0, In k0 (k :: draws) /\ 0 < k0 < n /\
              exists x0 y0, smul p a k0 G = Some (x0, y0) /\ r0 = x0 mod n).
    { exists k. split; [left; reflexivity|]. split; [exact Hk|]. exists x, y. split; [exact ER|reflexivity]. }
    destruct ((s0 >? n / 2) || (s0 <? 1)) eqn:Eneg.
    - (* negated s *)
      destruct (sub_mod_p n 0 s0) as [s1|] eqn:E4; cbn [bind] in H; [|discriminate].
      apply sub_inv in E4 as (_ & _ & ->).
      destruct (Z.eqb_spec (fsub n 0 s0) 0) as [_|Hs1]; [auto|].
      injection H as <- <- <-.
      assert (Hs0 : 0 < s0 < n).
      { destruct (Z.eq_dec s0 0) as [Z0|]; [|lia]. exfalso. apply Hs1. unfold fsub. rewrite Z0. reflexivity. }
      assert (Es1 : fsub n 0 s0 = n - s0).
      { unfold fsub. replace (0 - s0) with (- s0) by lia.
        rewrite Z.mod_opp_l_nz by (try lia; rewrite Z.mod_small by lia; lia).
        rewrite Z.mod_small by lia. reflexivity. }
      assert (Hs1r : 1 <= fsub n 0 s0 <= n / 2).
      { rewrite Es1. apply orb_true_iff in Eneg as [Eg|El].
        - apply Z.gtb_lt in Eg. pose proof (Z.div_mod n 2 ltac:(lia)). pose proof (Z.mod_pos_bound n 2 ltac:(lia)). lia.
        - apply Z.ltb_lt in El. lia. }
      split; [split; [lia|exact Hs1r]|]. split; [|exact Wit].
      rewrite verify_unfold by (auto; try lia; pose proof (Z.div_le_upper_bound n 2 n ltac:(lia) ltac:(lia)); lia).
      unfold fdiv at 1 2. unfold fmul, fpow.
      rewrite combine by (try apply Z.mod_pos_bound; lia).
      pose proof (ecdsa_core_neg n ltac:(lia) ninv (cf_inv_n _ _ _ _ _ CF) e r0 d k Hk Hs0) as Core.
      cbv zeta in Core. unfold s0, fdiv, fadd, fmul, fsub, fpow in *. change (z mod n) with e. rewrite Core.
      rewrite smul_neg by lia. rewrite ER. cbn [pneg].
      fold r0. rewrite Z.eqb_refl. reflexivity.
    - cbn [bind] in H.
      destruct (Z.eqb_spec s0 0) as [_|Hs0']; [auto|].
      injection H as <- <- <-.
      apply orb_false_iff in Eneg as [Eg El].
      assert (Hs0 : 0 < s0 < n) by lia.
      assert (Hle : s0 <= n / 2).
      { destruct (Z.gtb_spec s0 (n / 2)); [discriminate|lia]. }
      split; [split; lia|]. split; [|exact Wit].
      rewrite verify_unfold by (auto; lia).
      unfold fdiv at 1 2. unfold fmul, fpow.
      rewrite combine by (try apply Z.mod_pos_bound; lia).
      pose proof (ecdsa_core n ltac:(lia) ninv (cf_inv_n _ _ _ _ _ CF) e r0 d k Hk Hs0) as Core.
      cbv zeta in Core. unfold s0, fdiv, fadd, fmul, fpow in *. change (z mod n) with e. rewrite Core.
      rewrite ER. fold r0. rewrite Z.eqb_refl. reflexivity.
  Qed.
End Ecdsa.
