(* C01, wrapper level: a signature made by utils.sig is accepted by utils.sig_verify under the signer's public
   key in compressed AND uncompressed SEC1 form, in plain-message and preimage mode - for any hash function. *)
From Coq Require Import ZArith List Bool Lia.
Require Import Bits.Lib.Result Bits.Lib.Bytes Bits.Model.Ecmath Bits.Model.Keys Bits.Model.Sec1 Bits.Model.Der
  Bits.Proofs.Ecmath Bits.Proofs.Ecdsa Bits.Proofs.EcdsaMore Bits.Proofs.Keys Bits.Proofs.Sec1 Bits.Proofs.Der
  Bits.Proofs.SigVerify.
Require Bits.Spec.Sec1.
Import ListNotations.
Local Open Scope Z_scope.

Section SigRoundtrip.
  Variables p a b n : Z.
  Variable G : point.
  Variable sha256 : bytes -> bytes.
  Hypothesis CF : curve_facts p a b n G.
  Hypothesis SF : sec1_facts p a b.
  Hypothesis Hn256 : n <= 2 ^ 256.

  Theorem sig_then_sig_verify draws key msg f pre sg rest c :
    sig p a n G sha256 draws key msg (Some f) pre = Ok (sg, rest) -> 0 <= f < 256 ->
    exists d x y pk,
      privkey_int n key = Ok d /\ smul p a d G = Some (x, y) /\ pubkey x y c = Ok pk /\
      sig_verify p a b n G sha256 sg pk msg pre = Ok true.
  Proof.
    intros H Hf.
    apply sig_flag_suffix_der in H as (m & d & r & s & der & Ek & Es & Em & Ed & ->); [|exact Hf].
    pose proof (proj1 (privkey_int_iff n key d) Ek) as (_ & Rd & _).
    assert (Hd : 1 <= d < n) by (destruct (proj1 (privkey_int_iff n key d) Ek) as (_ & R & ->); exact R).
    destruct (sign_sound p a b n G CF draws d (of_be (hash256 sha256 m)) r s rest Hd Es) as ((Rr & Rs) & V & _).
    pose proof (cf_n _ _ _ _ _ CF) as Hn.
    assert (OQ : oncurve p a b (smul p a d G)).
    { apply (smul_oncurve p a b (cf_group _ _ _ _ _ CF)); [apply CF|lia]. }
    remember (smul p a d G) as Q eqn:EQ. symmetry in EQ. destruct Q as [[x y]|].
    2:{ exfalso. apply (cf_min _ _ _ _ _ CF d); [lia|exact EQ]. }
    destruct (sec1_roundtrip p a b (s1_sqrt _ _ _ SF) (s1_a _ _ _ SF) (s1_b _ _ _ SF) (s1_width _ _ _ SF) x y c OQ)
      as (Epk & Edec).
    exists d, x, y, (Bits.Spec.Sec1.encode c x y).
    split; [exact Ek|]. split; [exact EQ|]. split; [exact Epk|].
    apply (sig_verify_iff p a b n G sha256 CF).
    exists der, (z2b f), r, s, x, y.
    split; [reflexivity|].
    assert (Rs' : n / 2 < n) by (apply Z.div_lt; lia).
    split.
    { destruct (der_roundtrip r s ltac:(lia) ltac:(lia)) as (der' & E1 & E2). congruence. }
    split; [exact Edec|].
    rewrite b2z_z2b by exact Hf. rewrite <- Em.
    apply (verify_iff p a b n G CF); [exact OQ|exact V].
  Qed.
End SigRoundtrip.
