(* Proofs for C10 (BIP39).  Sizes are parameterised by c = ENT/32 in 4..8:
   entropy bytes = 4c, words = 3c, checksum bits = c, total bits = 33c = 11 * 3c. *)
From Coq Require Import ZArith List Lia Bool.
Require Import Bits.Lib.Result Bits.Lib.Bytes Bits.Lib.Radix Bits.Lib.RadixW.
Require Import Bits.Spec.Bip39 Bits.Model.Bip39 Bits.Proofs.Bip39Lemmas.
Import ListNotations.
Local Open Scope Z_scope.

Lemma pow2048 n : 0 <= n -> 2048 ^ n = 2 ^ (11 * n).
Proof. intros H. rewrite Z.pow_mul_r by lia. reflexivity. Qed.
Lemma pow256 n : 0 <= n -> 256 ^ n = 2 ^ (8 * n).
Proof. intros H. rewrite Z.pow_mul_r by lia. reflexivity. Qed.

Lemma z_in_strength c : 4 <= c <= 8 -> z_in (32 * c) [128; 160; 192; 224; 256] = true.
Proof.
  intros H. assert (C : c = 4 \/ c = 5 \/ c = 6 \/ c = 7 \/ c = 8) by lia.
  destruct C as [-> | [-> | [-> | [-> | ->]]]]; reflexivity.
Qed.
Lemma z_in_words c : 4 <= c <= 8 -> z_in (3 * c) [12; 15; 18; 21; 24] = true.
Proof.
  intros H. assert (C : c = 4 \/ c = 5 \/ c = 6 \/ c = 7 \/ c = 8) by lia.
  destruct C as [-> | [-> | [-> | [-> | ->]]]]; reflexivity.
Qed.

Lemma ent_lengths_c (n : nat) : In n ent_lengths <-> exists c : nat, (4 <= c <= 8)%nat /\ n = (4 * c)%nat.
Proof.
  unfold ent_lengths. cbn [In]. split.
  - intros [<-|[<-|[<-|[<-|[<-|[]]]]]]; [exists 4%nat | exists 5%nat | exists 6%nat | exists 7%nat | exists 8%nat]; lia.
  - intros (c & H & ->). assert (C : (c = 4 \/ c = 5 \/ c = 6 \/ c = 7 \/ c = 8)%nat) by lia.
    destruct C as [-> | [-> | [-> | [-> | ->]]]]; cbn; tauto.
Qed.
Lemma ms_lengths_c (n : nat) : In n ms_lengths <-> exists c : nat, (4 <= c <= 8)%nat /\ n = (3 * c)%nat.
Proof.
  unfold ms_lengths. cbn [In]. split.
  - intros [<-|[<-|[<-|[<-|[<-|[]]]]]]; [exists 4%nat | exists 5%nat | exists 6%nat | exists 7%nat | exists 8%nat]; lia.
  - intros (c & H & ->). assert (C : (c = 4 \/ c = 5 \/ c = 6 \/ c = 7 \/ c = 8)%nat) by lia.
    destruct C as [-> | [-> | [-> | [-> | ->]]]]; cbn; tauto.
Qed.

Lemma z_in_strength_false (n : nat) : ~ In n ent_lengths -> z_in (Z.of_nat n * 8) [128; 160; 192; 224; 256] = false.
Proof.
  intros H. apply not_true_is_false. intros T. apply H. unfold z_in in T. cbn [existsb] in T.
  rewrite !orb_true_iff, !Z.eqb_eq in T. unfold ent_lengths. cbn [In].
  destruct T as [T|[T|[T|[T|[T|T]]]]]; try discriminate; lia.
Qed.
Lemma z_in_words_false (n : nat) : ~ In n ms_lengths -> z_in (Z.of_nat n) [12; 15; 18; 21; 24] = false.
Proof.
  intros H. apply not_true_is_false. intros T. apply H. unfold z_in in T. cbn [existsb] in T.
  rewrite !orb_true_iff, !Z.eqb_eq in T. unfold ms_lengths. cbn [In].
  destruct T as [T|[T|[T|[T|[T|T]]]]]; try discriminate; lia.
Qed.

Lemma byte_last_to_be k n : (0 < k)%nat -> byte_last (to_be k n) = Ok (n mod 256).
Proof.
  intros H. destruct k as [|k]; [lia|]. unfold byte_last, to_be. rewrite rev_involutive.
  cbn [to_le]. now rewrite b2z_z2b_mod.
Qed.

Lemma land_low c D : 0 <= c <= 8 -> Z.land (D mod 256) (2 ^ c - 1) = D mod 2 ^ c.
Proof.
  intros H. replace (2 ^ c - 1) with (Z.ones c) by (rewrite Z.ones_equiv; lia).
  rewrite Z.land_ones by lia.
  assert (P : 0 < 2 ^ c) by (apply Z.pow_pos_nonneg; lia).
  assert (Q : 0 < 2 ^ (8 - c)) by (apply Z.pow_pos_nonneg; lia).
  replace 256 with (2 ^ c * 2 ^ (8 - c)).
  2:{ rewrite <- Z.pow_add_r by lia. replace (c + (8 - c)) with 8 by lia. reflexivity. }
  rewrite Z.rem_mul_r by lia. rewrite (Z.mul_comm (2 ^ c)), Z.mod_add by lia. apply Z.mod_mod. lia.
Qed.

Section Proofs.
  Variable sha256 : bytes -> bytes.
  Variable wl : list bytes.
  Hypothesis Hsha : forall m, length (sha256 m) = 32%nat.
  Hypothesis Hwl : length wl = 2048%nat.
  Hypothesis Hnd : NoDup wl.

  Definition idx (w : bytes) : Z := Z.of_nat (word_index w wl).
  Definition nthw (i : Z) : bytes := nth (Z.to_nat i) wl [].
  (* the first byte of the hash *)
  Definition h0 (m : bytes) : Z := match sha256 m with [] => 0 | b :: _ => b2z b end.
  Definition all_in (ws : list bytes) : Prop := Forall (fun w => In w wl) ws.

  Lemma sha_cons m : exists hb r, sha256 m = hb :: r.
  Proof. pose proof (Hsha m) as H. destruct (sha256 m) as [|hb r]; [discriminate|eauto]. Qed.

  Lemma h0_top c m : (4 <= c <= 8)%nat -> 0 <= h0 m / 2 ^ (8 - Z.of_nat c) < 2 ^ Z.of_nat c.
  Proof.
    intros H. unfold h0. destruct (sha_cons m) as (hb & r & ->). apply checksum_top_bound. lia.
  Qed.

  Lemma idx_range ws : all_in ws -> in_range 2048 (map idx ws).
  Proof.
    induction 1 as [|w ws Hw _ IH]; cbn [map]; constructor; [|exact IH].
    unfold idx. apply word_index_lt in Hw. rewrite Hwl in Hw. lia.
  Qed.

  Lemma nthw_idx ws : all_in ws -> map nthw (map idx ws) = ws.
  Proof.
    induction 1 as [|w ws Hw _ IH]; cbn [map]; [reflexivity|]. rewrite IH. f_equal.
    unfold nthw, idx. rewrite Nat2Z.id. now apply nth_word_index.
  Qed.

  Lemma all_in_nthw ds : in_range 2048 ds -> all_in (map nthw ds).
  Proof.
    induction 1 as [|d ds Hd _ IH]; cbn [map]; constructor; [|exact IH].
    unfold nthw. apply nth_In. rewrite Hwl. lia.
  Qed.

  Lemma idx_nthw ds : in_range 2048 ds -> map idx (map nthw ds) = ds /\ all_in (map nthw ds).
  Proof.
    induction 1 as [|d ds Hd _ [IH1 IH2]]; cbn [map]; [split; [reflexivity|constructor]|].
    assert (L : (Z.to_nat d < length wl)%nat) by (rewrite Hwl; lia).
    split.
    - rewrite IH1. f_equal. unfold idx, nthw. rewrite word_index_nth by assumption. lia.
    - constructor; [|exact IH2]. unfold nthw. now apply nth_In.
  Qed.

  (* ---------- calculate_mnemonic_phrase ---------- *)
  Definition payload (c : nat) (e : bytes) : Z := of_be e * 2 ^ Z.of_nat c + h0 e / 2 ^ (8 - Z.of_nat c).

  Lemma payload_range c e : (4 <= c <= 8)%nat -> length e = (4 * c)%nat ->
    0 <= payload c e < 2048 ^ Z.of_nat (3 * c).
  Proof.
    intros Hc He. unfold payload. pose proof (h0_top c e Hc) as T.
    pose proof (of_be_nonneg e) as N. pose proof (of_be_bound e) as B.
    rewrite He, pow256 in B by lia. rewrite pow2048 by lia.
    replace (11 * Z.of_nat (3 * c)) with (8 * Z.of_nat (4 * c) + Z.of_nat c) by lia.
    rewrite Z.pow_add_r by lia.
    assert (P : 0 < 2 ^ Z.of_nat c) by (apply Z.pow_pos_nonneg; lia). nia.
  Qed.

  Lemma mnemonic_words_char c e : (4 <= c <= 8)%nat -> length e = (4 * c)%nat ->
    mnemonic_words sha256 wl e = Ok (map nthw (digits_w 2048 (3 * c) (payload c e))).
  Proof.
    intros Hc He. unfold mnemonic_words. cbv zeta. rewrite He.
    replace (Z.of_nat (4 * c) * 8) with (32 * Z.of_nat c) by lia.
    rewrite z_in_strength by lia. cbn [negb].
    replace (32 * Z.of_nat c / 32) with (Z.of_nat c) by (rewrite Z.mul_comm, Z.div_mul; lia).
    unfold payload, h0. destruct (sha_cons e) as (hb & r & ->). cbn [byte0 bind].
    rewrite checksum_top by lia.
    rewrite lor_shiftl_small by (try apply checksum_top_bound; lia).
    unfold bit_groups. rewrite bit_groups_digits, rev_involutive.
    replace ((32 * Z.of_nat c + Z.of_nat c) / 11) with (Z.of_nat (3 * c))
      by (replace (32 * Z.of_nat c + Z.of_nat c) with (Z.of_nat (3 * c) * 11) by lia; rewrite Z.div_mul; lia).
    rewrite Nat2Z.id. apply mapM_list_get. rewrite Hwl. apply digits_w_in_range. lia.
  Qed.

  Lemma mnemonic_words_badlen e : ~ In (length e) ent_lengths -> mnemonic_words sha256 wl e = Err ValueE.
  Proof. intros H. unfold mnemonic_words. cbv zeta. now rewrite z_in_strength_false. Qed.

  (* ---------- to_entropy ---------- *)
  Lemma fold_data_ok rws : all_in rws -> forall (i : nat) data, 0 <= data < 2048 ^ Z.of_nat i ->
    fold_data wl rws (Z.of_nat i) data = Ok (undigits 2048 (map idx (rev rws)) * 2048 ^ Z.of_nat i + data).
  Proof.
    induction 1 as [|w r Hw Hr IH]; intros i data Hd.
    - cbn [fold_data rev map]. change (undigits 2048 []) with 0. f_equal; lia.
    - cbn [fold_data]. rewrite list_index_in by exact Hw. cbn [bind]. fold (idx w).
      assert (G : 0 <= idx w < 2048).
      { unfold idx. apply word_index_lt in Hw. rewrite Hwl in Hw. lia. }
      assert (E : 2 ^ (Z.of_nat i * 11) = 2048 ^ Z.of_nat i) by (rewrite pow2048 by lia; f_equal; lia).
      rewrite lor_small_shiftl by (rewrite ?E; lia). rewrite E.
      replace (Z.of_nat i + 1) with (Z.of_nat (S i)) by lia.
      rewrite IH.
      + cbn [rev]. rewrite map_app. cbn [map]. rewrite undigits_snoc. f_equal.
        rewrite Nat2Z.inj_succ, Z.pow_succ_r by lia. ring.
      + rewrite Nat2Z.inj_succ, Z.pow_succ_r by lia. nia.
  Qed.

  Lemma fold_data_err rws : ~ all_in rws -> forall i data, fold_data wl rws i data = Err ValueE.
  Proof.
    induction rws as [|w r IH]; intros H i data; [exfalso; apply H; constructor|].
    cbn [fold_data]. destruct (In_dec_bytes w wl) as [Hw|Hw].
    - rewrite list_index_in by exact Hw. cbn [bind]. apply IH. intros Hr. apply H. constructor; assumption.
    - rewrite list_index_notin by exact Hw. reflexivity.
  Qed.

  Definition data_of (ws : list bytes) : Z := undigits 2048 (map idx ws).
  Definition ent_of (c : nat) (ws : list bytes) : bytes := to_be (4 * c) (data_of ws / 2 ^ Z.of_nat c).

  Lemma data_range c ws : all_in ws -> length ws = (3 * c)%nat -> 0 <= data_of ws < 2 ^ (33 * Z.of_nat c).
  Proof.
    intros Ha Hl. pose proof (idx_range ws Ha) as R. unfold data_of. split.
    - apply undigits_nonneg; [lia|exact R].
    - pose proof (undigits_bound 2048 _ ltac:(lia) R) as B. rewrite map_length, Hl, pow2048 in B by lia.
      replace (33 * Z.of_nat c) with (11 * Z.of_nat (3 * c)) by lia. exact B.
  Qed.

  Lemma ent_range c ws : all_in ws -> length ws = (3 * c)%nat ->
    0 <= data_of ws / 2 ^ Z.of_nat c < 256 ^ Z.of_nat (4 * c).
  Proof.
    intros Ha Hl. pose proof (data_range c ws Ha Hl) as [N B].
    assert (P : 0 < 2 ^ Z.of_nat c) by (apply Z.pow_pos_nonneg; lia).
    split; [apply Z.div_pos; lia|]. apply Z.div_lt_upper_bound; [lia|].
    rewrite pow256, <- Z.pow_add_r by lia.
    replace (Z.of_nat c + 8 * Z.of_nat (4 * c)) with (33 * Z.of_nat c) by lia. exact B.
  Qed.

  Lemma to_entropy_words_badlen ws : ~ In (length ws) ms_lengths -> to_entropy_words sha256 wl ws = Err ValueE.
  Proof. intros H. unfold to_entropy_words. cbv zeta. now rewrite z_in_words_false. Qed.

  Lemma to_entropy_words_notin c ws : (4 <= c <= 8)%nat -> length ws = (3 * c)%nat -> ~ all_in ws ->
    to_entropy_words sha256 wl ws = Err ValueE.
  Proof.
    intros Hc Hl Ha. unfold to_entropy_words. cbv zeta. rewrite Hl.
    replace (Z.of_nat (3 * c)) with (3 * Z.of_nat c) by lia. rewrite z_in_words by lia. cbn [negb].
    rewrite fold_data_err; [reflexivity|]. intros H. apply Ha. unfold all_in in *.
    rewrite <- (rev_involutive ws). now apply Forall_rev.
  Qed.

  Lemma to_entropy_words_char c ws : (4 <= c <= 8)%nat -> length ws = (3 * c)%nat -> all_in ws ->
    to_entropy_words sha256 wl ws =
    if h0 (ent_of c ws) / 2 ^ (8 - Z.of_nat c) =? data_of ws mod 2 ^ Z.of_nat c
    then Ok (ent_of c ws) else Err AssertionE.
  Proof.
    intros Hc Hl Ha. pose proof (data_range c ws Ha Hl) as [DN DB].
    pose proof (ent_range c ws Ha Hl) as ER.
    unfold to_entropy_words. cbv zeta. rewrite Hl.
    replace (Z.of_nat (3 * c)) with (3 * Z.of_nat c) by lia. rewrite z_in_words by lia. cbn [negb].
    change 0 with (Z.of_nat 0) at 1.
    rewrite fold_data_ok by (try (apply Forall_rev; exact Ha); simpl; lia).
    rewrite rev_involutive. fold (data_of ws). cbn [bind].
    replace (data_of ws * 2048 ^ Z.of_nat 0 + 0) with (data_of ws) by (simpl; lia).
    replace (3 * Z.of_nat c / 3) with (Z.of_nat c) by (rewrite Z.mul_comm, Z.div_mul; lia).
    set (L := (3 * Z.of_nat c * 11 + 7) / 8).
    assert (HL : 33 * Z.of_nat c <= 8 * L /\ 0 < L).
    { unfold L. pose proof (Z.div_mod (3 * Z.of_nat c * 11 + 7) 8 ltac:(lia)) as DM.
      pose proof (Z.mod_pos_bound (3 * Z.of_nat c * 11 + 7) 8 ltac:(lia)). lia. }
    unfold to_be_chk at 1.
    assert (R1 : (0 <=? data_of ws) && (data_of ws <? 256 ^ Z.of_nat (Z.to_nat L)) = true).
    { apply andb_true_iff. split; [apply Z.leb_le; lia|]. apply Z.ltb_lt.
      rewrite pow256, Z2Nat.id by lia. eapply Z.lt_le_trans; [exact DB|].
      apply Z.pow_le_mono_r; lia. }
    rewrite R1. cbn [bind]. rewrite byte_last_to_be by lia. cbn [bind].
    rewrite land_low by lia. rewrite Z.shiftr_div_pow2 by lia.
    replace ((3 * Z.of_nat c * 11 - Z.of_nat c + 7) / 8) with (Z.of_nat (4 * c)).
    2:{ replace (3 * Z.of_nat c * 11 - Z.of_nat c + 7) with (7 + Z.of_nat (4 * c) * 8) by lia.
        rewrite Z.div_add by lia. reflexivity. }
    rewrite Nat2Z.id. unfold to_be_chk.
    assert (R2 : (0 <=? data_of ws / 2 ^ Z.of_nat c) && (data_of ws / 2 ^ Z.of_nat c <? 256 ^ Z.of_nat (4 * c)) = true).
    { apply andb_true_iff. split; [apply Z.leb_le|apply Z.ltb_lt]; lia. }
    rewrite R2. cbn [bind]. fold (ent_of c ws).
    unfold h0. destruct (sha_cons (ent_of c ws)) as (hb & r & ->). cbn [byte0 bind].
    rewrite Z.shiftr_div_pow2 by lia. reflexivity.
  Qed.

  (* ---------- round trip and its converse ---------- *)
  Lemma roundtrip_c c e : (4 <= c <= 8)%nat -> length e = (4 * c)%nat ->
    to_entropy_words sha256 wl (map nthw (digits_w 2048 (3 * c) (payload c e))) = Ok e.
  Proof.
    intros Hc He. set (ds := digits_w 2048 (3 * c) (payload c e)).
    assert (Rds : in_range 2048 ds) by (apply digits_w_in_range; lia).
    destruct (idx_nthw ds Rds) as [I A].
    assert (Lw : length (map nthw ds) = (3 * c)%nat) by (unfold ds; now rewrite map_length, digits_w_length).
    rewrite (to_entropy_words_char c) by assumption.
    assert (D : data_of (map nthw ds) = payload c e).
    { unfold data_of. rewrite I. unfold ds. apply undigits_digits_w_small; [lia|].
      now apply payload_range. }
    pose proof (h0_top c e Hc) as T.
    assert (P : 0 < 2 ^ Z.of_nat c) by (apply Z.pow_pos_nonneg; lia).
    assert (E : ent_of c (map nthw ds) = e).
    { unfold ent_of. rewrite D. unfold payload. rewrite Z.add_comm, Z.div_add by lia.
      rewrite Z.div_small by lia. cbn [Z.add]. rewrite <- He. apply to_be_of_be. }
    rewrite E, D. unfold payload at 1. rewrite Z.add_comm, Z.mod_add by lia. rewrite Z.mod_small by lia.
    now rewrite Z.eqb_refl.
  Qed.

  Lemma accepted_is_mnemonic_c c ws e : (4 <= c <= 8)%nat -> length ws = (3 * c)%nat ->
    to_entropy_words sha256 wl ws = Ok e ->
    all_in ws /\ e = ent_of c ws /\ length e = (4 * c)%nat
    /\ h0 e / 2 ^ (8 - Z.of_nat c) = data_of ws mod 2 ^ Z.of_nat c
    /\ map nthw (digits_w 2048 (3 * c) (payload c e)) = ws.
  Proof.
    intros Hc Hl H.
    assert (Ha : all_in ws).
    { destruct (Forall_dec (fun w => In w wl) (fun w => In_dec_bytes w wl) ws) as [Ha|Hn]; [exact Ha|].
      rewrite (to_entropy_words_notin c) in H by assumption. discriminate. }
    rewrite (to_entropy_words_char c) in H by assumption.
    destruct (Z.eqb_spec (h0 (ent_of c ws) / 2 ^ (8 - Z.of_nat c)) (data_of ws mod 2 ^ Z.of_nat c)) as [Q|Q];
      [|discriminate].
    injection H as <-. pose proof (ent_range c ws Ha Hl) as ER.
    assert (Le : length (ent_of c ws) = (4 * c)%nat) by (unfold ent_of; apply to_be_length).
    repeat split; try assumption.
    assert (P : 0 < 2 ^ Z.of_nat c) by (apply Z.pow_pos_nonneg; lia).
    assert (D : payload c (ent_of c ws) = data_of ws).
    { unfold payload. rewrite Q. unfold ent_of. rewrite of_be_to_be by exact ER.
      pose proof (Z.div_mod (data_of ws) (2 ^ Z.of_nat c) ltac:(lia)). lia. }
    rewrite D. unfold data_of. rewrite <- Hl, <- (map_length idx ws).
    rewrite digits_w_undigits by (try apply idx_range; try assumption; lia).
    now apply nthw_idx.
  Qed.

  (* ---------- link with the bit-level statement of the standard ---------- *)
  Lemma word_bits_val ws : all_in ws -> undigits 2 (word_bits wl ws) = data_of ws.
  Proof.
    intros Ha. unfold word_bits, data_of. fold idx. apply (undigits_expand 11).
    change (2 ^ Z.of_nat 11) with 2048. now apply idx_range.
  Qed.

  Lemma word_bits_length ws : length (word_bits wl ws) = (11 * length ws)%nat.
  Proof. unfold word_bits. now rewrite expand_length, map_length. Qed.

  Lemma ent_of_ms_c c : ent_of_ms (3 * c) = (32 * c)%nat.
  Proof. unfold ent_of_ms. rewrite (Nat.mul_comm 3 c), Nat.div_mul by lia. lia. Qed.
  Lemma cs_of_ms_c c : cs_of_ms (3 * c) = c.
  Proof. unfold cs_of_ms. rewrite (Nat.mul_comm 3 c), Nat.div_mul by lia. lia. Qed.

  Lemma entropy_bits_char c ws : (4 <= c <= 8)%nat -> length ws = (3 * c)%nat -> all_in ws ->
    entropy_bits wl ws = bits_of_bytes (ent_of c ws).
  Proof.
    intros Hc Hl Ha. unfold entropy_bits. rewrite Hl, ent_of_ms_c.
    pose proof (word_bits_length ws) as WL. rewrite Hl in WL.
    replace (32 * c)%nat with (length (word_bits wl ws) - c)%nat by lia.
    apply (undigits_inj 2); [lia| | | |].
    - apply in_range_firstn, expand_in_range.
    - apply bits_of_bytes_in_range.
    - rewrite firstn_length, bits_of_bytes_length. unfold ent_of. rewrite to_be_length. lia.
    - rewrite undigits_firstn by (try apply expand_in_range; lia).
      rewrite word_bits_val by exact Ha. rewrite undigits_bits_of_bytes. unfold ent_of.
      rewrite of_be_to_be by now apply ent_range. reflexivity.
  Qed.

  Lemma hash_bits_val c m : (4 <= c <= 8)%nat ->
    undigits 2 (firstn c (bits_of_bytes (sha256 m))) = h0 m / 2 ^ (8 - Z.of_nat c)
    /\ length (firstn c (bits_of_bytes (sha256 m))) = c.
  Proof.
    intros Hc. unfold h0. destruct (sha_cons m) as (hb & r & ->).
    rewrite bits_of_bytes_cons, firstn_app, digits_w_length.
    replace (c - 8)%nat with O by lia. cbn [firstn]. rewrite app_nil_r. split.
    - replace c with (length (digits_w 2 8 (b2z hb)) - (8 - c))%nat at 1 by (rewrite digits_w_length; lia).
      rewrite undigits_firstn by (try apply digits_w_in_range; rewrite ?digits_w_length; lia).
      rewrite undigits_digits_w_small by (try lia; pose proof (b2z_range hb); simpl; lia).
      f_equal. f_equal. lia.
    - rewrite firstn_length, digits_w_length. lia.
  Qed.

  Lemma checksum_bits_char c ws m : (4 <= c <= 8)%nat -> length ws = (3 * c)%nat -> all_in ws ->
    (checksum_bits wl ws = firstn (cs_of_ms (length ws)) (bits_of_bytes (sha256 m))
     <-> data_of ws mod 2 ^ Z.of_nat c = h0 m / 2 ^ (8 - Z.of_nat c)).
  Proof.
    intros Hc Hl Ha. unfold checksum_bits. rewrite Hl, ent_of_ms_c, cs_of_ms_c.
    pose proof (word_bits_length ws) as WL. rewrite Hl in WL.
    replace (32 * c)%nat with (length (word_bits wl ws) - c)%nat by lia.
    destruct (hash_bits_val c m Hc) as [HV HLn].
    assert (V : undigits 2 (skipn (length (word_bits wl ws) - c) (word_bits wl ws)) = data_of ws mod 2 ^ Z.of_nat c).
    { rewrite undigits_skipn by (try apply expand_in_range; lia). now rewrite word_bits_val. }
    split.
    - intros E. rewrite <- V, E. exact HV.
    - intros E. apply (undigits_inj 2); [lia| | | |].
      + apply in_range_skipn, expand_in_range.
      + apply in_range_firstn, bits_of_bytes_in_range.
      + rewrite skipn_length, HLn. lia.
      + rewrite V, HV. exact E.
  Qed.

  Lemma accept_iff_c c ws e : (4 <= c <= 8)%nat -> length ws = (3 * c)%nat ->
    (to_entropy_words sha256 wl ws = Ok e <-> spec_accepts sha256 wl ws e).
  Proof.
    intros Hc Hl. unfold spec_accepts. split.
    - intros H. destruct (accepted_is_mnemonic_c c ws e Hc Hl H) as (Ha & He & _ & Q & _).
      split; [exact Ha|]. split.
      + rewrite (entropy_bits_char c) by assumption. now rewrite He.
      + apply (checksum_bits_char c); auto.
    - intros (Ha & Eb & Cb). fold (all_in ws) in Ha.
      rewrite (entropy_bits_char c) in Eb by assumption. apply bits_of_bytes_inj in Eb. subst e.
      apply (checksum_bits_char c) in Cb; try assumption.
      rewrite (to_entropy_words_char c) by assumption. rewrite Cb. now rewrite Z.eqb_refl.
  Qed.

  (* ================= the statements used by Props/C10.v ================= *)
  Theorem mnemonic_length e :
    (In (length e) ent_lengths ->
       exists ws, mnemonic_words sha256 wl e = Ok ws
                  /\ calculate_mnemonic_phrase sha256 wl e = Ok (join_sp ws)
                  /\ In (length e, length ws) ent_ms_table /\ Forall (fun w => In w wl) ws)
    /\ (~ In (length e) ent_lengths ->
        mnemonic_words sha256 wl e = Err ValueE /\ calculate_mnemonic_phrase sha256 wl e = Err ValueE).
  Proof.
    split.
    - intros H. apply ent_lengths_c in H as (c & Hc & He).
      exists (map nthw (digits_w 2048 (3 * c) (payload c e))).
      unfold calculate_mnemonic_phrase. rewrite (mnemonic_words_char c) by assumption.
      split; [reflexivity|]. split; [reflexivity|]. split.
      + rewrite map_length, digits_w_length, He. unfold ent_ms_table.
        assert (C : (c = 4 \/ c = 5 \/ c = 6 \/ c = 7 \/ c = 8)%nat) by lia.
        destruct C as [-> | [-> | [-> | [-> | ->]]]]; cbn; tauto.
      + apply all_in_nthw. apply digits_w_in_range. lia.
    - intros H. unfold calculate_mnemonic_phrase. now rewrite mnemonic_words_badlen.
  Qed.

  Theorem entropy_roundtrip e : In (length e) ent_lengths ->
    exists ws, mnemonic_words sha256 wl e = Ok ws /\ to_entropy_words sha256 wl ws = Ok e.
  Proof.
    intros H. apply ent_lengths_c in H as (c & Hc & He).
    exists (map nthw (digits_w 2048 (3 * c) (payload c e))). split.
    - now apply mnemonic_words_char.
    - now apply roundtrip_c.
  Qed.

  Theorem accept_iff ws e : In (length ws) ms_lengths ->
    (to_entropy_words sha256 wl ws = Ok e <-> spec_accepts sha256 wl ws e).
  Proof. intros H. apply ms_lengths_c in H as (c & Hc & Hl). now apply (accept_iff_c c). Qed.

  (* every accepted sentence is the mnemonic of the entropy it decodes to *)
  Theorem accepted_is_mnemonic ws e : to_entropy_words sha256 wl ws = Ok e ->
    In (length e) ent_lengths /\ mnemonic_words sha256 wl e = Ok ws.
  Proof.
    intros H.
    destruct (in_dec Nat.eq_dec (length ws) ms_lengths) as [Hm|Hm].
    2:{ rewrite to_entropy_words_badlen in H by exact Hm. discriminate. }
    apply ms_lengths_c in Hm as (c & Hc & Hl).
    destruct (accepted_is_mnemonic_c c ws e Hc Hl H) as (_ & _ & Le & _ & M).
    split; [apply ent_lengths_c; eauto|]. rewrite (mnemonic_words_char c) by assumption. now rewrite M.
  Qed.

  Theorem to_entropy_injective ws1 ws2 e :
    to_entropy_words sha256 wl ws1 = Ok e -> to_entropy_words sha256 wl ws2 = Ok e -> ws1 = ws2.
  Proof.
    intros H1 H2. apply accepted_is_mnemonic in H1 as [_ M1]. apply accepted_is_mnemonic in H2 as [_ M2].
    congruence.
  Qed.

  Theorem accepted_length ws e : to_entropy_words sha256 wl ws = Ok e -> In (length ws) ms_lengths.
  Proof.
    intros H. destruct (in_dec Nat.eq_dec (length ws) ms_lengths) as [Hm|Hm]; [exact Hm|].
    rewrite to_entropy_words_badlen in H by exact Hm. discriminate.
  Qed.

  (* among all sentences with the same entropy bits exactly one is accepted *)
  Theorem unique_checksum ws1 ws2 e1 e2 :
    to_entropy_words sha256 wl ws1 = Ok e1 -> to_entropy_words sha256 wl ws2 = Ok e2 ->
    entropy_bits wl ws1 = entropy_bits wl ws2 -> ws1 = ws2 /\ e1 = e2.
  Proof.
    intros H1 H2 E.
    pose proof (accepted_length _ _ H1) as L1. pose proof (accepted_length _ _ H2) as L2.
    pose proof (proj1 (accept_iff ws1 e1 L1) H1) as (_ & B1 & _).
    pose proof (proj1 (accept_iff ws2 e2 L2) H2) as (_ & B2 & _).
    assert (e1 = e2) by (apply bits_of_bytes_inj; congruence). subst e2.
    split; [|reflexivity]. eapply to_entropy_injective; eassumption.
  Qed.

  Theorem unique_checksum_exists ws : In (length ws) ms_lengths -> Forall (fun w => In w wl) ws ->
    exists ws' e, length ws' = length ws /\ entropy_bits wl ws' = entropy_bits wl ws
                  /\ to_entropy_words sha256 wl ws' = Ok e.
  Proof.
    intros Hm Ha. apply ms_lengths_c in Hm as (c & Hc & Hl).
    set (e := ent_of c ws).
    assert (Le : length e = (4 * c)%nat) by (unfold e, ent_of; apply to_be_length).
    set (ws' := map nthw (digits_w 2048 (3 * c) (payload c e))).
    assert (R : to_entropy_words sha256 wl ws' = Ok e) by now apply roundtrip_c.
    assert (L' : length ws' = (3 * c)%nat) by (unfold ws'; now rewrite map_length, digits_w_length).
    exists ws', e. split; [congruence|]. split; [|exact R].
    destruct (accepted_is_mnemonic_c c ws' e Hc L' R) as (Ha' & He' & _).
    rewrite (entropy_bits_char c ws') by assumption. rewrite (entropy_bits_char c ws) by assumption.
    now rewrite <- He'.
  Qed.

  (* every sentence that is not accepted is rejected with an exception (never a wrong value) *)
  Theorem rejects_with_error ws :
    (~ In (length ws) ms_lengths -> to_entropy_words sha256 wl ws = Err ValueE)
    /\ (In (length ws) ms_lengths -> ~ Forall (fun w => In w wl) ws -> to_entropy_words sha256 wl ws = Err ValueE)
    /\ (In (length ws) ms_lengths -> Forall (fun w => In w wl) ws ->
        (forall e, ~ spec_accepts sha256 wl ws e) -> to_entropy_words sha256 wl ws = Err AssertionE).
  Proof.
    split; [apply to_entropy_words_badlen|]. split.
    - intros Hm Hn. apply ms_lengths_c in Hm as (c & Hc & Hl). now apply (to_entropy_words_notin c).
    - intros Hm Ha Hn. pose proof Hm as Hm'. apply ms_lengths_c in Hm as (c & Hc & Hl).
      rewrite (to_entropy_words_char c) by assumption.
      destruct (Z.eqb_spec (h0 (ent_of c ws) / 2 ^ (8 - Z.of_nat c)) (data_of ws mod 2 ^ Z.of_nat c)) as [Q|Q];
        [|reflexivity].
      exfalso. apply (Hn (ent_of c ws)). apply (accept_iff _ _ Hm').
      rewrite (to_entropy_words_char c) by assumption. rewrite Q. now rewrite Z.eqb_refl.
  Qed.

  Theorem never_wrong ws r : to_entropy_words sha256 wl ws = r ->
    match r with
    | Ok e => In (length ws) ms_lengths /\ spec_accepts sha256 wl ws e
    | Err k => k = ValueE \/ k = AssertionE
    end.
  Proof.
    intros <-. destruct (in_dec Nat.eq_dec (length ws) ms_lengths) as [Hm|Hm].
    2:{ rewrite to_entropy_words_badlen by exact Hm. now left. }
    destruct (to_entropy_words sha256 wl ws) as [e|k] eqn:E.
    - split; [exact Hm|]. now apply accept_iff.
    - pose proof Hm as Hm'. apply ms_lengths_c in Hm' as (c & Hc & Hl).
      destruct (Forall_dec (fun w => In w wl) (fun w => In_dec_bytes w wl) ws) as [Ha|Hn].
      + rewrite (to_entropy_words_char c) in E by assumption.
        destruct (_ =? _) in E; [discriminate|]. injection E as <-. now right.
      + rewrite (to_entropy_words_notin c) in E by assumption. injection E as <-. now left.
  Qed.

  (* ---------- string level ---------- *)
  Hypothesis Hok : Forall (fun w => word_ok w = true) wl.

  Theorem phrase_roundtrip e : In (length e) ent_lengths ->
    exists m, calculate_mnemonic_phrase sha256 wl e = Ok m /\ to_entropy sha256 wl m = Ok e.
  Proof.
    intros H. destruct (proj1 (mnemonic_length e) H) as (ws & M & P & _ & Ha).
    exists (join_sp ws). split; [exact P|]. unfold to_entropy. rewrite split_join.
    - destruct (entropy_roundtrip e H) as (ws' & M' & R). congruence.
    - rewrite Forall_forall in *. intros w Hw. apply Hok. now apply Ha.
  Qed.

  Theorem to_entropy_join ws : Forall (fun w => word_ok w = true) ws ->
    to_entropy sha256 wl (join_sp ws) = to_entropy_words sha256 wl ws.
  Proof. intros H. unfold to_entropy. now rewrite split_join. Qed.
End Proofs.

Theorem seed_def pbkdf2 nfkd m p :
  to_seed pbkdf2 nfkd m p = pbkdf2 (nfkd m) (nfkd (mnemonic_str ++ p)) 2048 64.
Proof. reflexivity. Qed.

Theorem seed_spec pbkdf2 (nfkd : bytes -> bytes) :
  (forall p, nfkd (salt_prefix ++ p) = salt_prefix ++ nfkd p) ->
  forall m p, to_seed pbkdf2 nfkd m p = spec_seed pbkdf2 nfkd m p.
Proof. intros H m p. unfold to_seed, spec_seed. change mnemonic_str with salt_prefix. now rewrite H. Qed.
