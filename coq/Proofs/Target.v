(* Proofs about the model of bits.blockchain.target_threshold (Model/Target.v) against the developer reference's
   equation and Bitcoin Core's arith_uint256::SetCompact (Spec/Target.v). *)
From Coq Require Import ZArith List Lia Bool.
Require Import Bits.Lib.Result Bits.Lib.Bytes Bits.Spec.Target Bits.Model.Target.
Import ListNotations.
Import Coq.Init.Byte.
Local Open Scope Z_scope.
Ltac Zify.zify_post_hook ::= Z.to_euclidean_division_equations.

(* ------------------------------------------------------------------ the 4-byte argument *)
Lemma nbits_length e m : length (nbits_bytes e m) = 4%nat.
Proof. unfold nbits_bytes. now rewrite app_length, !to_be_length. Qed.

Lemma nbits_lastn e m : lastn 3 (nbits_bytes e m) = to_be 3 m.
Proof.
  unfold lastn. rewrite nbits_length. unfold nbits_bytes. change (4 - 3)%nat with (length (to_be 1 e)).
  rewrite skipn_app, skipn_all, Nat.sub_diag. reflexivity.
Qed.

Lemma nbits_droplast e m : droplast 3 (nbits_bytes e m) = to_be 1 e.
Proof.
  unfold droplast. rewrite nbits_length. unfold nbits_bytes. change (4 - 3)%nat with (length (to_be 1 e)).
  rewrite firstn_app, firstn_all, Nat.sub_diag. cbn [firstn]. apply app_nil_r.
Qed.

Lemma pow256_1 : 256 ^ Z.of_nat 1 = 256. Proof. reflexivity. Qed.
Lemma pow256_3 : 256 ^ Z.of_nat 3 = 2 ^ 24. Proof. reflexivity. Qed.

(* it is int.to_bytes(4, "big") of the 32-bit compact number *)
Lemma nbits_is_to_be e m : 0 <= e < 256 -> 0 <= m < 2 ^ 24 -> nbits_bytes e m = to_be 4 (compact e m).
Proof.
  intros He Hm. rewrite <- (to_be_of_be (nbits_bytes e m)) at 1. rewrite nbits_length. f_equal.
  unfold nbits_bytes. rewrite of_be_app, to_be_length, !of_be_to_be by (rewrite ?pow256_1, ?pow256_3; lia).
  rewrite pow256_3. reflexivity.
Qed.

(* ------------------------------------------------------------------ what the code computes *)
Theorem target_threshold_nbits e m : 0 <= e < 256 -> 0 <= m < 2 ^ 24 ->
  target_threshold (nbits_bytes e m)
  = if 3 <=? e then PInt (m * 256 ^ (e - 3)) else py_float_ratio m (256 ^ (3 - e)).
Proof.
  intros He Hm. unfold target_threshold. rewrite nbits_lastn, nbits_droplast, to_be_length.
  rewrite !of_be_to_be by (rewrite ?pow256_1, ?pow256_3; lia).
  change (Z.of_nat 3) with 3.
  destruct (Z.leb_spec 3 e) as [H|H].
  - destruct (Z.leb_spec 0 (e - 3)) as [_|]; [reflexivity|lia].
  - destruct (Z.leb_spec 0 (e - 3)) as [|_]; [lia|]. now replace (- (e - 3)) with (3 - e) by lia.
Qed.

(* the developer reference's equation on the well-formed range *)
Theorem target_threshold_wellformed e m : 3 <= e < 256 -> 0 <= m < 2 ^ 24 ->
  target_threshold (nbits_bytes e m) = PInt (ref_target e m).
Proof.
  intros He Hm. rewrite target_threshold_nbits by lia.
  destruct (Z.leb_spec 3 e); [reflexivity|lia].
Qed.

(* a float comes back exactly when the exponent is smaller than the number of mantissa bytes *)
Theorem target_threshold_float_iff nBits :
  (exists n d, target_threshold nBits = PFloat n d)
  <-> of_be (droplast 3 nBits) < Z.of_nat (length (lastn 3 nBits)).
Proof.
  unfold target_threshold, py_float_ratio.
  destruct (Z.leb_spec 0 (of_be (droplast 3 nBits) - Z.of_nat (length (lastn 3 nBits)))) as [H|H]; split.
  - intros (n & d & E). discriminate E.
  - lia.
  - lia.
  - intros _. eexists; eexists; reflexivity.
Qed.

(* ------------------------------------------------------------------ SetCompact on exponent/mantissa *)
Lemma sc_size_compact e m : 0 <= m < 2 ^ 24 -> sc_size (compact e m) = e.
Proof. intros Hm. unfold sc_size, compact. change (2 ^ 24) with 16777216 in *. lia. Qed.

Lemma sc_word0_compact e m : 0 <= m < 2 ^ 23 -> sc_word0 (compact e m) = m.
Proof. intros Hm. unfold sc_word0, compact. change (2 ^ 24) with 16777216. change (2 ^ 23) with 8388608 in *. lia. Qed.

Lemma sc_word0_compact_hi e m : 2 ^ 23 <= m < 2 ^ 24 -> sc_word0 (compact e m) = m - 2 ^ 23.
Proof. intros Hm. unfold sc_word0, compact. change (2 ^ 24) with 16777216 in *. change (2 ^ 23) with 8388608 in *. lia. Qed.

Lemma sc_sign_compact e m : 0 <= m < 2 ^ 23 -> sc_sign (compact e m) = false.
Proof.
  intros Hm. unfold sc_sign, compact. change (2 ^ 24) with 16777216. change (2 ^ 23) with 8388608 in *.
  apply Z.eqb_neq. lia.
Qed.

Lemma pow2_8 k : 0 <= k -> 2 ^ (8 * k) = 256 ^ k.
Proof. intros H. change 256 with (2 ^ 8). now rewrite <- Z.pow_mul_r by lia. Qed.

(* no overflow flag = the shifted mantissa fits 256 bits *)
Lemma no_overflow_fits e m : 3 < e -> 0 <= m < 2 ^ 23 -> sc_overflow (compact e m) = false ->
  m * 256 ^ (e - 3) < 2 ^ 256.
Proof.
  intros He Hm. unfold sc_overflow, sc_word. rewrite sc_size_compact, sc_word0_compact by lia.
  destruct (Z.leb_spec e 3) as [|_]; [lia|].
  destruct (Z.eqb_spec m 0) as [->|Hm0]; [intros _; rewrite Z.mul_0_l; reflexivity|].
  cbn [negb andb]. rewrite !orb_false_iff, !andb_false_iff, !Z.ltb_ge. intros ((H34 & H33) & H32).
  assert (P : forall k, 0 <= k -> 0 < 256 ^ k) by (intros; apply Z.pow_pos_nonneg; lia).
  destruct (Z.le_gt_cases e 32) as [L|G].
  - assert (256 ^ (e - 3) <= 256 ^ 29) by (apply Z.pow_le_mono_r; lia).
    assert (m * 256 ^ (e - 3) <= 2 ^ 23 * 256 ^ 29) by (apply Z.mul_le_mono_nonneg; lia).
    eapply Z.le_lt_trans; [eassumption|]. reflexivity.
  - assert (e = 33 \/ e = 34) as [->| ->] by lia.
    + assert (m <= 65535) by lia. change (256 ^ (33 - 3)) with (2 ^ 240).
      apply Z.le_lt_trans with (65535 * 2 ^ 240); [apply Z.mul_le_mono_nonneg_r; lia | reflexivity].
    + assert (m <= 255) by lia. change (256 ^ (34 - 3)) with (2 ^ 248).
      apply Z.le_lt_trans with (255 * 2 ^ 248); [apply Z.mul_le_mono_nonneg_r; lia | reflexivity].
Qed.

Lemma sc_value_compact e m : 3 <= e -> 0 <= m < 2 ^ 23 ->
  sc_value (compact e m) = (m * 256 ^ (e - 3)) mod 2 ^ 256.
Proof.
  intros He Hm. unfold sc_value, sc_word. rewrite sc_size_compact, sc_word0_compact by lia.
  destruct (Z.leb_spec e 3) as [L|G].
  - assert (e = 3) as -> by lia. change (8 * (3 - 3)) with 0. change (3 - 3) with 0.
    rewrite !Z.pow_0_r, Z.div_1_r, Z.mul_1_r. symmetry. apply Z.mod_small. lia.
  - now rewrite pow2_8 by lia.
Qed.

(* on Core's accepted range (sign bit clear, no overflow, exponent >= 3) the code IS SetCompact and the reference equation *)
Theorem target_threshold_is_setcompact e m :
  3 <= e < 256 -> 0 <= m < 2 ^ 23 -> sc_overflow (compact e m) = false ->
  target_threshold (nbits_bytes e m) = PInt (sc_value (compact e m))
  /\ sc_negative (compact e m) = false
  /\ sc_value (compact e m) = ref_target e m
  /\ 0 <= sc_value (compact e m) < 2 ^ 256.
Proof.
  intros He Hm Hov.
  assert (F : 0 <= m * 256 ^ (e - 3) < 2 ^ 256).
  { split; [apply Z.mul_nonneg_nonneg; [lia | apply Z.pow_nonneg; lia]|].
    destruct (Z.eq_dec e 3) as [->|Hne].
    - change (3 - 3) with 0. rewrite Z.pow_0_r, Z.mul_1_r. lia.
    - apply no_overflow_fits; [lia | lia | exact Hov]. }
  assert (V : sc_value (compact e m) = m * 256 ^ (e - 3)).
  { rewrite sc_value_compact by lia. apply Z.mod_small. exact F. }
  rewrite V. repeat split.
  - apply target_threshold_wellformed; lia.
  - unfold sc_negative. rewrite sc_sign_compact by lia. apply andb_false_r.
  - apply F.
  - apply F.
Qed.

(* exactly where the code's answer is the consensus value *)
Theorem target_threshold_agrees_iff e m : 0 <= e < 256 -> 0 <= m < 2 ^ 24 ->
  (target_threshold (nbits_bytes e m) = PInt (sc_value (compact e m))
   <-> 3 <= e /\ m < 2 ^ 23 /\ m * 256 ^ (e - 3) < 2 ^ 256).
Proof.
  intros He Hm. rewrite target_threshold_nbits by lia.
  destruct (Z.leb_spec 3 e) as [H3|H3].
  2: { split; [unfold py_float_ratio; intros E; discriminate E | lia]. }
  assert (P : 0 < 256 ^ (e - 3)) by (apply Z.pow_pos_nonneg; lia).
  split.
  - intros E. injection E as E.
    destruct (Z.lt_ge_cases m (2 ^ 23)) as [Lo|Hi].
    + rewrite sc_value_compact in E by lia.
      split; [lia|]. split; [exact Lo|]. rewrite E. apply Z.mod_pos_bound. reflexivity.
    + exfalso. unfold sc_value, sc_word in E. rewrite sc_size_compact, sc_word0_compact_hi in E by lia.
      destruct (Z.leb_spec e 3) as [L|G].
      * assert (e = 3) as -> by lia. change (8 * (3 - 3)) with 0 in E. change (3 - 3) with 0 in E.
        rewrite !Z.pow_0_r, Z.div_1_r, Z.mul_1_r in E. change (2 ^ 23) with 8388608 in *. lia.
      * rewrite pow2_8 in E by lia.
        assert (Q : 0 <= (m - 2 ^ 23) * 256 ^ (e - 3)) by (apply Z.mul_nonneg_nonneg; lia).
        pose proof (Z.mod_le _ (2 ^ 256) Q ltac:(reflexivity)) as LE.
        assert ((m - 2 ^ 23) * 256 ^ (e - 3) < m * 256 ^ (e - 3)).
        { apply Z.mul_lt_mono_pos_r; [exact P|]. change (2 ^ 23) with 8388608. lia. }
        lia.
  - intros (_ & Lo & F). f_equal. rewrite sc_value_compact by lia. symmetry. apply Z.mod_small.
    split; [apply Z.mul_nonneg_nonneg; lia | exact F].
Qed.
