(* Proofs about the block-file names (Model/BlockFiles.v): for file numbers below 100000 the lexicographic
   order of blkNNNNN.dat is the numeric order, hence "the last name of the sorted listing" is the
   highest-numbered file; from 100000 on it is not. *)
From Coq Require Import ZArith NArith List Lia Bool.
Require Import Bits.Lib.Result Bits.Lib.Bytes Bits.Model.BlockFiles Bits.Proofs.BlockFiles.
Import ListNotations.
Local Open Scope Z_scope.

Lemma lex_ltb_irrefl a : lex_ltb a a = false.
Proof. induction a as [|x a IH]; [reflexivity|]. cbn [lex_ltb]. now rewrite Z.ltb_irrefl. Qed.

Lemma lex_ltb_trans : forall a b c, lex_ltb a b = true -> lex_ltb b c = true -> lex_ltb a c = true.
Proof.
  induction a as [|x a IH]; intros [|y b] [|z c]; cbn [lex_ltb]; try congruence.
  destruct (Z.ltb_spec (b2z x) (b2z y)), (Z.ltb_spec (b2z y) (b2z x)), (Z.ltb_spec (b2z y) (b2z z)),
           (Z.ltb_spec (b2z z) (b2z y)), (Z.ltb_spec (b2z x) (b2z z)), (Z.ltb_spec (b2z z) (b2z x));
    try congruence; try lia. apply IH.
Qed.

Lemma lex_ltb_asym a b : lex_ltb a b = true -> lex_ltb b a = false.
Proof.
  intros H. destruct (lex_ltb b a) eqn:E; [|reflexivity].
  pose proof (lex_ltb_trans a b a H E) as C. rewrite lex_ltb_irrefl in C. discriminate.
Qed.

(* finite sweep: the name of i is below the name of i+1, for every i < 99999 *)
Definition adj_ok (i : N) : bool := lex_ltb (blk_name i) (blk_name (N.succ i)).
Definition scan (k : N) : N * bool :=
  N.iter k (fun p : N * bool => (N.succ (fst p), snd p && adj_ok (fst p))) (0%N, true).

Lemma scan_spec k : fst (scan k) = k /\ (snd (scan k) = true -> forall i, (i < k)%N -> adj_ok i = true).
Proof.
  induction k as [|k [IH1 IH2]] using N.peano_ind.
  - split; [reflexivity|]. intros _ i Hi. lia.
  - unfold scan in *. rewrite N.iter_succ. cbn [fst snd]. rewrite IH1. split; [reflexivity|].
    intros H i Hi. apply andb_true_iff in H. destruct H as [H1 H2].
    destruct (N.eq_dec i k) as [-> | Hne]; [exact H2 | apply IH2; [exact H1 | lia]].
Qed.

Lemma scan_99999 : snd (scan 99999) = true.
Proof. vm_cast_no_check (eq_refl true). Qed.

Lemma name_lt_succ i : (i < 99999)%N -> lex_ltb (blk_name i) (blk_name (N.succ i)) = true.
Proof. intros H. exact (proj2 (scan_spec 99999) scan_99999 i H). Qed.

Lemma name_mono a : forall b, (a < b)%N -> (b < 100000)%N -> lex_ltb (blk_name a) (blk_name b) = true.
Proof.
  induction b as [|b IH] using N.peano_ind; intros Hab Hb; [lia|].
  destruct (N.eq_dec a b) as [-> | Hne].
  - apply name_lt_succ. lia.
  - apply lex_ltb_trans with (blk_name b); [apply IH; lia | apply name_lt_succ; lia].
Qed.

(* lexicographic order of the names = numeric order, below 100000 files *)
Theorem name_order a b : (a < 100000)%N -> (b < 100000)%N ->
  (lex_ltb (blk_name a) (blk_name b) = true <-> (a < b)%N).
Proof.
  intros Ha Hb. split.
  - intros H. destruct (N.lt_trichotomy a b) as [L|[E|G]]; [exact L| |].
    + subst. rewrite lex_ltb_irrefl in H. discriminate.
    + pose proof (name_mono b a G Ha) as C. apply lex_ltb_asym in C. congruence.
  - intros H. now apply name_mono.
Qed.

(* ... and not beyond: "blk100000.dat" sorts before "blk99999.dat" *)
Theorem name_order_fails_at_100000 : lex_ltb (blk_name 100000) (blk_name 99999) = true.
Proof. vm_compute. reflexivity. Qed.

(* sorted(listing)[-1] is the highest-numbered file *)
Lemma pick_last_max ns : Forall (fun n => (n < 100000)%N) ns ->
  pick_last ns = match ns with [] => None | _ => Some (fold_right N.max 0%N ns) end.
Proof.
  induction 1 as [|n ns Hn HF IH]; [reflexivity|]. cbn [pick_last fold_right]. rewrite IH.
  destruct ns as [|m ns']; [cbn [fold_right]; now rewrite N.max_0_r|].
  set (M := fold_right N.max 0%N (m :: ns')).
  assert (HM : (M < 100000)%N).
  { assert (In M (m :: ns')) by (apply fold_max_in; discriminate). rewrite Forall_forall in HF. now apply HF. }
  destruct (lex_ltb (blk_name M) (blk_name n)) eqn:E.
  - apply name_order in E; auto. f_equal. symmetry. apply N.max_l. lia.
  - f_equal. destruct (N.lt_ge_cases M n) as [L|G]; [|symmetry; apply N.max_r; lia].
    apply (name_order M n HM Hn) in L. congruence.
Qed.

Definition small_dir (fs : files) : Prop := Forall (fun n => (n < 100000)%N) (keys fs).

Lemma current_file_top fs : small_dir fs -> current_file fs = top fs.
Proof.
  intros H. unfold current_file. fold (keys fs). rewrite pick_last_max by exact H.
  unfold top. destruct (keys fs); reflexivity.
Qed.
