(* C16, send_unlocks: the hypotheses are satisfiable - a concrete p2wpkh scenario on the small curve y^2 = x^3 + 7 over F_43
   (order 31) with stand-in hash functions of the right output lengths, evaluated by the kernel: two of three reported outputs are
   selected and signed. *)
From Coq Require Import ZArith List Lia Bool.
From Coq Require Import Floats.SpecFloat.
Require Import Bits.Lib.Result Bits.Lib.Bytes Bits.Lib.PyStr.
Require Import Bits.Spec.Bip143 Bits.Spec.Sighash Bits.Spec.ScriptTemplatesDecode Bits.Spec.Wif.
Require Import Bits.Model.Ecmath Bits.Model.SendValue Bits.Model.Send Bits.Model.Wif.
Require Import Bits.Proofs.Ecdsa Bits.Proofs.Sec1 Bits.Proofs.SmallCurves Bits.Proofs.Sec1Small Bits.Proofs.SendExamples.
Require Import Bits.Proofs.SendUnlocks2 Bits.Proofs.SendUnlocks4 Bits.Proofs.SendUnlocks5 Bits.Proofs.SendUnlocks8.
Import ListNotations.
Import Coq.Init.Byte.
Local Open Scope Z_scope.

Definition toy_rmd (m : bytes) : bytes := firstn 20 (m ++ repeat x00 20).
Lemma toy_hash_len m : length (toy_hash m) = 32%nat.
Proof. unfold toy_hash. rewrite firstn_length, app_length, repeat_length. lia. Qed.
Lemma toy_rmd_len m : length (toy_rmd m) = 20%nat.
Proof. unfold toy_rmd. rewrite firstn_length, app_length, repeat_length. lia. Qed.

Definition key5 : bytes := repeat x00 31 ++ [x05].
Definition ex_wif : bytes :=
  Eval vm_compute in match wif_encode toy_hash 31 key5 k_p2wpkh mainnet [] with Ok w => w | Err _ => [] end.
Definition ex_pk : bytes := Eval vm_compute in match pub 43 0 31 G43 key5 true with Ok pk => pk | Err _ => [] end.
Definition ex_spk : bytes := Eval vm_compute in spk_p2wpkh (toy_rmd (toy_hash ex_pk)).
Definition ex_utxo (b : byte) (vout : Z) : utxo := mk_utxo (repeat b 32) vout one_btc ex_spk.
Definition ex_unspents : list utxo := [ex_utxo x11 1; ex_utxo x22 0; ex_utxo x33 5].
Definition ex_run : result bytes :=
  send_tx 43 0 31 G43 toy_hash toy_rmd spk_of all_addresses [] [] None [ex_wif] (Some 1) (sf_of_me 1 (-1)) 1000 2 7 (sf_of_me 3 0)
          ex_unspents [3; 4; 5; 6; 7; 8; 9; 10].

Example send_unlocks_example :
  (exists raw, ex_run = Ok raw) /\
  curve_facts 43 0 7 31 G43 /\ sqrt_facts 43 /\ 43 <= 2 ^ 256 /\ 31 <= 2 ^ 256 /\
  (forall m, length (toy_rmd m) = 20%nat) /\ (forall m, length (toy_hash m) = 32%nat) /\
  (forall x, In x ex_unspents ->
     length (u_txid x) = 32%nat /\ sat_of_btc (u_amount x) = Ok 100000000 /\ 0 <= 100000000 < 2 ^ 64) /\
  standard_flag 1 /\
  (forall k, decode_keys toy_hash [ex_wif] (Some 1) = Ok k ->
             forall x, In x ex_unspents -> pays_to 43 0 7 31 G43 toy_hash toy_rmd k (u_spk x)).
Proof.
  split. { eexists. vm_compute. reflexivity. }
  split; [exact facts_43|]. split; [exact sqrt_facts_43|]. split; [lia|]. split; [lia|].
  split; [exact toy_rmd_len|]. split; [exact toy_hash_len|].
  split. { intros x [<-|[<-|[<-|[]]]]; (split; [reflexivity|]); (split; [vm_compute; reflexivity|lia]). }
  split. { unfold standard_flag, standard_flags. cbn [In]. auto. }
  intros k Hk. vm_compute in Hk. injection Hk as <-.
  intros x Hx. assert (E : u_spk x = ex_spk) by (destruct Hx as [<-|[<-|[<-|[]]]]; reflexivity). rewrite E.
  unfold pays_to. cbn [ki_type ki_keys].
  exists key5, ex_pk. split; [reflexivity|]. split; vm_compute; reflexivity.
Qed.

(* ---- the finding, concretely: a 1-of-2 bare multisig output, the sender passes BOTH keys.  send_tx succeeds and places two
   signatures after the dummy; the scriptSig does not satisfy the 1-of-2 script (whatever the transaction and the digest). ---- *)
Definition key7 : bytes := repeat x00 31 ++ [x07].
Definition ex_pk7 : bytes := Eval vm_compute in match pub 43 0 31 G43 key7 true with Ok pk => pk | Err _ => [] end.
Definition ms_spk : bytes := Eval vm_compute in enc_inner (I_multisig 1 [ex_pk; ex_pk7]).
Definition ms_wif (key : bytes) : bytes := match wif_encode toy_hash 31 key k_multisig mainnet ms_spk with Ok w => w | Err _ => [] end.
Definition ms_wifs : list bytes := Eval vm_compute in [ms_wif key5; ms_wif key7].
Definition ms_unspents : list utxo := [mk_utxo (repeat x11 32) 0 one_btc ms_spk].
Definition ms_draws : list Z := [3; 4; 5; 6; 7; 8; 9; 10].

Example multisig_surplus_keys_example_refuted :
  (exists raw, send_tx 43 0 31 G43 toy_hash toy_rmd spk_of all_addresses [] [] None ms_wifs (Some 1) (sf_of_me 1 0) 1000 2 0
                       one_btc ms_unspents ms_draws = Ok raw) /\
  exists k u sigs ss items,
    decode_keys toy_hash ms_wifs (Some 1) = Ok k /\
    build_unsigned 43 0 31 G43 toy_hash toy_rmd spk_of all_addresses [] [] None (Some k) (sf_of_me 1 0) 1000 one_btc ms_unspents = Ok u /\
    sign_inputs 43 0 31 G43 toy_hash toy_rmd k (Some 1) 2 0 u ms_draws = Ok sigs /\
    assemble 43 0 31 G43 k (Some ms_spk) 1 sigs = Ok ([ss], []) /\
    push_items ss = Some items /\ length items = 3%nat /\
    lock_of ms_spk = Some (L_bare (I_multisig 1 [ex_pk; ex_pk7]) ms_spk) /\
    forall t' j amt,
      ~ unlocks toy_hash toy_rmd (ecdsa_ok 43 0 7 31 G43) Bits.Spec.Bip66.bip66_valid decode_inner t' j amt
                (L_bare (I_multisig 1 [ex_pk; ex_pk7]) ms_spk) items [].
Proof.
  split. { eexists. vm_compute. reflexivity. }
  eexists _, _, _, _, _.
  split; [vm_compute; reflexivity|]. split; [vm_compute; reflexivity|]. split; [vm_compute; reflexivity|].
  split; [vm_compute; reflexivity|]. split; [vm_compute; reflexivity|]. split; [reflexivity|].
  split; [vm_compute; reflexivity|].
  intros t' j amt (_ & H). revert H. apply multisig_surplus_keys_refuted. cbn [length]. discriminate.
Qed.
