(* Proofs about the table-parametrised codecs (Model/P2pTables.v): they are the fixed-table functions at the reference
   tables, and the round trips hold for EVERY usable table (entries registered after import included). *)
From Coq Require Import ZArith List Lia Bool.
Require Import Bits.Lib.Result Bits.Lib.Bytes Bits.Lib.CompactSize Bits.Spec.P2p.
Require Import Bits.Model.CompactSize Bits.Proofs.CompactSize Bits.Model.P2pFrame Bits.Model.P2pCodec Bits.Model.P2pTables.
Require Import Bits.Proofs.P2pFrame Bits.Proofs.P2pCodec Bits.Proofs.P2pCodec2.
Import ListNotations.
Import Coq.Init.Byte.
Local Open Scope Z_scope.

(* at the reference tables these are the functions of Model/P2pCodec.v and Model/P2pFrame.v *)
Lemma inventory_in_ref t h : inventory_in inventory_type_id t h = inventory t h.
Proof. reflexivity. Qed.
Lemma parse_inventory_in_ref b : parse_inventory_in inventory_type_id b = parse_inventory b.
Proof. reflexivity. Qed.
Lemma parse_inv_items_in_ref : forall fuel count rest,
  parse_inv_items_in inventory_type_id fuel count rest = parse_inv_items fuel count rest.
Proof.
  induction fuel as [|f IH]; intros count rest; cbn [parse_inv_items_in parse_inv_items]; [reflexivity|].
  destruct (count <=? 0); [reflexivity|]. rewrite parse_inventory_in_ref.
  destruct (parse_inventory (firstn 36 rest)); cbn [bind]; [|reflexivity]. now rewrite IH.
Qed.
Lemma parse_inv_payload_in_ref p : parse_inv_payload_in inventory_type_id p = parse_inv_payload p.
Proof.
  unfold parse_inv_payload_in, parse_inv_payload. destruct (zindex p 0); cbn [bind]; [|reflexivity].
  destruct (b2z a =? 253); [|destruct (b2z a =? 254); [|destruct (b2z a =? 255)]]; now rewrite parse_inv_items_in_ref.
Qed.
Lemma msg_ser_in_ref sha m c p : msg_ser_in sha commands m c p = msg_ser sha m c p.
Proof. reflexivity. Qed.
Lemma reference_table_ok : table_okb inventory_type_id = true.
Proof. vm_compute. reflexivity. Qed.

Section AnyTable.
Variable tbl : inv_table.

Definition inv_keys_in : list bytes := map fst tbl.
Definition inv_item_ok_in (it : bytes * bytes) : Prop := In (fst it) inv_keys_in /\ length (snd it) = 32%nat.
Definition inv_ser_in (it : bytes * bytes) : result bytes := inventory_in tbl (fst it) (snd it).

Hypothesis inv_table_ok : table_okb tbl = true.


Lemma inventory_in_ok name hash : In name inv_keys_in ->
  exists tid, inventory_in tbl name hash = Ok (to_le 4 tid ++ hash) /\ assoc_val tid tbl = Some name
              /\ 0 <= tid < 2 ^ 32.
Proof.
  intros H. unfold inv_keys_in in H. apply in_map_iff in H. destruct H as ([k v] & <- & Hin).
  pose proof inv_table_ok as T. unfold table_okb in T. rewrite forallb_forall in T. specialize (T _ Hin). cbn [fst snd] in T.
  destruct (assoc_key (map ascii_upper k) tbl) as [v'|] eqn:Ek; [|discriminate].
  rewrite !andb_true_iff in T. destruct T as (((T1 & T2) & T3) & T4).
  destruct (assoc_val v' tbl) as [k'|] eqn:Ev; [|discriminate].
  apply bytes_eqb_eq in T4. subst k'. apply Z.leb_le in T2. apply Z.ltb_lt in T3.
  exists v'. unfold inventory_in. cbn [fst]. rewrite Ek. cbn [of_option bind].
  rewrite to_le_chk_ok by (rewrite pow256_4; lia). cbn [bind]. auto.
Qed.

Lemma inventory_in_unknown name hash :
  assoc_key (map ascii_upper name) tbl = None -> inventory_in tbl name hash = Err KeyE.
Proof. intros H. unfold inventory_in. now rewrite H. Qed.

Lemma parse_inventory_in_ser tid name hash :
  assoc_val tid tbl = Some name -> 0 <= tid < 2 ^ 32 -> length hash = 32%nat ->
  parse_inventory_in tbl (to_le 4 tid ++ hash) = Ok (name, hash).
Proof.
  intros Hv Ht Hh. unfold parse_inventory_in.
  rewrite app_length, to_le_length, Hh. cbn [Nat.add Nat.eqb negb].
  rewrite firstn_at, skipn_at by (now rewrite to_le_length).
  rewrite of_le_to_le by (rewrite pow256_4; lia). rewrite Hv. reflexivity.
Qed.

Lemma parse_inv_items_in_eq fuel count rest :
  parse_inv_items_in tbl fuel count rest =
  if count <=? 0 then Ok []
  else match fuel with
       | O => Err FuelE
       | S f => bind (parse_inventory_in tbl (firstn 36 rest)) (fun item =>
                bind (parse_inv_items_in tbl f (count - 1) (skipn 36 rest)) (fun items => Ok (item :: items)))
       end.
Proof. destruct fuel; reflexivity. Qed.

Lemma parse_inv_items_in_ok : forall items sers tail fuel,
  Forall inv_item_ok_in items -> mapM inv_ser_in items = Ok sers -> (length items <= fuel)%nat ->
  parse_inv_items_in tbl fuel (Z.of_nat (length items)) (concat sers ++ tail) = Ok items
  /\ (length items <= length (concat sers))%nat.
Proof.
  induction items as [|[name hash] items IH]; intros sers tail fuel Hok HM Hf.
  - rewrite parse_inv_items_in_eq. cbn. split; [reflexivity | lia].
  - cbn [mapM] in HM. apply bind_ok in HM. destruct HM as (s & Hs & HM).
    apply bind_ok in HM. destruct HM as (ss & Hss & HM). injection HM as <-.
    inversion Hok as [|? ? [Hk Hh] Hok']; subst. cbn [fst snd] in Hk, Hh.
    destruct (inventory_in_ok name hash Hk) as (tid & Hinv & Hval & Ht).
    unfold inv_ser_in in Hs. cbn [fst snd] in Hs. rewrite Hinv in Hs.
    assert (s = to_le 4 tid ++ hash) as -> by congruence. clear Hs.
    destruct fuel as [|f]; [cbn [length] in Hf; lia|].
    rewrite parse_inv_items_in_eq.
    replace (Z.of_nat (length ((name, hash) :: items)) <=? 0) with false
      by (symmetry; apply Z.leb_gt; cbn [length]; lia).
    replace (Z.of_nat (length ((name, hash) :: items)) - 1) with (Z.of_nat (length items)) by (cbn [length]; lia).
    assert (L36 : length (to_le 4 tid ++ hash) = 36%nat) by (rewrite app_length, to_le_length, Hh; reflexivity).
    pose proof (parse_inventory_in_ser tid name hash Hval Ht Hh) as HP.
    clear Hinv. generalize dependent (to_le 4 tid ++ hash). intros s L36 HP.
    cbn [concat]. rewrite <- app_assoc.
    rewrite firstn_at, skipn_at by lia.
    rewrite HP. cbn [bind].
    destruct (IH ss tail f Hok' Hss) as (IH1 & IH2); [cbn [length] in Hf; lia|].
    rewrite IH1. cbn [bind]. split; [reflexivity|].
    rewrite app_length, L36. cbn [length]. lia.
Qed.

Lemma parse_inv_payload_in_eq payload count rest :
  payload <> [] -> parse_compact_size_uint payload = Ok (count, rest) ->
  parse_inv_payload_in tbl payload =
  bind (parse_inv_items_in tbl (S (length payload)) count rest) (fun items => Ok (count, items)).
Proof.
  intros Hne H. destruct payload as [|b0 t]; [congruence|].
  unfold parse_inv_payload_in.
  replace (zindex (b0 :: t) 0) with (@Ok byte b0) by reflexivity. cbn [bind].
  revert H. unfold parse_compact_size_uint.
  destruct (Z.eqb_spec (b2z b0) 255) as [E5|E5]; destruct (Z.eqb_spec (b2z b0) 254) as [E4|E4];
    destruct (Z.eqb_spec (b2z b0) 253) as [E3|E3]; try lia; intros H; injection H as <- <-; reflexivity.
Qed.

Theorem codec_roundtrip_inv_in : forall items,
  Forall inv_item_ok_in items -> Z.of_nat (length items) < 2 ^ 64 ->
  exists sers p, mapM inv_ser_in items = Ok sers /\ inv_payload (Z.of_nat (length items)) sers = Ok p /\
    parse_inv_payload_in tbl p = Ok (Z.of_nat (length items), items).
Proof.
  intros items Hok Hn.
  assert (HM : exists sers, mapM inv_ser_in items = Ok sers).
  { clear Hn. induction Hok as [|[name hash] items [Hk Hh] _ IH]; [now exists []|].
    destruct IH as (ss & Hss). cbn [fst snd] in Hk.
    destruct (inventory_in_ok name hash Hk) as (tid & Hinv & _).
    exists ((to_le 4 tid ++ hash) :: ss). cbn [mapM]. unfold inv_ser_in at 1. cbn [fst snd].
    rewrite Hinv. cbn [bind]. rewrite Hss. reflexivity. }
  destruct HM as (sers & HM).
  exists sers, (cs_enc (Z.of_nat (length items)) ++ concat sers).
  split; [exact HM|]. unfold inv_payload. rewrite compact_size_uint_spec by lia. cbn [bind].
  split; [reflexivity|].
  rewrite (parse_inv_payload_in_eq _ (Z.of_nat (length items)) (concat sers)).
  - rewrite <- (app_nil_r (concat sers)).
    destruct (parse_inv_items_in_ok items sers [] (S (length (cs_enc (Z.of_nat (length items)) ++ concat sers ++ [])))
                Hok HM) as (H1 & _).
    { destruct (parse_inv_items_in_ok items sers [] (length items) Hok HM (le_n _)) as (_ & H2).
      rewrite !app_length. lia. }
    rewrite H1. reflexivity.
  - intros E. apply app_eq_nil in E. destruct E as [E _]. now apply cs_enc_nonempty in E.
  - apply parse_cs_enc. lia.
Qed.

End AnyTable.

(* ------------------------------------------------------------------ COMMANDS *)
Definition cmd_ok (c : bytes) : Prop := (length c <= 12)%nat /\ rstrip0 (pad12 c) = c.

Section WithHash.
  Variable sha256 : bytes -> bytes.
  Hypothesis sha256_len : forall m, length (sha256 m) = 32%nat.

  Lemma msg_ser_in_ok cmds m c p : In c cmds -> zlen p <= max_size ->
    msg_ser_in sha256 cmds m c p = Ok (frame m (pad12 c) (to_le 4 (zlen p)) (checksum4 sha256 p) p).
  Proof.
    intros Hc Hp. unfold msg_ser_in.
    apply (existsb_bytes_In c cmds) in Hc. rewrite Hc. cbn [negb].
    replace (zlen p >? max_size) with false by (symmetry; rewrite Z.gtb_ltb; apply Z.ltb_ge; lia).
    unfold to_le_chk. change (256 ^ Z.of_nat 4) with 4294967296.
    assert (0 <= zlen p) by (unfold zlen; lia). unfold max_size in Hp.
    replace (0 <=? zlen p) with true by (symmetry; apply Z.leb_le; lia).
    replace (zlen p <? 4294967296) with true by (symmetry; apply Z.ltb_lt; lia).
    reflexivity.
  Qed.

  (* whatever commands the table holds (registered after import or not): a command that fits the 12-byte field and has
     no trailing NUL is framed, and the frame is received intact in any fragmentation *)
  Theorem frame_any_fragmentation_in : forall cmds magic c p rest sch fuel,
    length magic = 4%nat -> In c cmds -> cmd_ok c -> zlen p <= max_size ->
    pos_sched sch -> (24 + length p <= fuel)%nat ->
    exists fr sch' f',
      msg_ser_in sha256 cmds magic c p = Ok fr /\
      recv_msg sha256 fuel magic (fr ++ rest, sch) = Ok ((magic, c, p), (rest, sch'), f').
  Proof.
    intros cmds magic c p rest sch fuel Hm Hc [Hl Hrs] Hp Hs Hf.
    assert (Hl12 : length (pad12 c) = 12%nat) by (unfold pad12; rewrite app_length, repeat_length; lia).
    destruct (recv_msg_complete sha256 fuel magic magic (pad12 c) (to_le 4 (zlen p)) (checksum4 sha256 p) p rest sch)
      as (sch' & f' & _ & _ & _ & HR); auto using to_le_length, checksum4_length, of_le_len4.
    exists (frame magic (pad12 c) (to_le 4 (zlen p)) (checksum4 sha256 p) p), sch', f'.
    split; [now apply msg_ser_in_ok|]. rewrite HR, frame_outcome_good, Hrs. reflexivity.
  Qed.
End WithHash.
