(* PEM key containers: the DER bytes are the RFC 5915 / RFC 5480 structures (Spec/Rfc5915.v), the trees are in
   the round-trip domain of the ASN.1 codec, and pem_decode_key (pem_encode_key key) returns the key(s). *)
From Coq Require Import ZArith List Bool Lia.
Require Import Bits.Lib.Result Bits.Lib.Bytes Bits.Model.Ecmath Bits.Proofs.Ecmath Bits.Proofs.Ecdsa
  Bits.Model.Keys Bits.Proofs.Keys Bits.Model.Sec1 Bits.Model.Asn1 Bits.Proofs.Asn1 Bits.Model.Pem Bits.Proofs.PemArmor.
Require Bits.Spec.Rfc5915 Bits.Spec.Sec1.
Import ListNotations.
Import Coq.Init.Byte.
Local Open Scope Z_scope.

(* ---------- closed sub-trees ---------- *)
Definition n_int : node := Node (Tag T_INTEGER false 0) 1 (VBytes [x01]).
Definition n_oid_k1 : node := Node (Tag T_OID false 0) 5 (VOid IdAnsip256k1).
Definition n_oid_ec : node := Node (Tag T_OID false 0) 7 (VOid IdEcPublicKey).
Definition n_ctx0 : node := Node (Tag 0 true 2) 7 (VList [n_oid_k1]).
Definition n_alg : node := Node (Tag T_SEQUENCE true 0) 16 (VList [n_oid_ec; n_oid_k1]).

Definition k1_bytes : bytes := [x2b; x81; x04; x00; x0a].
Definition ec_bytes : bytes := [x2a; x86; x48; xce; x3d; x02; x01].

Lemma wf_n_int : wf_node n_int /\ encode_node n_int = Ok [x02; x01; x01].
Proof. split; [apply (wf_prim T_INTEGER [x01]); [auto|cbn; lia] | vm_compute; reflexivity]. Qed.

Lemma wf_n_oid_k1 : wf_node n_oid_k1 /\ encode_node n_oid_k1 = Ok (x06 :: x05 :: k1_bytes).
Proof. apply (wf_oid_node 5 IdAnsip256k1 k1_bytes); [apply wf_oid_ansip256k1|reflexivity|reflexivity|lia]. Qed.
Lemma wf_n_oid_ec : wf_node n_oid_ec /\ encode_node n_oid_ec = Ok (x06 :: x07 :: ec_bytes).
Proof. apply (wf_oid_node 7 IdEcPublicKey ec_bytes); [apply wf_oid_ecPublicKey|reflexivity|reflexivity|lia]. Qed.

Lemma wf_n_ctx0 : wf_node n_ctx0 /\ encode_node n_ctx0 = Ok (xa0 :: x07 :: x06 :: x05 :: k1_bytes).
Proof.
  split; [|vm_compute; reflexivity].
  apply (wf_constructed _ _ _ (x06 :: x05 :: k1_bytes)); cbn [tnum tcls tcons]; try lia; auto.
  all: try (vm_compute; reflexivity).
  all: repeat (apply Forall_cons; [first [apply wf_n_oid_k1 | apply wf_n_oid_ec]|]); try apply Forall_nil.
Qed.

Lemma wf_n_alg : wf_node n_alg /\
  encode_node n_alg = Ok (x30 :: x10 :: (x06 :: x07 :: ec_bytes) ++ x06 :: x05 :: k1_bytes).
Proof.
  split; [|vm_compute; reflexivity].
  apply (wf_constructed _ _ _ ((x06 :: x07 :: ec_bytes) ++ x06 :: x05 :: k1_bytes)); cbn [tnum tcls tcons];
    unfold T_SEQUENCE; try lia; auto.
  all: try (vm_compute; reflexivity).
  all: repeat (apply Forall_cons; [first [apply wf_n_oid_k1 | apply wf_n_oid_ec]|]); try apply Forall_nil.
Qed.

(* ---------- symbolic leaves ---------- *)
Lemma leaf tn len bs :
  tn = T_INTEGER \/ tn = T_BITSTRING \/ tn = T_OCTETSTRING -> len = Z.of_nat (length bs) -> len < 256 ->
  wf_node (Node (Tag tn false 0) len (VBytes bs)) /\
  encode_node (Node (Tag tn false 0) len (VBytes bs)) = Ok (z2b tn :: z2b len :: bs).
Proof.
  intros Ht -> Hl. fold (mk_prim tn bs). split; [apply wf_prim|apply encode_prim]; auto; lia.
Qed.

Section Trees.
  Variables key pub : bytes.
  Hypothesis Lk : length key = 32%nat.

  Definition n_octet : node := Node (Tag T_OCTETSTRING false 0) 32 (VBytes key).
  Lemma wf_n_octet : wf_node n_octet /\ encode_node n_octet = Ok (x04 :: x20 :: key).
  Proof. apply (leaf T_OCTETSTRING 32 key); auto; rewrite ?Lk; lia. Qed.

  (* ---- private key: pub is the 65-byte uncompressed SEC1 string ---- *)
  Hypothesis Lp : length pub = 65%nat.

  Definition n_bits65 : node := Node (Tag T_BITSTRING false 0) 66 (VBytes (x00 :: pub)).
  Lemma wf_n_bits65 : wf_node n_bits65 /\ encode_node n_bits65 = Ok (x03 :: x42 :: x00 :: pub).
  Proof. apply (leaf T_BITSTRING 66 (x00 :: pub)); auto; cbn [length]; rewrite ?Lp; lia. Qed.

  Definition n_ctx1 : node := Node (Tag 1 true 2) 68 (VList [n_bits65]).
  Lemma wf_n_ctx1 : wf_node n_ctx1 /\ encode_node n_ctx1 = Ok (xa1 :: x44 :: x03 :: x42 :: x00 :: pub).
  Proof.
    assert (E : encode_nodes [n_bits65] = Ok (x03 :: x42 :: x00 :: pub)).
    { cbn [encode_nodes]. rewrite (proj2 wf_n_bits65). cbn [bind]. now rewrite app_nil_r. }
    split.
    - apply (wf_constructed _ _ _ (x03 :: x42 :: x00 :: pub)); cbn [tnum tcls tcons]; try lia; auto.
      all: try (cbn [length]; rewrite Lp; reflexivity).
      all: repeat (apply Forall_cons; [apply wf_n_bits65|]); try apply Forall_nil.
    - unfold n_ctx1. rewrite (encode_constructed _ _ _ (x03 :: x42 :: x00 :: pub)); cbn [tnum tcls]; auto; lia.
  Qed.

  Definition priv_body : bytes :=
    [x02; x01; x01] ++ (x04 :: x20 :: key) ++ (xa0 :: x07 :: x06 :: x05 :: k1_bytes) ++
    (xa1 :: x44 :: x03 :: x42 :: x00 :: pub).

  Lemma priv_tree_eq : priv_tree key pub = Node (Tag T_SEQUENCE true 0) 116 (VList [n_int; n_octet; n_ctx0; n_ctx1]).
  Proof. reflexivity. Qed.

  Lemma priv_children : encode_nodes [n_int; n_octet; n_ctx0; n_ctx1] = Ok priv_body.
  Proof.
    cbn [encode_nodes]. rewrite (proj2 wf_n_int), (proj2 wf_n_octet), (proj2 wf_n_ctx0), (proj2 wf_n_ctx1).
    cbn [bind]. unfold priv_body. now rewrite app_nil_r.
  Qed.

  Lemma priv_body_len : Z.of_nat (length priv_body) = 116.
  Proof. unfold priv_body. rewrite !app_length. cbn [length k1_bytes]. rewrite Lk, Lp. reflexivity. Qed.

  Lemma priv_tree_ok : wf_node (priv_tree key pub) /\ encode_node (priv_tree key pub) = Ok (x30 :: x74 :: priv_body).
  Proof.
    rewrite priv_tree_eq. split.
    - apply (wf_constructed _ _ _ priv_body); cbn [tnum tcls tcons]; unfold T_SEQUENCE; try lia; auto.
      all: try apply priv_children. all: try (now rewrite priv_body_len).
      all: repeat (apply Forall_cons; [first [apply wf_n_int | apply wf_n_octet | apply wf_n_ctx0 | apply wf_n_ctx1]|]);
        try apply Forall_nil.
    - rewrite (encode_constructed _ _ _ priv_body); cbn [tnum tcls]; unfold T_SEQUENCE; auto; try lia.
      apply priv_children.
  Qed.

  (* the DER of the private key is RFC 5915's ECPrivateKey *)
  Lemma priv_is_rfc5915 : x30 :: x74 :: priv_body = Spec.Rfc5915.ec_private_key key pub.
  Proof.
    unfold Spec.Rfc5915.ec_private_key, Spec.Rfc5915.tlv.
    rewrite Spec.Rfc5915.oid_k1. fold k1_bytes.
    repeat (rewrite ?app_length; cbn [length app]). rewrite Lk, Lp. unfold priv_body. cbn [app]. reflexivity.
  Qed.
End Trees.

Section PubTree.
  Variable key : bytes.
  Hypothesis Lkey : length key = 33%nat \/ length key = 65%nat.

  Definition bits_len : Z := if Nat.eqb (length key) 65 then 66 else 34.
  Definition seq_len : Z := if Nat.eqb (length key) 65 then 86 else 54.

  Definition n_bits : node := Node (Tag T_BITSTRING false 0) bits_len (VBytes (x00 :: key)).
  Lemma wf_n_bits : wf_node n_bits /\ encode_node n_bits = Ok (x03 :: z2b bits_len :: x00 :: key).
  Proof.
    apply (leaf T_BITSTRING bits_len (x00 :: key)); auto; unfold bits_len; cbn [length];
      destruct Lkey as [L|L]; rewrite L; cbn; lia.
  Qed.

  Definition pub_body : bytes :=
    (x30 :: x10 :: (x06 :: x07 :: ec_bytes) ++ x06 :: x05 :: k1_bytes) ++ (x03 :: z2b bits_len :: x00 :: key).

  Lemma pub_tree_eq : pub_tree key = Node (Tag T_SEQUENCE true 0) seq_len (VList [n_alg; n_bits]).
  Proof. reflexivity. Qed.

  Lemma pub_children : encode_nodes [n_alg; n_bits] = Ok pub_body.
  Proof.
    cbn [encode_nodes]. rewrite (proj2 wf_n_alg), (proj2 wf_n_bits). cbn [bind]. unfold pub_body. now rewrite app_nil_r.
  Qed.

  Lemma pub_body_len : Z.of_nat (length pub_body) = seq_len.
  Proof.
    unfold pub_body, seq_len. rewrite !app_length. cbn [length k1_bytes ec_bytes app].
    destruct Lkey as [L|L]; rewrite L; reflexivity.
  Qed.

  Lemma seq_len_range : 0 <= seq_len < 256.
  Proof. unfold seq_len. destruct (Nat.eqb (length key) 65); lia. Qed.

  Lemma pub_tree_ok : wf_node (pub_tree key) /\ encode_node (pub_tree key) = Ok (x30 :: z2b seq_len :: pub_body).
  Proof.
    pose proof seq_len_range as R. rewrite pub_tree_eq. split.
    - apply (wf_constructed _ _ _ pub_body); cbn [tnum tcls tcons]; unfold T_SEQUENCE; try lia; auto.
      all: try apply pub_children. all: try (now rewrite pub_body_len).
      all: repeat (apply Forall_cons; [first [apply wf_n_alg | apply wf_n_bits]|]); try apply Forall_nil.
    - rewrite (encode_constructed _ _ _ pub_body); cbn [tnum tcls]; unfold T_SEQUENCE; auto; try lia.
      apply pub_children.
  Qed.

  (* the DER of a public key is RFC 5480's SubjectPublicKeyInfo *)
  Lemma pub_is_rfc5480 : x30 :: z2b seq_len :: pub_body = Spec.Rfc5915.subject_public_key_info key.
  Proof.
    unfold Spec.Rfc5915.subject_public_key_info, Spec.Rfc5915.tlv.
    rewrite Spec.Rfc5915.oid_k1, Spec.Rfc5915.oid_ecpk. fold k1_bytes. fold ec_bytes.
    unfold pub_body, seq_len, bits_len.
    repeat (rewrite ?app_length; cbn [length app k1_bytes ec_bytes]).
    destruct Lkey as [L|L]; rewrite L; reflexivity.
  Qed.
End PubTree.

(* ================= theorems ================= *)
Section PemTheorems.
  Variable b64enc : bytes -> bytes.
  Variable b64dec : bytes -> option bytes.
  Hypothesis b64_roundtrip : forall x, b64dec (strip (encodebytes b64enc x)) = Some x.
  Hypothesis b64_clean : forall x c, In c (b64enc x) -> c <> x2d.

  Variables p a b n : Z.
  Variable G : Ecmath.point.

  Notation pem_encode_key := (pem_encode_key b64enc p a n G).
  Notation pem_decode_key := (pem_decode_key b64dec).

  (* ---- public keys: any 33- or 65-byte string (the encoder does not validate it) ---- *)
  Theorem pem_roundtrip_pub key : length key = 33%nat \/ length key = 65%nat ->
    exists pem,
      pem_encode_key key = Ok pem /\
      der_encode_key p a n G key = Ok (Spec.Rfc5915.subject_public_key_info key) /\
      pem = encode_pem b64enc (Spec.Rfc5915.subject_public_key_info key)
                       (Spec.Rfc5915.pem_begin Spec.Rfc5915.label_public)
                       (Spec.Rfc5915.pem_end Spec.Rfc5915.label_public) /\
      pem_decode_key pem = Ok [VBytes key] /\
      pubkey_from_pem b64dec pem = Ok (inr [VBytes key]).
  Proof using b64_roundtrip b64_clean.
    intros L. destruct (pub_tree_ok key L) as [W E].
    assert (DER : der_encode_key p a n G key = Ok (x30 :: z2b (seq_len key) :: pub_body key)).
    { unfold der_encode_key.
      destruct L as [L|L]; rewrite L; cbn [Nat.eqb orb]; rewrite <- E; reflexivity. }
    assert (N32 : Nat.eqb (length key) 32 = false) by (destruct L as [L|L]; rewrite L; reflexivity).
    assert (DK : pem_decode_key (encode_pem b64enc (x30 :: z2b (seq_len key) :: pub_body key)
                                 (pem_header label_pub) (pem_footer label_pub)) = Ok [VBytes key]).
    { unfold Pem.pem_decode_key. rewrite (armor_roundtrip b64enc b64dec b64_roundtrip b64_clean _ _ hdr_ok_pub).
      cbn [bind]. rewrite (asn1_roundtrip_top _ _ W E). cbn [bind]. rewrite pub_tree_eq. reflexivity. }
    eexists. unfold Pem.pem_encode_key. rewrite DER, N32. cbn [bind]. split; [reflexivity|].
    rewrite <- (pub_is_rfc5480 key L). repeat split.
    - exact DK.
    - unfold pubkey_from_pem. rewrite DK. reflexivity.
  Qed.

  (* ---- private keys ---- *)
  Hypothesis CF : curve_facts p a b n G.
  Hypothesis Hw : p <= 2 ^ 256.

  Lemma compute_point_ok key : length key = 32%nat -> 1 <= of_be key < n ->
    exists x y, compute_point p a n G key = Ok (Some (x, y)) /\ smul p a (of_be key) G = Some (x, y) /\
                0 <= x < p /\ 0 <= y < p.
  Proof using CF.
    intros Lk Rk. destruct CF as [Hp Ha Hb CG Hn HG Hord Hmin Hinv].
    unfold compute_point. rewrite (proj2 (privkey_int_iff n key (of_be key))) by auto. cbn [bind].
    rewrite (scalar_mul_smul p a b Hp Ha CG) by (auto; lia).
    pose proof (smul_oncurve p a b CG (of_be key) G HG ltac:(lia)) as OC.
    destruct (smul p a (of_be key) G) as [[x y]|] eqn:ES.
    - exists x, y. destruct OC as (Ix & Iy & _). apply inF_iff in Ix, Iy. auto.
    - exfalso. apply (Hmin (of_be key)); [lia|exact ES].
  Qed.

  (* leading zero bytes of the key are kept: the OCTET STRING always holds all 32 bytes *)
  Theorem pem_roundtrip_priv key : length key = 32%nat -> 1 <= of_be key < n ->
    exists pem x y,
      smul p a (of_be key) G = Some (x, y) /\
      let pub := Spec.Sec1.encode false x y in
      pem_encode_key key = Ok pem /\
      der_encode_key p a n G key = Ok (Spec.Rfc5915.ec_private_key key pub) /\
      pem = encode_pem b64enc (Spec.Rfc5915.ec_private_key key pub)
                       (Spec.Rfc5915.pem_begin Spec.Rfc5915.label_private)
                       (Spec.Rfc5915.pem_end Spec.Rfc5915.label_private) /\
      pem_decode_key pem = Ok [VBytes key; VBytes pub] /\
      pubkey_from_pem b64dec pem = Ok (inl (VBytes pub)).
  Proof using b64_roundtrip b64_clean CF Hw.
    intros Lk Rk. destruct (compute_point_ok key Lk Rk) as (x & y & CP & ES & Rx & Ry).
    set (pub := Spec.Sec1.encode false x y).
    assert (PK : pubkey x y false = Ok pub).
    { unfold pubkey, to_be_chk. change (256 ^ Z.of_nat 32) with (2 ^ 256).
      destruct (Z.leb_spec 0 x); [|lia]. destruct (Z.ltb_spec x (2 ^ 256)); [|lia].
      destruct (Z.leb_spec 0 y); [|lia]. destruct (Z.ltb_spec y (2 ^ 256)); [|lia]. reflexivity. }
    assert (Lp : length pub = 65%nat).
    { unfold pub, Spec.Sec1.encode. cbn [length]. rewrite app_length, !to_be_length. reflexivity. }
    destruct (priv_tree_ok key pub Lk Lp) as [W E].
    assert (DER : der_encode_key p a n G key = Ok (x30 :: x74 :: priv_body key pub)).
    { unfold der_encode_key. rewrite Lk. cbn [Nat.eqb]. rewrite CP. cbn [bind]. rewrite PK. cbn [bind]. exact E. }
    assert (DK : pem_decode_key (encode_pem b64enc (x30 :: x74 :: priv_body key pub)
                                 (pem_header label_priv) (pem_footer label_priv)) = Ok [VBytes key; VBytes pub]).
    { unfold Pem.pem_decode_key. rewrite (armor_roundtrip b64enc b64dec b64_roundtrip b64_clean _ _ hdr_ok_priv).
      cbn [bind]. rewrite (asn1_roundtrip_top _ _ W E). cbn [bind]. reflexivity. }
    eexists. exists x, y. split; [exact ES|]. cbv zeta. fold pub.
    unfold Pem.pem_encode_key. rewrite DER, Lk. cbn [bind Nat.eqb]. split; [reflexivity|].
    rewrite <- (priv_is_rfc5915 key pub Lk Lp). repeat split.
    - exact DK.
    - unfold pubkey_from_pem. rewrite DK. reflexivity.
  Qed.

  (* the encoder refuses everything that is neither a valid private key nor a 33/65-byte string *)
  Theorem pem_encode_refuses key :
    (length key = 32%nat -> ~ (1 <= of_be key < n) -> pem_encode_key key = Err AssertionE) /\
    (length key <> 32%nat -> length key <> 33%nat -> length key <> 65%nat -> pem_encode_key key = Err ValueE).
  Proof.
    split.
    - intros Lk Rk. unfold Pem.pem_encode_key, der_encode_key, compute_point. rewrite Lk. cbn [Nat.eqb].
      destruct (privkey_int n key) as [v|e] eqn:E.
      + apply privkey_int_iff in E as (_ & R & _). contradiction.
      + apply privkey_int_err in E. subst e. reflexivity.
    - intros N1 N2 N3. unfold Pem.pem_encode_key, der_encode_key.
      destruct (Nat.eqb_spec (length key) 32); [contradiction|].
      destruct (Nat.eqb_spec (length key) 33); [contradiction|].
      destruct (Nat.eqb_spec (length key) 65); [contradiction|]. reflexivity.
  Qed.
End PemTheorems.
