(* Proofs about the payload codecs (Model/P2pCodec.v): slicing lemmas, the version payload. *)
From Coq Require Import ZArith List Lia Bool.
Require Import Bits.Lib.Result Bits.Lib.Bytes Bits.Lib.CompactSize Bits.Spec.P2p.
Require Import Bits.Model.CompactSize Bits.Proofs.CompactSize Bits.Model.P2pCodec.
Import ListNotations.
Import Coq.Init.Byte.
Local Open Scope Z_scope.

(* ------------------------------------------------------------------ slicing a concatenation *)
Lemma slice_peel {A} (f rest : list A) a b : (length f <= a)%nat ->
  slice a b (f ++ rest) = slice (a - length f) (b - length f) rest.
Proof.
  intros H. unfold slice. rewrite skipn_app, (skipn_all2 f) by lia. cbn [app]. f_equal. lia.
Qed.

Lemma slice_hit {A} (f rest : list A) a b : a = 0%nat -> b = length f -> slice a b (f ++ rest) = f.
Proof.
  intros -> ->. unfold slice. cbn [skipn]. rewrite Nat.sub_0_r, firstn_app, Nat.sub_diag, firstn_all.
  cbn [firstn]. apply app_nil_r.
Qed.

Lemma skipn_peel {A} (f rest : list A) a : (length f <= a)%nat ->
  skipn a (f ++ rest) = skipn (a - length f) rest.
Proof. intros H. rewrite skipn_app, (skipn_all2 f) by lia. reflexivity. Qed.

Lemma nth_error_hit {A} (x : A) t a : a = 0%nat -> nth_error (x :: t) a = Some x.
Proof. intros ->. reflexivity. Qed.

Lemma slice_at {A} (pre f rest : list A) a b :
  a = length pre -> b = (a + length f)%nat -> slice a b (pre ++ f ++ rest) = f.
Proof.
  intros -> ->. unfold slice. rewrite skipn_app, skipn_all, Nat.sub_diag. cbn [app skipn].
  replace (length pre + length f - length pre)%nat with (length f) by lia.
  rewrite firstn_app, Nat.sub_diag, firstn_all. cbn [firstn]. apply app_nil_r.
Qed.

Lemma nth_error_at {A} (pre : list A) x rest a : a = length pre -> nth_error (pre ++ x :: rest) a = Some x.
Proof. intros ->. rewrite nth_error_app2, Nat.sub_diag by lia. reflexivity. Qed.

Lemma zclamp_nat {A} a (l : list A) : zclamp (Z.of_nat a) l = Nat.min a (length l).
Proof. unfold zclamp. lia. Qed.

Lemma zslice_nat {A} a b (l : list A) : zslice (Z.of_nat a) (Z.of_nat b) l = slice a b l.
Proof.
  unfold zslice, slice. rewrite !zclamp_nat.
  destruct (Nat.le_gt_cases (length l) a) as [Ha|Ha].
  - rewrite (skipn_all2 l) by lia. rewrite (skipn_all2 l) by lia. now rewrite !firstn_nil.
  - replace (Nat.min a (length l)) with a by lia.
    destruct (Nat.le_gt_cases b (length l)) as [Hb|Hb].
    + now replace (Nat.min b (length l)) with b by lia.
    + replace (Nat.min b (length l)) with (length l) by lia.
      rewrite !firstn_all2; auto; rewrite skipn_length; lia.
Qed.

Lemma zdrop_nat {A} a (l : list A) : zdrop (Z.of_nat a) l = skipn a l.
Proof.
  unfold zdrop. rewrite zclamp_nat.
  destruct (Nat.le_gt_cases (length l) a) as [Ha|Ha].
  - rewrite !skipn_all2 by lia. reflexivity.
  - now replace (Nat.min a (length l)) with a by lia.
Qed.

Lemma zindex_nat l a : zindex l (Z.of_nat a) = of_option IndexE (nth_error l a).
Proof.
  unfold zindex. destruct (Z.ltb_spec (Z.of_nat a) (Z.of_nat (length l))) as [H|H].
  - now rewrite Nat2Z.id.
  - replace (nth_error l a) with (@None byte); [reflexivity|]. symmetry. apply nth_error_None. lia.
Qed.

Lemma to_le_chk_ok k n : 0 <= n < 256 ^ Z.of_nat k -> to_le_chk k n = Ok (to_le k n).
Proof.
  intros H. unfold to_le_chk.
  replace (0 <=? n) with true by (symmetry; apply Z.leb_le; lia).
  replace (n <? 256 ^ Z.of_nat k) with true by (symmetry; apply Z.ltb_lt; lia). reflexivity.
Qed.
Lemma to_be_chk_ok k n : 0 <= n < 256 ^ Z.of_nat k -> to_be_chk k n = Ok (to_be k n).
Proof.
  intros H. unfold to_be_chk.
  replace (0 <=? n) with true by (symmetry; apply Z.leb_le; lia).
  replace (n <? 256 ^ Z.of_nat k) with true by (symmetry; apply Z.ltb_lt; lia). reflexivity.
Qed.
Lemma to_le_chk_err k n : ~ (0 <= n < 256 ^ Z.of_nat k) -> to_le_chk k n = Err OverflowE.
Proof.
  intros H. unfold to_le_chk.
  destruct (Z.leb_spec 0 n); destruct (Z.ltb_spec n (256 ^ Z.of_nat k)); cbn [andb]; auto; lia.
Qed.
Lemma to_be_chk_err k n : ~ (0 <= n < 256 ^ Z.of_nat k) -> to_be_chk k n = Err OverflowE.
Proof.
  intros H. unfold to_be_chk.
  destruct (Z.leb_spec 0 n); destruct (Z.ltb_spec n (256 ^ Z.of_nat k)); cbn [andb]; auto; lia.
Qed.

Lemma pow256_4 : 256 ^ Z.of_nat 4 = 2 ^ 32. Proof. reflexivity. Qed.
Lemma pow256_8 : 256 ^ Z.of_nat 8 = 2 ^ 64. Proof. reflexivity. Qed.
Lemma pow256_2 : 256 ^ Z.of_nat 2 = 2 ^ 16. Proof. reflexivity. Qed.

(* solve side conditions about lengths of concatenations, using the length facts in the context *)
Ltac len := rewrite ?app_length; cbn [length]; lia.
Ltac peel := repeat (rewrite slice_peel by len); apply slice_hit; len.

(* ------------------------------------------------------------------ version *)
Definition parsed_of_msg (m : version_msg) (r : bool) : version_fields :=
  {| v_protocol_version := m_protocol_version m; v_services := m_services m; v_timestamp := m_timestamp m;
     v_recv_services := m_recv_services m; v_recv_ip := m_recv_ip m; v_recv_port := m_recv_port m;
     v_trans_services := m_trans_services m; v_trans_ip := m_trans_ip m; v_trans_port := m_trans_port m;
     v_nonce := m_nonce m;
     v_user_agent_bytes := Z.of_nat (length (m_user_agent m));
     v_user_agent := match m_user_agent m with [] => None | _ => Some (m_user_agent m) end;
     v_start_height := m_start_height m; v_relay := Some r |}.

Lemma relay_of_bool (r : bool) : relay_of (if r then x01 else x00) = Some r.
Proof. destruct r; reflexivity. Qed.

(* layout of the version payload: pure list facts, proved in a small context *)
Lemma version_layout (f1 f2 f3 f4 rip f5 f6 tip f7 f8 ua f9 : bytes) (x rb : byte) :
  length f1 = 4%nat -> length f2 = 8%nat -> length f3 = 8%nat -> length f4 = 8%nat -> length rip = 16%nat ->
  length f5 = 2%nat -> length f6 = 8%nat -> length tip = 16%nat -> length f7 = 2%nat -> length f8 = 8%nat ->
  length f9 = 4%nat ->
  let n := length ua in
  let v := f1 ++ f2 ++ f3 ++ f4 ++ rip ++ f5 ++ f6 ++ tip ++ f7 ++ f8 ++ [x] ++ ua ++ f9 ++ [rb] in
  (slice 0 4 v = f1 /\ slice 4 12 v = f2 /\ slice 12 20 v = f3 /\ slice 20 28 v = f4 /\ slice 28 44 v = rip) /\
  (slice 44 46 v = f5 /\ slice 46 54 v = f6 /\ slice 54 70 v = tip /\ slice 70 72 v = f7 /\ slice 72 80 v = f8) /\
  nth_error v 80 = Some x /\ slice 81 (81 + n) v = ua /\ slice (81 + n) (85 + n) v = f9 /\
  nth_error v (85 + n) = Some rb /\ length v = (86 + n)%nat.
Proof.
  intros L1 L2 L3 L4 Lr L5 L6 Lt L7 L8 L9 n v.
  assert (En : n = length ua) by reflexivity. clearbody n.
  set (p80 := f1 ++ f2 ++ f3 ++ f4 ++ rip ++ f5 ++ f6 ++ tip ++ f7 ++ f8).
  assert (Lp : length p80 = 80%nat) by (unfold p80; len).
  assert (Ev : v = p80 ++ [x] ++ ua ++ f9 ++ [rb]) by (unfold v, p80; now rewrite <- !app_assoc).
  split; [|split].
  - unfold v. repeat split; peel.
  - unfold v. repeat split; peel.
  - rewrite Ev. clearbody p80. clear -Lp L9 En. repeat split.
    + now apply nth_error_at.
    + replace (p80 ++ [x] ++ ua ++ f9 ++ [rb]) with ((p80 ++ [x]) ++ ua ++ f9 ++ [rb]) by (now rewrite <- !app_assoc).
      apply slice_at; len.
    + replace (p80 ++ [x] ++ ua ++ f9 ++ [rb]) with ((p80 ++ [x] ++ ua) ++ f9 ++ [rb]) by (now rewrite <- !app_assoc).
      apply slice_at; len.
    + replace (p80 ++ [x] ++ ua ++ f9 ++ [rb]) with ((p80 ++ [x] ++ ua ++ f9) ++ [rb]) by (now rewrite <- !app_assoc).
      apply nth_error_at. len.
    + len.
Qed.

(* the parser on any byte string with that layout *)
Lemma parse_version_layout (f1 f2 f3 f4 rip f5 f6 tip f7 f8 ua f9 : bytes) (r : bool) :
  length f1 = 4%nat -> length f2 = 8%nat -> length f3 = 8%nat -> length f4 = 8%nat -> length rip = 16%nat ->
  length f5 = 2%nat -> length f6 = 8%nat -> length tip = 16%nat -> length f7 = 2%nat -> length f8 = 8%nat ->
  length f9 = 4%nat -> is_ascii rip = true -> is_ascii tip = true -> (length ua < 253)%nat ->
  parse_version_payload
    (f1 ++ f2 ++ f3 ++ f4 ++ rip ++ f5 ++ f6 ++ tip ++ f7 ++ f8 ++ [z2b (Z.of_nat (length ua))] ++ ua ++ f9
        ++ [if r then x01 else x00])
  = Ok {| v_protocol_version := of_le f1; v_services := of_le f2; v_timestamp := of_le f3;
          v_recv_services := of_le f4; v_recv_ip := rip; v_recv_port := of_be f5;
          v_trans_services := of_le f6; v_trans_ip := tip; v_trans_port := of_be f7; v_nonce := of_le f8;
          v_user_agent_bytes := Z.of_nat (length ua);
          v_user_agent := match ua with [] => None | _ => Some ua end;
          v_start_height := of_le f9; v_relay := Some r |}.
Proof.
  intros L1 L2 L3 L4 Lr L5 L6 Lt L7 L8 L9 Ar At Hua.
  pose proof (version_layout f1 f2 f3 f4 rip f5 f6 tip f7 f8 ua f9 (z2b (Z.of_nat (length ua)))
                (if r then x01 else x00) L1 L2 L3 L4 Lr L5 L6 Lt L7 L8 L9) as HL.
  cbv zeta in HL.
  set (v := f1 ++ f2 ++ f3 ++ f4 ++ rip ++ f5 ++ f6 ++ tip ++ f7 ++ f8 ++ [z2b (Z.of_nat (length ua))] ++ ua ++ f9
              ++ [if r then x01 else x00]) in *.
  destruct HL as ((S1 & S2 & S3 & S4 & S5) & (S6 & S7 & S8 & S9 & S10) & I80 & S11 & S12 & I85 & Lv).
  clear L1 L2 L3 L4 Lr L5 L6 Lt L7 L8 L9.
  remember (length ua) as n eqn:En.
  unfold parse_version_payload.
  rewrite S1, S2, S3, S4, S5, S6, S7, S8, S9, S10, Ar, At. cbn [negb].
  change 80 with (Z.of_nat 80). rewrite zindex_nat, I80. cbn [of_option bind].
  rewrite b2z_z2b by lia.
  replace (Z.of_nat n <? 253) with true by (symmetry; apply Z.ltb_lt; lia).
  destruct (Z.eqb_spec (Z.of_nat n) 0) as [E0|E0].
  - assert (n = 0)%nat as Hn by lia. subst n. rewrite Hn in *.
    assert (ua = []) as Eua by (destruct ua; [auto | cbn [length] in Hn; lia]).
    cbn [Nat.add] in S12, I85.
    change 85 with (Z.of_nat 85). rewrite zindex_nat, I85, S12. cbn [of_option bind].
    rewrite (skipn_all2 v) by lia. cbn [nonempty]. rewrite relay_of_bool. now rewrite Eua.
  - assert (ua <> []) as Hne by (intros ->; cbn [length] in En; lia).
    replace (81 + Z.of_nat n + 4 + 1) with (Z.of_nat (86 + n)) by lia.
    replace (81 + Z.of_nat n + 4) with (Z.of_nat (85 + n)) by lia.
    replace (81 + Z.of_nat n) with (Z.of_nat (81 + n)) by lia.
    change 81 with (Z.of_nat 81).
    rewrite zindex_nat, zdrop_nat, !zslice_nat.
    rewrite I85, S11, S12. cbn [of_option bind].
    rewrite (skipn_all2 v) by lia. cbn [nonempty]. rewrite relay_of_bool.
    destruct ua; [congruence | reflexivity].
Qed.

(* the parser inverts the REFERENCE encoding whenever: both address fields are ASCII-decodable, the user agent
   is shorter than 253 bytes, and the (optional) relay byte is present *)
Theorem parse_version_spec : forall m r,
  version_msg_wf m -> is_ascii (m_recv_ip m) = true -> is_ascii (m_trans_ip m) = true ->
  (length (m_user_agent m) < 253)%nat -> m_relay m = Some r ->
  parse_version_payload (spec_version_payload m) = Ok (parsed_of_msg m r).
Proof.
  intros [pv sv ts rs rip rp tsv tip tp nn ua sh rl] r
         (Hpv & Hsv & Hts & Hrs & Lrip & Hrp & Htsv & Ltip & Htp & Hnn & Hsh) Ar At Hua Hr.
  cbn [m_protocol_version m_services m_timestamp m_recv_services m_recv_ip m_recv_port m_trans_services
       m_trans_ip m_trans_port m_nonce m_user_agent m_start_height m_relay] in *.
  subst rl. unfold spec_version_payload, parsed_of_msg.
  cbn [m_protocol_version m_services m_timestamp m_recv_services m_recv_ip m_recv_port m_trans_services
       m_trans_ip m_trans_port m_nonce m_user_agent m_start_height m_relay].
  assert (Ecs : cs_enc (Z.of_nat (length ua)) = [z2b (Z.of_nat (length ua))]).
  { unfold cs_enc. replace (Z.of_nat (length ua) <? 253) with true by (symmetry; apply Z.ltb_lt; lia). reflexivity. }
  rewrite Ecs.
  replace (match Some r with Some true => [x01] | Some false => [x00] | None => [] end)
    with [if r then x01 else x00] by (destruct r; reflexivity).
  rewrite parse_version_layout; auto using to_le_length, to_be_length.
  rewrite !of_le_to_le, !of_be_to_be; try reflexivity;
    rewrite ?pow256_4, ?pow256_8, ?pow256_2; lia.
Qed.

(* what the builder produces is the reference encoding of these values *)
Definition built_msg (timestamp start_height recv_port trans_port pv services : Z) (relay : bool) : version_msg :=
  {| m_protocol_version := pv; m_services := services; m_timestamp := timestamp;
     m_recv_services := 0; m_recv_ip := ip_local; m_recv_port := recv_port;
     m_trans_services := services; m_trans_ip := ip_local; m_trans_port := trans_port;
     m_nonce := 0; m_user_agent := user_agent_const; m_start_height := start_height;
     m_relay := Some relay |}.

Definition version_args_ok (timestamp start_height recv_port trans_port pv services : Z) : Prop :=
  0 <= timestamp < 2 ^ 64 /\ 0 <= start_height < 2 ^ 32 /\ 0 <= recv_port < 2 ^ 16 /\
  0 <= trans_port < 2 ^ 16 /\ 0 <= pv < 2 ^ 32 /\ 0 <= services < 2 ^ 64.

Lemma version_payload_ok ts sh rp tp pv sv relay : version_args_ok ts sh rp tp pv sv ->
  version_payload ts sh rp tp pv sv relay = Ok (spec_version_payload (built_msg ts sh rp tp pv sv relay)).
Proof.
  intros (Hts & Hsh & Hrp & Htp & Hpv & Hsv). unfold version_payload.
  rewrite (to_le_chk_ok 4 pv) by (rewrite pow256_4; lia).
  rewrite (to_le_chk_ok 8 sv) by (rewrite pow256_8; lia).
  rewrite (to_le_chk_ok 8 ts) by (rewrite pow256_8; lia).
  rewrite (to_le_chk_ok 8 0) by (rewrite pow256_8; lia).
  rewrite (to_be_chk_ok 2 rp) by (rewrite pow256_2; lia).
  rewrite (to_be_chk_ok 2 tp) by (rewrite pow256_2; lia).
  rewrite (to_le_chk_ok 4 sh) by (rewrite pow256_4; lia).
  cbn [bind]. change (compact_size_uint (Z.of_nat (length user_agent_const))) with (@Ok bytes [x0c]).
  cbn [bind]. unfold spec_version_payload, built_msg.
  cbn [m_protocol_version m_services m_timestamp m_recv_services m_recv_ip m_recv_port m_trans_services
       m_trans_ip m_trans_port m_nonce m_user_agent m_start_height m_relay].
  change (cs_enc (Z.of_nat (length user_agent_const))) with [x0c].
  destruct relay; reflexivity.
Qed.

Lemma to_le_chk_cases k n :
  (0 <= n < 256 ^ Z.of_nat k /\ to_le_chk k n = Ok (to_le k n)) \/
  (~ (0 <= n < 256 ^ Z.of_nat k) /\ to_le_chk k n = Err OverflowE).
Proof.
  destruct (Z_le_dec 0 n); [destruct (Z_lt_dec n (256 ^ Z.of_nat k))|].
  - left. split; [lia | apply to_le_chk_ok; lia].
  - right. split; [lia | apply to_le_chk_err; lia].
  - right. split; [lia | apply to_le_chk_err; lia].
Qed.
Lemma to_be_chk_cases k n :
  (0 <= n < 256 ^ Z.of_nat k /\ to_be_chk k n = Ok (to_be k n)) \/
  (~ (0 <= n < 256 ^ Z.of_nat k) /\ to_be_chk k n = Err OverflowE).
Proof.
  destruct (Z_le_dec 0 n); [destruct (Z_lt_dec n (256 ^ Z.of_nat k))|].
  - left. split; [lia | apply to_be_chk_ok; lia].
  - right. split; [lia | apply to_be_chk_err; lia].
  - right. split; [lia | apply to_be_chk_err; lia].
Qed.

Lemma version_payload_overflow ts sh rp tp pv sv relay : ~ version_args_ok ts sh rp tp pv sv ->
  version_payload ts sh rp tp pv sv relay = Err OverflowE.
Proof.
  intros H. unfold version_payload, version_args_ok in *.
  destruct (to_le_chk_cases 4 pv) as [[R1 ->]|[_ ->]]; [|reflexivity]. cbn [bind].
  destruct (to_le_chk_cases 8 sv) as [[R2 ->]|[_ ->]]; [|reflexivity]. cbn [bind].
  destruct (to_le_chk_cases 8 ts) as [[R3 ->]|[_ ->]]; [|reflexivity]. cbn [bind].
  rewrite (to_le_chk_ok 8 0) by (rewrite pow256_8; lia). cbn [bind].
  destruct (to_be_chk_cases 2 rp) as [[R4 ->]|[_ ->]]; [|reflexivity]. cbn [bind].
  destruct (to_be_chk_cases 2 tp) as [[R5 ->]|[_ ->]]; [|reflexivity]. cbn [bind].
  change (compact_size_uint (Z.of_nat (length user_agent_const))) with (@Ok bytes [x0c]). cbn [bind].
  destruct (to_le_chk_cases 4 sh) as [[R6 ->]|[_ ->]]; [|reflexivity].
  exfalso. apply H. rewrite pow256_4, pow256_8, pow256_2 in *. lia.
Qed.

Theorem codec_roundtrip_version : forall ts sh rp tp pv sv relay,
  version_args_ok ts sh rp tp pv sv ->
  exists payload, version_payload ts sh rp tp pv sv relay = Ok payload /\
    parse_version_payload payload = Ok (parsed_of_msg (built_msg ts sh rp tp pv sv relay) relay).
Proof.
  intros ts sh rp tp pv sv relay H. exists (spec_version_payload (built_msg ts sh rp tp pv sv relay)).
  split; [now apply version_payload_ok|].
  destruct H as (Hts & Hsh & Hrp & Htp & Hpv & Hsv).
  apply parse_version_spec; try reflexivity.
  - unfold version_msg_wf, built_msg. cbn. repeat split; try lia; try reflexivity.
  - cbn. lia.
Qed.
