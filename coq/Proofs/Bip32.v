(* BIP32 child-key derivation: the algebra of CKDpriv / CKDpub / N over the model of bips/bip32.py, and their
   agreement with the BIP's functions (Spec/Bip32.v).  [curve_facts] is an explicit premise; hmac is arbitrary. *)
From Coq Require Import ZArith List Bool Lia Zpow_facts.
Require Import Bits.Lib.Result Bits.Lib.Bytes Bits.Lib.Group Bits.Model.Ecmath Bits.Proofs.Ecmath Bits.Proofs.Ecdsa
  Bits.Model.Sec1 Bits.Proofs.Sec1 Bits.Model.Bip32.
Require Bits.Spec.Bip32 Bits.Spec.Secp256k1.
Import ListNotations.
Import Coq.Init.Byte.
Local Open Scope Z_scope.

Module S := Bits.Spec.Bip32.

Lemma even_mod2 y : Z.even y = (y mod 2 =? 0).
Proof.
  destruct (Z.even y) eqn:E.
  - apply Z.even_spec in E. destruct E as [m ->]. rewrite Z.mul_comm, Z.mod_mul by lia. reflexivity.
  - assert (O : Z.odd y = true) by (rewrite <- Z.negb_even, E; reflexivity).
    apply Z.odd_spec in O. destruct O as [m ->].
    rewrite Z.add_comm, Z.mul_comm, Z.mod_add by lia. reflexivity.
Qed.

Lemma geb_false i m : i < m -> (i >=? m) = false.
Proof. intros. rewrite Z.geb_leb. apply Z.leb_gt. lia. Qed.
Lemma geb_true i m : m <= i -> (i >=? m) = true.
Proof. intros. rewrite Z.geb_leb. apply Z.leb_le. lia. Qed.

Lemma to_be_chk_ok k z : 0 <= z < 256 ^ Z.of_nat k -> to_be_chk k z = Ok (to_be k z).
Proof.
  intros H. unfold to_be_chk. destruct (Z.leb_spec 0 z); [|lia].
  destruct (Z.ltb_spec z (256 ^ Z.of_nat k)); [|lia]. reflexivity.
Qed.
Lemma to_be_chk_err k z : ~ (0 <= z < 256 ^ Z.of_nat k) -> to_be_chk k z = Err OverflowE.
Proof.
  intros H. unfold to_be_chk. destruct (Z.leb_spec 0 z); [|reflexivity].
  destruct (Z.ltb_spec z (256 ^ Z.of_nat k)); [lia|reflexivity].
Qed.
Lemma ser_32_ok i : 0 <= i < 2 ^ 32 -> ser_32 i = Ok (S.ser32 i).
Proof. intros. apply to_be_chk_ok. change (256 ^ Z.of_nat 4) with (2 ^ 32). lia. Qed.
Lemma ser_32_err i : ~ (0 <= i < 2 ^ 32) -> ser_32 i = Err OverflowE.
Proof. intros. apply to_be_chk_err. change (256 ^ Z.of_nat 4) with (2 ^ 32). lia. Qed.
Lemma ser_256_ok k : 0 <= k < 2 ^ 256 -> ser_256 k = Ok (S.ser256 k).
Proof. intros. apply to_be_chk_ok. change (256 ^ Z.of_nat 32) with (2 ^ 256). lia. Qed.

Section Ckd.
  Variables p a b n : Z.
  Variable G : point.
  Hypothesis CF : curve_facts p a b n G.
  Hypothesis Hwp : p <= 2 ^ 256.
  Hypothesis Hwn : n <= 2 ^ 256.
  Variable hmac : bytes -> bytes -> bytes.

  Let Hp := cf_p _ _ _ _ _ CF.
  Let Ha := cf_a _ _ _ _ _ CF.
  Let Hb := cf_b _ _ _ _ _ CF.
  Let CG := cf_group _ _ _ _ _ CF.
  Let Hn := cf_n _ _ _ _ _ CF.
  Let HG := cf_G _ _ _ _ _ CF.

  Notation kG := (fun k => smul p a k G).

  Lemma point_ok k : 0 <= k -> point_ p a G k = Ok (smul p a k G).
  Proof. intros. unfold point_. now apply (scalar_mul_smul p a b Hp Ha CG). Qed.

  Lemma kG_oncurve k : 0 <= k -> oncurve p a b (smul p a k G).
  Proof. intros. now apply (smul_oncurve p a b CG). Qed.

  Lemma kG_some k : 0 < k < n -> exists x y, smul p a k G = Some (x, y).
  Proof.
    intros Hk. destruct (smul p a k G) as [[x y]|] eqn:E; [eauto|].
    exfalso. now apply (cf_min _ _ _ _ _ CF k Hk).
  Qed.

  Lemma smul_0 : smul p a 0 G = None.
  Proof. reflexivity. Qed.

  (* ser_p of a curve point is the BIP's serP *)
  Lemma ser_p_ok P : oncurve p a b P -> P <> None -> ser_p P = Ok (S.serP P).
  Proof.
    destruct P as [[x y]|]; [|congruence]. intros (Hx & _ & _) _. apply (inF_iff p) in Hx.
    cbn [ser_p S.serP]. unfold pubkey_compressed, pubkey.
    rewrite (to_be_chk_32 p Hwp x Hx). cbn [bind]. rewrite even_mod2. reflexivity.
  Qed.

  Lemma kG_add j k : 0 <= j -> 0 <= k ->
    padd p a (smul p a j G) (smul p a k G) = smul p a ((j + k) mod n) G.
  Proof.
    intros Hj Hk. rewrite <- (smul_add p a b CG) by auto.
    symmetry. apply (smul_mod p a b n G CF). lia.
  Qed.

  Lemma inF_n z : inF n z = (0 <=? z) && (z <? n).
  Proof. reflexivity. Qed.

  (* ------------------------------------------------------------------------------------------
     the three outcomes of a non-hardened derivation, on both sides at once
     ------------------------------------------------------------------------------------------ *)
  Definition IL_of (c : bytes) (P : point) (i : Z) : Z :=
    of_be (firstn 32 (hmac c (S.serP P ++ S.ser32 i))).
  Definition IR_of (c : bytes) (P : point) (i : Z) : bytes :=
    skipn 32 (hmac c (S.serP P ++ S.ser32 i)).

  Lemma CKDpriv_normal k c i : 1 <= k < n -> 0 <= i < 2 ^ 31 ->
    let IL := IL_of c (smul p a k G) i in
    CKDpriv p a n G hmac k c i =
      if n <=? IL then Err ValueE
      else if (IL + k) mod n =? 0 then Err AssertionE
      else Ok ((IL + k) mod n, IR_of c (smul p a k G) i).
  Proof.
    intros Hk Hi IL. unfold CKDpriv.
    rewrite geb_false by (change HARDENED_OFFSET with (2 ^ 31); lia).
    rewrite point_ok by lia. cbn [bind].
    rewrite ser_p_ok; [| apply kG_oncurve; lia | destruct (kG_some k ltac:(lia)) as (x & y & ->); discriminate].
    cbn [bind]. rewrite ser_32_ok by lia. cbn [bind].
    fold (IL_of c (smul p a k G) i). fold IL. fold (IR_of c (smul p a k G) i).
    unfold parse_256. fold (IL_of c (smul p a k G) i). fold IL.
    assert (H0 : 0 <= IL) by apply of_be_nonneg.
    unfold add_mod_p. rewrite !inF_n.
    destruct (Z.leb_spec 0 IL); [|lia]. cbn [andb].
    destruct (Z.leb_spec n IL) as [Hge|Hlt].
    - destruct (Z.ltb_spec IL n); [lia|]. reflexivity.
    - destruct (Z.ltb_spec IL n); [|lia]. cbn [negb].
      destruct (Z.leb_spec 0 k); [|lia]. destruct (Z.ltb_spec k n); [|lia]. cbn [andb negb bind].
      reflexivity.
  Qed.

  Lemma CKDpub_normal k c i : 1 <= k < n -> 0 <= i < 2 ^ 31 ->
    let IL := IL_of c (smul p a k G) i in
    CKDpub p a n G hmac (smul p a k G) c i =
      if n <=? IL then Err AssertionE
      else Ok (smul p a ((IL + k) mod n) G, IR_of c (smul p a k G) i).
  Proof.
    intros Hk Hi IL. unfold CKDpub.
    rewrite geb_false by (change HARDENED_OFFSET with (2 ^ 31); lia).
    rewrite ser_p_ok; [| apply kG_oncurve; lia | destruct (kG_some k ltac:(lia)) as (x & y & ->); discriminate].
    cbn [bind]. rewrite ser_32_ok by lia. cbn [bind].
    unfold parse_256. fold (IL_of c (smul p a k G) i). fold IL. fold (IR_of c (smul p a k G) i).
    assert (H0 : 0 <= IL) by apply of_be_nonneg.
    rewrite point_ok by exact H0. cbn [bind].
    rewrite (point_add_ok p a b Hp Ha) by (apply kG_oncurve; lia). cbn [bind].
    rewrite kG_add by lia.
    destruct (Z.leb_spec n IL); destruct (Z.ltb_spec IL n); try lia; reflexivity.
  Qed.

  (* C09 ckd_commute: for a valid parent key and a NON-hardened index,
     (1) when CKDpriv succeeds, CKDpub on the neutered parent returns exactly the neutered child, a finite point;
     (2) when CKDpriv fails, CKDpub fails too or returns the point at infinity (as None) -- the code has no
         check for K_i = infinity, the BIP declares that child invalid. *)
  Theorem ckd_commute k c i : 1 <= k < n -> 0 <= i < 2 ^ 31 ->
    let pub_side := bind (N_ p a G k c) (fun Kc => CKDpub p a n G hmac (fst Kc) (snd Kc) i) in
    match CKDpriv p a n G hmac k c i with
    | Ok (k', c') =>
        1 <= k' < n /\ pub_side = N_ p a G k' c' /\
        exists x y, N_ p a G k' c' = Ok (Some (x, y), c')
    | Err e =>
        (e = ValueE /\ pub_side = Err AssertionE) \/
        (e = AssertionE /\ exists c', pub_side = Ok (None, c'))
    end.
  Proof.
    intros Hk Hi pub_side. unfold pub_side, N_.
    rewrite (point_ok k) by lia. cbn [bind fst snd].
    rewrite CKDpriv_normal, CKDpub_normal by auto. cbv zeta.
    set (IL := IL_of c (smul p a k G) i). set (IR := IR_of c (smul p a k G) i).
    destruct (Z.leb_spec n IL) as [Hge|Hlt]; [left; auto|].
    assert (R : 0 <= (IL + k) mod n < n) by (apply Z.mod_pos_bound; lia).
    destruct (Z.eqb_spec ((IL + k) mod n) 0) as [E0|N0].
    - right. split; [reflexivity|]. exists IR. rewrite E0. reflexivity.
    - split; [lia|]. rewrite (point_ok ((IL + k) mod n)) by lia. cbn [bind]. split; [reflexivity|].
      destruct (kG_some ((IL + k) mod n) ltac:(lia)) as (x & y & E). exists x, y. now rewrite E.
  Qed.

  (* the converse direction: whenever the public side yields a finite point, the private side succeeds *)
  Corollary ckd_commute_conv k c i P c' : 1 <= k < n -> 0 <= i < 2 ^ 31 -> P <> None ->
    bind (N_ p a G k c) (fun Kc => CKDpub p a n G hmac (fst Kc) (snd Kc) i) = Ok (P, c') ->
    exists k', CKDpriv p a n G hmac k c i = Ok (k', c') /\ N_ p a G k' c' = Ok (P, c').
  Proof.
    intros Hk Hi HP H. pose proof (ckd_commute k c i Hk Hi) as C. cbv zeta in C.
    destruct (CKDpriv p a n G hmac k c i) as [[k' c'']|e].
    - destruct C as (_ & E & _). rewrite H in E. exists k'.
      unfold N_ in E |- *. destruct (point_ p a G k') as [Q|]; cbn [bind] in *; [|discriminate].
      injection E as -> ->. auto.
    - destruct C as [(_ & E)|(_ & c0 & E)]; rewrite H in E; [discriminate|]. injection E as -> _. congruence.
  Qed.

  (* C09 ckd_pub_hardened: hardened children cannot be derived from a public key -- for EVERY key and chain code *)
  Theorem ckd_pub_hardened K c i : 2 ^ 31 <= i -> CKDpub p a n G hmac K c i = Err ValueE.
  Proof. intros Hi. unfold CKDpub. rewrite geb_true by exact Hi. reflexivity. Qed.

  (* ------------------------------------------------------------------------------------------
     agreement with the BIP's CKD functions (Spec/Bip32.v), all indices 0 <= i < 2^32
     ------------------------------------------------------------------------------------------ *)
  Notation spec_priv := (S.ckd_priv n kG hmac).
  Notation spec_pub := (S.ckd_pub n kG (padd p a) hmac).

  Lemma hmac_split c m : forall (IL := of_be (firstn 32 (hmac c m))), 0 <= IL.
  Proof. intros. apply of_be_nonneg. Qed.

  Theorem CKDpriv_spec k c i : 1 <= k < n -> 0 <= i < 2 ^ 32 ->
    match spec_priv k c i with
    | Some (ki, ci) => CKDpriv p a n G hmac k c i = Ok (ki, ci) /\ 1 <= ki < n
    | None => exists e, CKDpriv p a n G hmac k c i = Err e /\ (e = ValueE \/ e = AssertionE)
    end.
  Proof.
    intros Hk Hi. unfold S.ckd_priv. change S.hardened_offset with (2 ^ 31).
    destruct (Z.leb_spec (2 ^ 31) i) as [Hh|Hnh].
    - (* hardened *)
      unfold CKDpriv. rewrite geb_true by exact Hh.
      rewrite ser_256_ok by lia. cbn [bind]. rewrite ser_32_ok by lia. cbn [bind].
      unfold parse_256, S.parse256.
      set (I := hmac c (x00 :: S.ser256 k ++ S.ser32 i)).
      set (IL := of_be (firstn 32 I)). assert (H0 : 0 <= IL) by apply of_be_nonneg.
      unfold add_mod_p. rewrite !inF_n. destruct (Z.leb_spec 0 IL); [|lia]. cbn [andb].
      destruct (Z.leb_spec n IL) as [Hge|Hlt]; cbn [orb].
      + destruct (Z.ltb_spec IL n); [lia|]. cbn [negb]. exists ValueE. auto.
      + destruct (Z.ltb_spec IL n); [|lia]. cbn [negb].
        destruct (Z.leb_spec 0 k); [|lia]. destruct (Z.ltb_spec k n); [|lia]. cbn [andb negb bind].
        assert (R : 0 <= (IL + k) mod n < n) by (apply Z.mod_pos_bound; lia).
        destruct (Z.eqb_spec ((IL + k) mod n) 0) as [E0|N0]; [exists AssertionE; auto|].
        split; [reflexivity|lia].
    - rewrite CKDpriv_normal by (auto; lia). cbv zeta.
      unfold IL_of, IR_of, S.parse256.
      set (IL := of_be (firstn 32 (hmac c (S.serP (smul p a k G) ++ S.ser32 i)))).
      destruct (Z.leb_spec n IL); cbn [orb]; [exists ValueE; auto|].
      assert (R : 0 <= (IL + k) mod n < n) by (apply Z.mod_pos_bound; lia).
      destruct (Z.eqb_spec ((IL + k) mod n) 0); [exists AssertionE; auto|].
      split; [reflexivity|lia].
  Qed.

  (* for any finite curve point as parent (not only k*G with known k) *)
  Theorem CKDpub_spec K c i : oncurve p a b K -> K <> None -> 0 <= i < 2 ^ 32 ->
    match spec_pub K c i with
    | Some (Ki, ci) => CKDpub p a n G hmac K c i = Ok (Ki, ci) /\ oncurve p a b Ki /\ Ki <> None
    | None => (exists e, CKDpub p a n G hmac K c i = Err e /\ (e = ValueE \/ e = AssertionE))
              \/ (exists ci, CKDpub p a n G hmac K c i = Ok (None, ci))
    end.
  Proof.
    intros HK HN Hi. unfold S.ckd_pub. change S.hardened_offset with (2 ^ 31).
    destruct (Z.leb_spec (2 ^ 31) i) as [Hh|Hnh].
    - left. exists ValueE. split; [now apply ckd_pub_hardened|auto].
    - unfold CKDpub. rewrite geb_false by (change HARDENED_OFFSET with (2 ^ 31); lia).
      rewrite ser_p_ok by auto. cbn [bind]. rewrite ser_32_ok by lia. cbn [bind].
      unfold parse_256, S.parse256.
      set (I := hmac c (S.serP K ++ S.ser32 i)).
      set (IL := of_be (firstn 32 I)). assert (H0 : 0 <= IL) by apply of_be_nonneg.
      rewrite point_ok by exact H0. cbn [bind].
      rewrite (point_add_ok p a b Hp Ha) by (auto; apply kG_oncurve; lia). cbn [bind].
      destruct (Z.leb_spec n IL) as [Hge|Hlt].
      + destruct (Z.ltb_spec IL n); [lia|]. left. exists AssertionE. auto.
      + destruct (Z.ltb_spec IL n); [|lia]. cbn [negb].
        destruct (padd p a (smul p a IL G) K) as [xy|] eqn:E.
        * split; [reflexivity|]. split; [|discriminate].
          rewrite <- E. apply CG; auto. apply kG_oncurve; lia.
        * right. eexists. reflexivity.
  Qed.

  (* N is the BIP's N *)
  Lemma N_spec k c : 0 <= k -> N_ p a G k c = Ok (S.neuter kG k c).
  Proof. intros. unfold N_, S.neuter. rewrite point_ok by auto. reflexivity. Qed.
End Ckd.

(* master key generation: the code's literal n is secp256k1's; every outcome matches the BIP *)
Theorem master_spec hmac seed :
  to_master_key hmac seed =
  match S.master Bits.Spec.Secp256k1.n hmac seed with
  | Some kc => Ok kc
  | None => Err AssertionE
  end.
Proof.
  unfold to_master_key, S.master, S.parse256.
  set (k := of_be (firstn 32 (hmac S.bitcoin_seed seed))).
  destruct (Z.eqb_spec k 0); cbn [orb]; [reflexivity|].
  destruct (Z.leb_spec Bits.Spec.Secp256k1.n k); destruct (Z.ltb_spec k Bits.Spec.Secp256k1.n); try lia; reflexivity.
Qed.

(* the `bits hd` subcommand (Model cli_hd): stdout is derive_from_path (then get_xpub with --xpub, then a newline with
   -P), and the --dump fields are exactly the deserialisation of the key that is emitted *)
Lemma cli_hd_spec p a b n G hm sha rip path x xp du pr out d :
  cli_hd p a b n G hm sha rip path x xp du pr = Ok (out, d) ->
  exists y, bind (derive_from_path p a b n G hm sha rip path x)
                 (fun y0 : bytes => if xp then get_xpub p a b n G sha y0 else Ok y0) = Ok y /\
            out = (if pr then y ++ [x0a] else y) /\
            (if du then exists f, d = Some f /\ deserialized_extended_key p a b n sha y = Ok f else d = None).
Proof.
  unfold cli_hd. intros H.
  destruct (derive_from_path p a b n G hm sha rip path x) as [y0|e]; cbn [bind] in *; [|discriminate].
  destruct (if xp then get_xpub p a b n G sha y0 else Ok y0) as [y|e]; cbn [bind] in *; [|discriminate].
  exists y. split; [reflexivity|]. destruct du.
  - destruct (deserialized_extended_key p a b n sha y) as [f|e]; cbn [bind] in H; [|discriminate].
    injection H as <- <-. split; [reflexivity|]. exists f. auto.
  - cbn [bind] in H. injection H as <- <-. auto.
Qed.

(* and it refuses (no output) exactly when the derivation, the conversion or the re-deserialisation refuses *)
Lemma cli_hd_refuses p a b n G hm sha rip path x (xp du pr : bool) e :
  bind (derive_from_path p a b n G hm sha rip path x)
       (fun y0 : bytes => if xp then get_xpub p a b n G sha y0 else Ok y0) = Err e ->
  cli_hd p a b n G hm sha rip path x xp du pr = Err e.
Proof.
  unfold cli_hd. destruct (derive_from_path p a b n G hm sha rip path x) as [y0|e0]; cbn [bind]; [|intros H; injection H as ->; reflexivity].
  destruct (if xp then get_xpub p a b n G sha y0 else Ok y0) as [y|e1]; cbn [bind]; intros H;
    [discriminate H|injection H as ->; reflexivity].
Qed.
