(* Proofs about the witness-stack codec (Model/Witness.v). *)
From Coq Require Import ZArith List Lia Bool.
Require Import Bits.Lib.Result Bits.Lib.Bytes Bits.Lib.CompactSize.
Require Import Bits.Model.CompactSize Bits.Model.Witness Bits.Proofs.CompactSize.
Import ListNotations.
Local Open Scope Z_scope.

Lemma witness_loop_step f n acc bs : bs <> [] ->
  witness_loop (S f) n acc bs =
  bind (parse_compact_size_uint bs) (fun x => let '(push, item_bytes) := x in
    if n - 1 =? 0 then Ok (rev_append (takeZ push item_bytes :: acc) [], dropZ push item_bytes)
    else witness_loop f (n - 1) (takeZ push item_bytes :: acc) (dropZ push item_bytes)).
Proof. destruct bs; [congruence|reflexivity]. Qed.

Lemma witness_item_ser_inv d bs : witness_item_ser d = Ok bs ->
  Z.of_nat (length d) < 2 ^ 64 /\ bs = cs_enc (Z.of_nat (length d)) ++ d.
Proof.
  unfold witness_item_ser. intros H. apply bind_ok in H as (p & Hp & H).
  apply compact_size_uint_inv in Hp as (R & ->). injection H as <-. split; [lia|reflexivity].
Qed.

Lemma witness_items_ser_cons d ds bs : witness_items_ser (d :: ds) = Ok bs ->
  exists body, witness_items_ser ds = Ok body /\ Z.of_nat (length d) < 2 ^ 64 /\
               bs = (cs_enc (Z.of_nat (length d)) ++ d) ++ body.
Proof.
  cbn [witness_items_ser]. intros H. apply bind_ok in H as (a & Ha & H). apply bind_ok in H as (b & Hb & H).
  injection H as <-. apply witness_item_ser_inv in Ha as (R & ->). eauto.
Qed.

Lemma witness_items_ser_length items body : witness_items_ser items = Ok body ->
  (length items <= length body)%nat /\ Forall (fun d => Z.of_nat (length d) < 2 ^ 64) items.
Proof.
  revert body. induction items as [|d ds IH]; intros body H.
  - split; [cbn; lia|constructor].
  - apply witness_items_ser_cons in H as (b & Hb & R & ->). apply IH in Hb as (L & F).
    split; [|constructor; assumption]. rewrite !app_length, cs_enc_length. cbn [length].
    assert (1 <= cs_len (Z.of_nat (length d)))%nat; [|lia].
    unfold cs_len. destruct (_ <? 253); [lia|]. destruct (_ <? 2 ^ 16); [lia|]. destruct (_ <? 2 ^ 32); lia.
Qed.

Lemma witness_loop_roundtrip items : items <> [] ->
  forall body acc fuel rest, witness_items_ser items = Ok body -> (length items <= fuel)%nat ->
  witness_loop fuel (Z.of_nat (length items)) acc (body ++ rest) = Ok (rev acc ++ items, rest).
Proof.
  induction items as [|d ds IH]; [congruence|]. intros _ body acc fuel rest H Hf.
  apply witness_items_ser_cons in H as (b & Hb & R & ->).
  destruct fuel as [|f]; [cbn [length] in Hf; lia|].
  rewrite witness_loop_step.
  2:{ intro E. apply (f_equal (@length _)) in E. rewrite !app_length, cs_enc_length in E.
      unfold cs_len in E. cbn [length] in E.
      destruct (_ <? 253); [lia|]. destruct (_ <? 2 ^ 16); [lia|]. destruct (_ <? 2 ^ 32); lia. }
  rewrite <- !app_assoc. rewrite parse_cs_enc by lia. cbn [bind].
  rewrite takeZ_app, dropZ_app.
  replace (Z.of_nat (length (d :: ds)) - 1) with (Z.of_nat (length ds)) by (cbn [length]; lia).
  destruct ds as [|d' ds'].
  - cbn [length Z.of_nat Z.eqb]. cbn [witness_items_ser] in Hb. injection Hb as <-.
    rewrite rev_append_rev, app_nil_r. cbn [rev]. reflexivity.
  - destruct (Z.eqb_spec (Z.of_nat (length (d' :: ds'))) 0) as [E|E]; [cbn [length] in E; lia|].
    rewrite IH; [|discriminate|exact Hb|cbn [length] in *; lia].
    cbn [rev]. now rewrite <- app_assoc.
Qed.

Lemma witness_ser_inv items ser : witness_ser items = Ok ser ->
  exists body, witness_items_ser items = Ok body /\ Z.of_nat (length items) < 2 ^ 64 /\
               ser = cs_enc (Z.of_nat (length items)) ++ body.
Proof.
  unfold witness_ser. intros H. apply bind_ok in H as (c & Hc & H). apply bind_ok in H as (b & Hb & H).
  injection H as <-. apply compact_size_uint_inv in Hc as (R & ->). exists b. repeat split; auto; lia.
Qed.

(* C05: the witness stack codec round-trips, for every stack (empty stack, empty items, any item length
   the encoder accepts) and every trailing byte string *)
Theorem witness_stack_roundtrip items ser : witness_ser items = Ok ser ->
  forall rest, witness_deser (ser ++ rest) = Ok (items, rest).
Proof.
  intros H rest. apply witness_ser_inv in H as (body & Hb & R & ->).
  unfold witness_deser. rewrite <- app_assoc, parse_cs_enc by lia. cbn [bind].
  rewrite compact_size_uint_spec by lia. cbn [bind].
  destruct items as [|d ds].
  - cbn [witness_items_ser] in Hb. injection Hb as <-. reflexivity.
  - destruct (Z.eqb_spec (Z.of_nat (length (d :: ds))) 0) as [E|E]; [cbn [length] in E; lia|].
    rewrite (witness_loop_roundtrip (d :: ds)) with (acc := []); [reflexivity|discriminate|exact Hb|].
    apply witness_items_ser_length in Hb as (L & _). rewrite app_length. lia.
Qed.

(* for which stacks the encoder succeeds: exactly those whose count and item lengths fit 64 bits *)
Lemma witness_items_ser_ok items : Forall (fun d => Z.of_nat (length d) < 2 ^ 64) items ->
  exists body, witness_items_ser items = Ok body.
Proof.
  induction 1 as [|d ds Hd _ IH]; [eexists; reflexivity|]. destruct IH as [b Hb].
  cbn [witness_items_ser]. unfold witness_item_ser. rewrite compact_size_uint_spec by lia. cbn [bind].
  rewrite Hb. cbn [bind]. eauto.
Qed.

Theorem witness_ser_ok_iff items : (exists ser, witness_ser items = Ok ser) <->
  Z.of_nat (length items) < 2 ^ 64 /\ Forall (fun d => Z.of_nat (length d) < 2 ^ 64) items.
Proof.
  split.
  - intros [ser H]. apply witness_ser_inv in H as (body & Hb & R & _).
    apply witness_items_ser_length in Hb as (_ & F). auto.
  - intros [R F]. destruct (witness_items_ser_ok items F) as [b Hb].
    unfold witness_ser. rewrite compact_size_uint_spec by lia. cbn [bind]. rewrite Hb. cbn [bind]. eauto.
Qed.

(* ---- the fuel of the `while` loop is never exhausted; a successful parse consumes >= 1 byte ---- *)
Lemma parse_cs_err bs e : parse_compact_size_uint bs = Err e -> e = IndexE.
Proof.
  destruct bs as [|b tl]; cbn [parse_compact_size_uint]; [congruence|].
  destruct (_ =? 255); [discriminate|]. destruct (_ =? 254); [discriminate|].
  destruct (_ =? 253); discriminate.
Qed.

Lemma witness_loop_no_fuel fuel : forall n acc bs, (length bs <= fuel)%nat ->
  witness_loop fuel n acc bs <> Err FuelE.
Proof.
  induction fuel as [|f IH]; intros n acc bs L.
  - destruct bs; [cbn; discriminate|cbn [length] in L; lia].
  - destruct bs as [|b tl]; [cbn; discriminate|]. rewrite witness_loop_step by discriminate.
    destruct (parse_compact_size_uint (b :: tl)) as [[push ib]|e] eqn:P.
    + cbn [bind]. apply parse_cs_length in P as (P & _).
      destruct (n - 1 =? 0); [discriminate|]. apply IH.
      pose proof (dropZ_length push ib). lia.
    + cbn [bind]. apply parse_cs_err in P. subst e. discriminate.
Qed.

Theorem witness_deser_no_fuel bs : witness_deser bs <> Err FuelE.
Proof.
  unfold witness_deser. destruct (parse_compact_size_uint bs) as [[n b1]|e] eqn:P.
  - cbn [bind]. destruct (compact_size_uint n) as [c|e] eqn:C.
    + cbn [bind]. destruct (n =? 0); [discriminate|]. apply witness_loop_no_fuel. lia.
    + cbn [bind]. apply compact_size_uint_err in C as (-> & _). discriminate.
  - cbn [bind]. apply parse_cs_err in P. subst e. discriminate.
Qed.

Lemma witness_loop_consumes fuel : forall n acc bs w rest,
  witness_loop fuel n acc bs = Ok (w, rest) -> (length rest < length bs)%nat.
Proof.
  induction fuel as [|f IH]; intros n acc bs w rest H.
  - destruct bs; discriminate.
  - destruct bs as [|b tl]; [discriminate|]. rewrite witness_loop_step in H by discriminate.
    apply bind_ok in H as ([push ib] & P & H). apply parse_cs_length in P as (P & _).
    pose proof (dropZ_length push ib) as D.
    destruct (n - 1 =? 0).
    + apply ok_pair_inj in H as [_ <-]. lia.
    + apply IH in H. lia.
Qed.

Theorem witness_deser_consumes bs w rest : witness_deser bs = Ok (w, rest) -> (length rest < length bs)%nat.
Proof.
  unfold witness_deser. intros H. apply bind_ok in H as ([n b1] & P & H). apply bind_ok in H as (c & _ & H).
  apply parse_cs_length in P as (P & _).
  destruct (n =? 0).
  - apply ok_pair_inj in H as [_ <-]. exact P.
  - apply witness_loop_consumes in H. lia.
Qed.
