(* Proofs about the model of compact_size_uint / parse_compact_size_uint (Model/CompactSize.v),
   related to the specification encoder/decoder of Lib/CompactSize.v (from the developer reference). *)
From Coq Require Import ZArith List Lia Bool.
Require Import Bits.Lib.Result Bits.Lib.Bytes Bits.Lib.CompactSize Bits.Model.CompactSize.
Import ListNotations.
Import Coq.Init.Byte.
Local Open Scope Z_scope.

(* ---- the encoder is the specification encoder on [0, 2^64) and refuses everything else ---- *)
Lemma compact_size_uint_spec n : 0 <= n < 2 ^ 64 -> compact_size_uint n = Ok (cs_enc n).
Proof.
  intros Hn. unfold compact_size_uint, cs_enc.
  change (2 ^ 16) with 65536. change (2 ^ 32) with 4294967296.
  change (2 ^ 64) with 18446744073709551616 in Hn.
  destruct (Z.ltb_spec n 0); [lia|].
  destruct (Z.leb_spec n 252); destruct (Z.ltb_spec n 253); try lia; [reflexivity|].
  destruct (Z.leb_spec 253 n); [|lia]. cbn [andb].
  destruct (Z.leb_spec n 65535); destruct (Z.ltb_spec n 65536); try lia; [reflexivity|].
  destruct (Z.leb_spec 65536 n); [|lia]. cbn [andb].
  destruct (Z.leb_spec n 4294967295); destruct (Z.ltb_spec n 4294967296); try lia; [reflexivity|].
  destruct (Z.leb_spec 4294967296 n); [|lia]. cbn [andb].
  destruct (Z.leb_spec n 18446744073709551615); [reflexivity|lia].
Qed.

Lemma cs_refuses n : n < 0 \/ 2 ^ 64 <= n -> compact_size_uint n = Err ValueE.
Proof.
  intros Hn. unfold compact_size_uint. change (2 ^ 64) with 18446744073709551616 in Hn.
  destruct (Z.ltb_spec n 0); [reflexivity|].
  destruct (Z.leb_spec n 252); [lia|].
  destruct (Z.leb_spec n 65535); [lia|]. rewrite andb_false_r.
  destruct (Z.leb_spec n 4294967295); [lia|]. rewrite andb_false_r.
  destruct (Z.leb_spec n 18446744073709551615); [lia|]. rewrite andb_false_r. reflexivity.
Qed.

Lemma compact_size_uint_ok_iff n : (exists bs, compact_size_uint n = Ok bs) <-> 0 <= n < 2 ^ 64.
Proof.
  split.
  - intros [bs H]. destruct (Z_lt_dec n 0) as [Hl|Hl].
    + rewrite cs_refuses in H by lia. discriminate.
    + destruct (Z_le_dec (2 ^ 64) n) as [Hh|Hh]; [|lia].
      rewrite cs_refuses in H by lia. discriminate.
  - intros H. eexists. now apply compact_size_uint_spec.
Qed.

Lemma compact_size_uint_inv n bs : compact_size_uint n = Ok bs -> 0 <= n < 2 ^ 64 /\ bs = cs_enc n.
Proof.
  intros H. assert (Hn : 0 <= n < 2 ^ 64) by (apply compact_size_uint_ok_iff; eauto).
  split; [exact Hn|]. rewrite compact_size_uint_spec in H by exact Hn. now injection H.
Qed.

(* every error of the encoder is a ValueError *)
Lemma compact_size_uint_err n e : compact_size_uint n = Err e -> e = ValueE /\ (n < 0 \/ 2 ^ 64 <= n).
Proof.
  intros H. destruct (Z_lt_dec n 0) as [Hl|Hl].
  - rewrite cs_refuses in H by lia. injection H as <-. split; [reflexivity|lia].
  - destruct (Z_le_dec (2 ^ 64) n) as [Hh|Hh].
    + rewrite cs_refuses in H by lia. injection H as <-. split; [reflexivity|lia].
    + rewrite compact_size_uint_spec in H by lia. discriminate.
Qed.

(* ---- the parser agrees with the specification decoder wherever that one accepts ---- *)
Lemma byte_eqb_b2z (b : byte) :
  byte_eqb b xff = (b2z b =? 255) /\ byte_eqb b xfe = (b2z b =? 254) /\ byte_eqb b xfd = (b2z b =? 253).
Proof. destruct b; vm_compute; auto. Qed.

Lemma parse_of_cs_dec bs r : cs_dec bs = Some r -> parse_compact_size_uint bs = Ok r.
Proof.
  destruct bs as [|b rest]; [discriminate|].
  unfold cs_dec, parse_compact_size_uint.
  destruct (byte_eqb_b2z b) as (E1 & E2 & E3). rewrite E1, E2, E3.
  assert (S9 : slice 1 9 (b :: rest) = firstn 8 rest) by reflexivity.
  assert (S5 : slice 1 5 (b :: rest) = firstn 4 rest) by reflexivity.
  assert (S3 : slice 1 3 (b :: rest) = firstn 2 rest) by reflexivity.
  rewrite S9, S5, S3.
  change (skipn 9 (b :: rest)) with (skipn 8 rest). change (skipn 5 (b :: rest)) with (skipn 4 rest).
  change (skipn 3 (b :: rest)) with (skipn 2 rest). change (skipn 1 (b :: rest)) with rest.
  destruct (b2z b =? 255).
  { destruct (8 <=? length rest)%nat; [|discriminate]. intros H; injection H as <-. reflexivity. }
  destruct (b2z b =? 254).
  { destruct (4 <=? length rest)%nat; [|discriminate]. intros H; injection H as <-. reflexivity. }
  destruct (b2z b =? 253).
  { destruct (2 <=? length rest)%nat; [|discriminate]. intros H; injection H as <-. reflexivity. }
  intros H; injection H as <-. reflexivity.
Qed.

Lemma parse_cs_enc n rest : 0 <= n < 2 ^ 64 -> parse_compact_size_uint (cs_enc n ++ rest) = Ok (n, rest).
Proof. intros H. apply parse_of_cs_dec. now apply cs_dec_enc. Qed.

(* C05: CompactSize round trip for every integer in [0, 2^64-1] with any trailing data *)
Lemma cs_roundtrip n bs : compact_size_uint n = Ok bs ->
  forall rest, parse_compact_size_uint (bs ++ rest) = Ok (n, rest).
Proof. intros H rest. apply compact_size_uint_inv in H as (Hn & ->). now apply parse_cs_enc. Qed.

(* ---- shortest form ---- *)
Lemma cs_length n bs : compact_size_uint n = Ok bs ->
  length bs = if n <? 253 then 1%nat else if n <? 2 ^ 16 then 3%nat else if n <? 2 ^ 32 then 5%nat else 9%nat.
Proof. intros H. apply compact_size_uint_inv in H as (_ & ->). apply cs_enc_length. Qed.

(* no encoding accepted by the reference decoder for the same integer is shorter *)
Lemma cs_dec_consumed bs n rest : cs_dec bs = Some (n, rest) ->
  0 <= n < 2 ^ 64 /\ (length rest <= length bs)%nat /\
  (cs_len n <= length bs - length rest)%nat.
Proof.
  destruct bs as [|b tl]; [discriminate|]. unfold cs_dec.
  assert (T : forall k, (k <= 8)%nat ->
    (if (k <=? length tl)%nat then Some (of_le (firstn k tl), skipn k tl) else None) = Some (n, rest) ->
    0 <= n < 256 ^ Z.of_nat k /\ length rest = (length tl - k)%nat /\ (k <= length tl)%nat).
  { intros k Hk H. destruct (Nat.leb_spec k (length tl)) as [L|L]; [|discriminate].
    injection H as <- <-. rewrite skipn_length. split; [|lia].
    unfold of_le. pose proof (of_be_nonneg (rev (firstn k tl))). pose proof (of_be_bound (rev (firstn k tl))) as B.
    rewrite rev_length, firstn_length_le in B by lia. lia. }
  cbn [length]. destruct (byte_eqb_b2z b) as (E1 & E2 & E3). rewrite E1, E2, E3.
  destruct (Z.eqb_spec (b2z b) 255) as [N1|N1].
  { intros H. apply T in H as (R & L1 & L2); [|lia]. change (256 ^ Z.of_nat 8) with (2 ^ 64) in R.
    split; [lia|]. split; [lia|]. unfold cs_len.
    destruct (n <? 253); [lia|]. destruct (n <? 2 ^ 16); [lia|]. destruct (n <? 2 ^ 32); lia. }
  destruct (Z.eqb_spec (b2z b) 254) as [N2|N2].
  { intros H. apply T in H as (R & L1 & L2); [|lia]. change (256 ^ Z.of_nat 4) with (2 ^ 32) in R.
    split; [lia|]. split; [lia|]. unfold cs_len.
    destruct (n <? 253); [lia|]. destruct (n <? 2 ^ 16); [lia|]. destruct (Z.ltb_spec n (2 ^ 32)); lia. }
  destruct (Z.eqb_spec (b2z b) 253) as [N3|N3].
  { intros H. apply T in H as (R & L1 & L2); [|lia]. change (256 ^ Z.of_nat 2) with (2 ^ 16) in R.
    split; [lia|]. split; [lia|]. unfold cs_len.
    destruct (n <? 253); [lia|]. destruct (Z.ltb_spec n (2 ^ 16)); lia. }
  intros H. injection H as <- <-. pose proof (b2z_range b). split; [lia|]. split; [lia|].
  unfold cs_len. destruct (Z.ltb_spec (b2z b) 253) as [L|L]; lia.
Qed.

Lemma cs_shortest n bs : compact_size_uint n = Ok bs ->
  length bs = cs_len n /\
  forall bs' rest', cs_dec bs' = Some (n, rest') -> (length bs <= length bs' - length rest')%nat.
Proof.
  intros H. apply compact_size_uint_inv in H as (_ & ->). rewrite cs_enc_length. split; [reflexivity|].
  intros bs' rest' D. now apply cs_dec_consumed in D.
Qed.

(* ---- facts used by the transaction proofs ---- *)
Lemma ok_pair_inj {A B} (a a' : A) (b b' : B) : @Ok (A * B) (a, b) = Ok (a', b') -> a = a' /\ b = b'.
Proof. intros H; injection H; auto. Qed.

Lemma parse_cs_length bs n rest : parse_compact_size_uint bs = Ok (n, rest) ->
  (length rest < length bs)%nat /\ 0 <= n < 2 ^ 64.
Proof.
  destruct bs as [|b tl]; [discriminate|]. unfold parse_compact_size_uint. cbn [length].
  assert (B : forall k l, (k <= 8)%nat -> 0 <= of_le (firstn k l) < 2 ^ 64).
  { intros k l Hk. unfold of_le. pose proof (of_be_nonneg (rev (firstn k l))).
    pose proof (of_be_bound (rev (firstn k l))) as B. rewrite rev_length in B.
    pose proof (firstn_le_length k l).
    assert (256 ^ Z.of_nat (length (firstn k l)) <= 256 ^ 8) by (apply Z.pow_le_mono_r; lia).
    change (256 ^ 8) with (2 ^ 64) in *. lia. }
  assert (S9 : slice 1 9 (b :: tl) = firstn 8 tl) by reflexivity.
  assert (S5 : slice 1 5 (b :: tl) = firstn 4 tl) by reflexivity.
  assert (S3 : slice 1 3 (b :: tl) = firstn 2 tl) by reflexivity.
  rewrite S9, S5, S3.
  destruct (b2z b =? 255); [|destruct (b2z b =? 254); [|destruct (b2z b =? 253)]];
    intros H; apply ok_pair_inj in H as [<- <-]; rewrite ?skipn_length; cbn [length];
    (split; [lia|]); try (apply B; lia).
  pose proof (b2z_range b). lia.
Qed.

Lemma cs_enc_first_nonzero n : 1 <= n < 2 ^ 64 -> exists b tl, cs_enc n = b :: tl /\ b2z b <> 0.
Proof.
  intros Hn. unfold cs_enc.
  destruct (Z.ltb_spec n 253).
  - cbn [to_le]. eexists _, _. split; [reflexivity|]. rewrite b2z_z2b; lia.
  - destruct (n <? 2 ^ 16); [|destruct (n <? 2 ^ 32)]; eexists _, _; (split; [reflexivity|]); vm_compute; discriminate.
Qed.

Lemma takeZ_app {A} (s rest : list A) : takeZ (Z.of_nat (length s)) (s ++ rest) = s.
Proof.
  induction s as [|a s IH].
  - destruct rest; reflexivity.
  - cbn [app takeZ]. destruct (Z.leb_spec (Z.of_nat (length (a :: s))) 0) as [L|L]; [cbn [length] in L; lia|].
    replace (Z.of_nat (length (a :: s)) - 1) with (Z.of_nat (length s)) by (cbn [length]; lia). now rewrite IH.
Qed.

Lemma dropZ_app {A} (s rest : list A) : dropZ (Z.of_nat (length s)) (s ++ rest) = rest.
Proof.
  induction s as [|a s IH].
  - destruct rest; reflexivity.
  - cbn [app dropZ]. destruct (Z.leb_spec (Z.of_nat (length (a :: s))) 0) as [L|L]; [cbn [length] in L; lia|].
    replace (Z.of_nat (length (a :: s)) - 1) with (Z.of_nat (length s)) by (cbn [length]; lia). exact IH.
Qed.

Lemma dropZ_length {A} z (l : list A) : (length (dropZ z l) <= length l)%nat.
Proof.
  revert z. induction l as [|a l IH]; intros z; cbn [dropZ]; [lia|].
  destruct (z <=? 0); [lia|]. specialize (IH (z - 1)). cbn [length]. lia.
Qed.

(* they are Python's clamped slices: firstn / skipn at min(z, len l) *)
Lemma takeZ_firstn {A} z (l : list A) : 0 <= z -> takeZ z l = firstn (Z.to_nat z) l.
Proof.
  revert z. induction l as [|a l IH]; intros z Hz; cbn [takeZ]; [now rewrite firstn_nil|].
  destruct (Z.leb_spec z 0); [replace z with 0 by lia; reflexivity|].
  replace (Z.to_nat z) with (S (Z.to_nat (z - 1))) by lia. cbn [firstn]. rewrite IH by lia. reflexivity.
Qed.
Lemma dropZ_skipn {A} z (l : list A) : 0 <= z -> dropZ z l = skipn (Z.to_nat z) l.
Proof.
  revert z. induction l as [|a l IH]; intros z Hz; cbn [dropZ]; [now rewrite skipn_nil|].
  destruct (Z.leb_spec z 0); [replace z with 0 by lia; reflexivity|].
  replace (Z.to_nat z) with (S (Z.to_nat (z - 1))) by lia. cbn [skipn]. rewrite IH by lia. reflexivity.
Qed.
