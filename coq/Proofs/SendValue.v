(* C16, value layer: the selection loop takes a prefix of the reported unspents, stops as soon as the requested amount is
   covered, and the output values conserve the inputs.  Everything is relative to [sat_exact]: the float conversion
   round(a * 1e8) returns the exact satoshi value [sats u] of every reported amount (hypothesis, checked by the
   correspondence on boundary amounts; see Props/C16.v for the kernel-computed instances). *)
From Coq Require Import ZArith List Lia Bool.
Require Import Bits.Lib.Result Bits.Model.SendValue.
Import ListNotations.
Local Open Scope Z_scope.
Local Open Scope result_scope.

Definition sumZ (l : list Z) : Z := fold_right Z.add 0 l.

Lemma sumZ_app a b : sumZ (a ++ b) = sumZ a + sumZ b.
Proof. unfold sumZ. induction a as [|x a IH]; cbn [fold_right app]; lia. Qed.

Lemma sumZ_cons x l : sumZ (x :: l) = x + sumZ l.
Proof. reflexivity. Qed.

Section Loop.
  Context {U T : Type}.
  Variable sat_of : U -> result Z.
  Variable mk : U -> result T.
  Variable sats : U -> Z.                                   (* the exact satoshi value of a reported utxo *)

  (* what the loop returns, for a list on which the conversion is exact *)
  Record selection (us : list U) (target acc : Z) (sel : list (U * T)) (tot : Z) : Prop := mk_selection {
    sel_prefix : map fst sel = firstn (length sel) us;                       (* a prefix of the reported list, in order *)
    sel_mk : Forall (fun ut => mk (fst ut) = Ok (snd ut)) sel;
    sel_total : tot = acc + sumZ (map sats (map fst sel));                    (* exact input values *)
    sel_nonempty : us <> [] -> sel <> [];
    sel_stops : forall j, (0 < j < length sel)%nat -> acc + sumZ (map sats (firstn j us)) < target;
    sel_covered : target <= tot \/ map fst sel = us                          (* covered, or everything was taken *)
  }.

  Lemma select_spec : forall us target acc sel tot,
      (forall u, In u us -> sat_of u = Ok (sats u)) ->
      select sat_of mk us target acc = Ok (sel, tot) ->
      selection us target acc sel tot.
  Proof.
    induction us as [|u rest IH]; intros target acc sel tot Hex H.
    - cbn [select] in H. injection H as <- <-.
      constructor.
      + reflexivity.
      + constructor.
      + cbn. lia.
      + intros X; exfalso; apply X; reflexivity.
      + intros j [_ Hj]. cbn in Hj. lia.
      + right. reflexivity.
    - cbn [select] in H.
      rewrite (Hex u (or_introl eq_refl)) in H. cbn [bind] in H.
      destruct (mk u) as [t|e] eqn:Emk; cbn [bind] in H; [|discriminate].
      destruct (acc + sats u >=? target) eqn:Ecmp.
      + injection H as <- <-.
        constructor.
        * reflexivity.
        * constructor; [exact Emk | constructor].
        * cbn. lia.
        * intros _; discriminate.
        * intros j [Hj0 Hj]. cbn in Hj. lia.
        * left. apply Z.geb_le in Ecmp. lia.
      + destruct (select sat_of mk rest target (acc + sats u)) as [[sel' tot']|e] eqn:Erec; cbn [bind] in H; [|discriminate].
        injection H as <- <-.
        assert (Hrec : selection rest target (acc + sats u) sel' tot').
        { apply IH; auto. intros v Hv. apply Hex. right; exact Hv. }
        destruct Hrec as [P1 P2 P3 P4 P6 P7].
        assert (Ecmp' : acc + sats u < target).
        { rewrite Z.geb_leb in Ecmp. apply Z.leb_gt in Ecmp. lia. }
        constructor.
        * cbn [map fst length firstn]. f_equal. exact P1.
        * constructor; [exact Emk | exact P2].
        * cbn [map fst]. rewrite sumZ_cons. lia.
        * intros _; discriminate.
        * intros j [Hj0 Hj]. cbn [length] in Hj.
          destruct j as [|j]; [lia|]. cbn [firstn map]. rewrite sumZ_cons.
          destruct j as [|j].
          -- cbn [firstn map]. unfold sumZ. cbn [fold_right]. lia.
          -- specialize (P6 (S j)). rewrite Z.add_assoc. apply P6. lia.
        * destruct P7 as [P7|P7]; [left; exact P7 | right; cbn [map fst]; f_equal; exact P7].
  Qed.

  (* every selected pair carries the [mk] value of its utxo (no exactness needed) *)
  Lemma select_mk_ok : forall us target acc sel tot,
      select sat_of mk us target acc = Ok (sel, tot) -> Forall (fun ut => mk (fst ut) = Ok (snd ut)) sel.
  Proof.
    induction us as [|u rest IH]; intros target acc sel tot H.
    - cbn [select] in H. injection H as <- <-. constructor.
    - cbn [select] in H. apply bind_ok in H as (s & _ & H). apply bind_ok in H as (t & Emk & H).
      destruct (acc + s >=? target).
      + injection H as <- <-. constructor; [exact Emk | constructor].
      + apply bind_ok in H as ([sel' tot'] & Erec & H). cbn beta iota in H. injection H as <- <-.
        constructor; [exact Emk | eapply IH; exact Erec].
  Qed.

  (* every selected utxo is one of the reported ones *)
  Lemma select_subset : forall us target acc sel tot,
      select sat_of mk us target acc = Ok (sel, tot) -> forall ut, In ut sel -> In (fst ut) us.
  Proof.
    induction us as [|u rest IH]; intros target acc sel tot H ut Hin.
    - cbn [select] in H. injection H as <- <-. contradiction.
    - cbn [select] in H. apply bind_ok in H as (s & _ & H). apply bind_ok in H as (t & Emk & H).
      destruct (acc + s >=? target).
      + injection H as <- <-. destruct Hin as [<-|[]]. left; reflexivity.
      + apply bind_ok in H as ([sel' tot'] & Erec & H). cbn beta iota in H. injection H as <- <-.
        destruct Hin as [<-|Hin]; [left; reflexivity | right; eapply IH; eauto].
  Qed.

  (* the loop never fails for another reason than the conversion or [mk] *)
  Lemma select_total us target acc :
    (forall u, In u us -> exists s, sat_of u = Ok s) -> (forall u, In u us -> exists t, mk u = Ok t) ->
    exists sel tot, select sat_of mk us target acc = Ok (sel, tot).
  Proof.
    revert acc. induction us as [|u rest IH]; intros acc Hs Hm.
    - cbn. eauto.
    - cbn [select]. destruct (Hs u (or_introl eq_refl)) as [s ->]. destruct (Hm u (or_introl eq_refl)) as [t ->].
      cbn [bind]. destruct (acc + s >=? target); [eauto|].
      destruct (IH (acc + s)) as (sel & tot & ->); [intros; apply Hs; right; auto | intros; apply Hm; right; auto|].
      cbn [bind]. eauto.
  Qed.
End Loop.

(* ---- conservation (pure integer arithmetic on the output values) ---- *)
Lemma output_values_shape to_send fee total_sel :
  output_values to_send fee total_sel =
  if total_sel - to_send >=? 1000 then [to_send - fee; total_sel - to_send] else [to_send - fee].
Proof. unfold output_values, dust_limit. destruct (total_sel - to_send >=? 1000); reflexivity. Qed.

(* outputs + fee + sub-dust change = inputs, whenever the selection covers the request *)
Lemma conservation_values to_send fee total_sel :
  to_send <= total_sel ->
  let change := total_sel - to_send in
  sumZ (output_values to_send fee total_sel) + fee + (if change >=? dust_limit then 0 else change) = total_sel.
Proof.
  intros Hc change. unfold output_values, dust_limit. subst change.
  destruct (total_sel - to_send >=? 1000); unfold sumZ; cbn [fold_right app]; lia.
Qed.

(* without cover the transaction would create value: the hypothesis is necessary *)
Lemma conservation_needs_cover to_send fee total_sel :
  total_sel < to_send -> sumZ (output_values to_send fee total_sel) + fee > total_sel.
Proof.
  intros H. unfold output_values, dust_limit.
  destruct (total_sel - to_send >=? 1000) eqn:E; [apply Z.geb_le in E; lia|]. unfold sumZ; cbn [fold_right app]. lia.
Qed.
