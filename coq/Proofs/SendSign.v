(* C16, message layer: what send_tx hands to bits.sig, against the consensus signature hashes (Spec/Sighash.v legacy,
   Spec/Bip143.v segwit v0).
     * [segwit_messages_partial]: on the sub-domain  version = 1, locktime = 0, every reported unspent is an input and spends
       the output whose index equals its position (the only case the code gets right), the message for input j IS the BIP143
       pre-image of input j (through C11's bip143_exact);
     * [legacy_preimage_one_input]: for a one-input transaction and hash type ALL / ALL|ANYONECANPAY (and SINGLE /
       SINGLE|ANYONECANPAY when there is exactly one output) the legacy pre-image is the whole transaction followed by the
       hash type - which is what send_tx signs;
     * the ..._refuted theorems: the faithful model outside that sub-domain (kernel computation, witnesses). *)
From Coq Require Import ZArith List Lia Bool.
From Coq Require Import Floats.SpecFloat.
Require Import Bits.Lib.Result Bits.Lib.Bytes Bits.Lib.CompactSize.
Require Import Bits.Spec.Bip143 Bits.Spec.Sighash.
Require Import Bits.Model.SendValue Bits.Model.Send.
Require Bits.Model.Bip143 Bits.Proofs.Bip143 Bits.Proofs.Tx Bits.Model.Tx Bits.Proofs.SendValue Bits.Proofs.Send Bits.Proofs.CompactSize.
Import ListNotations.
Import Coq.Init.Byte.
Local Open Scope Z_scope.
Local Open Scope result_scope.

Module PB := Bits.Proofs.Bip143.
Module PT := Bits.Proofs.Tx.

Lemma Some_inj {A} (x y : A) : Some x = Some y -> x = y.
Proof. congruence. Qed.

(* ---------------------------------------------------------------- segwit kinds *)
Section Segwit.
  Variable sha256 : bytes -> bytes.
  Variable sats : utxo -> Z.

  (* what the code signs, exactly: for EVERY reported unspent x (selected or not) the BIP143 pre-image of input number
     x.vout (the output index of the utxo!) of the transaction with version 1 and locktime 0 *)
  Theorem segwit_message_actual (t : tx) script f : forall (unspents : list utxo) msgs,
    wf_tx t -> tx_version t = 1 -> tx_locktime t = 0 -> standard_flag f ->
    Z.of_nat (length script) < 2 ^ 64 ->
    (forall x, In x unspents ->
               0 <= u_vout x < Z.of_nat (length (tx_ins t)) /\
               sat_of_btc (u_amount x) = Ok (sats x) /\ 0 <= sats x < 2 ^ 64) ->
    segwit_msgs sha256 (map ser_txin (tx_ins t)) (map ser_txout (tx_outs t)) (ser_script script) (Some f) unspents
      = Ok msgs ->
    forall i x, nth_error unspents i = Some x ->
      exists m, nth_error msgs i = Some m /\ preimage sha256 t (Z.to_nat (u_vout x)) (sats x) script f = Some m.
  Proof.
    induction unspents as [|u rest IH]; intros msgs Hwf Hv Hl Hf Hs Hall H i x Hi.
    - destruct i; discriminate.
    - unfold segwit_msgs in H. apply PT.mapM_cons_inv in H as (m0 & ms & H0 & Hrest & ->).
      destruct i as [|i].
      + cbn [nth_error] in Hi. injection Hi as <-.
        destruct (Hall u (or_introl eq_refl)) as (Ev & Es & Rs).
        rewrite Es in H0. cbn [bind] in H0.
        destruct (PB.bip143_exact sha256 t (Z.to_nat (u_vout u)) (sats u) script f Hwf) as (pm & Pp & _ & _ & _ & _ & W);
          [lia | exact Rs | exact Hs | exact Hf |].
        rewrite Z2Nat.id in W by lia.
        rewrite Hv, Hl in W. rewrite W in H0. injection H0 as <-.
        exists pm. split; [reflexivity | exact Pp].
      + cbn [nth_error] in Hi |- *. apply (IH ms); auto. intros y Hy. apply Hall. right; exact Hy.
  Qed.

  (* message_is_sighash, segwit kinds, on the sub-domain where the code is right *)
  Theorem segwit_messages_partial (t : tx) script f (unspents : list utxo) msgs :
    wf_tx t -> tx_version t = 1 -> tx_locktime t = 0 -> standard_flag f ->
    Z.of_nat (length script) < 2 ^ 64 ->
    length unspents = length (tx_ins t) ->                              (* every reported unspent is an input *)
    (forall j x, nth_error unspents j = Some x ->
                 u_vout x = Z.of_nat j /\                               (* ... spending output index = its position *)
                 sat_of_btc (u_amount x) = Ok (sats x) /\ 0 <= sats x < 2 ^ 64) ->
    segwit_msgs sha256 (map ser_txin (tx_ins t)) (map ser_txout (tx_outs t)) (ser_script script) (Some f) unspents
      = Ok msgs ->
    forall j x, nth_error unspents j = Some x ->
      exists m, nth_error msgs j = Some m /\ preimage sha256 t j (sats x) script f = Some m.
  Proof.
    intros Hwf Hv Hl Hf Hs Hlen Hall H j x Hj.
    destruct (segwit_message_actual t script f unspents msgs Hwf Hv Hl Hf Hs) with (i := j) (x := x) as (m & Em & Pm); auto.
    - intros y Hy. apply In_nth_error in Hy as (q & Hq). destruct (Hall q y Hq) as (Ev & Es & Rs).
      split; [|split; assumption]. rewrite Ev.
      assert (q < length unspents)%nat by (apply nth_error_Some; congruence). lia.
    - exists m. split; [exact Em|]. destruct (Hall j x Hj) as (Ev & _). rewrite Ev, Nat2Z.id in Pm. exact Pm.
  Qed.

  (* ---- why the messages are wrong outside that sub-domain (for every transaction, not only for a witness) ---- *)
  Definition with_defaults (t : tx) : tx := mk_tx 1 (tx_ins t) (tx_outs t) 0.     (* what witness_message is told *)

  Lemma preimage_version_neq (t t' : tx) i i' amount amount' script script' f f' m m' :
    u32le (tx_version t) <> u32le (tx_version t') ->
    preimage sha256 t i amount script f = Some m -> preimage sha256 t' i' amount' script' f' = Some m' -> m <> m'.
  Proof.
    unfold preimage. intros Hv. destruct (nth_error (tx_ins t) i) as [inp|]; [|discriminate].
    destruct (nth_error (tx_ins t') i') as [inp'|]; [|discriminate].
    intros H H' E. apply Some_inj in H, H'. subst m m'.
    apply (f_equal (firstn 4)) in E. unfold u32le in *.
    rewrite !PB.firstn_app_len in E by apply to_le_length. contradiction.
  Qed.

  Lemma preimage_locktime_neq (t t' : tx) i amount script f m m' :
    tx_ins t = tx_ins t' -> tx_outs t = tx_outs t' -> tx_version t = tx_version t' ->
    u32le (tx_locktime t) <> u32le (tx_locktime t') ->
    preimage sha256 t i amount script f = Some m -> preimage sha256 t' i amount script f = Some m' -> m <> m'.
  Proof.
    unfold preimage, hash_prevouts, hash_sequence, hash_outputs. intros Ei Eo Ev Hl. rewrite <- Ei, <- Eo, <- Ev.
    destruct (nth_error (tx_ins t) i) as [inp|]; [|discriminate].
    intros H H' E. apply Some_inj in H, H'. subst m m'.
    do 8 apply app_inv_head in E. apply (f_equal (firstn 4)) in E. unfold u32le in *.
    rewrite !PB.firstn_app_len in E by apply to_le_length. contradiction.
  Qed.

  Lemma preimage_index_neq (t : tx) i j a b amount amount' script f m m' :
    nth_error (tx_ins t) i = Some a -> nth_error (tx_ins t) j = Some b ->
    length (ti_txid a) = 32%nat -> length (ti_txid b) = 32%nat -> ser_outpoint a <> ser_outpoint b ->
    preimage sha256 t i amount script f = Some m -> preimage sha256 t j amount' script f = Some m' -> m <> m'.
  Proof.
    unfold preimage. intros Ea Eb La Lb Hne. rewrite Ea, Eb.
    intros H H' E. apply Some_inj in H, H'. subst m m'.
    do 3 apply app_inv_head in E. apply (f_equal (firstn 36)) in E.
    rewrite !PB.firstn_app_len in E by (unfold ser_outpoint, u32le; rewrite app_length, to_le_length; lia).
    contradiction.
  Qed.
  (* ---- the three segwit findings, for EVERY transaction of the class (not only a witness) ---- *)
  Section Wrong.
    Variable t : tx.                         (* the transaction send_tx returns (its structured form) *)
    Variables (script : bytes) (f : Z) (unspents : list utxo) (msgs : list bytes).
    Hypothesis Hwf : wf_tx t.
    Hypothesis Hf : standard_flag f.
    Hypothesis Hs : Z.of_nat (length script) < 2 ^ 64.
    Hypothesis Hall : forall x, In x unspents ->
                                0 <= u_vout x < Z.of_nat (length (tx_ins t)) /\
                                sat_of_btc (u_amount x) = Ok (sats x) /\ 0 <= sats x < 2 ^ 64.
    (* witness_message is called without version / locktime: it is told [with_defaults t] *)
    Hypothesis Hmsgs :
      segwit_msgs sha256 (map ser_txin (tx_ins t)) (map ser_txout (tx_outs t)) (ser_script script) (Some f) unspents
      = Ok msgs.

    Lemma wf_with_defaults : wf_tx (with_defaults t).
    Proof. destruct Hwf as (_ & _ & Hi & Ho). unfold wf_tx, with_defaults. cbn. repeat split; auto; lia. Qed.

    Lemma actual_message i x m :
      nth_error unspents i = Some x -> nth_error msgs i = Some m ->
      preimage sha256 (with_defaults t) (Z.to_nat (u_vout x)) (sats x) script f = Some m.
    Proof.
      intros Hi Hm.
      destruct (segwit_message_actual (with_defaults t) script f unspents msgs wf_with_defaults eq_refl eq_refl Hf Hs Hall Hmsgs i x Hi)
        as (m1 & E1 & P1).
      rewrite Hm in E1. injection E1 as <-. exact P1.
    Qed.

    (* version <> 1: NO message is the consensus pre-image of ANY input *)
    Theorem segwit_version_wrong i x m :
      u32le (tx_version t) <> u32le 1 ->
      nth_error unspents i = Some x -> nth_error msgs i = Some m ->
      forall j amount pre, preimage sha256 t j amount script f = Some pre -> m <> pre.
    Proof.
      intros Hv Hi Hm j amount pre Hp. pose proof (actual_message i x m Hi Hm) as Ha.
      apply not_eq_sym. eapply preimage_version_neq; [|exact Hp|exact Ha]. exact Hv.
    Qed.

    (* locktime <> 0: the message built for x is not the pre-image of the input it was computed for *)
    Theorem segwit_locktime_wrong i x m :
      tx_version t = 1 -> u32le (tx_locktime t) <> u32le 0 ->
      nth_error unspents i = Some x -> nth_error msgs i = Some m ->
      forall pre, preimage sha256 t (Z.to_nat (u_vout x)) (sats x) script f = Some pre -> m <> pre.
    Proof.
      intros Hv Hl Hi Hm pre Hp. pose proof (actual_message i x m Hi Hm) as Ha.
      apply not_eq_sym. eapply preimage_locktime_neq; [| | | |exact Hp|exact Ha]; auto.
    Qed.

    (* output index <> position: the message placed at position i is the pre-image of ANOTHER input *)
    Theorem segwit_vout_index_wrong i x m a b :
      nth_error unspents i = Some x -> nth_error msgs i = Some m ->
      nth_error (tx_ins t) i = Some a -> nth_error (tx_ins t) (Z.to_nat (u_vout x)) = Some b ->
      ser_outpoint a <> ser_outpoint b ->                       (* distinct outpoints: in particular u_vout x <> i *)
      forall amount pre, preimage sha256 (with_defaults t) i amount script f = Some pre -> m <> pre.
    Proof.
      intros Hi Hm Ea Eb Hne amount pre Hp. pose proof (actual_message i x m Hi Hm) as Ha.
      destruct Hwf as (_ & _ & Hins & _). rewrite Forall_forall in Hins.
      eapply (preimage_index_neq (with_defaults t)); [exact Eb|exact Ea| | | |exact Ha|exact Hp].
      - apply Hins. eapply nth_error_In; exact Eb.
      - apply Hins. eapply nth_error_In; exact Ea.
      - intros E. apply Hne. symmetry. exact E.
    Qed.
  End Wrong.
End Segwit.

(* the p2wsh scriptCode `len(redeem_script).to_bytes(1, "big") + redeem_script` is the CompactSize-prefixed script exactly
   below 253 bytes *)
Lemma one_byte_scriptcode (redeem : bytes) :
  Z.of_nat (length redeem) < 253 ->
  to_be_chk 1 (Z.of_nat (length redeem)) = Ok (cs_enc (Z.of_nat (length redeem))).
Proof.
  intros H. unfold to_be_chk, cs_enc.
  assert (R : 0 <= Z.of_nat (length redeem) < 253) by lia. revert R.
  generalize (Z.of_nat (length redeem)) as z. intros z R.
  change (256 ^ Z.of_nat 1) with 256.
  destruct (Z.leb_spec 0 z); [|lia]. destruct (Z.ltb_spec z 256); [|lia]. cbn [andb].
  destruct (Z.ltb_spec z 253); [|lia]. reflexivity.
Qed.

(* ---------------------------------------------------------------- legacy kinds *)
Lemma legacy_preimage_one_input (v lt : Z) (i0 : tx_input) (outs : list tx_output) (ht : Z) :
  ht = 1 \/ ht = 0x81 \/ ((ht = 3 \/ ht = 0x83) /\ length outs = 1%nat) ->
  let t := mk_tx v [i0] outs lt in
  legacy_preimage t 0 (ti_script i0) ht = Some (ser_legacy t ++ u32le ht).
Proof.
  intros H t. destruct i0 as [txid vout sc sq]. subst t.
  destruct H as [->|[->|[[->| ->] Hl]]];
    try (destruct outs as [|o [|o' outs']]; try discriminate Hl); reflexivity.
Qed.


(* ---- the bytes of tx() in terms of the specification serialiser ---- *)
Module MT := Bits.Model.Tx.
Definition spec_in (i : MT.txin_t) : tx_input :=
  Bits.Spec.Bip143.mk_txin (MT.ti_txid i) (MT.ti_vout i) (MT.ti_script i) (of_le (MT.ti_seq i)).
Definition spec_out (o : MT.txout_t) : tx_output := Bits.Spec.Bip143.mk_txout (MT.to_value o) (MT.to_script o).

Lemma txin_bytes_spec i : length (MT.ti_seq i) = 4%nat -> PT.txin_bytes i = ser_txin (spec_in i).
Proof.
  intros L. unfold PT.txin_bytes, ser_txin, ser_outpoint, ser_script, spec_in, u32le.
  cbn [ti_txid ti_vout ti_script ti_seq].
  replace (to_le 4 (of_le (MT.ti_seq i))) with (MT.ti_seq i) by (rewrite <- L; symmetry; apply to_le_of_le).
  now rewrite <- !app_assoc.
Qed.

Lemma txout_bytes_spec o : PT.txout_bytes o = ser_txout (spec_out o).
Proof. reflexivity. Qed.

Lemma tx_bytes_spec v ins outs lt :
  Forall (fun i => length (MT.ti_seq i) = 4%nat) ins ->
  PT.tx_bytes false v (map PT.txin_bytes ins) (map PT.txout_bytes outs) [] lt =
  ser_legacy (mk_tx v (map spec_in ins) (map spec_out outs) lt).
Proof.
  intros H. unfold PT.tx_bytes, ser_legacy. cbn [tx_version tx_ins tx_outs tx_locktime app].
  rewrite !map_length, !map_map.
  rewrite (map_ext_in PT.txin_bytes (fun x => ser_txin (spec_in x))).
  2:{ intros x Hx. apply txin_bytes_spec. rewrite Forall_forall in H. now apply H. }
  reflexivity.
Qed.

Section Legacy.
  Variables p a n : Z.
  Variable G : Bits.Model.Ecmath.point.
  Variable sha256 ripemd160 : bytes -> bytes.
  Variable scriptpubkey : bytes -> result bytes.

  (* message_is_sighash, legacy kinds, on the sub-domain where the code is right: ONE selected input (any output index,
     any version / locktime) and a hash type whose pre-image is the unmodified transaction.  The message handed to
     bits.sig is tx_ (msg_preimage=False: sig appends the 4-byte hash type itself). *)
  Theorem legacy_message_partial sender recipient change k frac fee version locktime total unspents u x txi tx_ ht :
    build_unsigned p a n G sha256 ripemd160 scriptpubkey sender recipient change (Some k) frac fee total unspents = Ok u ->
    us_selected u = [(x, txi)] ->
    is_kind (ki_type k) [k_p2pk; k_p2pkh; k_multisig; k_p2sh] = true ->
    MT.tx_raw (map snd (us_selected u)) (us_txouts u) version locktime [] = Ok tx_ ->
    ht = 1 \/ ht = 0x81 \/ ((ht = 3 \/ ht = 0x83) /\ length (us_txouts u) = 1%nat) ->
    exists sc t,
      sc = (if is_kind (ki_type k) [k_p2pk; k_p2pkh; k_multisig] then u_spk x else ki_redeem k) /\
      tx_ins t = [Bits.Spec.Bip143.mk_txin (rev (u_txid x)) (u_vout x) sc 0xffffffff] /\
      tx_version t = version /\ tx_locktime t = locktime /\
      ser_legacy t = tx_ /\
      legacy_preimage t 0 sc ht = Some (tx_ ++ to_le 4 ht).
  Proof.
    intros Hb Hsel Hkind Hraw Hht.
    apply Bits.Proofs.Send.build_inv in Hb as (ta & rs & chs & _ & _ & Hselect & _ & _ & _ & Houts).
    apply Bits.Proofs.SendValue.select_mk_ok in Hselect. rewrite Hsel in Hselect.
    inversion Hselect as [|? ? Hmk _]; subst. cbn [fst snd] in Hmk.
    apply Bits.Proofs.Send.mk_txin_inv in Hmk as (ss & Hss & Rv & Rl & Etxi). cbn [fst snd] in *.
    (* the scriptSig the loop placed *)
    assert (Ess : ss = if is_kind (ki_type k) [k_p2pk; k_p2pkh; k_multisig] then u_spk x else ki_redeem k).
    { unfold loop_scriptsig in Hss.
      destruct (is_kind (ki_type k) [k_p2pk; k_p2pkh; k_multisig]) eqn:E1; [now injection Hss|].
      destruct (is_kind (ki_type k) [k_p2sh]) eqn:E2; [now injection Hss|].
      exfalso. unfold is_kind in *. cbn [existsb] in *.
      repeat match goal with H : _ || _ = false |- _ => apply orb_false_iff in H as [? ?] end.
      repeat match goal with H : bytes_eqb _ _ = false |- _ => rewrite H in Hkind end. discriminate. }
    rewrite Hsel in Hraw. cbn [map snd] in Hraw.
    apply PT.tx_raw_inv in Hraw as (_ & _ & _ & _ & ->).
    set (i0 := Bits.Proofs.Send.input_of x ss) in *.
    set (o1 := MT.mk_txout (us_to_send u - fee) rs) in *.
    set (o2 := MT.mk_txout (us_total u - us_to_send u) chs) in *.
    set (outs := if us_total u - us_to_send u >=? dust_limit then [o1; o2] else [o1]).
    assert (Eouts : us_txouts u = map PT.txout_bytes outs).
    { rewrite Houts. subst outs. destruct (us_total u - us_to_send u >=? dust_limit); reflexivity. }
    rewrite Etxi, Eouts.
    change [PT.txin_bytes i0] with (map PT.txin_bytes [i0]).
    rewrite tx_bytes_spec by (constructor; [reflexivity | constructor]).
    exists ss, (mk_tx version (map spec_in [i0]) (map spec_out outs) locktime).
    split; [exact Ess|]. split; [reflexivity|]. split; [reflexivity|]. split; [reflexivity|]. split; [reflexivity|].
    change (to_le 4 ht) with (u32le ht).
    change (map spec_in [i0]) with [spec_in i0].
    change ss with (ti_script (spec_in i0)) at 1.
    apply legacy_preimage_one_input.
    destruct Hht as [H|[H|[H Hl]]]; auto. right; right. split; [exact H|].
    rewrite Eouts, !map_length in Hl. rewrite map_length. exact Hl.
  Qed.
End Legacy.
