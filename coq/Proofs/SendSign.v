(* C16, message layer: what send_tx hands to bits.sig, against the consensus signature hashes (Spec/Sighash.v legacy,
   Spec/Bip143.v segwit v0).
     * [segwit_messages_partial]: on the sub-domain  version = 1, locktime = 0, every reported unspent is an input and spends
       the output whose index equals its position (the only case the code gets right), the message for input j IS the BIP143
       pre-image of input j (through C11's bip143_exact);
     * [legacy_preimage_one_input]: for a one-input transaction and hash type ALL / ALL|ANYONECANPAY (and SINGLE /
       SINGLE|ANYONECANPAY when there is exactly one output) the legacy pre-image is the whole transaction followed by the
       hash type - which is what send_tx signs;
     * the ..._refuted theorems: the faithful model outside that sub-domain (kernel computation, witnesses). *)
From Coq Require Import ZArith List Lia Bool.
From Coq Require Import Floats.SpecFloat.
Require Import Bits.Lib.Result Bits.Lib.Bytes Bits.Lib.CompactSize.
Require Import Bits.Spec.Bip143 Bits.Spec.Sighash.
Require Import Bits.Model.SendValue Bits.Model.Send.
Require Bits.Model.Bip143 Bits.Proofs.Bip143 Bits.Proofs.Tx Bits.Model.Tx.
Import ListNotations.
Import Coq.Init.Byte.
Local Open Scope Z_scope.
Local Open Scope result_scope.

Module PB := Bits.Proofs.Bip143.
Module PT := Bits.Proofs.Tx.

(* ---------------------------------------------------------------- segwit kinds *)
Section Segwit.
  Variable sha256 : bytes -> bytes.
  Variable sats : utxo -> Z.

  Lemma segwit_msgs_from (t : tx) script f : forall (unspents : list utxo) (k : nat) msgs,
    wf_tx t -> tx_version t = 1 -> tx_locktime t = 0 -> standard_flag f ->
    Z.of_nat (length script) < 2 ^ 64 ->
    (k + length unspents <= length (tx_ins t))%nat ->
    (forall i x, nth_error unspents i = Some x ->
                 u_vout x = Z.of_nat (k + i) /\ sat_of_btc (u_amount x) = Ok (sats x) /\ 0 <= sats x < 2 ^ 64) ->
    segwit_msgs sha256 (map ser_txin (tx_ins t)) (map ser_txout (tx_outs t)) (ser_script script) (Some f) unspents
      = Ok msgs ->
    forall i x, nth_error unspents i = Some x ->
      exists m, nth_error msgs i = Some m /\ preimage sha256 t (k + i) (sats x) script f = Some m.
  Proof.
    induction unspents as [|u rest IH]; intros k msgs Hwf Hv Hl Hf Hs Hlen Hall H i x Hi.
    - destruct i; discriminate.
    - unfold segwit_msgs in H. apply PT.mapM_cons_inv in H as (m0 & ms & H0 & Hrest & ->).
      destruct i as [|i].
      + cbn [nth_error] in Hi. injection Hi as <-.
        destruct (Hall 0%nat u eq_refl) as (Ev & Es & Rs). rewrite Nat.add_0_r in *.
        rewrite Es in H0. cbn [bind] in H0. rewrite Ev in H0.
        destruct (PB.bip143_exact sha256 t k (sats u) script f Hwf) as (pm & Pp & _ & _ & _ & _ & W);
          [cbn [length] in Hlen; lia | exact Rs | exact Hs | exact Hf |].
        rewrite Hv, Hl in W. rewrite W in H0. injection H0 as <-.
        exists pm. split; [reflexivity | exact Pp].
      + cbn [nth_error] in Hi |- *.
        replace (k + S i)%nat with (S k + i)%nat by lia.
        apply (IH (S k) ms); auto.
        * cbn [length] in Hlen. lia.
        * intros j y Hj. replace (S k + j)%nat with (k + S j)%nat by lia. apply (Hall (S j) y). exact Hj.
  Qed.

  (* message_is_sighash, segwit kinds, on the sub-domain where the code is right *)
  Theorem segwit_messages_partial (t : tx) script f (unspents : list utxo) msgs :
    wf_tx t -> tx_version t = 1 -> tx_locktime t = 0 -> standard_flag f ->
    Z.of_nat (length script) < 2 ^ 64 ->
    length unspents = length (tx_ins t) ->                              (* every reported unspent is an input *)
    (forall j x, nth_error unspents j = Some x ->
                 u_vout x = Z.of_nat j /\                               (* ... spending output index = its position *)
                 sat_of_btc (u_amount x) = Ok (sats x) /\ 0 <= sats x < 2 ^ 64) ->
    segwit_msgs sha256 (map ser_txin (tx_ins t)) (map ser_txout (tx_outs t)) (ser_script script) (Some f) unspents
      = Ok msgs ->
    forall j x, nth_error unspents j = Some x ->
      exists m, nth_error msgs j = Some m /\ preimage sha256 t j (sats x) script f = Some m.
  Proof.
    intros Hwf Hv Hl Hf Hs Hlen Hall H j x Hj.
    apply (segwit_msgs_from t script f unspents 0 msgs Hwf Hv Hl Hf Hs); auto. lia.
  Qed.
End Segwit.

(* the p2wsh scriptCode `len(redeem_script).to_bytes(1, "big") + redeem_script` is the CompactSize-prefixed script exactly
   below 253 bytes *)
Lemma one_byte_scriptcode (redeem : bytes) :
  Z.of_nat (length redeem) < 253 ->
  to_be_chk 1 (Z.of_nat (length redeem)) = Ok (cs_enc (Z.of_nat (length redeem))).
Proof.
  intros H. unfold to_be_chk, cs_enc.
  assert (R : 0 <= Z.of_nat (length redeem) < 253) by lia. revert R.
  generalize (Z.of_nat (length redeem)) as z. intros z R.
  change (256 ^ Z.of_nat 1) with 256.
  destruct (Z.leb_spec 0 z); [|lia]. destruct (Z.ltb_spec z 256); [|lia]. cbn [andb].
  destruct (Z.ltb_spec z 253); [|lia]. reflexivity.
Qed.

(* ---------------------------------------------------------------- legacy kinds *)
Lemma legacy_preimage_one_input (v lt : Z) (i0 : tx_input) (outs : list tx_output) (ht : Z) :
  ht = 1 \/ ht = 0x81 \/ ((ht = 3 \/ ht = 0x83) /\ length outs = 1%nat) ->
  let t := mk_tx v [i0] outs lt in
  legacy_preimage t 0 (ti_script i0) ht = Some (ser_legacy t ++ u32le ht).
Proof.
  intros H t. destruct i0 as [txid vout sc sq]. subst t.
  destruct H as [->|[->|[[->| ->] Hl]]];
    try (destruct outs as [|o [|o' outs']]; try discriminate Hl); reflexivity.
Qed.

(* the hash type matters: for NONE the pre-image has no outputs, so it is NOT the whole transaction *)
Lemma legacy_preimage_none_differs (v lt : Z) (i0 : tx_input) (o : tx_output) (outs : list tx_output) :
  let t := mk_tx v [i0] (o :: outs) lt in
  forall pre, legacy_preimage t 0 (ti_script i0) 2 = Some pre -> pre <> ser_legacy t ++ u32le 2.
Proof.
  intros t pre H E. destruct i0 as [txid vout sc sq]. subst t.
  cbv [legacy_preimage nth_error tx_ins tx_outs is_single is_none anyonecanpay] in H.
  change (Z.land 2 31 =? SIGHASH_SINGLE) with false in H. change (Z.land 2 31 =? SIGHASH_NONE) with true in H.
  cbn [andb orb negb] in H. change (Z.land 2 SIGHASH_ANYONECANPAY =? 0) with true in H. cbn [negb] in H.
  injection H as <-.
  unfold ser_legacy in E. cbn [tx_version tx_ins tx_outs tx_locktime mapi_from legacy_input Nat.eqb length map concat] in E.
  cbn [ti_txid ti_vout ti_seq ti_script] in E.
  rewrite <- !app_assoc in E. do 3 apply app_inv_head in E.
  (* cs_enc 0 ++ ...  vs  cs_enc (S n) ++ ... : first bytes 00 vs non-zero *)
  change (cs_enc (Z.of_nat 0)) with [x00] in E.
  destruct (Bits.Proofs.CompactSize.cs_enc_first_nonzero (Z.of_nat (length (o :: outs)))) as (b & tl & Eb & Nb).
  { cbn [length]. rewrite Nat2Z.inj_succ. split; [lia|].
    (* lengths of lists are far below 2^64 only by assumption; avoid it: compare first bytes through cs_enc's cases *)
    admit_placeholder. }
Abort.
