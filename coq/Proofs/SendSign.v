(* C16, message layer of the REPAIRED send_tx: what is handed to bits.sig for every selected input IS the consensus
   signature-hash pre-image of that input (Spec/Bip143.v for the segwit kinds, Spec/Sighash.v for the legacy kinds):
     * [segwit_messages]: every selected input j, any number of inputs, any output indices, any version / locktime, all six
       flags: message j = Bip143.preimage t j (amount of input j) scriptCode flag          (through C11's bip143_exact);
     * [legacy_sig_message_spec] / [legacy_messages]: tx.legacy_sig_message(txins, j, scriptcode, txouts, version, locktime,
       flag) ++ flag(4 bytes, appended by utils.sig) = Sighash.legacy_preimage t j scriptcode flag for every flag and any
       number of inputs; in the SIGHASH_SINGLE input-without-output case (consensus digest = 1, not a hash of any message)
       the function refuses with ValueError - and in no other case. *)
From Coq Require Import ZArith List Lia Bool.
From Coq Require Import Floats.SpecFloat.
Require Import Bits.Lib.Result Bits.Lib.Bytes Bits.Lib.PyStr Bits.Lib.CompactSize.
Require Import Bits.Spec.Bip143 Bits.Spec.Sighash.
Require Import Bits.Model.SendValue Bits.Model.Send.
Require Bits.Model.Bip143 Bits.Proofs.Bip143 Bits.Proofs.Tx Bits.Model.Tx Bits.Proofs.SendValue Bits.Proofs.Send
        Bits.Proofs.CompactSize Bits.Model.CompactSize.
Import ListNotations.
Import Coq.Init.Byte.
Local Open Scope Z_scope.
Local Open Scope result_scope.

Module PB := Bits.Proofs.Bip143.
Module PT := Bits.Proofs.Tx.
Module MT := Bits.Model.Tx.

Lemma Some_inj {A} (x y : A) : Some x = Some y -> x = y.
Proof. congruence. Qed.

(* ---------------------------------------------------------------- segwit kinds *)
Section Segwit.
  Variable sha256 : bytes -> bytes.
  Variable sats : utxo -> Z.

  (* message_is_sighash, segwit kinds: full domain *)
  Theorem segwit_messages (t : tx) script f : forall (selected : list utxo) (k : nat) msgs,
    wf_tx t -> standard_flag f ->
    Z.of_nat (length script) < 2 ^ 64 ->
    (k + length selected <= length (tx_ins t))%nat ->
    (forall x, In x selected -> sat_of_btc (u_amount x) = Ok (sats x) /\ 0 <= sats x < 2 ^ 64) ->
    segwit_msgs sha256 (map ser_txin (tx_ins t)) (map ser_txout (tx_outs t)) (ser_script script)
                (tx_version t) (tx_locktime t) (Some f) (Z.of_nat k) selected = Ok msgs ->
    forall i x, nth_error selected i = Some x ->
      exists m, nth_error msgs i = Some m /\ preimage sha256 t (k + i) (sats x) script f = Some m.
  Proof.
    induction selected as [|u rest IH]; intros k msgs Hwf Hf Hs Hlen Hall H i x Hi.
    - destruct i; discriminate.
    - cbn [segwit_msgs] in H.
      apply bind_ok in H as (amt & Ha & H). apply bind_ok in H as (m0 & H0 & H).
      apply bind_ok in H as (ms & Hrest & H). injection H as <-.
      destruct (Hall u (or_introl eq_refl)) as (Es & Rs). rewrite Es in Ha. injection Ha as <-.
      destruct i as [|i].
      + cbn [nth_error] in Hi. injection Hi as <-. rewrite Nat.add_0_r.
        destruct (PB.bip143_exact sha256 t k (sats u) script f Hwf) as (pm & Pp & _ & _ & _ & _ & W);
          [cbn [length] in Hlen; lia | exact Rs | exact Hs | exact Hf |].
        rewrite W in H0. injection H0 as <-. exists pm. split; [reflexivity | exact Pp].
      + cbn [nth_error] in Hi |- *.
        replace (k + S i)%nat with (S k + i)%nat by lia.
        replace (Z.of_nat k + 1) with (Z.of_nat (S k)) in Hrest by lia.
        apply (IH (S k) ms); auto.
        * cbn [length] in Hlen. lia.
        * intros y Hy. apply Hall. right; exact Hy.
  Qed.
End Segwit.

(* the scriptCode of the p2wsh kinds is the CompactSize-prefixed witness script, for every length *)
Lemma scriptcode_wsh p a n G sha256 ripemd160 (k : keyinfo) :
  is_kind (ki_type k) [k_p2wpkh; k_p2sh_p2wpkh] = false ->
  Z.of_nat (length (ki_redeem k)) < 2 ^ 64 ->
  scriptcode_of p a n G sha256 ripemd160 k = Ok (ser_script (ki_redeem k)).
Proof.
  intros Hk Hl. unfold scriptcode_of. rewrite Hk. unfold lenZ.
  rewrite Bits.Proofs.CompactSize.compact_size_uint_spec by lia. reflexivity.
Qed.

(* ---------------------------------------------------------------- legacy kinds *)
Lemma txin_spec op sc sq : Z.of_nat (length sc) < 2 ^ 64 -> MT.txin op sc sq = Ok (op ++ ser_script sc ++ sq).
Proof.
  intros H. unfold MT.txin. rewrite Bits.Proofs.CompactSize.compact_size_uint_spec by lia. cbn [bind].
  unfold ser_script. now rewrite <- !app_assoc.
Qed.

Lemma nth_error_mapi_from {A B} (f : nat -> A -> B) : forall l k i,
  nth_error (mapi_from f k l) i = option_map (f (k + i)%nat) (nth_error l i).
Proof.
  induction l as [|x l IH]; intros k i; destruct i; cbn [mapi_from nth_error option_map]; auto.
  - now rewrite Nat.add_0_r.
  - rewrite IH. now replace (S k + i)%nat with (k + S i)%nat by lia.
Qed.

Lemma mapi_from_length {A B} (f : nat -> A -> B) : forall l k, length (mapi_from f k l) = length l.
Proof. induction l as [|x l IH]; intros k; cbn [mapi_from length]; auto. Qed.

Lemma firstn1_skipn {A} (l : list A) i x : nth_error l i = Some x -> firstn 1 (skipn i l) = [x].
Proof.
  revert i. induction l as [|y l IH]; intros i H; destruct i; try discriminate.
  - injection H as <-. reflexivity.
  - cbn [skipn nth_error] in *. now apply IH.
Qed.

Lemma legacy_ins_spec zs idx sc : forall ins k,
  Forall wf_txin ins -> Z.of_nat (length sc) < 2 ^ 64 ->
  legacy_ins zs (Z.of_nat idx) sc (Z.of_nat k) (map ser_txin ins)
  = Ok (map ser_txin (mapi_from (legacy_input zs idx sc) k ins)).
Proof.
  induction ins as [|i ins IH]; intros k Hwf Hs; [reflexivity|].
  inversion Hwf as [|? ? Hi Hrest]; subst. destruct Hi as (Lt & Rv & Rq & Rl).
  cbn [map legacy_ins mapi_from].
  rewrite (PB.outpoint_slice i Lt), (PB.sequence_slice i).
  replace (Z.of_nat k + 1) with (Z.of_nat (S k)) by lia. rewrite (IH (S k) Hrest Hs).
  destruct (Nat.eqb_spec k idx) as [E|E].
  - subst k. rewrite Z.eqb_refl. rewrite (txin_spec _ _ _ Hs). cbn [bind].
    assert (EL : legacy_input zs idx sc idx i = Bits.Spec.Bip143.mk_txin (ti_txid i) (ti_vout i) sc (ti_seq i)).
    { unfold legacy_input. now rewrite Nat.eqb_refl. }
    rewrite EL. reflexivity.
  - destruct (Z.eqb_spec (Z.of_nat k) (Z.of_nat idx)) as [E'|_]; [lia|].
    rewrite txin_spec by (cbn; lia). cbn [bind].
    assert (EL : legacy_input zs idx sc k i = Bits.Spec.Bip143.mk_txin (ti_txid i) (ti_vout i) [] (if zs then 0 else ti_seq i)).
    { unfold legacy_input. apply Nat.eqb_neq in E. now rewrite E. }
    rewrite EL. unfold ser_txin, ser_outpoint. cbn [ti_txid ti_vout ti_script ti_seq].
    destruct zs; reflexivity.
Qed.

Lemma map_repeat' {A B} (f : A -> B) x n : map f (repeat x n) = repeat (f x) n.
Proof. induction n; cbn [repeat map]; congruence. Qed.

Lemma blank_txout_spec : MT.txout 0xFFFFFFFFFFFFFFFF [] = Ok (ser_txout minus_one_out).
Proof. reflexivity. Qed.

Lemma tx_bytes_ser_legacy v (ins : list tx_input) (outs : list tx_output) lt :
  PT.tx_bytes false v (map ser_txin ins) (map ser_txout outs) [] lt = ser_legacy (mk_tx v ins outs lt).
Proof.
  unfold PT.tx_bytes, ser_legacy, u32le. cbn [tx_version tx_ins tx_outs tx_locktime app].
  now rewrite !map_length.
Qed.

Section LegacyMessage.
  Variable t : tx.
  Hypothesis Hwf : wf_tx t.
  Hypothesis Hnin : Z.of_nat (length (tx_ins t)) < 2 ^ 64.
  Hypothesis Hnout : Z.of_nat (length (tx_outs t)) < 2 ^ 64.

  Notation msg_of idx sc f :=
    (legacy_sig_message (map ser_txin (tx_ins t)) (Z.of_nat idx) sc (map ser_txout (tx_outs t))
                        (tx_version t) (tx_locktime t) f).

  Lemma quirk_test (idx : nat) f :
    ((Z.land f 31 =? 3) && (lenZ (map ser_txout (tx_outs t)) <=? Z.of_nat idx))
    = (is_single f && (length (tx_outs t) <=? idx)%nat).
  Proof.
    unfold is_single, SIGHASH_SINGLE, lenZ. rewrite map_length. f_equal.
    destruct (Nat.leb_spec (length (tx_outs t)) idx); [apply Z.leb_le | apply Z.leb_gt]; lia.
  Qed.

  (* the pre-image exists, and it is the message followed by the 4-byte hash type (which utils.sig appends) *)
  Theorem legacy_sig_message_spec (idx : nat) (sc : bytes) (f : Z) :
    (idx < length (tx_ins t))%nat -> Z.of_nat (length sc) < 2 ^ 64 ->
    (is_single f && (length (tx_outs t) <=? idx)%nat) = false ->
    exists m, msg_of idx sc f = Ok m /\ legacy_preimage t idx sc f = Some (m ++ u32le f).
  Proof.
    intros Hidx Hs Hq. destruct Hwf as (Rv & Rl & Hins & Houts).
    destruct (nth_error (tx_ins t) idx) as [inp|] eqn:Einp; [|apply nth_error_None in Einp; lia].
    unfold legacy_sig_message, legacy_preimage. rewrite Einp, Hq.
    (* index in range *)
    assert (Hr : ((0 <=? Z.of_nat idx) && (Z.of_nat idx <? lenZ (map ser_txin (tx_ins t)))) = true).
    { unfold lenZ. rewrite map_length. apply andb_true_intro. split; [apply Z.leb_le | apply Z.ltb_lt]; lia. }
    rewrite Hr. cbn [negb].
    rewrite quirk_test, Hq.
    (* the inputs *)
    change ((Z.land f 31 =? 2) || (Z.land f 31 =? 3)) with (is_none f || is_single f).
    change 0 with (Z.of_nat 0) at 1.
    rewrite (legacy_ins_spec (is_none f || is_single f) idx sc (tx_ins t) 0 Hins Hs). cbn [bind].
    set (ins' := mapi_from (legacy_input (is_none f || is_single f) idx sc) 0 (tx_ins t)).
    assert (Einp' : nth_error ins' idx = Some (legacy_input false idx sc idx inp)).
    { subst ins'. rewrite nth_error_mapi_from, Einp. cbn [option_map Nat.add]. f_equal.
      unfold legacy_input. now rewrite Nat.eqb_refl. }
    unfold anyonecanpay, SIGHASH_ANYONECANPAY.
    (* the outputs *)
    assert (Eouts : exists outs2,
               (if Z.land f 31 =? 2 then Ok []
                else if Z.land f 31 =? 3 then
                       blank <- MT.txout 18446744073709551615 [] ;;
                       o <- Bits.Model.Bip143.py_index (map ser_txout (tx_outs t)) (Z.of_nat idx) ;;
                       Ok (repeat blank (Z.to_nat (Z.of_nat idx)) ++ [o])
                     else Ok (map ser_txout (tx_outs t))) = Ok (map ser_txout outs2) /\
               outs2 = (if is_none f then []
                        else if is_single f then repeat minus_one_out idx ++ firstn 1 (skipn idx (tx_outs t))
                             else tx_outs t) /\
               Z.of_nat (length outs2) < 2 ^ 64).
    { unfold is_none, is_single, SIGHASH_NONE, SIGHASH_SINGLE in *.
      destruct (Z.land f 31 =? 2) eqn:E2; [exists []; repeat split; cbn; lia|].
      destruct (Z.land f 31 =? 3) eqn:E3.
      - cbn [andb] in Hq. apply Nat.leb_gt in Hq.
        destruct (nth_error (tx_outs t) idx) as [o|] eqn:Eo; [|apply nth_error_None in Eo; lia].
        exists (repeat minus_one_out idx ++ [o]). rewrite (firstn1_skipn _ _ _ Eo). split; [|split; [reflexivity|]].
        + rewrite blank_txout_spec. cbn [bind]. rewrite (PB.py_index_map_nat ser_txout _ _ _ Eo). cbn [bind].
          rewrite Nat2Z.id, map_app, map_repeat'. reflexivity.
        + rewrite app_length, repeat_length. cbn [length]. lia.
      - exists (tx_outs t). repeat split; auto. }
    destruct Eouts as (outs2 & Eo1 & Eo2 & Lo).
    destruct (Z.land f 128 =? 0) eqn:Eacp; cbn [negb bind].
    - rewrite Eo1. cbn [bind]. rewrite <- Eo2.
      rewrite PT.tx_raw_ok; try lia.
      2:{ rewrite map_length. subst ins'. rewrite mapi_from_length. exact Hnin. }
      2:{ rewrite map_length. exact Lo. }
      eexists. split; [reflexivity|]. rewrite tx_bytes_ser_legacy. reflexivity.
    - rewrite (PB.py_index_map_nat ser_txin _ _ _ Einp'). cbn [bind]. rewrite Eo1. cbn [bind]. rewrite <- Eo2.
      change [ser_txin (legacy_input false idx sc idx inp)] with (map ser_txin [legacy_input false idx sc idx inp]).
      rewrite PT.tx_raw_ok; try lia.
      2:{ cbn. lia. }
      2:{ rewrite map_length. exact Lo. }
      eexists. split; [reflexivity|]. rewrite tx_bytes_ser_legacy. reflexivity.
  Qed.

  (* the SIGHASH_SINGLE input-without-output case: refused, exactly where the consensus digest is the constant 1 *)
  Theorem legacy_sig_message_single_quirk (idx : nat) (sc : bytes) (f : Z) (sha256 : bytes -> bytes) :
    (idx < length (tx_ins t))%nat ->
    (is_single f && (length (tx_outs t) <=? idx)%nat) = true ->
    msg_of idx sc f = Err ValueE /\ legacy_sighash sha256 t idx sc f = Some uint256_one.
  Proof.
    intros Hidx Hq. split.
    - unfold legacy_sig_message.
      assert (Hr : ((0 <=? Z.of_nat idx) && (Z.of_nat idx <? lenZ (map ser_txin (tx_ins t)))) = true).
      { unfold lenZ. rewrite map_length. apply andb_true_intro. split; [apply Z.leb_le | apply Z.ltb_lt]; lia. }
      rewrite Hr. cbn [negb]. rewrite quirk_test, Hq. reflexivity.
    - unfold legacy_sighash.
      destruct (nth_error (tx_ins t) idx) eqn:E; [|apply nth_error_None in E; lia]. now rewrite Hq.
  Qed.

  (* ---- the list comprehension of send_tx: every input signs its own message, scriptcode = the scriptSig it carries ---- *)
  Lemma txin_deser_ser (i : tx_input) :
    wf_txin i -> exists d, MT.txin_deser (ser_txin i) = Ok (d, []) /\ MT.ti_script d = ti_script i.
  Proof.
    intros (Lt & Rv & Rq & Rl).
    set (mi := MT.mk_txin (ti_txid i) (ti_vout i) (ti_script i) (u32le (ti_seq i))).
    assert (E : ser_txin i = PT.txin_bytes mi).
    { unfold ser_txin, ser_outpoint, ser_script, PT.txin_bytes, mi, u32le. cbn. now rewrite <- !app_assoc. }
    assert (W : MT.wf_txin mi).
    { unfold MT.wf_txin, mi. cbn [MT.ti_txid MT.ti_vout MT.ti_script MT.ti_seq]. unfold u32le. rewrite to_le_length.
      repeat split; auto; lia. }
    exists mi. split; [|reflexivity].
    rewrite E, <- (app_nil_r (PT.txin_bytes mi)). apply PT.txin_roundtrip; [exact W | apply PT.txin_ser_ok; exact W].
  Qed.

  Theorem legacy_messages (f : Z) : forall (rest : list tx_input) (k : nat) msgs,
    (forall j i, nth_error rest j = Some i -> nth_error (tx_ins t) (k + j) = Some i) ->
    legacy_msgs (map ser_txin (tx_ins t)) (map ser_txout (tx_outs t)) (tx_version t) (tx_locktime t) f
                (Z.of_nat k) (map ser_txin rest) = Ok msgs ->
    forall j i, nth_error rest j = Some i ->
      (is_single f && (length (tx_outs t) <=? k + j)%nat) = false /\          (* never the digest-1 case: that is refused *)
      exists m, nth_error msgs j = Some m /\ legacy_preimage t (k + j) (ti_script i) f = Some (m ++ u32le f).
  Proof.
    induction rest as [|i0 rest IH]; intros k msgs Hsub H j i Hj.
    - destruct j; discriminate.
    - cbn [map legacy_msgs] in H.
      assert (Hin0 : nth_error (tx_ins t) (k + 0) = Some i0) by (apply Hsub; reflexivity).
      rewrite Nat.add_0_r in Hin0.
      assert (Hw0 : wf_txin i0).
      { destruct Hwf as (_ & _ & Hins & _). rewrite Forall_forall in Hins. apply Hins. eapply nth_error_In; eauto. }
      destruct (txin_deser_ser i0 Hw0) as (d & Ed & Esc). rewrite Ed in H. cbn [bind] in H. cbn beta iota in H.
      apply bind_ok in H as (m0 & H0 & H). apply bind_ok in H as (ms & Hrest & H). injection H as <-.
      destruct j as [|j].
      + cbn [nth_error] in Hj. injection Hj as <-. rewrite Nat.add_0_r.
        assert (Hk : (k < length (tx_ins t))%nat) by (apply nth_error_Some; congruence).
        rewrite Esc in H0.
        destruct (is_single f && (length (tx_outs t) <=? k)%nat) eqn:Q.
        { destruct (legacy_sig_message_single_quirk k (ti_script i0) f (fun x => x) Hk Q) as (E & _). congruence. }
        split; [reflexivity|].
        destruct (legacy_sig_message_spec k (ti_script i0) f Hk) as (m & Em & Pm); [apply Hw0 | exact Q |].
        rewrite Em in H0. injection H0 as <-. exists m. split; [reflexivity|exact Pm].
      + cbn [nth_error] in Hj |- *. replace (k + S j)%nat with (S k + j)%nat by lia.
        replace (Z.of_nat k + 1) with (Z.of_nat (S k)) in Hrest by lia.
        apply (IH (S k) ms); auto.
        intros j' i' Hj'. replace (S k + j')%nat with (k + S j')%nat by lia. apply Hsub. exact Hj'.
  Qed.
End LegacyMessage.

(* ---------------------------------------------------------------- from build_unsigned to the structured transaction *)
Definition spec_in (i : MT.txin_t) : tx_input :=
  Bits.Spec.Bip143.mk_txin (MT.ti_txid i) (MT.ti_vout i) (MT.ti_script i) (of_le (MT.ti_seq i)).
Definition spec_out (o : MT.txout_t) : tx_output := Bits.Spec.Bip143.mk_txout (MT.to_value o) (MT.to_script o).

Lemma txin_bytes_spec i : length (MT.ti_seq i) = 4%nat -> PT.txin_bytes i = ser_txin (spec_in i).
Proof.
  intros L. unfold PT.txin_bytes, ser_txin, ser_outpoint, ser_script, spec_in, u32le.
  cbn [ti_txid ti_vout ti_script ti_seq].
  replace (to_le 4 (of_le (MT.ti_seq i))) with (MT.ti_seq i) by (rewrite <- L; symmetry; apply to_le_of_le).
  now rewrite <- !app_assoc.
Qed.

Lemma txout_bytes_spec o : PT.txout_bytes o = ser_txout (spec_out o).
Proof. reflexivity. Qed.

Section Structured.
  Variables p a n : Z.
  Variable G : Bits.Model.Ecmath.point.
  Variable sha256 ripemd160 : bytes -> bytes.
  Variable scriptpubkey : bytes -> result bytes.
  Variable is_address : bytes -> bool.

  (* the structured input send_tx builds for the reported output x *)
  Definition selected_input (ki : option keyinfo) (xt : utxo * bytes) (i : tx_input) : Prop :=
    exists ss, loop_scriptsig p a n G sha256 ripemd160 ki (fst xt) = Ok ss /\
               i = Bits.Spec.Bip143.mk_txin (rev (u_txid (fst xt))) (u_vout (fst xt)) ss 0xffffffff /\
               snd xt = ser_txin i /\ wf_txin i.

  Lemma selected_inputs_exist ki (sel : list (utxo * bytes)) :
    Forall (fun xt => length (u_txid (fst xt)) = 32%nat /\ Bits.Proofs.Send.reported_input p a n G sha256 ripemd160 ki xt) sel ->
    exists ins, Forall2 (selected_input ki) sel ins.
  Proof.
    induction 1 as [|[x txi] sel (L & ss & Hss & Rv & Rl & E) _ (ins & IH)]; [exists []; constructor|].
    cbn [fst snd] in *.
    exists (Bits.Spec.Bip143.mk_txin (rev (u_txid x)) (u_vout x) ss 0xffffffff :: ins). constructor; [|exact IH].
    exists ss. cbn [fst snd]. split; [exact Hss|]. split; [reflexivity|]. split.
    - rewrite E. rewrite txin_bytes_spec by reflexivity. reflexivity.
    - unfold wf_txin. cbn. rewrite rev_length. repeat split; auto; lia.
  Qed.

  Theorem unsigned_structured sender recipient change ki frac fee total unspents u version locktime :
    build_unsigned p a n G sha256 ripemd160 scriptpubkey is_address sender recipient change ki frac fee total unspents = Ok u ->
    (forall x, In x unspents -> length (u_txid x) = 32%nat) ->
    0 <= version < 2 ^ 32 -> 0 <= locktime < 2 ^ 32 ->
    exists t,
      wf_tx t /\ tx_version t = version /\ tx_locktime t = locktime /\
      map snd (us_selected u) = map ser_txin (tx_ins t) /\
      us_txouts u = map ser_txout (tx_outs t) /\
      Forall2 (selected_input ki) (us_selected u) (tx_ins t) /\
      length (tx_outs t) = length (us_txouts u).
  Proof.
    intros Hb Hid Rv Rl.
    pose proof (Bits.Proofs.Send.build_selected _ _ _ _ _ _ _ _ _ _ _ _ _ _ _ _ _ Hb) as Hsel.
    destruct (Bits.Proofs.Send.build_outs _ _ _ _ _ _ _ _ _ _ _ _ _ _ _ _ _ Hb) as (outs & Eouts & Wouts & _).
    destruct (selected_inputs_exist ki (us_selected u)) as (ins & Hins).
    { eapply Forall_impl; [|exact Hsel]. intros xt (Hin & Hr). split; [apply Hid; exact Hin | exact Hr]. }
    exists (mk_tx version ins (map spec_out outs) locktime).
    assert (Eins : map snd (us_selected u) = map ser_txin ins).
    { clear -Hins. induction Hins as [|xt i sel ins' (ss & _ & _ & E & _) _ IH]; [reflexivity|]. cbn [map]. now rewrite E, IH. }
    assert (Wins : Forall wf_txin ins).
    { clear -Hins. induction Hins as [|xt i sel ins' (ss & _ & _ & _ & W) _ IH]; constructor; auto. }
    assert (Wo : Forall wf_txout (map spec_out outs)).
    { rewrite Forall_forall in Wouts |- *. intros o Ho. apply in_map_iff in Ho as (mo & <- & Hmo).
      apply Wouts in Hmo. exact Hmo. }
    split; [unfold wf_tx; cbn [tx_version tx_locktime tx_ins tx_outs]; auto|].
    cbn [tx_version tx_locktime tx_ins tx_outs].
    split; [reflexivity|]. split; [reflexivity|]. split; [exact Eins|]. split; [|split; [exact Hins|]].
    - rewrite Eouts, map_map. apply map_ext. intros o. apply txout_bytes_spec.
    - rewrite Eouts, !map_length. reflexivity.
  Qed.
End Structured.
