(* C16, send_valid in the template form, part 3: the assembly layer of send_tx.
     script([d.hex() ...])                = the minimal pushes of the items          (inversion: every item is < 2^32 bytes)
     script(["OP_0"] + ...)               = the byte 00 (the empty item) in front
     script(args, witness=True)           = the BIP144 serialisation of the stack ("OP_0" is the empty item)
     [f(i) for i in range(len(txins))]    for_inputs
     decode_script(redeem)[-1]            multisig_dummy on the standard multisig / pubkey scripts
     the scriptSig set by the selection loop for the P2SH-wrapped segwit kinds, the P2WPKH scriptCode *)
From Coq Require Import ZArith List Lia Bool.
Require Import Bits.Lib.Result Bits.Lib.Bytes Bits.Lib.PyStr Bits.Lib.CompactSize.
Require Import Bits.Spec.Script Bits.Spec.ScriptTemplates Bits.Spec.Bip143 Bits.Spec.Sighash Bits.Spec.ScriptTemplatesDecode.
Require Import Bits.Model.Script Bits.Model.Send.
Require Import Bits.Proofs.ScriptTable Bits.Proofs.Script Bits.Proofs.ScriptBuilders Bits.Proofs.ScriptWitness Bits.Proofs.SendUnlocks.
Require Bits.Proofs.CompactSize Bits.Model.CompactSize.
Import ListNotations.
Import Coq.Init.Byte.
Local Open Scope Z_scope.
Local Open Scope result_scope.

(* ------------------------------------------------------------------------------------------------ script() *)
Lemma script_data_inv : forall ds bs, script (map hex_of_bytes ds) = Ok bs ->
  bs = push_ser ds /\ Forall (fun d => lenZ d < 2 ^ 32) ds.
Proof.
  induction ds as [|d ds IH]; intros bs H.
  - cbn in H. injection H as <-. split; [reflexivity|constructor].
  - cbn [map script] in H. apply bind_ok in H as (x & Hx & H). apply bind_ok in H as (y & Hy & H). injection H as <-.
    destruct (IH y Hy) as (-> & Hall).
    destruct (Z.lt_ge_cases (lenZ d) (2 ^ 32)) as [Hlt|Hge].
    + rewrite script_arg_data in Hx by (pose proof (lenZ_nonneg d); lia). injection Hx as <-.
      split; [reflexivity|constructor; assumption].
    + rewrite script_arg_data_too_big in Hx by exact Hge. discriminate.
Qed.

Lemma script_arg_op0 : script_arg s_OP_0 = Ok [x00].
Proof. vm_compute. reflexivity. Qed.

Lemma script_op0_data_inv ds bs : script (s_OP_0 :: map hex_of_bytes ds) = Ok bs ->
  bs = push_ser ([] :: ds) /\ Forall (fun d => lenZ d < 2 ^ 32) ([] :: ds).
Proof.
  intros H. cbn [script] in H. rewrite script_arg_op0 in H. cbn [bind] in H.
  apply bind_ok in H as (y & Hy & H). injection H as <-. destruct (script_data_inv ds y Hy) as (-> & Hall).
  split; [reflexivity|]. constructor; [cbn; lia|exact Hall].
Qed.

(* ------------------------------------------------------------------------------------------------ script(.., witness=True) *)
Lemma script_w_arg_op0 : script_w_arg s_OP_0 = Ok [x00].
Proof. vm_compute. reflexivity. Qed.

Lemma script_w_arg_data d x : script_w_arg (hex_of_bytes d) = Ok x -> x = spec_witness_item d.
Proof.
  unfold script_w_arg. rewrite s_OP_eq, hex_not_OP, fromhex_hex. cbn [bind]. intros H.
  apply bind_ok in H as (l & Hl & H). injection H as <-.
  apply Bits.Proofs.CompactSize.compact_size_uint_inv in Hl as (_ & ->). reflexivity.
Qed.

Lemma script_w_args_data : forall ds body, script_w_args (map hex_of_bytes ds) = Ok body ->
  body = concat (map spec_witness_item ds).
Proof.
  induction ds as [|d ds IH]; intros body H.
  - cbn in H. now injection H as <-.
  - cbn [map script_w_args] in H. apply bind_ok in H as (x & Hx & H). apply bind_ok in H as (y & Hy & H).
    injection H as <-. rewrite (script_w_arg_data d x Hx), (IH y Hy). reflexivity.
Qed.

Lemma script_w_data ds bs : script_w (map hex_of_bytes ds) = Ok bs -> bs = spec_witness ds.
Proof.
  unfold script_w. intros H. apply bind_ok in H as (c & Hc & H). apply bind_ok in H as (body & Hb & H). injection H as <-.
  apply Bits.Proofs.CompactSize.compact_size_uint_inv in Hc as (_ & ->).
  rewrite (script_w_args_data ds body Hb). unfold spec_witness, lenZ. now rewrite map_length.
Qed.

Lemma script_w_op0_data ds bs : script_w (s_OP_0 :: map hex_of_bytes ds) = Ok bs -> bs = spec_witness ([] :: ds).
Proof.
  unfold script_w. intros H. apply bind_ok in H as (c & Hc & H). apply bind_ok in H as (body & Hb & H). injection H as <-.
  apply Bits.Proofs.CompactSize.compact_size_uint_inv in Hc as (_ & ->).
  cbn [script_w_args] in Hb. rewrite script_w_arg_op0 in Hb. cbn [bind] in Hb.
  apply bind_ok in Hb as (y & Hy & Hb). injection Hb as <-.
  rewrite (script_w_args_data ds y Hy). unfold spec_witness, lenZ. cbn [length map concat]. rewrite map_length. reflexivity.
Qed.

(* ------------------------------------------------------------------------------------------------ for_inputs *)
Lemma for_inputs_spec : forall nins i f l, for_inputs nins i f = Ok l ->
  length l = nins /\ forall j, (j < nins)%nat -> exists x, nth_error l j = Some x /\ f (i + j)%nat = Ok x.
Proof.
  induction nins as [|nins IH]; intros i f l H.
  - cbn in H. injection H as <-. split; [reflexivity|]. intros j Hj. lia.
  - cbn [for_inputs] in H. apply bind_ok in H as (x & Hx & H). apply bind_ok in H as (rest & Hr & H). injection H as <-.
    destruct (IH (S i) f rest Hr) as (L & Hn). split; [cbn [length]; now rewrite L|].
    intros [|j] Hj.
    + exists x. rewrite Nat.add_0_r. split; [reflexivity|exact Hx].
    + destruct (Hn j ltac:(lia)) as (y & Ey & Fy). exists y. split; [exact Ey|].
      replace (i + S j)%nat with (S i + j)%nat by lia. exact Fy.
Qed.

Lemma nth_error_repeat {A} (x : A) n j : (j < n)%nat -> nth_error (repeat x n) j = Some x.
Proof. revert j. induction n as [|n IH]; intros [|j] H; cbn [repeat nth_error]; try lia; auto. apply IH. lia. Qed.

(* ------------------------------------------------------------------------------------------------ multisig_dummy *)
Lemma enc_multisig_asm m pks : (1 <= m <= length pks)%nat -> (length pks <= 16)%nat -> Forall pk_len_ok pks ->
  enc_inner (I_multisig m pks) = spec_asm (tpl_multisig (Z.of_nat m) pks) /\
  Forall valid_item (tpl_multisig (Z.of_nat m) pks).
Proof.
  intros Hm Hn Hk.
  assert (Vm : 0 <= Z.of_nat m <= 16) by lia. assert (Vn : 0 <= lenZ pks <= 16) by (unfold lenZ; lia).
  assert (Hk' : Forall (fun k => 1 <= lenZ k <= 75) pks).
  { eapply Forall_impl; [|exact Hk]. intros k [E|E]; unfold lenZ; rewrite E; lia. }
  split.
  - unfold tpl_multisig. cbn [enc_inner].
    repeat rewrite ?spec_asm_cons, ?spec_asm_app, ?spec_asm_data, ?spec_asm_nil.
    rewrite (item_op _ _ (small_sv _ Vm)), (item_op _ _ (small_sv _ Vn)), (item_op _ _ sv_CHECKMULTISIG).
    unfold small_val. destruct (Z.eqb_spec (Z.of_nat m) 0); [lia|]. destruct (Z.eqb_spec (lenZ pks) 0); [unfold lenZ in *; lia|].
    cbn [app]. f_equal. f_equal.
    clear -Hk'. induction Hk' as [|k ks H _ IH]; [reflexivity|]. cbn [map concat]. rewrite IH.
    rewrite spec_push_direct by lia. reflexivity.
  - unfold tpl_multisig. constructor; [exact (small_valid _ Vm)|]. apply Forall_app. split; [now apply valid_data_small|].
    constructor; [exact (small_valid _ Vn)|]. constructor; [exact (valid_op _ _ sv_CHECKMULTISIG eq_refl)|constructor].
Qed.

Lemma rep_checkmultisig : render (canon (Op n_CHECKMULTISIG)) = s_CHECKMULTISIG.
Proof. vm_compute. reflexivity. Qed.
Lemma rep_checksig : render (canon (Op n_CHECKSIG)) = s_CHECKSIG.
Proof. vm_compute. reflexivity. Qed.

Lemma multisig_dummy_multisig m pks :
  wf_inner (I_multisig m pks) ->
  multisig_dummy (enc_inner (I_multisig m pks)) = Ok [s_OP_0].
Proof.
  intros (Hm & Hn & Hk). destruct (enc_multisig_asm m pks Hm Hn Hk) as (E & V).
  unfold multisig_dummy. rewrite E, (decode_spec_asm _ V). cbn [bind].
  unfold tpl_multisig.
  replace (Op (n_small (Z.of_nat m)) :: map Data pks ++ [Op (n_small (lenZ pks)); Op n_CHECKMULTISIG])
    with ((Op (n_small (Z.of_nat m)) :: map Data pks ++ [Op (n_small (lenZ pks))]) ++ [Op n_CHECKMULTISIG])
    by (cbn [app]; now rewrite <- app_assoc).
  rewrite !map_app, rev_app_distr. cbn [map rev app]. rewrite rep_checkmultisig. reflexivity.
Qed.

Lemma multisig_dummy_p2pk pk :
  pk_len_ok pk -> multisig_dummy (enc_inner (I_p2pk pk)) = Ok [].
Proof.
  intros W.
  assert (L : 1 <= lenZ pk <= 75) by (destruct W as [E|E]; unfold lenZ; rewrite E; lia).
  assert (E : enc_inner (I_p2pk pk) = spec_asm (tpl_p2pk pk)).
  { unfold tpl_p2pk. cbn [enc_inner]. rewrite spec_asm_cons, spec_asm_cons, spec_asm_nil, item_data, (item_op _ _ sv_CHECKSIG).
    rewrite spec_push_direct by lia. reflexivity. }
  assert (V : Forall valid_item (tpl_p2pk pk)).
  { unfold tpl_p2pk. constructor; [cbn [valid_item]; rewrite pow32; lia|].
    constructor; [exact (valid_op _ _ sv_CHECKSIG eq_refl)|constructor]. }
  unfold multisig_dummy. rewrite E, (decode_spec_asm _ V). cbn [bind]. unfold tpl_p2pk. cbn [map rev app].
  rewrite rep_checksig. reflexivity.
Qed.

(* ------------------------------------------------------------------------------------------------ witness programs *)
Lemma p2wpkh_spk_20 h : length h = 20%nat -> p2wpkh_script_pubkey h 0 = Ok (spk_p2wpkh h).
Proof.
  intros L. unfold p2wpkh_script_pubkey. rewrite (small_getattr 0) by lia. cbn [bind].
  rewrite len1_ok by (unfold lenZ; rewrite L; lia). unfold lenZ. rewrite L. reflexivity.
Qed.
Lemma p2wsh_spk_32 h : length h = 32%nat -> p2wsh_script_pubkey h 0 = Ok (spk_p2wsh h).
Proof.
  intros L. unfold p2wsh_script_pubkey, p2wpkh_script_pubkey. rewrite (small_getattr 0) by lia. cbn [bind].
  rewrite len1_ok by (unfold lenZ; rewrite L; lia). unfold lenZ. rewrite L. reflexivity.
Qed.

Lemma script_single d : lenZ d < 2 ^ 32 -> script [hex_of_bytes d] = Ok (push_ser [d]).
Proof.
  intros H. cbn [script]. rewrite script_arg_data by (pose proof (lenZ_nonneg d); lia). cbn [bind].
  unfold push_ser. cbn [map concat]. reflexivity.
Qed.

(* ------------------------------------------------------------------------------------------------ the P2WPKH scriptCode *)
Section ScriptCode.
  Variables p a n : Z.
  Variable G : Bits.Model.Ecmath.point.
  Variable sha256 ripemd160 : bytes -> bytes.
  Hypothesis Hr160 : forall m, length (ripemd160 m) = 20%nat.

  Lemma p2pkh_code_script h : length h = 20%nat ->
    script [s_DUP; s_HASH160; hex_of_bytes h; s_EQUALVERIFY; s_CHECKSIG] = Ok (p2pkh_code h).
  Proof.
    intros L.
    assert (V : Forall valid_item (tpl_p2pkh h)).
    { unfold tpl_p2pkh.
      constructor; [exact (valid_op _ _ sv_DUP eq_refl)|]. constructor; [exact (valid_op _ _ sv_HASH160 eq_refl)|].
      constructor; [cbn [valid_item]; unfold lenZ; rewrite L, pow32; lia|].
      constructor; [exact (valid_op _ _ sv_EQUALVERIFY eq_refl)|].
      constructor; [exact (valid_op _ _ sv_CHECKSIG eq_refl)|constructor]. }
    pose proof (script_items _ V) as H. unfold tpl_p2pkh in H. cbn [map render] in H.
    change n_DUP with s_DUP in H at 1. change n_HASH160 with s_HASH160 in H at 1.
    change n_EQUALVERIFY with s_EQUALVERIFY in H at 1. change n_CHECKSIG with s_CHECKSIG in H at 1.
    rewrite H. f_equal.
    rewrite !spec_asm_cons, spec_asm_nil, item_data, (item_op _ _ sv_DUP), (item_op _ _ sv_HASH160),
      (item_op _ _ sv_EQUALVERIFY), (item_op _ _ sv_CHECKSIG).
    rewrite spec_push_direct by (unfold lenZ; rewrite L; lia). unfold lenZ. rewrite L. reflexivity.
  Qed.

  Lemma p2pkh_code_length h : length h = 20%nat -> length (p2pkh_code h) = 25%nat.
  Proof. intros L. unfold p2pkh_code. cbn [app length]. rewrite app_length, L. reflexivity. Qed.

  (* the scriptCode of the p2wpkh kinds: 19 76 a9 14 HASH160(pubkey) 88 ac *)
  Theorem scriptcode_wpkh (k : keyinfo) sc :
    is_kind (ki_type k) [k_p2wpkh; k_p2sh_p2wpkh] = true ->
    scriptcode_of p a n G sha256 ripemd160 k = Ok sc ->
    exists k0 pk, hd_error (ki_keys k) = Some k0 /\ pub p a n G k0 true = Ok pk /\
                  sc = ser_script (p2pkh_code (hash160 sha256 ripemd160 pk)) /\
                  Z.of_nat (length (p2pkh_code (hash160 sha256 ripemd160 pk))) < 2 ^ 64.
  Proof.
    intros Hk H. unfold scriptcode_of in H. rewrite Hk in H.
    apply bind_ok in H as (k0 & Hk0 & H). apply bind_ok in H as (pk & Hpk & H). apply bind_ok in H as (inner & Hi & H).
    exists k0, pk. unfold hd_r in Hk0. destruct (hd_error (ki_keys k)) as [k0'|]; [|discriminate]. injection Hk0 as ->.
    split; [reflexivity|]. split; [exact Hpk|].
    assert (L : length (hash160 sha256 ripemd160 pk) = 20%nat) by apply Hr160.
    rewrite (p2pkh_code_script _ L) in Hi. injection Hi as <-.
    pose proof (p2pkh_code_length _ L) as L25.
    rewrite script_single in H by (unfold lenZ; rewrite L25; lia). injection H as <-.
    split; [|rewrite L25; lia].
    unfold push_ser. cbn [map concat]. rewrite app_nil_r.
    rewrite spec_push_direct by (unfold lenZ; rewrite L25; lia). unfold ser_script, lenZ. rewrite L25. reflexivity.
  Qed.
End ScriptCode.
