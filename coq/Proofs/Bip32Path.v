(* wallet/hd.py derive_from_path: every step is the BIP's child extended key (all six fields), the whole path is the
   BIP's derivation, and paths compose. *)
From Coq Require Import ZArith List Bool Lia Zpow_facts.
Require Import Bits.Lib.Result Bits.Lib.Bytes Bits.Lib.Group Bits.Model.Ecmath Bits.Proofs.Ecmath Bits.Proofs.Ecdsa
  Bits.Model.Keys Bits.Model.Base58 Bits.Proofs.Base58 Bits.Model.Sec1 Bits.Proofs.Sec1
  Bits.Model.Bip32 Bits.Proofs.Bip32 Bits.Proofs.Bip32Ser Bits.Proofs.Bip32Text.
Require Bits.Spec.Bip32.
Import ListNotations.
Import Coq.Init.Byte.
Local Open Scope Z_scope.

Module S := Bits.Spec.Bip32.

Definition idx_ok (i : Z) : Prop := 0 <= i < 2 ^ 32.

Section Path.
  Variables p a b n : Z.
  Variable G : point.
  Hypothesis CF : curve_facts p a b n G.
  Hypothesis SQ : sqrt_facts p.
  Hypothesis Hwp : p <= 2 ^ 256.
  Hypothesis Hwn : n <= 2 ^ 256.
  Variable hmac : bytes -> bytes -> bytes.
  Hypothesis hmac_len : forall k m, length (hmac k m) = 64%nat.
  Variable sha256 ripemd160 : bytes -> bytes.
  Hypothesis sha256_len : forall m, length (sha256 m) = 32%nat.
  Hypothesis ripemd160_len : forall m, length (ripemd160 m) = 20%nat.

  Let Hp := cf_p _ _ _ _ _ CF.
  Let Ha := cf_a _ _ _ _ _ CF.
  Let Hb := cf_b _ _ _ _ _ CF.
  Let CG := cf_group _ _ _ _ _ CF.
  Let Hn := cf_n _ _ _ _ _ CF.

  Notation kG := (fun k => smul p a k G).
  Notation wf := (S.wf p a b n).
  Notation Schild := (S.child n kG (padd p a) hmac sha256 ripemd160).
  Notation Sderive := (S.derive n kG (padd p a) hmac sha256 ripemd160).
  Notation Enc := (enc sha256).
  Notation deser := (deserialized_extended_key p a b n sha256).
  Notation dstep := (derive_step p a b n G hmac sha256 ripemd160).
  Notation dsteps := (derive_steps p a b n G hmac sha256 ripemd160).
  Notation dfp := (derive_from_path p a b n G hmac sha256 ripemd160).
  Notation ser := (serialized_extended_key sha256).

  Definition xpub (X : S.xkey) : bool := S.is_pub (S.xk_key X).

  Lemma fp_len m : length (firstn 4 (ripemd160 m)) = 4%nat.
  Proof. rewrite firstn_length, ripemd160_len. reflexivity. Qed.
  Lemma IR_len c m : length (skipn 32 (hmac c m)) = 32%nat.
  Proof. rewrite skipn_length, hmac_len. reflexivity. Qed.

  Lemma spec_priv_cc k c i ki ci : S.ckd_priv n kG hmac k c i = Some (ki, ci) -> length ci = 32%nat.
  Proof.
    unfold S.ckd_priv.
    set (I := if S.hardened_offset <=? i then hmac c (x00 :: S.ser256 k ++ S.ser32 i)
              else hmac c (S.serP (smul p a k G) ++ S.ser32 i)).
    destruct (_ || _); [discriminate|]. intros H.
    assert (E : ci = skipn 32 I) by congruence. rewrite E. unfold I.
    destruct (S.hardened_offset <=? i); apply IR_len.
  Qed.
  Lemma spec_pub_cc K c i Ki ci : S.ckd_pub n kG (padd p a) hmac K c i = Some (Ki, ci) -> length ci = 32%nat.
  Proof.
    unfold S.ckd_pub. destruct (_ <=? i); [discriminate|].
    set (I := hmac c (S.serP K ++ S.ser32 i)).
    destruct (n <=? _); [discriminate|].
    destruct (padd _ _ _); [|discriminate]. intros H.
    assert (E : ci = skipn 32 I) by congruence. rewrite E. apply IR_len.
  Qed.

  (* the child keeps network and key type, and sits one level deeper *)
  Lemma child_shape X i X' : Schild X i = Some X' ->
    S.xk_testnet X' = S.xk_testnet X /\ xpub X' = xpub X /\ S.xk_depth X' = S.xk_depth X + 1 /\ S.xk_child X' = i.
  Proof.
    unfold S.child, xpub. destruct (S.xk_key X) as [k|K].
    - destruct (S.ckd_priv _ _ _ _ _ _) as [[ki ci]|]; [|discriminate]. intros H. injection H as <-. auto.
    - destruct (S.ckd_pub _ _ _ _ _ _ _) as [[Ki ci]|]; [|discriminate]. intros H. injection H as <-. auto.
  Qed.

  Lemma derive_shape l : forall X X', Sderive X l = Some X' ->
    S.xk_testnet X' = S.xk_testnet X /\ xpub X' = xpub X /\ S.xk_depth X' = S.xk_depth X + Z.of_nat (length l).
  Proof.
    induction l as [|i l IH]; intros X X' H; cbn [S.derive] in H.
    - injection H as <-. cbn [length]. repeat split; lia.
    - destruct (Schild X i) as [X1|] eqn:C; [|discriminate].
      destruct (child_shape X i X1 C) as (T & P & D & _). destruct (IH X1 X' H) as (T' & P' & D').
      rewrite T', P', D', T, P, D. cbn [length]. repeat split; lia.
  Qed.

  Lemma depth_bytes d : 0 <= d <= 255 -> of_be [z2b d] + 1 = d + 1.
  Proof. intros H. rewrite of_be_1, b2z_z2b by lia. reflexivity. Qed.

  Lemma to_be_chk_depth d : to_be_chk 1 d = if (0 <=? d) && (d <=? 255) then Ok [z2b d] else Err OverflowE.
  Proof.
    destruct (Z.leb_spec 0 d); destruct (Z.leb_spec d 255); cbn [andb].
    - rewrite to_be_chk_ok by (change (256 ^ Z.of_nat 1) with 256; lia). reflexivity.
    - apply to_be_chk_err. change (256 ^ Z.of_nat 1) with 256. lia.
    - apply to_be_chk_err. lia.
    - apply to_be_chk_err. lia.
  Qed.

  (* ---------- one loop iteration = the BIP's child extended key, in all six fields ---------- *)
  Theorem derive_step_spec X i : wf X -> idx_ok i ->
    match Schild X i with
    | Some X' => if S.xk_depth X' <=? 255
                 then dstep (xpub X) (S.xk_testnet X) (Enc X) i = Ok (Enc X') /\ wf X'
                 else dstep (xpub X) (S.xk_testnet X) (Enc X) i = Err OverflowE
    | None => exists e, dstep (xpub X) (S.xk_testnet X) (Enc X) i = Err e
    end.
  Proof.
    intros W Hi. pose proof W as (Hd & Lfp & Hch & Lcc & Hk & H0).
    unfold derive_step. rewrite (deser_enc p a b n SQ Ha Hb Hwp Hwn sha256 sha256_len X W). cbn [bind].
    destruct X as [tn depth fp child cc key]. unfold fields_of, xpub, S.child.
    cbn [S.xk_testnet S.xk_depth S.xk_fp S.xk_child S.xk_cc S.xk_key] in *.
    rewrite depth_bytes by exact Hd.
    destruct key as [k|K]; cbn [S.is_pub key_of S.key_valid] in *.
    - (* private parent *)
      pose proof (CKDpriv_spec p a b n G CF Hwp Hwn hmac k cc i Hk Hi) as CS.
      destruct (S.ckd_priv n kG hmac k cc i) as [[ki ci]|] eqn:SP.
      2:{ destruct CS as (e & E & _). rewrite E. cbn [bind]. eauto. }
      destruct CS as (E & Rk). rewrite E. cbn [bind fst snd S.xk_depth].
      rewrite (point_ok p a b n G CF) by lia. cbn [bind].
      assert (KS : exists x y, smul p a k G = Some (x, y)) by (apply (kG_some p a b n G CF); lia).
      rewrite (ser_p_ok p a b Hwp) by
        (try apply (kG_oncurve p a b n G CF); try lia; destruct KS as (x & y & ->); discriminate).
      cbn [bind]. rewrite to_be_chk_depth.
      destruct (Z.leb_spec 0 (depth + 1)); [|lia]. cbn [andb].
      destruct (Z.leb_spec (depth + 1) 255) as [D255|D255]; cbn [bind]; [|reflexivity].
      change (to_be_chk 4 i) with (ser_32 i). rewrite ser_32_ok by exact Hi. cbn [bind].
      set (X' := {| S.xk_testnet := tn; S.xk_depth := depth + 1;
                    S.xk_fp := S.fingerprint sha256 ripemd160 (smul p a k G); S.xk_child := i; S.xk_cc := ci;
                    S.xk_key := S.Prv ki |}).
      assert (W' : wf X').
      { unfold S.wf, X'. cbn [S.xk_testnet S.xk_depth S.xk_fp S.xk_child S.xk_cc S.xk_key S.key_valid].
        split; [lia|]. split; [apply fp_len|]. split; [exact Hi|]. split; [exact (spec_priv_cc _ _ _ _ _ SP)|].
        split; [exact Rk|]. intros Z0. lia. }
      split; [|exact W'].
      exact (ser_enc p a b n SQ Ha Hb Hwp Hwn sha256 sha256_len X' W' _ _ (or_introl eq_refl) (or_introl eq_refl)).
    - (* public parent *)
      destruct K as [[x y]|]; cbn [S.on_curve] in Hk; [|contradiction].
      assert (OC : oncurve p a b (Some (x, y))) by now apply (on_curve_iff p a b SQ).
      pose proof (CKDpub_spec p a b n G CF Hwp hmac (Some (x, y)) cc i OC ltac:(discriminate) Hi) as CS.
      destruct (S.ckd_pub n kG (padd p a) hmac (Some (x, y)) cc i) as [[Ki ci]|] eqn:SP.
      2:{ destruct CS as [(e & E & _)|(ci & E)]; rewrite E; cbn [bind fst snd]; [eauto|].
          rewrite (ser_p_ok p a b Hwp) by (auto; discriminate). cbn [bind]. rewrite to_be_chk_depth.
          destruct ((0 <=? depth + 1) && (depth + 1 <=? 255)); cbn [bind]; [|eauto].
          destruct (to_be_chk 4 i); cbn [bind]; [|eauto]. unfold serialized_extended_key. cbn [bind]. eauto. }
      destruct CS as (E & OCi & NNi). rewrite E. cbn [bind fst snd S.xk_depth].
      rewrite (ser_p_ok p a b Hwp) by (auto; discriminate). cbn [bind]. rewrite to_be_chk_depth.
      destruct (Z.leb_spec 0 (depth + 1)); [|lia]. cbn [andb].
      destruct (Z.leb_spec (depth + 1) 255) as [D255|D255]; cbn [bind]; [|reflexivity].
      change (to_be_chk 4 i) with (ser_32 i). rewrite ser_32_ok by exact Hi. cbn [bind].
      set (X' := {| S.xk_testnet := tn; S.xk_depth := depth + 1;
                    S.xk_fp := S.fingerprint sha256 ripemd160 (Some (x, y)); S.xk_child := i; S.xk_cc := ci;
                    S.xk_key := S.Pub Ki |}).
      assert (W' : wf X').
      { unfold S.wf, X'. cbn [S.xk_testnet S.xk_depth S.xk_fp S.xk_child S.xk_cc S.xk_key S.key_valid].
        split; [lia|]. split; [apply fp_len|]. split; [exact Hi|]. split; [exact (spec_pub_cc _ _ _ _ _ SP)|].
        split; [|intros Z0; lia]. destruct Ki as [[xi yi]|]; [|congruence]. now apply (on_curve_iff p a b SQ). }
      split; [|exact W'].
      exact (ser_enc p a b n SQ Ha Hb Hwp Hwn sha256 sha256_len X' W' _ _ (or_introl eq_refl) (or_introl eq_refl)).
  Qed.

  (* an index outside 0 .. 2^32-1 always fails (ser32) *)
  Lemma derive_step_bad_index X i : wf X -> ~ idx_ok i ->
    exists e, dstep (xpub X) (S.xk_testnet X) (Enc X) i = Err e.
  Proof.
    intros W Hi. unfold derive_step. rewrite (deser_enc p a b n SQ Ha Hb Hwp Hwn sha256 sha256_len X W). cbn [bind].
    destruct X as [tn depth fp child cc key]. unfold fields_of, xpub.
    cbn [S.xk_testnet S.xk_depth S.xk_fp S.xk_child S.xk_cc S.xk_key] in *.
    destruct key as [k|K]; cbn [S.is_pub key_of].
    - assert (E : exists e, CKDpriv p a n G hmac k cc i = Err e).
      { unfold CKDpriv. rewrite (ser_32_err i Hi).
        destruct (i >=? HARDENED_OFFSET).
        - destruct (ser_256 k); cbn [bind]; eauto.
        - destruct (point_ p a G k) as [P|]; cbn [bind]; [|eauto]. destruct (ser_p P); cbn [bind]; eauto. }
      destruct E as (e & ->). cbn [bind]. eauto.
    - assert (E : exists e, CKDpub p a n G hmac K cc i = Err e).
      { unfold CKDpub. rewrite (ser_32_err i Hi). destruct (i >=? HARDENED_OFFSET); [eauto|].
        destruct (ser_p K); cbn [bind]; eauto. }
      destruct E as (e & ->). cbn [bind]. eauto.
  Qed.

  Lemma derive_step_ok_inv X i y : wf X -> dstep (xpub X) (S.xk_testnet X) (Enc X) i = Ok y ->
    exists X', Schild X i = Some X' /\ y = Enc X' /\ wf X' /\ idx_ok i.
  Proof.
    intros W H.
    assert (Hi : idx_ok i).
    { destruct (Z.le_gt_cases 0 i); [destruct (Z.lt_ge_cases i (2 ^ 32)); [split; assumption|]|];
        destruct (derive_step_bad_index X i W ltac:(unfold idx_ok; lia)) as (e & E); rewrite E in H; discriminate. }
    pose proof (derive_step_spec X i W Hi) as SP.
    destruct (Schild X i) as [X'|]; [|destruct SP as (e & E); rewrite E in H; discriminate].
    destruct (S.xk_depth X' <=? 255); [|rewrite SP in H; discriminate].
    destruct SP as (E & W'). rewrite E in H. injection H as <-. eauto.
  Qed.

  (* ---------- the loop = the BIP's derivation along the index list ---------- *)
  Theorem derive_steps_spec l : forall X, wf X -> Forall idx_ok l ->
    match Sderive X l with
    | Some X' => if S.xk_depth X' <=? 255
                 then dsteps (xpub X) (S.xk_testnet X) l (Enc X) = Ok (Enc X') /\ wf X'
                 else exists e, dsteps (xpub X) (S.xk_testnet X) l (Enc X) = Err e
    | None => exists e, dsteps (xpub X) (S.xk_testnet X) l (Enc X) = Err e
    end.
  Proof.
    induction l as [|i l IH]; intros X W Hl; cbn [S.derive derive_steps].
    - destruct W as (Hd & W'). destruct (Z.leb_spec (S.xk_depth X) 255); [|lia]. split; [reflexivity|]. split; assumption.
    - inversion Hl as [|? ? Hi Hl']; subst.
      pose proof (derive_step_spec X i W Hi) as SP.
      destruct (Schild X i) as [X1|] eqn:C; [|destruct SP as (e & ->); cbn [bind]; eauto].
      destruct (child_shape X i X1 C) as (T & P & D & _).
      destruct (Z.leb_spec (S.xk_depth X1) 255) as [D1|D1].
      + destruct SP as (E & W1). rewrite E. cbn [bind]. rewrite <- T, <- P. now apply IH.
      + rewrite SP. cbn [bind].
        destruct (Sderive X1 l) as [X'|] eqn:DR; [|eauto].
        destruct (derive_shape l X1 X' DR) as (_ & _ & D').
        destruct (Z.leb_spec (S.xk_depth X') 255); [lia|]. eauto.
  Qed.

  Lemma derive_steps_app pub tn l1 l2 x :
    dsteps pub tn (l1 ++ l2) x = bind (dsteps pub tn l1 x) (dsteps pub tn l2).
  Proof.
    revert x. induction l1 as [|i l1 IH]; intros x; cbn [app derive_steps bind]; [reflexivity|].
    destruct (dstep pub tn x i) as [x'|e]; cbn [bind]; [apply IH|reflexivity].
  Qed.

  Lemma derive_steps_ok_inv l : forall X y, wf X -> dsteps (xpub X) (S.xk_testnet X) l (Enc X) = Ok y ->
    exists X', Sderive X l = Some X' /\ y = Enc X' /\ wf X' /\ Forall idx_ok l.
  Proof.
    induction l as [|i l IH]; intros X y W H; cbn [derive_steps S.derive] in *.
    - injection H as <-. eauto.
    - destruct (dstep (xpub X) (S.xk_testnet X) (Enc X) i) as [x1|e] eqn:E1; cbn [bind] in H; [|discriminate].
      destruct (derive_step_ok_inv X i x1 W E1) as (X1 & C & -> & W1 & Hi). rewrite C.
      destruct (child_shape X i X1 C) as (T & P & _). rewrite <- T, <- P in H.
      destruct (IH X1 y W1 H) as (X' & DR & -> & W' & Hl). exists X'.
      split; [exact DR|]. split; [reflexivity|]. split; [exact W'|]. constructor; assumption.
  Qed.

  (* ---------- the path text ---------- *)
  Definition kind_ok (pub : bool) (v : bytes) : bool := if pub then is_public_version v else is_private_version v.
  Definition version_of (f : fields) : bytes := let '(v, _, _, _, _, _) := f in v.

  Lemma dfp_join pub l x : Forall no_slash l ->
    dfp (join (pfx pub) l) x =
    bind (deser x) (fun f =>
      if kind_ok pub (version_of f)
      then bind (ptree l) (fun idxs => dsteps pub (is_testnet_version (version_of f)) idxs x)
      else Err ValueE).
  Proof.
    intros Hl. unfold derive_from_path. destruct (deser x) as [f|e]; cbn [bind]; [|reflexivity].
    destruct f as [[[[[v d] fp] ch] cc] key]. cbn [version_of].
    destruct l as [|t l].
    - unfold join. cbn [map concat]. rewrite app_nil_r. rewrite ptree_nil. cbn [bind derive_steps].
      destruct pub; cbn [pfx kind_ok].
      + replace (bytes_eqb path_M path_m) with false by reflexivity. rewrite bytes_eqb_refl'. reflexivity.
      + rewrite bytes_eqb_refl'. reflexivity.
    - rewrite (path_tree_join (pfx pub) (t :: l) (no_slash_pfx pub) Hl).
      unfold join. cbn [map concat].
      destruct pub; cbn [pfx kind_ok]; unfold path_M, path_m, slash; cbn [app bytes_eqb starts_with];
        rewrite ?byte_eqb_refl; cbn [andb].
      + replace (byte_eqb x4d x6d) with false by reflexivity. cbn [andb].
        destruct (is_public_version v); cbn [bind]; reflexivity.
      + replace (byte_eqb x6d x4d) with false by reflexivity. cbn [andb].
        destruct (is_private_version v); cbn [bind]; reflexivity.
  Qed.

  Lemma kind_ok_enc pub X : kind_ok pub (version_of (fields_of X)) = Bool.eqb pub (xpub X).
  Proof.
    unfold fields_of, version_of, kind_ok, xpub.
    destruct (version_flags (S.is_pub (S.xk_key X)) (S.xk_testnet X)) as (Vp & Vr & _).
    destruct pub; [rewrite Vp|rewrite Vr]; destruct (S.is_pub (S.xk_key X)); reflexivity.
  Qed.
  Lemma testnet_enc X : is_testnet_version (version_of (fields_of X)) = S.xk_testnet X.
  Proof. unfold fields_of, version_of. now destruct (version_flags (S.is_pub (S.xk_key X)) (S.xk_testnet X)) as (_ & _ & Vt & _). Qed.

  (* C09 path_compose: deriving along p/q equals deriving along p and then along q from the result -- including
     every failure and its exception class, provided the components of q are well-formed numbers (a malformed
     component of q is detected before the first step in the one-shot call, after the steps of p otherwise) *)
  Theorem path_compose pub l1 l2 x :
    Forall no_slash (l1 ++ l2) -> (exists i2, ptree l2 = Ok i2) ->
    dfp (join (pfx pub) (l1 ++ l2)) x =
    bind (dfp (join (pfx pub) l1) x) (fun y => dfp (join (pfx pub) l2) y).
  Proof.
    intros Hl (i2 & P2). apply Forall_app in Hl as [H1 H2].
    rewrite (dfp_join pub (l1 ++ l2)) by (apply Forall_app; auto). rewrite (dfp_join pub l1) by exact H1.
    destruct (deser x) as [f|e] eqn:D; cbn [bind]; [|reflexivity].
    destruct (deser_inv p a b n SQ Ha Hb Hwp Hwn sha256 sha256_len x f D) as (X & W & -> & ->).
    rewrite kind_ok_enc, testnet_enc.
    destruct (Bool.eqb pub (xpub X)) eqn:K; [|reflexivity]. apply eqb_prop in K. subst pub.
    rewrite ptree_app, P2.
    destruct (ptree l1) as [i1|e] eqn:P1; cbn [bind]; [|now rewrite (ptree_err _ _ P1)].
    rewrite derive_steps_app.
    destruct (dsteps (xpub X) (S.xk_testnet X) i1 (Enc X)) as [y|e] eqn:DS; cbn [bind]; [|reflexivity].
    destruct (derive_steps_ok_inv i1 X y W DS) as (X' & DR & -> & W' & _).
    destruct (derive_shape i1 X X' DR) as (T & P & _).
    rewrite (dfp_join (xpub X) l2) by exact H2.
    rewrite (deser_enc p a b n SQ Ha Hb Hwp Hwn sha256 sha256_len X' W'). cbn [bind].
    rewrite kind_ok_enc, testnet_enc, P, T, eqb_reflx, P2. reflexivity.
  Qed.

  (* C09 derive_matches_spec: from any valid extended key, for the canonical text of any index list, the result is
     the serialisation of the BIP's derived key -- key, chain code, depth, fingerprint, child number, version --
     and derivation fails exactly when the BIP yields no key (invalid child / hardened from public) or the depth
     byte overflows *)
  Theorem derive_matches_spec X l : wf X -> Forall idx_ok l ->
    let path := join (pfx (xpub X)) (map render l) in
    match Sderive X l with
    | Some X' => if S.xk_depth X' <=? 255 then dfp path (Enc X) = Ok (Enc X') /\ wf X'
                 else exists e, dfp path (Enc X) = Err e
    | None => exists e, dfp path (Enc X) = Err e
    end.
  Proof.
    intros W Hl path. unfold path. rewrite dfp_join by now apply no_slash_renders.
    rewrite (deser_enc p a b n SQ Ha Hb Hwp Hwn sha256 sha256_len X W). cbn [bind].
    rewrite kind_ok_enc, testnet_enc, eqb_reflx, ptree_render by exact Hl. cbn [bind].
    exact (derive_steps_spec l X W Hl).
  Qed.

  (* a path of the wrong kind for the key (m/.. with an xpub, M/.. with an xprv) is refused *)
  Theorem path_kind_mismatch X l : wf X -> Forall no_slash l ->
    dfp (join (pfx (negb (xpub X))) l) (Enc X) = Err ValueE.
  Proof.
    intros W Hl. rewrite dfp_join by exact Hl.
    rewrite (deser_enc p a b n SQ Ha Hb Hwp Hwn sha256 sha256_len X W). cbn [bind].
    rewrite kind_ok_enc. destruct (xpub X); reflexivity.
  Qed.

End Path.

Section Xpub.
  Variables p a b n : Z.
  Variable G : point.
  Hypothesis CF : curve_facts p a b n G.
  Hypothesis SQ : sqrt_facts p.
  Hypothesis Hwp : p <= 2 ^ 256.
  Hypothesis Hwn : n <= 2 ^ 256.
  Variable sha256 : bytes -> bytes.
  Hypothesis sha256_len : forall m, length (sha256 m) = 32%nat.
  Let Ha := cf_a _ _ _ _ _ CF.
  Let Hb := cf_b _ _ _ _ _ CF.
  Notation kG := (fun k => smul p a k G).
  Notation wf := (S.wf p a b n).
  Notation Enc := (enc sha256).

  (* get_xpub is the BIP's neutered key at the same position *)
  Theorem get_xpub_spec X : wf X ->
    get_xpub p a b n G sha256 (Enc X) = Ok (Enc (S.neuter_xkey kG X)) /\ wf (S.neuter_xkey kG X).
  Proof.
    intros W. pose proof W as (Hd & Lfp & Hch & Lcc & Hk & H0).
    unfold get_xpub. rewrite (deser_enc p a b n SQ Ha Hb Hwp Hwn sha256 sha256_len X W). cbn [bind].
    destruct X as [tn depth fp child cc key]. unfold fields_of.
    cbn [S.xk_testnet S.xk_depth S.xk_fp S.xk_child S.xk_cc S.xk_key] in *.
    destruct (version_flags (S.is_pub key) tn) as (_ & _ & Vt & _). rewrite Vt.
    set (X' := S.neuter_xkey kG {| S.xk_testnet := tn; S.xk_depth := depth; S.xk_fp := fp; S.xk_child := child;
                                   S.xk_cc := cc; S.xk_key := key |}).
    assert (W' : wf X').
    { unfold X', S.neuter_xkey, S.wf. cbn [S.xk_testnet S.xk_depth S.xk_fp S.xk_child S.xk_cc S.xk_key S.key_valid].
      repeat (split; [assumption|]). split; [|exact H0].
      destruct key as [k|K]; cbn [S.pub_of S.key_valid] in *; [|exact Hk].
      destruct (kG_some p a b n G CF k ltac:(lia)) as (x & y & E). rewrite E.
      apply (on_curve_iff p a b SQ). rewrite <- E. apply (kG_oncurve p a b n G CF). lia. }
    split; [|exact W'].
    destruct key as [k|K]; cbn [key_of].
    - rewrite (point_ok p a b n G CF) by (cbn [S.key_valid] in Hk; lia). cbn [bind].
      exact (ser_enc p a b n SQ Ha Hb Hwp Hwn sha256 sha256_len X' W' _ _ (or_introl eq_refl) (or_introl eq_refl)).
    - cbn [bind].
      exact (ser_enc p a b n SQ Ha Hb Hwp Hwn sha256 sha256_len X' W' _ _ (or_introl eq_refl) (or_introl eq_refl)).
  Qed.
End Xpub.
